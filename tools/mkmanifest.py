#!/usr/bin/env python3
"""Regenerates /verif/MANIFEST.json from the table below (one entry per claimed property)."""
import json, os, subprocess

VERIF = os.path.dirname(os.path.dirname(os.path.abspath(__file__)))

# id -> (category, technique, level text, level note, design ref)
CLAIMED = {
    "C01": ("exploration",
            "stateful property-based testing (rapid): branching operation histories over a pool of live meshes with a bit-exact snapshot invariant after every step",
            "Generated histories (up to 40 steps, <= 8 live meshes) of ~55 public operations (Mesh methods, meshops, repeat, primitives, PLY/OBJ/glTF/STL writers) applied to drawn pool members, so several derivations branch off one base; after every step every live mesh is re-read through the accessors and compared bit for bit with the snapshot taken when it was obtained. A drawn share of steps derives siblings from the previous step's base (two appends on one base with spare slice capacity), one fresh mesh in eight carries NaN/Inf/-0/extreme values, material names contain spaces, and a 'scan' step calls the read-only accessors between edits. Materials carry texture URIs (back-slashes, spaces) and are snapshotted two pointer levels deep; an MTL export step. Sub-check large-history: short histories whose pool starts with a recipe-built mesh above 65 536 vertices. Shrinks to a 5-step history for the Append defect. Sampling level (10^4..10^6 histories), not a proof.",
            "Trusted: oracle.Snapshot reads everything a mesh reports; operations that panic are no-ops for this property; aliasing needing > 40 steps or > 8 live values is out of reach.",
            "DESIGN.md §4 C01"),
    "C02": ("exploration",
            "property-based testing (rapid): generator parameterisations (small counts enumerated) and random operation chains against a well-formedness + accessor-walk validity predicate",
            "Every one of 19 generator families over its accepted parameter range (rows/columns/sides grids enumerated exhaustively for small counts, sampled above) and chains of 1..8 operations from a 50-operation catalogue over generated well-formed meshes and earlier results must return meshes that pass oracle.WF (common attribute length, indices in range, index count fits topology, every primitive walkable) or report failure; a Go runtime error is a violation; every mesh of a chain is re-checked at the end of the chain (an earlier result must not become malformed later), chains favour sibling derivations, and one source in a drawn share has more than 65 536 vertices; paths may be explicitly closed, one attribute name may exist in two dimensions. Sub-check node-generators: the 21 mesh-producing `...NodeData.Process()` wrappers (primitives, extrude, repeat, meshops) with every port unwired or wired to a generated constant incl. boundary counts/sizes. Unmet preconditions are attempted only where the library checks them. Sampling level.",
            "Trusted: oracle.WF, the precondition table in harness/internal/mops (implicit preconditions the library does not check are never violated).",
            "DESIGN.md §4 C02"),
    "C03": ("exploration",
            "property-based testing (rapid): generated meshes x 34 operations against reference implementations over per-corner attribute tuples (bit-exact) and float64 maps",
            "Every layout operation is compared with a reference written from its contract over per-corner attribute tuples (exact by bit pattern, weld: first vertex of the rounding cell), every attribute transform with the stated per-vertex map plus 'indices, topology, materials and all other attributes bit-identical'; generator constructs non-identity indices, shared/duplicated/unreferenced vertices and mixed attribute arities; 'appendTwice' appends to one over-allocated base twice; operations without an absolute length in their contract also run at overall scales 1e-9..1e9; sub-check large-meshes repeats the closed-form operations on recipe-built meshes above 65 536 vertices. Sub-check concurrent-*: 2-5 generated cases run at the same time on their own goroutines after each passed alone (no scratch state may be shared between calls). Sampling level.",
            "Trusted: the reference implementations in harness/c03. Filters/crop only on point topology; don't-care band around minArea; undefined normals not compared.",
            "DESIGN.md §4 C03"),
    "C04": ("exploration",
            "property-based testing (rapid): round trip write->read in three encodings, own header parser + size law, differential between encodings",
            "Generated point clouds and triangle meshes (any index pattern, any subset of recognised and user-named attributes, 60 orders of magnitude) written by ply.Write / custom MeshWriters in ascii, LE and BE: the harness's own header parser checks that the header describes the body (byte/line/token counts, endianness named in the header text), ReadMesh must return the same topology, primitive count and per-corner values at the stored type's precision (float32 image exactly for binary, 1 float32 ulp for ascii text, 1/255 for 8-bit), nothing invented, and the three encodings must decode to the same mesh. Sub-check concurrent-writers: goroutines write meshes sharing attribute maps through default and custom writers; every output must equal the sequential bytes. One case in 25 carries 70..300 extra scalar attributes (records beyond 255 bytes). Sub-check count-sweep: every primitive count 1..4 000 (thorough 1..40 000) once. Sub-check huge-meshes: 2^24+8 vertices with triangles naming vertex numbers a float32 cannot hold, one case per encoding. Sampling level.",
            "Trusted: the harness header parser. Point clouds carry identity indices (format has no point index list); uchar scalars excluded in ascii (known finding ascii-uchar-scalar-raw, pinned reproducer).",
            "DESIGN.md §4 C04"),
    "C05": ("exploration",
            "property-based testing (rapid): write->read and read->write round trips against an independent strict OBJ parser; grammar-based text generator",
            "Both directions: generated lists of 1..4 named meshes with independent attribute subsets and material-range partitions are written, parsed by the harness's own strict OBJ parser (index validity, groups, corner forms, usemtl placement) and read back (triangles in order, per-corner position/normal/uv at float32 precision, material per triangle); OBJ text from a grammar (v/vt/vn pools, g/usemtl in any legal arrangement, four corner forms, comments, CRLF) is loaded and re-saved and the face multiset must be unchanged. Group names include OBJ keywords and exporter defaults (default, off, g, usemtl, ...). Sub-check count-sweep: every triangle count 1..2 500 (thorough 1..25 000) once. Sub-check huge-mesh: one mesh of 2^24+8 vertices whose triangles name vertex numbers beyond 2^24. Sub-check concurrent-*: 2-5 generated cases run at the same time on their own goroutines after each passed alone (no scratch state may be shared between calls). Sampling level.",
            "Trusted: the harness OBJ parser. Domain: whitespace-free distinct names, >= 1 triangle per mesh, ranges partition the triangles, uniform corner form per group, absolute indices.",
            "DESIGN.md §4 C05"),
    "C06": ("exploration",
            "property-based testing (rapid): generated scenes against an independent GLB/JSON/base64 reader applying the glTF 2.0 structural rules, then decoding and de-duplication checks",
            "Generated scenes (0..5 models, shared/equal-by-value meshes and materials, one-field material variants incl. every texture and extension, TRS, GPU instances, lights, both containers, index-width boundary 65535/65536/65537) are written; an independent reader checks container/chunk lengths, every index reference, view/accessor ranges, alignment, min/max, index values, attribute counts, extension declarations, then decodes payloads (float32/integer image), node and instance transforms and checks that shared things are stored once and distinct things never share an entry. Known finding (misaligned views after odd u16 indices) matched by a precise predicate and counted. Sub-check index-count-sweep: every triangle count 1..1 500 (thorough 1..9 000) once. Sub-check concurrent-*: 2-5 generated cases run at the same time on their own goroutines after each passed alone (no scratch state may be shared between calls). Sampling level.",
            "Trusted: the harness glTF reader (written from the specification). Valid scenes only; colour factors compared at the writer's 3-decimal rounding.",
            "DESIGN.md §4 C06"),
    "C07": ("exploration",
            "property-based testing (rapid): size law + independent 50-byte record parser, round trips mesh->bytes->mesh and bytes->Binary->bytes",
            "Generated triangle meshes (any index pattern, +-normals, zero/degenerate triangles, 60 orders of magnitude) and raw well-formed STL byte strings: length == 84+50n, own record parser, positions bit-equal to the float32 image, facet normal = normalised mean / geometric normal (1e-6), Write(Read(bytes)) == bytes, WriteMesh(ReadMesh(bytes)) reproduces the records. Headers include printable, blank-padded text titles starting with 'solid'. Bytes reach the decoder through six reader behaviours (short reads). Sub-check large: 81..131 072 records (beyond one 4 096-byte buffer, 8 and 16 bits, exact multiples of 65 536); count-sweep: every record count 1..3 000 (thorough 1..45 000) once. Sub-check concurrent-*: 2-5 generated cases run at the same time on their own goroutines after each passed alone (no scratch state may be shared between calls). Sampling level.",
            "Trusted: the harness record parser; normals judged only when well-conditioned (stated band).",
            "DESIGN.md §4 C07"),
    "C08": ("exploration",
            "property-based testing (rapid): independent reference ENCODER emits files from the specification's grammar; expected mesh computed from the description",
            "An independent reference encoder (harness/internal/plyref) emits PLY files with any property order, alias spellings, unrecognised scalars, comment/obj_info lines, CRLF headers, uchar/int/uint counts, int/uint indices, triangles and quads, optional texcoord list before/after the index list, in ascii/LE/BE; the decoded mesh must equal the mesh the specification assigns (vertex i = record i, 8-bit /255, quad fan (0,1,2)(0,2,3), per-face uvs per corner, nothing invented). Each file is delivered through one of six reader behaviours (whole, 1 byte per Read, half reads, 7-byte chunks, data with the final error, small bufio); one file in twelve has 100-400 vertices. One file in ~28 is wide (40..600 extra scalar properties: ascii lines of 1..15 KiB, binary records of kilobytes) or has a header comment line of 300..5 000 bytes. Sub-check count-sweep: hand-built files for every vertex count 3..3 000 (thorough 3..30 000). Sub-check huge-files: hand-built files of 2^24+8 vertices whose faces name vertex numbers beyond 2^24 (three encodings, uchar/int counts, int/uint indices). Sampling level.",
            "Trusted: the reference encoder. One scalar type per group; uchar scalars excluded in ascii (known finding, pinned reproducer).",
            "DESIGN.md §4 C08"),
    "C09": ("exploration",
            "property-based testing (rapid): generated unions of analytic shapes at block-boundary positions; closed-oriented-surface validity predicate + exact-SDF distance and reference-volume oracles",
            "Generated unions of spheres/boxes/capsules placed at and around the canvas' 100^3 storage-block boundaries (0..3 axes straddled, negative coordinates), resolutions 0.4..100 (thorough 1000) cubes per unit, cutoffs in [-1 cell, 0]: every directed edge balanced and of multiplicity one, except for the two faces of one known finding (merge by rounding: pinches, and cracks at block seams, both only within tau of a lattice corner and each matched by its own predicate), no repeated vertex in a triangle, positive volume within area x cell of a voxel-counted reference, every vertex within one cell of the exact isosurface. Sub-checks on prescribed lattice samples: all 255 cube configurations through the canvas and through Field.March, every inside/outside assignment of two cells sharing a face (3 x 4 095), random 2..5^3 patterns - closed, consistently oriented, one vertex per cut edge at its midpoint. Cases of the shape sub-check cost 0.3-2.5 s, so ~100 (quick) / ~2400 (thorough) cases. Sampling level (the configuration lists are exhaustive).",
            "Trusted: the exact SDFs and the voxel reference in harness/c09. Strength 1, cutoff <= 0.",
            "DESIGN.md §4 C09"),
    "C10": ("exploration",
            "property-based testing (rapid) under the Go race detector, repeated under taskset CPU masks: visit-count / bit-identical-output / triangle-multiset differential against the sequential variants",
            "Generated element counts (incl. fewer than workers, non-multiples), pool sizes 1..33, three topologies: every primitive/element visited exactly once with its own data, Modify*Parallel bit-identical to sequential; asymmetric marching fields inside one block or across boundaries: AddFieldParallel, AddFieldParallel2, MarchParallel give the sequential triangle multiset; fields carry 1..3 float1 functions, one case in four is a ball clipped by its domain on the last sample layer of a block. Thorough tier adds marching-blocks (a field covering a whole storage block, capsules 420 and 2050 cells long: more jobs than workers and than the job channel holds; 15-minute watchdog = 'hang'). The binary is race-instrumented; any race report while a case runs is a violation; campaigns run concurrently under taskset masks (quick: all CPUs, 3 CPUs, 1 CPU; thorough also 7) so NumCPU-sized pools and single-CPU fallbacks vary. Schedules are sampled, not owned.",
            "Trusted: the Go race detector; callbacks are race-free. Rare interleavings are only sampled.",
            "DESIGN.md §4 C10"),
    "C11": ("exploration",
            "stateful model-based property testing (rapid): action histories against a from-scratch evaluator and a logical-clock execution model",
            "Generated histories (up to 72 actions, <= 14 nodes) of add node / connect / reconnect / disconnect (incl. array inputs) / set source (also same value, parameter sources through ApplyMessage) / read / State() over harness-defined processors that count their executions: every read equals a from-scratch evaluation; a processor executes during a read only if something in its upstream closure changed since its last execution, at most once; Version() == executions after every step; State() matches the model. Processors include one that returns an error with its value and one with two array and two plain inputs (connectMany: 9..40 entries at once, more than 12 dependencies). Histories include a CLI-bound parameter, bursts of 2/255/256/257/512/1024 consecutive edits and a drawn prefix before the first read. Replays of failing histories run 20x because the pinned-tree defect depended on map order. Sampling level.",
            "Trusted: the model in harness/c11. Processors read all connected inputs; acyclic graphs.",
            "DESIGN.md §4 C11"),
    "C12": ("exploration",
            "stateful property testing (rapid) on generator.App through a build-tag hook: edit histories, save -> load into a fresh App -> compare -> save again; shipped graph files enumerated",
            "Generated edit histories (up to ~90 actions) over every registered node type (all packages cmd/polyform imports + two harness nodes): create, connect incl. array inputs beyond ten entries, disconnect, parameter updates of every parameter type, rename, producers, nested metadata set/delete, delete; at drawn points and at the end the graph is saved, loaded into a fresh App and compared (ids, types, ordered dependencies, parameter payloads, producers, metadata, app fields), artifacts of deterministic producers compared, second save byte-identical, two saves identical; bursts of up to 130 nodes (rarely 1 001..1 100 entries on one array input) and text artefacts, saved parameter data compared entry by entry, a producer that fails deterministically must fail the same way after the reload; every shipped graph file loaded/saved/loaded/saved. Known finding (jbtf ignores bufferView length) excluded by construction and pinned. Sampling level.",
            "Trusted: graph.Instance.Schema() as the observable view plus ParameterData; hook generator/verif_hooks.go (add-only, build tag verif).",
            "DESIGN.md §4 C12"),
    "C13": ("exploration",
            "concurrent history recording with real goroutines + porcupine linearizability checking against a sequential model, under the Go race detector",
            "Generated client scripts (2..6 goroutines x 3..10 operations, drawn yields, GOMAXPROCS 2..16) of UpdateParameter / ParameterData / Artifact on a graph with two producers over four parameters through shared and two-level nodes; invocation/response stamped by an atomic logical clock; porcupine must find a sequential order consistent with real time in which every artifact renders one whole parameter vector; race-instrumented binary, any race report or crash is a violation. The same histories are also issued as HTTP requests through the edit server's own handlers with autosave on (second verif hook, httptest). Sub-check int-histories: thirteen int parameters (node ids Node-0..Node-12, bare numeric message bodies, values 0..39) feeding one artifact, a final whole-state read after all clients finished. Sub-check typed-histories: string, float64 (0 and -0), point-list and file parameters (the file optionally given on the command line and untouched before the history), values repeated or unique. Schedules are sampled (24 000 + 6 000 + 12 000 histories quick), not owned.",
            "Trusted: porcupine v1.3.0, the Go race detector. Rare interleavings are only sampled.",
            "DESIGN.md §4 C13"),
    "C14": ("fault_enumeration",
            "fault enumeration over generated files: EVERY cut position (every token boundary for ascii bodies) of each generated valid PLY/STL/SPZ/.splat/PTS file is decoded and classified",
            "For each generated valid file (reference-encoded and writer-produced PLY in three encodings with faces/texcoords/quads, binary STL, gzip'd SPZ v1/v2 with arbitrary packed bytes, .splat, PTS with 3/4/7 columns) every cut position is decoded under a watchdog: outcome must be an error, the complete mesh (only trailing framing cut), the fully contained splats, or - for the count-less PTS text format only - a value-equal subset; a runtime panic, fabricated/shifted value, extra element or non-termination is a violation. Files are delivered through six reader behaviours (short reads, data with the final error). Sub-check huge-files-cut: four strict prefixes of a 52 MB STL (2^20+3 triangles) and of two 25 MB binary PLY clouds (2^21+8 vertices). Sub-check stl-count-sweep: every triangle count 1..2 000 (thorough 1..45 000), three late cuts each, judged against the recipe. Sub-check large-files: element counts at 255/256/65 535/65 536 and buffer-size multiples with 24 sampled cuts each. Exhaustive per file (~300 cuts/file, ~10^6 cuts quick); files are sampled.",
            "Trusted: decode of the complete file as the reference; watchdog (10 s, re-confirmed for another 50 s before it is reported) as 'terminates'. In-number cuts of ascii bodies are outside the quantifier.",
            "DESIGN.md §4 C14"),
    "C15": ("exploration",
            "property-based testing (rapid): .splat and splat-PLY round trips with per-field quantisation bounds; SPZ reference encoder with exact dequantisation oracle; exhaustive half-float grid",
            "Generated splat clouds (exact +-1/0 rotation components, clamp-boundary colours, saturated opacities, float32 extremes) through .splat write/read (count, order, bit-exact positions, scale/colour/opacity/rotation within one quantisation step, own 32-byte record parser) and SplatPly export (own PLY row parser + ReadMesh, float32 exact); SPZ streams from a harness reference encoder (v1/v2, fractional bits 0..30, SH 0..3, arbitrary bytes) must decode to exactly the documented dequantised values; all 65536 half-float patterns enumerated. Sub-checks count-sweep (every splat count 1..1 200, thorough 1..12 000, per codec) and million (one SPZ stream of 1.2 M points, one .splat file of 2^20+1). Sub-check large: 100..100 000 splats (boundary and log-uniform counts) through the three oracles (32 KiB gzip windows, 1 MiB batches). Sub-check concurrent-*: 2-5 generated cases run at the same time on their own goroutines after each passed alone (no scratch state may be shared between calls). Sampling level (+ one exhaustive grid).",
            "Trusted: the SPZ reference encoder and dequantisation formulas in harness/c15. Identity-indexed clouds; SPZ alpha linear as the loader documents.",
            "DESIGN.md §4 C15"),
    "C16": ("exploration",
            "property-based testing (rapid): differential against an exhaustive scan over the same element objects (don't-care band at decision boundaries), the elements themselves judged against closest-point geometry computed from the case's vertices",
            "Generated point/segment/triangle sets (clustered, grid-aligned, coincident, single element), depths 0..6 and automatic, query points on/off vertices, radii, rays: ClosestPoint distance and index, every element's own closest point against the point-to-point/segment/triangle distance from the case's vertices (1e-7*scale; triangles thinner than 1e-4 counted, not judged; trees built on a non-position attribute carry a decoy position attribute), containing-point / within-range / ray sets (band 1e-9*scale), traversal with shrinking max, bounding box; BVH vs HitList vs octree-of-hittables vs mesh hit (flag and distance). Sub-check octree-large: 181..20 000 recipe-built elements (automatic depths 2..5). When all coordinates are dyadic the within-range decision is judged on the boundary itself (no band; radii equal to an element's box distance are drawn). One case in sixteen repeats its queries from 2-6 goroutines on the same tree (value-receiver queries only). Sampling level.",
            "Trusted: element bounding boxes and ray tests (pruning and the closest-point contract are under test); band keeps 1-ulp box re-centring ties silent.",
            "DESIGN.md §4 C16"),
    "C17": ("exploration",
            "property-based testing (rapid): generated operands vs loop-written reference formulas; exhaustive basis-matrix enumeration",
            "Generated-input search over vectors, axes, angles, quaternion products, direction pairs (incl. exactly/nearly (anti)parallel), 4x4 matrices, TRS triples and boxes against independent reference formulas (Rodrigues rotation, row-by-column product, elimination determinant, clamp); Add/Multiply are additionally decided exhaustively on all 256 basis-matrix pairs, which settles entry placement for (bi)linear maps. Sampling level: shows absence of violations on ~10^5 (quick) / ~10^6+ (thorough) generated cases, not a proof.",
            "Trusted: the reference formulas in harness/c17, float64 arithmetic, rapid. RotationTo is exercised on unit directions only (its documented domain).",
            "DESIGN.md §4 C17"),
    "C18": ("exploration",
            "property-based testing (rapid) + exhaustive small grids: closed-oriented-manifold validity predicate, closed-form inscribed-polyhedron volume, outward normals",
            "All small parameter grids enumerated (rows 2..24 x columns 3..24, sides 3..64, every UV option subset) and larger counts/sizes sampled: after merging coincident positions every directed edge used once and matched, one component with Euler characteristic 2, positive volume equal (1e-9) to the closed form of the inscribed polyhedron derived from the parameters, strictly below and converging to the analytic volume (<1% from 32 counts), supplied normals outward on every incident face. Sampled counts include k*2^m-1, k*2^m, k*2^m+1 for 2^m in {256, 1 024, 4 096, 65 536} (cylinder to 70 000 sides, sphere to 4 100 rows or columns) and one case in four at an overall scale 1e-9..1e9 (all oracle tolerances are relative). Every solid is judged after another solid of the same family with other parameters was built (no storage shared between results); sub-check concurrent-builders. Exhaustive on the grids, sampling above.",
            "Trusted: the closed forms in harness/c18 (derived from the vertex construction). Only capped solids are judged.",
            "DESIGN.md §4 C18"),
    "C19": ("exploration",
            "property-based testing (rapid): independent reference formulations (clamp, Minkowski sum via closest-point projection, golden-section min over the swept ball), constructed surface/cap/edge sample points",
            "Generated shape parameters and point pairs constructed in every region (inside, surface, caps, edges, corners, axis, far): sign outside a 1e-9 band, zero on constructed surface points, 1-Lipschitz on pairs, exact distance for sphere/box/capsule/plane, set-operation sign laws for union/intersect/subtract (1..4 operands), Translate shift; every field closure is also evaluated from four goroutines at once and must give the sequential values bit for bit. Sub-check concurrent-*: 2-5 generated cases run at the same time on their own goroutines after each passed alone (no scratch state may be shared between calls). Sampling level (4.8e5 quick / 1.4e7 thorough cases).",
            "Trusted: the reference formulations in harness/c19. Rounded cone within its definitional precondition, capsule with start != end.",
            "DESIGN.md §4 C19"),
    "C20": ("exploration",
            "property-based testing (rapid) with exact rational predicates (math/big behind a proven float filter); general position constructed with a margin",
            "Generated point sets (uniform, clustered, near-collinear hulls, jittered grids, rings; scales 1e-3..1e4, offsets to 1e6, small y-extents) in constructed general position: vertex i = input i, one winding and non-zero area, pairwise exact non-overlap, no input point strictly inside a circumcircle, plus a non-vacuity condition (a Delaunay triangle whose circumdisk lies inside the hull must be returned). Input slices carry 0..64 elements of spare capacity and must be unchanged after the call. Sub-check concurrent-callers: 2-6 inputs triangulated at the same time, each judged by the full oracle. Sampling level.",
            "Trusted: exact predicates in harness/c20 (self-tested against pure rationals). Hull completeness is not demanded.",
            "DESIGN.md §4 C20"),
}

PENDING_REASON = "check not built yet in this session (planned: see DESIGN.md §4); not claimed until its harness package exists and is silent on the repaired tree"

# additions of session 4 (appended to the level text of the property)
EXTRA = {
    "C01": " Second catalogue: the 25 meshops Transformer structs, 2-/4-component variants, line/line-strip/line-loop/quad meshes as live values, every Scan*/Modify* accessor, the remaining primitives, glTF export with materials.",
    "C02": " Second catalogue as in C01 (without line topologies and ClearAttributeData, a builder step); ConstrainedBowyerWatson with a convex outline as a generator. Welding on an attribute other than the position.",
    "C03": " Every Transformer struct against the function it wraps (blank, explicit and blank-padded attribute names), the Modify* family incl. parallel variants (bit-exact against the callback), LaplacianSmoothAlongAxis, SmoothNormalsImplicitWeld (reference with a don't-care band at the weld distance). Append with an attribute name in two widths across the operands.",
    "C04": " Caller-configured MeshWriter with a per-vertex s/t writer on meshes; reserved attribute names in other widths (Scale as float1, Color as float4); ply.Save over an existing longer/shorter file.",
    "C05": " obj.Load with a material library that defines a strict subset of the names used, then save again: no face lost.",
    "C06": " Incremental gltf.Writer: a WriteGLB between two AddScene calls must not change what is written afterwards (differential against the same calls without the snapshot).",
    "C07": " stl.Save over an existing longer/shorter file; stl.ReadNode must give ReadMesh's mesh.",
    "C08": " 4-byte count types on the texcoord list; an element declared after the last one polyform reads (edge / tristrips); ply.ReadNode must give ReadMesh's mesh.",
    "C09": " Fields with one or two further float1 channels next to the distance (the marched surface is the distance's).",
    "C18": " Two histories before every build: two solids of the same resolution with other sizes; a solid of this kind appended to loose vertices and to an empty mesh.",
    "C10": " Topologies the scans do not implement: the parallel scan must report failure recoverably like the sequential one (decided in a child process); a second field added in parallel to a canvas that already holds one.",
    "C11": " Rejected parameter messages (wrong type, cut-off or empty JSON) change nothing. Sub-check messages: slice- and struct-typed parameters driven by JSON messages incl. ones that are wrong only part-way; fresh-decode model; values handed out earlier must not change.",
    "C13": " After every HTTP history has quiesced the autosaved file must be the save of the present graph.",
    "C14": " 4-byte count types on the texcoord list of reference files. Cuts exactly between record blocks of large files (2^j and multiples of 4096 records); ascii reference files with blank lines; a prefix that lacks payload may not decode to the complete file's mesh.",
    "C15": " Six SPZ streams with 4-6 MiB of harmonics loaded one after another in one process (sizes neither ascending nor equal); spz.ReadNode must give spz.Read's cloud.",
    "C16": " BVH (NewBVHTree) and octree-backed tree (NewBVH) over the renderer's spheres, static and linearly moving, hierarchies built for a time window, rays carrying their own time, against HitList.",
    "C17": " Matrices whose entries share one magnitude 1e-6..1e6 (determinant 1e-24..1e24 at unchanged conditioning).",
}

def main():
    props = [json.loads(l) for l in open(os.path.join(VERIF, "properties.jsonl"))]
    checks, na = [], []
    for p in props:
        pid = p["id"]
        if pid in CLAIMED:
            cat, tech, text, note, ref = CLAIMED[pid]
            text += EXTRA.get(pid, "")
            checks.append(dict(
                property_id=pid,
                quick_cmd="./check %s --tier quick" % pid,
                thorough_cmd="./check %s --tier thorough" % pid,
                evidence_file="/verif/evidence/%s.json" % pid,
                replay_cmd_template="./check %s --replay {path}" % pid,
                engine="rapid-harness",
                level_claimed=dict(category=cat, text=text, design_ref=ref),
                level_note=note,
                technique=tech))
        else:
            na.append(dict(property_id=pid, reason=PENDING_REASON))
    hooks_commits = []
    try:
        out = subprocess.run(["git", "-C", "/repo", "log", "--format=%h %s"], stdout=subprocess.PIPE, text=True).stdout
        hooks_commits = [l.split()[0] for l in out.splitlines() if l.split(" ", 1)[1].startswith("verif hook")]
    except Exception:
        pass
    m = dict(
        version=1,
        setup_cmd="./setup.sh",
        hooks=dict(
            guard="verif",
            enable="go build tag: the harness builds /repo with `-tags verif` (go test -c -tags verif in /verif/harness, replace github.com/EliCDavis/polyform => /repo)",
            baseline_off_cmd="cd /repo && go test -mod=mod -vet=off -count=1 -timeout 25m ./...",
            source_commits=hooks_commits,
            add_only=True),
        engines=[dict(name="rapid-harness", path="/verif/harness",
                      serves_properties=sorted(CLAIMED),
                      kind_free_text="Go test binaries (one package per property) built against /repo's working tree; pgregory.net/rapid v1.3.0 generators and shrinking, porcupine for linearizability, go -race for schedules, native go fuzzing in thorough tiers; driver ./check shards by seed and merges evidence")],
        checks=checks,
        not_applicable=na,
        notes="Driver: ./check <id> [--tier quick|thorough] [--replay file]; exit 0 held / 1 VIOLATION / 2 infrastructure. VERIF_SEED selects the rapid seeds. Known findings and fixed defects: KNOWN_FINDINGS.txt. Seeded mutants: seeded/.")
    json.dump(m, open(os.path.join(VERIF, "MANIFEST.json"), "w"), indent=1)
    print("claimed", len(checks), "not claimed", len(na))

if __name__ == "__main__":
    main()
