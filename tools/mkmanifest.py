#!/usr/bin/env python3
"""Regenerates /verif/MANIFEST.json from the table below (one entry per claimed property)."""
import json, os, subprocess

VERIF = os.path.dirname(os.path.dirname(os.path.abspath(__file__)))

# id -> (category, technique, level text, level note, design ref)
CLAIMED = {
    "C01": ("exploration",
            "stateful property-based testing (rapid): branching operation histories over a pool of live meshes with a bit-exact snapshot invariant after every step",
            "Generated histories (up to 40 steps, <= 8 live meshes) of ~55 public operations (Mesh methods, meshops, repeat, primitives, PLY/OBJ/glTF/STL writers) applied to drawn pool members, so several derivations branch off one base; after every step every live mesh is re-read through the accessors and compared bit for bit with the snapshot taken when it was obtained. Shrinks to a 5-step history for the Append defect. Sampling level (10^4..10^6 histories), not a proof.",
            "Trusted: oracle.Snapshot reads everything a mesh reports; operations that panic are no-ops for this property; aliasing needing > 40 steps or > 8 live values is out of reach.",
            "DESIGN.md §4 C01"),
    "C02": ("exploration",
            "property-based testing (rapid): generator parameterisations (small counts enumerated) and random operation chains against a well-formedness + accessor-walk validity predicate",
            "Every one of 19 generator families over its accepted parameter range (rows/columns/sides grids enumerated exhaustively for small counts, sampled above) and chains of 1..8 operations from a 50-operation catalogue over generated well-formed meshes and earlier results must return meshes that pass oracle.WF (common attribute length, indices in range, index count fits topology, every primitive walkable) or report failure; a Go runtime error is a violation. Unmet preconditions are attempted only where the library checks them. Sampling level.",
            "Trusted: oracle.WF, the precondition table in harness/internal/mops (implicit preconditions the library does not check are never violated).",
            "DESIGN.md §4 C02"),
    "C03": ("exploration",
            "property-based testing (rapid): generated meshes x 33 operations against reference implementations over per-corner attribute tuples (bit-exact) and float64 maps",
            "Every layout operation is compared with a reference written from its contract over per-corner attribute tuples (exact by bit pattern, weld: first vertex of the rounding cell), every attribute transform with the stated per-vertex map plus 'indices, topology, materials and all other attributes bit-identical'; generator constructs non-identity indices, shared/duplicated/unreferenced vertices and mixed attribute arities. Sampling level.",
            "Trusted: the reference implementations in harness/c03. Filters/crop only on point topology; don't-care band around minArea; undefined normals not compared.",
            "DESIGN.md §4 C03"),
    "C17": ("exploration",
            "property-based testing (rapid): generated operands vs loop-written reference formulas; exhaustive basis-matrix enumeration",
            "Generated-input search over vectors, axes, angles, quaternion products, direction pairs (incl. exactly/nearly (anti)parallel), 4x4 matrices, TRS triples and boxes against independent reference formulas (Rodrigues rotation, row-by-column product, elimination determinant, clamp); Add/Multiply are additionally decided exhaustively on all 256 basis-matrix pairs, which settles entry placement for (bi)linear maps. Sampling level: shows absence of violations on ~10^5 (quick) / ~10^6+ (thorough) generated cases, not a proof.",
            "Trusted: the reference formulas in harness/c17, float64 arithmetic, rapid. RotationTo is exercised on unit directions only (its documented domain).",
            "DESIGN.md §4 C17"),
}

PENDING_REASON = "check not built yet in this session (planned: see DESIGN.md §4); not claimed until its harness package exists and is silent on the repaired tree"

def main():
    props = [json.loads(l) for l in open(os.path.join(VERIF, "properties.jsonl"))]
    checks, na = [], []
    for p in props:
        pid = p["id"]
        if pid in CLAIMED:
            cat, tech, text, note, ref = CLAIMED[pid]
            checks.append(dict(
                property_id=pid,
                quick_cmd="./check %s --tier quick" % pid,
                thorough_cmd="./check %s --tier thorough" % pid,
                evidence_file="/verif/evidence/%s.json" % pid,
                replay_cmd_template="./check %s --replay {path}" % pid,
                engine="rapid-harness",
                level_claimed=dict(category=cat, text=text, design_ref=ref),
                level_note=note,
                technique=tech))
        else:
            na.append(dict(property_id=pid, reason=PENDING_REASON))
    hooks_commits = []
    try:
        out = subprocess.run(["git", "-C", "/repo", "log", "--format=%h %s"], stdout=subprocess.PIPE, text=True).stdout
        hooks_commits = [l.split()[0] for l in out.splitlines() if l.split(" ", 1)[1].startswith("verif hook")]
    except Exception:
        pass
    m = dict(
        version=1,
        setup_cmd="./setup.sh",
        hooks=dict(
            guard="verif",
            enable="go build tag: the harness builds /repo with `-tags verif` (go test -c -tags verif in /verif/harness, replace github.com/EliCDavis/polyform => /repo)",
            baseline_off_cmd="cd /repo && go test -mod=mod -vet=off -count=1 -timeout 25m ./...",
            source_commits=hooks_commits,
            add_only=True),
        engines=[dict(name="rapid-harness", path="/verif/harness",
                      serves_properties=sorted(CLAIMED),
                      kind_free_text="Go test binaries (one package per property) built against /repo's working tree; pgregory.net/rapid v1.3.0 generators and shrinking, porcupine for linearizability, go -race for schedules, native go fuzzing in thorough tiers; driver ./check shards by seed and merges evidence")],
        checks=checks,
        not_applicable=na,
        notes="Driver: ./check <id> [--tier quick|thorough] [--replay file]; exit 0 held / 1 VIOLATION / 2 infrastructure. VERIF_SEED selects the rapid seeds. Known findings and fixed defects: KNOWN_FINDINGS.txt. Seeded mutants: seeded/.")
    json.dump(m, open(os.path.join(VERIF, "MANIFEST.json"), "w"), indent=1)
    print("claimed", len(checks), "not claimed", len(na))

if __name__ == "__main__":
    main()
