#!/usr/bin/env python3
"""tools/import_mut.py <cNN> <A|B> <slug> "<needs>"  - copies a sub-agent's seeded change from
/tmp/mut_cNN_out/<A|B>/ into /verif/seeded/<CNN>-<slug>/ with a meta.json."""
import json, os, re, shutil, sys

VERIF = os.path.dirname(os.path.dirname(os.path.abspath(__file__)))
cnn, ab, slug, needs = sys.argv[1], sys.argv[2], sys.argv[3], sys.argv[4]
src = "/tmp/%s_%s_out/%s" % (os.environ.get("MUT_PREFIX", "mut"), cnn, ab)
pid = cnn.upper()
dst = os.path.join(VERIF, "seeded", "%s-%s" % (pid, slug))
os.makedirs(dst, exist_ok=True)
shutil.copy(os.path.join(src, "patch.diff"), dst)
demo = [f for f in os.listdir(src) if f.endswith("_test.go") or f.endswith(".go")]
demo_file = demo[0] if demo else None
if demo_file:
    shutil.copy(os.path.join(src, demo_file), os.path.join(dst, "demo_test.go"))
if os.path.exists(os.path.join(src, "notes.md")):
    shutil.copy(os.path.join(src, "notes.md"), dst)
txt = open(os.path.join(src, "demo_path.txt")).read() if os.path.exists(os.path.join(src, "demo_path.txt")) else ""
cands = [c for c in re.findall(r"([\w./-]+\.go)", txt) if not re.match(r"^[AB]/", c) and "/" in c]
path = cands[0] if cands else ""
m = re.search(r"(go (?:test|run)[^\n`]*)", txt)
cmd = m.group(1).strip() if m else ""
meta = dict(property=pid, origin="independent sub-agent given only the property text and a scratch worktree",
            needs_to_manifest=needs, demo_file="demo_test.go", demo_path=path, demo_cmd=cmd,
            confirmed="patch applies to /repo HEAD, compiles, unedited suite passes with it (sub-agent log); demonstration fails with the patch and passes without it (re-run by tools/seeded.py --confirm-demo)")
json.dump(meta, open(os.path.join(dst, "meta.json"), "w"), indent=1)
print(dst, path, cmd)
