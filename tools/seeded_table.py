#!/usr/bin/env python3
"""tools/seeded_table.py [substring] - prints the DESIGN.md §8 table rows from seeded/*/meta.json and result.json."""
import json, os, sys
VERIF = os.path.dirname(os.path.dirname(os.path.abspath(__file__)))
root = os.path.join(VERIF, "seeded")
flt = sys.argv[1] if len(sys.argv) > 1 else ""
print("| seeded change | needs, in order to manifest | caught | by (signature) |\n|---|---|---|---|")
for sid in sorted(os.listdir(root)):
    d = os.path.join(root, sid)
    if not os.path.isdir(d) or flt not in sid:
        continue
    meta = json.load(open(os.path.join(d, "meta.json")))
    res = json.load(open(os.path.join(d, "result.json"))) if os.path.exists(os.path.join(d, "result.json")) else {}
    by = []
    for pid, c in (res.get("checks") or {}).items():
        if c.get("detected"):
            sigs = []
            for s in c["signatures"][:2]:
                s = s.split("sig=", 1)[-1].split(" (not reproduced")[0]
                if s not in sigs:
                    sigs.append(s)
            by.append("%s: %s" % (pid, ", ".join(sigs)))
    tier = res.get("tier", "quick")
    caught = ("yes" if tier == "quick" else "yes (%s tier)" % tier) if res.get("detected") else "NO"
    print("| `%s` | %s | %s | %s |" % (sid, meta.get("needs_to_manifest", "").replace("|", "/"), caught, "; ".join(by)))
