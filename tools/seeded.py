#!/usr/bin/env python3
"""tools/seeded.py [ids...] [--tier quick] [--confirm-demo]

Runs the checks against the seeded changes kept under /verif/seeded/<id>/ (patch.diff, the
demonstration, meta.json).  For every seeded change a scratch git worktree of /repo is created
outside /repo and /verif, the patch is applied there, (optionally) the demonstration is run with
and without the patch, the property's check is run against the worktree (VERIF_REPO), and the
outcome is written to seeded/<id>/result.json.  The worktree and its build output are removed
straight afterwards; /repo itself is never modified.
"""
import json, os, shutil, subprocess, sys, time

VERIF = os.path.dirname(os.path.dirname(os.path.abspath(__file__)))
ENV = dict(os.environ, GOFLAGS="-mod=mod", GOPROXY="off", GOSUMDB="off", GOTOOLCHAIN="local")


def sh(cmd, cwd=None, env=None, timeout=3600):
    r = subprocess.run(cmd, shell=True, cwd=cwd, env=env or ENV, stdout=subprocess.PIPE, stderr=subprocess.STDOUT, text=True, timeout=timeout)
    return r.returncode, r.stdout


def main():
    args = [a for a in sys.argv[1:] if not a.startswith("--")]
    tier = "quick"
    confirm = "--confirm-demo" in sys.argv
    root = os.path.join(VERIF, "seeded")
    ids = args or sorted(d for d in os.listdir(root) if os.path.isdir(os.path.join(root, d)))
    summary = []
    for sid in ids:
        d = os.path.join(root, sid)
        meta = json.load(open(os.path.join(d, "meta.json")))
        wt = "/tmp/seed_wt_%s" % sid
        sh("git -C /repo worktree remove --force %s" % wt)
        shutil.rmtree(wt, ignore_errors=True)
        rc, out = sh("git -C /repo worktree add --detach %s HEAD" % wt)
        if rc != 0:
            print(sid, "cannot create worktree", out)
            continue
        res = dict(id=sid, property=meta["property"], time=time.strftime("%Y-%m-%d %H:%M:%S"))
        if not confirm and os.path.exists(os.path.join(d, "result.json")):
            try:  # keep the outcome of an earlier --confirm-demo run
                old = json.load(open(os.path.join(d, "result.json")))
                for k in ("demo_without_patch", "demo_with_patch"):
                    if k in old:
                        res[k] = old[k]
            except Exception:
                pass
        try:
            demo_dst = None
            if confirm and meta.get("demo_path"):
                demo_dst = os.path.join(wt, meta["demo_path"])
                shutil.copy(os.path.join(d, meta.get("demo_file", "demo_test.go")), demo_dst)
                rc0, out0 = sh(meta["demo_cmd"], cwd=wt, timeout=1200)
                res["demo_without_patch"] = "passes" if rc0 == 0 else "FAILS"
            rc, out = sh("git apply %s" % os.path.join(d, "patch.diff"), cwd=wt)
            if rc != 0:
                res["error"] = "patch does not apply: " + out[-500:]
                summary.append(res)
                continue
            if demo_dst:
                rc1, out1 = sh(meta["demo_cmd"], cwd=wt, timeout=1200)
                res["demo_with_patch"] = "fails" if rc1 != 0 else "PASSES"
                os.remove(demo_dst)
            t0 = time.time()
            e = dict(ENV, VERIF_REPO=wt)
            e.update(meta.get("check_env") or {})  # e.g. skip unrelated sub-checks of a thorough run
            mtier = meta.get("tier", tier)
            res["tier"] = mtier
            checks = meta.get("checks") or [meta["property"]]
            res["checks"] = {}
            for pid in checks:
                rc, out = sh("./check %s --tier %s" % (pid, mtier), cwd=VERIF, env=e, timeout=14400)
                sigs = [l.strip() for l in out.splitlines() if l.strip().startswith("sub=")]
                res["checks"][pid] = dict(exit=rc, detected=(rc == 1), signatures=sigs[:6])
            res["detected"] = any(c["detected"] for c in res["checks"].values())
            res["wall_s"] = round(time.time() - t0, 1)
        finally:
            sh("git -C /repo worktree remove --force %s" % wt)
            shutil.rmtree(wt, ignore_errors=True)
            shutil.rmtree(os.path.join(VERIF, "replays", meta["property"]), ignore_errors=True)
        json.dump(res, open(os.path.join(d, "result.json"), "w"), indent=1)
        summary.append(res)
        print("%-22s %s detected=%s %s" % (sid, meta["property"], res.get("detected"), json.dumps({k: v["signatures"][:2] for k, v in res.get("checks", {}).items()})[:300]), flush=True)
    # every scratch worktree leaves ~1 GB of entries in the Go build cache (paths differ): drop old ones
    sh("find /root/.cache/go-build -type f -mmin +90 -delete")
    n = sum(1 for r in summary if r.get("detected"))
    print("detected %d of %d" % (n, len(summary)))


if __name__ == "__main__":
    main()
