#!/usr/bin/env python3
"""tools/coverage.py [Cxx ...] [--tier quick] [--shards 2]

Measures which statements of polyform a property's check actually executes: builds the property's
harness package with statement-coverage instrumentation of every polyform package
(-coverpkg=github.com/EliCDavis/polyform/...), runs a few shards of the given tier the way
./check does, and reports - for the files the property is anchored in (properties.jsonl) - every
function with no executed statement and every function below 60 %.  The report goes to
/verif/notes/coverage/<id>.txt and a one-line summary is printed.  This is a measurement of the
generators' reach (guidance: "measure what the generator actually produces"), not a check: it
never decides a property.
"""
import fnmatch, json, os, re, subprocess, sys, shutil

VERIF = os.path.dirname(os.path.dirname(os.path.abspath(__file__)))
HARNESS = os.path.join(VERIF, "harness")
MOD = "github.com/EliCDavis/polyform"
ENV = dict(os.environ, GOFLAGS="-mod=mod", GOPROXY="off", GOSUMDB="off", GOTOOLCHAIN="local")


def main():
    args = sys.argv[1:]
    tier, shards, ids = "quick", 2, []
    i = 0
    while i < len(args):
        if args[i] == "--tier":
            tier = args[i + 1]; i += 2
        elif args[i] == "--shards":
            shards = int(args[i + 1]); i += 2
        else:
            ids.append(args[i].upper()); i += 1
    props = {}
    for l in open(os.path.join(VERIF, "properties.jsonl")):
        p = json.loads(l)
        props[p["id"]] = p
    ids = ids or sorted(props)
    outdir = os.path.join(VERIF, "notes", "coverage")
    os.makedirs(outdir, exist_ok=True)
    for pid in ids:
        pkg = pid.lower()
        work = os.path.join(VERIF, ".work", "cov", pid)
        shutil.rmtree(work, ignore_errors=True)
        os.makedirs(work)
        binp = os.path.join(work, pkg + ".cover.test")
        r = subprocess.run(["go", "test", "-c", "-tags", "verif", "-cover", "-covermode=set", "-coverpkg=" + MOD + "/...", "-o", binp, "./" + pkg],
                           cwd=HARNESS, env=ENV, stdout=subprocess.PIPE, stderr=subprocess.STDOUT, text=True)
        if r.returncode != 0:
            print(pid, "build failed", r.stdout[-800:]); continue
        procs = []
        for k in range(shards):
            e = dict(ENV, VERIF_DIR=VERIF, VERIF_TIER=tier, VERIF_SEED="1", VERIF_SHARD=str(k), VERIF_SHARDS="8",
                     VERIF_OUT=os.path.join(work, "shard_%d.json" % k), VERIF_RACELOG=os.path.join(work, "race_%d" % k)
                     )
            lf = open(os.path.join(work, "shard_%d.log" % k), "w")
            procs.append(subprocess.Popen([binp, "-test.timeout=3600s", "-test.coverprofile=" + os.path.join(work, "cover_%d.out" % k)],
                                          cwd=work, env=e, stdout=lf, stderr=subprocess.STDOUT))
        for p in procs:
            p.wait()
        # merge profiles (mode set: a block is covered if any shard covered it)
        blocks = {}
        for k in range(shards):
            f = os.path.join(work, "cover_%d.out" % k)
            if not os.path.exists(f):
                continue
            for line in open(f):
                if line.startswith("mode:"):
                    continue
                key, n, c = line.rsplit(" ", 2)
                blocks[key] = (int(n), max(blocks.get(key, (0, 0))[1], int(c)))
        merged = os.path.join(work, "cover.out")
        with open(merged, "w") as w:
            w.write("mode: set\n")
            for key, (n, c) in sorted(blocks.items()):
                w.write("%s %d %d\n" % (key, n, c))
        r = subprocess.run(["go", "tool", "cover", "-func=" + merged], cwd=HARNESS, env=ENV, stdout=subprocess.PIPE, stderr=subprocess.STDOUT, text=True)
        anchors = (props[pid].get("anchors") or {}).get("files", [])
        rows = []
        for line in r.stdout.splitlines():
            m = re.match(r"(\S+):(\d+):\s+(\S+)\s+([\d.]+)%", line)
            if not m:
                continue
            path = m.group(1)
            if not path.startswith(MOD + "/"):
                continue
            rel = path[len(MOD) + 1:]
            if rel.endswith("_test.go") or not any(fnmatch.fnmatch(rel, a) for a in anchors):
                continue
            rows.append((rel, int(m.group(2)), m.group(3), float(m.group(4))))
        zero = [r_ for r_ in rows if r_[3] == 0.0]
        low = [r_ for r_ in rows if 0.0 < r_[3] < 60.0]
        # statement coverage of the anchored files
        tot = cov = 0
        for key, (n, c) in blocks.items():
            path = key.split(":")[0]
            rel = path[len(MOD) + 1:] if path.startswith(MOD + "/") else None
            if rel and any(fnmatch.fnmatch(rel, a) for a in anchors):
                tot += n; cov += n if c else 0
        with open(os.path.join(outdir, pid + ".txt"), "w") as w:
            w.write("%s tier=%s shards=%d of 8: statements of anchored files executed %d / %d (%.1f%%); functions %d, never entered %d, below 60%% %d\n" %
                    (pid, tier, shards, cov, tot, 100.0 * cov / max(1, tot), len(rows), len(zero), len(low)))
            w.write("anchored files: %s\n\nnever entered:\n" % ", ".join(anchors))
            for rel, ln, fn, pc in zero:
                w.write("  %s:%d %s\n" % (rel, ln, fn))
            w.write("\nbelow 60%:\n")
            for rel, ln, fn, pc in low:
                w.write("  %s:%d %s %.1f%%\n" % (rel, ln, fn, pc))
            w.write("\nunexecuted blocks (file:startline-endline, statements):\n")
            unc = []
            for key, (n, c) in blocks.items():
                path, rng = key.split(":")
                rel = path[len(MOD) + 1:] if path.startswith(MOD + "/") else None
                if rel and not c and any(fnmatch.fnmatch(rel, a) for a in anchors):
                    a_, b_ = rng.split(",")
                    unc.append((rel, int(a_.split(".")[0]), int(b_.split(".")[0]), n))
            for rel, a_, b_, n in sorted(unc):
                w.write("  %s:%d-%d %d\n" % (rel, a_, b_, n))
        print("%s statements %d/%d (%.1f%%) functions %d never-entered %d low %d" % (pid, cov, tot, 100.0 * cov / max(1, tot), len(rows), len(zero), len(low)), flush=True)
        for f in os.listdir(work):
            if f.endswith(".test"):
                os.remove(os.path.join(work, f))


if __name__ == "__main__":
    main()
