package zz_all

// Imports every polyform package family the harness uses so that go.mod/go.sum are complete and
// never need rewriting by a -mod=mod build.
import (
	_ "github.com/EliCDavis/polyform/formats/gltf"
	_ "github.com/EliCDavis/polyform/formats/obj"
	_ "github.com/EliCDavis/polyform/formats/ply"
	_ "github.com/EliCDavis/polyform/formats/pts"
	_ "github.com/EliCDavis/polyform/formats/splat"
	_ "github.com/EliCDavis/polyform/formats/spz"
	_ "github.com/EliCDavis/polyform/formats/stl"
	_ "github.com/EliCDavis/polyform/generator"
	_ "github.com/EliCDavis/polyform/generator/graph"
	_ "github.com/EliCDavis/polyform/math/sdf"
	_ "github.com/EliCDavis/polyform/modeling/marching"
	_ "github.com/EliCDavis/polyform/modeling/triangulation"
	_ "github.com/EliCDavis/polyform/nodes"
	_ "github.com/EliCDavis/polyform/rendering"
	_ "github.com/EliCDavis/polyform/trees"
	_ "github.com/anishathalye/porcupine"
)
