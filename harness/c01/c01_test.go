// Package c01 decides property C01 (mesh values are immutable) with a branching-history machine:
// a pool of live meshes, every public operation applied to drawn pool members, and a bit-exact
// snapshot of every live mesh re-checked after every step.
package c01

import (
	"fmt"
	"io"
	"testing"

	"github.com/EliCDavis/polyform/formats/gltf"
	"github.com/EliCDavis/polyform/formats/obj"
	"github.com/EliCDavis/polyform/formats/ply"
	"github.com/EliCDavis/polyform/formats/stl"
	"github.com/EliCDavis/polyform/math/geometry"
	"github.com/EliCDavis/polyform/math/quaternion"
	"github.com/EliCDavis/polyform/math/trs"
	"github.com/EliCDavis/polyform/modeling"
	"github.com/EliCDavis/polyform/modeling/meshops"
	"github.com/EliCDavis/polyform/modeling/primitives"
	"github.com/EliCDavis/polyform/modeling/repeat"
	"github.com/EliCDavis/vector/vector2"
	"github.com/EliCDavis/vector/vector3"
	"github.com/EliCDavis/vector/vector4"
	"pgregory.net/rapid"

	"verifharness/internal/gen"
	"verifharness/internal/oracle"
	"verifharness/internal/vh"
)

func TestMain(m *testing.M) {
	vh.Main(m, vh.Meta{
		ID:    "C01",
		Level: "exploration",
		Rule: "rapid-generated operation histories (3..40 steps) over a pool of <= 8 live meshes: every step draws one or two pool members and one of ~45 public operations " +
			"(Mesh methods, meshops transformers, repeat, primitives as fresh sources, the PLY/OBJ/glTF/STL writers); the result joins the pool, so repeated draws of one base give branching derivations. " +
			"Oracle: a bit-exact snapshot (topology, indices, material ranges and pointers, attribute names, every value) of every live mesh is re-read through the accessors after every step. " +
			"Non-trivial = the history derives from a mesh that already has another live derivation or is itself derived (>= 2 derivations sharing an ancestor); distinct by op-list hash.",
		Assumptions: []string{
			"an operation that panics (unmet precondition, unsupported topology) is a no-op for this property; crashes are C02's business",
			"the harness never mutates an array after handing it to polyform",
			"histories are bounded to 40 steps, 8 live meshes and 3000 vertices per mesh",
		},
	})
}

type Op struct {
	K string        // operation kind
	A int           // first pool pick (mod pool size)
	B int           // second pool pick / eviction slot
	P []float64     `json:",omitempty"` // numeric parameters
	M *gen.MeshDesc `json:",omitempty"` // fresh mesh
	X []int         `json:",omitempty"` // integer parameters (indices)
}

type Case struct{ Ops []Op }

var opKinds = []string{
	"fresh", "fresh", "prim",
	"append", "append", "append", "translate", "scale", "rotate", "applytrs",
	"set1", "set2", "set3", "set4", "setdata3", "modify1", "modify2", "modify3", "modify3par", "modify1par", "modify2par",
	"copy3", "copy1", "setidx", "setmat", "setmats", "topc", "weld",
	"unweld", "unref", "nullfaces", "flip", "smooth", "smoothweld", "flat", "laplacian", "laplacianaxis",
	"scaleattr", "scalealongnormal", "translateattr", "rotateattr", "center", "normalize",
	"filter1", "filter3", "crop", "split", "repeat", "slice", "vertexcolor",
	"export-ply", "export-obj", "export-gltf", "export-stl", "scan",
}

func genOp(t *rapid.T) Op {
	k := rapid.SampledFrom(opKinds).Draw(t, "op")
	op := Op{K: k, A: rapid.IntRange(0, 7).Draw(t, "a"), B: rapid.IntRange(0, 7).Draw(t, "b")}
	switch k {
	case "fresh":
		d := gen.Mesh(t, gen.MeshOpts{MaxN: 6, MaxPrims: 4, NeedPos: rapid.IntRange(0, 3).Draw(t, "needpos") > 0, Materials: true, DupPos: true,
			Attrs: []gen.AttrSpec{{Name: modeling.PositionAttribute, Arity: 3}, {Name: modeling.NormalAttribute, Arity: 3}, {Name: modeling.TexCoordAttribute, Arity: 2},
				{Name: modeling.ColorAttribute, Arity: 3}, {Name: "w", Arity: 1}, {Name: modeling.RotationAttribute, Arity: 4}}}, "m")
		op.M = &d
	case "prim":
		op.X = []int{rapid.IntRange(0, 6).Draw(t, "prim"), rapid.IntRange(2, 5).Draw(t, "r"), rapid.IntRange(3, 6).Draw(t, "c")}
	case "setidx":
		op.X = rapid.SliceOfN(rapid.IntRange(0, 5), 0, 9).Draw(t, "ix")
	case "setmats":
		m := rapid.IntRange(0, 3).Draw(t, "nmats")
		for j := 0; j < m; j++ {
			op.X = append(op.X, rapid.IntRange(0, 4).Draw(t, "cnt"), rapid.IntRange(-1, 3).Draw(t, "mat"))
		}
	default:
		for j := 0; j < 4; j++ {
			op.P = append(op.P, float64(rapid.IntRange(-16, 16).Draw(t, "p"))/4)
		}
	}
	return op
}

func genCase(t *rapid.T) Case {
	min := rapid.IntRange(3, 30).Draw(t, "minSteps")
	return Case{Ops: rapid.SliceOfN(rapid.Custom(genOp), min, 40).Draw(t, "ops")}
}

func p(op Op, i int) float64 {
	if i < len(op.P) {
		return op.P[i]
	}
	return 0
}

func prim(op Op) modeling.Mesh {
	x := append(append([]int{}, op.X...), 0, 2, 3)
	r, c := x[1], x[2]
	if r < 2 {
		r = 2
	}
	if c < 3 {
		c = 3
	}
	switch x[0] {
	case 0:
		return primitives.Cube{Width: 1, Height: 2, Depth: 3}.Welded() // shares a package-level index slice
	case 1:
		return primitives.Cube{Width: 1, Height: 2, Depth: 3, UVs: primitives.DefaultCubeUVs()}.UnweldedQuads()
	case 2:
		return primitives.Quad{Width: 1, Depth: 2}.ToMesh()
	case 3:
		return primitives.UVSphere(1, r, c)
	case 4:
		return primitives.Cylinder{Sides: c, Height: 1, Radius: 1}.ToMesh()
	case 5:
		return primitives.Circle{Sides: c, Radius: 1}.ToMesh()
	default:
		return primitives.UnitCube()
	}
}

// apply executes one operation; results are returned (possibly several for split).
func apply(op Op, a, b modeling.Mesh) []modeling.Mesh {
	n := a.AttributeLength()
	v := vector3.New(p(op, 0), p(op, 1), p(op, 2))
	q := quaternion.FromTheta(p(op, 3), vector3.New(p(op, 0), p(op, 1), 1.5))
	one := func(m modeling.Mesh) []modeling.Mesh { return []modeling.Mesh{m} }
	switch op.K {
	case "fresh":
		return one(op.M.Build())
	case "prim":
		return one(prim(op))
	case "append":
		return one(a.Append(b))
	case "translate":
		return one(a.Translate(v))
	case "scale":
		return one(a.Scale(v))
	case "rotate":
		return one(a.Rotate(q))
	case "applytrs":
		return one(a.ApplyTRS(trs.New(v, q, vector3.New(2., 1, 0.5))))
	case "set1":
		d := make([]float64, n)
		for i := range d {
			d[i] = p(op, 0) + float64(i)
		}
		return one(a.SetFloat1Attribute("w", d))
	case "set2":
		d := make([]vector2.Float64, n)
		for i := range d {
			d[i] = vector2.New(p(op, 0), float64(i))
		}
		return one(a.SetFloat2Attribute(modeling.TexCoordAttribute, d))
	case "set3":
		d := make([]vector3.Float64, n)
		for i := range d {
			d[i] = v.Scale(float64(i))
		}
		name := []string{modeling.PositionAttribute, modeling.NormalAttribute, "extra"}[int(4+p(op, 3)*4)%3]
		return one(a.SetFloat3Attribute(name, d))
	case "set4":
		d := make([]vector4.Float64, n)
		for i := range d {
			d[i] = vector4.New(p(op, 0), p(op, 1), p(op, 2), float64(i))
		}
		return one(a.SetFloat4Attribute(modeling.RotationAttribute, d))
	case "setdata3":
		d := make([]vector3.Float64, n)
		for i := range d {
			d[i] = v.Scale(float64(i + 1))
		}
		return one(a.SetFloat3Data(map[string][]vector3.Float64{modeling.PositionAttribute: d}))
	case "modify1":
		return one(a.ModifyFloat1Attribute("w", func(i int, x float64) float64 { return x + p(op, 0) }))
	case "modify1par":
		return one(a.ModifyFloat1AttributeParallelWithPoolSize("w", 3, func(i int, x float64) float64 { return x + p(op, 0) }))
	case "modify2":
		return one(a.ModifyFloat2Attribute(modeling.TexCoordAttribute, func(i int, x vector2.Float64) vector2.Float64 { return x.Scale(2) }))
	case "modify2par":
		return one(a.ModifyFloat2AttributeParallelWithPoolSize(modeling.TexCoordAttribute, 2, func(i int, x vector2.Float64) vector2.Float64 { return x.Scale(2) }))
	case "modify3":
		return one(a.ModifyFloat3Attribute(modeling.PositionAttribute, func(i int, x vector3.Float64) vector3.Float64 { return x.Add(v) }))
	case "modify3par":
		return one(a.ModifyFloat3AttributeParallelWithPoolSize(modeling.PositionAttribute, 3, func(i int, x vector3.Float64) vector3.Float64 { return x.Add(v) }))
	case "copy3":
		return one(a.CopyFloat3Attribute(b, modeling.PositionAttribute))
	case "copy1":
		return one(a.CopyFloat1Attribute(b, "w"))
	case "setidx":
		idx := []int{}
		for _, x := range op.X {
			if n > 0 {
				idx = append(idx, x%n)
			}
		}
		if a.Topology() == modeling.TriangleTopology {
			idx = idx[:len(idx)/3*3]
		}
		return one(a.SetIndices(idx))
	case "setmat":
		return one(a.SetMaterial(*gen.MaterialPool[op.B%4]))
	case "setmats":
		var ms []modeling.MeshMaterial
		for i := 0; i+1 < len(op.X); i += 2 {
			mm := modeling.MeshMaterial{PrimitiveCount: op.X[i]}
			if op.X[i+1] >= 0 {
				mm.Material = gen.MaterialPool[op.X[i+1]%4]
			}
			ms = append(ms, mm)
		}
		return one(a.SetMaterials(ms))
	case "topc":
		return one(a.ToPointCloud())
	case "weld":
		return one(a.WeldByFloat3Attribute(modeling.PositionAttribute, int(2+p(op, 0))%4))
	case "unweld":
		return one(meshops.Unweld(a))
	case "unref":
		return one(meshops.RemovedUnreferencedVertices(a))
	case "nullfaces":
		return one(meshops.RemoveNullFaces3D(a, modeling.PositionAttribute, 0.1))
	case "flip":
		return one(meshops.FlipTriangleWinding(a))
	case "smooth":
		return one(meshops.SmoothNormals(a))
	case "smoothweld":
		return one(meshops.SmoothNormalsImplicitWeld(a, 0.01))
	case "flat":
		return one(meshops.FlatNormals(a))
	case "laplacian":
		return one(meshops.LaplacianSmooth(a, modeling.PositionAttribute, 2, 0.5))
	case "laplacianaxis":
		return one(meshops.LaplacianSmoothAlongAxis(a, modeling.PositionAttribute, 1, 0.5, vector3.Up[float64]()))
	case "scaleattr":
		return one(meshops.ScaleAttribute3D(a, modeling.PositionAttribute, vector3.New(1., 0, 0), v))
	case "scalealongnormal":
		return one(meshops.ScaleAttributeAlongNormal(a, modeling.PositionAttribute, modeling.NormalAttribute, p(op, 0)))
	case "translateattr":
		return one(meshops.TranslateAttribute3D(a, modeling.NormalAttribute, v))
	case "rotateattr":
		return one(meshops.RotateAttribute3D(a, modeling.NormalAttribute, q))
	case "center":
		return one(meshops.CenterFloat3Attribute(a, modeling.PositionAttribute))
	case "normalize":
		return one(meshops.NormalizeAttribute3D(a, modeling.PositionAttribute))
	case "filter1":
		return one(meshops.FilterFloat1(a, "w", func(x float64) bool { return x >= p(op, 0) }))
	case "filter3":
		return one(meshops.FilterFloat3(a, modeling.PositionAttribute, func(x vector3.Float64) bool { return x.X() < p(op, 0) }))
	case "crop":
		return one(meshops.CropFloat3Attribute(a, modeling.PositionAttribute, geometry.NewAABB(v, vector3.New(6., 6, 6))))
	case "split":
		return meshops.SplitOnUniqueMaterials(a)
	case "repeat":
		return one(repeat.Mesh(a, []trs.TRS{trs.Position(v), trs.New(v.Scale(2), q, vector3.One[float64]())}))
	case "slice":
		x, y := meshops.SliceByPlaneWithAttribute(a, geometry.NewPlaneFromPoints(v, v.Add(vector3.Right[float64]()), v.Add(vector3.Forward[float64]())), modeling.PositionAttribute)
		return []modeling.Mesh{x, y}
	case "vertexcolor":
		return one(meshops.VertexColorSpace(a, modeling.ColorAttribute, meshops.VertexColorSpaceSRGBToLinear))
	case "export-ply":
		ply.Write(io.Discard, a, ply.ASCII)
		ply.Write(io.Discard, a, ply.BinaryLittleEndian)
		ply.Write(io.Discard, a, ply.BinaryBigEndian)
	case "export-obj":
		obj.WriteMesh(a, "", io.Discard)
	case "export-gltf":
		sc := gltf.PolyformScene{Models: []gltf.PolyformModel{{Name: "x", Mesh: &a}, {Name: "y", Mesh: &b}}}
		gltf.WriteBinary(sc, io.Discard)
		gltf.WriteText(sc, io.Discard)
	case "export-stl":
		stl.WriteMesh(io.Discard, a)
	case "scan":
		a.ScanFloat3Attribute(modeling.PositionAttribute, func(i int, v vector3.Float64) {})
		a.ScanPrimitives(func(i int, p modeling.Primitive) {})
		a.VertexNeighborTable()
		a.OctTree()
	}
	return nil
}

type live struct {
	m       modeling.Mesh
	snap    string
	root    int // id of the fresh ancestor
	step    int
	derived bool
}

func runCase(c Case, o *vh.Obs) *vh.Failure {
	var pool []live
	derivedFrom := map[int]int{} // pool-entry creation step -> number of derivations taken from it
	nontrivial := false
	for step, op := range c.Ops {
		if len(pool) == 0 && op.K != "fresh" && op.K != "prim" {
			continue
		}
		var a, b live
		if len(pool) > 0 {
			a, b = pool[op.A%len(pool)], pool[op.B%len(pool)]
		}
		var res []modeling.Mesh
		kind, _ := oracle.Try(func() { res = apply(op, a.m, b.m) })
		if kind != "" {
			o.Count("op-panicked", 1)
			res = nil
		}
		isSource := op.K == "fresh" || op.K == "prim"
		if !isSource && len(res) > 0 {
			if derivedFrom[a.step] > 0 || a.derived {
				nontrivial = true
				switch {
				case op.K == "append" && derivedFrom[a.step] > 0:
					o.Class("append-on-base-with-live-derivation")
				case derivedFrom[a.step] > 0:
					o.Class("branch-off-shared-base")
				default:
					o.Class("derive-from-derived")
				}
			}
			derivedFrom[a.step]++
		}
		if len(op.K) > 6 && op.K[:6] == "export" && a.derived {
			o.Class("export-after-derive")
		}
		for _, m := range res {
			if m.AttributeLength() > 3000 || m.Indices().Len() > 9000 {
				continue
			}
			var snap string
			if k, _ := oracle.Try(func() { snap = oracle.Snapshot(m) }); k != "" {
				continue // a malformed result cannot be snapshotted; C02 judges it
			}
			l := live{m: m, snap: snap, step: step + 1, derived: !isSource}
			if len(pool) < 8 {
				pool = append(pool, l)
			} else {
				pool[(op.A+op.B)%8] = l
			}
		}
		// invariant: every live mesh still reports exactly what it reported when obtained
		for i, l := range pool {
			var now string
			if k, v := oracle.Try(func() { now = oracle.Snapshot(l.m) }); k != "" {
				return vh.Failf("live-mesh-unreadable", "after step %d (%s): pool[%d] (created at step %d) can no longer be read: %v", step, op.K, i, l.step, v)
			}
			if now != l.snap {
				return vh.Failf("live-mesh-changed/"+op.K, "after step %d (%s on pool[%d],pool[%d]): pool[%d] (created at step %d) changed; %s",
					step, op.K, op.A%max(1, len(pool)), op.B%max(1, len(pool)), i, l.step, oracle.DiffSnap(l.snap, now))
			}
		}
	}
	if nontrivial {
		o.NonTrivial()
	}
	o.Class(fmt.Sprintf("steps/%d0s", len(c.Ops)/10))
	return nil
}

func TestC01(t *testing.T) {
	vh.Drive(t, vh.Spec[Case]{Name: "history", Quick: 48000, Thorough: 1600000, Gen: genCase, Run: runCase,
		Sample: func(c Case) any {
			var ks []string
			for _, op := range c.Ops {
				ks = append(ks, fmt.Sprintf("%s(%d,%d)", op.K, op.A, op.B))
			}
			return ks
		}})
}
