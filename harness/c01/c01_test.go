// Package c01 decides property C01 (mesh values are immutable) with a branching-history machine:
// a pool of live meshes, every public operation applied to drawn pool members, and a bit-exact
// snapshot of every live mesh re-checked after every step.
package c01

import (
	"fmt"
	"testing"

	"github.com/EliCDavis/polyform/modeling"
	"github.com/EliCDavis/vector/vector3"
	"pgregory.net/rapid"

	"verifharness/internal/mops"
	"verifharness/internal/oracle"
	"verifharness/internal/vh"
)

func TestMain(m *testing.M) {
	vh.Main(m, vh.Meta{
		ID:    "C01",
		Level: "exploration",
		Rule: "rapid-generated operation histories (3..40 steps) over a pool of <= 8 live meshes: every step draws one or two pool members and one of ~45 public operations " +
			"(Mesh methods, meshops transformers, repeat, primitives as fresh sources, the PLY/OBJ/glTF/STL writers); the result joins the pool, so repeated draws of one base give branching derivations. " +
			"Oracle: a bit-exact snapshot (topology, indices, material ranges and pointers, attribute names, every value) of every live mesh is re-read through the accessors after every step. " +
			"Non-trivial = the history derives from a mesh that already has another live derivation or is itself derived (>= 2 derivations sharing an ancestor); distinct by op-list hash. " +
			"Materials include textured ones (URIs with back-slashes and spaces; snapshot two pointer levels deep) and an MTL export step; sub-check large-history: 3..10 steps over a pool that starts with a recipe-built mesh of more than 65 536 vertices (every such history with a derivation from it is non-trivial by the same rule).",
		Assumptions: []string{
			"an operation that panics (unmet precondition, unsupported topology) is a no-op for this property; crashes are C02's business",
			"the harness never mutates an array after handing it to polyform",
			"histories are bounded to 40 steps, 8 live meshes and 3000 vertices per mesh",
		},
	})
}

type Op = mops.Op

type Case struct {
	Ops []Op
	// LargeN > 0 (sub-check large-history): the pool starts with a mesh of LargeN > 65 536 vertices
	// built from a recipe (not stored); fast paths, chunked loops and 16-bit tables only exist there
	LargeN    int `json:",omitempty"`
	LargeTopo int `json:",omitempty"`
}

// largeMesh: n vertices with a position and a scalar attribute, a few primitives at both ends.
func largeMesh(n int, topo modeling.Topology) modeling.Mesh {
	pos := make([]vector3.Float64, n)
	w := make([]float64, n)
	for i := range pos {
		pos[i] = vector3.New(float64(i%251)/8, float64((i/251)%251)/8, float64(i/63001)/8+float64(i%7)/64)
		w[i] = float64(i)
	}
	idx := []int{0, 1, 2, 2, 1, 3, n/2 + 1, n / 2, n/2 + 5, n - 3, n - 2, n - 1, 0, n - 1, n / 2}
	if topo == modeling.PointTopology {
		idx = []int{n - 1, 0, n / 2, 3, n - 2}
	}
	return modeling.NewMesh(topo, idx).SetFloat3Attribute(modeling.PositionAttribute, pos).SetFloat1Attribute("w", w)
}

func genLarge(t *rapid.T) Case {
	c := Case{LargeN: 65536 + rapid.IntRange(1, 3000).Draw(t, "over")}
	if rapid.IntRange(0, 3).Draw(t, "points") == 0 {
		c.LargeTopo = int(modeling.PointTopology)
	}
	c.Ops = rapid.SliceOfN(rapid.Custom(mops.Gen), 3, 10).Draw(t, "ops")
	for i := range c.Ops {
		if c.Ops[i].K == "fresh" || c.Ops[i].K == "prim" {
			continue
		}
		if rapid.IntRange(0, 2).Draw(t, "onLarge") != 0 {
			c.Ops[i].A = 0 // slot 0 holds the large mesh
		}
	}
	return c
}

func genCase(t *rapid.T) Case {
	min := rapid.IntRange(3, 30).Draw(t, "minSteps")
	ops := rapid.SliceOfN(rapid.Custom(mops.Gen), min, 40).Draw(t, "ops")
	// Aliasing shows when SIBLINGS are derived from one base, often by the same kind of operation and
	// after the base itself was grown by appends. Random picks make that rare, so a drawn share of the
	// steps is rewritten to "the same operation kind again on the previous step's base" and a drawn
	// share of the derivations is turned into appends (the operation that grows every array).
	for i := 1; i < len(ops); i++ {
		if ops[i].K == "fresh" || ops[i].K == "prim" {
			continue
		}
		switch rapid.IntRange(0, 7).Draw(t, "bias") {
		case 0, 1: // sibling derivation from the same base
			ops[i].A = ops[i-1].A
		case 2: // same kind of derivation from the same base, other partner
			if ops[i-1].K != "fresh" && ops[i-1].K != "prim" {
				b := ops[i].B
				ops[i] = ops[i-1]
				ops[i].B = b
			}
		case 3:
			ops[i].K = "append"
		case 4: // derive from the previous step's result (pool slot len-1 while the pool is not full)
			ops[i].K = "append"
			ops[i].A = i % 8
		}
	}
	return Case{Ops: ops}
}

type live struct {
	m       modeling.Mesh
	snap    string
	root    int // id of the fresh ancestor
	step    int
	derived bool
}

func runCase(c Case, o *vh.Obs) *vh.Failure {
	var pool []live
	maxVerts, maxIdx, maxPool := 3000, 9000, 8
	if c.LargeN > 65536 && c.LargeN <= 70000 {
		m := largeMesh(c.LargeN, modeling.Topology(c.LargeTopo))
		pool = append(pool, live{m: m, snap: oracle.Snapshot(m)})
		maxVerts, maxIdx, maxPool = 3*c.LargeN, 9*c.LargeN, 4
		o.Class("large/base-above-65536-vertices")
	}
	derivedFrom := map[int]int{} // pool-entry creation step -> number of derivations taken from it
	nontrivial := false
	for step, op := range c.Ops {
		if len(pool) == 0 && op.K != "fresh" && op.K != "prim" {
			continue
		}
		var a, b live
		if len(pool) > 0 {
			a, b = pool[op.A%len(pool)], pool[op.B%len(pool)]
		}
		var res []modeling.Mesh
		kind, _ := oracle.Try(func() { res = mops.Apply(op, a.m, b.m) })
		if kind != "" {
			o.Count("op-panicked", 1)
			res = nil
		}
		isSource := op.K == "fresh" || op.K == "prim"
		if !isSource && len(res) > 0 {
			if derivedFrom[a.step] > 0 || a.derived {
				nontrivial = true
				switch {
				case op.K == "append" && derivedFrom[a.step] > 0:
					o.Class("append-on-base-with-live-derivation")
				case derivedFrom[a.step] > 0:
					o.Class("branch-off-shared-base")
				default:
					o.Class("derive-from-derived")
				}
			}
			derivedFrom[a.step]++
		}
		if len(op.K) > 6 && op.K[:6] == "export" && a.derived {
			o.Class("export-after-derive")
		}
		for _, m := range res {
			if m.AttributeLength() > maxVerts || m.Indices().Len() > maxIdx {
				continue
			}
			var snap string
			if k, _ := oracle.Try(func() { snap = oracle.Snapshot(m) }); k != "" {
				continue // a malformed result cannot be snapshotted; C02 judges it
			}
			l := live{m: m, snap: snap, step: step + 1, derived: !isSource}
			if len(pool) < maxPool {
				pool = append(pool, l)
			} else if c.LargeN > 0 {
				pool[1+(op.A+op.B)%(maxPool-1)] = l // the large base stays
			} else {
				pool[(op.A+op.B)%8] = l
			}
		}
		// invariant: every live mesh still reports exactly what it reported when obtained
		for i, l := range pool {
			var now string
			if k, v := oracle.Try(func() { now = oracle.Snapshot(l.m) }); k != "" {
				return vh.Failf("live-mesh-unreadable", "after step %d (%s): pool[%d] (created at step %d) can no longer be read: %v", step, op.K, i, l.step, v)
			}
			if now != l.snap {
				return vh.Failf("live-mesh-changed/"+op.K, "after step %d (%s on pool[%d],pool[%d]): pool[%d] (created at step %d) changed; %s",
					step, op.K, op.A%max(1, len(pool)), op.B%max(1, len(pool)), i, l.step, oracle.DiffSnap(l.snap, now))
			}
		}
	}
	if nontrivial {
		o.NonTrivial()
	}
	o.Class(fmt.Sprintf("steps/%d0s", len(c.Ops)/10))
	return nil
}

func TestC01(t *testing.T) {
	vh.Drive(t, vh.Spec[Case]{Name: "large-history", Quick: 32, Thorough: 1500, Gen: genLarge, Run: runCase})
	vh.Drive(t, vh.Spec[Case]{Name: "history", Quick: 48000, Thorough: 1600000, Gen: genCase, Run: runCase,
		Sample: func(c Case) any {
			var ks []string
			for _, op := range c.Ops {
				ks = append(ks, fmt.Sprintf("%s(%d,%d)", op.K, op.A, op.B))
			}
			return ks
		}})
}
