// Package c05 decides property C05 (OBJ write/read round trip preserves groups, corners and
// materials). Two directions:
//
//	write-read  generated lists of named triangle meshes -> obj.WriteMeshes -> (W) the written
//	            text is parsed by the harness' own OBJ parser and compared with the input,
//	            (R) obj.ReadMesh of the text is compared with the input;
//	read-write  OBJ text generated from a grammar -> the harness parser gives the expected face
//	            list -> obj.ReadMesh must load exactly those faces -> obj.WriteMeshes of the
//	            loaded meshes, parsed again by the harness parser, must contain exactly the
//	            loaded faces (multiset): nothing lost, nothing invented.
//
// The harness parser (parseOBJ) is written from the OBJ format description, not from polyform.
package c05

import (
	"bytes"
	"fmt"
	"math"
	"math/big"
	"os"
	"path/filepath"
	"regexp"
	"sort"
	"strconv"
	"strings"
	"testing"
	"time"

	"github.com/EliCDavis/polyform/formats/obj"
	"github.com/EliCDavis/polyform/modeling"
	"github.com/EliCDavis/vector/vector2"
	"github.com/EliCDavis/vector/vector3"
	"pgregory.net/rapid"

	"verifharness/internal/gen"
	"verifharness/internal/oracle"
	"verifharness/internal/vh"
)

func TestMain(m *testing.M) {
	vh.Main(m, vh.Meta{
		ID:    "C05",
		Level: "exploration",
		Rule: "(write-read) 1..4 meshes with distinct whitespace-free names (letters, digits and the punctuation _%.()+@!,;:=~^&$'-), each a rapid-generated well-formed triangle mesh (1..6 vertices, 1..5 triangles, any index pattern incl. shared, repeated and unreferenced vertices, Position always, Normal and TexCoord independently present, values k/8, arbitrary doubles in [-1e3,1e3] and magnitudes 1e-6..1e6, material ranges absent or a partition of the triangles over a pool of four named materials and nil), optional mtllib name. " +
			"Oracle W: the text written by obj.WriteMeshes is parsed by the harness' own OBJ parser (1-based indices validated against the v/vt/vn lists) and must give one face-bearing group per mesh with the mesh's name, triangle count, corner form, per-corner position/normal/uv (float32 precision) and governing usemtl name; oracle R: obj.ReadMesh of the text must give the same per group (name, triangle count and order, attribute presence, per-corner values to float32 precision, material name per triangle expanded from the ranges, nil = DefaultDiffuse). " +
			"(read-write) OBJ text drawn from a grammar: v/vt/vn pools (optionally extended mid-file), optional mtllib/o/s lines, comments, blank lines, whitespace variants, CRLF, 1..14 statements out of {g <distinct name>, usemtl m0..m2, triangular f} in any order, one corner form (v, v/vt, v//vn, v/vt/vn) per group, literals as integers, k/8, 6-decimal and 4-decimal numbers. " +
			"Oracle: the harness parser gives the face list; obj.ReadMesh must load the same number of faces, the same face-bearing groups (name, face count) and per face the same positions (and normals/uvs where the form has them) to float32 precision; obj.WriteMeshes of the loaded meshes parsed by the harness parser must contain exactly the loaded faces as a multiset of position triples (face-lost / face-invented); ranges of a loaded group must cover its triangles and every face preceded by a usemtl inside its own group must carry that name. " +
			"Non-trivial = (write-read) >= 2 meshes with different attribute sets or a mesh with >= 2 material ranges; (read-write) at least one face and a g line after a usemtl line, or >= 2 usemtl lines inside one face-bearing group, or >= 2 face-bearing groups with different corner forms. Distinct by case JSON. " +
			"Sub-checks huge-mesh (2^24+8 vertices; non-trivial) and concurrent-writers / concurrent-readers: every concurrent-* case (2-5 bundled cases run at the same time after each passed alone) is non-trivial. " +
			"One name in eight is an OBJ keyword or an exporter default (default, off, g, usemtl, ...). Sub-check count-sweep: a triangle strip with every triangle count 1..2 500 (thorough 1..25 000), normals/uvs for even counts, two material ranges for multiples of three.",
		Assumptions: []string{
			"mesh names are non-empty, whitespace-free and distinct (the writer emits `g <name>`, the reader rejects an empty g line, and OBJ merges groups of equal name)",
			"every mesh has >= 1 triangle (the reader drops groups without faces); material ranges partition the triangles with counts >= 1",
			"corner format is uniform inside one group (mixing v and v//vn corners in one group has no defined result in the reader)",
			"attribute values are finite and inside the float32 range; equality is 'within half a float32 spacing' of the written/declared value",
			"indices in generated text are positive (absolute) and refer to already declared v/vt/vn lines; relative (negative) indices are not generated",
			"a mesh without material ranges that follows a mesh with ranges is not judged on materials (OBJ cannot switch a material off; counted as matless-after-mat-dontcare)",
			"groups read without a name (faces before the first g) are given a name before re-saving, since the writer's domain is named meshes",
			"in read-write the material of a face is judged only when a usemtl precedes it inside its own group (whether usemtl persists across g is not pinned down by the property)",
		},
	})
}

// ---------------------------------------------------------------- float32 precision

// halfSpacing32 is half the distance between the float32 values around |x| (never smaller than
// the true half-ulp, at most twice it right below a power of two).
func halfSpacing32(x float64) float64 {
	a := float32(math.Abs(x))
	if math.IsInf(float64(a), 0) {
		return math.Inf(1)
	}
	b := math.Nextafter32(a, float32(math.Inf(1)))
	return (float64(b) - float64(a)) / 2
}

// close32: got equals want to float32 parse precision (nearest float32 of want, either neighbour
// at a tie, or anything closer).
func close32(want, got float64) bool {
	if want == got {
		return true
	}
	if math.IsNaN(got) || math.IsInf(got, 0) {
		return false
	}
	return math.Abs(got-want) <= halfSpacing32(want)*(1+1e-6)
}

// ---------------------------------------------------------------- the harness' OBJ parser

type num struct {
	F64 float64 // correctly rounded double of the literal
	F32 float32 // correctly rounded single of the literal (exact rational arithmetic)
}

func parseNum(s string) (num, bool) {
	f, err := strconv.ParseFloat(s, 64)
	if err != nil || math.IsNaN(f) || math.IsInf(f, 0) {
		return num{}, false
	}
	r, ok := new(big.Rat).SetString(s)
	if !ok {
		return num{}, false
	}
	f32, _ := r.Float32()
	return num{F64: f, F32: f32}, true
}

type pCorner struct{ V, VT, VN int } // 0-based, -1 = absent

func (c pCorner) form() int {
	f := 0
	if c.VT >= 0 {
		f |= 1
	}
	if c.VN >= 0 {
		f |= 2
	}
	return f
}

type pFace struct {
	C        [3]pCorner
	Seg      int
	Mat      string // name on the usemtl line governing the face ("" = none so far in the file)
	MatLocal bool   // that usemtl line lies in the same g-segment as the face
	Line     int
}

// pSeg is the stretch of the file between two g lines (the first one starts at the top).
type pSeg struct {
	Name   string
	Named  bool
	Faces  []int
	Usemtl int // usemtl lines inside the segment
	Form   int // corner form of its faces (0 v, 1 v/vt, 2 v//vn, 3 v/vt/vn); -1 none, -2 mixed
}

type parsed struct {
	V       [][3]num
	VT      [][2]num
	VN      [][3]num
	Faces   []pFace
	Segs    []pSeg // all segments, empty ones included
	Mtllibs []string

	GLines, UsemtlLines, Ignored int
	GAfterUsemtl                 bool // some g line follows a usemtl line
	UsemtlBeforeFirstG           bool
	EmptyRanges                  int  // usemtl lines that govern no face before the next usemtl/g/end
	PoolAfterFace                bool // a v/vt/vn line after the first face
}

type parseErr struct{ Kind, Msg string }

func perr(kind, format string, a ...any) *parseErr {
	return &parseErr{Kind: kind, Msg: fmt.Sprintf(format, a...)}
}

func parseIndex(s string) (int, bool) {
	if s == "" {
		return 0, false
	}
	for _, r := range s {
		if r < '0' || r > '9' {
			return 0, false
		}
	}
	n, err := strconv.Atoi(s)
	if err != nil || n < 1 {
		return 0, false
	}
	return n - 1, true
}

func parseCorner(tok string) (pCorner, bool) {
	c := pCorner{-1, -1, -1}
	parts := strings.Split(tok, "/")
	var ok bool
	if c.V, ok = parseIndex(parts[0]); !ok {
		return c, false
	}
	switch len(parts) {
	case 1:
	case 2:
		if c.VT, ok = parseIndex(parts[1]); !ok {
			return c, false
		}
	case 3:
		if parts[1] != "" {
			if c.VT, ok = parseIndex(parts[1]); !ok {
				return c, false
			}
		}
		if c.VN, ok = parseIndex(parts[2]); !ok {
			return c, false
		}
	default:
		return c, false
	}
	return c, true
}

// parseOBJ reads the subset of OBJ the property is about. Indices are validated against the
// lists declared so far; with lenientAttr only position indices are validated (used where the
// faces are identified by their positions alone).
func parseOBJ(text string, lenientAttr bool) (*parsed, *parseErr) {
	p := &parsed{}
	cur := pSeg{Form: -1}
	curMat, matLocal := "", false
	openRange, facesInRange := false, 0
	closeRange := func() {
		if openRange && facesInRange == 0 {
			p.EmptyRanges++
		}
		openRange, facesInRange = false, 0
	}
	for ln, raw := range strings.Split(text, "\n") {
		f := strings.Fields(strings.TrimRight(raw, "\r"))
		if len(f) == 0 || strings.HasPrefix(f[0], "#") {
			continue
		}
		switch f[0] {
		case "v", "vn":
			if len(f) < 4 {
				return nil, perr("malformed-statement", "line %d: %q needs 3 numbers", ln+1, raw)
			}
			var row [3]num
			for i := 0; i < 3; i++ {
				n, ok := parseNum(f[1+i])
				if !ok {
					return nil, perr("malformed-number", "line %d: %q", ln+1, raw)
				}
				row[i] = n
			}
			if f[0] == "v" {
				p.V = append(p.V, row)
			} else {
				p.VN = append(p.VN, row)
			}
			if len(p.Faces) > 0 {
				p.PoolAfterFace = true
			}
		case "vt":
			if len(f) < 3 {
				return nil, perr("malformed-statement", "line %d: %q needs 2 numbers", ln+1, raw)
			}
			var row [2]num
			for i := 0; i < 2; i++ {
				n, ok := parseNum(f[1+i])
				if !ok {
					return nil, perr("malformed-number", "line %d: %q", ln+1, raw)
				}
				row[i] = n
			}
			p.VT = append(p.VT, row)
			if len(p.Faces) > 0 {
				p.PoolAfterFace = true
			}
		case "g":
			closeRange()
			p.Segs = append(p.Segs, cur)
			cur = pSeg{Name: strings.Join(f[1:], " "), Named: true, Form: -1}
			matLocal = false
			p.GLines++
			if p.UsemtlLines > 0 {
				p.GAfterUsemtl = true
			}
		case "usemtl":
			if len(f) < 2 {
				return nil, perr("malformed-statement", "line %d: usemtl without a name", ln+1)
			}
			closeRange()
			openRange = true
			curMat, matLocal = strings.Join(f[1:], " "), true
			cur.Usemtl++
			p.UsemtlLines++
			if p.GLines == 0 {
				p.UsemtlBeforeFirstG = true
			}
		case "mtllib":
			p.Mtllibs = append(p.Mtllibs, f[1:]...)
		case "f":
			if len(f) != 4 {
				return nil, perr("malformed-face", "line %d: %q is not a triangle", ln+1, raw)
			}
			face := pFace{Seg: len(p.Segs), Mat: curMat, MatLocal: matLocal, Line: ln + 1}
			for i := 0; i < 3; i++ {
				c, ok := parseCorner(f[1+i])
				if !ok {
					return nil, perr("malformed-face", "line %d: corner %q", ln+1, f[1+i])
				}
				if c.V >= len(p.V) {
					return nil, perr("v-out-of-range", "line %d: %q refers to v %d but %d are declared", ln+1, raw, c.V+1, len(p.V))
				}
				if !lenientAttr {
					if c.VT >= len(p.VT) {
						return nil, perr("vt-out-of-range", "line %d: %q refers to vt %d but %d are declared", ln+1, raw, c.VT+1, len(p.VT))
					}
					if c.VN >= len(p.VN) {
						return nil, perr("vn-out-of-range", "line %d: %q refers to vn %d but %d are declared", ln+1, raw, c.VN+1, len(p.VN))
					}
				}
				face.C[i] = c
				switch {
				case cur.Form == -1:
					cur.Form = c.form()
				case cur.Form != c.form():
					cur.Form = -2
				}
			}
			cur.Faces = append(cur.Faces, len(p.Faces))
			p.Faces = append(p.Faces, face)
			facesInRange++
		default:
			p.Ignored++
		}
	}
	closeRange()
	p.Segs = append(p.Segs, cur)
	// Seg of a face = index into p.Segs (cur is appended at position len(p.Segs) at face time)
	return p, nil
}

func (p *parsed) nonEmpty() []pSeg {
	var out []pSeg
	for _, s := range p.Segs {
		if len(s.Faces) > 0 {
			out = append(out, s)
		}
	}
	return out
}

func clip(s string) string {
	if len(s) > 1800 {
		return s[:1800] + "\n...(" + strconv.Itoa(len(s)) + " bytes)"
	}
	return s
}

// ---------------------------------------------------------------- write-read

type WRMesh struct {
	Name string
	M    gen.MeshDesc
}

type WRCase struct {
	Meshes  []WRMesh
	MtlFile string `json:",omitempty"`
}

var (
	objAttrs = []gen.AttrSpec{{Name: modeling.PositionAttribute, Arity: 3}, {Name: modeling.NormalAttribute, Arity: 3}, {Name: modeling.TexCoordAttribute, Arity: 2}}
	triOnly  = []modeling.Topology{modeling.TriangleTopology}
	nameRe   = regexp.MustCompile(`^[A-Za-z0-9_%.()+@!,;:=~^&$'-]+$`)
)

// objVal: mostly k/8 (float32-exact, shrink friendly), arbitrary doubles, a wide magnitude range.
func objVal() *rapid.Generator[float64] {
	wide := gen.Mag(-6, 6)
	return rapid.Custom(func(t *rapid.T) float64 {
		switch rapid.IntRange(0, 7).Draw(t, "vk") { // 0 (what shrinking steers to) is the simple kind
		case 5, 6:
			return rapid.Float64Range(-1e3, 1e3).Draw(t, "vf")
		case 7:
			return wide.Draw(t, "vw")
		}
		return float64(rapid.IntRange(-64, 64).Draw(t, "v8")) / 8
	})
}

// wellKnownNames: group names that coincide with OBJ keywords or with what exporters write for "no
// name" (Maya's "default", "off" of the smoothing statement, ...): a reader or writer that gives one
// of them a meaning loses or merges that group.
var wellKnownNames = []string{"default", "Default", "off", "on", "null", "none", "g", "o", "v", "f", "s", "usemtl", "mtllib", "vt", "vn", "l", "p", "0", "1"}

func genWR(t *rapid.T) WRCase {
	n := rapid.IntRange(1, 4).Draw(t, "meshes")
	c := WRCase{}
	val := objVal()
	used := map[string]bool{}
	for i := 0; i < n; i++ {
		name := rapid.StringMatching(`[A-Za-z0-9_]{1,6}`).Draw(t, "name")
		if rapid.IntRange(0, 3).Draw(t, "punctuatedName") == 0 { // names as asset pipelines write them: rock_LOD50%, tree.001, wall(2)
			name = rapid.StringMatching(`[A-Za-z0-9_%.()+@!,;:=~^&$'-]{1,8}`).Draw(t, "name2")
		}
		if rapid.Uint64().Draw(t, "wellKnownName")%8 == 0 {
			name = rapid.SampledFrom(wellKnownNames).Draw(t, "name3")
		}
		for used[name] {
			name += "_" + strconv.Itoa(i)
		}
		used[name] = true
		d := gen.Mesh(t, gen.MeshOpts{Topos: triOnly, MaxN: 6, MaxPrims: 5, MinPrims: 1, NeedPos: true, Val: val,
			Attrs: objAttrs, Materials: true, DupPos: true}, "m"+strconv.Itoa(i))
		if d.PrimCount() == 0 { // identity pattern over fewer than 3 vertices: one (degenerate) triangle
			d.Idx = []int{0, d.N - 1, 0}
		}
		c.Meshes = append(c.Meshes, WRMesh{Name: name, M: d})
	}
	if rapid.IntRange(0, 3).Draw(t, "mtl") == 3 {
		c.MtlFile = "lib.mtl"
	}
	return c
}

func finite32(x gen.F) bool {
	f := float64(x)
	return !math.IsNaN(f) && !math.IsInf(f, 0) && math.Abs(f) <= 1e30
}

// inDomainWR guards replay files: the stated domain of the write direction.
func inDomainWR(c WRCase) bool {
	if len(c.Meshes) == 0 || strings.ContainsAny(c.MtlFile, " \t\r\n") {
		return false
	}
	names := map[string]bool{}
	for _, m := range c.Meshes {
		d := m.M
		if !nameRe.MatchString(m.Name) || names[m.Name] {
			return false
		}
		names[m.Name] = true
		if d.Topology() != modeling.TriangleTopology || d.N < 1 || len(d.Idx) < 3 || len(d.Idx)%3 != 0 {
			return false
		}
		for _, ix := range d.Idx {
			if ix < 0 || ix >= d.N {
				return false
			}
		}
		if len(d.V1) != 0 || len(d.V4) != 0 {
			return false
		}
		pos, ok := d.V3[modeling.PositionAttribute]
		if !ok || len(pos) != d.N {
			return false
		}
		for k, rows := range d.V3 {
			if (k != modeling.PositionAttribute && k != modeling.NormalAttribute) || len(rows) != d.N {
				return false
			}
			for _, r := range rows {
				if !finite32(r[0]) || !finite32(r[1]) || !finite32(r[2]) {
					return false
				}
			}
		}
		for k, rows := range d.V2 {
			if k != modeling.TexCoordAttribute || len(rows) != d.N {
				return false
			}
			for _, r := range rows {
				if !finite32(r[0]) || !finite32(r[1]) {
					return false
				}
			}
		}
		if len(d.Mats) > 0 {
			sum := 0
			for _, r := range d.Mats {
				if r.Count < 1 {
					return false
				}
				sum += r.Count
			}
			if sum != len(d.Idx)/3 {
				return false
			}
		}
	}
	return true
}

type wantMesh struct {
	name       string
	hasN, hasT bool
	pos, nrm   [][3]float64 // per corner
	uv         [][2]float64
	mat        []string // per triangle; nil = no material ranges
	ranges     int
}

func matName(r gen.MatRange) string {
	if r.Mat < 0 {
		return "DefaultDiffuse" // what the writer calls the nil material
	}
	return gen.MaterialPool[r.Mat%len(gen.MaterialPool)].Name
}

func expectWR(c WRCase) []wantMesh {
	var out []wantMesh
	for _, m := range c.Meshes {
		d := m.M
		w := wantMesh{name: m.Name, ranges: len(d.Mats)}
		nrm, hasN := d.V3[modeling.NormalAttribute]
		uv, hasT := d.V2[modeling.TexCoordAttribute]
		pos := d.V3[modeling.PositionAttribute]
		w.hasN, w.hasT = hasN, hasT
		for _, ix := range d.Idx {
			w.pos = append(w.pos, [3]float64{float64(pos[ix][0]), float64(pos[ix][1]), float64(pos[ix][2])})
			if hasN {
				w.nrm = append(w.nrm, [3]float64{float64(nrm[ix][0]), float64(nrm[ix][1]), float64(nrm[ix][2])})
			}
			if hasT {
				w.uv = append(w.uv, [2]float64{float64(uv[ix][0]), float64(uv[ix][1])})
			}
		}
		for _, r := range d.Mats {
			for j := 0; j < r.Count; j++ {
				w.mat = append(w.mat, matName(r))
			}
		}
		out = append(out, w)
	}
	return out
}

func sameStrings(a, b []string) bool {
	if len(a) != len(b) {
		return false
	}
	for i := range a {
		if a[i] != b[i] {
			return false
		}
	}
	return true
}

func runWR(c WRCase, o *vh.Obs) *vh.Failure {
	if !inDomainWR(c) {
		o.Count("out-of-domain", 1)
		return nil
	}
	want := expectWR(c)

	// classes and the non-trivial rule
	sets := map[[2]bool]bool{}
	multiRange, nilMat, unref, shared, matlessAfterMat, anyMat := false, false, false, false, false, false
	for i, w := range want {
		sets[[2]bool{w.hasN, w.hasT}] = true
		if w.ranges >= 2 {
			multiRange = true
		}
		for _, r := range c.Meshes[i].M.Mats {
			if r.Mat < 0 {
				nilMat = true
			}
		}
		if c.Meshes[i].M.HasUnreferenced() {
			unref = true
		}
		if c.Meshes[i].M.HasShared() {
			shared = true
		}
		if w.mat == nil && anyMat {
			matlessAfterMat = true
		}
		if w.mat != nil {
			anyMat = true
		}
	}
	o.Class(fmt.Sprintf("wr/meshes-%d/attr-sets-%d", len(want), len(sets)))
	flag := func(b bool, name string) {
		if b {
			o.Class(name)
		}
	}
	flag(len(sets) >= 2, "wr/mixed-attr-sets")
	flag(multiRange, "wr/multi-range-mesh")
	flag(anyMat, "wr/with-materials")
	flag(nilMat, "wr/nil-material")
	flag(unref, "wr/unreferenced-vertex")
	flag(shared, "wr/shared-vertex")
	flag(matlessAfterMat, "wr/matless-after-mat")
	flag(c.MtlFile != "", "wr/mtllib")
	if len(sets) >= 2 || multiRange {
		o.NonTrivial()
	}

	in := make([]obj.ObjMesh, len(c.Meshes))
	for i, m := range c.Meshes {
		in[i] = obj.ObjMesh{Name: m.Name, Mesh: m.M.Build()}
	}
	var buf bytes.Buffer
	var werr error
	if kind, val := oracle.Try(func() { werr = obj.WriteMeshes(in, c.MtlFile, &buf) }); kind != "" {
		return vh.Failf("write-read/write-panic-"+kind, "WriteMeshes panicked on %d well-formed named meshes: %v", len(in), val)
	}
	if werr != nil {
		return vh.Failf("write-read/write-error", "WriteMeshes failed on %d well-formed named meshes: %v", len(in), werr)
	}
	text := buf.String()

	// ---- W: the written text, read by the harness parser
	p, pe := parseOBJ(text, false)
	if pe != nil {
		return vh.Failf("write-read/"+pe.Kind, "the text written for %d meshes is not valid OBJ: %s\n%s", len(in), pe.Msg, clip(text))
	}
	var wantLibs []string
	if c.MtlFile != "" {
		wantLibs = []string{c.MtlFile}
	}
	if !sameStrings(p.Mtllibs, wantLibs) {
		return vh.Failf("write-read/written-mtllib", "written mtllib names %v, want %v", p.Mtllibs, wantLibs)
	}
	segs := p.nonEmpty()
	if len(segs) != len(want) {
		return vh.Failf("write-read/written-group-count", "written text has %d face-bearing groups for %d meshes\n%s", len(segs), len(want), clip(text))
	}
	for gi, w := range want {
		s := segs[gi]
		if s.Name != w.name || !s.Named {
			return vh.Failf("write-read/written-group-name", "written group %d is named %q, mesh is named %q\n%s", gi, s.Name, w.name, clip(text))
		}
		if len(s.Faces) != len(w.pos)/3 {
			return vh.Failf("write-read/written-face-count", "written group %q has %d faces, mesh has %d triangles\n%s", w.name, len(s.Faces), len(w.pos)/3, clip(text))
		}
		for k, fi := range s.Faces {
			face := p.Faces[fi]
			for ci := 0; ci < 3; ci++ {
				cn := face.C[ci]
				if (cn.VT >= 0) != w.hasT || (cn.VN >= 0) != w.hasN {
					return vh.Failf("write-read/written-corner-form", "group %q (normals %v, uvs %v) line %d: corner %d has vt=%v vn=%v\n%s", w.name, w.hasN, w.hasT, face.Line, ci, cn.VT >= 0, cn.VN >= 0, clip(text))
				}
				wp := w.pos[3*k+ci]
				for x := 0; x < 3; x++ {
					if got := p.V[cn.V][x].F64; !close32(wp[x], got) {
						return vh.Failf("write-read/written-position", "group %q triangle %d corner %d: written position component %d is %v, mesh has %v (line %d)\n%s", w.name, k, ci, x, got, wp[x], face.Line, clip(text))
					}
				}
				if w.hasN {
					wn := w.nrm[3*k+ci]
					for x := 0; x < 3; x++ {
						if got := p.VN[cn.VN][x].F64; !close32(wn[x], got) {
							return vh.Failf("write-read/written-normal", "group %q triangle %d corner %d: written normal (vn %d) component %d is %v, mesh has %v (line %d)\n%s", w.name, k, ci, cn.VN+1, x, got, wn[x], face.Line, clip(text))
						}
					}
				}
				if w.hasT {
					wt := w.uv[3*k+ci]
					for x := 0; x < 2; x++ {
						if got := p.VT[cn.VT][x].F64; !close32(wt[x], got) {
							return vh.Failf("write-read/written-texcoord", "group %q triangle %d corner %d: written uv (vt %d) component %d is %v, mesh has %v (line %d)\n%s", w.name, k, ci, cn.VT+1, x, got, wt[x], face.Line, clip(text))
						}
					}
				}
			}
			if w.mat != nil && (!face.MatLocal || face.Mat != w.mat[k]) {
				return vh.Failf("write-read/written-material", "group %q triangle %d (line %d) is governed by usemtl %q (inside the group: %v), mesh has %q\n%s", w.name, k, face.Line, face.Mat, face.MatLocal, w.mat[k], clip(text))
			}
		}
	}

	// ---- R: the written text, read by the library
	var got []obj.ObjMesh
	var libs []string
	var rerr error
	if kind, val := oracle.Try(func() { got, libs, rerr = obj.ReadMesh(strings.NewReader(text)) }); kind != "" {
		return vh.Failf("write-read/read-panic-"+kind, "ReadMesh panicked on the (valid) text WriteMeshes produced: %v\n%s", val, clip(text))
	}
	if rerr != nil {
		return vh.Failf("write-read/read-error", "ReadMesh rejected the (valid) text WriteMeshes produced: %v\n%s", rerr, clip(text))
	}
	if !sameStrings(libs, wantLibs) {
		return vh.Failf("write-read/mtllib", "ReadMesh reports material files %v, want %v", libs, wantLibs)
	}
	return compareRead(got, want, text, false, o)
}

// compareRead is oracle R: the meshes the library read against what was written. byName matches
// groups by their name instead of their position (SaveAll takes a map: the order is not defined).
func compareRead(got []obj.ObjMesh, want []wantMesh, text string, byName bool, o *vh.Obs) *vh.Failure {
	if len(got) != len(want) {
		return vh.Failf("write-read/group-count", "%d meshes written, %d groups read\n%s", len(want), len(got), clip(text))
	}
	matSeen := false
	for gi, w := range want {
		g := got[gi]
		if byName {
			found := false
			for _, cand := range got {
				if cand.Name == w.name {
					g, found = cand, true
				}
			}
			if !found {
				return vh.Failf("write-read/group-name", "no group named %q was read back\n%s", w.name, clip(text))
			}
			matSeen = true // with an undefined order any mesh may follow one that has materials
		}
		if g.Name != w.name {
			return vh.Failf("write-read/group-name", "group %d read as %q, written as %q", gi, g.Name, w.name)
		}
		if err := oracle.WFStatic(g.Mesh); err != nil {
			return vh.Failf("write-read/ill-formed-group", "group %q read back ill-formed: %v\n%s", w.name, err, clip(text))
		}
		if g.Mesh.Topology() != modeling.TriangleTopology || !g.Mesh.HasFloat3Attribute(modeling.PositionAttribute) {
			return vh.Failf("write-read/not-a-triangle-mesh", "group %q read back with topology %v, positions %v", w.name, g.Mesh.Topology(), g.Mesh.HasFloat3Attribute(modeling.PositionAttribute))
		}
		idx := g.Mesh.Indices()
		if idx.Len() != len(w.pos) {
			return vh.Failf("write-read/face-count", "group %q: %d triangles written, %d read\n%s", w.name, len(w.pos)/3, idx.Len()/3, clip(text))
		}
		if g.Mesh.HasFloat3Attribute(modeling.NormalAttribute) != w.hasN || g.Mesh.HasFloat2Attribute(modeling.TexCoordAttribute) != w.hasT {
			return vh.Failf("write-read/attribute-presence", "group %q written with normals=%v uvs=%v, read with normals=%v uvs=%v\n%s", w.name, w.hasN, w.hasT,
				g.Mesh.HasFloat3Attribute(modeling.NormalAttribute), g.Mesh.HasFloat2Attribute(modeling.TexCoordAttribute), clip(text))
		}
		gp := g.Mesh.Float3Attribute(modeling.PositionAttribute)
		for ci := 0; ci < idx.Len(); ci++ {
			v := idx.At(ci)
			a := gp.At(v)
			for x, gotx := range [3]float64{a.X(), a.Y(), a.Z()} {
				if !close32(w.pos[ci][x], gotx) {
					return vh.Failf("write-read/position-mismatch", "group %q triangle %d corner %d position component %d: wrote %v, read %v\n%s", w.name, ci/3, ci%3, x, w.pos[ci][x], gotx, clip(text))
				}
			}
			if w.hasN {
				a := g.Mesh.Float3Attribute(modeling.NormalAttribute).At(v)
				for x, gotx := range [3]float64{a.X(), a.Y(), a.Z()} {
					if !close32(w.nrm[ci][x], gotx) {
						return vh.Failf("write-read/normal-mismatch", "group %q triangle %d corner %d normal component %d: wrote %v, read %v\n%s", w.name, ci/3, ci%3, x, w.nrm[ci][x], gotx, clip(text))
					}
				}
			}
			if w.hasT {
				a := g.Mesh.Float2Attribute(modeling.TexCoordAttribute).At(v)
				for x, gotx := range [2]float64{a.X(), a.Y()} {
					if !close32(w.uv[ci][x], gotx) {
						return vh.Failf("write-read/texcoord-mismatch", "group %q triangle %d corner %d uv component %d: wrote %v, read %v\n%s", w.name, ci/3, ci%3, x, w.uv[ci][x], gotx, clip(text))
					}
				}
			}
		}
		gm, ok := expandMaterials(g.Mesh)
		if !ok {
			return vh.Failf("write-read/material-mismatch", "group %q read back with a negative or absurd range length: %s", w.name, rangesString(g.Mesh))
		}
		switch {
		case w.mat != nil:
			if !sameStrings(gm, w.mat) {
				return vh.Failf("write-read/material-mismatch", "group %q: material per triangle written %v, read %v (ranges read: %s)\n%s", w.name, w.mat, gm, rangesString(g.Mesh), clip(text))
			}
		case !matSeen:
			if len(gm) != 0 {
				return vh.Failf("write-read/material-invented", "group %q has no material ranges and no earlier mesh has any, but reads back with %s\n%s", w.name, rangesString(g.Mesh), clip(text))
			}
		default:
			o.Count("matless-after-mat-dontcare", 1)
		}
		if w.mat != nil {
			matSeen = true
		}
	}
	return nil
}

// expandMaterials gives the material name of every triangle covered by the mesh's ranges.
func expandMaterials(m modeling.Mesh) ([]string, bool) {
	var out []string
	for _, r := range m.Materials() {
		if r.PrimitiveCount < 0 || r.PrimitiveCount > 1<<20 {
			return nil, false
		}
		name := "<nil>"
		if r.Material != nil {
			name = r.Material.Name
		}
		for j := 0; j < r.PrimitiveCount; j++ {
			out = append(out, name)
		}
	}
	return out, true
}

func rangesString(m modeling.Mesh) string {
	var parts []string
	for _, r := range m.Materials() {
		name := "<nil>"
		if r.Material != nil {
			name = r.Material.Name
		}
		parts = append(parts, fmt.Sprintf("%s x%d", name, r.PrimitiveCount))
	}
	return "[" + strings.Join(parts, ", ") + "]"
}

// ---------------------------------------------------------------- read-write

// RWCase is an OBJ text, one element per line.
type RWCase struct {
	Lines []string
	CRLF  bool `json:",omitempty"`
}

func (c RWCase) text() string {
	eol := "\n"
	if c.CRLF {
		eol = "\r\n"
	}
	if len(c.Lines) == 0 {
		return ""
	}
	return strings.Join(c.Lines, eol) + eol
}

func genLiteral(t *rapid.T) string {
	switch rapid.IntRange(0, 6).Draw(t, "lit") {
	case 4:
		return strconv.Itoa(rapid.IntRange(-9, 9).Draw(t, "int"))
	case 5: // six fixed decimals, the way most exporters print
		return strconv.FormatFloat(float64(rapid.IntRange(-64, 64).Draw(t, "k8"))/8, 'f', 6, 64)
	case 6: // four decimals: not representable in binary, exercises float32 rounding
		n := rapid.IntRange(-99999, 99999).Draw(t, "n4")
		sign := ""
		if n < 0 {
			sign, n = "-", -n
		}
		return fmt.Sprintf("%s%d.%04d", sign, n/10000, n%10000)
	}
	return strconv.FormatFloat(float64(rapid.IntRange(-64, 64).Draw(t, "k8"))/8, 'f', -1, 64)
}

// rwStmt is one abstract statement of the generated text; indices are raw draws reduced modulo
// the number of v/vt/vn lines declared so far when the text is rendered (every statement is its
// own rapid group, so shrinking can delete statements).
type rwStmt struct {
	Kind int // 0 face, 1 g, 2 usemtl, 3 noise, 4 pool line
	Ws   int
	Sel  int
	Idx  [9]int
	Lit  [3]string
}

func wsLine(ws int, tokens ...string) string {
	sep, pre, post := " ", "", ""
	switch ws { // 0..7 plain
	case 8:
		sep = "  "
	case 9:
		sep = "\t"
	case 10:
		post = " "
	case 11:
		pre = " "
	}
	return pre + strings.Join(tokens, sep) + post
}

var noiseLines = []string{"", "# comment", "#comment", "s off", "s 1", "o part", "   "}

func genRW(t *rapid.T) RWCase {
	ws := rapid.IntRange(0, 11)
	poolLine := rapid.Custom(func(t *rapid.T) rwStmt {
		return rwStmt{Kind: 4, Ws: ws.Draw(t, "ws"), Lit: [3]string{genLiteral(t), genLiteral(t), genLiteral(t)}}
	})
	stmt := rapid.Custom(func(t *rapid.T) rwStmt {
		s := rwStmt{Ws: ws.Draw(t, "ws")}
		switch kind := rapid.IntRange(0, 11).Draw(t, "kind"); { // 0..5: a face
		case kind <= 5:
			for i := range s.Idx {
				s.Idx[i] = rapid.IntRange(0, 5039).Draw(t, "ix")
			}
		case kind <= 7:
			s.Kind, s.Sel = 1, rapid.IntRange(0, 3).Draw(t, "form")
		case kind <= 9:
			s.Kind, s.Sel = 2, rapid.IntRange(0, 2).Draw(t, "mtl")
		case kind == 10:
			s.Kind, s.Sel = 3, rapid.IntRange(0, len(noiseLines)-1).Draw(t, "noise")
		default:
			s.Kind, s.Sel = 4, rapid.IntRange(0, 2).Draw(t, "pool")
			s.Lit = [3]string{genLiteral(t), genLiteral(t), genLiteral(t)}
		}
		return s
	})

	c := RWCase{CRLF: rapid.IntRange(0, 7).Draw(t, "crlf") == 7}
	if rapid.IntRange(0, 2).Draw(t, "hdrComment") == 2 {
		c.Lines = append(c.Lines, "# exported by the harness")
	}
	if rapid.IntRange(0, 3).Draw(t, "hdrMtllib") == 3 {
		c.Lines = append(c.Lines, wsLine(ws.Draw(t, "ws"), "mtllib", "lib.mtl"))
	}
	if rapid.IntRange(0, 3).Draw(t, "hdrObject") == 3 {
		c.Lines = append(c.Lines, wsLine(ws.Draw(t, "ws"), "o", "thing"))
	}
	nv, nt, nn := 0, 0, 0
	pool := func(which int, s rwStmt) {
		switch which {
		case 0:
			c.Lines = append(c.Lines, wsLine(s.Ws, "v", s.Lit[0], s.Lit[1], s.Lit[2]))
			nv++
		case 1:
			c.Lines = append(c.Lines, wsLine(s.Ws, "vt", s.Lit[0], s.Lit[1]))
			nt++
		default:
			c.Lines = append(c.Lines, wsLine(s.Ws, "vn", s.Lit[0], s.Lit[1], s.Lit[2]))
			nn++
		}
	}
	for _, s := range rapid.SliceOfN(poolLine, 1, 5).Draw(t, "v") {
		pool(0, s)
	}
	// vt before vn or after: both orders occur in the wild
	vts, vns := rapid.SliceOfN(poolLine, 1, 3).Draw(t, "vt"), rapid.SliceOfN(poolLine, 1, 3).Draw(t, "vn")
	if rapid.Bool().Draw(t, "vnFirst") {
		for _, s := range vns {
			pool(2, s)
		}
		for _, s := range vts {
			pool(1, s)
		}
	} else {
		for _, s := range vts {
			pool(1, s)
		}
		for _, s := range vns {
			pool(2, s)
		}
	}
	form := rapid.IntRange(0, 3).Draw(t, "form0")
	groups := 0
	usedNames := map[string]bool{}
	for _, s := range rapid.SliceOfN(stmt, 1, 14).Draw(t, "stmts") {
		switch s.Kind {
		case 1:
			groups++
			gname := "grp" + strconv.Itoa(groups)
			if wk := wellKnownNames[(s.Sel*7+s.Ws*3+groups)%len(wellKnownNames)]; (s.Sel+s.Ws+groups)%4 == 0 && !usedNames[wk] {
				gname = wk
			}
			usedNames[gname] = true
			c.Lines = append(c.Lines, wsLine(s.Ws, "g", gname))
			form = s.Sel
		case 2:
			c.Lines = append(c.Lines, wsLine(s.Ws, "usemtl", "m"+strconv.Itoa(s.Sel)))
		case 3:
			c.Lines = append(c.Lines, noiseLines[s.Sel])
		case 4:
			pool(s.Sel, s)
		default:
			tok := []string{"f"}
			for ci := 0; ci < 3; ci++ {
				v := strconv.Itoa(1 + s.Idx[3*ci]%nv)
				vt, vn := strconv.Itoa(1+s.Idx[3*ci+1]%nt), strconv.Itoa(1+s.Idx[3*ci+2]%nn)
				switch form {
				case 1:
					v += "/" + vt
				case 2:
					v += "//" + vn
				case 3:
					v += "/" + vt + "/" + vn
				}
				tok = append(tok, v)
			}
			c.Lines = append(c.Lines, wsLine(s.Ws, tok...))
		}
	}
	return c
}

type faceKey [9]uint32

func bits32(f float32) uint32 {
	if f == 0 {
		f = 0 // -0 and +0 are the same position
	}
	return math.Float32bits(f)
}

func runRW(c RWCase, o *vh.Obs) *vh.Failure {
	text := c.text()
	p, pe := parseOBJ(text, false)
	if pe != nil { // not a valid triangulated OBJ: outside the property (generated text never is)
		o.Count("out-of-domain", 1)
		return nil
	}
	segs := p.nonEmpty()
	for _, s := range p.Segs {
		if s.Form == -2 {
			o.Count("out-of-domain", 1)
			return nil
		}
	}
	names := map[string]bool{}
	for _, s := range p.Segs {
		if s.Named {
			if s.Name == "" || names[s.Name] {
				o.Count("out-of-domain", 1)
				return nil
			}
			names[s.Name] = true
		}
	}

	// classes and the non-trivial rule
	forms := map[int]bool{}
	multiUsemtl, laterWithout, seenWith, defaultRange := false, false, false, false
	for _, s := range segs {
		forms[s.Form] = true
		if s.Usemtl >= 2 {
			multiUsemtl = true
		}
		if s.Usemtl == 0 && seenWith {
			laterWithout = true
		}
		if s.Usemtl > 0 {
			seenWith = true
			if !p.Faces[s.Faces[0]].MatLocal {
				defaultRange = true
			}
		}
	}
	ng := len(segs)
	if ng > 4 {
		ng = 4
	}
	o.Class(fmt.Sprintf("rw/face-groups-%d", ng))
	flag := func(b bool, name string) {
		if b {
			o.Class(name)
		}
	}
	flag(p.GAfterUsemtl, "rw/g-after-usemtl")
	flag(p.UsemtlBeforeFirstG, "rw/usemtl-before-first-g")
	flag(multiUsemtl, "rw/several-usemtl-in-group")
	flag(laterWithout, "rw/group-without-usemtl-after-one-with")
	flag(defaultRange, "rw/faces-before-first-usemtl-of-group")
	flag(p.EmptyRanges > 0, "rw/empty-range")
	flag(len(forms) >= 2, "rw/mixed-corner-forms")
	flag(len(p.Segs[0].Faces) > 0, "rw/faces-before-first-g")
	flag(len(p.Segs) > 1 && len(p.Segs[len(p.Segs)-1].Faces) == 0, "rw/trailing-empty-group")
	emptyInside := false
	for i := 1; i < len(p.Segs)-1; i++ {
		if len(p.Segs[i].Faces) == 0 {
			emptyInside = true
		}
	}
	flag(emptyInside, "rw/empty-group-inside")
	flag(p.PoolAfterFace, "rw/pool-extended-after-faces")
	flag(c.CRLF, "rw/crlf")
	flag(len(p.Faces) == 0, "rw/no-face")
	for f, name := range []string{"v", "v-vt", "v-vn", "v-vt-vn"} {
		flag(forms[f], "rw/form-"+name)
	}
	if len(p.Faces) > 0 && (p.GAfterUsemtl || multiUsemtl || len(forms) >= 2) {
		o.NonTrivial()
	}
	o.Count("g-lines", p.GLines)
	o.Count("usemtl-lines", p.UsemtlLines)
	o.Count("faces", len(p.Faces))

	// ---- load
	var ms []obj.ObjMesh
	var libs []string
	var rerr error
	if kind, val := oracle.Try(func() { ms, libs, rerr = obj.ReadMesh(strings.NewReader(text)) }); kind != "" {
		return vh.Failf("read-write/read-panic-"+kind, "ReadMesh panicked on valid OBJ text: %v\n%s", val, clip(text))
	}
	if rerr != nil {
		return vh.Failf("read-write/read-error", "ReadMesh rejected valid OBJ text: %v\n%s", rerr, clip(text))
	}
	if !sameStrings(libs, p.Mtllibs) {
		return vh.Failf("read-write/mtllib", "ReadMesh reports material files %v, text names %v", libs, p.Mtllibs)
	}
	total := 0
	var loaded []obj.ObjMesh // face-bearing groups
	for gi, m := range ms {
		if err := oracle.WFStatic(m.Mesh); err != nil {
			return vh.Failf("read-write/ill-formed-group", "group %d (%q) loaded ill-formed: %v\n%s", gi, m.Name, err, clip(text))
		}
		if m.Mesh.Indices().Len() == 0 {
			continue
		}
		if m.Mesh.Topology() != modeling.TriangleTopology || !m.Mesh.HasFloat3Attribute(modeling.PositionAttribute) {
			return vh.Failf("read-write/not-a-triangle-mesh", "group %d (%q) loaded with topology %v, positions %v", gi, m.Name, m.Mesh.Topology(), m.Mesh.HasFloat3Attribute(modeling.PositionAttribute))
		}
		total += m.Mesh.Indices().Len() / 3
		loaded = append(loaded, m)
	}
	if total != len(p.Faces) {
		return vh.Failf("read-write/face-count", "text has %d faces, ReadMesh loaded %d\n%s", len(p.Faces), total, clip(text))
	}
	if len(loaded) != len(segs) {
		return vh.Failf("read-write/group-mismatch", "text has %d face-bearing groups, ReadMesh loaded %d\n%s", len(segs), len(loaded), clip(text))
	}
	var loadedKeys []faceKey
	for gi, s := range segs {
		m := loaded[gi]
		idx := m.Mesh.Indices()
		if m.Name != s.Name || idx.Len()/3 != len(s.Faces) {
			return vh.Failf("read-write/group-mismatch", "face-bearing group %d: text has %q with %d faces, ReadMesh loaded %q with %d\n%s", gi, s.Name, len(s.Faces), m.Name, idx.Len()/3, clip(text))
		}
		hasT, hasN := s.Form&1 != 0, s.Form&2 != 0
		if m.Mesh.HasFloat3Attribute(modeling.NormalAttribute) != hasN || m.Mesh.HasFloat2Attribute(modeling.TexCoordAttribute) != hasT {
			return vh.Failf("read-write/attribute-presence", "group %q has corner form vt=%v vn=%v, loaded with uvs=%v normals=%v\n%s", s.Name, hasT, hasN,
				m.Mesh.HasFloat2Attribute(modeling.TexCoordAttribute), m.Mesh.HasFloat3Attribute(modeling.NormalAttribute), clip(text))
		}
		gp := m.Mesh.Float3Attribute(modeling.PositionAttribute)
		for k, fi := range s.Faces {
			face := p.Faces[fi]
			var key faceKey
			for ci := 0; ci < 3; ci++ {
				v := idx.At(3*k + ci)
				a := gp.At(v)
				for x, gotx := range [3]float64{a.X(), a.Y(), a.Z()} {
					if want := p.V[face.C[ci].V][x].F64; !close32(want, gotx) {
						return vh.Failf("read-write/face-position", "line %d (group %q face %d) corner %d position component %d: text says %v, loaded %v\n%s", face.Line, s.Name, k, ci, x, want, gotx, clip(text))
					}
					key[3*ci+x] = bits32(float32(gotx))
				}
				if hasN {
					a := m.Mesh.Float3Attribute(modeling.NormalAttribute).At(v)
					for x, gotx := range [3]float64{a.X(), a.Y(), a.Z()} {
						if want := p.VN[face.C[ci].VN][x].F64; !close32(want, gotx) {
							return vh.Failf("read-write/face-normal", "line %d (group %q face %d) corner %d normal component %d: text says %v, loaded %v\n%s", face.Line, s.Name, k, ci, x, want, gotx, clip(text))
						}
					}
				}
				if hasT {
					a := m.Mesh.Float2Attribute(modeling.TexCoordAttribute).At(v)
					for x, gotx := range [2]float64{a.X(), a.Y()} {
						if want := p.VT[face.C[ci].VT][x].F64; !close32(want, gotx) {
							return vh.Failf("read-write/face-texcoord", "line %d (group %q face %d) corner %d uv component %d: text says %v, loaded %v\n%s", face.Line, s.Name, k, ci, x, want, gotx, clip(text))
						}
					}
				}
			}
			loadedKeys = append(loadedKeys, key)
		}
	}

	// ---- save again
	out := make([]obj.ObjMesh, len(ms))
	for i, m := range ms {
		out[i] = m
		if m.Name == "" {
			out[i].Name = "unnamed" + strconv.Itoa(i)
		}
	}
	var buf bytes.Buffer
	var werr error
	if kind, val := oracle.Try(func() { werr = obj.WriteMeshes(out, "", &buf) }); kind != "" {
		return vh.Failf("read-write/resave-panic-"+kind, "WriteMeshes panicked on what ReadMesh loaded (%s): %v\nINPUT\n%s", loadedString(ms), val, clip(text))
	}
	if werr != nil {
		return vh.Failf("read-write/resave-error", "WriteMeshes failed on what ReadMesh loaded: %v\nINPUT\n%s", werr, clip(text))
	}
	saved := buf.String()
	p2, pe2 := parseOBJ(saved, true)
	if pe2 != nil {
		return vh.Failf("read-write/resave-"+pe2.Kind, "the re-saved text is not valid OBJ: %s\nINPUT\n%s\nOUTPUT\n%s", pe2.Msg, clip(text), clip(saved))
	}
	count := map[faceKey]int{}
	for _, k := range loadedKeys {
		count[k]++
	}
	for _, face := range p2.Faces {
		var key faceKey
		for ci := 0; ci < 3; ci++ {
			for x := 0; x < 3; x++ {
				key[3*ci+x] = bits32(p2.V[face.C[ci].V][x].F32)
			}
		}
		count[key]--
	}
	lost, invented := 0, 0
	var example faceKey
	keys := make([]faceKey, 0, len(count))
	for k := range count {
		keys = append(keys, k)
	}
	sort.Slice(keys, func(i, j int) bool {
		for x := 0; x < 9; x++ {
			if keys[i][x] != keys[j][x] {
				return keys[i][x] < keys[j][x]
			}
		}
		return false
	})
	for _, k := range keys {
		if n := count[k]; n > 0 {
			if lost == 0 {
				example = k
			}
			lost += n
		}
	}
	if lost > 0 {
		return vh.Failf("read-write/face-lost", "%d of %d loaded faces are missing from the re-saved file (%d written; e.g. %s; loaded %s)\nINPUT\n%s\nOUTPUT\n%s",
			lost, len(loadedKeys), len(p2.Faces), keyString(example), loadedString(ms), clip(text), clip(saved))
	}
	for _, k := range keys {
		if n := count[k]; n < 0 {
			if invented == 0 {
				example = k
			}
			invented -= n
		}
	}
	if invented > 0 {
		return vh.Failf("read-write/face-invented", "the re-saved file has %d faces that were not loaded (%d loaded, %d written; e.g. %s; loaded %s)\nINPUT\n%s\nOUTPUT\n%s",
			invented, len(loadedKeys), len(p2.Faces), keyString(example), loadedString(ms), clip(text), clip(saved))
	}

	// ---- materials of the loaded groups
	for gi, s := range segs {
		m := loaded[gi]
		gm, ok := expandMaterials(m.Mesh)
		if !ok || (len(m.Mesh.Materials()) > 0 && len(gm) != len(s.Faces)) {
			return vh.Failf("read-write/material-ranges-cover", "group %q has %d faces but its loaded ranges %s cover %d\n%s", s.Name, len(s.Faces), rangesString(m.Mesh), len(gm), clip(text))
		}
		for k, fi := range s.Faces {
			face := p.Faces[fi]
			if !face.MatLocal {
				continue
			}
			if k >= len(gm) || gm[k] != face.Mat {
				got := "<none>"
				if k < len(gm) {
					got = gm[k]
				}
				return vh.Failf("read-write/material-mismatch", "line %d (group %q face %d) follows usemtl %q inside its group, loaded with material %q (ranges %s)\n%s", face.Line, s.Name, k, face.Mat, got, rangesString(m.Mesh), clip(text))
			}
		}
	}
	return nil
}

func keyString(k faceKey) string {
	var parts []string
	for ci := 0; ci < 3; ci++ {
		parts = append(parts, fmt.Sprintf("(%v %v %v)", math.Float32frombits(k[3*ci]), math.Float32frombits(k[3*ci+1]), math.Float32frombits(k[3*ci+2])))
	}
	return strings.Join(parts, " ")
}

func loadedString(ms []obj.ObjMesh) string {
	var parts []string
	for _, m := range ms {
		parts = append(parts, fmt.Sprintf("%q: %d triangles, ranges %s", m.Name, m.Mesh.Indices().Len()/3, rangesString(m.Mesh)))
	}
	return strings.Join(parts, "; ")
}

// ----------------------------------------------------------------

// ---------------------------------------------------------------- huge mesh (vertex numbers beyond 2^24)

// HugeCase: one triangle mesh with N > 2^24 vertices, each at its own float32-exact position,
// whose triangles name vertex numbers a float32 cannot hold; written and read back.
type HugeCase struct {
	N   int
	Idx []int
}

func hugeCases() []HugeCase {
	const b = 1 << 24
	n := b + 8
	return []HugeCase{{N: n, Idx: []int{0, 1, n - 1, b + 1, b - 1, b + 3, b + 5, b + 2, 5, n - 2, b + 7, b}}}
}

func hugePos(i int) vector3.Float64 { return vector3.New(float64(i%4096), float64(i/4096), 0.5) }

func runHuge(c HugeCase, o *vh.Obs) *vh.Failure {
	if c.N < 3 || c.N > 1<<25 || len(c.Idx)%3 != 0 {
		o.Class("out-of-domain")
		return nil
	}
	o.Class("huge/vertex-numbers-beyond-2^24")
	o.NonTrivial()
	pos := make([]vector3.Float64, c.N)
	for i := range pos {
		pos[i] = hugePos(i)
	}
	src := modeling.NewTriangleMesh(c.Idx).SetFloat3Attribute(modeling.PositionAttribute, pos)
	buf := &bytes.Buffer{}
	if err := obj.WriteMesh(src, "", buf); err != nil {
		return vh.Failf("huge/write-error", "writing %d vertices: %v", c.N, err)
	}
	pos, src = nil, modeling.Mesh{}
	back, _, err := obj.ReadMesh(bytes.NewReader(buf.Bytes()))
	if err != nil {
		return vh.Failf("huge/read-error", "reading back %d vertices (%d bytes): %v", c.N, buf.Len(), err)
	}
	if len(back) != 1 {
		return vh.Failf("huge/mesh-count", "one mesh written, %d read", len(back))
	}
	m := back[0].Mesh
	if m.Topology() != modeling.TriangleTopology || m.PrimitiveCount() != len(c.Idx)/3 || !m.HasFloat3Attribute(modeling.PositionAttribute) {
		return vh.Failf("huge/primitives", "wrote %d triangles, read topology %v with %d primitives", len(c.Idx)/3, m.Topology(), m.PrimitiveCount())
	}
	got := m.Float3Attribute(modeling.PositionAttribute)
	ind := m.Indices()
	for k, want := range c.Idx {
		gi := ind.At(k)
		if gi < 0 || gi >= got.Len() {
			return vh.Failf("huge/index-out-of-range", "corner %d references vertex %d of %d", k, gi, got.Len())
		}
		if got.At(gi) != hugePos(want) {
			return vh.Failf("huge/corner-value", "corner %d was written with vertex %d at %v and comes back at %v", k, want, hugePos(want), got.At(gi))
		}
	}
	return nil
}

// ---------------------------------------------------------------- count sweep

// SweepCase: one mesh with exactly N triangles (a strip over N+2 shared vertices, float32-exact
// positions; normals and uvs for even N, two material ranges for N divisible by 3) written and read
// back; every N up to a bound is tried once.
type SweepCase struct{ N int }

func sweepCases() []SweepCase {
	n := 2500
	if vh.Tier == "thorough" {
		n = 25000
	}
	out := make([]SweepCase, 0, n)
	for k := 1; k <= n; k++ {
		out = append(out, SweepCase{N: k})
	}
	return out
}

func sweepPos(i int) vector3.Float64 {
	return vector3.New(float64(i%61)/8, float64((i/61)%61)/8-3, float64(i/3721)/8+float64(i%7)/64)
}

func runSweep(c SweepCase, o *vh.Obs) *vh.Failure {
	if c.N < 1 || c.N > 200000 {
		o.Class("out-of-domain")
		return nil
	}
	o.NonTrivial()
	o.Class("sweep/triangles")
	nv := c.N + 2
	idx := make([]int, 0, 3*c.N)
	for t := 0; t < c.N; t++ {
		if t%2 == 0 {
			idx = append(idx, t, t+1, t+2)
		} else {
			idx = append(idx, t+1, t, t+2)
		}
	}
	pos := make([]vector3.Float64, nv)
	for i := range pos {
		pos[i] = sweepPos(i)
	}
	src := modeling.NewTriangleMesh(idx).SetFloat3Attribute(modeling.PositionAttribute, pos)
	full := c.N%2 == 0
	uvOf := func(i int) vector2.Float64 { return vector2.New(float64(i%9)/8, float64(i%17)/16) }
	nrOf := func(i int) vector3.Float64 { return vector3.New(float64(i%3)-1, float64(i%5)/4, 0.5) }
	if full {
		nr, uv := make([]vector3.Float64, nv), make([]vector2.Float64, nv)
		for i := range nr {
			nr[i], uv[i] = nrOf(i), uvOf(i)
		}
		src = src.SetFloat3Attribute(modeling.NormalAttribute, nr).SetFloat2Attribute(modeling.TexCoordAttribute, uv)
	}
	if c.N%3 == 0 {
		src = src.SetMaterials([]modeling.MeshMaterial{{PrimitiveCount: c.N / 3, Material: gen.MaterialPool[0]}, {PrimitiveCount: c.N - c.N/3, Material: gen.MaterialPool[1]}})
	}
	buf := &bytes.Buffer{}
	if err := obj.WriteMesh(src, "", buf); err != nil {
		return vh.Failf("sweep/write-error", "writing %d triangles: %v", c.N, err)
	}
	back, _, err := obj.ReadMesh(bytes.NewReader(buf.Bytes()))
	if err != nil {
		return vh.Failf("sweep/read-error", "reading back %d triangles (%d bytes): %v", c.N, buf.Len(), err)
	}
	total := 0
	k := 0
	for _, part := range back {
		m := part.Mesh
		if m.Topology() != modeling.TriangleTopology || !m.HasFloat3Attribute(modeling.PositionAttribute) {
			return vh.Failf("sweep/primitives", "%d triangles: a returned mesh has topology %v, float3 attributes %v", c.N, m.Topology(), m.Float3Attributes())
		}
		if m.HasFloat3Attribute(modeling.NormalAttribute) != full || m.HasFloat2Attribute(modeling.TexCoordAttribute) != full {
			return vh.Failf("sweep/attributes", "%d triangles: normals/uvs written %v, read %v/%v", c.N, full, m.HasFloat3Attribute(modeling.NormalAttribute), m.HasFloat2Attribute(modeling.TexCoordAttribute))
		}
		total += m.PrimitiveCount()
		gp, gi := m.Float3Attribute(modeling.PositionAttribute), m.Indices()
		for j := 0; j < gi.Len() && k < len(idx); j, k = j+1, k+1 {
			v := gi.At(j)
			if v < 0 || v >= gp.Len() {
				return vh.Failf("sweep/index-out-of-range", "corner %d references vertex %d of %d", k, v, gp.Len())
			}
			if gp.At(v) != sweepPos(idx[k]) {
				return vh.Failf("sweep/corner-value", "%d triangles: corner %d was written at %v and comes back at %v", c.N, k, sweepPos(idx[k]), gp.At(v))
			}
			if full {
				if n := m.Float3Attribute(modeling.NormalAttribute).At(v); n != nrOf(idx[k]) {
					return vh.Failf("sweep/corner-normal", "%d triangles: corner %d carries normal %v, written %v", c.N, k, n, nrOf(idx[k]))
				}
				if uv := m.Float2Attribute(modeling.TexCoordAttribute).At(v); uv != uvOf(idx[k]) {
					return vh.Failf("sweep/corner-uv", "%d triangles: corner %d carries uv %v, written %v", c.N, k, uv, uvOf(idx[k]))
				}
			}
		}
	}
	if total != c.N || k != len(idx) {
		return vh.Failf("sweep/primitives", "wrote %d triangles, read %d in %d meshes", c.N, total, len(back))
	}
	return nil
}

// ---------------------------------------------------------------- through the file system (obj.Save / SaveAll / Load)

// SLCase: the meshes of a write-read case saved to a path and loaded back. One mesh goes through
// obj.Save (which writes no group name), several through obj.SaveAll (a map: order undefined).
type SLCase struct {
	W    WRCase
	File string // base name of the .obj file
	// Drop != 0: after the round trip the material file is rewritten without some of its newmtl blocks
	// (bit k drops block k; at least one is kept and one dropped) - an export whose material library
	// defines only part of the names the model uses - and the model is loaded and saved again
	Drop int `json:",omitempty"`
}

func genSL(t *rapid.T) SLCase {
	c := SLCase{W: genWR(t), File: rapid.SampledFrom([]string{"mesh.obj", "m.v2.obj", "UPPER.OBJ", "noext", "deep/er/model.obj", "x.obj"}).Draw(t, "file")}
	if rapid.Bool().Draw(t, "dropSome") {
		c.Drop = rapid.IntRange(1, 62).Draw(t, "drop")
	}
	return c
}

func countFaces(text string) int {
	n := 0
	for _, l := range strings.Split(text, "\n") {
		if strings.HasPrefix(strings.TrimSpace(l), "f ") {
			n++
		}
	}
	return n
}

var slFileRe = regexp.MustCompile(`^[A-Za-z0-9_./-]{1,40}$`)

func runSL(c SLCase, o *vh.Obs) *vh.Failure {
	if !inDomainWR(c.W) || !slFileRe.MatchString(c.File) || strings.Contains(c.File, "..") || strings.HasPrefix(c.File, "/") {
		o.Count("out-of-domain", 1)
		return nil
	}
	want := expectWR(c.W)
	dir, err := os.MkdirTemp(filepath.Dir(os.Getenv("VERIF_OUT")), "c05sl")
	if err != nil {
		dir, err = os.MkdirTemp("", "c05sl")
		if err != nil {
			return vh.Failf("harness/tempdir", "%v", err)
		}
	}
	defer os.RemoveAll(dir)
	path := filepath.Join(dir, c.File)
	os.MkdirAll(filepath.Dir(path), 0o755) // the library creates missing directories without permission bits (os.ModeDir): only root could write into them
	anyMat := false
	for _, w := range want {
		if w.mat != nil {
			anyMat = true
		}
	}
	single := len(c.W.Meshes) == 1
	var serr error
	if kind, val := oracle.Try(func() {
		if single {
			serr = obj.Save(path, c.W.Meshes[0].M.Build())
		} else {
			ms := map[string]modeling.Mesh{}
			for _, m := range c.W.Meshes {
				ms[m.Name] = m.M.Build()
			}
			serr = obj.SaveAll(path, ms)
		}
	}); kind != "" {
		return vh.Failf("save-load/save-panic-"+kind, "saving %d meshes to %q panicked: %v", len(want), c.File, val)
	}
	if serr != nil {
		return vh.Failf("save-load/save-error", "saving %d meshes to %q failed: %v", len(want), c.File, serr)
	}
	if single {
		o.Class("save-load/Save")
		want[0].name = "" // Save writes the mesh without a group name
	} else {
		o.Class("save-load/SaveAll")
	}
	if anyMat {
		o.Class("save-load/with-material-file")
		o.NonTrivial()
	}
	text := ""
	if b, err := os.ReadFile(path); err == nil {
		text = string(b)
	}
	var got []obj.ObjMesh
	var lerr error
	if kind, val := oracle.Try(func() { got, lerr = obj.Load(path) }); kind != "" {
		return vh.Failf("save-load/load-panic-"+kind, "loading what was just saved to %q panicked: %v\n%s", c.File, val, clip(text))
	}
	if lerr != nil {
		return vh.Failf("save-load/load-error", "loading what was just saved to %q failed: %v\n%s", c.File, lerr, clip(text))
	}
	if f := compareRead(got, want, text, !single, o); f != nil {
		f.Sig = "save-load/" + strings.TrimPrefix(f.Sig, "write-read/")
		return f
	}
	// every range that names a material must carry the material loaded from the file, one object per name
	byName := map[string]*modeling.Material{}
	for _, g := range got {
		for _, r := range g.Mesh.Materials() {
			if r.Material == nil {
				return vh.Failf("save-load/material-not-loaded", "a range of group %q has no material after Load although the saved text names one for every range\n%s", g.Name, clip(text))
			}
			if prev, ok := byName[r.Material.Name]; ok && prev != r.Material {
				return vh.Failf("save-load/material-object-per-range", "material %q is two different objects after Load", r.Material.Name)
			}
			byName[r.Material.Name] = r.Material
		}
	}
	// a material library that defines only part of the names: loading and saving again loses no face
	if c.Drop != 0 && anyMat {
		lib := ""
		for _, l := range strings.Split(text, "\n") {
			if strings.HasPrefix(l, "mtllib ") {
				lib = strings.TrimSpace(strings.TrimPrefix(l, "mtllib "))
			}
		}
		mb, err := os.ReadFile(filepath.Join(filepath.Dir(path), lib))
		if lib == "" || err != nil {
			o.Count("no-material-file-not-judged", 1)
			return nil
		}
		blocks := strings.Split(string(mb), "newmtl ")
		if len(blocks) < 3 { // preamble + at least two materials
			o.Count("fewer-than-two-materials-not-judged", 1)
			return nil
		}
		kept, dropped := blocks[0], 0
		for k, b := range blocks[1:] {
			if c.Drop>>uint(k%6)&1 == 1 && dropped < len(blocks)-2 {
				dropped++
				continue
			}
			kept += "newmtl " + b
		}
		if dropped == 0 {
			o.Count("nothing-dropped-not-judged", 1)
			return nil
		}
		if err := os.WriteFile(filepath.Join(filepath.Dir(path), lib), []byte(kept), 0o644); err != nil {
			return vh.Failf("harness/write-mtl", "%v", err)
		}
		o.Class("save-load/material-file-defines-a-subset")
		var again []obj.ObjMesh
		if kind, val := oracle.Try(func() { again, lerr = obj.Load(path) }); kind != "" {
			return vh.Failf("save-load/subset-load-panic-"+kind, "loading a model whose material file defines %d of %d names panicked: %v", len(blocks)-1-dropped, len(blocks)-1, val)
		}
		if lerr != nil {
			return vh.Failf("save-load/subset-load-error", "loading a model whose material file defines part of the names failed: %v", lerr)
		}
		buf := &bytes.Buffer{}
		var werr error
		if kind, val := oracle.Try(func() { werr = obj.WriteMeshes(again, "", buf) }); kind != "" {
			return vh.Failf("save-load/subset-save-panic-"+kind, "saving what was loaded panicked: %v", val)
		}
		if werr != nil {
			return vh.Failf("save-load/subset-save-error", "saving what was loaded failed: %v", werr)
		}
		if a, b := countFaces(text), countFaces(buf.String()); a != b {
			return vh.Failf("save-load/subset-face-count", "the file has %d faces; loaded with a material file that defines %d of its %d materials and saved again it has %d\n%s", a, len(blocks)-1-dropped, len(blocks)-1, b, clip(text))
		}
	}
	return nil
}

func TestC05(t *testing.T) {
	vh.Drive(t, vh.Spec[WRCase]{Name: "write-read", Quick: 80000, Thorough: 2400000, Gen: genWR, Run: runWR})
	vh.Drive(t, vh.Spec[RWCase]{Name: "read-write", Quick: 100000, Thorough: 3000000, Gen: genRW, Run: runRW})
	vh.Drive(t, vh.Spec[vh.Conc[WRCase]]{Name: "concurrent-writers", Quick: 2000, Thorough: 60000, Gen: vh.GenConc(genWR), Run: vh.RunConc(runWR), Repeat: 20})
	vh.Drive(t, vh.Spec[vh.Conc[RWCase]]{Name: "concurrent-readers", Quick: 2000, Thorough: 60000, Gen: vh.GenConc(genRW), Run: vh.RunConc(runRW), Repeat: 20})
	// ~2.5 GB and ~10 s: a single case
	vh.Enumerate(t, vh.Spec[HugeCase]{Name: "huge-mesh", Run: runHuge, Deadline: 10 * time.Minute}, hugeCases())
	vh.Enumerate(t, vh.Spec[SweepCase]{Name: "count-sweep", Run: runSweep}, sweepCases())
	vh.Drive(t, vh.Spec[SLCase]{Name: "save-load", Quick: 12000, Thorough: 300000, Gen: genSL, Run: runSL})
}

func FuzzC05ReadWrite(f *testing.F) {
	vh.Fuzz(f, vh.Spec[RWCase]{Name: "read-write", Gen: genRW, Run: runRW})
}
