// Package c18 decides property C18 (solid primitives are closed, outward-facing and of the right
// volume): every solid primitive of modeling/primitives is rebuilt into a surface over merged
// vertex ids and judged by an edge-pairing oracle, a closed-form volume derived from the
// parameters alone, the analytic volume of the round body, and the supplied vertex normals.
package c18

import (
	"fmt"
	"math"
	"slices"
	"sort"
	"testing"

	"github.com/EliCDavis/polyform/modeling"
	"github.com/EliCDavis/polyform/modeling/primitives"
	"github.com/EliCDavis/vector/vector2"
	"github.com/EliCDavis/vector/vector3"
	"pgregory.net/rapid"

	"verifharness/internal/oracle"
	"verifharness/internal/vh"
)

func TestMain(m *testing.M) {
	vh.Main(m, vh.Meta{
		ID:    "C18",
		Level: "exploration",
		Rule: "families: UVSphere, UVSphereUnwelded, Hemisphere{Capped:true}.UV, capped Cylinder, Cube.Welded, Cube.UnweldedQuads. " +
			"'grid' enumerates rows 2..24 x columns 3..24 for the three sphere-like families at radii {1e-3, 0.7, 1e3}, cylinder sides 3..64 x the 9 UV option " +
			"combinations (UVs nil, or any subset of Top/Bottom/Side) x 5 radius/height pairs incl. aspect 1e-6 and 1e6, and both box builders x 65 UV tables " +
			"(nil, or any subset of the six faces of DefaultCubeUVs) x 6 extent triples; 'sampled' draws the family, radius/height/width/depth log-uniform in [1e-3,1e3] " +
			"(with a share of round values), rows 2..200, columns 3..200, sides 3..500 (a quarter of the draws <= 24, half of them counted down from the maximum) and the UV options; 'convergence' builds ascending " +
			"resolution chains (fixed doubling chains to 256/512 enumerated in 'convergence-grid', random ascending chains sampled). " +
			"Oracle: positions merged by union-find at eps = 1e-9*largest extent; no triangle with two equal merged ids; every directed edge used exactly once and matched by its " +
			"opposite; one connected component of Euler characteristic 2; every vertex on the surface of the analytic body (1e-9 relative); signed volume > 0; every face turned away from an " +
			"interior point; volume equal (1e-9 relative) to the closed form of the inscribed polyhedron computed from the parameters only (A_C*sum dy/3*(r1^2+r1*r2+r2^2) over the latitude rings of " +
			"the constructor, A_C = C/2*sin(2pi/C); A_S*R^2*h; w*h*d); volume below the analytic volume, within 1% of it when every count is >= 32; supplied normals have a positive dot " +
			"product with the winding normal of every triangle that references the vertex. " +
			"Non-trivial = the surface only closes through the mechanisms the property names: rows >= 3 (pole fans + at least one quad strip + seam wrap-around) for sphere/hemisphere, " +
			"any capped cylinder (side strip, seam column and two cap rings only meet after merging), boxes with three pairwise different extents; chains with >= 2 steps. Distinct by case JSON. " +
			"Sampled counts include power-of-two boundaries up to 65 536 (70 000 sides) and one case in four lies at an overall scale 1e-9..1e9. " +
			"Every solid is judged after another solid of its family with other parameters was built; sub-check concurrent-builders bundles 2-5 cases (non-trivial).",
		Assumptions: []string{
			"admissible parameters: radius, height, width, depth finite and > 0 (generated in [1e-3,1e3]); rows >= 2 and columns >= 3 (what UVSphere/Hemisphere.UV accept without reporting failure); Cylinder.Sides >= 3 (the constructor validates nothing; fewer sides do not bound a solid)",
			"only the capped cylinder (NoTop=false, NoBottom=false) is a solid; pipes and half-open cylinders are open surfaces and outside the property",
			"Hemisphere.UV never reads the Capped field: Capped:false returns the same closed mesh as Capped:true (base fan from the origin to the equator ring included). Only Capped:true is judged; Capped:false is built, run through the same oracle and only counted (hemisphere_uncapped_closed / hemisphere_uncapped_not_closed), because an implementation that honoured the flag would return an open dome",
			"hemisphere ring latitudes are those of the constructor: polar angle pi/2*(1-k/rows), k = 0..rows-2, then the pole (the ring at k = rows-1 does not exist, the last band spans two steps); the closed form follows that construction. Hemisphere normals are not claimed (the base-centre vertex is the origin, its normalised position is NaN)",
			"no primitive emits degenerate triangles (poles are single vertices with real fans, caps are centre fans), so the rule 'no triangle with two equal merged ids' is applied without exception",
			"merge radius eps = 1e-9*largest extent; a case whose smallest designed vertex spacing (from the parameters) is below 8*eps would be skipped and counted (never happens inside the generated ranges: worst case cylinder radius/height = 1e-6 with 500 sides has spacing 12.6*eps)",
			"'incident face' for the normal rule means a triangle that references the vertex through the index array (cap vertices and side vertices of the cylinder are distinct vertices with distinct normals); normals are only checked where the mesh supplies them (UVSphereUnwelded supplies none)",
			"Cube.Welded with a partial UV table dereferences UVs.Bottom without a nil test (texture-coordinate code, not geometry): for partial tables a crash is counted (welded_partial_uv_table_crash) and not judged; with nil, empty and complete tables any panic is a violation, and whenever a mesh is returned its geometry is judged",
			"the 1% bound against the analytic volume is claimed only when every count (rows and columns, or sides) is >= 32 (closed-form error at 32x32 is 0.88% for the sphere, 0.70% hemisphere, 0.64% cylinder, and decreases monotonically in each count)",
		},
	})
}

// ---------------------------------------------------------------- small vector helpers

type V3 = [3]float64

func sub(a, b V3) V3      { return V3{a[0] - b[0], a[1] - b[1], a[2] - b[2]} }
func dot(a, b V3) float64 { return a[0]*b[0] + a[1]*b[1] + a[2]*b[2] }
func cross(a, b V3) V3 {
	return V3{a[1]*b[2] - a[2]*b[1], a[2]*b[0] - a[0]*b[2], a[0]*b[1] - a[1]*b[0]}
}
func norm(a V3) float64 { return math.Sqrt(dot(a, a)) }
func finite3(a V3) bool {
	for _, x := range a {
		if math.IsNaN(x) || math.IsInf(x, 0) {
			return false
		}
	}
	return true
}

// nsum is a Neumaier compensated accumulator.
type nsum struct{ s, c float64 }

func (k *nsum) add(x float64) {
	t := k.s + x
	if math.Abs(k.s) >= math.Abs(x) {
		k.c += (k.s - t) + x
	} else {
		k.c += (x - t) + k.s
	}
	k.s = t
}
func (k *nsum) val() float64 { return k.s + k.c }

// ---------------------------------------------------------------- cases

const (
	famSphere     = "sphere"
	famSphereUnw  = "sphere-unwelded"
	famHemisphere = "hemisphere"
	famCylinder   = "cylinder"
	famCubeWelded = "cube-welded"
	famCubeQuads  = "cube-quads"
)

var families = []string{famSphere, famSphereUnw, famHemisphere, famCylinder, famCubeWelded, famCubeQuads}

// Case is one parameter choice of one primitive. Unused fields stay zero.
//
//	sphere, sphere-unwelded, hemisphere: R, Rows, Cols (hemisphere: Uncapped selects Capped:false)
//	cylinder: R, H, Cols (= Sides); UV 0 = UVs nil, 1+mask = &CylinderUVs with bit0 Top, bit1 Bottom, bit2 Side
//	cube-*: W, H, D; UV 0 = UVs nil, 1+mask = &CubeUVs with bit0..5 Top, Bottom, Left, Right, Front, Back taken from DefaultCubeUVs
type Case struct {
	Family   string
	R        float64 `json:",omitempty"`
	H        float64 `json:",omitempty"`
	W        float64 `json:",omitempty"`
	D        float64 `json:",omitempty"`
	Rows     int     `json:",omitempty"`
	Cols     int     `json:",omitempty"`
	UV       int     `json:",omitempty"`
	Uncapped bool    `json:",omitempty"`
}

func okSize(x float64) bool { return x > 0 && !math.IsInf(x, 0) && !math.IsNaN(x) }

// admissible reports whether the case lies inside the property's parameter domain (replay files
// may carry anything).
func (c Case) admissible() bool {
	switch c.Family {
	case famSphere, famSphereUnw, famHemisphere:
		return okSize(c.R) && c.Rows >= 2 && c.Cols >= 3
	case famCylinder:
		return okSize(c.R) && okSize(c.H) && c.Cols >= 3 && c.UV >= 0 && c.UV <= 8
	case famCubeWelded, famCubeQuads:
		return okSize(c.W) && okSize(c.H) && okSize(c.D) && c.UV >= 0 && c.UV <= 64
	}
	return false
}

func cylinderUVs(uv int) (*primitives.CylinderUVs, string) {
	if uv == 0 {
		return nil, "uv=nil"
	}
	mask := uv - 1
	u := &primitives.CylinderUVs{}
	name := "uv="
	if mask&1 != 0 {
		u.Top = &primitives.CircleUVs{Center: vector2.New(0.25, 0.25), Radius: 0.25}
		name += "T"
	}
	if mask&2 != 0 {
		u.Bottom = &primitives.CircleUVs{Center: vector2.New(0.75, 0.25), Radius: 0.25}
		name += "B"
	}
	if mask&4 != 0 {
		u.Side = &primitives.StripUVs{Start: vector2.New(0., 0.75), End: vector2.New(1., 0.75), Width: 0.5}
		name += "S"
	}
	if mask == 0 {
		name += "empty"
	}
	return u, name
}

func cubeUVs(uv int) (*primitives.CubeUVs, string) {
	if uv == 0 {
		return nil, "uv=nil"
	}
	mask := uv - 1
	d := primitives.DefaultCubeUVs()
	u := &primitives.CubeUVs{}
	if mask&1 != 0 {
		u.Top = d.Top
	}
	if mask&2 != 0 {
		u.Bottom = d.Bottom
	}
	if mask&4 != 0 {
		u.Left = d.Left
	}
	if mask&8 != 0 {
		u.Right = d.Right
	}
	if mask&16 != 0 {
		u.Front = d.Front
	}
	if mask&32 != 0 {
		u.Back = d.Back
	}
	switch mask {
	case 0:
		return u, "uv=empty"
	case 63:
		return u, "uv=default"
	}
	return u, "uv=partial"
}

// build calls the constructor under test.
func build(c Case) modeling.Mesh {
	switch c.Family {
	case famSphere:
		return primitives.UVSphere(c.R, c.Rows, c.Cols)
	case famSphereUnw:
		return primitives.UVSphereUnwelded(c.R, c.Rows, c.Cols)
	case famHemisphere:
		return primitives.Hemisphere{Radius: c.R, Capped: !c.Uncapped}.UV(c.Rows, c.Cols)
	case famCylinder:
		u, _ := cylinderUVs(c.UV)
		return primitives.Cylinder{Sides: c.Cols, Height: c.H, Radius: c.R, UVs: u}.ToMesh()
	case famCubeWelded:
		u, _ := cubeUVs(c.UV)
		return primitives.Cube{Height: c.H, Width: c.W, Depth: c.D, UVs: u}.Welded()
	case famCubeQuads:
		u, _ := cubeUVs(c.UV)
		return primitives.Cube{Height: c.H, Width: c.W, Depth: c.D, UVs: u}.UnweldedQuads()
	}
	panic("c18: unknown family " + c.Family)
}

// ---------------------------------------------------------------- closed forms (parameters only)

// polyArea is the area of the regular n-gon inscribed in the unit circle.
func polyArea(n int) float64 { return float64(n) / 2 * math.Sin(2*math.Pi/float64(n)) }

// frusta is the volume of the solid of stacked regular-polygon frusta through the rings
// (rho[k], y[k]), y monotone, for the unit polygon area 1: sum |dy|/3*(r1^2+r1 r2+r2^2).
func frusta(rho, y []float64) float64 {
	var s nsum
	for k := 0; k+1 < len(rho); k++ {
		s.add(math.Abs(y[k+1]-y[k]) / 3 * (rho[k]*rho[k] + rho[k]*rho[k+1] + rho[k+1]*rho[k+1]))
	}
	return s.val()
}

// inscribedVolume is the volume of the polyhedron the parameters describe; analyticVolume the
// volume of the round body it is inscribed in (equal for boxes).
func inscribedVolume(c Case) float64 {
	switch c.Family {
	case famSphere, famSphereUnw:
		// poles at +-R, ring k (1..rows-1) at polar angle pi*k/rows
		rho, y := []float64{0}, []float64{1}
		for k := 1; k < c.Rows; k++ {
			phi := math.Pi * float64(k) / float64(c.Rows)
			rho, y = append(rho, math.Sin(phi)), append(y, math.Cos(phi))
		}
		rho, y = append(rho, 0), append(y, -1)
		return polyArea(c.Cols) * frusta(rho, y) * c.R * c.R * c.R
	case famHemisphere:
		// flat base at y = 0 (equator ring k = 0), rings k = 0..rows-2 at polar angle pi/2*(1-k/rows), pole at R
		var rho, y []float64
		for k := 0; k <= c.Rows-2; k++ {
			u := math.Pi / 2 * (1 - float64(k)/float64(c.Rows))
			rho, y = append(rho, math.Sin(u)), append(y, math.Cos(u))
		}
		rho[0], y[0] = 1, 0
		rho, y = append(rho, 0), append(y, 1)
		return polyArea(c.Cols) * frusta(rho, y) * c.R * c.R * c.R
	case famCylinder:
		return polyArea(c.Cols) * c.R * c.R * c.H
	default:
		return c.W * c.H * c.D
	}
}

func analyticVolume(c Case) float64 {
	switch c.Family {
	case famSphere, famSphereUnw:
		return 4. / 3 * math.Pi * c.R * c.R * c.R
	case famHemisphere:
		return 2. / 3 * math.Pi * c.R * c.R * c.R
	case famCylinder:
		return math.Pi * c.R * c.R * c.H
	default:
		return c.W * c.H * c.D
	}
}

// extent is the largest extent of the body; minSpacing the smallest designed distance between two
// distinct vertices of the polyhedron.
func extent(c Case) float64 {
	switch c.Family {
	case famSphere, famSphereUnw, famHemisphere:
		return 2 * c.R
	case famCylinder:
		return math.Max(2*c.R, c.H)
	default:
		return math.Max(c.W, math.Max(c.H, c.D))
	}
}

func minSpacing(c Case) float64 {
	switch c.Family {
	case famSphere, famSphereUnw, famHemisphere:
		// chord on the ring next to the pole (polar angle pi/rows in both constructions) and the
		// meridian step (pi/rows for the sphere, pi/(2 rows) for the hemisphere)
		ring := 2 * c.R * math.Sin(math.Pi/float64(c.Rows)) * math.Sin(math.Pi/float64(c.Cols))
		step := 2 * c.R * math.Sin(math.Pi/float64(2*c.Rows))
		if c.Family == famHemisphere {
			step = 2 * c.R * math.Sin(math.Pi/float64(4*c.Rows))
		}
		return math.Min(ring, step)
	case famCylinder:
		return math.Min(2*c.R*math.Sin(math.Pi/float64(c.Cols)), c.H)
	default:
		return math.Min(c.W, math.Min(c.H, c.D))
	}
}

// interior is a point strictly inside the (convex) polyhedron.
func interior(c Case) V3 {
	if c.Family == famHemisphere {
		return V3{0, c.R / 4, 0}
	}
	return V3{}
}

// offSurface returns how far p is from the surface of the analytic body, in units of length.
func offSurface(c Case, p V3) float64 {
	rho := math.Hypot(p[0], p[2])
	switch c.Family {
	case famSphere, famSphereUnw:
		return math.Abs(norm(p) - c.R)
	case famHemisphere:
		dome := math.Max(math.Abs(norm(p)-c.R), math.Max(0, -p[1]))
		base := math.Max(math.Abs(p[1]), math.Max(0, rho-c.R))
		return math.Min(dome, base)
	case famCylinder:
		side := math.Max(math.Abs(rho-c.R), math.Max(0, math.Abs(p[1])-c.H/2))
		caps := math.Max(math.Abs(math.Abs(p[1])-c.H/2), math.Max(0, rho-c.R))
		return math.Min(side, caps)
	default:
		// box surface: inside the closed box and on at least one face plane
		h := V3{c.W / 2, c.H / 2, c.D / 2}
		out, onFace := 0.0, math.Inf(1)
		for i := 0; i < 3; i++ {
			out = math.Max(out, math.Abs(p[i])-h[i])
			onFace = math.Min(onFace, math.Abs(math.Abs(p[i])-h[i]))
		}
		return math.Max(math.Max(out, 0), onFace)
	}
}

// ---------------------------------------------------------------- surface extraction and merging

type surface struct {
	pos []V3
	nrm []V3 // nil when the mesh supplies no normals
	idx []int
}

func extract(m modeling.Mesh) (surface, error) {
	var s surface
	if m.Topology() != modeling.TriangleTopology {
		return s, fmt.Errorf("topology %v is not triangles", m.Topology())
	}
	if !m.HasFloat3Attribute(modeling.PositionAttribute) {
		return s, fmt.Errorf("no position attribute")
	}
	if err := oracle.WFStatic(m); err != nil {
		return s, err
	}
	p := m.Float3Attribute(modeling.PositionAttribute)
	s.pos = make([]V3, p.Len())
	for i := range s.pos {
		v := p.At(i)
		s.pos[i] = V3{v.X(), v.Y(), v.Z()}
	}
	if m.HasFloat3Attribute(modeling.NormalAttribute) {
		n := m.Float3Attribute(modeling.NormalAttribute)
		s.nrm = make([]V3, n.Len())
		for i := range s.nrm {
			v := n.At(i)
			s.nrm[i] = V3{v.X(), v.Y(), v.Z()}
		}
	}
	ix := m.Indices()
	s.idx = make([]int, ix.Len())
	for i := range s.idx {
		s.idx[i] = ix.At(i)
	}
	if len(s.idx) == 0 {
		return s, fmt.Errorf("no triangles")
	}
	return s, nil
}

// mergeIDs gives every vertex the smallest index of its cluster under the transitive closure of
// "distance <= eps" (union-find; candidates found by a sweep along a generic direction).
func mergeIDs(pos []V3, eps float64) []int {
	n := len(pos)
	dir := V3{0.5377, 0.3183, 0.7810} // |dir| < 1.001
	type key struct {
		proj float64
		v    int
	}
	ord := make([]key, n)
	for i, p := range pos {
		ord[i] = key{dot(p, dir), i}
	}
	slices.SortFunc(ord, func(a, b key) int {
		if a.proj != b.proj {
			if a.proj < b.proj {
				return -1
			}
			return 1
		}
		return a.v - b.v
	})
	parent := make([]int, n)
	for i := range parent {
		parent[i] = i
	}
	find := func(x int) int {
		for parent[x] != x {
			parent[x] = parent[parent[x]]
			x = parent[x]
		}
		return x
	}
	win := eps * 1.001
	for a := 0; a < n; a++ {
		i := ord[a].v
		for b := a + 1; b < n && ord[b].proj-ord[a].proj <= win; b++ {
			j := ord[b].v
			if norm(sub(pos[i], pos[j])) <= eps {
				ri, rj := find(i), find(j)
				if ri < rj {
					parent[rj] = ri
				} else if rj < ri {
					parent[ri] = rj
				}
			}
		}
	}
	id := make([]int, n)
	for i := range id {
		id[i] = find(i)
	}
	return id
}

// signedVolume is sum a.(b x c)/6 over the triangles (origin-based, compensated).
func signedVolume(s surface) float64 {
	var v nsum
	for t := 0; t+2 < len(s.idx); t += 3 {
		a, b, c := s.pos[s.idx[t]], s.pos[s.idx[t+1]], s.pos[s.idx[t+2]]
		v.add(dot(a, cross(b, c)) / 6)
	}
	return v.val()
}

// ---------------------------------------------------------------- the oracle

func optionClass(c Case) string {
	switch c.Family {
	case famSphere:
		return "sphere/welded"
	case famSphereUnw:
		return "sphere/unwelded"
	case famHemisphere:
		if c.Uncapped {
			return "hemisphere/capped=false(observed only)"
		}
		return "hemisphere/capped=true"
	case famCylinder:
		_, n := cylinderUVs(c.UV)
		return "cylinder/capped/" + n
	case famCubeWelded:
		_, n := cubeUVs(c.UV)
		return "cube/welded/" + n
	default:
		_, n := cubeUVs(c.UV)
		return "cube/unwelded-quads/" + n
	}
}

func minCount(c Case) int {
	switch c.Family {
	case famSphere, famSphereUnw, famHemisphere:
		if c.Rows < c.Cols {
			return c.Rows
		}
		return c.Cols
	case famCylinder:
		return c.Cols
	}
	return 0
}

func runCase(c Case, o *vh.Obs) *vh.Failure {
	if !c.admissible() {
		o.Count("inadmissible_case_skipped", 1)
		return nil
	}
	o.Class(optionClass(c))
	if c.Family == famHemisphere && c.Uncapped {
		// outside the property (see Assumptions): observe whether the flag changes anything
		var f *vh.Failure
		kind, _ := oracle.Try(func() { f = judge(c, build(c), &vh.Obs{}) })
		if kind == "" && f == nil {
			o.Count("hemisphere_uncapped_closed", 1)
		} else {
			o.Count("hemisphere_uncapped_not_closed", 1)
		}
		return nil
	}
	// what a program did before it asks for this solid must not matter. Two histories, chosen by the
	// case's own parameters: (1) two solids of the same family and resolution with other sizes were
	// built first (a resolution kept while a size slider moves); (2) a solid of this kind was already
	// appended to a mesh that holds only loose vertices, and to an empty mesh (assembling a scene).
	if c.Rows < 300 && c.Cols < 300 {
		switch (c.Rows*7 + c.Cols*3 + len(c.Family) + c.UV) % 3 {
		case 1:
			for _, k := range []float64{2, 3} {
				prev := c
				prev.R, prev.H, prev.W, prev.D = c.R*k, c.H*k, c.W*k, c.D*k
				if prev.admissible() {
					oracle.Try(func() { build(prev) })
				}
			}
			o.Class("history/two-solids-of-this-resolution-and-other-sizes-built-before")
		case 2:
			oracle.Try(func() {
				loose := modeling.NewTriangleMesh(nil).SetFloat3Attribute(modeling.PositionAttribute, []vector3.Float64{vector3.New(9., 9, 9), vector3.New(8., 9, 9), vector3.New(9., 8, 9)})
				loose.Append(build(c))
				modeling.EmptyMesh(modeling.TriangleTopology).Append(build(c))
			})
			o.Class("history/a-solid-of-this-kind-appended-to-loose-vertices-before")
		}
	}
	var m modeling.Mesh
	if c.Family == famCubeWelded && c.UV > 1 && c.UV < 64 {
		// partial UV table: a crash inside the texture-coordinate table is counted, not judged
		kind, _ := oracle.Try(func() { m = build(c) })
		if kind != "" {
			o.Count("welded_partial_uv_table_"+kind, 1)
			return nil
		}
		o.Count("welded_partial_uv_table_built", 1)
	} else {
		m = build(c)
	}
	// another solid of the same family with other parameters is built before this one is judged: a
	// mesh that was returned stays what it was (no storage shared between two results)
	other := c
	other.R, other.H, other.W, other.D = c.R*1.5, c.H*0.75, c.W*2, c.D*0.5
	if c.Rows > 0 {
		other.Rows = c.Rows + 1
	}
	if c.Cols > 0 {
		other.Cols = c.Cols + 2
	}
	if other.admissible() && c.Rows < 300 && c.Cols < 300 {
		oracle.Try(func() { build(other) })
		o.Class("judged-after-another-solid-was-built")
	}
	switch c.Family {
	case famSphere, famSphereUnw, famHemisphere:
		if c.Rows >= 3 {
			o.NonTrivial()
		}
	case famCylinder:
		o.NonTrivial()
	default:
		if c.W != c.H && c.H != c.D && c.W != c.D {
			o.NonTrivial()
		}
	}
	if n := minCount(c); n > 24 {
		o.Class("resolution/above-24")
	} else if n > 0 {
		o.Class("resolution/up-to-24")
	}
	if c.Rows >= 255 || c.Cols >= 255 {
		o.Class("resolution/a-count-of-255-or-more")
	}
	if c.Rows >= 4095 || c.Cols >= 4095 {
		o.Class("resolution/a-count-of-4095-or-more")
	}
	if big := math.Max(math.Max(c.R, c.H), math.Max(c.W, c.D)); big < 1e-4 {
		o.Class("scale/largest-extent-below-1e-4")
	} else if big > 1e4 {
		o.Class("scale/largest-extent-above-1e4")
	}
	return judge(c, m, o)
}

func judge(c Case, m modeling.Mesh, o *vh.Obs) *vh.Failure {
	fam := c.Family
	fail := func(sig, format string, a ...any) *vh.Failure {
		return vh.Failf(fam+"/"+sig, "%s: "+format, append([]any{describe(c)}, a...)...)
	}
	size := extent(c)
	eps := 1e-9 * size
	if minSpacing(c) < 8*eps {
		o.Count("skipped_spacing_below_merge_radius", 1)
		return nil
	}
	s, err := extract(m)
	if err != nil {
		return fail("malformed", "%v", err)
	}

	// every vertex a triangle uses is finite and lies on the surface of the analytic body
	ref := make([]bool, len(s.pos))
	for _, v := range s.idx {
		ref[v] = true
	}
	for v, p := range s.pos {
		if !ref[v] {
			continue
		}
		if !finite3(p) {
			return fail("position-nonfinite", "vertex %d = %v", v, p)
		}
		if d := offSurface(c, p); !(d <= eps) {
			return fail("vertex-off-body", "vertex %d = %v is %.3g away from the surface of the analytic body (tolerance %.3g)", v, p, d, eps)
		}
	}

	// merged ids, collapsed triangles
	id := mergeIDs(s.pos, eps)
	merged := 0
	for v := range id {
		if id[v] != v {
			merged++
		}
	}
	o.Count("vertices", len(s.pos))
	o.Count("vertices_merged_away", merged)
	o.Count("triangles", len(s.idx)/3)
	tid := make([]int, len(s.idx)) // merged id of every corner
	for t := range s.idx {
		tid[t] = id[s.idx[t]]
	}
	for t := 0; t+2 < len(tid); t += 3 {
		a, b, cc := tid[t], tid[t+1], tid[t+2]
		if a == b || b == cc || a == cc {
			return fail("collapsed-triangle", "triangle %d (vertices %d,%d,%d) has two coincident corners after merging: ids %d,%d,%d",
				t/3, s.idx[t], s.idx[t+1], s.idx[t+2], a, b, cc)
		}
	}

	// directed edges: out[a] lists the heads of all directed edges leaving merged vertex a
	start := make([]int, len(s.pos)+1)
	for _, a := range tid {
		start[a+1]++ // every corner is the tail of exactly one directed edge
	}
	for v := 0; v < len(s.pos); v++ {
		start[v+1] += start[v]
	}
	out := make([]int, len(tid))
	fill := append([]int{}, start[:len(s.pos)]...)
	for t := 0; t+2 < len(tid); t += 3 {
		for k := 0; k < 3; k++ {
			a, b := tid[t+k], tid[t+(k+1)%3]
			out[fill[a]] = b
			fill[a]++
		}
	}
	for v := 0; v < len(s.pos); v++ { // heads sorted per tail: a cap centre has as many edges as the cylinder has sides
		sort.Ints(out[start[v]:start[v+1]])
	}
	count := func(a, b int) int { // number of directed edges a->b
		heads := out[start[a]:start[a+1]]
		return sort.SearchInts(heads, b+1) - sort.SearchInts(heads, b)
	}
	for t := 0; t+2 < len(tid); t += 3 {
		for k := 0; k < 3; k++ {
			a, b := tid[t+k], tid[t+(k+1)%3]
			if n := count(a, b); n != 1 {
				return fail("edge-used-twice", "directed edge %d->%d (positions %v -> %v) is used by %d triangles in the same direction (triangle %d): not consistently oriented / not manifold",
					a, b, s.pos[a], s.pos[b], n, t/3)
			}
			if n := count(b, a); n != 1 {
				return fail("open-edge", "directed edge %d->%d (positions %v -> %v) of triangle %d has %d opposite edges: the surface is not closed",
					a, b, s.pos[a], s.pos[b], t/3, n)
			}
		}
	}

	// one component, Euler characteristic of a ball's boundary
	comp := make([]int, len(s.pos))
	for v := range comp {
		comp[v] = v
	}
	find := func(x int) int {
		for comp[x] != x {
			comp[x] = comp[comp[x]]
			x = comp[x]
		}
		return x
	}
	for t := 0; t+2 < len(tid); t += 3 {
		for k := 1; k < 3; k++ {
			if ra, rb := find(tid[t]), find(tid[t+k]); ra < rb {
				comp[rb] = ra
			} else if rb < ra {
				comp[ra] = rb
			}
		}
	}
	usedV, roots := 0, 0
	for v := range comp {
		if start[v+1] > start[v] { // merged vertex v is used by a triangle
			usedV++
			if find(v) == v {
				roots++
			}
		}
	}
	if roots != 1 {
		return fail("disconnected", "the merged surface has %d connected components", roots)
	}
	// every directed edge is matched one to one, so the undirected edges number half the corners
	if chi := usedV - len(tid)/2 + len(tid)/3; chi != 2 {
		return fail("euler-characteristic", "V-E+F = %d-%d+%d = %d, a solid without holes has 2", usedV, len(tid)/2, len(tid)/3, chi)
	}

	// orientation and volume
	vol := signedVolume(s)
	if !(vol > 0) {
		return fail("volume-not-positive", "signed volume %v: the faces point inward", vol)
	}
	in := interior(c)
	for t := 0; t+2 < len(s.idx); t += 3 {
		a, b, cc := s.pos[s.idx[t]], s.pos[s.idx[t+1]], s.pos[s.idx[t+2]]
		fn := cross(sub(b, a), sub(cc, a))
		ctr := V3{(a[0] + b[0] + cc[0]) / 3, (a[1] + b[1] + cc[1]) / 3, (a[2] + b[2] + cc[2]) / 3}
		if !(dot(fn, sub(ctr, in)) > 0) {
			return fail("face-inward", "triangle %d (%v,%v,%v) faces the interior point %v", t/3, a, b, cc, in)
		}
	}
	want := inscribedVolume(c)
	if math.Abs(vol-want) > 1e-9*want {
		return fail("volume-mismatch", "enclosed volume %.17g, closed form of the inscribed polyhedron %.17g (relative difference %.3g)", vol, want, (vol-want)/want)
	}
	if fam != famCubeWelded && fam != famCubeQuads {
		an := analyticVolume(c)
		rel := 1 - vol/an
		if !(rel > 0) {
			return fail("volume-exceeds-analytic", "enclosed volume %.17g is not below the analytic volume %.17g of the round body it is inscribed in", vol, an)
		}
		if minCount(c) >= 32 && rel >= 0.01 {
			return fail("analytic-error-above-1pct", "relative error against the analytic volume is %.4g with every count >= 32", rel)
		}
	}

	// supplied normals: positive against the winding normal of every triangle that references the vertex
	if s.nrm != nil && fam != famHemisphere {
		o.Count("cases_with_normals_checked", 1)
		if len(s.nrm) != len(s.pos) {
			return fail("malformed", "%d normals for %d positions", len(s.nrm), len(s.pos))
		}
		for t := 0; t+2 < len(s.idx); t += 3 {
			a, b, cc := s.pos[s.idx[t]], s.pos[s.idx[t+1]], s.pos[s.idx[t+2]]
			fn := cross(sub(b, a), sub(cc, a))
			for k := 0; k < 3; k++ {
				v := s.idx[t+k]
				if !(dot(s.nrm[v], fn) > 0) {
					return fail("normal-not-outward", "normal %v of vertex %d (%v) has dot product %v with the winding normal %v of its triangle %d",
						s.nrm[v], v, s.pos[v], dot(s.nrm[v], fn), fn, t/3)
				}
			}
		}
	} else if s.nrm == nil {
		o.Count("cases_without_normals", 1)
	}
	return nil
}

func describe(c Case) string {
	switch c.Family {
	case famSphere, famSphereUnw:
		return fmt.Sprintf("%s(radius=%v, rows=%d, columns=%d)", c.Family, c.R, c.Rows, c.Cols)
	case famHemisphere:
		return fmt.Sprintf("Hemisphere{Radius:%v, Capped:%v}.UV(%d,%d)", c.R, !c.Uncapped, c.Rows, c.Cols)
	case famCylinder:
		_, n := cylinderUVs(c.UV)
		return fmt.Sprintf("Cylinder{Sides:%d, Height:%v, Radius:%v, %s}", c.Cols, c.H, c.R, n)
	default:
		_, n := cubeUVs(c.UV)
		return fmt.Sprintf("%s Cube{Width:%v, Height:%v, Depth:%v, %s}", c.Family, c.W, c.H, c.D, n)
	}
}

// ---------------------------------------------------------------- generators

func genSize(t *rapid.T, label string) float64 {
	if rapid.IntRange(0, 7).Draw(t, label+".round") == 0 {
		return rapid.SampledFrom([]float64{1, 0.5, 2, 1e-3, 1e3, 0.1, 10}).Draw(t, label+".value")
	}
	return math.Pow(10, rapid.Float64Range(-3, 3).Draw(t, label+".log10"))
}

func genCount(t *rapid.T, lo, hi int, label string) int {
	// rapid's integers favour few-bit values: counting down from hi as well keeps large meshes frequent
	switch rapid.IntRange(0, 3).Draw(t, label+".mode") {
	case 0:
		return rapid.IntRange(lo, 24).Draw(t, label)
	case 1:
		return rapid.IntRange(lo, hi).Draw(t, label)
	}
	return hi - rapid.IntRange(0, hi-lo).Draw(t, label+".below-max")
}

// genBigCount: counts at and next to the powers of two where block sizes, chunked loops and
// 8/16-bit widths change (k*2^m - 1, k*2^m, k*2^m + 1), up to max.
func genBigCount(t *rapid.T, max int, label string) int {
	base := rapid.SampledFrom([]int{256, 1024, 4096, 65536}).Draw(t, label+".pow2")
	n := base*rapid.IntRange(1, 4).Draw(t, label+".k") + rapid.IntRange(-1, 1).Draw(t, label+".off")
	for n > max {
		n = n/2 + n%2 // 8193 -> 4097, keeps the offset
	}
	return n
}

func genCase(t *rapid.T) Case {
	c := Case{Family: rapid.SampledFrom(families).Draw(t, "family")}
	switch c.Family {
	case famSphere, famSphereUnw, famHemisphere:
		c.R = genSize(t, "radius")
		c.Rows = genCount(t, 2, 200, "rows")
		c.Cols = genCount(t, 3, 200, "columns")
		switch rapid.Uint64().Draw(t, "big") % 60 { // (rapid's small integer ranges favour their minimum: a modulus is uniform)
		case 0: // a large count along one direction, the product bounded
			c.Rows = genBigCount(t, 4100, "bigRows")
			c.Cols = rapid.IntRange(3, 1+100000/c.Rows).Draw(t, "colsForBigRows")
		case 1:
			c.Cols = genBigCount(t, 4100, "bigCols")
			c.Rows = rapid.IntRange(2, 1+100000/c.Cols).Draw(t, "rowsForBigCols")
		}
		if c.Family == famHemisphere {
			c.Uncapped = rapid.IntRange(0, 9).Draw(t, "uncapped") == 0
		}
	case famCylinder:
		c.R, c.H = genSize(t, "radius"), genSize(t, "height")
		c.Cols = genCount(t, 3, 500, "sides")
		if rapid.Uint64().Draw(t, "big")%30 == 0 {
			c.Cols = genBigCount(t, 70000, "bigSides")
		}
		c.UV = rapid.IntRange(0, 8).Draw(t, "uv")
	default:
		c.W, c.H, c.D = genSize(t, "width"), genSize(t, "height"), genSize(t, "depth")
		switch rapid.IntRange(0, 3).Draw(t, "uvkind") {
		case 0:
			c.UV = 0
		case 1:
			c.UV = 64
		default:
			c.UV = rapid.IntRange(0, 64).Draw(t, "uv")
		}
	}
	// one case in four at another overall scale: "every radius, height, width, depth > 0" - an absolute
	// epsilon anywhere in a constructor only shows far away from unit size
	if rapid.IntRange(0, 3).Draw(t, "scaled") == 0 {
		k := math.Pow(10, rapid.Float64Range(-9, 9).Draw(t, "scale.log10"))
		c.R, c.H, c.W, c.D = c.R*k, c.H*k, c.W*k, c.D*k
	}
	return c
}

func gridCases() []Case {
	var out []Case
	for _, fam := range []string{famSphere, famSphereUnw, famHemisphere} {
		for rows := 2; rows <= 24; rows++ {
			for cols := 3; cols <= 24; cols++ {
				for _, r := range []float64{1e-3, 0.7, 1e3} {
					out = append(out, Case{Family: fam, R: r, Rows: rows, Cols: cols})
				}
			}
		}
	}
	for rows := 2; rows <= 24; rows++ { // the ignored flag, observed on a thin slice
		out = append(out, Case{Family: famHemisphere, R: 0.7, Rows: rows, Cols: 3 + (rows*5)%22, Uncapped: true})
	}
	for sides := 3; sides <= 64; sides++ {
		for uv := 0; uv <= 8; uv++ {
			for _, rh := range [][2]float64{{0.5, 1}, {1e-3, 1e3}, {1e3, 1e-3}, {0.37, 12.5}, {250, 0.003}} {
				out = append(out, Case{Family: famCylinder, R: rh[0], H: rh[1], Cols: sides, UV: uv})
			}
		}
	}
	for _, fam := range []string{famCubeWelded, famCubeQuads} {
		for uv := 0; uv <= 64; uv++ {
			for _, e := range [][3]float64{{1, 1, 1}, {1, 2, 3}, {1e-3, 1e3, 0.5}, {1e3, 1e-3, 7}, {0.3, 0.7, 1e3}, {1e3, 999, 1e-3}} {
				out = append(out, Case{Family: fam, W: e[0], H: e[1], D: e[2], UV: uv})
			}
		}
	}
	return out
}

// ---------------------------------------------------------------- convergence chains

// ConvCase is an ascending chain of resolutions of one round family: Steps[i] = {rows, columns}
// (cylinder: {sides, sides}); every step is >= its predecessor in both counts and > in one.
type ConvCase struct {
	Family string
	R      float64
	H      float64 `json:",omitempty"`
	Steps  [][2]int
}

func runConv(c ConvCase, o *vh.Obs) *vh.Failure {
	if c.Family != famSphere && c.Family != famSphereUnw && c.Family != famHemisphere && c.Family != famCylinder {
		return nil
	}
	if len(c.Steps) == 0 || !okSize(c.R) || (c.Family == famCylinder && !okSize(c.H)) {
		return nil
	}
	for i, s := range c.Steps {
		if s[0] < 2 || s[1] < 3 || (c.Family == famCylinder && s[0] < 3) {
			return nil
		}
		if i > 0 && (s[0] < c.Steps[i-1][0] || s[1] < c.Steps[i-1][1] || s == c.Steps[i-1]) {
			return nil
		}
	}
	o.Class("chain/" + c.Family)
	if len(c.Steps) >= 2 {
		o.NonTrivial()
	}
	prev := math.Inf(1)
	var an float64
	for i, st := range c.Steps {
		k := Case{Family: c.Family, R: c.R, H: c.H, Rows: st[0], Cols: st[1]}
		if c.Family == famCylinder {
			k.Rows, k.Cols = 0, st[0]
		}
		s, err := extract(build(k))
		if err != nil {
			return vh.Failf(c.Family+"/malformed", "%s: %v", describe(k), err)
		}
		an = analyticVolume(k)
		rel := 1 - signedVolume(s)/an
		if !(rel > 0) {
			return vh.Failf(c.Family+"/volume-exceeds-analytic", "%s: enclosed volume %.17g is not below the analytic volume %.17g", describe(k), signedVolume(s), an)
		}
		if !(rel < prev) {
			return vh.Failf(c.Family+"/error-not-decreasing", "%s: relative error against the analytic volume %.6g is not below %.6g of the coarser step %v", describe(k), rel, prev, c.Steps[i-1])
		}
		prev = rel
		if st[0] >= 32 && st[1] >= 32 && rel >= 0.01 {
			return vh.Failf(c.Family+"/analytic-error-above-1pct", "%s: relative error against the analytic volume is %.4g", describe(k), rel)
		}
	}
	o.Count("chain_steps", len(c.Steps))
	return nil
}

func genConv(t *rapid.T) ConvCase {
	c := ConvCase{Family: rapid.SampledFrom([]string{famSphere, famSphereUnw, famHemisphere, famCylinder}).Draw(t, "family"), R: genSize(t, "radius")}
	if c.Family == famCylinder {
		c.H = genSize(t, "height")
	}
	n := rapid.IntRange(2, 5).Draw(t, "steps")
	rows, cols := rapid.IntRange(2, 40).Draw(t, "rows0"), rapid.IntRange(3, 40).Draw(t, "cols0")
	if c.Family == famCylinder {
		rows = rapid.IntRange(3, 60).Draw(t, "sides0")
		cols = rows
	}
	for i := 0; i < n; i++ {
		if i > 0 {
			dr, dc := rapid.IntRange(0, 30).Draw(t, "drows"), rapid.IntRange(0, 30).Draw(t, "dcols")
			if c.Family == famCylinder {
				dr++
				dc = dr
			} else if dr == 0 && dc == 0 {
				if rapid.Bool().Draw(t, "which") {
					dr = 1
				} else {
					dc = 1
				}
			}
			rows, cols = rows+dr, cols+dc
		}
		c.Steps = append(c.Steps, [2]int{rows, cols})
	}
	return c
}

func convGrid() []ConvCase {
	var out []ConvCase
	double := func(lo, hi int) (s [][2]int) {
		for n := lo; n <= hi; n *= 2 {
			s = append(s, [2]int{n, n})
		}
		return
	}
	var rowsChain, colsChain, sidesChain [][2]int
	for n := 2; n <= 48; n++ {
		rowsChain = append(rowsChain, [2]int{n, 16})
	}
	for n := 3; n <= 48; n++ {
		colsChain = append(colsChain, [2]int{16, n})
		sidesChain = append(sidesChain, [2]int{n, n})
	}
	for _, r := range []float64{1e-3, 0.7, 1e3} {
		for _, fam := range []string{famSphere, famSphereUnw, famHemisphere} {
			out = append(out, ConvCase{Family: fam, R: r, Steps: double(4, 256)}, ConvCase{Family: fam, R: r, Steps: double(3, 192)},
				ConvCase{Family: fam, R: r, Steps: rowsChain}, ConvCase{Family: fam, R: r, Steps: colsChain})
		}
		for _, h := range []float64{1e-3, 2, 1e3} {
			out = append(out, ConvCase{Family: famCylinder, R: r, H: h, Steps: double(4, 512)}, ConvCase{Family: famCylinder, R: r, H: h, Steps: double(3, 384)},
				ConvCase{Family: famCylinder, R: r, H: h, Steps: sidesChain})
		}
	}
	return out
}

// ----------------------------------------------------------------

func TestC18(t *testing.T) {
	vh.Enumerate(t, vh.Spec[Case]{Name: "grid", Run: runCase}, gridCases())
	vh.Enumerate(t, vh.Spec[ConvCase]{Name: "convergence-grid", Run: runConv}, convGrid())
	vh.Drive(t, vh.Spec[Case]{Name: "sampled", Quick: 12000, Thorough: 360000, Gen: genCase, Run: runCase})
	vh.Drive(t, vh.Spec[ConvCase]{Name: "convergence", Quick: 4000, Thorough: 120000, Gen: genConv, Run: runConv})
	vh.Drive(t, vh.Spec[vh.Conc[Case]]{Name: "concurrent-builders", Quick: 300, Thorough: 10000, Gen: vh.GenConc(genCase), Run: vh.RunConc(runCase), Repeat: 20})
}
