package c16

// bvh-spheres: the bounding-volume hierarchy over the renderer's own sphere elements, static and
// moving (motion blur: the hierarchy is built for a time window, every ray carries its own time).
// Oracle: rendering.HitList - the exhaustive scan over the same elements with the same Hit method -
// so only what the hierarchy prunes by the elements' boxes is under test.

import (
	"fmt"
	"math"
	"math/rand"

	"github.com/EliCDavis/polyform/rendering"
	"github.com/EliCDavis/vector/vector3"
	"pgregory.net/rapid"

	"verifharness/internal/vh"
)

type Ball struct {
	C V3      // centre at time 0
	V V3      // velocity (zero: a static sphere)
	R float64 // radius
}

type SRay struct {
	O, D V3
	T    float64 // the ray's time, inside the window
	Max  float64
}

type SphereCase struct {
	Seed   int64
	T0, T1 float64
	Balls  []Ball
	Rays   []SRay
}

func genSpheres(t *rapid.T) SphereCase {
	c := SphereCase{Seed: int64(rapid.IntRange(0, 1<<30).Draw(t, "seed"))}
	if rapid.IntRange(0, 2).Draw(t, "window") > 0 {
		c.T0 = f64(t, -1, 1, "t0")
		c.T1 = c.T0 + f64(t, 0, 2, "dt")
	}
	n := rapid.IntRange(1, 9).Draw(t, "n")
	scale := pow10(t, -2, 2, "scale")
	for i := 0; i < n; i++ {
		b := Ball{C: V3{f64(t, -4, 4, "cx") * scale, f64(t, -4, 4, "cy") * scale, f64(t, -4, 4, "cz") * scale}, R: f64(t, 0.05, 1.5, "r") * scale}
		if c.T1 > c.T0 && rapid.IntRange(0, 2).Draw(t, "moving") > 0 {
			b.V = V3{f64(t, -3, 3, "vx") * scale, f64(t, -3, 3, "vy") * scale, f64(t, -3, 3, "vz") * scale}
		}
		c.Balls = append(c.Balls, b)
	}
	c.Rays = rapid.SliceOfN(rapid.Custom(func(t *rapid.T) SRay {
		r := SRay{T: c.T0}
		switch rapid.IntRange(0, 3).Draw(t, "tk") {
		case 0:
		case 1:
			r.T = c.T1
		default:
			r.T = c.T0 + (c.T1-c.T0)*f64(t, 0, 1, "tt")
		}
		b := c.Balls[rapid.IntRange(0, n-1).Draw(t, "ball")]
		at := add(b.C, scl(b.V, r.T))
		// aim at a point of the ball (off-centre: up to 0.98 of the radius), or past it
		off := V3{f64(t, -1, 1, "ox"), f64(t, -1, 1, "oy"), f64(t, -1, 1, "oz")}
		if l := norm(off); l > 1 {
			off = scl(off, 1/l)
		}
		reach := 0.98
		if rapid.IntRange(0, 4).Draw(t, "miss") == 0 {
			reach = 2.5
		}
		target := add(at, scl(off, reach*b.R))
		r.D = genDir(t)
		r.O = sub(target, scl(r.D, scale*f64(t, 0, 12, "back")/math.Max(norm(r.D), 1e-3)))
		r.Max = scale * pow10(t, 0, 3, "max")
		return r
	}), 1, 12).Draw(t, "rays")
	return c
}

func runSpheres(c SphereCase, o *vh.Obs) *vh.Failure {
	n := len(c.Balls)
	if n == 0 || len(c.Rays) == 0 || !(c.T1 >= c.T0) {
		return nil
	}
	objs := make([]rendering.Hittable, n)
	moving := 0
	for i, b := range c.Balls {
		if !(b.R > 0) {
			return nil
		}
		b := b
		if b.V == (V3{}) {
			objs[i] = rendering.NewSphere(vv(b.C), b.R, nil)
		} else {
			moving++
			objs[i] = rendering.NewAnimatedSphere(b.R, nil, func(t float64) vector3.Float64 { return vv(add(b.C, scl(b.V, t))) })
		}
	}
	o.Class(fmt.Sprintf("spheres/n=%s", countName(n)))
	if moving > 0 {
		o.Class("spheres/moving")
	}
	if c.T1 > c.T0 {
		o.Class("spheres/time-window")
	}
	list := rendering.HitList(append([]rendering.Hittable{}, objs...))
	rand.Seed(c.Seed) // NewBVHTree draws its split axes from the global source
	structures := []struct {
		name string
		h    rendering.Hittable
	}{
		{"bvh", rendering.NewBVHTree(append([]rendering.Hittable{}, objs...), 0, n, c.T0, c.T1)},
		{"hittable-octree", rendering.NewBVH(append([]rendering.Hittable{}, objs...), c.T0, c.T1)},
	}
	for ri, r := range c.Rays {
		if !finite(r.O) || !finite(r.D) || !(norm(r.D) >= 1e-6) || !(r.Max > 0) || math.IsInf(r.Max, 0) || !(r.T >= c.T0 && r.T <= c.T1) {
			o.Count("invalid-ray-skipped", 1)
			continue
		}
		ray := rendering.NewTemporalRay(vv(r.O), vv(r.D), r.T)
		d := av(ray.Direction())
		// conditioning guard: a ray that grazes a ball (closest approach within 1e-6 of the radius) is
		// decided by the last bits of the discriminant and of the slab test; not judged
		fragile := false
		for _, b := range c.Balls {
			oc := sub(r.O, add(b.C, scl(b.V, r.T)))
			perp := norm(sub(oc, scl(d, dot(oc, d))))
			if math.Abs(perp-b.R) <= 1e-6*(b.R+norm(oc)) {
				fragile = true
			}
		}
		if fragile {
			o.Count("sphere-ray-skipped/grazing", 1)
			continue
		}
		want := rendering.NewHitRecord()
		anyHit := list.Hit(&ray, 0, r.Max, want)
		if anyHit {
			o.Class("sphereray/hit")
			if n >= 2 {
				o.NonTrivial()
			}
			if r.T > c.T0 && moving > 0 {
				o.Class("sphereray/hit-after-window-start")
			}
		} else {
			o.Class("sphereray/miss")
		}
		for _, s := range structures {
			h := rendering.NewHitRecord()
			got := s.h.Hit(&ray, 0, r.Max, h)
			if got != anyHit {
				return vh.Failf("spheres/"+s.name+"/hit-flag", "%d spheres (%d moving), window [%v,%v], ray %d (origin %v, direction %v, time %v, range [0,%.17g]): %s.Hit = %v, the exhaustive scan (HitList) says %v (distance %.17g)",
					n, moving, c.T0, c.T1, ri, r.O, d, r.T, r.Max, s.name, got, anyHit, want.Distance)
			}
			if got && math.Abs(h.Distance-want.Distance) > 1e-9*(1+want.Distance) {
				return vh.Failf("spheres/"+s.name+"/distance", "%d spheres, ray %d: %s.Hit reports distance %.17g, the exhaustive scan %.17g", n, ri, s.name, h.Distance, want.Distance)
			}
		}
	}
	return nil
}
