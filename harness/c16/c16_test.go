// Package c16 decides property C16 (spatial index queries agree with exhaustive search): every
// query of trees.OctTree built through modeling.Mesh, and the ray-hit structures of package
// rendering, are compared with an exhaustive scan over the very same element objects, so that
// only the pruning of the index is under test.
package c16

import (
	"fmt"
	"math"
	"math/rand"
	"sort"
	"testing"

	"github.com/EliCDavis/polyform/math/geometry"
	"github.com/EliCDavis/polyform/modeling"
	"github.com/EliCDavis/polyform/rendering"
	"github.com/EliCDavis/polyform/trees"
	"github.com/EliCDavis/vector/vector3"
	"pgregory.net/rapid"

	"verifharness/internal/gen"
	"verifharness/internal/vh"
)

func TestMain(m *testing.M) {
	vh.Main(m, vh.Meta{
		ID:    "C16",
		Level: "exploration",
		Rule: "sub-check octree: rapid-generated element sets (triangles with own or shared vertices, point clouds with any index list, line strips; 1..48 elements; layouts local / spread / clustered / grid-aligned / coincident copies; " +
			"coordinates within +-40) built through Mesh.OctTree (automatic depth), Mesh.OctTreeDepth(0..6) or Mesh.OctTreeWithAttributeAndDepth on a non-position attribute (the position attribute then holds a decoy), " +
			"and 1..6 queries per set; every query runs ClosestPoint, ElementsContainingPoint, ElementsWithinRange, ElementsIntersectingRay and TraverseIntersectingRay (plain and with a shrinking max) and BoundingBox. " +
			"Query points inside / outside / far from the bounds, exactly at element vertices, at vertex+tiny offset, on elements (convex combinations of their vertices), on box faces, at midpoints; radii 0, exact vertex distance, 0..diameter, all-embracing; " +
			"rays from inside and outside, axis-parallel (incl. -0 components), aimed exactly at vertices, with ranges [0,1000], [0,exact target distance], positive and negative minimum. " +
			"Oracle: exhaustive scan over the same Element objects (primitive.Scope(attr) inside ScanPrimitives, checked against the case's own vertex data), own clamp / slab reference for the box predicates. " +
			"Sub-check bvh: triangle meshes with normals; rendering.NewBVHFromMesh (split axis seeded from the case), HitList, rendering.NewBVH (octree of hittables) and rendering.NewMesh (octree traversal) must give the hit flag and distance of the per-triangle minimum. " +
			"Class counts of the octree sub-check other than set/depth/ctor/n/leaf are per query, not per case. " +
			"Non-trivial (octree) = at least two elements certainly share a leaf (depth 0, or more elements than 8^depth leaves, or two elements with identical boxes) or a query point / ray origin lies outside the tree bounds; " +
			"non-trivial (bvh) = at least two triangles and a judged ray that hits at least one of them. Distinct by case JSON. " +
			"One octree case in sixteen repeats its queries from 2-6 goroutines on the same tree (class shared-tree/concurrent-queries; ElementsIntersectingRay excluded there, it collects into per-node buffers by design). Every element's own closest point is judged against the geometry of the primitive. " +
			"Sub-check octree-large: 181..20 000 recipe-built elements (grid or 1..27 clusters; automatic depths 2..5). When every coordinate of set and query point is a multiple of 1/128 the within-range decision is judged without a band (class withinrange/exact-arithmetic-no-band; radii equal to an element's box distance are drawn: withinrange/element-exactly-on-the-radius).",
		Assumptions: []string{
			"sub-check bvh-spheres: 1..9 renderer spheres, static or moving linearly, hierarchy built for a drawn time window (NewBVHTree and the octree-backed NewBVH), rays aimed at and past the spheres with a time inside the window, against HitList; non-trivial = a hit with two or more spheres; rays grazing a sphere within 1e-6 are not judged (counted); non-linear motion is outside the documented domain of Sphere.BoundingBox",
			"element sets are non-empty (an empty mesh yields a nil tree) and all coordinates, radii and ray parameters are finite; ray directions are non-zero; ray range min < max",
			"ElementsWithinRange and ElementsContainingPoint are specified on element bounding boxes (as implemented and as their callers use them), the scan applies the same predicate to Element.BoundingBox()",
			"don't-care band: an element whose box is within 1e-9*scale (scale = 1 + largest coordinate magnitude of set and query) of the containing / within-range decision boundary is not judged (parent cells re-centred by SetMinMax can end one ulp short of an element's own box: a tie in the sense of the statement)",
			"ray/box band: the slab test pads every box by 1e-10; an element must be reported when the ray crosses its box padded by 0.5e-10 and must not be reported when the ray misses its box padded by 1.5e-10 (valid while element coordinates stay below 1e2 and ray origins below 1e3: enforced)",
			"ClosestPoint: distance within 1e-9*scale of the scan minimum, the returned index attains it (ties aside) and the returned point is that element's closest point; every element's own ClosestPoint must be finite and equal (1e-7*scale) the distance from the query to the primitive computed from the case's vertices (triangles without area: their edges; triangles whose altitude is below 1e-4 of their longest edge are counted, not judged); a query for which an element's answer lies outside its own box by more than the band is not judged for the tree (counted: a dozen per run, rounding on thin triangles)",
			"TraverseIntersectingRay with a shrinking max: the hit of an element is defined by the harness as the midpoint of the ray's interval inside the element's box (padded 0.5e-10); the traversal must deliver the exact minimum over the scan",
			"ray-hit structures are compared with min = 0 only (Triangle.Hit measures max from the min-shifted origin, which makes the nearest hit order dependent for min > 0 independently of any index); rays for which a triangle is a near hit whose Moller-Trumbore hit point is not accurate to 1e-11 (slivers, grazing rays) are not judged (counted)",
			"rendering.Sphere is out of domain (the property quantifies over points, segments and triangles)",
		},
	})
}

// ---------------------------------------------------------------- small vector helpers

type V3 = [3]float64

func vv(a V3) vector3.Float64 { return vector3.New(a[0], a[1], a[2]) }
func av(a vector3.Float64) V3 { return V3{a.X(), a.Y(), a.Z()} }
func sub(a, b V3) V3          { return V3{a[0] - b[0], a[1] - b[1], a[2] - b[2]} }
func add(a, b V3) V3          { return V3{a[0] + b[0], a[1] + b[1], a[2] + b[2]} }
func scl(a V3, s float64) V3  { return V3{a[0] * s, a[1] * s, a[2] * s} }
func dot(a, b V3) float64     { return a[0]*b[0] + a[1]*b[1] + a[2]*b[2] }
func norm(a V3) float64       { return math.Sqrt(dot(a, a)) }
func cross(a, b V3) V3 {
	return V3{a[1]*b[2] - a[2]*b[1], a[2]*b[0] - a[0]*b[2], a[0]*b[1] - a[1]*b[0]}
}
func finite(a V3) bool {
	for _, x := range a {
		if math.IsNaN(x) || math.IsInf(x, 0) {
			return false
		}
	}
	return true
}
func maxAbs(a V3) float64 {
	return math.Max(math.Abs(a[0]), math.Max(math.Abs(a[1]), math.Abs(a[2])))
}

// ---------------------------------------------------------------- cases

// Query is one query round: P serves the point queries, (O, D, Min, Max) the ray queries.
type Query struct {
	P   V3
	R   float64
	O   V3
	D   V3
	Min float64
	Max float64
}

// Case is an element set, the way the tree is built, and a list of queries.
type Case struct {
	Kind   string // "tri" | "point" | "strip"
	Layout string // generator label (classification only)
	Pos    []V3
	Idx    []int
	Depth  int  // -1: automatic (Mesh.OctTree), else Mesh.OctTreeDepth / OctTreeWithAttributeAndDepth
	Attr   bool // build from a non-position attribute through OctTreeWithAttributeAndDepth
	Qs     []Query
	// Par > 0: after the sequential pass the same queries are issued again from Par goroutines at
	// the same time on the SAME tree (a tree is built once and queried by many workers)
	Par int `json:",omitempty"`
	// RecN > 0 (sub-check octree-large): Pos and Idx are not stored but built from the recipe: RecN
	// elements on a jittered grid (or in RecClusters clusters), values from a linear congruential sequence
	RecN        int    `json:",omitempty"`
	RecSeed     uint64 `json:",omitempty"`
	RecClusters int    `json:",omitempty"`
}

// largeCounts: automatic depth is round(log8(n)), so it changes at 23, 182, 1 449, 11 586 elements.
var largeCounts = []int{181, 182, 255, 256, 257, 1448, 1449, 4095, 4096, 4097, 11585, 11586, 20000}

func recipeSet(kind string, n int, seed uint64, clusters int) (pos []V3, idx []int) {
	x := seed
	next := func() float64 { // multiples of 1/64 in [0,1)
		x = x*6364136223846793005 + 1442695040888963407
		return float64(x>>58) / 64
	}
	side := int(math.Ceil(math.Cbrt(float64(n))))
	centre := func(i int) V3 {
		if clusters > 0 {
			c := i % clusters
			return V3{float64(c%3)*30 - 30 + next(), float64(c/3%3)*30 - 30 + next(), float64(c/9)*30 - 30 + next()}
		}
		return V3{float64(i%side) - float64(side)/2, float64(i/side%side) - float64(side)/2, float64(i/(side*side)) - float64(side)/2}
	}
	for i := 0; i < n; i++ {
		c := centre(i)
		switch kind {
		case "point":
			pos = append(pos, add(c, V3{next(), next(), next()}))
			idx = append(idx, i)
		case "tri":
			for k := 0; k < 3; k++ {
				pos = append(pos, add(c, V3{next(), next(), next()}))
				idx = append(idx, 3*i+k)
			}
		default: // strip: n segments = n+1 points along a wandering line
			if i == 0 {
				pos = append(pos, c)
				idx = append(idx, 0)
			}
			pos = append(pos, add(c, V3{next(), next(), next()}))
			idx = append(idx, i+1)
		}
	}
	return pos, idx
}

func genLargeCase(t *rapid.T) Case {
	c := Case{Kind: rapid.SampledFrom([]string{"tri", "point", "strip"}).Draw(t, "kind"), Layout: "recipe",
		RecN: rapid.SampledFrom(largeCounts).Draw(t, "n"), RecSeed: rapid.Uint64().Draw(t, "seed")}
	if rapid.Bool().Draw(t, "clustered") {
		c.RecClusters = rapid.IntRange(1, 27).Draw(t, "clusters")
	}
	c.Depth = rapid.SampledFrom([]int{-1, -1, -1, 0, 1, 3, 5, 6}).Draw(t, "depth")
	if c.Depth >= 0 {
		c.Attr = rapid.IntRange(0, 3).Draw(t, "attr") == 0
	}
	pos, idx := recipeSet(c.Kind, c.RecN, c.RecSeed, c.RecClusters)
	c.Qs = rapid.SliceOfN(rapid.Custom(func(t *rapid.T) Query { return genQuery(t, c.Kind, pos, idx) }), 2, 6).Draw(t, "queries")
	return c
}

const otherAttr = "Custom3"

var topoOf = map[string]modeling.Topology{"tri": modeling.TriangleTopology, "point": modeling.PointTopology, "strip": modeling.LineStripTopology}

// primVerts lists the vertex ids of primitive i.
func primVerts(kind string, idx []int, i int) []int {
	switch kind {
	case "tri":
		return idx[3*i : 3*i+3]
	case "point":
		return idx[i : i+1]
	default:
		return idx[i : i+2]
	}
}

func primCount(kind string, idx []int) int {
	switch kind {
	case "tri":
		return len(idx) / 3
	case "point":
		return len(idx)
	default:
		return len(idx) - 1
	}
}

func validSet(kind string, pos []V3, idx []int) bool {
	if _, ok := topoOf[kind]; !ok || len(pos) == 0 {
		return false
	}
	if kind == "tri" && len(idx)%3 != 0 {
		return false
	}
	if primCount(kind, idx) < 1 {
		return false
	}
	for _, p := range pos {
		if !finite(p) || maxAbs(p) > 100 {
			return false
		}
	}
	for _, x := range idx {
		if x < 0 || x >= len(pos) {
			return false
		}
	}
	return true
}

func buildMesh(kind string, pos []V3, idx []int, attr string, normals bool) modeling.Mesh {
	d := gen.MeshDesc{Topo: int(topoOf[kind]), N: len(pos), Idx: idx, V3: map[string][][3]gen.F{}}
	rows := make([][3]gen.F, len(pos))
	for i, p := range pos {
		rows[i] = [3]gen.F{gen.F(p[0]), gen.F(p[1]), gen.F(p[2])}
	}
	d.V3[attr] = rows
	if attr != modeling.PositionAttribute { // decoy: a tree that consults the position attribute is wrong by whole cells
		decoy := make([][3]gen.F, len(pos))
		for i := range pos {
			p := pos[len(pos)-1-i]
			decoy[i] = [3]gen.F{gen.F(-3*p[2] + 7), gen.F(2*p[0] - 5), gen.F(p[1] + 11)}
		}
		d.V3[modeling.PositionAttribute] = decoy
	}
	if normals {
		nr := make([][3]gen.F, len(pos))
		for i := range nr {
			nr[i] = [3]gen.F{0, 1, 0}
		}
		d.V3[modeling.NormalAttribute] = nr
	}
	return d.Build()
}

// ---------------------------------------------------------------- generators

func f64(t *rapid.T, lo, hi float64, label string) float64 {
	return rapid.Float64Range(lo, hi).Draw(t, label)
}

func pow10(t *rapid.T, lo, hi float64, label string) float64 {
	return math.Pow(10, f64(t, lo, hi, label))
}

func bbox(pos []V3) (lo, hi V3) {
	lo, hi = pos[0], pos[0]
	for _, p := range pos {
		for k := 0; k < 3; k++ {
			lo[k], hi[k] = math.Min(lo[k], p[k]), math.Max(hi[k], p[k])
		}
	}
	return
}

// rawEl holds every random number an element may need, whatever the kind and layout: one
// fixed-shape draw per element keeps rapid's slice shrinking (dropping elements) effective.
type rawEl struct {
	A    V3    // anchor, unit cube
	V    [3]V3 // per-vertex offsets, unit cube
	K    int   // selector: cluster, copy source, neighbour
	Same bool  // coincident copy re-uses the vertex ids (else equal vertices under new ids)
	Rot  int
}

var rawElGen = rapid.Custom(func(t *rapid.T) rawEl {
	u := rapid.Float64Range(-1, 1)
	var e rawEl
	for k := 0; k < 3; k++ {
		e.A[k] = u.Draw(t, "a")
	}
	for j := 0; j < 3; j++ {
		for k := 0; k < 3; k++ {
			e.V[j][k] = u.Draw(t, "v")
		}
	}
	e.K = rapid.IntRange(0, 5).Draw(t, "k")
	e.Same = rapid.Bool().Draw(t, "same")
	e.Rot = rapid.IntRange(0, 2).Draw(t, "rot")
	return e
})

func round3(u V3, m float64) V3 {
	return V3{math.Round(u[0] * m), math.Round(u[1] * m), math.Round(u[2] * m)}
}

// genElements draws 1..48 elements of the given kind. All coordinates stay within +-40.
func genElements(t *rapid.T, kind string) (layout string, pos []V3, idx []int) {
	layout = rapid.SampledFrom([]string{"local", "spread", "clustered", "grid", "coincident"}).Draw(t, "layout")
	base := rapid.SampledFrom([]string{"local", "grid", "spread"}).Draw(t, "base")
	if layout != "coincident" {
		base = layout
	}
	H := rapid.SampledFrom([]float64{1, 4, 16}).Draw(t, "H")
	var C V3
	for k := range C {
		C[k] = float64(rapid.IntRange(-64, 64).Draw(t, "c8")) / 8
	}
	step := rapid.SampledFrom([]float64{1, 0.125, 0.5}).Draw(t, "step")
	nc := rapid.IntRange(1, 3).Draw(t, "nclusters")
	var centres [3]V3
	for i := range centres {
		centres[i] = add(C, V3{f64(t, -H, H, "cx"), f64(t, -H, H, "cy"), f64(t, -H, H, "cz")})
	}
	rc := H * pow10(t, -3, -1, "rcluster")
	r := H * pow10(t, -3, -0.3, "rlocal")
	nBase := rapid.IntRange(1, 3).Draw(t, "nbase")
	variant := rapid.IntRange(0, 3).Draw(t, "variant") == 0 // shared vertices (tri) / arbitrary index list (point)
	// rapid's slices are short on average (6); one case in five asks for at least 16 elements
	// (the automatic depth becomes 2 from 23 elements on). Shrinking lowers the minimum first.
	minN := rapid.SampledFrom([]int{1, 1, 1, 1, 16}).Draw(t, "minN")
	raw := rapid.SliceOfN(rawElGen, minN, 48).Draw(t, "elements")
	n := len(raw)
	// a scattered point of the layout
	pt := func(u V3, k int) V3 {
		switch base {
		case "grid":
			return add(C, scl(round3(u, 3), step))
		case "clustered":
			return add(centres[k%nc], scl(u, rc))
		default:
			return add(C, scl(u, H))
		}
	}
	// a vertex of an element anchored at a
	near := func(a, u V3, k int) V3 {
		switch base {
		case "grid":
			return add(a, scl(round3(u, 2), step))
		case "spread":
			return pt(u, k)
		default:
			return add(a, scl(u, r))
		}
	}
	if layout != "coincident" || nBase > n {
		nBase = n
	}
	size := r // edge length used to repair a degenerate element
	switch base {
	case "grid":
		size = step
	case "spread":
		size = H / 4
	}
	distinct := func(prev, next V3, e rawEl) V3 { // zero-length segments have no closest point (NaN)
		if norm(sub(next, prev)) < 1e-9 {
			var d V3
			d[e.Rot] = size
			return add(prev, d)
		}
		return next
	}
	switch kind {
	case "point":
		for i, e := range raw {
			switch {
			case i < nBase:
				pos = append(pos, pt(e.A, e.K))
				idx = append(idx, len(pos)-1)
			case e.Same: // coincident copies: the same vertex again, or an equal vertex under a new id
				idx = append(idx, idx[e.K%nBase])
			default:
				pos = append(pos, pos[idx[e.K%nBase]])
				idx = append(idx, len(pos)-1)
			}
		}
		if layout != "coincident" && variant { // any index list: repeated and unreferenced vertices
			for i, e := range raw {
				idx[i] = (i + e.K*(1+e.Rot)) % len(pos)
			}
		}
	case "tri":
		if layout != "coincident" && variant && n >= 2 { // a vertex pool and triples of distinct ids: touching and overlapping triangles
			for _, e := range raw {
				pos = append(pos, pt(e.A, e.K))
			}
			pos = append(pos, pt(raw[0].V[0], raw[0].K), pt(raw[0].V[1], raw[0].K))
			nv := len(pos)
			for i, e := range raw {
				a := i
				b := (a + 1 + e.K%(nv-1)) % nv
				c := (a + 1 + (e.K+1+e.Rot)%(nv-1)) % nv
				for c == a || c == b {
					c = (c + 1) % nv
				}
				idx = append(idx, a, b, c)
			}
			break
		}
		for i, e := range raw {
			if i < nBase {
				a := pt(e.A, e.K)
				k := len(pos)
				v0, v1, v2 := near(a, e.V[0], e.K), near(a, e.V[1], e.K), near(a, e.V[2], e.K)
				if e1, e2 := sub(v1, v0), sub(v2, v0); !(norm(cross(e1, e2)) > 1e-6*norm(e1)*norm(e2)) || norm(e1) < 1e-9 || norm(e2) < 1e-9 {
					// zero-area triangles have no closest point (NaN): make it a right triangle of the layout's size instead
					var d1, d2 V3
					d1[e.Rot], d2[(e.Rot+1)%3] = size, size
					v1, v2 = add(v0, d1), add(v0, d2)
				}
				pos = append(pos, v0, v1, v2)
				idx = append(idx, k, k+1, k+2)
				continue
			}
			s := 3 * (e.K % nBase) // the base triangles occupy index slots 0..3*nBase-1
			ids := []int{idx[s+e.Rot], idx[s+(e.Rot+1)%3], idx[s+(e.Rot+2)%3]}
			if e.Same {
				idx = append(idx, ids...)
			} else {
				k := len(pos)
				pos = append(pos, pos[ids[0]], pos[ids[1]], pos[ids[2]])
				idx = append(idx, k, k+1, k+2)
			}
		}
	default: // strip of n segments
		if layout == "coincident" { // a walk over a tiny pool: segments run over each other
			pos = append(pos, pt(raw[0].A, raw[0].K))
			pos = append(pos, distinct(pos[0], pt(raw[0].V[0], raw[0].K), raw[0]))
			if nBase >= 2 {
				third := distinct(pos[0], pt(raw[0].V[1], raw[0].K), raw[0])
				if norm(sub(third, pos[1])) < 1e-9 {
					third = add(third, sub(pos[1], pos[0]))
				}
				pos = append(pos, third)
			}
			nv, cur := len(pos), 0
			idx = append(idx, cur)
			for _, e := range raw {
				cur = (cur + 1 + e.K%(nv-1)) % nv
				idx = append(idx, cur)
			}
			break
		}
		cur := pt(raw[0].A, raw[0].K)
		pos = append(pos, cur)
		idx = append(idx, 0)
		for i, e := range raw {
			if base == "spread" || base == "clustered" {
				cur = distinct(cur, pt(e.V[0], e.K), e)
			} else {
				cur = distinct(cur, near(cur, e.V[0], e.K), e)
			}
			pos = append(pos, cur)
			idx = append(idx, i+1)
		}
	}
	return
}

var axes = []V3{{1, 0, 0}, {-1, 0, 0}, {0, 1, 0}, {0, -1, 0}, {0, 0, 1}, {0, 0, -1}}

// genDir draws a non-zero direction (not normalised); one in eight is an exact axis direction.
func genDir(t *rapid.T) V3 {
	if rapid.IntRange(0, 7).Draw(t, "dirAxis") == 0 {
		return axes[rapid.IntRange(0, 5).Draw(t, "axis")]
	}
	d := V3{f64(t, -1, 1, "dx"), f64(t, -1, 1, "dy"), f64(t, -1, 1, "dz")}
	if !(norm(d) >= 1e-3) {
		return V3{0.5, -0.25, 1}
	}
	return d
}

// genQuery draws one query round relative to the vertex set.
func genQuery(t *rapid.T, kind string, pos []V3, idx []int) Query {
	lo, hi := bbox(pos)
	ext := sub(hi, lo)
	diam := norm(ext)
	if diam == 0 {
		diam = 1
	}
	ctr := add(lo, scl(ext, 0.5))
	vert := func(label string) V3 { return pos[rapid.IntRange(0, len(pos)-1).Draw(t, label)] }
	place := func(label string) V3 {
		switch rapid.IntRange(0, 10).Draw(t, label+".k") {
		case 9, 10: // on an element (a convex combination of its vertices): inside its box
			vs := gather(pos, primVerts(kind, idx, rapid.IntRange(0, primCount(kind, idx)-1).Draw(t, label+".el")))
			w := []float64{f64(t, 0, 1, "w0"), f64(t, 0, 1, "w1"), f64(t, 0, 1, "w2")}
			var p V3
			sum := 0.0
			for i, v := range vs {
				p, sum = add(p, scl(v, w[i])), sum+w[i]
			}
			if sum < 1e-3 {
				return vs[0]
			}
			return scl(p, 1/sum)
		case 0: // inside the bounds
			return V3{lo[0] + ext[0]*f64(t, 0, 1, "u"), lo[1] + ext[1]*f64(t, 0, 1, "u"), lo[2] + ext[2]*f64(t, 0, 1, "u")}
		case 1: // exactly on an element vertex
			return vert(label + ".v")
		case 2: // a hair away from a vertex
			return add(vert(label+".v"), scl(genDir(t), pow10(t, -12, -2, "hair")))
		case 3: // coordinates of three vertices: on faces of element boxes
			a, b, c := vert(label+".vx"), vert(label+".vy"), vert(label+".vz")
			return V3{a[0], b[1], c[2]}
		case 4: // midpoint of two vertices: equidistant
			a, b := vert(label+".va"), vert(label+".vb")
			return scl(add(a, b), 0.5)
		case 5, 6: // around the bounds, mostly outside
			pad := 0.25*diam + 0.5
			return V3{ctr[0] + (ext[0]/2+pad)*f64(t, -2, 2, "w"), ctr[1] + (ext[1]/2+pad)*f64(t, -2, 2, "w"), ctr[2] + (ext[2]/2+pad)*f64(t, -2, 2, "w")}
		case 7: // far away
			return V3{f64(t, -100, 100, "far"), f64(t, -100, 100, "far"), f64(t, -100, 100, "far")}
		default: // on the faces / corners of the overall bounds
			var p V3
			for k := 0; k < 3; k++ {
				switch rapid.IntRange(0, 2).Draw(t, "face") {
				case 0:
					p[k] = lo[k]
				case 1:
					p[k] = hi[k]
				default:
					p[k] = lo[k] + ext[k]*f64(t, 0, 1, "u")
				}
			}
			return p
		}
	}
	q := Query{P: place("p")}
	reach := norm(sub(q.P, ctr)) + diam
	switch rapid.IntRange(0, 5).Draw(t, "rk") {
	case 0:
		q.R = 0
	case 1: // exactly the distance to a vertex, or to the box of an element: on the decision boundary
		if rapid.Bool().Draw(t, "rbox") {
			mn, mx := bbox(gather(pos, primVerts(kind, idx, rapid.IntRange(0, primCount(kind, idx)-1).Draw(t, "rel"))))
			q.R = boxDist(mn, mx, q.P)
		} else {
			q.R = norm(sub(q.P, vert("rv")))
		}
	case 2:
		q.R = f64(t, 0, diam, "r")
	case 3:
		q.R = f64(t, 0, 1.5*reach, "r")
	case 4:
		q.R = diam * pow10(t, -6, -1, "rsmall")
	default:
		q.R = 3 * reach
	}
	// ray: a target, a direction and an origin
	target := place("target")
	switch rapid.IntRange(0, 6).Draw(t, "dk") {
	case 0, 1: // axis-parallel line through the target, origin anywhere along it
		a := axes[rapid.IntRange(0, 5).Draw(t, "axis")]
		back := f64(t, -0.5, 2, "back") * reach
		if rapid.IntRange(0, 3).Draw(t, "fromTarget") == 0 {
			back = 0
		}
		q.O = sub(target, scl(a, back))
		if rapid.IntRange(0, 3).Draw(t, "negzero") == 0 { // zero components as -0: 1/-0 = -Inf in the slab test
			for k := range a {
				if a[k] == 0 {
					a[k] = math.Copysign(0, -1)
				}
			}
		}
		q.D = a
	case 2: // from the query point exactly at a vertex
		q.O = q.P
		q.D = sub(vert("aim"), q.O)
	case 3: // from the query point towards the target
		q.O = q.P
		q.D = sub(target, q.O)
	case 4: // towards the target with an angular error
		q.O = q.P
		q.D = add(sub(target, q.O), scl(genDir(t), pow10(t, -9, -0.5, "aimerr")*diam))
	case 5: // any direction from the query point
		q.O = q.P
		q.D = genDir(t)
	default: // any direction through the target, origin behind it
		q.D = genDir(t)
		q.O = sub(target, scl(q.D, f64(t, 0, 2, "back")*reach))
	}
	if !finite(q.D) || norm(q.D) < 1e-6 {
		q.D = V3{1, 0, 0}
	}
	far := norm(sub(target, q.O))
	switch rapid.IntRange(0, 5).Draw(t, "mink") {
	case 0:
		q.Min = f64(t, 0, 1, "min") * far
	case 1:
		q.Min = -f64(t, 0, 1, "min") * (far + diam)
	default:
		q.Min = 0
	}
	switch rapid.IntRange(0, 5).Draw(t, "maxk") {
	case 0: // exactly the distance of the target
		q.Max = far
	case 1:
		q.Max = far * rapid.SampledFrom([]float64{0.5, 0.999999, 1.000001, 2}).Draw(t, "maxf")
	case 2:
		q.Max = f64(t, 0, 2, "max") * (far + diam)
	default:
		q.Max = 1000
	}
	if !(q.Max > q.Min) {
		q.Max = q.Min + 1
	}
	return q
}

var depths = []int{-1, -1, 0, 0, 1, 1, 1, 2, 2, 3, 4, 5, 6}

func genCase(t *rapid.T) Case {
	c := Case{Kind: rapid.SampledFrom([]string{"tri", "tri", "point", "point", "strip"}).Draw(t, "kind")}
	c.Layout, c.Pos, c.Idx = genElements(t, c.Kind)
	c.Depth = rapid.SampledFrom(depths).Draw(t, "depth")
	if c.Depth >= 0 {
		c.Attr = rapid.IntRange(0, 3).Draw(t, "attr") == 0
	}
	c.Qs = rapid.SliceOfN(rapid.Custom(func(t *rapid.T) Query { return genQuery(t, c.Kind, c.Pos, c.Idx) }), 1, 6).Draw(t, "queries")
	if rapid.IntRange(0, 15).Draw(t, "shared") == 0 {
		c.Par = rapid.IntRange(2, 6).Draw(t, "par")
	}
	return c
}

// ---------------------------------------------------------------- reference predicates

// slabPad is the absolute padding geometry.AABB.IntersectsRayInRange adds to every face.
const slabPad = 1e-10

// rayBox: does the ray o+t*d, t in [lo,hi], meet the box [mn-pad, mx+pad]? Written from the
// definition (interval intersection per axis); returns the parameter interval as well.
func rayBox(o, d, mn, mx V3, pad, lo, hi float64) (float64, float64, bool) {
	for k := 0; k < 3; k++ {
		a, b := mn[k]-pad, mx[k]+pad
		if d[k] == 0 {
			if o[k] < a || o[k] > b {
				return 0, 0, false
			}
			continue
		}
		t0, t1 := (a-o[k])/d[k], (b-o[k])/d[k]
		if t0 > t1 {
			t0, t1 = t1, t0
		}
		lo, hi = math.Max(lo, t0), math.Min(hi, t1)
		if hi < lo {
			return 0, 0, false
		}
	}
	return lo, hi, true
}

func boxDist(mn, mx, p V3) float64 {
	var d V3
	for k := 0; k < 3; k++ {
		d[k] = p[k] - math.Min(math.Max(p[k], mn[k]), mx[k])
	}
	return norm(d)
}

type scanned struct {
	e      trees.Element
	mn, mx V3
	verts  []V3 // the case's own vertices of this primitive (independent of Scope)
}

// refClosest is the distance from p to the primitive spanned by vs (1 = point, 2 = segment,
// 3 = triangle), computed from the vertices alone.  ok is false when the primitive is too thin for
// the answer to be well conditioned (the caller then does not judge the element against it).
func refClosest(vs []V3, p V3, scale float64) (d float64, ok bool) {
	segDist := func(a, b V3) float64 {
		ab := sub(b, a)
		l2 := dot(ab, ab)
		if l2 == 0 {
			return norm(sub(p, a))
		}
		t := math.Max(0, math.Min(1, dot(sub(p, a), ab)/l2))
		return norm(sub(p, add(a, scl(ab, t))))
	}
	switch len(vs) {
	case 1:
		return norm(sub(p, vs[0])), true
	case 2:
		return segDist(vs[0], vs[1]), true
	}
	a, b, c := vs[0], vs[1], vs[2]
	n := cross(sub(b, a), sub(c, a))
	if dot(n, n) == 0 { // no area, no plane: the triangle is one of its edges (or a point)
		return math.Min(segDist(a, b), math.Min(segDist(b, c), segDist(c, a))), true
	}
	longest := math.Max(norm(sub(b, a)), math.Max(norm(sub(c, b)), norm(sub(a, c))))
	if !(longest > 1e-6*scale) || !(norm(n)/longest > 1e-4*longest) { // altitude over the longest edge
		return 0, false
	}
	// inside the prism over the triangle: the distance to the plane; otherwise the nearest edge
	un := scl(n, 1/norm(n))
	h := dot(sub(p, a), un)
	f := sub(p, scl(un, h))
	inside := true
	for _, e := range [3][2]V3{{a, b}, {b, c}, {c, a}} {
		if dot(cross(sub(e[1], e[0]), sub(f, e[0])), un) < 0 {
			inside = false
		}
	}
	d = math.Min(segDist(a, b), math.Min(segDist(b, c), segDist(c, a)))
	if inside {
		d = math.Min(d, math.Abs(h))
	}
	return d, true
}

func idSet(name string, got []int, n int) (map[int]bool, *vh.Failure) {
	s := map[int]bool{}
	for _, i := range got {
		if i < 0 || i >= n {
			return nil, vh.Failf(name+"/index-out-of-range", "%s returned element index %d, the set has %d elements", name, i, n)
		}
		if s[i] {
			return nil, vh.Failf(name+"/duplicate", "%s returned element %d twice: %v", name, i, got)
		}
		s[i] = true
	}
	return s, nil
}

func depthName(d int) string {
	switch {
	case d < 0:
		return "auto"
	case d <= 2:
		return fmt.Sprint(d)
	default:
		return "3-6"
	}
}

func countName(n int) string {
	switch {
	case n == 1:
		return "1"
	case n <= 8:
		return "2-8"
	case n <= 22:
		return "9-22"
	default:
		return "23+"
	}
}

// ---------------------------------------------------------------- the octree oracle

func runCase(c Case, o *vh.Obs) *vh.Failure {
	if c.RecN > 0 {
		if c.RecN > 70000 || c.RecClusters < 0 || c.RecClusters > 27 || len(c.Pos) != 0 {
			o.Count("invalid-case-skipped", 1)
			return nil
		}
		c.Pos, c.Idx = recipeSet(c.Kind, c.RecN, c.RecSeed, c.RecClusters)
		o.Class(fmt.Sprintf("large/auto-depth-%d", trees.OctreeDepthFromCount(c.RecN)))
	}
	if !validSet(c.Kind, c.Pos, c.Idx) || c.Depth > 8 || len(c.Qs) == 0 {
		o.Count("invalid-case-skipped", 1)
		return nil
	}
	attr := modeling.PositionAttribute
	ctor := "OctTreeDepth"
	if c.Depth < 0 {
		ctor = "OctTree"
	} else if c.Attr {
		attr, ctor = otherAttr, "OctTreeWithAttributeAndDepth"
	}
	m := buildMesh(c.Kind, c.Pos, c.Idx, attr, false)
	n := primCount(c.Kind, c.Idx)
	var tree *trees.OctTree
	switch ctor {
	case "OctTree":
		tree = m.OctTree()
	case "OctTreeDepth":
		tree = m.OctTreeDepth(c.Depth)
	default:
		tree = m.OctTreeWithAttributeAndDepth(attr, c.Depth)
	}
	depth := c.Depth
	if depth < 0 {
		depth = trees.OctreeDepthFromCount(n)
	}
	what := fmt.Sprintf("%d %s elements, %s depth %d", n, c.Kind, ctor, depth)
	if tree == nil {
		return vh.Failf("octree/nil-tree", "%s: the constructor returned a nil tree", what)
	}
	// the scan uses the same element objects the tree was built from
	var els []scanned
	m.ScanPrimitives(func(i int, p modeling.Primitive) {
		e := p.Scope(attr)
		bb := e.BoundingBox()
		els = append(els, scanned{e: e, mn: av(bb.Min()), mx: av(bb.Max())})
	})
	if len(els) != n {
		return vh.Failf("octree/scan-count", "ScanPrimitives visited %d primitives, the index list describes %d", len(els), n)
	}
	scale := 1.0
	for _, p := range c.Pos {
		scale = math.Max(scale, 1+maxAbs(p))
	}
	// element i of the scan is primitive i of the case (independent of Scope)
	dupBox := false
	seenBox := map[[2]V3]bool{}
	for i, s := range els {
		els[i].verts = gather(c.Pos, primVerts(c.Kind, c.Idx, i))
		lo, hi := bbox(els[i].verts)
		if norm(sub(lo, s.mn)) > 1e-12*scale || norm(sub(hi, s.mx)) > 1e-12*scale {
			return vh.Failf("octree/element-identity", "%s: element %d has box [%v,%v] but primitive %d spans [%v,%v]", what, i, s.mn, s.mx, i, lo, hi)
		}
		if seenBox[[2]V3{s.mn, s.mx}] {
			dupBox = true
		}
		seenBox[[2]V3{s.mn, s.mx}] = true
	}
	o.Class("set/" + c.Kind + "/" + c.Layout)
	o.Class("kind/" + c.Kind)
	o.Class("depth/" + depthName(c.Depth))
	o.Class("ctor/" + ctor)
	o.Class("n/" + countName(n))
	if n >= 2 && (depth == 0 || dupBox || (depth < 3 && n > pow8(depth))) {
		o.NonTrivial()
		o.Class("leaf/shared-for-certain")
	}
	// BoundingBox(): the union of the element boxes
	ulo, uhi := els[0].mn, els[0].mx
	for _, s := range els {
		for k := 0; k < 3; k++ {
			ulo[k], uhi[k] = math.Min(ulo[k], s.mn[k]), math.Max(uhi[k], s.mx[k])
		}
	}
	tb := tree.BoundingBox()
	if norm(sub(av(tb.Min()), ulo)) > 1e-9*scale || norm(sub(av(tb.Max()), uhi)) > 1e-9*scale {
		return vh.Failf("boundingbox/not-the-union", "%s: BoundingBox() = [%v,%v], union of the element boxes [%v,%v]", what, av(tb.Min()), av(tb.Max()), ulo, uhi)
	}
	pass := func(o *vh.Obs, rot int, shared bool) *vh.Failure {
		for k := range c.Qs {
			qi := (k + rot) % len(c.Qs)
			q := c.Qs[qi]
			if !finite(q.P) || maxAbs(q.P) > 900 || math.IsNaN(q.R) || math.IsInf(q.R, 0) || q.R < 0 {
				o.Count("invalid-query-skipped", 1)
				continue
			}
			o.Count("queries", 1)
			w := fmt.Sprintf("%s, query %d", what, qi)
			if f := pointQueries(tree, els, q, scale, ulo, uhi, c.Pos, w, o); f != nil {
				return f
			}
			if !finite(q.O) || !finite(q.D) || maxAbs(q.O) > 900 || !(norm(q.D) >= 1e-6) || !(q.Max > q.Min) || math.IsInf(q.Max-q.Min, 0) || math.IsNaN(q.Max-q.Min) {
				o.Count("invalid-ray-skipped", 1)
				continue
			}
			if f := rayQueries(tree, els, q, ulo, uhi, w, o, shared); f != nil {
				return f
			}
		}
		return nil
	}
	if f := pass(o, 0, false); f != nil || c.Par < 2 || c.Par > 16 {
		return f
	}
	// the same queries again, from Par goroutines at once on the shared tree
	o.Class("shared-tree/concurrent-queries")
	workers := make([]int, c.Par)
	for i := range workers {
		workers[i] = i
	}
	fails := make([]*vh.Failure, c.Par)
	start, done := make(chan struct{}), make(chan struct{}, c.Par)
	for _, i := range workers {
		go func(i int) {
			defer func() {
				if r := recover(); r != nil {
					fails[i] = vh.Failf("concurrent/panic", "%s: worker %d of %d querying the shared tree panicked: %v (the same queries pass one after the other)", what, i, c.Par, r)
				}
				done <- struct{}{}
			}()
			<-start
			for r := 0; r < 3 && fails[i] == nil; r++ {
				if f := pass(&vh.Obs{}, i+r, true); f != nil {
					fails[i] = vh.Failf("concurrent/"+f.Sig, "worker %d of %d querying the shared tree (the same queries pass one after the other): %s", i, c.Par, f.Msg)
				}
			}
		}(i)
	}
	close(start)
	for range workers {
		<-done
	}
	for _, f := range fails {
		if f != nil {
			return f
		}
	}
	return nil
}

func pow8(d int) int {
	r := 1
	for i := 0; i < d; i++ {
		r *= 8
	}
	return r
}

func gather(pos []V3, ids []int) []V3 {
	out := make([]V3, len(ids))
	for i, id := range ids {
		out[i] = pos[id]
	}
	return out
}

func outside(p, lo, hi V3) bool {
	for k := 0; k < 3; k++ {
		if p[k] < lo[k] || p[k] > hi[k] {
			return true
		}
	}
	return false
}

// dyadic: every coordinate is a multiple of 1/128 of magnitude at most 1024. Box centres, extents,
// cell subdivisions, coordinate differences and their squares are then all exact in float64, so the
// library's distance to a box and the harness's are the same floating-point number and the
// within-range decision can be judged ON the boundary, without a don't-care band.
func dyadic(ps ...V3) bool {
	for _, p := range ps {
		for _, x := range p {
			if math.Abs(x) > 1024 || x*128 != math.Floor(x*128) {
				return false
			}
		}
	}
	return true
}

func pointQueries(tree *trees.OctTree, els []scanned, q Query, scale float64, ulo, uhi V3, pos []V3, w string, o *vh.Obs) *vh.Failure {
	n := len(els)
	p := vv(q.P)
	scale = math.Max(scale, 1+maxAbs(q.P))
	band := 1e-9 * scale
	if outside(q.P, ulo, uhi) {
		o.NonTrivial()
		o.Class("point/outside-bounds")
	} else {
		o.Class("point/inside-bounds")
	}
	for _, v := range pos {
		if v == q.P {
			o.Class("point/exactly-on-vertex")
			break
		}
	}

	// ---- ClosestPoint
	gi, gp := tree.ClosestPoint(p)
	if gi < 0 || gi >= n {
		return vh.Failf("closestpoint/index-out-of-range", "%s: ClosestPoint(%v) returned element index %d", w, q.P, gi)
	}
	dist := make([]float64, n)
	best, judged := math.Inf(1), true
	for i, s := range els {
		cp := av(s.e.ClosestPoint(p))
		if !finite(cp) {
			return vh.Failf("closestpoint/element-answer-not-finite", "%s: element %d (vertices %v) answers ClosestPoint(%v) = %v", w, i, s.verts, q.P, cp)
		}
		for k := 0; k < 3; k++ { // the pruning argument needs the element's closest point inside the element's box
			if cp[k] < s.mn[k]-band/4 || cp[k] > s.mx[k]+band/4 {
				judged = false
			}
		}
		if !judged {
			o.Count("closest-skipped/closest-point-outside-own-box", 1)
			break
		}
		dist[i] = norm(sub(cp, q.P))
		best = math.Min(best, dist[i])
		// the element's own answer against the geometry of primitive i of the attribute the tree was built on
		if ref, ok := refClosest(s.verts, q.P, scale); ok {
			o.Count("element-closest-judged-against-geometry", 1)
			if math.Abs(dist[i]-ref) > 1e-7*scale {
				return vh.Failf("closestpoint/element-disagrees-with-geometry", "%s: element %d (vertices %v) answers ClosestPoint(%v) = %v at distance %.17g; the distance from the point to that primitive is %.17g", w, i, s.verts, q.P, cp, dist[i], ref)
			}
		} else {
			o.Count("element-closest-not-judged/thin-triangle", 1)
		}
	}
	if judged {
		o.Class("query/closest")
		ties := 0
		for _, d := range dist {
			if d <= best+band {
				ties++
			}
		}
		if ties > 1 {
			o.Class("closest/tie")
		}
		if !finite(av(gp)) {
			return vh.Failf("closestpoint/non-finite", "%s: ClosestPoint(%v) = element %d, point %v", w, q.P, gi, av(gp))
		}
		if d := norm(sub(av(gp), q.P)); math.Abs(d-best) > band {
			return vh.Failf("closestpoint/distance-not-minimal", "%s: ClosestPoint(%v) returned a point at distance %.17g (element %d, point %v); the exhaustive scan finds distance %.17g (per element: %v)", w, q.P, d, gi, av(gp), best, dist)
		}
		if dist[gi] > best+band {
			return vh.Failf("closestpoint/wrong-index", "%s: ClosestPoint(%v) returned element index %d with point %v at distance %.17g; element %d is at distance %.17g, the minimum %.17g is attained by element %d (per element: %v)",
				w, q.P, gi, av(gp), norm(sub(av(gp), q.P)), gi, dist[gi], best, argmin(dist), dist)
		}
		if own := av(els[gi].e.ClosestPoint(p)); norm(sub(own, av(gp))) > band {
			return vh.Failf("closestpoint/point-not-of-returned-element", "%s: ClosestPoint(%v) returned element %d and point %v, but that element's closest point is %v", w, q.P, gi, av(gp), own)
		}
	}

	// ---- ElementsContainingPoint
	o.Class("query/containing")
	contain, f := idSet("containing", tree.ElementsContainingPoint(p), n)
	if f != nil {
		f.Msg = w + ": " + f.Msg
		return f
	}
	nin := 0
	for i, s := range els {
		in, out := true, false
		for k := 0; k < 3; k++ {
			if q.P[k] < s.mn[k]+band || q.P[k] > s.mx[k]-band {
				in = false
			}
			if q.P[k] < s.mn[k]-band || q.P[k] > s.mx[k]+band {
				out = true
			}
		}
		switch {
		case in:
			nin++
			if !contain[i] {
				return vh.Failf("containing/missing", "%s: ElementsContainingPoint(%v) = %v lacks element %d whose box [%v,%v] contains the point with margin %g", w, q.P, keys(contain), i, s.mn, s.mx, band)
			}
		case out:
			if contain[i] {
				return vh.Failf("containing/extra", "%s: ElementsContainingPoint(%v) = %v lists element %d whose box [%v,%v] does not contain the point", w, q.P, keys(contain), i, s.mn, s.mx)
			}
		default:
			o.Count("band/containing-not-judged", 1)
			if contain[i] != s.e.BoundingBox().Contains(p) {
				o.Count("band/containing-tree-differs-from-scan", 1)
			}
		}
	}
	if nin > 0 {
		o.Class("containing/some-must-be-found")
	}

	// ---- ElementsWithinRange
	o.Class("query/within-range")
	within, f := idSet("withinrange", tree.ElementsWithinRange(p, q.R), n)
	if f != nil {
		f.Msg = w + ": " + f.Msg
		return f
	}
	nin = 0
	exact := dyadic(q.P) && dyadic(pos...)
	if exact {
		o.Class("withinrange/exact-arithmetic-no-band")
	}
	for i, s := range els {
		d := boxDist(s.mn, s.mx, q.P)
		if exact { // the documented predicate is "distance <= radius"
			if d == q.R {
				o.Class("withinrange/element-exactly-on-the-radius")
			}
			if d <= q.R {
				nin++
				if !within[i] {
					return vh.Failf("withinrange/missing", "%s: ElementsWithinRange(%v, %.17g) = %v lacks element %d whose box [%v,%v] is at distance %.17g (all coordinates are multiples of 1/128: the distance is exact)", w, q.P, q.R, keys(within), i, s.mn, s.mx, d)
				}
			} else if within[i] {
				return vh.Failf("withinrange/extra", "%s: ElementsWithinRange(%v, %.17g) = %v lists element %d whose box [%v,%v] is at distance %.17g (exact)", w, q.P, q.R, keys(within), i, s.mn, s.mx, d)
			}
			continue
		}
		switch {
		case d < q.R-band:
			nin++
			if !within[i] {
				return vh.Failf("withinrange/missing", "%s: ElementsWithinRange(%v, %.17g) = %v lacks element %d whose box [%v,%v] is at distance %.17g", w, q.P, q.R, keys(within), i, s.mn, s.mx, d)
			}
		case d > q.R+band:
			if within[i] {
				return vh.Failf("withinrange/extra", "%s: ElementsWithinRange(%v, %.17g) = %v lists element %d whose box [%v,%v] is at distance %.17g", w, q.P, q.R, keys(within), i, s.mn, s.mx, d)
			}
		default:
			o.Count("band/withinrange-not-judged", 1)
		}
	}
	switch {
	case nin == 0:
		o.Class("withinrange/none-must-be-found")
	case nin == n:
		o.Class("withinrange/all-must-be-found")
	default:
		o.Class("withinrange/some-must-be-found")
	}
	return nil
}

func argmin(d []float64) int {
	b := 0
	for i := range d {
		if d[i] < d[b] {
			b = i
		}
	}
	return b
}

func keys(s map[int]bool) []int {
	out := make([]int, 0, len(s))
	for k := range s {
		out = append(out, k)
	}
	sort.Ints(out)
	return out
}

func rayQueries(tree *trees.OctTree, els []scanned, q Query, ulo, uhi V3, w string, o *vh.Obs, shared bool) *vh.Failure {
	n := len(els)
	ray := geometry.NewRay(vv(q.O), vv(q.D))
	d := av(ray.Direction()) // the unit direction the library works with
	if !finite(d) {
		o.Count("invalid-ray-skipped", 1)
		return nil
	}
	axisParallel := 0
	for k := 0; k < 3; k++ {
		if d[k] == 0 {
			axisParallel++
		}
	}
	if axisParallel == 2 {
		o.Class("ray/axis-parallel")
	} else {
		o.Class("ray/general")
	}
	if outside(q.O, ulo, uhi) {
		o.NonTrivial()
		o.Class("ray/origin-outside-bounds")
	} else {
		o.Class("ray/origin-inside-bounds")
	}
	switch {
	case q.Min < 0:
		o.Class("ray/min-negative")
	case q.Min > 0:
		o.Class("ray/min-positive")
	}
	// classification of every element by the reference slab test
	const sure, miss, unsure = 1, 2, 0
	cls := make([]int, n)
	hitT := make([]float64, n) // harness-defined hit parameter of an element that is surely crossed
	nsure := 0
	for i, s := range els {
		if lo, hi, ok := rayBox(q.O, d, s.mn, s.mx, 0.5*slabPad, q.Min, q.Max); ok && hi > lo {
			cls[i], hitT[i] = sure, lo+(hi-lo)/2
			nsure++
		} else if _, _, ok := rayBox(q.O, d, s.mn, s.mx, 1.5*slabPad, q.Min, q.Max); !ok {
			cls[i] = miss
		} else {
			o.Count("band/ray-not-judged", 1)
		}
	}
	switch {
	case nsure == 0:
		o.Class("ray/crosses-none")
	case nsure == n:
		o.Class("ray/crosses-all")
	default:
		o.Class("ray/crosses-some")
	}
	judge := func(name string, got map[int]bool) *vh.Failure {
		for i, s := range els {
			if cls[i] == sure && !got[i] {
				return vh.Failf(name+"/missing", "%s: %s(origin %v, direction %v, range [%.17g,%.17g]) = %v lacks element %d whose box [%v,%v] the ray crosses (scan says %v)",
					w, name, q.O, d, q.Min, q.Max, keys(got), i, s.mn, s.mx, s.e.BoundingBox().IntersectsRayInRange(ray, q.Min, q.Max))
			}
			if cls[i] == miss && got[i] {
				return vh.Failf(name+"/extra", "%s: %s(origin %v, direction %v, range [%.17g,%.17g]) = %v lists element %d whose box [%v,%v] the ray misses (scan says %v)",
					w, name, q.O, d, q.Min, q.Max, keys(got), i, s.mn, s.mx, s.e.BoundingBox().IntersectsRayInRange(ray, q.Min, q.Max))
			}
		}
		return nil
	}

	// ---- ElementsIntersectingRay (the result aliases a buffer of the tree: copy). The method has a
	// pointer receiver and collects into per-node buffers by design, so it is not issued while other
	// goroutines query the same tree; all other queries have value receivers and only read.
	var got map[int]bool
	var f *vh.Failure
	if !shared {
		o.Class("query/ray-set")
		got, f = idSet("rayset", append([]int{}, tree.ElementsIntersectingRay(ray, q.Min, q.Max)...), n)
		if f != nil {
			f.Msg = w + ": " + f.Msg
			return f
		}
		if f := judge("rayset", got); f != nil {
			return f
		}
	}

	// ---- TraverseIntersectingRay, range untouched: visits the same set
	o.Class("query/traverse")
	var visited []int
	tree.TraverseIntersectingRay(ray, q.Min, q.Max, func(i int, min, max *float64) { visited = append(visited, i) })
	got, f = idSet("traverse", visited, n)
	if f != nil {
		f.Msg = w + ": " + f.Msg
		return f
	}
	if f := judge("traverse", got); f != nil {
		return f
	}

	// ---- TraverseIntersectingRay with a shrinking max: delivers the nearest hit of the scan
	o.Class("query/traverse-nearest")
	want, wantIdx := math.Inf(1), -1
	for i := range els {
		if cls[i] == sure && hitT[i] < want {
			want, wantIdx = hitT[i], i
		}
	}
	bestT, bestIdx := math.Inf(1), -1
	var bad *vh.Failure
	tree.TraverseIntersectingRay(ray, q.Min, q.Max, func(i int, min, max *float64) {
		if i < 0 || i >= n {
			bad = vh.Failf("traverse-nearest/index-out-of-range", "%s: TraverseIntersectingRay visited element index %d", w, i)
			return
		}
		if cls[i] == miss && bad == nil {
			bad = vh.Failf("traverse-nearest/extra", "%s: TraverseIntersectingRay(origin %v, direction %v, range [%.17g,%.17g]) visited element %d whose box [%v,%v] the ray misses", w, q.O, d, q.Min, q.Max, i, els[i].mn, els[i].mx)
		}
		if cls[i] == sure && hitT[i] < bestT {
			bestT, bestIdx = hitT[i], i
			*max = bestT
		}
	})
	if bad != nil {
		return bad
	}
	if bestT != want {
		return vh.Failf("traverse-nearest/wrong-hit", "%s: TraverseIntersectingRay(origin %v, direction %v, range [%.17g,%.17g]) with max shrunk to every hit found its nearest hit at t=%.17g (element %d); the scan's nearest hit is t=%.17g (element %d)",
			w, q.O, d, q.Min, q.Max, bestT, bestIdx, want, wantIdx)
	}
	return nil
}

// ---------------------------------------------------------------- ray-hit structures of package rendering

type BRay struct {
	O, D V3
	Max  float64
}

type BVHCase struct {
	Layout string
	Pos    []V3
	Idx    []int
	Seed   int64 // seeds math/rand, which picks the split axes of NewBVHTree
	Rays   []BRay
}

func genBVH(t *rapid.T) BVHCase {
	c := BVHCase{Seed: int64(rapid.IntRange(0, 1<<30).Draw(t, "seed"))}
	c.Layout, c.Pos, c.Idx = genElements(t, "tri")
	n := len(c.Idx) / 3
	lo, hi := bbox(c.Pos)
	ext := sub(hi, lo)
	diam := norm(ext)
	if diam == 0 {
		diam = 1
	}
	c.Rays = rapid.SliceOfN(rapid.Custom(func(t *rapid.T) BRay {
		// a target on or near the surface
		var target V3
		tri := rapid.IntRange(0, n-1).Draw(t, "tri")
		a, b, cc := c.Pos[c.Idx[3*tri]], c.Pos[c.Idx[3*tri+1]], c.Pos[c.Idx[3*tri+2]]
		switch rapid.IntRange(0, 5).Draw(t, "tk") {
		case 0, 1, 2: // inside a triangle
			u, v := f64(t, 0, 1, "bu"), f64(t, 0, 1, "bv")
			if u+v > 1 {
				u, v = 1-u, 1-v
			}
			target = add(a, add(scl(sub(b, a), u), scl(sub(cc, a), v)))
		case 3: // a vertex
			target = a
		case 4: // an edge midpoint
			target = scl(add(a, b), 0.5)
		default: // anywhere in the bounds
			target = V3{lo[0] + ext[0]*f64(t, 0, 1, "u"), lo[1] + ext[1]*f64(t, 0, 1, "u"), lo[2] + ext[2]*f64(t, 0, 1, "u")}
		}
		var r BRay
		if rapid.IntRange(0, 2).Draw(t, "axisRay") == 0 {
			r.D = axes[rapid.IntRange(0, 5).Draw(t, "axis")]
		} else {
			r.D = genDir(t)
		}
		back := diam * f64(t, 0, 3, "back")
		switch rapid.IntRange(0, 9).Draw(t, "ok") {
		case 0:
			back = 0 // origin on the surface
		case 1, 2:
			back = diam * pow10(t, -7, -1, "backsmall")
		}
		r.O = sub(target, scl(r.D, back/norm(r.D)))
		if rapid.IntRange(0, 5).Draw(t, "aimless") == 0 {
			r.D = genDir(t)
		}
		switch rapid.IntRange(0, 9).Draw(t, "maxk") {
		case 0:
			r.Max = back
		case 1, 2:
			r.Max = back * rapid.SampledFrom([]float64{0.5, 0.999999, 1.000001, 2}).Draw(t, "maxf")
		default:
			r.Max = 1000
		}
		if !(r.Max > 0) {
			r.Max = 1
		}
		return r
	}), 1, 6).Draw(t, "rays")
	return c
}

// mtRef is the Moller-Trumbore computation in the harness; it only classifies how well
// conditioned a (ray, triangle) pair is, the hit itself is taken from the library.
func mtRef(o, d, p1, p2, p3 V3) (det, u, v, t, pointErr float64) {
	e1, e2 := sub(p2, p1), sub(p3, p1)
	pvec := cross(d, e2)
	det = dot(e1, pvec)
	tvec := sub(o, p1)
	qvec := cross(tvec, e1)
	u, v, t = dot(tvec, pvec)/det, dot(d, qvec)/det, dot(e2, qvec)/det
	// forward error of the hit point: a few dozen roundings, amplified by 1/det
	pointErr = 5.4e-15 * (norm(tvec) + norm(e1) + norm(e2)) * norm(e1) * norm(e2) / math.Abs(det)
	return
}

func runBVH(c BVHCase, o *vh.Obs) *vh.Failure {
	if !validSet("tri", c.Pos, c.Idx) || len(c.Rays) == 0 {
		o.Count("invalid-case-skipped", 1)
		return nil
	}
	n := len(c.Idx) / 3
	m := buildMesh("tri", c.Pos, c.Idx, modeling.PositionAttribute, true)
	rand.Seed(c.Seed) // NewBVHTree draws its split axes from the global source
	bvh := rendering.NewBVHFromMesh(m, nil)
	singles := make([]rendering.Hittable, n)
	for i := 0; i < n; i++ {
		one := buildMesh("tri", gather(c.Pos, c.Idx[3*i:3*i+3]), []int{0, 1, 2}, modeling.PositionAttribute, true)
		singles[i] = rendering.NewBVHFromMesh(one, nil)
	}
	structures := []struct {
		name string
		h    rendering.Hittable
	}{
		{"bvh", bvh},
		{"hitlist", rendering.HitList(singles)},
		{"hittable-octree", rendering.NewBVH(singles, 0, 0)},
		{"mesh-octree", rendering.NewMesh(m, nil)},
	}
	o.Class("bvh/" + c.Layout)
	o.Class("bvh/n=" + countName(n))
	lo, hi := bbox(c.Pos)
	for ri, r := range c.Rays {
		if !finite(r.O) || !finite(r.D) || maxAbs(r.O) > 900 || !(norm(r.D) >= 1e-6) || !(r.Max > 0) || math.IsInf(r.Max, 0) {
			o.Count("invalid-ray-skipped", 1)
			continue
		}
		ray := rendering.NewTemporalRay(vv(r.O), vv(r.D), 0)
		d := av(ray.Direction())
		// conditioning guard
		fragile := false
		for i := 0; i < n; i++ {
			p1, p2, p3 := c.Pos[c.Idx[3*i]], c.Pos[c.Idx[3*i+1]], c.Pos[c.Idx[3*i+2]]
			det, u, v, t, perr := mtRef(r.O, d, p1, p2, p3)
			if math.IsNaN(det) || math.Abs(det) < 0.5e-6 {
				continue // parallel: a miss for every structure
			}
			mrg := 1e-3 + 10*perr
			if u >= -mrg && v >= -mrg && u+v <= 1+mrg && t >= 0.5e-6 && t <= r.Max*(1+1e-6)+mrg && !(perr <= 1e-11) {
				fragile = true
			}
		}
		if fragile {
			o.Count("bvh-ray-skipped/ill-conditioned-near-hit", 1)
			continue
		}
		o.Count("rays", 1)
		// exhaustive scan: every triangle on its own
		anyHit, best, hits := false, math.Inf(1), 0
		for i := 0; i < n; i++ {
			h := rendering.NewHitRecord()
			if singles[i].Hit(&ray, 0, r.Max, h) {
				anyHit, best = true, math.Min(best, h.Distance)
				hits++
			}
		}
		switch {
		case hits == 0:
			o.Class("bvhray/miss")
		case hits == 1:
			o.Class("bvhray/one-hit")
		default:
			o.Class("bvhray/several-hits")
		}
		if n >= 2 && hits >= 1 {
			o.NonTrivial()
		}
		if outside(r.O, lo, hi) {
			o.Class("bvhray/origin-outside-bounds")
		} else {
			o.Class("bvhray/origin-inside-bounds")
		}
		if (d[0] == 0 && d[1] == 0) || (d[1] == 0 && d[2] == 0) || (d[0] == 0 && d[2] == 0) {
			o.Class("bvhray/axis-parallel")
		}
		for _, s := range structures {
			h := rendering.NewHitRecord()
			got := s.h.Hit(&ray, 0, r.Max, h)
			if got != anyHit {
				return vh.Failf(s.name+"/hit-flag", "%d triangles, ray %d (origin %v, direction %v, range [0,%.17g]): %s.Hit = %v (distance %.17g), the exhaustive scan over the triangles says %v (nearest %.17g, %d triangles hit)",
					n, ri, r.O, d, r.Max, s.name, got, h.Distance, anyHit, best, hits)
			}
			if got && math.Abs(h.Distance-best) > 1e-9*(1+best) {
				return vh.Failf(s.name+"/distance", "%d triangles, ray %d (origin %v, direction %v, range [0,%.17g]): %s.Hit reports distance %.17g, the nearest of the %d triangles hit is at %.17g",
					n, ri, r.O, d, r.Max, s.name, h.Distance, hits, best)
			}
		}
	}
	return nil
}

// ----------------------------------------------------------------

func TestC16(t *testing.T) {
	vh.Drive(t, vh.Spec[Case]{Name: "octree", Quick: 400000, Thorough: 12000000, Gen: genCase, Run: runCase})
	vh.Drive(t, vh.Spec[Case]{Name: "octree-large", Quick: 160, Thorough: 6000, Gen: genLargeCase, Run: runCase})
	vh.Drive(t, vh.Spec[BVHCase]{Name: "bvh", Quick: 120000, Thorough: 3600000, Gen: genBVH, Run: runBVH})
	vh.Drive(t, vh.Spec[SphereCase]{Name: "bvh-spheres", Quick: 60000, Thorough: 1800000, Gen: genSpheres, Run: runSpheres})
}
