// Package c10 decides property C10 (parallel variants equal their sequential counterparts on
// every schedule). Built with -race: any race report while a case runs is a violation.
package c10

import (
	"fmt"
	"math"
	"runtime"
	"sort"
	"strings"
	"sync"
	"testing"
	"time"

	"github.com/EliCDavis/polyform/math/geometry"
	"github.com/EliCDavis/polyform/math/sample"
	"github.com/EliCDavis/polyform/modeling"
	"github.com/EliCDavis/polyform/modeling/marching"
	"github.com/EliCDavis/vector/vector2"
	"github.com/EliCDavis/vector/vector3"
	"pgregory.net/rapid"

	"verifharness/internal/oracle"
	"verifharness/internal/vh"
)

func TestMain(m *testing.M) {
	vh.Main(m, vh.Meta{
		ID:    "C10",
		Level: "exploration",
		Rule: "(scan-modify) rapid-generated element count 0..200 (incl. fewer elements than workers and non-multiples of the pool), pool size 1..33, topology triangle/point/line-strip, non-identity indices for points: ScanPrimitivesParallelWithPoolSize, Scan/ModifyFloat{1,2,3}AttributeParallelWithPoolSize and the NumCPU-sized variants; oracle: every index 0..n-1 visited exactly once with its own element, Modify*Parallel bit-identical to the sequential result. " +
			"(marching) asymmetric sphere+box+capsule unions inside one block or straddling 1..3 block boundaries (thorough: up to 8 blocks): AddFieldParallel / AddFieldParallel2 then March, and AddField then MarchParallel, must give the triangle multiset of AddField+March (triangles keyed by the weld key of their corners, cyclic order preserved). " +
			"The whole binary is race-instrumented (go test -race) and each case is repeated; the driver re-runs the campaign under taskset masks (all CPUs, 3 CPUs; thorough also 1 and 7) so the NumCPU-sized worker pools vary. Any race report is a violation. Non-trivial = n not divisible by the pool or n < pool; field spans >= 2 blocks. Distinct by case JSON. " +
			"Marching fields carry 1..3 float1 functions; " +
			" (unsupported-topology) line, line-loop and quad meshes, enumerated: the parallel primitive scan must report failure recoverably as the sequential one does - decided in a child process, every case non-trivial. Marching cases without extra functions also add the field to a canvas that already holds a small ball (2xAddFieldParallel, AddField+AddFieldParallel2) and compare with the sequential accumulation. one case in four is a ball clipped by its own domain on the last sample layer of a storage block (non-trivial).",
		Assumptions: []string{
			"real threads: the harness does not own the schedule; visit counts and outputs are exact on every run, interleavings are sampled, the race detector is schedule-independent for unsynchronised accesses that overlap at all",
			"user callbacks are race-free (they only touch their own slot or take a mutex)",
		},
	})
}

// ---------------------------------------------------------------- scans and modifies

type ScanCase struct {
	N    int // primitives
	Pool int
	Topo int
	Perm bool // point clouds: non-identity index list (reversed)
	Reps int
}

func genScan(t *rapid.T) ScanCase {
	c := ScanCase{Pool: rapid.IntRange(1, 33).Draw(t, "pool"), Topo: rapid.SampledFrom([]int{int(modeling.TriangleTopology), int(modeling.PointTopology), int(modeling.LineStripTopology)}).Draw(t, "topo"),
		Perm: rapid.Bool().Draw(t, "perm"), Reps: rapid.IntRange(1, 3).Draw(t, "reps")}
	switch rapid.IntRange(0, 3).Draw(t, "nk") {
	case 0:
		c.N = rapid.IntRange(0, c.Pool).Draw(t, "nSmall") // fewer elements than workers
	case 1:
		c.N = c.Pool*rapid.IntRange(0, 5).Draw(t, "mult") + rapid.IntRange(0, c.Pool-1+1).Draw(t, "rem")
	default:
		c.N = rapid.IntRange(0, 200).Draw(t, "n")
	}
	return c
}

func runScan(c ScanCase, o *vh.Obs) *vh.Failure {
	if c.Pool < 1 || c.N < 0 {
		return nil
	}
	topo := modeling.Topology(c.Topo)
	size := 1
	if topo == modeling.TriangleTopology {
		size = 3
	}
	cnt := c.N * size
	if topo == modeling.LineStripTopology {
		cnt = c.N + 1 // n segments need n+1 points
		if c.N == 0 {
			cnt = 0
		}
	}
	idx := make([]int, cnt)
	pos := make([]vector3.Float64, cnt)
	uv := make([]vector2.Float64, cnt)
	f1 := make([]float64, cnt)
	for i := range idx {
		idx[i] = i
		if c.Perm && topo == modeling.PointTopology {
			idx[i] = cnt - 1 - i
		}
		pos[i] = vector3.New(float64(i), 1, 2)
		uv[i] = vector2.New(float64(i), 3)
		f1[i] = float64(i) * 2
	}
	m := modeling.NewMesh(topo, idx)
	if cnt > 0 {
		m = m.SetFloat3Attribute(modeling.PositionAttribute, pos).SetFloat2Attribute(modeling.TexCoordAttribute, uv).SetFloat1Attribute("f", f1)
	}
	prims := c.N
	if cnt == 0 {
		prims = 0
	}
	if topo == modeling.LineStripTopology && cnt == 0 {
		return nil // an empty line strip has -1 primitives by the library's own count; not part of the property
	}
	o.Class("scan/" + topo.String())
	if prims%c.Pool != 0 || prims < c.Pool {
		o.NonTrivial()
		if prims < c.Pool {
			o.Class("scan/fewer-elements-than-workers")
		} else {
			o.Class("scan/not-divisible")
		}
	}
	for rep := 0; rep < max(1, c.Reps); rep++ {
		var mu sync.Mutex
		seen := map[int]int{}
		var wrong []string
		scan := func(pool int, name string) *vh.Failure {
			seen = map[int]int{}
			cb := func(i int, p modeling.Primitive) {
				var got float64
				if cnt > 0 {
					got = p.BoundingBox(modeling.PositionAttribute).Min().X()
				}
				mu.Lock()
				seen[i]++
				want := float64(i * size)
				if topo == modeling.PointTopology && c.Perm {
					want = float64(cnt - 1 - i)
				}
				if cnt > 0 && got != want {
					wrong = append(wrong, fmt.Sprintf("primitive %d sees the element starting at vertex %v, want %v", i, got, want))
				}
				mu.Unlock()
			}
			if kind, val := oracle.Try(func() {
				if pool > 0 {
					m.ScanPrimitivesParallelWithPoolSize(pool, cb)
				} else {
					m.ScanPrimitivesParallel(cb)
				}
			}); kind != "" {
				return vh.Failf(name+"/panic-"+kind, "%s panicked with %d primitives, pool %d: %v", name, prims, pool, val)
			}
			if len(wrong) > 0 {
				sort.Strings(wrong)
				return vh.Failf(name+"/wrong-element", "%s (pool %d, %d primitives): %s", name, pool, prims, wrong[0])
			}
			for i := 0; i < prims; i++ {
				if seen[i] != 1 {
					return vh.Failf(name+"/visit-count", "%s with %d primitives and pool %d: primitive %d visited %d times (%d distinct primitives visited)", name, prims, pool, i, seen[i], len(seen))
				}
			}
			if len(seen) != prims {
				return vh.Failf(name+"/extra-visits", "%s visited %d distinct indices for %d primitives", name, len(seen), prims)
			}
			return nil
		}
		if f := scan(c.Pool, "ScanPrimitivesParallelWithPoolSize"); f != nil {
			return f
		}
		if f := scan(0, "ScanPrimitivesParallel"); f != nil {
			return f
		}
		if cnt == 0 {
			continue
		}
		seen3, seen2, seen1 := make([]int, cnt), make([]int, cnt), make([]int, cnt)
		bad := ""
		m.ScanFloat3AttributeParallelWithPoolSize(modeling.PositionAttribute, c.Pool, func(i int, v vector3.Float64) {
			mu.Lock()
			if v.X() != float64(i) {
				bad = fmt.Sprintf("ScanFloat3 index %d got %v", i, v)
			}
			seen3[i]++
			mu.Unlock()
		})
		m.ScanFloat2AttributeParallelWithPoolSize(modeling.TexCoordAttribute, c.Pool, func(i int, v vector2.Float64) {
			mu.Lock()
			if v.X() != float64(i) {
				bad = fmt.Sprintf("ScanFloat2 index %d got %v", i, v)
			}
			seen2[i]++
			mu.Unlock()
		})
		m.ScanFloat1AttributeParallelWithPoolSize("f", c.Pool, func(i int, v float64) {
			mu.Lock()
			if v != float64(i)*2 {
				bad = fmt.Sprintf("ScanFloat1 index %d got %v", i, v)
			}
			seen1[i]++
			mu.Unlock()
		})
		// the NumCPU-sized variants
		m.ScanFloat3AttributeParallel(modeling.PositionAttribute, func(i int, v vector3.Float64) {
			mu.Lock()
			if v.X() != float64(i) {
				bad = fmt.Sprintf("ScanFloat3AttributeParallel index %d got %v", i, v)
			}
			seen3[i] += 10
			mu.Unlock()
		})
		m.ScanFloat2AttributeParallel(modeling.TexCoordAttribute, func(i int, v vector2.Float64) {
			mu.Lock()
			if v.X() != float64(i) {
				bad = fmt.Sprintf("ScanFloat2AttributeParallel index %d got %v", i, v)
			}
			seen2[i] += 10
			mu.Unlock()
		})
		m.ScanFloat1AttributeParallel("f", func(i int, v float64) {
			mu.Lock()
			if v != float64(i)*2 {
				bad = fmt.Sprintf("ScanFloat1AttributeParallel index %d got %v", i, v)
			}
			seen1[i] += 10
			mu.Unlock()
		})
		if bad != "" {
			return vh.Failf("attribute-scan/wrong-element", "%s (pool %d, %d elements)", bad, c.Pool, cnt)
		}
		for i := 0; i < cnt; i++ {
			if seen3[i] != 11 || seen2[i] != 11 || seen1[i] != 11 {
				return vh.Failf("attribute-scan/visit-count", "pool %d, %d elements: element %d visited %d/%d/%d times by the Float3/2/1 scans (units: WithPoolSize variant, tens: NumCPU variant; want 11)", c.Pool, cnt, i, seen3[i], seen2[i], seen1[i])
			}
		}
		f3 := func(i int, v vector3.Float64) vector3.Float64 { return v.Scale(float64(i) + 0.5) }
		f2 := func(i int, v vector2.Float64) vector2.Float64 { return v.Scale(float64(i) + 0.5) }
		ff := func(i int, v float64) float64 { return v + float64(i) }
		pairs := [][2]modeling.Mesh{
			{m.ModifyFloat3AttributeParallelWithPoolSize(modeling.PositionAttribute, c.Pool, f3), m.ModifyFloat3Attribute(modeling.PositionAttribute, f3)},
			{m.ModifyFloat3AttributeParallel(modeling.PositionAttribute, f3), m.ModifyFloat3Attribute(modeling.PositionAttribute, f3)},
			{m.ModifyFloat2AttributeParallelWithPoolSize(modeling.TexCoordAttribute, c.Pool, f2), m.ModifyFloat2Attribute(modeling.TexCoordAttribute, f2)},
			{m.ModifyFloat2AttributeParallel(modeling.TexCoordAttribute, f2), m.ModifyFloat2Attribute(modeling.TexCoordAttribute, f2)},
			{m.ModifyFloat1AttributeParallelWithPoolSize("f", c.Pool, ff), m.ModifyFloat1Attribute("f", ff)},
			{m.ModifyFloat1AttributeParallel("f", ff), m.ModifyFloat1Attribute("f", ff)},
		}
		for k, p := range pairs {
			if a, b := oracle.Snapshot(p[0]), oracle.Snapshot(p[1]); a != b {
				return vh.Failf(fmt.Sprintf("modify-parallel-differs/%d", k), "parallel modify variant %d differs from the sequential result (pool %d, %d elements): %s", k, c.Pool, cnt, oracle.DiffSnap(b, a))
			}
		}
	}
	if r := vh.RaceReport(); r != "" {
		return vh.RaceFailure(r)
	}
	return nil
}

// ---------------------------------------------------------------- marching

type MarchCase struct {
	CPU    float64
	Anchor [3]int  // block-boundary multiples
	Half   [3]bool // middle of the block on that axis
	Off    [3]float64
	R      float64
	Box    [3]float64
	End    [3]float64
	Cut    float64
	Reps   int
	// Extra: further Float1 functions of the field besides the one that is marched (a field is a set
	// of named functions; AddField samples all of them, so must the parallel variants)
	Extra int `json:",omitempty"`
	// Clip = axis+1: instead of the union, a ball whose domain ends exactly on the last sample layer
	// of a storage block on that axis (layer 99) and cuts the ball there: the neighbouring block
	// receives no sample but must exist for the cubes between layer 99 and it
	Clip int `json:",omitempty"`
}

func genMarch(t *rapid.T) MarchCase {
	c := MarchCase{CPU: math.Exp(rapid.Float64Range(math.Log(0.5), math.Log(20)).Draw(t, "logcpu")), R: rapid.Float64Range(2.5, 6).Draw(t, "r"),
		Cut: rapid.SampledFrom([]float64{0, 0.3}).Draw(t, "cut"), Reps: 1}
	straddle := 1
	if vh.Tier == "thorough" {
		straddle = 3
	}
	axes := rapid.IntRange(0, straddle).Draw(t, "axesStraddling")
	for i := 0; i < 3; i++ {
		c.Anchor[i] = rapid.IntRange(-1, 1).Draw(t, "anchor")
		c.Half[i] = i >= axes
		c.Off[i] = rapid.Float64Range(-3, 3).Draw(t, "off")
		c.Box[i] = rapid.Float64Range(3, 8).Draw(t, "box")
		c.End[i] = rapid.Float64Range(-6, 6).Draw(t, "end")
	}
	c.Extra = rapid.SampledFrom([]int{0, 0, 1, 2}).Draw(t, "extraAttributes")
	if rapid.IntRange(0, 3).Draw(t, "clipped") == 0 {
		c.Clip = rapid.IntRange(1, 3).Draw(t, "clipAxis")
		c.CPU = rapid.SampledFrom([]float64{1, 2, 0.5}).Draw(t, "clipCpu") // exact cell sizes
	}
	return c
}

func triKeys(m modeling.Mesh) []string {
	var out []string
	if m.Indices().Len() == 0 {
		return out
	}
	pos := m.Float3Attribute(modeling.PositionAttribute)
	idx := m.Indices()
	for i := 0; i+2 < idx.Len(); i += 3 {
		k := [3]string{}
		for j := 0; j < 3; j++ {
			k[j] = fmt.Sprint(modeling.Vector3ToInt(pos.At(idx.At(i+j)), 3))
		}
		best := 0
		for r := 1; r < 3; r++ {
			if k[r] < k[best] {
				best = r
			}
		}
		out = append(out, k[best]+k[(best+1)%3]+k[(best+2)%3])
	}
	sort.Strings(out)
	return out
}

func diffKeys(ref, got []string) string {
	if len(ref) != len(got) {
		return fmt.Sprintf("%d triangles, sequential result has %d", len(got), len(ref))
	}
	for i := range ref {
		if ref[i] != got[i] {
			return fmt.Sprintf("triangle multisets differ (first difference at sorted position %d: %s vs %s)", i, got[i], ref[i])
		}
	}
	return ""
}

func runMarch(c MarchCase, o *vh.Obs) *vh.Failure {
	if c.CPU <= 0 {
		return nil
	}
	cell := 1 / c.CPU
	half := func(b bool) float64 {
		if b {
			return 0.5
		}
		return 0
	}
	ctr := vector3.New(float64(c.Anchor[0])+half(c.Half[0]), float64(c.Anchor[1])+half(c.Half[1]), float64(c.Anchor[2])+half(c.Half[2])).Scale(100 * cell).
		Add(vector3.New(c.Off[0], c.Off[1], c.Off[2]).Scale(cell))
	end := ctr.Add(vector3.New(c.End[0], c.End[1], c.End[2]).Scale(cell))
	if end.Distance(ctr) < cell {
		end = ctr.Add(vector3.New(3*cell, 0, 0))
	}
	// deliberately asymmetric under any permutation of the axes
	field := marching.CombineFields(
		marching.Sphere(ctr, c.R*cell, 1),
		marching.Box(ctr.Add(vector3.New(4*cell, 1*cell, 0)), vector3.New(c.Box[0], c.Box[1], c.Box[2]).Scale(cell), 1),
		marching.Line(ctr, end, 2.5*cell, 1),
	)
	if c.Clip >= 1 && c.Clip <= 3 && (c.CPU == 1 || c.CPU == 2 || c.CPU == 0.5) {
		a := c.Clip - 1
		end := float64(100*(c.Anchor[a]+1)-1) * cell // ceil(end*cpu) = 100k-1: the last sampled layer is layer 99
		cc := [3]float64{ctr.X(), ctr.Y(), ctr.Z()}
		cc[a] = end - 1.5*cell
		centre := vector3.New(cc[0], cc[1], cc[2])
		lo := centre.Sub(vector3.Fill((c.R + 2) * cell))
		hi := centre.Add(vector3.Fill((c.R + 2) * cell))
		h := [3]float64{hi.X(), hi.Y(), hi.Z()}
		h[a] = end
		r := c.R * cell
		field = marching.Field{Domain: geometry.NewAABBFromPoints(lo, vector3.New(h[0], h[1], h[2])),
			Float1Functions: map[string]sample.Vec3ToFloat{modeling.PositionAttribute: func(p vector3.Float64) float64 { return p.Distance(centre) - r }}}
		o.Class("marching/ball-clipped-by-its-domain-on-layer-99")
		o.NonTrivial()
	}
	if c.Extra > 0 { // cheap functions: their jobs finish before the distance field's
		fns := map[string]sample.Vec3ToFloat{}
		for k, f := range field.Float1Functions {
			fns[k] = f
		}
		fns["temperature"] = func(p vector3.Float64) float64 { return p.X() + 2*p.Y() }
		if c.Extra > 1 {
			fns["density"] = func(p vector3.Float64) float64 { return 1 }
		}
		field = marching.Field{Domain: field.Domain, Float1Functions: fns, Float2Functions: field.Float2Functions, Float3Functions: field.Float3Functions}
		o.Class(fmt.Sprintf("marching/float1-functions=%d", len(fns)))
	}
	cutoff := -c.Cut * cell
	blocks := 1
	for i := 0; i < 3; i++ {
		if !c.Half[i] {
			blocks *= 2
		}
	}
	o.Class(fmt.Sprintf("marching/blocks~%d", blocks))
	o.Class(fmt.Sprintf("numcpu/%d", runtime.NumCPU()))
	if blocks >= 2 {
		o.NonTrivial()
	}
	seq := marching.NewMarchingCanvas(c.CPU)
	seq.AddField(field)
	ref := triKeys(seq.March(cutoff))
	if len(ref) == 0 {
		return vh.Failf("marching/empty-reference", "sequential marching produced no triangle")
	}
	for rep := 0; rep < max(1, c.Reps); rep++ {
		type variant struct {
			name string
			run  func() modeling.Mesh
		}
		variants := []variant{
			{"AddFieldParallel+March", func() modeling.Mesh {
				cv := marching.NewMarchingCanvas(c.CPU)
				cv.AddFieldParallel(field)
				return cv.March(cutoff)
			}},
			{"AddField+MarchParallel", func() modeling.Mesh { return seq.MarchParallel(cutoff) }},
			{"AddFieldParallel2+March", func() modeling.Mesh {
				cv := marching.NewMarchingCanvas(c.CPU)
				cv.AddFieldParallel2(field)
				return cv.March(cutoff)
			}},
			{"AddFieldParallel+MarchOnAttributeParallel", func() modeling.Mesh {
				cv := marching.NewMarchingCanvas(c.CPU)
				cv.AddFieldParallel(field)
				return cv.MarchOnAttributeParallel(modeling.PositionAttribute, cutoff)
			}},
		}
		if c.Extra == 0 && rep == 0 {
			// a canvas accumulates: a small ball first, then the whole field - the second call meets blocks
			// that exist already and (when the field reaches further) blocks that still have to be created
			first := marching.Sphere(ctr, c.R*cell, 1)
			seq2 := marching.NewMarchingCanvas(c.CPU)
			seq2.AddField(first)
			seq2.AddField(field)
			ref2 := triKeys(seq2.March(cutoff))
			o.Class("marching/second-field-on-a-canvas-that-holds-one")
			for _, v := range []variant{
				{"2xAddFieldParallel+March", func() modeling.Mesh {
					cv := marching.NewMarchingCanvas(c.CPU)
					cv.AddFieldParallel(first)
					cv.AddFieldParallel(field)
					return cv.March(cutoff)
				}},
				{"AddField,AddFieldParallel2+March", func() modeling.Mesh {
					cv := marching.NewMarchingCanvas(c.CPU)
					cv.AddField(first)
					cv.AddFieldParallel2(field)
					return cv.March(cutoff)
				}},
			} {
				var got modeling.Mesh
				if kind, val := oracle.Try(func() { got = v.run() }); kind != "" {
					return vh.Failf("marching/"+v.name+"/panic-"+kind, "%s panicked: %v", v.name, val)
				}
				if d := diffKeys(ref2, triKeys(got)); d != "" {
					return vh.Failf("marching/"+v.name+"/differs", "%s: %s (cpu %v, ~%d blocks, NumCPU %d)", v.name, d, c.CPU, blocks, runtime.NumCPU())
				}
				if r := vh.RaceReport(); r != "" {
					return vh.RaceFailure(r)
				}
			}
		}
		for _, v := range variants {
			var got modeling.Mesh
			if kind, val := oracle.Try(func() { got = v.run() }); kind != "" {
				return vh.Failf("marching/"+v.name+"/panic-"+kind, "%s panicked: %v", v.name, val)
			}
			if d := diffKeys(ref, triKeys(got)); d != "" {
				return vh.Failf("marching/"+v.name+"/differs", "%s: %s (cpu %v, ~%d blocks, NumCPU %d)", v.name, d, c.CPU, blocks, runtime.NumCPU())
			}
			if r := vh.RaceReport(); r != "" {
				return vh.RaceFailure(r)
			}
		}
	}
	return nil
}

// ---------------------------------------------------------------- many blocks / whole blocks (thorough tier)

// BlocksCase: kind "long-capsule" = a thin capsule along x placed on a y/z block edge, so that it touches
// 4*(L/100+1) storage blocks (more than 5*NumCPU under the 3-CPU mask); kind "whole-block" = a small
// sphere followed by a box whose domain covers the storage block [0,100)^3 completely.
type BlocksCase struct {
	Kind string
	L    int // capsule length in cells
}

func runBlocks(c BlocksCase, o *vh.Obs) *vh.Failure {
	var fields []marching.Field
	switch c.Kind {
	case "long-capsule":
		fields = []marching.Field{marching.Line(vector3.New(5., 100, 100), vector3.New(5+float64(c.L), 100.3, 99.8), 3, 1)}
	case "whole-block":
		fields = []marching.Field{marching.Sphere(vector3.New(30., 40, 96.5), 6, 1), marching.Box(vector3.New(50., 50, 50), vector3.New(99., 99, 99), 1)}
	default:
		return nil
	}
	o.NonTrivial()
	o.Class("blocks/" + c.Kind)
	o.Class(fmt.Sprintf("numcpu/%d", runtime.NumCPU()))
	seq := marching.NewMarchingCanvas(1)
	for _, f := range fields {
		seq.AddField(f)
	}
	ref := triKeys(seq.March(-0.5))
	if len(ref) == 0 {
		return vh.Failf("blocks/empty-reference", "sequential marching produced no triangle")
	}
	variants := map[string]func() modeling.Mesh{
		"AddField+MarchParallel": func() modeling.Mesh { return seq.MarchParallel(-0.5) },
		"AddFieldParallel+March": func() modeling.Mesh {
			cv := marching.NewMarchingCanvas(1)
			for _, f := range fields {
				cv.AddFieldParallel(f)
			}
			return cv.March(-0.5)
		},
		"AddFieldParallel2+March": func() modeling.Mesh {
			cv := marching.NewMarchingCanvas(1)
			for _, f := range fields {
				cv.AddFieldParallel2(f)
			}
			return cv.March(-0.5)
		},
	}
	for _, name := range []string{"AddField+MarchParallel", "AddFieldParallel+March", "AddFieldParallel2+March"} {
		var got modeling.Mesh
		if kind, val := oracle.Try(func() { got = variants[name]() }); kind != "" {
			return vh.Failf("blocks/"+name+"/panic-"+kind, "%s panicked: %v", name, val)
		}
		if d := diffKeys(ref, triKeys(got)); d != "" {
			return vh.Failf("blocks/"+name+"/differs", "%s (%s): %s (NumCPU %d)", name, c.Kind, d, runtime.NumCPU())
		}
		if r := vh.RaceReport(); r != "" {
			return vh.RaceFailure(r)
		}
	}
	return nil
}

// ---------------------------------------------------------------- topologies the scans do not implement

// UnsupCase: the primitive scans implement triangles, points and line strips. For every other
// topology the sequential ScanPrimitives reports failure (a panic carrying an error, which the caller
// can recover). The parallel entry point has to have the same observable result; whether it does
// is decided in a child process, because a panic on one of its worker goroutines ends the program.
type UnsupCase struct {
	Topo int
	Pool int
	N    int // indices
}

func unsupMesh(c UnsupCase) modeling.Mesh {
	idx := make([]int, c.N)
	pos := make([]vector3.Float64, c.N)
	for i := range idx {
		idx[i] = i
		pos[i] = vector3.New(float64(i), 1, 2)
	}
	return modeling.NewMesh(modeling.Topology(c.Topo), idx).SetFloat3Attribute(modeling.PositionAttribute, pos)
}

func scanOutcome(f func()) (out string) {
	defer func() {
		if r := recover(); r != nil {
			if _, isRuntime := r.(runtime.Error); isRuntime {
				out = fmt.Sprintf("crash: %v", r)
				return
			}
			out = "reported"
		}
	}()
	f()
	return "returned"
}

func runUnsup(c UnsupCase, o *vh.Obs) *vh.Failure {
	topo := modeling.Topology(c.Topo)
	o.Class("unsupported/" + topo.String())
	o.NonTrivial()
	m := unsupMesh(c)
	seq := scanOutcome(func() { m.ScanPrimitives(func(i int, p modeling.Primitive) {}) })
	if seq != "reported" {
		// the table of implemented topologies changed: this sub-check only speaks about unimplemented ones
		o.Count("sequential-scan-"+seq, 1)
		return nil
	}
	code, txt := vh.Child("unsup", c, 2*time.Minute)
	if code == -1 {
		o.Count("child-not-run", 1)
		return nil
	}
	if code != 0 || !strings.Contains(txt, "CHILD-RESULT reported") {
		tail := txt
		if len(tail) > 600 {
			tail = tail[:600]
		}
		return vh.Failf("scan-parallel/unsupported-topology/"+topo.String(), "ScanPrimitives on a %s mesh reports failure (recoverable); ScanPrimitivesParallelWithPoolSize(%d) in a child process: exit %d\n%s", topo.String(), c.Pool, code, tail)
	}
	return nil
}

func TestChild(t *testing.T) {
	var c UnsupCase
	if !vh.IsChild("unsup", &c) {
		return
	}
	m := unsupMesh(c)
	fmt.Println("CHILD-RESULT " + scanOutcome(func() { m.ScanPrimitivesParallelWithPoolSize(c.Pool, func(i int, p modeling.Primitive) {}) }))
}

func TestC10(t *testing.T) {
	vh.Drive(t, vh.Spec[ScanCase]{Name: "scan-modify", Quick: 4000, Thorough: 120000, Gen: genScan, Run: runScan})
	{
		var cases []UnsupCase
		for _, topo := range []modeling.Topology{modeling.LineTopology, modeling.LineLoopTopology, modeling.QuadTopology} {
			for _, pool := range []int{2, 5} {
				cases = append(cases, UnsupCase{Topo: int(topo), Pool: pool, N: 8})
			}
		}
		vh.Enumerate(t, vh.Spec[UnsupCase]{Name: "unsupported-topology", Run: runUnsup, Deadline: 5 * time.Minute}, cases)
	}
	vh.Drive(t, vh.Spec[MarchCase]{Name: "marching", Quick: 6, Thorough: 320, Gen: genMarch, Run: runMarch, Deadline: 3 * time.Minute})
	if vh.Tier == "thorough" || vh.Replay != "" {
		// 20+ blocks of 8 MB and 10^6 cube visits each under the race detector: minutes per case
		vh.Enumerate(t, vh.Spec[BlocksCase]{Name: "marching-blocks", Run: runBlocks, Deadline: 15 * time.Minute},
			[]BlocksCase{{Kind: "whole-block"}, {Kind: "long-capsule", L: 420}, {Kind: "long-capsule", L: 2050}})
	}
}
