// Package c17 decides property C17 (transform types obey their algebra).
package c17

import (
	"fmt"
	"math"
	"testing"

	"github.com/EliCDavis/polyform/math/geometry"
	"github.com/EliCDavis/polyform/math/mat"
	"github.com/EliCDavis/polyform/math/quaternion"
	"github.com/EliCDavis/polyform/math/trs"
	"github.com/EliCDavis/polyform/modeling"
	"github.com/EliCDavis/vector/vector3"
	"pgregory.net/rapid"

	"verifharness/internal/gen"
	"verifharness/internal/vh"
)

func TestMain(m *testing.M) {
	vh.Main(m, vh.Meta{
		ID:    "C17",
		Level: "exploration",
		Rule: "rapid-generated vectors (12 orders of magnitude), unit/non-unit axes, angles, unit quaternions (axis-angle products), " +
			"direction pairs incl. exactly and nearly (anti)parallel, 4x4 matrices (random, basis, well-conditioned), TRS triples, boxes; " +
			"oracles are loop-written reference formulas (Rodrigues rotation, row-by-column product, cofactor determinant, clamp). " +
			"Non-trivial = non-axis-aligned rotation / non-symmetric matrix / anisotropic scale / point outside the box; distinct by case JSON. " +
			"The 256 basis-matrix pairs for Add/Multiply are enumerated exhaustively (both are (bi)linear in the entries).",
		Assumptions: []string{
			"tolerances are proportional to operand magnitude (1e-9 relative unless stated)",
			"RotationTo is only specified for unit directions (its callers normalise); within 1e-6 of (anti)parallel it is allowed the 2e-3 angular slack of its documented threshold",
			"inverse laws are checked on matrices whose determinant is well away from 0 relative to the product of row norms",
		},
	})
}

type V3 = [3]float64

func v(a V3) vector3.Float64  { return vector3.New(a[0], a[1], a[2]) }
func av(a vector3.Float64) V3 { return V3{a.X(), a.Y(), a.Z()} }
func norm(a V3) float64       { return math.Sqrt(a[0]*a[0] + a[1]*a[1] + a[2]*a[2]) }
func sub(a, b V3) V3          { return V3{a[0] - b[0], a[1] - b[1], a[2] - b[2]} }
func add(a, b V3) V3          { return V3{a[0] + b[0], a[1] + b[1], a[2] + b[2]} }
func scl(a V3, s float64) V3  { return V3{a[0] * s, a[1] * s, a[2] * s} }
func dot(a, b V3) float64     { return a[0]*b[0] + a[1]*b[1] + a[2]*b[2] }
func cross(a, b V3) V3 {
	return V3{a[1]*b[2] - a[2]*b[1], a[2]*b[0] - a[0]*b[2], a[0]*b[1] - a[1]*b[0]}
}
func unit(a V3) V3 { return scl(a, 1/norm(a)) }
func finite(a V3) bool {
	for _, x := range a {
		if math.IsNaN(x) || math.IsInf(x, 0) {
			return false
		}
	}
	return true
}

// Rodrigues rotation of p about unit axis k by angle th: the independent reference.
func rodrigues(p, k V3, th float64) V3 {
	c, s := math.Cos(th), math.Sin(th)
	return add(add(scl(p, c), scl(cross(k, p), s)), scl(k, dot(k, p)*(1-c)))
}

// ---------------------------------------------------------------- quaternions

type AxisAngle struct {
	Axis  V3
	Theta float64
}

type QuatCase struct {
	Rots []AxisAngle // q = q1*q2*...  (1..3)
	P    V3
}

func genAxisAngle(t *rapid.T, label string) AxisAngle {
	ax := gen.Dir(t, label+".axis")
	if rapid.Bool().Draw(t, label+".nonunit") {
		ax = scl(ax, math.Pow(10, rapid.Float64Range(-3, 3).Draw(t, label+".len")))
	}
	var th float64
	switch rapid.IntRange(0, 5).Draw(t, label+".tk") {
	case 0:
		th = float64(rapid.IntRange(-4, 4).Draw(t, label+".q")) * math.Pi / 2
	default:
		th = rapid.Float64Range(-2*math.Pi, 2*math.Pi).Draw(t, label+".theta")
	}
	return AxisAngle{ax, th}
}

func genQuat(t *rapid.T) QuatCase {
	n := rapid.IntRange(1, 3).Draw(t, "nrot")
	c := QuatCase{}
	for i := 0; i < n; i++ {
		c.Rots = append(c.Rots, genAxisAngle(t, fmt.Sprintf("r%d", i)))
	}
	c.P = gen.Vec3(t, gen.Mag(-6, 6), "p")
	return c
}

func runQuat(c QuatCase, o *vh.Obs) *vh.Failure {
	if len(c.Rots) == 0 {
		return nil
	}
	p := c.P
	scale := norm(p)
	tol := 1e-9 * (scale + 1e-300)
	// composition: (q1*q2*..*qn).Rotate(p) == q1.Rotate(q2.Rotate(...qn.Rotate(p)))
	q := quaternion.FromTheta(c.Rots[0].Theta, v(c.Rots[0].Axis))
	for _, r := range c.Rots[1:] {
		q = q.Multiply(quaternion.FromTheta(r.Theta, v(r.Axis)))
	}
	want := p
	nested := v(p)
	for i := len(c.Rots) - 1; i >= 0; i-- {
		r := c.Rots[i]
		want = rodrigues(want, unit(r.Axis), r.Theta)
		nested = quaternion.FromTheta(r.Theta, v(r.Axis)).Rotate(nested)
	}
	got := av(q.Rotate(v(p)))
	axisAligned := true
	for _, r := range c.Rots {
		u := unit(r.Axis)
		if math.Abs(math.Abs(u[0])+math.Abs(u[1])+math.Abs(u[2])-1) > 1e-12 {
			axisAligned = false
		}
	}
	if !axisAligned && scale > 0 {
		o.NonTrivial()
	}
	o.Class(fmt.Sprintf("quat/%d-rotations", len(c.Rots)))
	if !finite(got) {
		return vh.Failf("quat-rotate-nonfinite", "Rotate(%v) = %v", p, got)
	}
	if d := norm(sub(got, want)); d > tol {
		if len(c.Rots) == 1 {
			return vh.Failf("quat-fromtheta-rotate", "FromTheta(%v,%v).Rotate(%v) = %v, Rodrigues reference %v (diff %g)", c.Rots[0].Theta, c.Rots[0].Axis, p, got, want, d)
		}
		return vh.Failf("quat-compose", "product of %d rotations applied to %v = %v, reference (rightmost first) %v (diff %g)", len(c.Rots), p, got, want, d)
	}
	if d := norm(sub(av(nested), got)); d > tol {
		return vh.Failf("quat-compose-nested", "(q1*..*qn).Rotate(p)=%v but q1.Rotate(..qn.Rotate(p))=%v", got, av(nested))
	}
	if math.Abs(norm(got)-scale) > tol {
		return vh.Failf("quat-length", "|q.p| = %g, |p| = %g", norm(got), scale)
	}
	arr := q.RotateArray([]vector3.Float64{v(p), v(scl(p, 2))})
	if len(arr) != 2 || av(arr[0]) != got || norm(sub(av(arr[1]), scl(got, 2))) > 2*tol {
		return vh.Failf("quat-rotatearray", "RotateArray disagrees with Rotate: %v vs %v", arr, got)
	}
	// unit-ness of the product and Normalize idempotent on it
	if l := math.Sqrt(dot(av(q.Dir()), av(q.Dir())) + q.W()*q.W()); math.Abs(l-1) > 1e-9 {
		return vh.Failf("quat-product-not-unit", "|q1*..*qn| = %v", l)
	}
	qn := q.Normalize()
	if d := norm(sub(av(qn.Rotate(v(p))), got)); d > tol {
		return vh.Failf("quat-normalize", "Normalize changed a unit quaternion's action by %g", d)
	}
	return nil
}

// ---------------------------------------------------------------- RotationTo

type RotToCase struct {
	From, To V3 // directions (normalised before the call)
}

func genRotTo(t *rapid.T) RotToCase {
	a := gen.Dir(t, "from")
	var b V3
	switch rapid.IntRange(0, 7).Draw(t, "rel") {
	case 0:
		b = a
	case 1:
		b = scl(a, -1)
	case 2, 3: // nearly (anti)parallel
		eps := math.Pow(10, rapid.Float64Range(-9, -2).Draw(t, "eps"))
		d := gen.Dir(t, "perturb")
		s := 1.0
		if rapid.Bool().Draw(t, "anti") {
			s = -1
		}
		b = add(scl(unit(a), s), scl(d, eps))
	default:
		b = gen.Dir(t, "to")
	}
	return RotToCase{a, b}
}

func runRotTo(c RotToCase, o *vh.Obs) *vh.Failure {
	if norm(c.From) == 0 || norm(c.To) == 0 {
		return nil
	}
	a, b := unit(c.From), unit(c.To)
	d := dot(a, b)
	q := quaternion.RotationTo(v(a), v(b))
	got := av(q.Rotate(v(a)))
	cls, tol := "general", 1e-9
	if d < -0.999999 {
		cls, tol = "antiparallel", 2.5e-3
	} else if d > 0.999999 {
		cls, tol = "parallel", 2.5e-3
	}
	exact := a == b || a == scl(b, -1)
	if exact {
		cls += "-exact"
		tol = 1e-9
	}
	o.Class("rotationTo/" + cls)
	o.NonTrivial()
	if !finite(got) || math.IsNaN(q.W()) {
		return vh.Failf("rotationto-nonfinite", "RotationTo(%v,%v) = %v (w=%v): rotating from gives %v", a, b, av(q.Dir()), q.W(), got)
	}
	if e := norm(sub(got, b)); e > tol {
		return vh.Failf("rotationto-misses", "RotationTo(%v,%v) rotates from onto %v, %g away from to (class %s)", a, b, got, e, cls)
	}
	return nil
}

// ---------------------------------------------------------------- matrices

type M16 = [16]float64

func toMat(m M16) mat.Matrix4x4 {
	return mat.Matrix4x4{m[0], m[1], m[2], m[3], m[4], m[5], m[6], m[7], m[8], m[9], m[10], m[11], m[12], m[13], m[14], m[15]}
}
func fromMat(m mat.Matrix4x4) M16 {
	return M16{m.X00, m.X01, m.X02, m.X03, m.X10, m.X11, m.X12, m.X13, m.X20, m.X21, m.X22, m.X23, m.X30, m.X31, m.X32, m.X33}
}
func refMul(a, b M16) (c M16) {
	for i := 0; i < 4; i++ {
		for j := 0; j < 4; j++ {
			for k := 0; k < 4; k++ {
				c[i*4+j] += a[i*4+k] * b[k*4+j]
			}
		}
	}
	return
}
func refDet(a M16) float64 { // Gaussian elimination with partial pivoting
	var m [4][4]float64
	for i := 0; i < 16; i++ {
		m[i/4][i%4] = a[i]
	}
	det := 1.0
	for c := 0; c < 4; c++ {
		p := c
		for r := c + 1; r < 4; r++ {
			if math.Abs(m[r][c]) > math.Abs(m[p][c]) {
				p = r
			}
		}
		if m[p][c] == 0 {
			return 0
		}
		if p != c {
			m[p], m[c] = m[c], m[p]
			det = -det
		}
		det *= m[c][c]
		for r := c + 1; r < 4; r++ {
			f := m[r][c] / m[c][c]
			for k := c; k < 4; k++ {
				m[r][k] -= f * m[c][k]
			}
		}
	}
	return det
}
func maxAbs(a M16) float64 {
	x := 0.0
	for _, e := range a {
		x = math.Max(x, math.Abs(e))
	}
	return x
}
func frob(a M16) float64 {
	s := 0.0
	for _, e := range a {
		s += e * e
	}
	return math.Sqrt(s)
}
func rowNormProduct(a M16) float64 {
	p := 1.0
	for i := 0; i < 4; i++ {
		s := 0.0
		for j := 0; j < 4; j++ {
			s += a[i*4+j] * a[i*4+j]
		}
		p *= math.Sqrt(s)
	}
	return p
}

type MatCase struct {
	A, B M16
	P    V3
}

func genM16(t *rapid.T, label string) M16 {
	var m M16
	kind := rapid.IntRange(0, 3).Draw(t, label+".kind")
	g := gen.Mag(-3, 3)
	if kind == 0 {
		g = rapid.Custom(func(t *rapid.T) float64 { return float64(rapid.IntRange(-3, 3).Draw(t, "i")) })
	}
	for i := range m {
		m[i] = g.Draw(t, fmt.Sprintf("%s[%d]", label, i))
	}
	if kind == 1 { // affine: last row 0 0 0 1
		m[12], m[13], m[14], m[15] = 0, 0, 0, 1
	}
	// one matrix in five: entries of one common magnitude 1e-6..1e6 (a model in micrometres or in
	// kilometres): the determinant is then 1e-24..1e24 times that of a unit-sized matrix while the
	// matrix is as well conditioned as before - an absolute cut-off on the determinant shows here
	if rapid.Uint64().Draw(t, label+".uniformScale")%5 == 0 {
		k := math.Pow(10, float64(rapid.IntRange(-6, 6).Draw(t, label+".scale10")))
		for i := range m {
			u := float64(rapid.IntRange(-8, 8).Draw(t, fmt.Sprintf("%s.u[%d]", label, i))) / 4
			m[i] = u * k
		}
		if rapid.Bool().Draw(t, label+".affineScaled") { // scale k with a translation column
			m = M16{k, 0, 0, m[3], 0, k, 0, m[7], 0, 0, k, m[11], 0, 0, 0, 1}
		}
	}
	return m
}

func genMat(t *rapid.T) MatCase {
	return MatCase{genM16(t, "A"), genM16(t, "B"), gen.Vec3(t, gen.Mag(-3, 3), "p")}
}

func runMat(c MatCase, o *vh.Obs) *vh.Failure {
	A, B := toMat(c.A), toMat(c.B)
	sa, sb := maxAbs(c.A), maxAbs(c.B)
	sym := true
	for i := 0; i < 4; i++ {
		for j := 0; j < 4; j++ {
			if c.A[i*4+j] != c.A[j*4+i] || c.B[i*4+j] != c.B[j*4+i] {
				sym = false
			}
		}
	}
	if !sym {
		o.NonTrivial()
		o.Class("matrix/non-symmetric")
	} else {
		o.Class("matrix/symmetric")
	}
	// Add: entry-wise, exact
	S := fromMat(A.Add(B))
	for k := 0; k < 16; k++ {
		if want := c.A[k] + c.B[k]; S[k] != want {
			return vh.Failf("mat-add-entrywise", "Add: entry (%d,%d) = %v, want %v + %v = %v", k/4, k%4, S[k], c.A[k], c.B[k], want)
		}
	}
	// Multiply: row by column
	P, R := fromMat(A.Multiply(B)), refMul(c.A, c.B)
	for k := 0; k < 16; k++ {
		if math.Abs(P[k]-R[k]) > 1e-12*4*sa*sb {
			return vh.Failf("mat-multiply", "Multiply: entry (%d,%d) = %v, row-by-column reference %v", k/4, k%4, P[k], R[k])
		}
	}
	// identity laws, exact
	I := mat.Identity()
	if fromMat(A.Multiply(I)) != c.A || fromMat(I.Multiply(A)) != c.A {
		return vh.Failf("mat-identity", "A*I or I*A differs from A for A=%v", c.A)
	}
	// determinant against elimination, and multiplicativity
	dA, dB := A.Determinant(), B.Determinant()
	rnA := rowNormProduct(c.A)
	fA, fB := frob(c.A), frob(c.B)
	if math.Abs(dA-refDet(c.A)) > 1e-12*math.Pow(fA, 4)+1e-300 {
		return vh.Failf("mat-determinant", "Determinant(A)=%v, elimination reference %v, A=%v", dA, refDet(c.A), c.A)
	}
	if dAB := A.Multiply(B).Determinant(); math.Abs(dAB-dA*dB) > 1e-12*math.Pow(fA*fB, 4)+1e-300 {
		return vh.Failf("mat-det-multiplicative", "det(AB)=%v, det A det B=%v", dAB, dA*dB)
	}
	// MulPosition: reference
	mp := av(A.MulPosition(v(c.P)))
	for i := 0; i < 3; i++ {
		want := c.A[i*4]*c.P[0] + c.A[i*4+1]*c.P[1] + c.A[i*4+2]*c.P[2] + c.A[i*4+3]
		if math.Abs(mp[i]-want) > 1e-12*4*(sa*norm(c.P)+sa) {
			return vh.Failf("mat-mulposition", "MulPosition component %d = %v want %v", i, mp[i], want)
		}
	}
	// inverse laws on well-conditioned matrices
	if rnA > 0 && math.Abs(dA) > 1e-3*rnA {
		o.Class("matrix/inverse-checked")
		inv := A.Inverse()
		cond := rnA / math.Abs(dA)
		for name, prod := range map[string]M16{"A*inv(A)": fromMat(A.Multiply(inv)), "inv(A)*A": fromMat(inv.Multiply(A))} {
			for k := 0; k < 16; k++ {
				want := 0.0
				if k/4 == k%4 {
					want = 1
				}
				if math.Abs(prod[k]-want) > 1e-9*cond*cond {
					return vh.Failf("mat-inverse", "%s entry (%d,%d) = %v (A=%v)", name, k/4, k%4, prod[k], c.A)
				}
			}
		}
	}
	return nil
}

type BasisCase struct{ I, J int }

func runBasis(c BasisCase, o *vh.Obs) *vh.Failure {
	var a, b M16
	a[c.I], b[c.J] = 1, 2
	o.NonTrivial()
	o.Class("matrix/basis-pair")
	S, P := fromMat(toMat(a).Add(toMat(b))), fromMat(toMat(a).Multiply(toMat(b)))
	for k := 0; k < 16; k++ {
		if S[k] != a[k]+b[k] {
			return vh.Failf("mat-add-entrywise", "E%d + 2E%d: entry (%d,%d) = %v want %v", c.I, c.J, k/4, k%4, S[k], a[k]+b[k])
		}
		want := 0.0
		if c.I%4 == c.J/4 && k == (c.I/4)*4+c.J%4 {
			want = 2
		}
		if P[k] != want {
			return vh.Failf("mat-multiply", "E%d * 2E%d: entry (%d,%d) = %v want %v", c.I, c.J, k/4, k%4, P[k], want)
		}
	}
	return nil
}

// ---------------------------------------------------------------- TRS and mesh-level transforms

type TRSCase struct {
	T, S V3
	R    AxisAngle
	Pts  []V3
	Ctor int // 0 New, 1 Position, 2 Scale, 3 Rotation
}

func genTRS(t *rapid.T) TRSCase {
	c := TRSCase{T: gen.Vec3(t, gen.Mag(-3, 3), "T"), S: gen.Vec3(t, gen.Mag(-2, 2), "S"), R: genAxisAngle(t, "R"), Ctor: rapid.IntRange(0, 3).Draw(t, "ctor")}
	if rapid.IntRange(0, 3).Draw(t, "ctorNew") > 0 {
		c.Ctor = 0
	}
	n := rapid.IntRange(1, 6).Draw(t, "npts")
	for i := 0; i < n; i++ {
		c.Pts = append(c.Pts, gen.Vec3(t, gen.Mag(-3, 3), fmt.Sprintf("p%d", i)))
	}
	return c
}

func runTRS(c TRSCase, o *vh.Obs) *vh.Failure {
	if len(c.Pts) == 0 || norm(c.R.Axis) == 0 {
		return nil
	}
	T, S, R := c.T, c.S, c.R
	q := quaternion.FromTheta(R.Theta, v(R.Axis))
	var tr trs.TRS
	switch c.Ctor {
	case 0:
		tr = trs.New(v(T), q, v(S))
	case 1:
		tr = trs.Position(v(T))
		S, R.Theta = V3{1, 1, 1}, 0
	case 2:
		tr = trs.Scale(v(S))
		T, R.Theta = V3{}, 0
	case 3:
		tr = trs.Rotation(q)
		T, S = V3{}, V3{1, 1, 1}
	}
	o.Class(fmt.Sprintf("trs/ctor-%d", c.Ctor))
	if S[0] != S[1] || S[1] != S[2] {
		o.NonTrivial()
	}
	ref := func(p V3) V3 { // scale, then rotate, then translate
		return add(rodrigues(V3{p[0] * S[0], p[1] * S[1], p[2] * S[2]}, unit(R.Axis), R.Theta), T)
	}
	tolFor := func(p V3) float64 {
		return 1e-9 * (norm(V3{p[0] * S[0], p[1] * S[1], p[2] * S[2]}) + norm(T) + 1e-300)
	}
	in := make([]vector3.Float64, len(c.Pts))
	for i, p := range c.Pts {
		in[i] = v(p)
		if d := norm(sub(av(tr.Transform(v(p))), ref(p))); d > tolFor(p) {
			return vh.Failf("trs-transform", "TRS(T=%v,R=%v,S=%v).Transform(%v) = %v, want R(S*p)+T = %v", T, R, S, p, av(tr.Transform(v(p))), ref(p))
		}
	}
	arr := tr.TransformArray(in)
	inPlace := append([]vector3.Float64{}, in...)
	tr.TransformInPlace(inPlace)
	for i, p := range c.Pts {
		if in[i] != v(p) {
			return vh.Failf("trs-transformarray-mutates", "TransformArray changed its input")
		}
		if arr[i] != tr.Transform(v(p)) || inPlace[i] != arr[i] {
			return vh.Failf("trs-array-variants", "array/in-place variants disagree with Transform at %d", i)
		}
	}
	// Translate() moves the position only
	off := V3{1, -2, 0.5}
	t2 := tr.Translate(v(off))
	if d := norm(sub(av(t2.Transform(v(c.Pts[0]))), add(ref(c.Pts[0]), off))); d > tolFor(c.Pts[0])+1e-9*norm(off) {
		return vh.Failf("trs-translate", "TRS.Translate result is off by %g", d)
	}
	if av(tr.Position()) != T && c.Ctor != 2 && c.Ctor != 3 {
		return vh.Failf("trs-accessor", "Position() = %v want %v", av(tr.Position()), T)
	}
	// mesh level: positions move as the transform moves points, every op separately
	idx := make([]int, len(c.Pts))
	for i := range idx {
		idx[i] = i
	}
	m := modeling.NewPointCloud(nil, map[string][]vector3.Float64{modeling.PositionAttribute: in}, nil, nil, nil)
	check := func(name string, got modeling.Mesh, f func(V3) V3, tol func(V3) float64) *vh.Failure {
		it := got.Float3Attribute(modeling.PositionAttribute)
		if it.Len() != len(c.Pts) {
			return vh.Failf("mesh-"+name+"-count", "%s changed vertex count", name)
		}
		for i, p := range c.Pts {
			if d := norm(sub(av(it.At(i)), f(p))); d > tol(p) {
				return vh.Failf("mesh-"+name, "Mesh.%s vertex %d = %v, point-wise transform gives %v", name, i, av(it.At(i)), f(p))
			}
		}
		return nil
	}
	if f := check("ApplyTRS", m.ApplyTRS(tr), ref, tolFor); f != nil {
		return f
	}
	if f := check("Translate", m.Translate(v(T)), func(p V3) V3 { return add(p, T) }, func(p V3) float64 { return 1e-12 * (norm(p) + norm(T) + 1e-300) }); f != nil {
		return f
	}
	if f := check("Scale", m.Scale(v(S)), func(p V3) V3 { return V3{p[0] * S[0], p[1] * S[1], p[2] * S[2]} }, func(p V3) float64 { return 1e-12 * (norm(p)*norm(S) + 1e-300) }); f != nil {
		return f
	}
	if f := check("Rotate", m.Rotate(q), func(p V3) V3 { return rodrigues(p, unit(c.R.Axis), c.R.Theta) }, func(p V3) float64 { return 1e-9 * (norm(p) + 1e-300) }); f != nil {
		return f
	}
	return nil
}

// ---------------------------------------------------------------- boxes

type BoxCase struct {
	Center, Size V3
	Pts          []V3
	Other        [2]V3 // centre, size of a second box
	Empty        bool  // start from NewEmptyAABB / NewAABBFromPoints
	Q            V3
}

func genBox(t *rapid.T) BoxCase {
	c := BoxCase{Center: gen.Vec3(t, gen.Mag(-3, 3), "c"), Empty: rapid.Bool().Draw(t, "fromPoints"), Q: gen.Vec3(t, gen.Mag(-3, 3), "q")}
	sz := gen.Vec3(t, gen.Mag(-3, 3), "size")
	c.Size = V3{math.Abs(sz[0]), math.Abs(sz[1]), math.Abs(sz[2])}
	n := rapid.IntRange(1, 5).Draw(t, "n")
	for i := 0; i < n; i++ {
		c.Pts = append(c.Pts, gen.Vec3(t, gen.Mag(-3, 3), fmt.Sprintf("p%d", i)))
	}
	os := gen.Vec3(t, gen.Mag(-3, 3), "osize")
	c.Other = [2]V3{gen.Vec3(t, gen.Mag(-3, 3), "oc"), {math.Abs(os[0]), math.Abs(os[1]), math.Abs(os[2])}}
	return c
}

func runBox(c BoxCase, o *vh.Obs) *vh.Failure {
	if len(c.Pts) == 0 {
		return nil
	}
	mag := norm(c.Center) + norm(c.Size) + norm(c.Other[0]) + norm(c.Other[1]) + norm(c.Q)
	for _, p := range c.Pts {
		mag += norm(p)
	}
	tol := 1e-12 * (mag + 1e-300)
	inside := func(b geometry.AABB, p V3) bool {
		mn, mx := av(b.Min()), av(b.Max())
		for i := 0; i < 3; i++ {
			if p[i] < mn[i]-tol || p[i] > mx[i]+tol {
				return false
			}
		}
		return true
	}
	var box geometry.AABB
	if c.Empty {
		ps := make([]vector3.Float64, len(c.Pts))
		for i, p := range c.Pts {
			ps[i] = v(p)
		}
		box = geometry.NewAABBFromPoints(ps...)
		o.Class("box/from-points")
		// tightness: min/max equal the component-wise extremes
		for i := 0; i < 3; i++ {
			lo, hi := math.Inf(1), math.Inf(-1)
			for _, p := range c.Pts {
				lo, hi = math.Min(lo, p[i]), math.Max(hi, p[i])
			}
			if math.Abs(av(box.Min())[i]-lo) > tol || math.Abs(av(box.Max())[i]-hi) > tol {
				return vh.Failf("aabb-frompoints-tight", "NewAABBFromPoints axis %d: [%v,%v], extremes [%v,%v]", i, av(box.Min())[i], av(box.Max())[i], lo, hi)
			}
		}
	} else {
		box = geometry.NewAABB(v(c.Center), v(c.Size))
		o.Class("box/encapsulate")
		if !inside(box, c.Center) || math.Abs(av(box.Size())[0]-c.Size[0]) > tol {
			return vh.Failf("aabb-new", "NewAABB(center %v,size %v) gives min %v max %v", c.Center, c.Size, av(box.Min()), av(box.Max()))
		}
		before := box
		for _, p := range c.Pts {
			if !inside(box, p) {
				o.NonTrivial()
			}
			box.EncapsulatePoint(v(p))
		}
		if !inside(box, av(before.Min())) || !inside(box, av(before.Max())) {
			return vh.Failf("aabb-encapsulate-shrinks", "EncapsulatePoint lost part of the original box")
		}
	}
	for _, p := range c.Pts {
		if !inside(box, p) {
			return vh.Failf("aabb-encapsulate-point", "box [%v,%v] does not contain encapsulated point %v", av(box.Min()), av(box.Max()), p)
		}
	}
	other := geometry.NewAABB(v(c.Other[0]), v(c.Other[1]))
	grown := box
	grown.EncapsulateBounds(other)
	for _, p := range []V3{av(other.Min()), av(other.Max()), av(box.Min()), av(box.Max())} {
		if !inside(grown, p) {
			return vh.Failf("aabb-encapsulate-bounds", "box grown by EncapsulateBounds does not contain corner %v", p)
		}
	}
	// the idiom the renderer's hierarchy uses: start from the empty box and grow it
	empty := geometry.NewEmptyAABB()
	for _, p := range c.Pts {
		empty.EncapsulatePoint(v(p))
	}
	empty.EncapsulateBounds(other)
	for _, p := range append(append([]V3{}, c.Pts...), av(other.Min()), av(other.Max())) {
		if !inside(empty, p) {
			return vh.Failf("aabb-empty-grown", "NewEmptyAABB grown over the points and the box does not contain %v: [%v,%v]", p, av(empty.Min()), av(empty.Max()))
		}
	}
	// Expand(amount >= 0) keeps what the box contained (Intersects is an exact comparison of re-centred
	// bounds and may miss a box that touches by one ulp: not judged)
	wider := grown
	wider.Expand(math.Abs(c.Q[0]))
	for _, p := range []V3{av(grown.Min()), av(grown.Max())} {
		if !inside(wider, p) {
			return vh.Failf("aabb-expand", "Expand(%v) lost corner %v", math.Abs(c.Q[0]), p)
		}
	}
	// ClosestPoint: inside the box, and equal to the clamp reference (which is the nearest point)
	cp := av(grown.ClosestPoint(v(c.Q)))
	if !inside(grown, cp) {
		return vh.Failf("aabb-closestpoint-outside", "ClosestPoint(%v) = %v outside [%v,%v]", c.Q, cp, av(grown.Min()), av(grown.Max()))
	}
	mn, mx := av(grown.Min()), av(grown.Max())
	for i := 0; i < 3; i++ {
		want := math.Min(math.Max(c.Q[i], mn[i]), mx[i])
		if math.Abs(cp[i]-want) > tol {
			return vh.Failf("aabb-closestpoint", "ClosestPoint(%v) axis %d = %v, clamp reference %v", c.Q, i, cp[i], want)
		}
	}
	if !inside(grown, c.Q) {
		o.NonTrivial()
		o.Class("box/query-outside")
	}
	// Contains agrees with the interval test away from the faces
	clearIn, clearOut := true, false
	for i := 0; i < 3; i++ {
		if c.Q[i] < mn[i]+tol || c.Q[i] > mx[i]-tol {
			clearIn = false
		}
		if c.Q[i] < mn[i]-tol || c.Q[i] > mx[i]+tol {
			clearOut = true
		}
	}
	if got := grown.Contains(v(c.Q)); (clearIn && !got) || (clearOut && got) {
		return vh.Failf("aabb-contains", "Contains(%v) = %v for box [%v,%v]", c.Q, got, mn, mx)
	}
	return nil
}

// ----------------------------------------------------------------

func TestC17(t *testing.T) {
	vh.Drive(t, vh.Spec[QuatCase]{Name: "quat", Quick: 300000, Thorough: 1000000, Gen: genQuat, Run: runQuat})
	vh.Drive(t, vh.Spec[RotToCase]{Name: "rotationto", Quick: 300000, Thorough: 1000000, Gen: genRotTo, Run: runRotTo})
	vh.Drive(t, vh.Spec[MatCase]{Name: "matrix", Quick: 300000, Thorough: 1000000, Gen: genMat, Run: runMat})
	vh.Drive(t, vh.Spec[TRSCase]{Name: "trs", Quick: 150000, Thorough: 600000, Gen: genTRS, Run: runTRS})
	vh.Drive(t, vh.Spec[BoxCase]{Name: "box", Quick: 150000, Thorough: 600000, Gen: genBox, Run: runBox})
	var basis []BasisCase
	for i := 0; i < 16; i++ {
		for j := 0; j < 16; j++ {
			basis = append(basis, BasisCase{i, j})
		}
	}
	vh.Enumerate(t, vh.Spec[BasisCase]{Name: "matrix-basis", Run: runBasis}, basis)
}
