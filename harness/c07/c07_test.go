// Package c07 decides property C07 (binary STL round trip and size law): WriteMesh of a triangle
// mesh yields exactly 84+50n bytes whose records -- read by the harness's own record parser --
// carry the n triangles in order (float32 images of the corner positions, normalised mean of the
// corner normals), ReadMesh returns them, and Read/Write is the identity on every well-formed
// binary STL byte string.
package c07

import (
	"bytes"
	"encoding/binary"
	"fmt"
	"math"
	"os"
	"path/filepath"
	"regexp"
	"testing"

	"github.com/EliCDavis/polyform/formats/stl"
	"github.com/EliCDavis/polyform/modeling"
	"github.com/EliCDavis/polyform/nodes"
	"pgregory.net/rapid"

	"verifharness/internal/gen"
	"verifharness/internal/oracle"
	"verifharness/internal/rdr"
	"verifharness/internal/vh"
)

func TestMain(m *testing.M) {
	vh.Main(m, vh.Meta{
		ID:    "C07",
		Level: "exploration",
		Rule: "sub-check mesh-roundtrip: rapid-generated well-formed triangle meshes (0..8 vertices, 0..6 triangles, identity or arbitrary index lists incl. shared, repeated and unreferenced vertices, duplicated position rows, " +
			"Position always, Normal/Color/TexCoord optional, values k/8 or 60 orders of magnitude, plus the attribute-less empty mesh); the expected records are computed from the case description alone " +
			"(never through polyform accessors) and compared with the harness's own parse of the written bytes, with ReadMesh, with Read/Write and with WriteMesh(ReadMesh). " +
			"Sub-check bytes-roundtrip: rapid-generated well-formed binary STL byte strings (80 header bytes: zero, 'solid ...' text or arbitrary; 0..5 records of finite float32 incl. -0, denormals and +-MaxFloat32; " +
			"normals zero / unit / arbitrary; attribute words 0 or arbitrary) through Read, Write(Read), ReadMesh and WriteMesh(ReadMesh). " +
			"Non-trivial = mesh with >= 2 triangles and a non-identity index list, or a byte string with >= 1 record and a non-zero attribute word; distinct by case JSON. " +
			"Sub-check count-sweep (exhaustive along the size axis): EVERY record count 1..3000 (quick) / 1..45 000 (thorough) once, on a recipe-built byte string without normals, judged by the bytes-roundtrip oracle " +
			"(a block-wise loop that mishandles counts that are exact multiples of its block size cannot hide between sampled counts); every case non-trivial, distinct by count. " +
			"Sub-checks large (81..131 072 records; every case non-trivial), short-read reader behaviours in every sub-check, and concurrent-*: every concurrent-* case (2-5 bundled cases run at the same time after each passed alone) is non-trivial.",
		Assumptions: []string{
			"meshes carry a Position attribute (the attribute-less empty mesh is the only exception): STL has nothing to say about a triangle without positions",
			"attribute values are finite and inside the float32 range (|x| <= 1e30 generated), so that 'rounded to float32' is a finite number",
			"a facet normal is only judged when the sum of the three corner normals is longer than 1e-6 of the longest of them (below that the normalised mean is dominated by cancellation or is 0/0) and the longest is at least 1e-30 (below that squared lengths underflow float64; generated non-zero magnitudes are in [1e-31, 1e30])",
			"the geometric normal of a record is only judged when |e1 x e2| > 1e-6 |e1| |e2| (degenerate and sliver triangles have no stable normal)",
			"for a mesh without normals the record normal may be zero (the STL convention for 'derive it') or the geometric normal; ReadMesh may omit the Normal attribute when no record stores one",
			"unit normals are compared within 1e-6 absolute per component (float32 storage), positions bit-exactly",
			"raw byte strings contain finite floats only (NaN payloads are not required to survive a float32 load/store)",
		},
	})
}

// ---------------------------------------------------------------- the harness's own STL parser

type rec struct {
	N    [3]float32
	V    [3][3]float32
	Attr uint16
}

type parsed struct {
	Header []byte
	Count  uint32
	Recs   []rec
}

// parseSTL reads a binary STL byte string: 80 header bytes, little-endian uint32 count, count
// records of 12 little-endian float32 (normal, v1, v2, v3) plus a uint16 attribute word.
func parseSTL(b []byte) (parsed, error) {
	if len(b) < 84 {
		return parsed{}, fmt.Errorf("%d bytes: shorter than header and count field", len(b))
	}
	p := parsed{Header: b[:80], Count: binary.LittleEndian.Uint32(b[80:84])}
	if uint64(len(b)) != 84+50*uint64(p.Count) {
		return p, fmt.Errorf("count field says %d records (%d bytes) but the string has %d bytes", p.Count, 84+50*uint64(p.Count), len(b))
	}
	f := func(off int) float32 { return math.Float32frombits(binary.LittleEndian.Uint32(b[off:])) }
	for i := 0; i < int(p.Count); i++ {
		o := 84 + 50*i
		var r rec
		for k := 0; k < 3; k++ {
			r.N[k] = f(o + 4*k)
			for c := 0; c < 3; c++ {
				r.V[c][k] = f(o + 12 + 12*c + 4*k)
			}
		}
		r.Attr = binary.LittleEndian.Uint16(b[o+48:])
		p.Recs = append(p.Recs, r)
	}
	return p, nil
}

func f32bits(x float32) uint32 { return math.Float32bits(x) }

// same64: identical bit pattern, or both NaN (NaN payloads are not part of the contract).
func same64(a, b float64) bool {
	return math.Float64bits(a) == math.Float64bits(b) || (math.IsNaN(a) && math.IsNaN(b))
}

// recsFinite reports whether every float of every record is finite.
func recsFinite(p parsed) bool {
	for _, r := range p.Recs {
		for _, v := range [][3]float32{r.N, r.V[0], r.V[1], r.V[2]} {
			if !vfin(to64(v)) {
				return false
			}
		}
	}
	return true
}

func isZero3(n [3]float32) bool { return n[0] == 0 && n[1] == 0 && n[2] == 0 }

type v3 = [3]float64

func vsub(a, b v3) v3 { return v3{a[0] - b[0], a[1] - b[1], a[2] - b[2]} }
func vcross(a, b v3) v3 {
	return v3{a[1]*b[2] - a[2]*b[1], a[2]*b[0] - a[0]*b[2], a[0]*b[1] - a[1]*b[0]}
}
func vlen(a v3) float64 { return math.Sqrt(a[0]*a[0] + a[1]*a[1] + a[2]*a[2]) }
func vfin(a v3) bool {
	for _, x := range a {
		if math.IsNaN(x) || math.IsInf(x, 0) {
			return false
		}
	}
	return true
}
func to64(a [3]float32) v3 { return v3{float64(a[0]), float64(a[1]), float64(a[2])} }

const normalTol = 1e-6

// closeUnit: every component within normalTol (false when anything is NaN).
func closeUnit(got, want v3) bool {
	for k := 0; k < 3; k++ {
		if !(math.Abs(got[k]-want[k]) <= normalTol) {
			return false
		}
	}
	return true
}

// geoNormal is the unit normal (v2-v1)x(v3-v1) of float32 corners computed in float64; ok is
// false inside the don't-care band (degenerate or sliver triangle).
func geoNormal(v [3][3]float32) (n v3, ok bool) {
	e1, e2 := vsub(to64(v[1]), to64(v[0])), vsub(to64(v[2]), to64(v[0]))
	c := vcross(e1, e2)
	l := vlen(c)
	if !vfin(c) || !(l > 1e-6*vlen(e1)*vlen(e2)) || l == 0 || math.IsInf(l, 0) {
		return v3{}, false
	}
	return v3{c[0] / l, c[1] / l, c[2] / l}, true
}

// unitOf normalises a stored normal; ok false when it has no direction.
func unitOf(n v3) (v3, bool) {
	l := vlen(n)
	if !vfin(n) || l == 0 || math.IsInf(l, 0) || math.IsNaN(l) {
		return v3{}, false
	}
	return v3{n[0] / l, n[1] / l, n[2] / l}, true
}

// ---------------------------------------------------------------- sub-check 1: meshes

type MeshCase struct {
	M gen.MeshDesc
	// Reader selects how bytes are handed to the decoder (internal/rdr): 0 bytes.Reader, 1 one byte
	// per Read, 2 half of the request, 3 chunks of 7 bytes, 4 data with the final error, 5 small bufio
	Reader int `json:",omitempty"`
}

var meshAttrs = []gen.AttrSpec{
	{Name: modeling.PositionAttribute, Arity: 3}, {Name: modeling.NormalAttribute, Arity: 3},
	{Name: modeling.ColorAttribute, Arity: 3}, {Name: modeling.TexCoordAttribute, Arity: 2},
}

func meshVal() *rapid.Generator[float64] {
	wide := gen.Mag(-30, 30)
	return rapid.Custom(func(t *rapid.T) float64 {
		switch rapid.IntRange(0, 7).Draw(t, "vk") {
		case 0:
			return wide.Draw(t, "wide")
		case 1:
			x := rapid.Float64Range(-1e3, 1e3).Draw(t, "vf")
			if math.Abs(x) < 1e-30 { // keep squares of lengths inside float64's normal range
				x = 0
			}
			return x
		}
		return float64(rapid.IntRange(-32, 32).Draw(t, "v8")) / 8
	})
}

// genReader: two cases in three use a bytes.Reader, the others one of the short-read behaviours.
func genReader(t *rapid.T) int {
	if rapid.IntRange(0, 2).Draw(t, "shortReads") != 0 {
		return 0
	}
	return rapid.IntRange(1, rdr.Modes-1).Draw(t, "reader")
}

func readerOK(mode int) bool { return mode >= 0 && mode < rdr.Modes }

func genMesh(t *rapid.T) MeshCase {
	if rapid.IntRange(0, 39).Draw(t, "empty") == 0 {
		return MeshCase{M: gen.MeshDesc{Topo: int(modeling.TriangleTopology), Idx: []int{}}}
	}
	c := MeshCase{M: gen.Mesh(t, gen.MeshOpts{
		Topos:   []modeling.Topology{modeling.TriangleTopology},
		NeedPos: true, DupPos: true, MaxN: 8, MaxPrims: 6,
		Val: meshVal(), Attrs: meshAttrs,
	}, "m")}
	c.Reader = genReader(t)
	return c
}

// inDomainMesh checks that a (possibly hand-written) case is inside the quantifier.
func inDomainMesh(d gen.MeshDesc) bool {
	if d.Topology() != modeling.TriangleTopology || len(d.Idx)%3 != 0 {
		return false
	}
	pos, hasPos := d.V3[modeling.PositionAttribute]
	if !hasPos {
		return d.N == 0 && len(d.Idx) == 0 && d.AttrCount() == 0
	}
	if len(pos) != d.N {
		return false
	}
	for _, x := range d.Idx {
		if x < 0 || x >= d.N {
			return false
		}
	}
	for _, rows := range d.V3 {
		if len(rows) != d.N {
			return false
		}
		for _, r := range rows {
			for _, x := range r {
				if math.IsNaN(float64(x)) || math.Abs(float64(x)) > 1e30 {
					return false
				}
			}
		}
	}
	for _, rows := range d.V1 {
		if len(rows) != d.N {
			return false
		}
	}
	for _, rows := range d.V2 {
		if len(rows) != d.N {
			return false
		}
	}
	for _, rows := range d.V4 {
		if len(rows) != d.N {
			return false
		}
	}
	return true
}

func row64(r [3]gen.F) v3 { return v3{float64(r[0]), float64(r[1]), float64(r[2])} }

func runMesh(c MeshCase, o *vh.Obs) *vh.Failure {
	d := c.M
	if !inDomainMesh(d) || !readerOK(c.Reader) {
		o.Class("out-of-domain")
		return nil
	}
	if c.Reader != 0 {
		o.Class("reader/short-reads")
	}
	n := len(d.Idx) / 3
	pos := d.V3[modeling.PositionAttribute]
	nrm, hasNrm := d.V3[modeling.NormalAttribute]

	// classes
	switch {
	case n == 0:
		o.Class("triangles/0")
	case n == 1:
		o.Class("triangles/1")
	default:
		o.Class("triangles/2+")
	}
	if hasNrm {
		o.Class("normals/stored")
	} else {
		o.Class("normals/none")
	}
	if d.IdentityIdx() {
		o.Class("index/identity")
	} else {
		o.Class("index/arbitrary")
	}
	if d.HasShared() {
		o.Class("index/shared-vertex")
	}
	if n > 0 && d.HasUnreferenced() {
		o.Class("index/unreferenced-vertex")
	}
	if n >= 2 && !d.IdentityIdx() {
		o.NonTrivial()
	}

	// expected records from the description alone
	type want struct {
		V        [3][3]float32
		N        v3
		NDefined bool // expected facet normal is defined (outside the don't-care band)
	}
	wants := make([]want, n)
	degenerate := false
	for t := 0; t < n; t++ {
		var w want
		for k := 0; k < 3; k++ {
			p := pos[d.Idx[3*t+k]]
			for j := 0; j < 3; j++ {
				w.V[k][j] = float32(float64(p[j]))
			}
		}
		if hasNrm {
			a, b, cc := row64(nrm[d.Idx[3*t]]), row64(nrm[d.Idx[3*t+1]]), row64(nrm[d.Idx[3*t+2]])
			s := v3{a[0] + b[0] + cc[0], a[1] + b[1] + cc[1], a[2] + b[2] + cc[2]}
			longest := math.Max(vlen(a), math.Max(vlen(b), vlen(cc)))
			if l := vlen(s); l > 1e-6*longest && l > 0 && longest >= 1e-30 {
				w.N, w.NDefined = v3{s[0] / l, s[1] / l, s[2] / l}, true
			} else {
				o.Count("normal-undefined-band", 1)
			}
		} else if g, ok := geoNormal(w.V); ok {
			w.N, w.NDefined = g, true
		}
		if _, ok := geoNormal(w.V); !ok {
			degenerate = true
		}
		wants[t] = w
	}
	if degenerate {
		o.Class("triangles/degenerate-present")
	}

	m := d.Build()
	var buf bytes.Buffer
	var werr error
	if kind, val := oracle.Try(func() { werr = stl.WriteMesh(&buf, m) }); kind != "" {
		return vh.Failf("writemesh-panic-"+kind, "WriteMesh panicked on a well-formed triangle mesh: %v", val)
	}
	if werr != nil {
		return vh.Failf("writemesh-error", "WriteMesh failed on a well-formed triangle mesh: %v", werr)
	}
	b := buf.Bytes()

	// 1. size law
	if len(b) != 84+50*n {
		return vh.Failf("size-law", "%d triangles written as %d bytes, want 84+50n = %d", n, len(b), 84+50*n)
	}
	// 2. own record parse: count field and records
	p, err := parseSTL(b)
	if p.Count != uint32(n) {
		return vh.Failf("count-field", "count field is %d for %d triangles", p.Count, n)
	}
	if err != nil {
		return vh.Failf("record-layout", "written bytes do not parse as binary STL: %v", err)
	}
	for t := 0; t < n; t++ {
		r, w := p.Recs[t], wants[t]
		for k := 0; k < 3; k++ {
			for j := 0; j < 3; j++ {
				if f32bits(r.V[k][j]) != f32bits(w.V[k][j]) {
					return vh.Failf("record-position", "record %d corner %d component %d is %v, want float32 image %v of vertex %d (record corners %v, want %v)",
						t, k, j, r.V[k][j], w.V[k][j], d.Idx[3*t+k], r.V, w.V)
				}
			}
		}
		got := to64(r.N)
		if hasNrm {
			if w.NDefined && !closeUnit(got, w.N) {
				return vh.Failf("record-normal", "record %d normal %v, want normalised mean of the corner normals %v", t, got, w.N)
			}
		} else if !isZero3(r.N) {
			if w.NDefined && !closeUnit(got, w.N) {
				return vh.Failf("record-normal-without-source", "mesh stores no normals; record %d normal %v is neither zero nor the geometric normal %v", t, got, w.N)
			}
		}
	}

	// 3. ReadMesh returns the same triangles in order
	var back *modeling.Mesh
	var rerr error
	if kind, val := oracle.Try(func() { back, rerr = stl.ReadMesh(rdr.For(c.Reader, b)) }); kind != "" {
		return vh.Failf("readmesh-panic-"+kind, "ReadMesh panicked on WriteMesh output: %v", val)
	}
	if rerr != nil || back == nil {
		return vh.Failf("readmesh-error", "ReadMesh failed on WriteMesh output: %v", rerr)
	}
	if f := checkReadMesh(*back, p, "readmesh"); f != nil {
		return f
	}
	// the graph's STL read node is the same decoder applied to a byte parameter
	if len(b) > 0 {
		var nm modeling.Mesh
		var nerr error
		if kind, val := oracle.Try(func() { nm, nerr = (stl.ReadNodeData{Data: nodes.Value(b).Out()}).Process() }); kind != "" {
			return vh.Failf("readnode-panic-"+kind, "stl.ReadNode panicked on WriteMesh output: %v", val)
		}
		if nerr != nil || oracle.Snapshot(nm) != oracle.Snapshot(*back) {
			return vh.Failf("readnode-differs", "stl.ReadNode on WriteMesh output (err %v) gives a different mesh than ReadMesh", nerr)
		}
	}
	if hasNrm && back.HasFloat3Attribute(modeling.NormalAttribute) {
		bn, bi := back.Float3Attribute(modeling.NormalAttribute), back.Indices()
		for t := 0; t < n; t++ {
			if !wants[t].NDefined {
				continue
			}
			for k := 0; k < 3; k++ {
				g := bn.At(bi.At(3*t + k))
				if got := (v3{g.X(), g.Y(), g.Z()}); !closeUnit(got, wants[t].N) {
					return vh.Failf("readmesh-normal", "triangle %d corner %d normal %v after the round trip, want normalised mean %v", t, k, got, wants[t].N)
				}
			}
		}
	}
	if hasNrm {
		for t := 0; t < n; t++ {
			if wants[t].NDefined && !back.HasFloat3Attribute(modeling.NormalAttribute) {
				return vh.Failf("readmesh-normal-missing", "mesh stored normals (triangle %d: %v) but the mesh read back has no Normal attribute", t, wants[t].N)
			}
		}
	}

	// 4. Read / Write is the identity on the bytes (a 0/0 facet normal makes the string leave
	// the "finite floats" domain of that clause: counted, not judged)
	if recsFinite(p) {
		if f := checkReadWrite(b, p, c.Reader); f != nil {
			return f
		}
	} else {
		o.Count("identity-skipped-nonfinite-normal", 1)
	}
	// 5. WriteMesh(ReadMesh(bytes)) reproduces the records
	return checkRewrite(*back, p)
}

// checkReadMesh compares a mesh returned by ReadMesh with the records of the harness's parse.
func checkReadMesh(back modeling.Mesh, p parsed, tag string) *vh.Failure {
	n := len(p.Recs)
	if err := oracle.WF(back); err != nil {
		return vh.Failf(tag+"-malformed", "ReadMesh result is not well-formed: %v", err)
	}
	if back.Topology() != modeling.TriangleTopology {
		return vh.Failf(tag+"-topology", "ReadMesh result has topology %v", back.Topology())
	}
	if back.PrimitiveCount() != n || back.Indices().Len() != 3*n {
		return vh.Failf(tag+"-count", "ReadMesh returned %d triangles (%d indices) for %d records", back.PrimitiveCount(), back.Indices().Len(), n)
	}
	if n == 0 {
		return nil
	}
	if !back.HasFloat3Attribute(modeling.PositionAttribute) {
		return vh.Failf(tag+"-no-position", "ReadMesh result has no Position attribute for %d records", n)
	}
	bp, bi := back.Float3Attribute(modeling.PositionAttribute), back.Indices()
	anyNormal := false
	for _, r := range p.Recs {
		if !isZero3(r.N) {
			anyNormal = true
		}
	}
	hasN := back.HasFloat3Attribute(modeling.NormalAttribute)
	if anyNormal && !hasN {
		return vh.Failf(tag+"-normal-missing", "a record stores a normal but the mesh read back has no Normal attribute")
	}
	for t, r := range p.Recs {
		for k := 0; k < 3; k++ {
			g := bp.At(bi.At(3*t + k))
			got, want := v3{g.X(), g.Y(), g.Z()}, to64(r.V[k])
			for j := 0; j < 3; j++ {
				if math.Float64bits(got[j]) != math.Float64bits(want[j]) {
					return vh.Failf(tag+"-position", "triangle %d corner %d = %v, record says %v", t, k, got, want)
				}
			}
		}
		if !hasN {
			continue
		}
		bn := back.Float3Attribute(modeling.NormalAttribute)
		geo, geoOK := geoNormal(r.V)
		for k := 0; k < 3; k++ {
			g := bn.At(bi.At(3*t + k))
			got := v3{g.X(), g.Y(), g.Z()}
			if !isZero3(r.N) {
				want := to64(r.N)
				for j := 0; j < 3; j++ {
					if !same64(got[j], want[j]) {
						return vh.Failf(tag+"-normal-copy", "triangle %d corner %d normal %v, record stores %v", t, k, got, want)
					}
				}
			} else if geoOK && !closeUnit(got, geo) {
				return vh.Failf(tag+"-normal-geometric", "record %d stores no normal; corner %d normal %v, geometric normal %v", t, k, got, geo)
			}
		}
	}
	return nil
}

// checkReadWrite: stl.Read returns exactly the parsed records and stl.Write reproduces the bytes.
func checkReadWrite(b []byte, p parsed, mode int) *vh.Failure {
	var bin *stl.Binary
	var err error
	if kind, val := oracle.Try(func() { bin, err = stl.Read(rdr.For(mode, b)) }); kind != "" {
		return vh.Failf("read-panic-"+kind, "Read panicked on a well-formed byte string: %v", val)
	}
	if err != nil || bin == nil {
		return vh.Failf("read-error", "Read failed on a well-formed byte string of %d records: %v", len(p.Recs), err)
	}
	if !bytes.Equal(bin.Header[:], p.Header) {
		return vh.Failf("read-header", "Read header %x, bytes say %x", bin.Header[:], p.Header)
	}
	if len(bin.Triangles) != len(p.Recs) {
		return vh.Failf("read-count", "Read returned %d triangles for %d records", len(bin.Triangles), len(p.Recs))
	}
	for t, r := range p.Recs {
		g := bin.Triangles[t]
		got := rec{N: [3]float32{g.Normal.X, g.Normal.Y, g.Normal.Z}, Attr: g.Attribute,
			V: [3][3]float32{{g.Vertex1.X, g.Vertex1.Y, g.Vertex1.Z}, {g.Vertex2.X, g.Vertex2.Y, g.Vertex2.Z}, {g.Vertex3.X, g.Vertex3.Y, g.Vertex3.Z}}}
		same := got.Attr == r.Attr
		for k := 0; k < 3; k++ {
			same = same && f32bits(got.N[k]) == f32bits(r.N[k])
			for j := 0; j < 3; j++ {
				same = same && f32bits(got.V[k][j]) == f32bits(r.V[k][j])
			}
		}
		if !same {
			return vh.Failf("read-record", "Read triangle %d = %+v, record is %+v", t, got, r)
		}
	}
	var again bytes.Buffer
	if err := stl.Write(&again, *bin); err != nil {
		return vh.Failf("write-error", "Write failed on what Read returned: %v", err)
	}
	if !bytes.Equal(again.Bytes(), b) {
		i := 0
		for i < len(b) && i < again.Len() && again.Bytes()[i] == b[i] {
			i++
		}
		return vh.Failf("read-write-identity", "Write(Read(bytes)) differs from bytes (%d vs %d bytes, first difference at offset %d)", again.Len(), len(b), i)
	}
	return nil
}

// checkRewrite: WriteMesh(ReadMesh(bytes)) keeps count, positions (bitwise) and unit normals.
func checkRewrite(back modeling.Mesh, p parsed) *vh.Failure {
	n := len(p.Recs)
	var buf bytes.Buffer
	var err error
	if kind, val := oracle.Try(func() { err = stl.WriteMesh(&buf, back) }); kind != "" {
		return vh.Failf("rewrite-panic-"+kind, "WriteMesh panicked on a mesh returned by ReadMesh: %v", val)
	}
	if err != nil {
		return vh.Failf("rewrite-error", "WriteMesh failed on a mesh returned by ReadMesh: %v", err)
	}
	if buf.Len() != 84+50*n {
		return vh.Failf("rewrite-size-law", "%d records rewritten as %d bytes", n, buf.Len())
	}
	q, perr := parseSTL(buf.Bytes())
	if perr != nil || int(q.Count) != n {
		return vh.Failf("rewrite-count-field", "rewritten count field %d for %d records (%v)", q.Count, n, perr)
	}
	anyNormal := false
	for _, r := range p.Recs {
		if !isZero3(r.N) {
			anyNormal = true
		}
	}
	for t, r := range p.Recs {
		g := q.Recs[t]
		for k := 0; k < 3; k++ {
			for j := 0; j < 3; j++ {
				if f32bits(g.V[k][j]) != f32bits(r.V[k][j]) {
					return vh.Failf("rewrite-position", "record %d corner %d: %v rewritten as %v", t, k, r.V[k], g.V[k])
				}
			}
		}
		got := to64(g.N)
		geo, geoOK := geoNormal(r.V)
		switch {
		case !isZero3(r.N):
			if want, ok := unitOf(to64(r.N)); ok && !closeUnit(got, want) {
				return vh.Failf("rewrite-normal", "record %d normal %v rewritten as %v, want its unit vector %v", t, to64(r.N), got, want)
			}
		case anyNormal:
			if geoOK && !closeUnit(got, geo) {
				return vh.Failf("rewrite-normal-geometric", "record %d (no stored normal, file has normals) rewritten with normal %v, geometric normal %v", t, got, geo)
			}
		default:
			if !isZero3(g.N) && geoOK && !closeUnit(got, geo) {
				return vh.Failf("rewrite-normal-without-source", "record %d of a file without normals rewritten with normal %v: neither zero nor geometric %v", t, got, geo)
			}
		}
	}
	return nil
}

// ---------------------------------------------------------------- sub-check 2: raw byte strings

type BytesCase struct {
	Raw    []byte // base64 in replay files
	Reader int    `json:",omitempty"` // as in MeshCase
}

func genF32(t *rapid.T, label string) float32 {
	switch rapid.IntRange(0, 9).Draw(t, label+".k") {
	case 0, 1, 2, 3:
		return float32(rapid.IntRange(-32, 32).Draw(t, label+".q")) / 8
	case 4:
		return rapid.SampledFrom([]float32{0, float32(math.Copysign(0, -1)), 1, -1, math.MaxFloat32, -math.MaxFloat32,
			math.SmallestNonzeroFloat32, -math.SmallestNonzeroFloat32, 1.17549435e-38, 16777216, 0.1}).Draw(t, label+".special")
	case 5, 6:
		return float32(rapid.Float64Range(-1000, 1000).Draw(t, label+".f"))
	}
	bits := rapid.Uint32().Draw(t, label+".bits")
	if bits&0x7f800000 == 0x7f800000 { // Inf/NaN exponent: clear its lowest bit -> finite
		bits &^= 0x00800000
	}
	return math.Float32frombits(bits)
}

func genBytes(t *rapid.T) BytesCase {
	var hdr []byte
	switch rapid.IntRange(0, 4).Draw(t, "hdrKind") {
	case 0:
		hdr = make([]byte, 80)
	case 1:
		hdr = make([]byte, 80)
		copy(hdr, "solid "+rapid.StringMatching(`[a-z ]{0,40}`).Draw(t, "name"))
	case 2: // a text title padded with blanks, as CAD exporters write it: all 80 bytes printable
		hdr = bytes.Repeat([]byte{' '}, 80)
		title := rapid.SampledFrom([]string{"solid ", "solid\t", "SOLID ", "", "binary stl "}).Draw(t, "titleStart") + rapid.StringMatching(`[A-Za-z0-9_. -]{0,60}`).Draw(t, "title")
		copy(hdr, title)
		if rapid.Bool().Draw(t, "newlineEnd") {
			hdr[79] = '\n'
		}
	default:
		hdr = rapid.SliceOfN(rapid.Byte(), 80, 80).Draw(t, "hdr")
	}
	n := rapid.IntRange(0, 5).Draw(t, "n")
	normalMode := rapid.IntRange(0, 3).Draw(t, "normalMode") // 0 all zero, 1 all set, 2,3 per record
	b := append([]byte{}, hdr...)
	b = binary.LittleEndian.AppendUint32(b, uint32(n))
	for i := 0; i < n; i++ {
		l := fmt.Sprintf("r%d", i)
		var nv [3]float32
		kind := normalMode
		if normalMode >= 2 {
			kind = rapid.IntRange(0, 1).Draw(t, l+".hasN")
		}
		if kind == 1 {
			switch rapid.IntRange(0, 2).Draw(t, l+".nk") {
			case 0: // axis
				nv[rapid.IntRange(0, 2).Draw(t, l+".axis")] = float32(1 - 2*rapid.IntRange(0, 1).Draw(t, l+".sign"))
			default:
				for k := range nv {
					nv[k] = genF32(t, l+".n")
				}
			}
		} else if rapid.IntRange(0, 3).Draw(t, l+".negzero") == 0 {
			nv[rapid.IntRange(0, 2).Draw(t, l+".nz")] = float32(math.Copysign(0, -1))
		}
		for _, x := range nv {
			b = binary.LittleEndian.AppendUint32(b, math.Float32bits(x))
		}
		degenerate := rapid.IntRange(0, 7).Draw(t, l+".degenerate") == 0
		var first [3]float32
		for c := 0; c < 3; c++ {
			for k := 0; k < 3; k++ {
				x := genF32(t, l+".v")
				if c == 0 {
					first[k] = x
				} else if degenerate && c == 2 {
					x = first[k]
				}
				b = binary.LittleEndian.AppendUint32(b, math.Float32bits(x))
			}
		}
		var attr uint16
		if rapid.Bool().Draw(t, l+".attrSet") {
			attr = rapid.Uint16().Draw(t, l+".attr")
		}
		b = binary.LittleEndian.AppendUint16(b, attr)
	}
	return BytesCase{Raw: b, Reader: genReader(t)}
}

func runBytes(c BytesCase, o *vh.Obs) *vh.Failure {
	p, err := parseSTL(c.Raw)
	if err != nil || !readerOK(c.Reader) {
		o.Class("out-of-domain")
		return nil
	}
	if c.Reader != 0 {
		o.Class("reader/short-reads")
	}
	n := len(p.Recs)
	withN, attrSet, extreme, degenerate := 0, false, false, false
	for _, r := range p.Recs {
		all := [][3]float32{r.N, r.V[0], r.V[1], r.V[2]}
		for _, v := range all {
			for _, x := range v {
				if x != x || math.IsInf(float64(x), 0) {
					o.Class("out-of-domain")
					return nil
				}
				if a := math.Abs(float64(x)); a != 0 && (a < 1.17549435e-38 || a > 1e30) {
					extreme = true
				}
			}
		}
		if !isZero3(r.N) {
			withN++
		}
		if r.Attr != 0 {
			attrSet = true
		}
		if _, ok := geoNormal(r.V); !ok {
			degenerate = true
		}
	}
	switch {
	case n == 0:
		o.Class("records/0")
	case n == 1:
		o.Class("records/1")
	default:
		o.Class("records/2+")
	}
	switch {
	case n == 0:
	case withN == 0:
		o.Class("normals/none-stored")
	case withN == n:
		o.Class("normals/all-stored")
	default:
		o.Class("normals/mixed")
	}
	if attrSet {
		o.Class("attribute-word/non-zero")
		o.NonTrivial()
	}
	if extreme {
		o.Class("floats/denormal-or-huge")
	}
	if degenerate {
		o.Class("records/degenerate-present")
	}
	if bytes.HasPrefix(p.Header, []byte("solid")) {
		o.Class("header/starts-with-solid")
	}

	// Read returns the records; Write(Read(bytes)) == bytes
	if f := checkReadWrite(c.Raw, p, c.Reader); f != nil {
		return f
	}
	// ReadMesh returns the same triangles in order
	var back *modeling.Mesh
	var rerr error
	if kind, val := oracle.Try(func() { back, rerr = stl.ReadMesh(rdr.For(c.Reader, c.Raw)) }); kind != "" {
		return vh.Failf("readmesh-panic-"+kind, "ReadMesh panicked on a well-formed byte string: %v", val)
	}
	if rerr != nil || back == nil {
		return vh.Failf("readmesh-error", "ReadMesh failed on a well-formed byte string of %d records: %v", n, rerr)
	}
	if f := checkReadMesh(*back, p, "readmesh"); f != nil {
		return f
	}
	// and writing that mesh reproduces the triangle records
	return checkRewrite(*back, p)
}

// ---------------------------------------------------------------- sub-check 3: large files and meshes

// LargeCase is a recipe (the replay file stays small): Tris records or triangles with values from
// a small linear congruential sequence, at the record counts where a count width, a read buffer
// or a block size changes (the random cases above have at most six triangles).
type LargeCase struct {
	Tris   int
	Seed   uint32
	Reader int `json:",omitempty"` // as in MeshCase
	Mode   int // 0 raw bytes without normals, 1 raw bytes with axis normals, 2 mesh with its own vertices per corner, 3 welded grid mesh, 4 welded grid mesh with normals
}

var largeCounts = []int{81, 82, 163, 255, 256, 257, 1000, 1310, 1311, 4096, 65535, 65536, 65537, 70000, 131072}

func genLarge(t *rapid.T) LargeCase {
	return LargeCase{
		Tris:   rapid.SampledFrom(largeCounts).Draw(t, "tris"),
		Seed:   rapid.Uint32().Draw(t, "seed"),
		Mode:   rapid.IntRange(0, 4).Draw(t, "mode"),
		Reader: genReader(t),
	}
}

type lcg uint32

func (l *lcg) eighth() float64 { // multiples of 1/8 in [-32, 32]
	*l = *l*1664525 + 1013904223
	return float64(int(uint32(*l)>>16)%513-256) / 8
}

// largeBytes expands a raw-bytes recipe (Mode 0 or 1) into the binary STL byte string it stands for.
func largeBytes(c LargeCase) []byte {
	r := lcg(c.Seed)
	b := make([]byte, 80, 84+50*c.Tris)
	copy(b, "large reference file")
	b = binary.LittleEndian.AppendUint32(b, uint32(c.Tris))
	for i := 0; i < c.Tris; i++ {
		var nv [3]float32
		if c.Mode == 1 {
			nv[i%3] = float32(1 - 2*(i/3%2))
		}
		for _, x := range nv {
			b = binary.LittleEndian.AppendUint32(b, math.Float32bits(x))
		}
		for k := 0; k < 9; k++ {
			b = binary.LittleEndian.AppendUint32(b, math.Float32bits(float32(r.eighth())))
		}
		b = binary.LittleEndian.AppendUint16(b, uint16(i*7))
	}
	return b
}

func runLarge(c LargeCase, o *vh.Obs) *vh.Failure {
	if c.Tris < 1 || c.Tris > 1<<18 || c.Mode < 0 || c.Mode > 4 || !readerOK(c.Reader) {
		o.Class("out-of-domain")
		return nil
	}
	o.Class(fmt.Sprintf("large/mode-%d", c.Mode))
	switch {
	case c.Tris > 65535:
		o.Class("large/count-beyond-16-bit")
	case c.Tris > 255:
		o.Class("large/count-beyond-8-bit")
	default:
		o.Class("large/count-beyond-one-4096-byte-buffer")
	}
	o.NonTrivial()
	if c.Mode <= 1 {
		return runBytes(BytesCase{Raw: largeBytes(c), Reader: c.Reader}, &vh.Obs{})
	}
	return runMesh(MeshCase{M: largeDesc(c), Reader: c.Reader}, &vh.Obs{})
}

func largeMesh(c LargeCase) modeling.Mesh { return largeDesc(c).Build() }

// largeDesc builds the recipe mesh of modes 2..4.
func largeDesc(c LargeCase) gen.MeshDesc {
	r := lcg(c.Seed)
	d := gen.MeshDesc{Topo: int(modeling.TriangleTopology), V3: map[string][][3]gen.F{}}
	if c.Mode == 2 {
		d.N = 3 * c.Tris
		for i := 0; i < d.N; i++ {
			d.Idx = append(d.Idx, i)
		}
	} else { // a w x h grid of quads, two triangles each, vertices shared
		w := int(math.Ceil(math.Sqrt(float64(c.Tris) / 2)))
		d.N = (w + 1) * (w + 1)
		for q := 0; len(d.Idx) < 3*c.Tris; q++ {
			x, y := q%w, q/w
			a := y*(w+1) + x
			d.Idx = append(d.Idx, a, a+1, a+w+2)
			if len(d.Idx) < 3*c.Tris {
				d.Idx = append(d.Idx, a, a+w+2, a+w+1)
			}
		}
	}
	pos := make([][3]gen.F, d.N)
	for i := range pos {
		pos[i] = [3]gen.F{gen.F(r.eighth()), gen.F(r.eighth()), gen.F(r.eighth())}
	}
	d.V3[modeling.PositionAttribute] = pos
	if c.Mode == 4 {
		nr := make([][3]gen.F, d.N)
		for i := range nr {
			nr[i][i%3] = gen.F(1 - 2*(i/3%2))
		}
		d.V3[modeling.NormalAttribute] = nr
	}
	return d
}

// ---------------------------------------------------------------- sub-check 4: record-count sweep

// A reader or writer that works in blocks of K records can lose or blank its last block exactly
// when the record count is a multiple of K; K is an implementation detail, so sampled counts do not
// find it. The sweep runs EVERY record count 1..N once (N = 3000 quick, 45 000 thorough: beyond
// 2 MiB of records) on a recipe-built byte string (LargeCase, Mode 0).
func sweepN() int {
	if vh.Tier == "thorough" {
		return 45000
	}
	return 3000
}

func sweepCases() []LargeCase {
	cs := make([]LargeCase, 0, sweepN())
	for n := 1; n <= sweepN(); n++ {
		cs = append(cs, LargeCase{Tris: n, Seed: uint32(n)*2654435761 + 12345, Mode: 0})
	}
	return cs
}

var sweepBounds = []int{3000, 10000, 20000, 30000, 45000}

// runSweep judges one count of the sweep with the complete bytes-roundtrip oracle (runBytes: Read
// returns exactly the recipe's records bit for bit, Write(Read) reproduces the bytes, ReadMesh
// returns the same triangles in order, WriteMesh(ReadMesh) reproduces the records). Measured cost
// about 2.4 us per record: 11 CPU-seconds for 1..3000, about 40 CPU-minutes for 1..45 000 (2.5
// CPU-minutes on each of the 16 thorough shards; 9 minutes of wall time were measured on a machine
// oversubscribed four times); a Read/Write-only oracle (parseSTL + checkReadWrite) would cost
// 0.7 us per record but could not see a block-wise loop in ReadMesh or WriteMesh.
func runSweep(c LargeCase, o *vh.Obs) *vh.Failure {
	if c.Tris < 1 || c.Tris > 1<<18 || c.Mode < 0 || c.Mode > 1 || !readerOK(c.Reader) {
		o.Class("out-of-domain")
		return nil
	}
	lo := 1
	for _, hi := range sweepBounds {
		if c.Tris <= hi {
			o.Class(fmt.Sprintf("sweep/records-%d..%d", lo, hi))
			break
		}
		lo = hi + 1
	}
	if c.Tris > sweepBounds[len(sweepBounds)-1] {
		o.Class(fmt.Sprintf("sweep/records-above-%d", sweepBounds[len(sweepBounds)-1]))
	}
	o.NonTrivial()
	f := runBytes(BytesCase{Raw: largeBytes(c), Reader: c.Reader}, &vh.Obs{})
	if f != nil {
		f.Msg = fmt.Sprintf("file of %d records (recipe seed %d): %s", c.Tris, c.Seed, f.Msg)
	}
	return f
}

// ---------------------------------------------------------------- through the file system

// FileCase: stl.Save / stl.Load must be the stream functions applied to a file: the saved bytes are
// the bytes WriteMesh produces, and the loaded mesh writes to the same bytes as ReadMesh's result.
type FileCase struct {
	Tris int
	Seed uint32
	Mode int // 2 per-corner vertices, 3 welded grid, 4 welded grid with normals (as LargeCase)
	Name string
	// Existing > 0: the path already holds a file of that many bytes when Save is called (an earlier
	// export of another model): Save replaces it
	Existing int `json:",omitempty"`
}

func genFile(t *rapid.T) FileCase {
	ex := 0
	if rapid.Bool().Draw(t, "overExisting") {
		ex = rapid.SampledFrom([]int{1, 84, 134, 4096, 5000, 70000, 400000}).Draw(t, "existing")
	}
	return FileCase{Existing: ex, Tris: rapid.SampledFrom([]int{1, 2, 5, 80, 81, 82, 163, 164, 1000, 5000}).Draw(t, "tris"), Seed: rapid.Uint32().Draw(t, "seed"),
		Mode: rapid.IntRange(2, 4).Draw(t, "mode"), Name: rapid.SampledFrom([]string{"a.stl", "B.STL", "noext", "dots.in.name.stl"}).Draw(t, "name")}
}

func runFile(c FileCase, o *vh.Obs) *vh.Failure {
	if c.Tris < 1 || c.Tris > 100000 || c.Mode < 2 || c.Mode > 4 || !regexp.MustCompile(`^[A-Za-z0-9_.]{1,30}$`).MatchString(c.Name) {
		o.Class("out-of-domain")
		return nil
	}
	o.NonTrivial()
	o.Class(fmt.Sprintf("files/mode-%d", c.Mode))
	if c.Tris > 81 {
		o.Class("files/beyond-one-4096-byte-buffer")
	}
	m := largeMesh(LargeCase{Tris: c.Tris, Seed: c.Seed, Mode: c.Mode})
	want := &bytes.Buffer{}
	if err := stl.WriteMesh(want, m); err != nil {
		return vh.Failf("files/write-error", "WriteMesh: %v", err)
	}
	dir, cleanup, err := vh.TempDir("c07files")
	if err != nil {
		return vh.Failf("harness/tempdir", "%v", err)
	}
	defer cleanup()
	path := filepath.Join(dir, c.Name)
	if c.Existing > 0 && c.Existing <= 1<<20 {
		if err := os.WriteFile(path, bytes.Repeat([]byte{0xA5}, c.Existing), 0o644); err != nil {
			return vh.Failf("harness/existing-file", "%v", err)
		}
		if c.Existing > want.Len() {
			o.Class("files/over-a-longer-existing-file")
		} else {
			o.Class("files/over-a-shorter-existing-file")
		}
	}
	if err := stl.Save(path, m); err != nil {
		return vh.Failf("files/save-error", "Save(%q) of %d triangles: %v", c.Name, c.Tris, err)
	}
	got, err := os.ReadFile(path)
	if err != nil {
		return vh.Failf("files/save-error", "Save(%q) left no readable file: %v", c.Name, err)
	}
	if !bytes.Equal(got, want.Bytes()) {
		return vh.Failf("files/saved-bytes-differ", "Save(%q) of %d triangles wrote %d bytes, WriteMesh writes %d (first difference at %d)", c.Name, c.Tris, len(got), want.Len(), firstDiff(got, want.Bytes()))
	}
	loaded, err := stl.Load(path)
	if err != nil || loaded == nil {
		return vh.Failf("files/load-error", "Load of what Save just wrote (%d triangles): %v", c.Tris, err)
	}
	ref, err := stl.ReadMesh(bytes.NewReader(want.Bytes()))
	if err != nil {
		return vh.Failf("files/read-error", "ReadMesh of WriteMesh's bytes: %v", err)
	}
	a, b := &bytes.Buffer{}, &bytes.Buffer{}
	if err := stl.WriteMesh(a, *loaded); err != nil {
		return vh.Failf("files/write-error", "WriteMesh(Load): %v", err)
	}
	if err := stl.WriteMesh(b, *ref); err != nil {
		return vh.Failf("files/write-error", "WriteMesh(ReadMesh): %v", err)
	}
	if !bytes.Equal(a.Bytes(), b.Bytes()) {
		return vh.Failf("files/loaded-mesh-differs", "the mesh Load returns for %d saved triangles differs from what ReadMesh returns for the same bytes (first difference of their re-written bytes at %d)", c.Tris, firstDiff(a.Bytes(), b.Bytes()))
	}
	return nil
}

func firstDiff(a, b []byte) int {
	n := min(len(a), len(b))
	for i := 0; i < n; i++ {
		if a[i] != b[i] {
			return i
		}
	}
	return n
}

func TestC07(t *testing.T) {
	vh.Drive(t, vh.Spec[MeshCase]{Name: "mesh-roundtrip", Quick: 500000, Thorough: 15000000, Gen: genMesh, Run: runMesh})
	vh.Drive(t, vh.Spec[BytesCase]{Name: "bytes-roundtrip", Quick: 700000, Thorough: 21000000, Gen: genBytes, Run: runBytes})
	vh.Drive(t, vh.Spec[vh.Conc[MeshCase]]{Name: "concurrent-mesh-roundtrip", Quick: 4000, Thorough: 120000, Gen: vh.GenConc(genMesh), Run: vh.RunConc(runMesh), Repeat: 20})
	vh.Drive(t, vh.Spec[vh.Conc[BytesCase]]{Name: "concurrent-bytes-roundtrip", Quick: 4000, Thorough: 120000, Gen: vh.GenConc(genBytes), Run: vh.RunConc(runBytes), Repeat: 20})
	vh.Drive(t, vh.Spec[LargeCase]{Name: "large", Quick: 240, Thorough: 8000, Gen: genLarge, Run: runLarge})
	vh.Drive(t, vh.Spec[FileCase]{Name: "files", Quick: 400, Thorough: 12000, Gen: genFile, Run: runFile})
	vh.Enumerate(t, vh.Spec[LargeCase]{Name: "count-sweep", Run: runSweep,
		Key:    func(c LargeCase) string { return fmt.Sprint(c.Tris, c.Seed, c.Reader, c.Mode) },
		Sample: func(c LargeCase) any { return c }}, sweepCases())
}

func FuzzC07Bytes(f *testing.F) {
	vh.Fuzz(f, vh.Spec[BytesCase]{Name: "bytes-roundtrip", Gen: genBytes, Run: runBytes})
}
