// Package c19 decides property C19 (signed distance functions are signed, 1-Lipschitz and compose
// as set operations). Every primitive of math/sdf is compared with a reference written from the
// geometric meaning of its parameters (clamping, closest-point projection onto the inner solid of
// a Minkowski sum, minimisation over the swept ball), on sample points that are CONSTRUCTED around
// the shape by a third, parametric description of its surface (surface point + offset along the
// outward normal, caps, rims, edges, corners, the axis, far away).
package c19

import (
	"fmt"
	"math"
	"testing"

	"github.com/EliCDavis/polyform/math/sample"
	"github.com/EliCDavis/polyform/math/sdf"
	"github.com/EliCDavis/vector/vector3"
	"pgregory.net/rapid"

	"verifharness/internal/gen"
	"verifharness/internal/vh"
)

func TestMain(m *testing.M) {
	vh.Main(m, vh.Meta{
		ID:    "C19",
		Level: "exploration",
		Rule: "rapid-generated shapes of the 7 primitive kinds (positions 0 / small integers / log-uniform to 1e3 either sign, sizes and radii log-uniform > 0 within [1e-4,1e3], " +
			"cone slope |r1-r2|/|b-a| from 0 to 1-1e-4, unit plane normals incl. axis directions) with 4..20 point pairs each. Points are constructed from a parametric description of the " +
			"surface (face/edge/corner of the box, side/cap-a/cap-b of capsule and cone via the common tangent normal, side/cap/rim of the cylinder): exactly on it, offset along the " +
			"outward normal by 1e-7..10 sizes either way, on and next to the axis / centre / box diagonals, beyond the caps, far away (10..1000 sizes) and uniform noise; the second point " +
			"of a pair is a small step (1e-7..1 sizes) from the first, its mirror across the surface, or independent. Oracles: box by clamping / min face distance inside; rounded box and " +
			"rounded cylinder as Minkowski sums by closest-point projection onto the inner solid; capsule and rounded cone as min over s in [0,1] of |p-c(s)|-r(s) by golden section to 1e-12; " +
			"plane by projection onto it. Checked per point: finite, sign (outside a 1e-9*scale band), |f|<=1e-9*scale on constructed surface points, f equals the reference distance " +
			"(sphere, box, capsule, plane), |f| <= reference distance (rounded shapes: consequence of 1-Lipschitz and zero on the surface); per pair: |f(p)-f(q)| <= |p-q|(1+1e-9)+1e-12*scale. " +
			"ops: union/intersect of 1..4 and subtract of 2 overlapping generated shapes, sign law against the operands' references; translate: g(p+t)=f(p) and sign against the reference of the moved shape. " +
			"Non-trivial (prim) = a pair straddles the surface (both points outside the band, opposite sides) or a point lies in a cap / edge / corner / rim region; " +
			"(ops) = some point is inside some operands and outside others (subtract: inside the base); (translate) = non-zero offset and some point changes side between the original and the moved shape. " +
			"Region classes are computed by the oracle from the geometry, not taken from the generator. Distinct by case JSON. " +
			"Sub-checks concurrent-ops / concurrent-prim: every concurrent-* case (2-5 bundled cases run at the same time after each passed alone) is non-trivial. " +
			"Every closure is also evaluated at its case's points from four goroutines at once (eight rounds) and compared bit for bit with the sequential values (class same-closure-from-4-goroutines).",
		Assumptions: []string{
			"scale of a check = largest absolute value among the shape parameters and the coordinates of the sample point(s); every tolerance is 1e-9*scale (Lipschitz: relative 1e-9 plus 1e-12*scale); coordinates stay below ~1e6 and sizes within [1e-4,1e3], no claim about overflow/underflow ranges",
			"outside means f > 0, inside means f < 0; points whose reference distance is within 1e-9*scale of 0 are not judged for sign",
			"rounded cone: only |r1-r2| <= (1-1e-4)|b-a| and a != b is generated (the cone is the convex hull of two balls, neither containing the other; outside that precondition Quilez's formula is not claimed)",
			"capsule: start == end is generated as its own class (the ball around that point); rounded cone: a != b (its definitional precondition)",
			"box and rounded box: `bounds` are FULL extents centred at `position`; `roundness` INFLATES the box (Minkowski sum with a ball: outer extents bounds+2*roundness), unlike Quilez's sdRoundBox which keeps the outer extents",
			"rounded cylinder: parameters are read as the source (Quilez's sdRoundedCylinder) uses them: axis Y through `pos`, inner cylinder of radius 2*radius-topHeight and half height bodyHeight, inflated by topHeight (outer radius 2*radius, outer half height bodyHeight+topHeight); generated with 2*radius >= topHeight",
			"plane: unit normal; the surface is {x : (x-position).n = -height} (Quilez: dot(p,n)+h), negative on the side opposite to the normal",
			"exact equality with the reference distance is a failure only for sphere, box, capsule and plane (as the property states); for rounded box/cone/cylinder it is counted as evidence (counters exact_agree/exact_disagree) and only |f| <= distance is enforced",
			"subtract(base, sub) is judged as base-interior minus closure of sub; for every operator a point within the band of an operand's surface is judged only when the expected sign does not depend on that operand",
		},
	})
}

// ---------------------------------------------------------------- small vector helpers

type V3 = [3]float64

func v(a V3) vector3.Float64          { return vector3.New(a[0], a[1], a[2]) }
func add(a, b V3) V3                  { return V3{a[0] + b[0], a[1] + b[1], a[2] + b[2]} }
func sub(a, b V3) V3                  { return V3{a[0] - b[0], a[1] - b[1], a[2] - b[2]} }
func scl(a V3, s float64) V3          { return V3{a[0] * s, a[1] * s, a[2] * s} }
func dot(a, b V3) float64             { return a[0]*b[0] + a[1]*b[1] + a[2]*b[2] }
func norm(a V3) float64               { return math.Sqrt(dot(a, a)) }
func mad(a, b V3, s float64) V3       { return add(a, scl(b, s)) } // a + s*b
func clamp(x, lo, hi float64) float64 { return math.Min(math.Max(x, lo), hi) }
func cross(a, b V3) V3 {
	return V3{a[1]*b[2] - a[2]*b[1], a[2]*b[0] - a[0]*b[2], a[0]*b[1] - a[1]*b[0]}
}
func maxAbs(a V3) float64 {
	return math.Max(math.Abs(a[0]), math.Max(math.Abs(a[1]), math.Abs(a[2])))
}
func finite(x float64) bool { return !math.IsNaN(x) && !math.IsInf(x, 0) }

// unit normalises a non-zero vector; the components are first divided by the largest one so that
// tiny (denormal) inputs, which rapid's shrinker loves, do not lose precision in the squares.
func unit(a V3) V3 {
	m := maxAbs(a)
	b := V3{a[0] / m, a[1] / m, a[2] / m}
	return scl(b, 1/norm(b))
}

// frame returns two unit vectors orthogonal to the unit vector u and to each other.
func frame(u V3) (e1, e2 V3) {
	k := 0
	if math.Abs(u[1]) < math.Abs(u[k]) {
		k = 1
	}
	if math.Abs(u[2]) < math.Abs(u[k]) {
		k = 2
	}
	var ax V3
	ax[k] = 1
	e1 = unit(cross(u, ax))
	e2 = cross(u, e1)
	return
}

// ---------------------------------------------------------------- shapes

const (
	kSphere  = "sphere"           // cx cy cz r
	kBox     = "box"              // cx cy cz bx by bz            (full extents)
	kRBox    = "rounded-box"      // cx cy cz bx by bz r          (box inflated by r)
	kCapsule = "capsule"          // ax ay az bx by bz r          (sdf.Line)
	kCone    = "rounded-cone"     // ax ay az bx by bz r1 r2
	kCyl     = "rounded-cylinder" // px py pz radius topHeight bodyHeight
	kPlane   = "plane"            // px py pz nx ny nz height
)

var kinds = []string{kSphere, kBox, kRBox, kCapsule, kCone, kCyl, kPlane}

func nParams(kind string) int {
	switch kind {
	case kSphere:
		return 4
	case kBox, kCyl:
		return 6
	case kRBox, kCapsule, kPlane:
		return 7
	case kCone:
		return 8
	}
	return -1
}

// Shape is a primitive: its kind and the constructor's parameter list (see the constants above).
type Shape struct {
	Kind string    `json:"kind"`
	P    []float64 `json:"p"`
}

func (s Shape) at(i int) V3 { return V3{s.P[i], s.P[i+1], s.P[i+2]} }

// coneSlopeLimit: |r1-r2| <= coneSlopeLimit*|b-a| is the generated (and judged) domain of the cone.
const coneSlopeLimit = 1 - 1e-4

// maxCoord bounds every parameter and coordinate a case may carry (the generators stay below 1e6).
const maxCoord = 1e12

// valid is the stated domain of the property (replay files may carry anything).
func (s Shape) valid() bool {
	if n := nParams(s.Kind); n < 0 || len(s.P) != n {
		return false
	}
	for _, x := range s.P {
		if !finite(x) || math.Abs(x) > maxCoord {
			return false
		}
	}
	P := s.P
	switch s.Kind {
	case kSphere:
		return P[3] > 0
	case kBox:
		return P[3] > 0 && P[4] > 0 && P[5] > 0
	case kRBox:
		return P[3] > 0 && P[4] > 0 && P[5] > 0 && P[6] > 0
	case kCapsule:
		// start == end is accepted here (the solid is then the ball around that point) so that a replay
		// file can show what sdf.Line does with it; the generator never produces it (see Assumptions).
		return P[6] > 0
	case kCone:
		l := norm(sub(s.at(3), s.at(0)))
		return l > 0 && P[6] > 0 && P[7] > 0 && math.Abs(P[6]-P[7]) <= coneSlopeLimit*l
	case kCyl:
		return P[3] > 0 && P[4] > 0 && P[5] > 0 && 2*P[3]-P[4] >= 0
	case kPlane:
		return math.Abs(norm(s.at(3))-1) <= 1e-9
	}
	return false
}

func (s Shape) mag() float64 {
	m := 0.0
	for _, x := range s.P {
		m = math.Max(m, math.Abs(x))
	}
	return m
}

// build calls the polyform constructor.
func build(s Shape) sample.Vec3ToFloat {
	P := s.P
	switch s.Kind {
	case kSphere:
		return sdf.Sphere(v(s.at(0)), P[3])
	case kBox:
		return sdf.Box(v(s.at(0)), v(s.at(3)))
	case kRBox:
		return sdf.RoundedBox(v(s.at(0)), v(s.at(3)), P[6])
	case kCapsule:
		return sdf.Line(v(s.at(0)), v(s.at(3)), P[6])
	case kCone:
		return sdf.RoundedCone(v(s.at(0)), v(s.at(3)), P[6], P[7])
	case kCyl:
		return sdf.RoundedCylinder(v(s.at(0)), P[3], P[4], P[5])
	case kPlane:
		return sdf.Plane(v(s.at(0)), v(s.at(3)), P[6])
	}
	panic("unknown kind " + s.Kind)
}

// moved returns the shape translated by t (every position parameter shifted).
func moved(s Shape, t V3) Shape {
	P := append([]float64{}, s.P...)
	shift := func(i int) { P[i] += t[0]; P[i+1] += t[1]; P[i+2] += t[2] }
	shift(0)
	if s.Kind == kCapsule || s.Kind == kCone {
		shift(3)
	}
	return Shape{s.Kind, P}
}

// centre is a point in the middle of the shape (plane: the foot of `position` on the plane).
func centre(s Shape) V3 {
	switch s.Kind {
	case kCapsule, kCone:
		return scl(add(s.at(0), s.at(3)), 0.5)
	case kPlane:
		return mad(s.at(0), s.at(3), -s.P[6])
	}
	return s.at(0)
}

// ---------------------------------------------------------------- reference distances

// exactKind: the property claims the exact Euclidean distance for these.
func exactKind(kind string) bool {
	return kind == kSphere || kind == kBox || kind == kCapsule || kind == kPlane
}

// special regions make a pair non-trivial by themselves.
func specialRegion(r string) bool {
	switch r {
	case "cap-a", "cap-b", "cap", "rim", "edge", "corner":
		return true
	}
	return false
}

// boxDist: signed distance from the local point q to the solid box [-h,h] by clamping q into the
// box (outside) / smallest distance to a face (inside). n = number of clamped coordinates.
func boxDist(q, h V3) (d float64, n int) {
	var cl V3
	for i := 0; i < 3; i++ {
		cl[i] = clamp(q[i], -h[i], h[i])
		if cl[i] != q[i] {
			n++
		}
	}
	if n > 0 {
		return norm(sub(q, cl)), n
	}
	m := math.Inf(1)
	for i := 0; i < 3; i++ {
		m = math.Min(m, h[i]-math.Abs(q[i]))
	}
	return -m, 0
}

var boxRegion = [4]string{"interior", "face", "edge", "corner"}

// cylDist: signed distance from the local point q to the solid cylinder (axis Y, radius ri >= 0,
// half height h) through the closest point of the solid.
func cylDist(q V3, ri, h float64) (float64, string) {
	rho := math.Hypot(q[0], q[2])
	cy := clamp(q[1], -h, h)
	k := 1.0
	if rho > ri {
		k = ri / rho
	}
	cl := V3{q[0] * k, cy, q[2] * k}
	outR, outY := rho > ri, cy != q[1]
	switch {
	case outR && outY:
		return norm(sub(q, cl)), "rim"
	case outR:
		return norm(sub(q, cl)), "side"
	case outY:
		return norm(sub(q, cl)), "cap"
	}
	return -math.Min(ri-rho, h-math.Abs(q[1])), "interior"
}

// sweptBall: min over s in [0,1] of |p-c(s)|-r(s), c(s)=a+s(b-a), r(s)=r1+s(r2-r1): the signed
// distance of the union of the balls (convex in s; golden section to 1e-12, end points included).
func sweptBall(p, a, b V3, r1, r2 float64) (best, sBest float64) {
	ba := sub(b, a)
	g := func(s float64) float64 { return norm(sub(p, mad(a, ba, s))) - (r1 + s*(r2-r1)) }
	best, sBest = g(0), 0
	note := func(s, val float64) {
		if val < best {
			best, sBest = val, s
		}
	}
	note(1, g(1))
	invphi := (math.Sqrt(5) - 1) / 2
	lo, hi := 0.0, 1.0
	x1, x2 := hi-invphi*(hi-lo), lo+invphi*(hi-lo)
	f1, f2 := g(x1), g(x2)
	note(x1, f1)
	note(x2, f2)
	for hi-lo > 1e-12 {
		if f1 < f2 {
			hi, x2, f2 = x2, x1, f1
			x1 = hi - invphi*(hi-lo)
			f1 = g(x1)
			note(x1, f1)
		} else {
			lo, x1, f1 = x1, x2, f2
			x2 = lo + invphi*(hi-lo)
			f2 = g(x2)
			note(x2, f2)
		}
	}
	return
}

// ref is the independent reference: signed distance to the surface of the (valid) shape, the
// region of space p lies in, and whether p is next to the axis / centre.
func ref(s Shape, p V3) (d float64, region string, nearAxis bool) {
	P := s.P
	switch s.Kind {
	case kSphere:
		dc := norm(sub(p, s.at(0)))
		return dc - P[3], "body", dc < 0.05*P[3]
	case kBox:
		h := scl(s.at(3), 0.5)
		d, n := boxDist(sub(p, s.at(0)), h)
		return d, boxRegion[n], false
	case kRBox:
		// Minkowski sum of the box and a ball of radius r: distance to the inner solid, minus r
		h := scl(s.at(3), 0.5)
		d, n := boxDist(sub(p, s.at(0)), h)
		return d - P[6], boxRegion[n], false
	case kCapsule, kCone:
		a, b := s.at(0), s.at(3)
		r1, r2 := P[6], P[6]
		if s.Kind == kCone {
			r2 = P[7]
		}
		d, sb := sweptBall(p, a, b, r1, r2)
		region = "side"
		if sb < 1e-6 {
			region = "cap-a"
		} else if sb > 1-1e-6 {
			region = "cap-b"
		}
		pa := sub(p, a)
		perp := norm(pa)
		if a != b {
			u := unit(sub(b, a))
			perp = norm(sub(pa, scl(u, dot(pa, u))))
		}
		return d, region, perp < 0.05*(r1+sb*(r2-r1))
	case kCyl:
		ri, rb, h := 2*P[3]-P[4], P[4], P[5]
		q := sub(p, s.at(0))
		d, region := cylDist(q, ri, h)
		return d - rb, region, math.Hypot(q[0], q[2]) < 0.05*(ri+rb)
	case kPlane:
		n := s.at(3)
		o := mad(s.at(0), n, -P[6]) // a point of the plane
		t := dot(sub(p, o), n)
		foot := mad(p, n, -t) // projection of p onto the plane
		return math.Copysign(norm(sub(p, foot)), t), "half-space", false
	}
	panic("unknown kind " + s.Kind)
}

// ---------------------------------------------------------------- generators

func logU(t *rapid.T, label string, lo, hi float64) float64 {
	return math.Pow(10, rapid.Float64Range(lo, hi).Draw(t, label))
}

// dim: a positive size factor, log-uniform over [10^-1.5, 10^0.5] with a share of round values.
func dim(t *rapid.T, label string) float64 {
	if rapid.IntRange(0, 3).Draw(t, label+".nice") == 0 {
		return []float64{0.25, 0.5, 1, 2, 3}[rapid.IntRange(0, 4).Draw(t, label+".pick")]
	}
	return logU(t, label+".exp", -1.5, 0.5)
}

// frac: [0,1] with a share of the exact values 0, 1, 0.5.
func frac(t *rapid.T, label string) float64 {
	switch rapid.IntRange(0, 7).Draw(t, label+".fk") {
	case 0:
		return 0
	case 1:
		return 1
	case 2:
		return 0.5
	}
	return rapid.Float64Range(0, 1).Draw(t, label)
}

func angle(t *rapid.T, label string) float64 {
	if rapid.IntRange(0, 4).Draw(t, label+".ak") == 0 {
		return float64(rapid.IntRange(0, 7).Draw(t, label+".oct")) * math.Pi / 4
	}
	return rapid.Float64Range(0, 2*math.Pi).Draw(t, label)
}

func pm(t *rapid.T, label string) float64 {
	if rapid.Bool().Draw(t, label) {
		return -1
	}
	return 1
}

func unitDir(t *rapid.T, label string) V3 { return unit(gen.Dir(t, label)) }

// genScale: the overall size of a shape, 10^[-2,2] with a share of exactly 1.
func genScale(t *rapid.T, label string) float64 {
	if rapid.IntRange(0, 3).Draw(t, label+".one") == 0 {
		return 1
	}
	return logU(t, label, -2, 2)
}

// genShape draws a valid shape of the given kind around `c` with overall size S.
func genShape(t *rapid.T, lb, kind string, c V3, S float64) Shape {
	P := []float64{c[0], c[1], c[2]}
	switch kind {
	case kSphere:
		P = append(P, S*dim(t, lb+".r"))
	case kBox, kRBox:
		P = append(P, S*dim(t, lb+".bx"), S*dim(t, lb+".by"), S*dim(t, lb+".bz"))
		if kind == kRBox {
			P = append(P, S*dim(t, lb+".round"))
		}
	case kCapsule, kCone:
		l := S * dim(t, lb+".len")
		b := mad(c, unitDir(t, lb+".axis"), l)
		if kind == kCapsule && rapid.IntRange(0, 23).Draw(t, lb+".zeroLength") == 0 {
			b = c // a capsule whose end points coincide is the ball around that point
		}
		P = append(P, b[0], b[1], b[2])
		if kind == kCapsule {
			P = append(P, S*dim(t, lb+".r"))
			break
		}
		lReal := norm(sub(b, c))
		var k float64 // slope |r1-r2|/|b-a|
		switch rapid.IntRange(0, 5).Draw(t, lb+".slopeKind") {
		case 0:
			k = 0
		case 1:
			k = 1 - logU(t, lb+".slopeGap", -3.9, -1) // close to the precondition's edge
		default:
			k = rapid.Float64Range(0.02, 0.9).Draw(t, lb+".slope")
		}
		small := S * dim(t, lb+".rsmall")
		big := small + k*lReal
		if rapid.Bool().Draw(t, lb+".bigAtB") {
			P = append(P, small, big)
		} else {
			P = append(P, big, small)
		}
	case kCyl:
		ri := S * dim(t, lb+".inner")
		if rapid.IntRange(0, 9).Draw(t, lb+".noInner") == 0 {
			ri = 0 // the rounding radius equals the outer radius
		}
		rb := S * dim(t, lb+".round")
		P = append(P, (ri+rb)/2, rb, S*dim(t, lb+".h"))
		if 2*P[3]-P[4] < 0 { // rounding of (ri+rb)/2
			P[3] = math.Nextafter(P[3], math.Inf(1))
		}
	case kPlane:
		n := unitDir(t, lb+".n")
		h := 0.0
		if rapid.IntRange(0, 3).Draw(t, lb+".hk") > 0 {
			h = S * dim(t, lb+".h") * pm(t, lb+".hneg")
		}
		P = append(P, n[0], n[1], n[2], h)
	}
	return Shape{kind, P}
}

func genPosition(t *rapid.T, label string) V3 { return gen.Vec3(t, gen.Mag(-3, 3), label) }

// anchor: a point of the surface and the outward unit normal there (for edges, corners and rims: a
// unit vector of the normal cone).
type anchor struct{ Q, N V3 }

// surfPoint constructs a point of the shape's surface from a parametric description of it.
func surfPoint(t *rapid.T, lb string, s Shape, S float64) anchor {
	P := s.P
	switch s.Kind {
	case kSphere:
		n := unitDir(t, lb+".dir")
		return anchor{mad(s.at(0), n, P[3]), n}
	case kBox, kRBox:
		h := scl(s.at(3), 0.5)
		mask := rapid.IntRange(1, 7).Draw(t, lb+".pinned")
		var loc, n V3
		first := -1
		for i := 0; i < 3; i++ {
			if mask>>i&1 == 1 {
				sg := pm(t, fmt.Sprintf("%s.side%d", lb, i))
				loc[i] = sg * h[i]
				n[i] = sg * frac(t, fmt.Sprintf("%s.w%d", lb, i))
				if first < 0 {
					first = i
				}
			} else {
				loc[i] = h[i] * gen.Unit().Draw(t, fmt.Sprintf("%s.free%d", lb, i))
			}
		}
		if maxAbs(n) == 0 {
			n[first] = loc[first] / h[first]
		}
		n = unit(n)
		q := add(s.at(0), loc)
		if s.Kind == kRBox {
			q = mad(q, n, P[6])
		}
		return anchor{q, n}
	case kCapsule, kCone:
		a, b := s.at(0), s.at(3)
		r1, r2 := P[6], P[6]
		if s.Kind == kCone {
			r2 = P[7]
		}
		ba := sub(b, a)
		l := norm(ba)
		u, k := V3{1, 0, 0}, 0.0 // zero-length capsule: a ball, any axis serves to spread the sample directions
		if l > 0 {
			u = scl(ba, 1/l)
			k = (r1 - r2) / l // cosine between the axis and the normal of the common tangent cone
		}
		e1, e2 := frame(u)
		th := angle(t, lb+".theta")
		rad := add(scl(e1, math.Cos(th)), scl(e2, math.Sin(th)))
		switch rapid.IntRange(0, 3).Draw(t, lb+".part") {
		case 2: // spherical cap around a: directions with dir.u in [-1,k]
			c := -1 + (k+1)*frac(t, lb+".capA")
			n := add(scl(u, c), scl(rad, math.Sqrt(math.Max(0, 1-c*c))))
			return anchor{mad(a, n, r1), n}
		case 3: // spherical cap around b: directions with dir.u in [k,1]
			c := k + (1-k)*frac(t, lb+".capB")
			n := add(scl(u, c), scl(rad, math.Sqrt(math.Max(0, 1-c*c))))
			return anchor{mad(b, n, r2), n}
		}
		sv := frac(t, lb+".s")
		n := add(scl(u, k), scl(rad, math.Sqrt(math.Max(0, 1-k*k))))
		return anchor{mad(mad(a, ba, sv), n, r1+sv*(r2-r1)), n}
	case kCyl:
		ri, rb, h := 2*P[3]-P[4], P[4], P[5]
		th := angle(t, lb+".theta")
		rad := V3{math.Cos(th), 0, math.Sin(th)}
		var q0, n V3
		switch rapid.IntRange(0, 3).Draw(t, lb+".part") {
		case 2: // flat cap
			sg := pm(t, lb+".top")
			q0, n = add(scl(rad, ri*frac(t, lb+".rho")), V3{0, sg * h, 0}), V3{0, sg, 0}
		case 3: // rounded rim
			sg := pm(t, lb+".top")
			psi := frac(t, lb+".psi") * math.Pi / 2
			q0 = add(scl(rad, ri), V3{0, sg * h, 0})
			n = add(scl(rad, math.Cos(psi)), V3{0, sg * math.Sin(psi), 0})
		default: // side
			q0, n = add(scl(rad, ri), V3{0, h * gen.Unit().Draw(t, lb+".y"), 0}), rad
		}
		return anchor{mad(add(s.at(0), q0), n, rb), n}
	case kPlane:
		n := s.at(3)
		e1, e2 := frame(unit(n))
		q := centre(s)
		q = mad(q, e1, S*gen.Mag(-2, 1).Draw(t, lb+".u"))
		q = mad(q, e2, S*gen.Mag(-2, 1).Draw(t, lb+".v"))
		return anchor{q, n}
	}
	panic("unknown kind " + s.Kind)
}

// specialPoint: on / next to the axis or the centre, beyond the caps, on the box diagonals.
func specialPoint(t *rapid.T, lb string, s Shape, S float64) V3 {
	P := s.P
	tiny := func(ref float64) float64 {
		if rapid.Bool().Draw(t, lb+".exactlyOn") {
			return 0
		}
		return ref * logU(t, lb+".eps", -9, -1)
	}
	switch s.Kind {
	case kSphere:
		return mad(s.at(0), unitDir(t, lb+".dir"), tiny(P[3]))
	case kBox, kRBox:
		// on a diagonal of the box (where the largest component of |q|-h is tied), optionally nudged
		h := scl(s.at(3), 0.5)
		f := 2 * frac(t, lb+".diag")
		var loc V3
		for i := 0; i < 3; i++ {
			loc[i] = pm(t, fmt.Sprintf("%s.sg%d", lb, i)) * h[i]
		}
		m := math.Min(h[0], math.Min(h[1], h[2]))
		// corner + (f-1)*m*(sign vector): equal distance to the three faces through the corner
		var q V3
		for i := 0; i < 3; i++ {
			q[i] = loc[i] + (f-1)*m*loc[i]/h[i]
		}
		q[rapid.IntRange(0, 2).Draw(t, lb+".nudgeAxis")] += tiny(m)
		return add(s.at(0), q)
	case kCapsule, kCone:
		a, b := s.at(0), s.at(3)
		u := V3{1, 0, 0}
		if a != b {
			u = unit(sub(b, a))
		}
		e1, e2 := frame(u)
		th := angle(t, lb+".theta")
		rad := add(scl(e1, math.Cos(th)), scl(e2, math.Sin(th)))
		sv := -0.5 + 2*frac(t, lb+".s") // -0.5 .. 1.5, with exact -0.5, 0.5, 1.5
		if rapid.IntRange(0, 3).Draw(t, lb+".atEnd") == 0 {
			sv = float64(rapid.IntRange(0, 1).Draw(t, lb+".end"))
		}
		return mad(mad(a, sub(b, a), sv), rad, tiny(math.Max(P[6], P[len(P)-1])))
	case kCyl:
		th := angle(t, lb+".theta")
		y := (P[5] + P[4]) * rapid.Float64Range(-1.5, 1.5).Draw(t, lb+".y")
		e := tiny(2 * P[3])
		return add(s.at(0), V3{e * math.Cos(th), y, e * math.Sin(th)})
	case kPlane:
		if rapid.Bool().Draw(t, lb+".atPosition") {
			return s.at(0)
		}
		return mad(centre(s), unitDir(t, lb+".dir"), tiny(S))
	}
	panic("unknown kind " + s.Kind)
}

// Pt is a sample point; Surf marks a point constructed ON the surface.
type Pt struct {
	P    V3   `json:"p"`
	Surf bool `json:"surf,omitempty"`
}

// genPoint draws one sample point around the shape; when it was built from a surface point the
// anchor is returned too (used to mirror the point across the surface).
func genPoint(t *rapid.T, lb string, s Shape, S float64) (Pt, *anchor) {
	mode := rapid.IntRange(0, 11).Draw(t, lb+".mode")
	switch {
	case mode <= 1: // on the surface
		a := surfPoint(t, lb, s, S)
		return Pt{P: a.Q, Surf: true}, &a
	case mode <= 4: // just inside / just outside
		a := surfPoint(t, lb, s, S)
		return Pt{P: mad(a.Q, a.N, pm(t, lb+".inward")*S*logU(t, lb+".off", -7, -1))}, &a
	case mode == 5: // clearly outside, in the region the surface point belongs to
		a := surfPoint(t, lb, s, S)
		return Pt{P: mad(a.Q, a.N, S*logU(t, lb+".off", -1, 1))}, &a
	case mode == 6: // deep inside (may come out on the other side)
		a := surfPoint(t, lb, s, S)
		return Pt{P: mad(a.Q, a.N, -S*logU(t, lb+".off", -1, 0.5))}, &a
	case mode <= 8:
		return Pt{P: specialPoint(t, lb, s, S)}, nil
	case mode == 9: // far away
		return Pt{P: mad(centre(s), unitDir(t, lb+".dir"), S*logU(t, lb+".far", 1, 3))}, nil
	}
	// uniform noise around the shape
	return Pt{P: add(centre(s), scl(gen.Vec3(t, rapid.Float64Range(-1, 1), lb+".noise"), 3*S))}, nil
}

// ---------------------------------------------------------------- primitives: sign, surface, distance, Lipschitz

type Pair struct {
	A Pt `json:"a"`
	B Pt `json:"b"`
}

type PrimCase struct {
	Shape Shape  `json:"shape"`
	Pairs []Pair `json:"pairs"`
}

func genPrim(t *rapid.T) PrimCase {
	kind := rapid.SampledFrom(kinds).Draw(t, "kind")
	S := genScale(t, "S")
	s := genShape(t, "shape", kind, genPosition(t, "pos"), S)
	c := PrimCase{Shape: s}
	n := rapid.IntRange(4, 20).Draw(t, "npairs")
	for i := 0; i < n; i++ {
		lb := fmt.Sprintf("pair%d", i)
		a, anc := genPoint(t, lb+".a", s, S)
		var b Pt
		k := rapid.IntRange(0, 9).Draw(t, lb+".partner")
		switch {
		case k <= 2 && anc != nil: // mirror across the surface along the normal
			side := 1.0
			if dot(sub(a.P, anc.Q), anc.N) > 0 {
				side = -1
			}
			b = Pt{P: mad(anc.Q, anc.N, side*S*logU(t, lb+".mirror", -7, 0))}
		case k <= 6: // a small step in any direction
			b = Pt{P: mad(a.P, unitDir(t, lb+".stepDir"), S*logU(t, lb+".step", -7, 0))}
		default:
			b, _ = genPoint(t, lb+".b", s, S)
		}
		c.Pairs = append(c.Pairs, Pair{a, b})
	}
	return c
}

type classSet struct {
	seen map[string]bool
	o    *vh.Obs
}

func (c *classSet) add(name string) {
	if !c.seen[name] {
		c.seen[name] = true
		c.o.Class(name)
	}
}

func runPrim(c PrimCase, o *vh.Obs) *vh.Failure {
	if !c.Shape.valid() || len(c.Pairs) == 0 {
		o.Class("invalid-case")
		return nil
	}
	for _, pr := range c.Pairs {
		if maxAbs(pr.A.P) > maxCoord || maxAbs(pr.B.P) > maxCoord {
			o.Class("invalid-case")
			return nil
		}
	}
	s, kind := c.Shape, c.Shape.Kind
	f := build(s)
	cls := &classSet{map[string]bool{}, o}
	smag := s.mag()
	// one point: returns the library value, the side (-1 inside, +1 outside, 0 in the band)
	point := func(pt Pt) (got float64, side int, special bool, fail *vh.Failure) {
		p := pt.P
		scale := math.Max(smag, maxAbs(p))
		tol := 1e-9 * scale
		got = f(v(p))
		d, region, nearAxis := ref(s, p)
		if d > tol {
			side = 1
		} else if d < -tol {
			side = -1
		}
		status := [3]string{"inside", "band", "outside"}[side+1]
		if pt.Surf {
			status = "surface"
		}
		cls.add(kind + "/" + region + "/" + status)
		if nearAxis {
			cls.add(kind + "/near-axis-or-centre")
		}
		special = specialRegion(region)
		if !finite(got) {
			sig := kind + "/nonfinite"
			if kind == kCapsule && s.at(0) == s.at(3) {
				sig = "capsule/zero-length/nonfinite"
			}
			return got, side, special, vh.Failf(sig, "%s%v at %v = %v (reference distance %g, region %s)", kind, s.P, p, got, d, region)
		}
		if (side > 0 && !(got > 0)) || (side < 0 && !(got < 0)) {
			return got, side, special, vh.Failf(kind+"/sign", "%s%v at %v = %g but the reference distance is %g (region %s, band %g)", kind, s.P, p, got, d, region, tol)
		}
		if side == 0 {
			o.Count("points_in_band", 1)
		}
		if pt.Surf {
			if math.Abs(d) > tol {
				// the parametric surface construction and the distance reference disagree: harness defect
				return got, side, special, vh.Failf("selfcheck/"+kind+"/surface-construction", "constructed surface point %v of %s%v has reference distance %g (band %g)", p, kind, s.P, d, tol)
			}
			if math.Abs(got) > tol {
				return got, side, special, vh.Failf(kind+"/surface", "%s%v at the constructed surface point %v (region %s) = %g, want |f| <= %g", kind, s.P, p, region, got, tol)
			}
			o.Count("surface_points", 1)
		}
		if exactKind(kind) {
			if math.Abs(got-d) > tol {
				return got, side, special, vh.Failf(kind+"/distance", "%s%v at %v = %.17g, Euclidean distance to the surface %.17g (region %s, diff %g > %g)", kind, s.P, p, got, d, region, math.Abs(got-d), tol)
			}
		} else {
			// f(q)=0 at the nearest surface point q and 1-Lipschitz  =>  |f(p)| <= |p-q|
			if math.Abs(got) > math.Abs(d)*(1+1e-9)+tol {
				return got, side, special, vh.Failf(kind+"/overestimate", "%s%v at %v = %.17g exceeds the distance to the surface %.17g (region %s)", kind, s.P, p, got, d, region)
			}
			if math.Abs(got-d) <= tol {
				o.Count("exact_agree/"+kind, 1)
			} else {
				o.Count("exact_disagree/"+kind, 1)
			}
		}
		return got, side, special, nil
	}
	for _, pr := range c.Pairs {
		fa, sa, spa, fail := point(pr.A)
		if fail != nil {
			return fail
		}
		fb, sb, spb, fail := point(pr.B)
		if fail != nil {
			return fail
		}
		if sa*sb < 0 {
			o.NonTrivial()
			cls.add(kind + "/pair-straddles-surface")
		}
		if spa || spb {
			o.NonTrivial()
		}
		scale := math.Max(smag, math.Max(maxAbs(pr.A.P), maxAbs(pr.B.P)))
		dist := norm(sub(pr.A.P, pr.B.P))
		if diff := math.Abs(fa - fb); diff > dist*(1+1e-9)+1e-12*scale {
			return vh.Failf(kind+"/lipschitz", "%s%v: |f(p)-f(q)| = |%.17g - %.17g| = %g > |p-q| = %g for p=%v q=%v", kind, s.P, fa, fb, diff, dist, pr.A.P, pr.B.P)
		}
		o.Count("pairs", 1)
	}
	var pts []V3
	for _, pr := range c.Pairs {
		pts = append(pts, pr.A.P, pr.B.P)
	}
	return sameClosureConcurrently(f, pts, kind, o)
}

// ---------------------------------------------------------------- set operations

type OpCase struct {
	Op     string  `json:"op"` // union | intersect | subtract (Shapes[0] minus Shapes[1])
	Shapes []Shape `json:"shapes"`
	Pts    []V3    `json:"pts"`
}

func genOp(t *rapid.T) OpCase {
	c := OpCase{Op: rapid.SampledFrom([]string{"union", "intersect", "subtract"}).Draw(t, "op")}
	n := 2
	if c.Op != "subtract" {
		n = []int{1, 2, 2, 2, 3, 3, 4}[rapid.IntRange(0, 6).Draw(t, "n")]
	}
	S := genScale(t, "S")
	c0 := genPosition(t, "pos")
	sizes := make([]float64, n)
	for i := 0; i < n; i++ {
		lb := fmt.Sprintf("shape%d", i)
		ci, Si := c0, S
		if i > 0 { // overlapping neighbours: centre within ~2.5 sizes, similar size
			Si = S * logU(t, lb+".rel", -0.5, 0.5)
			ci = mad(c0, unitDir(t, lb+".dir"), S*rapid.Float64Range(0, 2.5).Draw(t, lb+".dist"))
		}
		sizes[i] = Si
		c.Shapes = append(c.Shapes, genShape(t, lb, rapid.SampledFrom(kinds).Draw(t, lb+".kind"), ci, Si))
	}
	np := rapid.IntRange(6, 24).Draw(t, "npts")
	for j := 0; j < np; j++ {
		lb := fmt.Sprintf("pt%d", j)
		i := rapid.IntRange(0, n-1).Draw(t, lb+".around")
		if n > 1 && rapid.IntRange(0, 3).Draw(t, lb+".between") == 0 {
			k := rapid.IntRange(0, n-1).Draw(t, lb+".other")
			a, b := centre(c.Shapes[i]), centre(c.Shapes[k])
			p := mad(a, sub(b, a), rapid.Float64Range(0, 1).Draw(t, lb+".mix"))
			c.Pts = append(c.Pts, mad(p, unitDir(t, lb+".dir"), S*logU(t, lb+".jit", -3, 0)))
			continue
		}
		p, _ := genPoint(t, lb, c.Shapes[i], sizes[i])
		c.Pts = append(c.Pts, p.P)
	}
	return c
}

func runOp(c OpCase, o *vh.Obs) *vh.Failure {
	n := len(c.Shapes)
	ok := n >= 1 && len(c.Pts) > 0 && (c.Op == "union" || c.Op == "intersect" || (c.Op == "subtract" && n == 2))
	smag := 0.0
	for _, s := range c.Shapes {
		ok = ok && s.valid()
		if ok {
			smag = math.Max(smag, s.mag())
		}
	}
	for _, p := range c.Pts {
		ok = ok && maxAbs(p) <= maxCoord
	}
	if !ok {
		o.Class("invalid-case")
		return nil
	}
	fields := make([]sample.Vec3ToFloat, n)
	for i, s := range c.Shapes {
		fields[i] = build(s)
	}
	var f sample.Vec3ToFloat
	switch c.Op {
	case "union":
		f = sdf.Union(fields...)
	case "intersect":
		f = sdf.Intersect(fields...)
	case "subtract":
		f = sdf.Subtract(fields[0], fields[1])
	}
	cls := &classSet{map[string]bool{}, o}
	for _, p := range c.Pts {
		tol := 1e-9 * math.Max(smag, maxAbs(p))
		in, out := 0, 0 // operands p is clearly inside / clearly outside of
		sides := make([]int, n)
		for i, s := range c.Shapes {
			d, _, _ := ref(s, p)
			if d > tol {
				sides[i], out = 1, out+1
			} else if d < -tol {
				sides[i], in = -1, in+1
			}
		}
		want, pattern := 0, "band" // want: -1 the result must be negative, +1 positive, 0 not judged
		switch c.Op {
		case "union":
			switch {
			case in > 0 && out > 0:
				want, pattern = -1, "in-some"
			case in > 0:
				want, pattern = -1, "in-all"
				if in < n {
					pattern = "in-some+band"
				}
			case out == n:
				want, pattern = 1, "in-none"
			}
		case "intersect":
			switch {
			case in > 0 && out > 0:
				want, pattern = 1, "in-some"
			case in == n:
				want, pattern = -1, "in-all"
			case out == n:
				want, pattern = 1, "in-none"
			case out > 0:
				want, pattern = 1, "in-none+band"
			}
		case "subtract":
			switch {
			case sides[0] < 0 && sides[1] > 0:
				want, pattern = -1, "base-only"
			case sides[0] < 0 && sides[1] < 0:
				want, pattern = 1, "in-both"
			case sides[0] > 0 && sides[1] < 0:
				want, pattern = 1, "sub-only"
			case sides[0] > 0 && sides[1] > 0:
				want, pattern = 1, "in-neither"
			case sides[0] > 0 || sides[1] < 0:
				want, pattern = 1, "outside+band"
			}
		}
		cls.add(fmt.Sprintf("%s/n=%d/%s", c.Op, n, pattern))
		if n > 1 && (pattern == "in-some" || pattern == "base-only" || pattern == "in-both") {
			o.NonTrivial()
		}
		got := f(v(p))
		if !finite(got) {
			return vh.Failf(c.Op+"/nonfinite", "%s of %v at %v = %v", c.Op, c.Shapes, p, got)
		}
		if (want < 0 && !(got < 0)) || (want > 0 && !(got > 0)) {
			return vh.Failf(c.Op+"/sign", "%s of %d shapes %v at %v = %g; the point is inside/outside (-1/+1, 0 = within the band) the operands: %v, so the result must be %s",
				c.Op, n, c.Shapes, p, got, sides, map[int]string{-1: "negative", 1: "positive"}[want])
		}
		if want == 0 {
			o.Count("points_in_band", 1)
		}
		o.Count("points", 1)
	}
	// the SAME closure evaluated from several goroutines at once (AddFieldParallel's workers call one
	// field function concurrently): every value must be the one the closure gives when called alone
	if len(c.Pts) >= 2 {
		return sameClosureConcurrently(f, c.Pts, c.Op, o)
	}
	return nil
}

// sameClosureConcurrently evaluates f at pts sequentially, then from four goroutines at the same time
// (each walking the points from its own start, eight rounds), and compares bit for bit.
func sameClosureConcurrently(f sample.Vec3ToFloat, pts []V3, what string, o *vh.Obs) *vh.Failure {
	want := make([]uint64, len(pts))
	for i, p := range pts {
		want[i] = math.Float64bits(f(v(p)))
	}
	const workers = 4
	type bad struct {
		i   int
		got uint64
	}
	found := make([]*bad, workers)
	start, done := make(chan struct{}), make(chan struct{}, workers)
	for w := 0; w < workers; w++ {
		go func(w int) {
			defer func() { done <- struct{}{} }()
			<-start
			for r := 0; r < 8 && found[w] == nil; r++ {
				for k := range pts {
					i := (k + w + r) % len(pts)
					if got := math.Float64bits(f(v(pts[i]))); got != want[i] {
						found[w] = &bad{i, got}
						return
					}
				}
			}
		}(w)
	}
	close(start)
	for w := 0; w < workers; w++ {
		<-done
	}
	o.Class("same-closure-from-4-goroutines")
	for _, b := range found {
		if b != nil {
			return vh.Failf("concurrent/"+what+"/value-differs-from-sequential", "%s: the field evaluated at %v while other goroutines evaluate the same closure gives %v; called alone it gives %v",
				what, pts[b.i], math.Float64frombits(b.got), math.Float64frombits(want[b.i]))
		}
	}
	return nil
}

// ---------------------------------------------------------------- translation

type TransCase struct {
	Shape  Shape `json:"shape"`
	Offset V3    `json:"offset"`
	Pts    []V3  `json:"pts"` // in the frame of the original shape; the moved field is probed at p+offset
}

func genTrans(t *rapid.T) TransCase {
	kind := rapid.SampledFrom(kinds).Draw(t, "kind")
	S := genScale(t, "S")
	c := TransCase{Shape: genShape(t, "shape", kind, genPosition(t, "pos"), S)}
	if rapid.Bool().Draw(t, "offsetRelative") {
		c.Offset = scl(gen.Vec3(t, gen.Mag(-2, 1), "offset"), S)
	} else {
		c.Offset = genPosition(t, "offset")
	}
	n := rapid.IntRange(4, 16).Draw(t, "npts")
	for j := 0; j < n; j++ {
		p, _ := genPoint(t, fmt.Sprintf("pt%d", j), c.Shape, S)
		c.Pts = append(c.Pts, p.P)
	}
	return c
}

func runTrans(c TransCase, o *vh.Obs) *vh.Failure {
	if !c.Shape.valid() || len(c.Pts) == 0 || !finite(c.Offset[0]+c.Offset[1]+c.Offset[2]) || maxAbs(c.Offset) > maxCoord {
		o.Class("invalid-case")
		return nil
	}
	s, kind := c.Shape, c.Shape.Kind
	f := build(s)
	g := sdf.Translate(f, v(c.Offset))
	there := moved(s, c.Offset)
	if !there.valid() {
		o.Class("invalid-case")
		return nil
	}
	for _, p := range c.Pts {
		if maxAbs(p) > maxCoord {
			o.Class("invalid-case")
			return nil
		}
	}
	zero := c.Offset == V3{}
	if zero {
		o.Class("translate/" + kind + "/zero-offset")
	} else {
		o.Class("translate/" + kind)
	}
	for _, p := range c.Pts {
		pt := add(p, c.Offset)
		scale := math.Max(math.Max(s.mag(), there.mag()), math.Max(maxAbs(p), math.Max(maxAbs(pt), maxAbs(c.Offset))))
		tol := 1e-9 * scale
		a, b := f(v(p)), g(v(pt))
		if !finite(b) {
			return vh.Failf("translate/nonfinite", "Translate(%s%v, %v) at %v = %v", kind, s.P, c.Offset, pt, b)
		}
		// the moved field at p+t equals the original field at p
		if math.Abs(a-b) > tol {
			return vh.Failf("translate/shift", "Translate(%s%v, %v) at p+t=%v is %.17g, the original field at p=%v is %.17g", kind, s.P, c.Offset, pt, b, p, a)
		}
		// and is negative exactly inside the shape whose positions were moved by t
		dThere, _, _ := ref(there, pt)
		if (dThere > tol && !(b > 0)) || (dThere < -tol && !(b < 0)) {
			return vh.Failf("translate/sign", "Translate(%s%v, %v) at %v = %g, reference distance of the moved shape %g", kind, s.P, c.Offset, pt, b, dThere)
		}
		dHere, _, _ := ref(s, pt)
		if !zero && ((dThere > tol && dHere < -tol) || (dThere < -tol && dHere > tol)) {
			o.NonTrivial() // a field that did not move would get this point wrong
		}
		o.Count("points", 1)
	}
	return nil
}

// ----------------------------------------------------------------

// evidence samples: the shape(s) and the first few points only
func samplePrim(c PrimCase) any {
	k := min(len(c.Pairs), 3)
	return map[string]any{"shape": c.Shape, "pairs_total": len(c.Pairs), "first_pairs": c.Pairs[:k]}
}
func sampleOp(c OpCase) any {
	k := min(len(c.Pts), 4)
	return map[string]any{"op": c.Op, "shapes": c.Shapes, "pts_total": len(c.Pts), "first_pts": c.Pts[:k]}
}
func sampleTrans(c TransCase) any {
	k := min(len(c.Pts), 4)
	return map[string]any{"shape": c.Shape, "offset": c.Offset, "pts_total": len(c.Pts), "first_pts": c.Pts[:k]}
}

func TestC19(t *testing.T) {
	vh.Drive(t, vh.Spec[PrimCase]{Name: "prim", Quick: 300000, Thorough: 9000000, Gen: genPrim, Run: runPrim, Sample: samplePrim})
	vh.Drive(t, vh.Spec[OpCase]{Name: "ops", Quick: 120000, Thorough: 3600000, Gen: genOp, Run: runOp, Sample: sampleOp})
	vh.Drive(t, vh.Spec[vh.Conc[OpCase]]{Name: "concurrent-ops", Quick: 2000, Thorough: 60000, Gen: vh.GenConc(genOp), Run: vh.RunConc(runOp), Repeat: 20})
	vh.Drive(t, vh.Spec[vh.Conc[PrimCase]]{Name: "concurrent-prim", Quick: 2000, Thorough: 60000, Gen: vh.GenConc(genPrim), Run: vh.RunConc(runPrim), Repeat: 20})
	vh.Drive(t, vh.Spec[TransCase]{Name: "translate", Quick: 60000, Thorough: 1800000, Gen: genTrans, Run: runTrans, Sample: sampleTrans})
}
