//go:build verif

// Package c12 decides property C12 (a saved graph reloads to the same graph, artifacts and
// bytes) with an edit-history machine on generator.App (hook VerifGraph, build tag verif).
package c12

import (
	"bytes"
	"encoding/base64"
	"encoding/json"
	"fmt"
	"image"
	"image/color"
	"image/png"
	"io"
	"log"
	"os"
	"path/filepath"
	"sort"
	"strings"
	"testing"
	"time"

	"github.com/EliCDavis/polyform/generator"
	"github.com/EliCDavis/polyform/generator/artifact"
	_ "github.com/EliCDavis/polyform/generator/artifact/basics"
	"github.com/EliCDavis/polyform/generator/graph"
	"github.com/EliCDavis/polyform/nodes"
	"github.com/EliCDavis/polyform/refutil"
	"pgregory.net/rapid"

	_ "github.com/EliCDavis/polyform/formats/colmap"
	_ "github.com/EliCDavis/polyform/formats/gltf"
	_ "github.com/EliCDavis/polyform/formats/opensfm"
	_ "github.com/EliCDavis/polyform/formats/ply"
	_ "github.com/EliCDavis/polyform/formats/splat"
	_ "github.com/EliCDavis/polyform/formats/spz"
	_ "github.com/EliCDavis/polyform/formats/stl"
	_ "github.com/EliCDavis/polyform/generator/parameter"
	_ "github.com/EliCDavis/polyform/math"
	_ "github.com/EliCDavis/polyform/math/vector"
	_ "github.com/EliCDavis/polyform/modeling/extrude"
	_ "github.com/EliCDavis/polyform/modeling/meshops"
	_ "github.com/EliCDavis/polyform/modeling/meshops/gausops"
	_ "github.com/EliCDavis/polyform/modeling/primitives"
	_ "github.com/EliCDavis/polyform/modeling/repeat"
	_ "github.com/EliCDavis/polyform/nodes/experimental"

	"verifharness/internal/oracle"
	"verifharness/internal/vh"
)

// order-sensitive array input: makes scrambled array order visible in graph and artifact
type JoinData struct {
	Values []nodes.NodeOutput[string]
	Sep    nodes.NodeOutput[string]
}

func (j JoinData) Process() (string, error) {
	parts := []string{}
	for _, v := range j.Values {
		if v != nil {
			parts = append(parts, v.Value())
		}
	}
	sep := ","
	if j.Sep != nil {
		sep = j.Sep.Value()
	}
	return strings.Join(parts, sep), nil
}

type JoinNode = nodes.Struct[string, JoinData]

type FmtData struct {
	F nodes.NodeOutput[float64]
	I nodes.NodeOutput[int]
	B nodes.NodeOutput[bool]
	D nodes.NodeOutput[[]byte]
	S nodes.NodeOutput[string]
}

func (j FmtData) Process() (string, error) {
	s := ""
	if j.F != nil {
		s += fmt.Sprint("f=", j.F.Value())
	}
	if j.I != nil {
		s += fmt.Sprint("i=", j.I.Value())
	}
	if j.B != nil {
		s += fmt.Sprint("b=", j.B.Value())
	}
	if j.D != nil {
		s += fmt.Sprint("d=", base64.StdEncoding.EncodeToString(j.D.Value()))
	}
	if j.S != nil {
		s += "s=" + j.S.Value()
	}
	return s, nil
}

type FmtNode = nodes.Struct[string, FmtData]

var allTypes []string

func TestMain(m *testing.M) {
	log.SetOutput(io.Discard)
	f := &refutil.TypeFactory{}
	refutil.RegisterType[JoinNode](f)
	refutil.RegisterType[FmtNode](f)
	generator.RegisterTypes(f)
	for _, ty := range (&generator.App{}).VerifGraph().Schema().Types {
		allTypes = append(allTypes, ty.Type)
	}
	sort.Strings(allTypes)
	vh.Main(m, vh.Meta{
		ID:    "C12",
		Level: "exploration",
		Rule: "rapid-generated edit histories (3..45 actions) on generator.App (graph instance reached through the verif hook, every node package cmd/polyform imports registered, plus two harness nodes: an order-sensitive string Join with an array input and a formatter): create node of a drawn registered type (weighted towards parameters, Join, text artifact), connect type-compatible ports incl. array inputs (up to 14 entries; 1 history in 4 fills one array input of the Join with 11..14 or 99..130 string parameters in one burst, about 1 history in 150 with 1001/1024/1100 - four-digit indices - and is otherwise cut to 6 actions), disconnect scalar and array inputs, UpdateParameter with a value for each parameter type (int, float64, bool, string incl. unicode/escapes, vector2/3, vector3 array, AABB, colour, file bytes, PNG image), set name/description, designate producers, set/delete nested metadata, delete nodes nothing depends on; at the end (and at drawn points) save -> load into a fresh App -> compare -> save again. Also every graph file shipped under examples/ (load -> save -> load -> save). " +
			"Oracle: node ids, types, ordered dependency lists (name, id, port), parameter data, producers, metadata equal between original and reloaded instance (graph.Instance.Schema()); artifacts of producers that render deterministically on the original equal on the reload; second save byte-identical to the first; two saves of one instance identical. " +
			"Non-trivial = an array input with >= 11 connections, or >= 2 binary (file/image) parameters, or a disconnect in the history. Distinct by action-list JSON.",
		Assumptions: []string{
			"known finding jbtf-view-length-ignored: a generated graph holds at most one File parameter and then no Image parameter (counted as excluded_known); pinned reproducer in regress/",
			"metadata deletes only target existing paths and sets never descend through a non-map value (both panic by design); float parameters are finite",
			"artifact comparison only for producers whose two renders on the original instance are identical and finish within the watchdog (others counted as skipped)",
			"connections only from nodes created earlier (acyclic)",
		},
	})
}

type Op struct {
	K string // create connect disconnect param rename producer meta metadel delete saveload
	A int
	B int
	C int
	S string `json:",omitempty"`
	D []byte `json:",omitempty"`
	F float64
}

type Case struct {
	Ops []Op
	// NoExclude disables the known-finding exclusion (set only by the pinned reproducer).
	NoExclude bool `json:",omitempty"`
}

var opKinds = []string{"create", "create", "create", "connect", "connect", "connect", "connect", "disconnect", "param", "param", "rename", "producer", "meta", "metadel", "delete", "saveload", "swaparr"}

func favourite(ty string) bool {
	return strings.Contains(ty, "parameter.") || strings.Contains(ty, "JoinData") || strings.Contains(ty, "FmtData") || strings.Contains(ty, "TextNodeData")
}

func genCase(t *rapid.T) Case {
	min := rapid.IntRange(3, 30).Draw(t, "minSteps")
	ops := rapid.SliceOfN(rapid.Custom(func(t *rapid.T) Op {
		op := Op{K: rapid.SampledFrom(opKinds).Draw(t, "k"), A: rapid.IntRange(0, 999).Draw(t, "a"), B: rapid.IntRange(0, 63).Draw(t, "b"), C: rapid.IntRange(0, 63).Draw(t, "c")}
		switch op.K {
		case "create":
			if rapid.IntRange(0, 3).Draw(t, "fav") != 0 {
				op.B = 1 // favourite types
			} else {
				op.B = 0
			}
		case "param":
			op.S = rapid.OneOf(rapid.StringMatching(`[a-zA-Z0-9 ]{0,8}`), rapid.String()).Draw(t, "s")
			op.D = rapid.SliceOfN(rapid.Byte(), 0, 24).Draw(t, "bytes")
			op.F = rapid.OneOf(rapid.Float64Range(-1e3, 1e3), rapid.Float64Range(-1e300, 1e300)).Draw(t, "f")
		case "rename":
			op.S = rapid.StringMatching(`[a-zA-Z "\\]{0,10}`).Draw(t, "name")
		}
		return op
	}), min, 45).Draw(t, "ops")
	// an optional burst that fills one array input beyond ten entries
	n := 0
	if rapid.IntRange(0, 3).Draw(t, "burst") == 0 {
		n = rapid.IntRange(11, 14).Draw(t, "burstLen")
		if rapid.IntRange(0, 7).Draw(t, "hugeBurst") == 0 {
			n = rapid.IntRange(99, 130).Draw(t, "hugeBurstLen") // three-digit indices
		}
	}
	// rarer and bigger (about 1 history in 150; rapid's IntRange favours the ends of its range, a
	// full-width draw modulo 101 compared with a non-minimal residue is met in 1 of 156, measured):
	// four-digit indices on one array input; the rest of such a history is cut to at most 6 actions,
	// every save/load/compare of a 1100-node graph costs tens of milliseconds
	if rapid.Uint64().Draw(t, "burst1000")%101 == 77 {
		n = rapid.SampledFrom([]int{1001, 1024, 1100}).Draw(t, "burst1000Len")
		if len(ops) > 6 {
			ops = ops[:6]
		}
	}
	if n > 0 {
		burst := []Op{{K: "create", A: joinTypeIndex(), B: 2, C: 99}}
		for i := 0; i < n; i++ {
			burst = append(burst, Op{K: "create", A: stringParamIndex(), B: 2, C: 99}, Op{K: "param", A: 0, B: 1, S: fmt.Sprintf("v%d", i)}, Op{K: "burstconnect"})
		}
		// ... and renders it through a text artifact, so a scrambled order is visible in the artifact too
		burst = append(burst, Op{K: "create", S: "TextNodeData", C: 99}, Op{K: "bursttext"})
		pos := rapid.IntRange(0, len(ops)).Draw(t, "burstPos")
		ops = append(append(append([]Op{}, ops[:pos]...), burst...), ops[pos:]...)
	}
	return Case{Ops: ops}
}

func typeIndex(substr string) int {
	for i, ty := range allTypes {
		if strings.Contains(ty, substr) {
			return i
		}
	}
	return 0
}
func joinTypeIndex() int    { return typeIndex("JoinData") }
func stringParamIndex() int { return typeIndex("parameter.Value[string]") }

type nd struct {
	id, typ, outT string
	ins           []string          // sorted input names
	inT           map[string]string // input type
	arr           map[string]bool
	conn          map[string]string // scalar port -> source id
	arrConn       map[string][]string
	seq           int
	isParam       bool
	artifact      bool
}

func pngBytes(c byte) []byte {
	img := image.NewRGBA(image.Rect(0, 0, 2, 2))
	img.Set(0, 0, color.RGBA{c, 1, 2, 255})
	b := &bytes.Buffer{}
	png.Encode(b, img)
	return b.Bytes()
}

// view: the observable graph (node versions and the type catalogue removed)
func view(i *graph.Instance) string {
	s := i.Schema()
	s.Types = nil
	for k, n := range s.Nodes {
		n.Version = 0
		s.Nodes[k] = n
	}
	d, err := json.Marshal(s)
	if err != nil {
		panic(err)
	}
	return string(d)
}

func renderWatched(inst *graph.Instance, name string) (out string, status string) {
	type res struct{ out, status string }
	done := make(chan res, 1)
	go func() {
		defer func() {
			if r := recover(); r != nil {
				done <- res{"", "panic"}
			}
		}()
		b := &bytes.Buffer{}
		if err := inst.Artifact(name).Write(b); err != nil {
			done <- res{"", "error:" + err.Error()}
			return
		}
		done <- res{b.String(), "ok"}
	}()
	select {
	case r := <-done:
		return r.out, r.status
	case <-time.After(5 * time.Second):
		return "", "timeout"
	}
}

const jbtfSig = "jbtf-view-length-ignored/file-param-not-last"

func runCase(c Case, o *vh.Obs) *vh.Failure {
	app := &generator.App{Name: "verif", Version: "1", Description: "c12"}
	inst := app.VerifGraph()
	var ns []*nd
	byID := map[string]*nd{}
	producers := map[string]string{} // file -> node id
	swaps := 0
	meta := map[string]bool{} // existing leaf paths
	seq := 0
	disconnects, maxArr := 0, 0
	var lastBurstJoin, lastBurstParam *nd
	binaries := func() (files, images int) {
		for _, n := range ns {
			if strings.HasSuffix(n.typ, "parameter.File") {
				files++
			}
			if strings.HasSuffix(n.typ, "parameter.Image") {
				images++
			}
		}
		return
	}
	dependents := func(id string) bool {
		for _, n := range ns {
			for _, s := range n.conn {
				if s == id {
					return true
				}
			}
			for _, l := range n.arrConn {
				for _, s := range l {
					if s == id {
						return true
					}
				}
			}
		}
		return false
	}
	saveload := func(step int) *vh.Failure {
		var b1, b1b []byte
		if kind, val := oracle.Try(func() { b1 = app.Schema(); b1b = app.Schema() }); kind != "" {
			return vh.Failf("save-panic-"+kind, "step %d: App.Schema() panicked: %v", step, val)
		}
		if !bytes.Equal(b1, b1b) {
			return vh.Failf("two-saves-differ", "step %d: two saves of one unchanged graph differ (%d vs %d bytes)\n%s", step, len(b1), len(b1b), firstDiff(b1, b1b))
		}
		app2 := &generator.App{}
		inst2 := app2.VerifGraph()
		var err error
		if kind, val := oracle.Try(func() { err = app2.ApplySchema(b1) }); kind != "" {
			return vh.Failf("load-panic-"+kind, "step %d: ApplySchema panicked on the app's own save: %v\n%s", step, val, clip(b1))
		}
		if err != nil {
			return vh.Failf("load-error", "step %d: ApplySchema rejected the app's own save: %v\n%s", step, err, clip(b1))
		}
		v1, v2 := view(inst), view(inst2)
		if v1 != v2 {
			return vh.Failf("graph-differs-after-reload", "step %d: the reloaded graph differs from the saved one\n%s", step, firstDiff([]byte(v1), []byte(v2)))
		}
		// parameter payloads (file bytes and images are not part of the schema view)
		for _, n := range ns {
			if !n.isParam {
				continue
			}
			var d1, d2 []byte
			if kind, val := oracle.Try(func() { d1, d2 = inst.ParameterData(n.id), inst2.ParameterData(n.id) }); kind != "" {
				return vh.Failf("parameterdata-panic-"+kind, "step %d: ParameterData(%s) panicked: %v", step, n.typ, val)
			}
			if bytes.Equal(d1, d2) {
				continue
			}
			if strings.HasSuffix(n.typ, "parameter.File") && len(d2) > len(d1) && bytes.HasPrefix(d2, d1) {
				// exactly the known finding: the decoder read past the bufferView's byteLength
				if !o.Known(jbtfSig) {
					return vh.Failf(jbtfSig, "step %d: file parameter %s holds %q but reloads as %q: everything after it in the buffer is appended (the decoder ignores bufferView.byteLength)", step, n.id, d1, d2)
				}
				return nil
			}
			return vh.Failf("parameter-data-differs", "step %d: parameter %s (%s) holds %q but reloads as %q", step, n.id, n.typ, clip(d1), clip(d2))
		}
		if app2.Name != app.Name || app2.Version != app.Version || app2.Description != app.Description {
			return vh.Failf("app-fields-differ", "step %d: name/version/description %q/%q/%q reloaded as %q/%q/%q", step, app.Name, app.Version, app.Description, app2.Name, app2.Version, app2.Description)
		}
		var b2 []byte
		if kind, val := oracle.Try(func() { b2 = app2.Schema() }); kind != "" {
			return vh.Failf("resave-panic-"+kind, "step %d: saving the reloaded graph panicked: %v", step, val)
		}
		if !bytes.Equal(b1, b2) {
			return vh.Failf("resave-bytes-differ", "step %d: saving the reloaded graph does not reproduce the file (%d vs %d bytes)\n%s", step, len(b1), len(b2), firstDiff(b1, b2))
		}
		names := inst.ProducerNames()
		sort.Strings(names)
		for _, name := range names {
			a1, s1 := renderWatched(inst, name)
			a1b, s1b := renderWatched(inst, name)
			if s1 == s1b && s1 != "timeout" && s1 != "ok" {
				// a producer that fails deterministically must fail the same way after the reload
				if _, s2 := renderWatched(inst2, name); s2 != s1 && s2 != "timeout" {
					return vh.Failf("artifact-outcome-differs", "step %d: artifact %q fails in the original graph (%s) but the reloaded graph answers %s", step, name, s1, s2)
				}
				o.Count("artifact-failures-compared/"+strings.SplitN(s1, ":", 2)[0], 1)
				continue
			}
			if s1 != "ok" || s1b != "ok" || a1 != a1b {
				o.Count("artifact-skipped/"+s1, 1)
				continue
			}
			a2, s2 := renderWatched(inst2, name)
			if s2 == "timeout" {
				o.Count("artifact-skipped/timeout", 1)
				continue
			}
			if s2 != "ok" || a2 != a1 {
				return vh.Failf("artifact-differs", "step %d: artifact %q of the reloaded graph (%s) differs from the original: %q vs %q", step, name, s2, clip([]byte(a2)), clip([]byte(a1)))
			}
			o.Count("artifacts-compared", 1)
		}
		o.Count("saveloads", 1)
		return nil
	}
	for step, op := range c.Ops {
		switch op.K {
		case "create":
			if len(ns) >= 18 && op.C != 99 { // C == 99: part of an array-filling burst
				continue
			}
			var ty string
			if op.S != "" { // pinned cases name the type
				op.B, op.A = 2, typeIndex(op.S)
			}
			switch op.B {
			case 2:
				ty = allTypes[op.A%len(allTypes)]
			case 1:
				var fav []string
				for _, t := range allTypes {
					if favourite(t) {
						fav = append(fav, t)
					}
				}
				ty = fav[op.A%len(fav)]
			default:
				ty = allTypes[op.A%len(allTypes)]
			}
			if !c.NoExclude {
				files, images := binaries()
				isFile, isImage := strings.HasSuffix(ty, "parameter.File"), strings.HasSuffix(ty, "parameter.Image")
				if (isFile && (files > 0 || images > 0)) || (isImage && files > 0) {
					o.Count("excluded_known", 1)
					continue
				}
			}
			var node nodes.Node
			var id string
			var err error
			if kind, val := oracle.Try(func() { node, id, err = inst.CreateNode(ty) }); kind != "" {
				return vh.Failf("create-panic-"+kind, "step %d: CreateNode(%s) panicked: %v", step, ty, val)
			}
			if err != nil {
				return vh.Failf("create-error", "step %d: CreateNode(%s): %v", step, ty, err)
			}
			d := &nd{id: id, typ: ty, inT: map[string]string{}, arr: map[string]bool{}, conn: map[string]string{}, arrConn: map[string][]string{}, seq: seq}
			seq++
			if outs := node.Outputs(); len(outs) > 0 {
				d.outT = outs[0].Type
			}
			for _, in := range node.Inputs() {
				d.ins = append(d.ins, in.Name)
				d.inT[in.Name] = in.Type
				d.arr[in.Name] = in.Array
			}
			sort.Strings(d.ins)
			_, d.isParam = node.(graph.Parameter)
			d.artifact = strings.Contains(d.outT, "artifact.Artifact")
			ns = append(ns, d)
			byID[id] = d
			if strings.Contains(ty, "JoinData") {
				lastBurstJoin = d
			}
			if strings.Contains(ty, "parameter.Value[string]") {
				lastBurstParam = d
			}
		case "burstconnect":
			if lastBurstJoin == nil || lastBurstParam == nil || byID[lastBurstJoin.id] == nil || byID[lastBurstParam.id] == nil {
				continue
			}
			to, from := lastBurstJoin, lastBurstParam
			inst.ConnectNodes(from.id, "Out", to.id, fmt.Sprintf("Values.%d", len(to.arrConn["Values"])))
			to.arrConn["Values"] = append(to.arrConn["Values"], from.id)
			if len(to.arrConn["Values"]) > maxArr {
				maxArr = len(to.arrConn["Values"])
			}
		case "bursttext":
			if lastBurstJoin == nil || byID[lastBurstJoin.id] == nil || len(ns) == 0 || !strings.Contains(ns[len(ns)-1].typ, "TextNodeData") {
				continue
			}
			text := ns[len(ns)-1]
			inst.ConnectNodes(lastBurstJoin.id, "Out", text.id, "In")
			text.conn["In"] = lastBurstJoin.id
			inst.SetNodeAsProducer(text.id, "joined.txt")
			for f, id := range producers {
				if id == text.id {
					delete(producers, f)
				}
			}
			producers["joined.txt"] = text.id
		case "connect":
			var tos []*nd
			for _, n := range ns {
				if len(n.ins) > 0 {
					tos = append(tos, n)
				}
			}
			if len(tos) == 0 {
				continue
			}
			to := tos[op.A%len(tos)]
			port := to.ins[op.B%len(to.ins)]
			var cands []*nd
			for _, n := range ns {
				if n.seq < to.seq && n.outT == to.inT[port] && n.outT != "" {
					cands = append(cands, n)
				}
			}
			if len(cands) == 0 {
				continue
			}
			from := cands[op.C%len(cands)]
			if to.arr[port] {
				if len(to.arrConn[port]) >= 14 {
					continue
				}
				inst.ConnectNodes(from.id, "Out", to.id, fmt.Sprintf("%s.%d", port, len(to.arrConn[port])))
				to.arrConn[port] = append(to.arrConn[port], from.id)
				if len(to.arrConn[port]) > maxArr {
					maxArr = len(to.arrConn[port])
				}
			} else {
				inst.ConnectNodes(from.id, "Out", to.id, port)
				to.conn[port] = from.id
			}
		case "swaparr":
			// an array input edited between two evaluations so that its length stays what it was: the
			// producers are rendered (every node now remembers its dependencies), one element is taken out,
			// another node - typically a parameter of the same version - is appended, and the graph is saved
			// and reloaded at once: the edited application must render what the reloaded one renders
			type aslot struct {
				n    *nd
				port string
				idx  int
			}
			var aslots []aslot
			for _, n := range ns {
				for _, p := range n.ins {
					if n.arr[p] {
						for k := range n.arrConn[p] {
							aslots = append(aslots, aslot{n, p, k})
						}
					}
				}
			}
			if len(aslots) == 0 || len(producers) == 0 {
				continue
			}
			sl := aslots[op.A%len(aslots)]
			var cands []*nd
			for _, n := range ns {
				if n.seq < sl.n.seq && n.outT == sl.n.inT[sl.port] && n.outT != "" && n.id != sl.n.arrConn[sl.port][sl.idx] {
					cands = append(cands, n)
				}
			}
			if len(cands) == 0 {
				continue
			}
			from := cands[op.C%len(cands)]
			var pnames []string
			for f := range producers {
				pnames = append(pnames, f)
			}
			sort.Strings(pnames)
			for _, f := range pnames {
				renderWatched(inst, f)
			}
			inst.DeleteNodeInputConnection(sl.n.id, fmt.Sprintf("%s.%d", sl.port, sl.idx))
			l := sl.n.arrConn[sl.port]
			l = append(append([]string{}, l[:sl.idx]...), l[sl.idx+1:]...)
			inst.ConnectNodes(from.id, "Out", sl.n.id, fmt.Sprintf("%s.%d", sl.port, len(l)))
			sl.n.arrConn[sl.port] = append(l, from.id)
			disconnects++
			swaps++
			if f := saveload(step); f != nil {
				return f
			}
		case "disconnect":
			type slot struct {
				n    *nd
				port string
				idx  int
			}
			var slots []slot
			for _, n := range ns {
				for _, p := range n.ins {
					if n.arr[p] {
						for k := range n.arrConn[p] {
							slots = append(slots, slot{n, p, k})
						}
					} else if _, ok := n.conn[p]; ok {
						slots = append(slots, slot{n, p, -1})
					}
				}
			}
			if len(slots) == 0 {
				continue
			}
			s := slots[op.A%len(slots)]
			if s.idx >= 0 {
				inst.DeleteNodeInputConnection(s.n.id, fmt.Sprintf("%s.%d", s.port, s.idx))
				l := s.n.arrConn[s.port]
				s.n.arrConn[s.port] = append(append([]string{}, l[:s.idx]...), l[s.idx+1:]...)
			} else {
				inst.DeleteNodeInputConnection(s.n.id, s.port)
				delete(s.n.conn, s.port)
			}
			disconnects++
		case "param", "rename":
			var ps []*nd
			for _, n := range ns {
				if n.isParam {
					ps = append(ps, n)
				}
			}
			if len(ps) == 0 {
				continue
			}
			p := ps[len(ps)-1-op.A%len(ps)]
			if op.K == "rename" {
				inst.Parameter(p.id).SetName(op.S)
				inst.Parameter(p.id).SetDescription(op.S + "!")
				continue
			}
			var msg []byte
			switch {
			case strings.Contains(p.typ, "Value[int]"):
				msg = []byte(fmt.Sprint(int64(op.F)))
			case strings.Contains(p.typ, "Value[float64]"):
				msg, _ = json.Marshal(op.F)
			case strings.Contains(p.typ, "Value[bool]"):
				msg = []byte(fmt.Sprint(op.B%2 == 0))
			case strings.Contains(p.typ, "Value[string]"):
				msg, _ = json.Marshal(op.S)
			case strings.Contains(p.typ, "vector3.Vector[float64]]") && strings.Contains(p.typ, "[]"):
				msg = []byte(fmt.Sprintf(`[{"x":1.5,"y":2,"z":-3},{"x":%v,"y":0.2,"z":0.3}]`, float64(op.B)/8))
			case strings.Contains(p.typ, "vector3.Vector"):
				msg = []byte(fmt.Sprintf(`{"x":%v,"y":2.25,"z":-3}`, float64(op.B)/8))
			case strings.Contains(p.typ, "vector2.Vector"):
				msg = []byte(fmt.Sprintf(`{"x":1.5,"y":%v}`, float64(op.C)/4))
			case strings.Contains(p.typ, "AABB"):
				msg = []byte(fmt.Sprintf(`{"center":{"x":1,"y":%v,"z":3},"extents":{"x":0.5,"y":0.25,"z":4}}`, float64(op.B)/2))
			case strings.Contains(p.typ, "WebColor"):
				msg = []byte(fmt.Sprintf(`"#%02x80ff%02x"`, op.B*4, []int{255, 0, 128}[op.C%3]))
			case strings.Contains(p.typ, "File"):
				msg = op.D
				if msg == nil {
					msg = []byte{}
				}
			case strings.Contains(p.typ, "Image"):
				msg = pngBytes(byte(op.B))
			default:
				o.Count("param-type-without-value-generator", 1)
				continue
			}
			var err error
			if kind, val := oracle.Try(func() { _, err = inst.UpdateParameter(p.id, msg) }); kind != "" {
				return vh.Failf("update-panic-"+kind, "step %d: UpdateParameter(%s, %q) panicked: %v", step, p.typ, msg, val)
			}
			if err != nil {
				return vh.Failf("update-error", "step %d: UpdateParameter(%s, %q): %v", step, p.typ, msg, err)
			}
		case "producer":
			var as []*nd
			for _, n := range ns {
				if n.artifact {
					as = append(as, n)
				}
			}
			if len(as) == 0 {
				continue
			}
			n := as[op.A%len(as)]
			file := []string{"a.txt", "b.txt", "dir/c.txt", "model.glb"}[op.B%4]
			if kind, val := oracle.Try(func() { inst.SetNodeAsProducer(n.id, file) }); kind != "" {
				return vh.Failf("producer-panic-"+kind, "step %d: SetNodeAsProducer(%s) panicked: %v", step, n.typ, val)
			}
			for f, id := range producers {
				if id == n.id {
					delete(producers, f)
				}
			}
			producers[file] = n.id
		case "meta":
			key := []string{"a", "notes.n1", "notes.n2", "nodes.Node-0", "b.c.d", "b.c.e"}[op.A%6]
			var v any
			json.Unmarshal([]byte([]string{`1`, `"s"`, `{"x":1.5,"y":[1,2,{"z":null}]}`, `true`, `[1,2]`, `"é\"\\"`}[op.B%6]), &v)
			if key == "nodes.Node-0" || strings.HasPrefix(key, "notes.") {
				json.Unmarshal([]byte(fmt.Sprintf(`{"position":{"x":%d,"y":2},"text":"t"}`, op.B)), &v)
			}
			inst.SetMetadata(key, v)
			meta[key] = true
		case "metadel":
			var keys []string
			for k := range meta {
				keys = append(keys, k)
			}
			if len(keys) == 0 {
				continue
			}
			sort.Strings(keys)
			k := keys[op.A%len(keys)]
			inst.DeleteMetadata(k)
			delete(meta, k)
		case "delete":
			var cands []*nd
			for _, n := range ns {
				if !dependents(n.id) {
					cands = append(cands, n)
				}
			}
			if len(cands) == 0 {
				continue
			}
			n := cands[op.A%len(cands)]
			inst.DeleteNode(n.id)
			for f, id := range producers {
				if id == n.id {
					delete(producers, f)
				}
			}
			delete(byID, n.id)
			for i, x := range ns {
				if x == n {
					ns = append(append([]*nd{}, ns[:i]...), ns[i+1:]...)
					break
				}
			}
		case "saveload":
			if f := saveload(step); f != nil {
				return f
			}
		}
	}
	if f := saveload(len(c.Ops)); f != nil {
		return f
	}
	files, images := binaries()
	if maxArr >= 11 {
		o.Class("array-input>=11")
	}
	if maxArr >= 101 {
		o.Class("array-input>=101")
	}
	if maxArr >= 1001 {
		o.Class("burst/1000+")
	}
	if files+images >= 2 {
		o.Class(">=2-binary-parameters")
	}
	if disconnects > 0 {
		o.Class("history-with-disconnect")
	}
	if swaps > 0 {
		o.Class("array-element-replaced-between-two-evaluations")
	}
	if len(producers) > 0 {
		o.Class("with-producers")
	}
	if maxArr >= 11 || files+images >= 2 || disconnects > 0 {
		o.NonTrivial()
	}
	return nil
}

func firstDiff(a, b []byte) string {
	n := len(a)
	if len(b) < n {
		n = len(b)
	}
	i := 0
	for i < n && a[i] == b[i] {
		i++
	}
	lo := i - 120
	if lo < 0 {
		lo = 0
	}
	ha, hb := i+120, i+120
	if ha > len(a) {
		ha = len(a)
	}
	if hb > len(b) {
		hb = len(b)
	}
	return fmt.Sprintf("first difference at byte %d:\n  first : ...%q\n  second: ...%q", i, a[lo:ha], b[lo:hb])
}

func clip(b []byte) string {
	if len(b) > 1500 {
		return string(b[:1500]) + "..."
	}
	return string(b)
}

// ---------------------------------------------------------------- shipped graphs

type FileCase struct{ Path string }

func shippedGraphs() []FileCase {
	var out []FileCase
	root := os.Getenv("VERIF_REPO")
	if root == "" {
		root = "/repo"
	}
	filepath.Walk(filepath.Join(root, "examples"), func(p string, info os.FileInfo, err error) error {
		if err == nil && !info.IsDir() && strings.HasSuffix(p, ".json") {
			if b, e := os.ReadFile(p); e == nil && bytes.Contains(b, []byte(`"nodes"`)) && bytes.Contains(b, []byte(`"producers"`)) {
				rel, _ := filepath.Rel(root, p)
				out = append(out, FileCase{Path: rel})
			}
		}
		return nil
	})
	sort.Slice(out, func(i, j int) bool { return out[i].Path < out[j].Path })
	return out
}

func runFile(c FileCase, o *vh.Obs) *vh.Failure {
	root := os.Getenv("VERIF_REPO")
	if root == "" {
		root = "/repo"
	}
	data, err := os.ReadFile(filepath.Join(root, c.Path))
	if err != nil {
		return nil
	}
	o.NonTrivial()
	o.Class("shipped-graph")
	app1 := &generator.App{}
	app1.VerifGraph()
	if kind, val := oracle.Try(func() { err = app1.ApplySchema(data) }); kind != "" || err != nil {
		return vh.Failf("shipped-load-failed", "%s does not load: %v %v", c.Path, val, err)
	}
	b1 := app1.Schema()
	app2 := &generator.App{}
	app2.VerifGraph()
	if err := app2.ApplySchema(b1); err != nil {
		return vh.Failf("shipped-reload-failed", "%s: reload of the save failed: %v", c.Path, err)
	}
	if v1, v2 := view(app1.VerifGraph()), view(app2.VerifGraph()); v1 != v2 {
		return vh.Failf("shipped-graph-differs", "%s: graph differs after save/load\n%s", c.Path, firstDiff([]byte(v1), []byte(v2)))
	}
	b2 := app2.Schema()
	if !bytes.Equal(b1, b2) {
		return vh.Failf("shipped-resave-bytes-differ", "%s: second save differs from the first\n%s", c.Path, firstDiff(b1, b2))
	}
	if !bytes.Equal(b1, app1.Schema()) {
		return vh.Failf("shipped-two-saves-differ", "%s: two saves of the loaded graph differ", c.Path)
	}
	return nil
}

var _ = artifact.Artifact(nil)

func TestC12(t *testing.T) {
	vh.Enumerate(t, vh.Spec[FileCase]{Name: "shipped-graphs", Run: runFile}, shippedGraphs())
	vh.Drive(t, vh.Spec[Case]{Name: "edit-history", Quick: 12000, Thorough: 400000, Gen: genCase, Run: runCase, Repeat: 10,
		Sample: func(c Case) any {
			s := []string{}
			for _, op := range c.Ops {
				s = append(s, fmt.Sprintf("%s(%d,%d,%d)", op.K, op.A, op.B, op.C))
			}
			return s
		}})
}
