package c11

// messages: parameters of composite types (slices, structs holding slices) driven by JSON messages,
// some of which must be rejected - among them messages that are well-formed JSON and wrong only
// part-way ([9,"x",7]), which a decoder writing into the live value would apply partially.
// Oracle: the model decodes every message into a fresh value (encoding/json); a rejected message
// changes nothing (value, version, dependents), an accepted one is what every later read returns;
// the consumer executes exactly once per accepted message that is followed by a read.

import (
	"encoding/json"
	"fmt"
	"reflect"

	"github.com/EliCDavis/polyform/generator/parameter"
	"github.com/EliCDavis/polyform/nodes"
	"pgregory.net/rapid"

	"verifharness/internal/vh"
)

type Tagged struct {
	X, Y float64
	Tags []string
	N    []int
}

type SumSlice struct {
	C  *counter
	In nodes.NodeOutput[[]float64]
}

func (s SumSlice) Process() (float64, error) {
	s.C.n++
	t := 0.0
	if s.In != nil {
		for _, v := range s.In.Value() {
			t += v
		}
	}
	return t, nil
}

type SumTagged struct {
	C  *counter
	In nodes.NodeOutput[Tagged]
}

func (s SumTagged) Process() (float64, error) {
	s.C.n++
	if s.In == nil {
		return 0, nil
	}
	v := s.In.Value()
	t := v.X + 2*v.Y + float64(len(v.Tags))
	for _, n := range v.N {
		t += float64(n)
	}
	return t, nil
}

type MsgCase struct {
	Struct bool // parameter.Value[Tagged] instead of parameter.Value[[]float64]
	Msgs   []string
	Reads  []bool // read the consumer after message i
}

var sliceMsgs = []string{`[1,2,3]`, `[9,"x",7]`, `[]`, `[4]`, `[5,6,7,8]`, `null`, `[1,2`, `{"a":1}`, `[1e999]`, `[0.5,null,2]`, `"no"`, `[3,4,true]`, `[7,8,9]`, `[2,2]`}
var structMsgs = []string{`{"X":1,"Y":2,"Tags":["a"],"N":[1,2]}`, `{"X":3,"N":[9,"x",7]}`, `{"Y":"bad","X":5}`, `{"Tags":["p","q","r"]}`, `{}`, `{"X":4,"Y":4,"N":[4,4,4]}`,
	`{"N":[1,2,3,4]`, `[1]`, `{"Tags":[1]}`, `{"X":8,"Tags":null,"N":[5]}`, `null`, `{"N":[6],"X":"s"}`}

func genMsg(t *rapid.T) MsgCase {
	c := MsgCase{Struct: rapid.Bool().Draw(t, "struct")}
	pool := sliceMsgs
	if c.Struct {
		pool = structMsgs
	}
	n := rapid.IntRange(1, 8).Draw(t, "n")
	for i := 0; i < n; i++ {
		c.Msgs = append(c.Msgs, rapid.SampledFrom(pool).Draw(t, "msg"))
		c.Reads = append(c.Reads, rapid.IntRange(0, 2).Draw(t, "read") > 0)
	}
	return c
}

func runMsg(c MsgCase, o *vh.Obs) *vh.Failure {
	if len(c.Msgs) == 0 || len(c.Reads) != len(c.Msgs) {
		return nil
	}
	cn := &counter{}
	var apply func([]byte) (bool, error)
	var current func() any
	var version func() int
	var consumer func() float64
	var fresh func() any
	var eval func(any) float64
	if c.Struct {
		p := &parameter.Value[Tagged]{Name: "t", DefaultValue: Tagged{X: 1, Tags: []string{"d"}}}
		n := &nodes.Struct[float64, SumTagged]{Data: SumTagged{C: cn}}
		n.SetInput("In", nodes.Output{NodeOutput: p.Out()})
		apply, current, version = p.ApplyMessage, func() any { return p.Value() }, p.Version
		consumer = n.Value
		fresh = func() any { return &Tagged{} }
		eval = func(v any) float64 { r, _ := SumTagged{C: &counter{}, In: nodes.Value(v.(Tagged)).Out()}.Process(); return r }
		o.Class("messages/struct-parameter")
	} else {
		p := &parameter.Value[[]float64]{Name: "s", DefaultValue: []float64{1, 1}}
		n := &nodes.Struct[float64, SumSlice]{Data: SumSlice{C: cn}}
		n.SetInput("In", nodes.Output{NodeOutput: p.Out()})
		apply, current, version = p.ApplyMessage, func() any { return p.Value() }, p.Version
		consumer = n.Value
		fresh = func() any { return &[]float64{} }
		eval = func(v any) float64 { r, _ := SumSlice{C: &counter{}, In: nodes.Value(v.([]float64)).Out()}.Process(); return r }
		o.Class("messages/slice-parameter")
	}
	clone := func(v any) any { // deep copy through JSON: what the model remembers must not alias what the parameter hands out
		b, _ := json.Marshal(v)
		f := fresh()
		json.Unmarshal(b, f)
		return reflect.ValueOf(f).Elem().Interface()
	}
	model := clone(current())
	handedOut := []any{current()} // values returned earlier must stay what they were (C01-style, for parameters)
	handedOutCopy := []any{clone(current())}
	dirty, execs, accepted, rejected := true, 0, 0, 0
	for i, msg := range c.Msgs {
		f := fresh()
		wantErr := json.Unmarshal([]byte(msg), f)
		v0 := version()
		_, err := apply([]byte(msg))
		if (err != nil) != (wantErr != nil) {
			return vh.Failf("messages/acceptance", "message %d %s: ApplyMessage error %v, decoding it into a fresh value gives %v", i, msg, err, wantErr)
		}
		if wantErr != nil {
			rejected++
			if version() != v0 {
				return vh.Failf("messages/version-after-rejection", "message %d %s was rejected but the version went from %d to %d", i, msg, v0, version())
			}
		} else {
			accepted++
			model = reflect.ValueOf(f).Elem().Interface()
			dirty = true
		}
		if got := current(); !reflect.DeepEqual(normal(got), normal(model)) {
			return vh.Failf("messages/value", "after message %d %s (rejected: %v) the parameter holds %v, the accepted messages so far give %v", i, msg, wantErr != nil, got, model)
		}
		for k := range handedOut {
			if !reflect.DeepEqual(normal(handedOut[k]), normal(handedOutCopy[k])) {
				return vh.Failf("messages/handed-out-value-changed", "a value the parameter returned earlier changed after message %d %s: now %v, was %v", i, msg, handedOut[k], handedOutCopy[k])
			}
		}
		handedOut = append(handedOut, current())
		handedOutCopy = append(handedOutCopy, clone(current()))
		if c.Reads[i] {
			before := cn.n
			got := consumer()
			if want := eval(clone(model)); got != want {
				return vh.Failf("messages/stale-value", "after message %d %s the consumer returns %v, evaluating from scratch gives %v", i, msg, got, want)
			}
			ran := cn.n - before
			if dirty && ran != 1 || !dirty && ran != 0 {
				return vh.Failf("messages/executions", "read after message %d %s: the consumer executed %d times (an accepted message since its last execution: %v)", i, msg, ran, dirty)
			}
			execs += ran
			dirty = false
		}
	}
	if rejected > 0 && accepted > 0 {
		o.NonTrivial()
		o.Class("messages/accepted-and-rejected")
	}
	o.Count("messages-accepted", accepted)
	o.Count("messages-rejected", rejected)
	return nil
}

// normal maps nil and empty slices to one form (JSON null vs [] is not what this check is about).
func normal(v any) string {
	b, _ := json.Marshal(v)
	s := string(b)
	return fmt.Sprint(len(s) > 0, s)
}
