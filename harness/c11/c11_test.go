// Package c11 decides property C11 (node outputs are never stale and nodes recompute only when
// an input changed) with a model-based history machine: harness-defined processors that read ALL
// their connected inputs and count their executions, a from-scratch evaluator and a logical-clock
// model of which nodes MAY execute during a read.
package c11

import (
	"flag"
	"fmt"
	"strconv"
	"testing"

	"github.com/EliCDavis/polyform/generator/parameter"
	"github.com/EliCDavis/polyform/nodes"
	"pgregory.net/rapid"

	"verifharness/internal/vh"
)

func TestMain(m *testing.M) {
	vh.Main(m, vh.Meta{
		ID:    "C11",
		Level: "exploration",
		Rule: "rapid-generated histories (5..60 actions) over a growing graph (<= 14 nodes) of nodes.Value and parameter.Value sources and harness-defined nodes.Struct processors (2-input, 3-input, array-input + scalar input): add node, connect/reconnect/disconnect an input incl. array append/remove, set a source (also to the same value; parameter sources through ApplyMessage), read Value() of an arbitrary node, read State(). " +
			"Oracle: (1) every read equals a from-scratch evaluation of the model graph; (2) a processor may execute during a read only if it never ran, or its own wiring changed, or a source/wiring in its transitive upstream closure changed since its last execution (logical clocks), and at most once per read; (3) Version() == number of executions (sources: number of sets) after every step; (4) State() is Processed exactly when the model says nothing upstream changed since the last execution. " +
			"Non-trivial = a read of a node with >= 2 dependencies after at least one update; classes: diamond, array input, reconnect, disconnect. Distinct by action-list JSON. Failing histories are re-executed 20x by the replay path because the pinned-tree defect depended on Go map iteration order. " +
			"Processors also include FE (returns an error together with its value for odd inputs) and FAA (two array inputs, two plain inputs); connectMany wires 9..40 array entries at once (class more-than-12-dependencies).",
		Assumptions: []string{
			"processors read all their connected inputs (a processor that skips an input leaves its upstream permanently stale, which the code treats as outdated; the property is stated over parameters and wiring)",
			"graphs are acyclic (inputs only from earlier nodes)",
		},
	})
}

// ---------------------------------------------------------------- processors

type counter struct{ n int }

type F2 struct {
	C *counter
	A nodes.NodeOutput[int]
	B nodes.NodeOutput[int]
}

func (f F2) Process() (int, error) {
	f.C.n++
	a, b := 0, 0
	if f.A != nil {
		a = f.A.Value()
	}
	if f.B != nil {
		b = f.B.Value()
	}
	return (3*a + 5*b + 1) % 1000003, nil
}

type F3 struct {
	C       *counter
	P, Q, R nodes.NodeOutput[int]
}

func (f F3) Process() (int, error) {
	f.C.n++
	v := [3]int{}
	for i, in := range []nodes.NodeOutput[int]{f.P, f.Q, f.R} {
		if in != nil {
			v[i] = in.Value()
		}
	}
	return (2 + 7*v[0] + 11*v[1] + 13*v[2]) % 1000003, nil
}

type FA struct {
	C      *counter
	Values []nodes.NodeOutput[int]
	X      nodes.NodeOutput[int]
}

func (f FA) Process() (int, error) {
	f.C.n++
	s := 7
	for i, v := range f.Values {
		if v != nil {
			s = (s*31 + (i+1)*v.Value()) % 1000003
		}
	}
	if f.X != nil {
		s += 1000 * f.X.Value()
	}
	return s % 1000003, nil
}

// FE reports an error for odd inputs (the value it returns with the error is still its output, as
// nodes.Struct keeps both): loaders report errors this way, and their consumers must not
// re-execute because of it.
type FE struct {
	C *counter
	A nodes.NodeOutput[int]
}

func (f FE) Process() (int, error) {
	f.C.n++
	a := 0
	if f.A != nil {
		a = f.A.Value()
	}
	if a%2 != 0 {
		return (3*a + 2) % 1000003, fmt.Errorf("odd input %d", a)
	}
	return (3*a + 2) % 1000003, nil
}

// FAA has two array inputs and two plain ones: more than a dozen dependencies over several fields.
type FAA struct {
	C    *counter
	Xs   []nodes.NodeOutput[int]
	Ys   []nodes.NodeOutput[int]
	P, Q nodes.NodeOutput[int]
}

func (f FAA) Process() (int, error) {
	f.C.n++
	s := 11
	for i, v := range f.Xs {
		if v != nil {
			s = (s*31 + (i+1)*v.Value()) % 1000003
		}
	}
	for i, v := range f.Ys {
		if v != nil {
			s = (s*37 + (i+2)*v.Value()) % 1000003
		}
	}
	if f.P != nil {
		s += 1000 * f.P.Value()
	}
	if f.Q != nil {
		s += 5000 * f.Q.Value()
	}
	return s % 1000003, nil
}

// watcher is a subscriber that refreshes a preview: on every alert of its source it reads the
// output of a node (the usual "parameter changed, redraw" pattern).
type watcher struct {
	target int
	read   func() int
	alerts int
	got    []int
}

func (w *watcher) Alert(version int, state nodes.NodeState) {
	w.alerts++
	w.got = append(w.got, w.read())
}

// ---------------------------------------------------------------- case

type Op struct {
	K string // addValue addParam addF2 addF3 addFA connect disconnect set read state
	A int    // node pick
	B int    // source pick / port pick
	V int    // value / port
}

type Case struct{ Ops []Op }

var kinds = []string{"setBad", "subscribe", "addValue", "addParam", "addCliParam", "setMany", "addF2", "addF3", "addFA", "addFE", "addFAA", "connectMany", "connect", "connect", "connect", "connect", "disconnect", "set", "set", "set", "read", "read", "read", "read", "state"}

func genCase(t *rapid.T) Case {
	min := rapid.IntRange(5, 40).Draw(t, "minSteps")
	// a prefix that builds a small graph, so that connects and reads have something to work on
	prefix := rapid.SliceOfN(rapid.Custom(func(t *rapid.T) Op {
		return Op{K: rapid.SampledFrom([]string{"addValue", "addParam", "addCliParam", "addF2", "addF3", "addFA", "addFE", "addFAA", "connectMany", "connect", "connect"}).Draw(t, "k"), A: rapid.IntRange(0, 13).Draw(t, "a"), B: rapid.IntRange(0, 13).Draw(t, "b"), V: rapid.IntRange(0, 9).Draw(t, "v")}
	}), 4, 16).Draw(t, "prefix")
	body := rapid.SliceOfN(rapid.Custom(func(t *rapid.T) Op {
		return Op{K: rapid.SampledFrom(kinds).Draw(t, "k"), A: rapid.IntRange(0, 13).Draw(t, "a"), B: rapid.IntRange(0, 13).Draw(t, "b"), V: rapid.IntRange(0, 9).Draw(t, "v")}
	}), min, 60).Draw(t, "ops")
	return Case{Ops: append(prefix, body...)}
}

type mnode struct {
	kind     int   // 0 value, 1 param, 2 F2, 3 F3, 4 FA, 5 FE, 6 FAA
	val      int   // sources
	in       []int // scalar ports (-1 none): F2 [A,B]; F3 [P,Q,R]; FA [X]; FE [A]; FAA [P,Q]
	arr      []int // FA Values / FAA Xs
	arr2     []int // FAA Ys
	lastExec int64
	changed  int64
	sets     int
	node     nodes.Node
	cnt      *counter
	out      func() int
	set      func(int) error
	raw      func([]byte) error // parameter sources: ApplyMessage with the message as it is
	sub      func(nodes.Alertable) // sources: AddSubscription
	watchers []*watcher
	setInput func(string, nodes.NodeOutputReference)
	outRef   func() nodes.NodeOutputReference
}

var portNames = map[int][]string{2: {"A", "B"}, 3: {"P", "Q", "R"}, 4: {"X"}, 5: {"A"}, 6: {"P", "Q"}}
var arrayNames = map[int][]string{4: {"Values"}, 6: {"Xs", "Ys"}}

func runCase(c Case, o *vh.Obs) *vh.Failure {
	var ns []*mnode
	var clock int64 = 1
	deps := func(i int) []int {
		var d []int
		for _, v := range ns[i].in {
			if v >= 0 {
				d = append(d, v)
			}
		}
		return append(append(d, ns[i].arr...), ns[i].arr2...)
	}
	var eval func(i int) int
	eval = func(i int) int {
		n := ns[i]
		get := func(j int) int {
			if j < 0 {
				return 0
			}
			return eval(j)
		}
		switch n.kind {
		case 0, 1:
			return n.val
		case 2:
			return (3*get(n.in[0]) + 5*get(n.in[1]) + 1) % 1000003
		case 3:
			return (2 + 7*get(n.in[0]) + 11*get(n.in[1]) + 13*get(n.in[2])) % 1000003
		case 5:
			return (3*get(n.in[0]) + 2) % 1000003
		case 6:
			s := 11
			for k, d := range n.arr {
				s = (s*31 + (k+1)*eval(d)) % 1000003
			}
			for k, d := range n.arr2 {
				s = (s*37 + (k+2)*eval(d)) % 1000003
			}
			s += 1000*get(n.in[0]) + 5000*get(n.in[1])
			return s % 1000003
		default:
			s := 7
			for k, d := range n.arr {
				s = (s*31 + (k+1)*eval(d)) % 1000003
			}
			if n.in[0] >= 0 {
				s += 1000 * eval(n.in[0])
			}
			return s % 1000003
		}
	}
	var latest func(i int, seen map[int]bool) int64
	latest = func(i int, seen map[int]bool) int64 {
		if seen[i] {
			return 0
		}
		seen[i] = true
		m := ns[i].changed
		for _, d := range deps(i) {
			if l := latest(d, seen); l > m {
				m = l
			}
		}
		return m
	}
	clean := func(i int) bool {
		n := ns[i]
		return n.kind < 2 || (n.lastExec != 0 && latest(i, map[int]bool{}) <= n.lastExec)
	}
	var mayExec func(i int, may, seen map[int]bool)
	mayExec = func(i int, may, seen map[int]bool) {
		if seen[i] {
			return
		}
		seen[i] = true
		if ns[i].kind >= 2 && !clean(i) {
			may[i] = true
		}
		for _, d := range deps(i) {
			mayExec(d, may, seen)
		}
	}
	history := func(upto int) string {
		s := ""
		for k := 0; k <= upto && k < len(c.Ops); k++ {
			s += fmt.Sprintf("%s(%d,%d,%d) ", c.Ops[k].K, c.Ops[k].A, c.Ops[k].B, c.Ops[k].V)
		}
		return s
	}
	updates, sawDiamondRead, nontrivial := 0, false, false
	for step, op := range c.Ops {
		procs := []int{}
		srcs := []int{}
		for i, n := range ns {
			if n.kind >= 2 {
				procs = append(procs, i)
			} else {
				srcs = append(srcs, i)
			}
		}
		switch op.K {
		case "addValue", "addParam", "addCliParam", "addF2", "addF3", "addFA", "addFE", "addFAA":
			if len(ns) >= 14 {
				continue
			}
			clock++
			switch op.K {
			case "addCliParam":
				// a parameter that also has a command-line flag, parsed (B odd) or left at its default:
				// precedence is applied update > parsed flag > default
				p := &parameter.Value[int]{Name: fmt.Sprintf("c%d", len(ns)), DefaultValue: op.V, CLI: &parameter.CliConfig[int]{FlagName: fmt.Sprintf("c%d", len(ns)), Usage: "u"}}
				fs := flag.NewFlagSet("c11", flag.ContinueOnError)
				p.InitializeForCLI(fs)
				start := op.V
				if op.B%2 == 1 {
					start = op.V + 1 + op.B%7
					if err := fs.Parse([]string{fmt.Sprintf("--c%d=%d", len(ns), start)}); err != nil {
						return vh.Failf("harness/flag-parse", "%v", err)
					}
					o.Class("cli-flag-parsed")
				}
				ns = append(ns, &mnode{kind: 1, val: start, node: p, out: func() int { return p.Value() }, sub: p.AddSubscription,
					set:    func(v int) error { _, err := p.ApplyMessage([]byte(strconv.Itoa(v))); return err },
					raw:    func(b []byte) error { _, err := p.ApplyMessage(b); return err },
					outRef: func() nodes.NodeOutputReference { return p.Out() }, changed: clock})
			case "addValue":
				p := nodes.Value(op.V)
				ns = append(ns, &mnode{kind: 0, val: op.V, node: p, out: func() int { return p.Value() }, set: func(v int) error { p.Set(v); return nil }, sub: p.AddSubscription,
					outRef: func() nodes.NodeOutputReference { return p.Out() }, changed: clock})
			case "addParam":
				p := &parameter.Value[int]{Name: fmt.Sprintf("p%d", len(ns)), DefaultValue: op.V}
				ns = append(ns, &mnode{kind: 1, val: op.V, node: p, out: func() int { return p.Value() }, sub: p.AddSubscription,
					set:    func(v int) error { _, err := p.ApplyMessage([]byte(strconv.Itoa(v))); return err },
					raw:    func(b []byte) error { _, err := p.ApplyMessage(b); return err },
					outRef: func() nodes.NodeOutputReference { return p.Out() }, changed: clock})
			case "addF2":
				cn := &counter{}
				n := &nodes.Struct[int, F2]{Data: F2{C: cn}}
				ns = append(ns, &mnode{kind: 2, in: []int{-1, -1}, node: n, cnt: cn, out: func() int { return n.Value() }, outRef: func() nodes.NodeOutputReference { return n.Out() }, changed: clock,
					setInput: func(name string, r nodes.NodeOutputReference) { n.SetInput(name, nodes.Output{NodeOutput: r}) }})
			case "addF3":
				cn := &counter{}
				n := &nodes.Struct[int, F3]{Data: F3{C: cn}}
				ns = append(ns, &mnode{kind: 3, in: []int{-1, -1, -1}, node: n, cnt: cn, out: func() int { return n.Value() }, outRef: func() nodes.NodeOutputReference { return n.Out() }, changed: clock,
					setInput: func(name string, r nodes.NodeOutputReference) { n.SetInput(name, nodes.Output{NodeOutput: r}) }})
			case "addFE":
				cn := &counter{}
				n := &nodes.Struct[int, FE]{Data: FE{C: cn}}
				ns = append(ns, &mnode{kind: 5, in: []int{-1}, node: n, cnt: cn, out: func() int { return n.Value() }, outRef: func() nodes.NodeOutputReference { return n.Out() }, changed: clock,
					setInput: func(name string, r nodes.NodeOutputReference) { n.SetInput(name, nodes.Output{NodeOutput: r}) }})
				o.Class("error-reporting-node")
			case "addFAA":
				cn := &counter{}
				n := &nodes.Struct[int, FAA]{Data: FAA{C: cn}}
				ns = append(ns, &mnode{kind: 6, in: []int{-1, -1}, node: n, cnt: cn, out: func() int { return n.Value() }, outRef: func() nodes.NodeOutputReference { return n.Out() }, changed: clock,
					setInput: func(name string, r nodes.NodeOutputReference) { n.SetInput(name, nodes.Output{NodeOutput: r}) }})
			default:
				cn := &counter{}
				n := &nodes.Struct[int, FA]{Data: FA{C: cn}}
				ns = append(ns, &mnode{kind: 4, in: []int{-1}, node: n, cnt: cn, out: func() int { return n.Value() }, outRef: func() nodes.NodeOutputReference { return n.Out() }, changed: clock,
					setInput: func(name string, r nodes.NodeOutputReference) { n.SetInput(name, nodes.Output{NodeOutput: r}) }})
			}
		case "connect":
			if len(procs) == 0 {
				continue
			}
			i := procs[op.A%len(procs)]
			if i == 0 {
				continue
			}
			j := op.B % i // only earlier nodes: acyclic
			n := ns[i]
			clock++
			n.changed = clock
			updates++
			ports := portNames[n.kind]
			if arrs := arrayNames[n.kind]; len(arrs) > 0 && op.V%4 != 0 {
				which := 0
				if len(arrs) > 1 && op.V%4 == 3 {
					which = 1
				}
				tgt := &n.arr
				if which == 1 {
					tgt = &n.arr2
				}
				n.setInput(fmt.Sprintf("%s.%d", arrs[which], len(*tgt)), ns[j].outRef())
				*tgt = append(*tgt, j)
				o.Class("array-connect")
			} else {
				p := op.V % len(ports)
				if n.in[p] >= 0 {
					o.Class("reconnect")
				}
				n.setInput(ports[p], ns[j].outRef())
				n.in[p] = j
			}
		case "connectMany":
			// many array entries at once: a node with more than a dozen dependencies
			if len(procs) == 0 {
				continue
			}
			var cands []int
			for _, i := range procs {
				if len(arrayNames[ns[i].kind]) > 0 && i > 0 {
					cands = append(cands, i)
				}
			}
			if len(cands) == 0 {
				continue
			}
			i := cands[op.A%len(cands)]
			n := ns[i]
			arrs := arrayNames[n.kind]
			count := []int{9, 11, 12, 13, 16, 40}[op.V%6]
			clock++
			for k := 0; k < count; k++ {
				j := (op.B + k) % i
				which := 0
				if len(arrs) > 1 && k%3 == 2 {
					which = 1
				}
				tgt := &n.arr
				if which == 1 {
					tgt = &n.arr2
				}
				n.setInput(fmt.Sprintf("%s.%d", arrs[which], len(*tgt)), ns[j].outRef())
				*tgt = append(*tgt, j)
			}
			n.changed = clock
			updates++
			if len(deps(i)) > 12 {
				o.Class("more-than-12-dependencies")
			}
		case "disconnect":
			if len(procs) == 0 {
				continue
			}
			n := ns[procs[op.A%len(procs)]]
			if arrs := arrayNames[n.kind]; len(arrs) > 0 && op.V%4 != 0 {
				which, tgt := 0, &n.arr
				if len(arrs) > 1 && op.V%4 == 3 {
					which, tgt = 1, &n.arr2
				}
				if len(*tgt) > 0 {
					k := op.B % len(*tgt)
					clock++
					n.setInput(fmt.Sprintf("%s.%d", arrs[which], k), nil)
					*tgt = append(append([]int{}, (*tgt)[:k]...), (*tgt)[k+1:]...)
					n.changed = clock
					updates++
					o.Class("array-remove")
					continue
				}
			}
			p := op.V % len(n.in)
			if n.in[p] < 0 {
				continue
			}
			clock++
			n.setInput(portNames[n.kind][p], nil)
			n.in[p] = -1
			n.changed = clock
			updates++
			o.Class("disconnect")
		case "setMany":
			// a burst of N updates of one source with no read in between (N around version-counter boundaries)
			if len(srcs) == 0 {
				continue
			}
			n := ns[srcs[op.A%len(srcs)]]
			if len(n.watchers) > 0 {
				continue // every update of a watched source contains reads: bursts stay on unwatched sources
			}
			burst := []int{2, 255, 256, 257, 512, 1024}[op.B%6]
			for k := 0; k < burst; k++ {
				v := (op.V + k) % 10
				if err := n.set(v); err != nil {
					return vh.Failf("set-error", "step %d: setting a source failed: %v", step, err)
				}
				n.val = v
				n.sets++
			}
			clock++
			n.changed = clock
			updates++
			o.Class(fmt.Sprintf("set-burst/%d", burst))
		case "subscribe":
			// a watcher on a source that reads some node whenever the source alerts
			if len(srcs) == 0 || len(ns) == 0 {
				continue
			}
			n := ns[srcs[op.A%len(srcs)]]
			if n.sub == nil || len(n.watchers) >= 2 {
				continue
			}
			tgt := op.B % len(ns)
			w := &watcher{target: tgt, read: ns[tgt].out}
			n.sub(w)
			n.watchers = append(n.watchers, w)
			o.Class("subscriber-reads-a-node-on-alert")
		case "setBad":
			// a message the parameter cannot accept (wrong type, cut-off or empty JSON): the update is
			// rejected with an error and nothing changes - value, version and every dependent stay as they are
			var ps []int
			for _, i := range srcs {
				if ns[i].raw != nil {
					ps = append(ps, i)
				}
			}
			if len(ps) == 0 {
				continue
			}
			n := ns[ps[op.A%len(ps)]]
			bad := [][]byte{[]byte(`"oops"`), []byte(`3.`), {}, []byte(`{`), []byte(`[1]`), []byte(`1e999`)}[((op.B%6)+6)%6]
			if err := n.raw(bad); err == nil {
				o.Count("bad-message-accepted-not-judged", 1)
				return nil // the parameter accepted it: what it now holds is not defined by this check
			}
			if n.sets == 0 {
				o.Class("rejected-update-before-any-accepted-one")
			}
			o.Class("rejected-update")
		case "set":
			if len(srcs) == 0 {
				continue
			}
			n := ns[srcs[op.A%len(srcs)]]
			clock++
			if n.val == op.V {
				o.Class("set-same-value")
			}
			if len(n.watchers) == 0 {
				if err := n.set(op.V); err != nil {
					return vh.Failf("set-error", "step %d: setting a source failed: %v", step, err)
				}
				n.val = op.V
				n.changed = clock
				n.sets++
				updates++
				continue
			}
			// with watchers the update itself contains reads: the model is updated first (the value is
			// what the watcher must see), then every watcher's read is judged like a read action
			n.val = op.V
			n.changed = clock
			n.sets++
			updates++
			for _, w := range n.watchers {
				w.got = w.got[:0]
			}
			before := make([]int, len(ns))
			for k, m := range ns {
				if m.cnt != nil {
					before[k] = m.cnt.n
				}
			}
			may := map[int]bool{}
			for _, w := range n.watchers {
				mayExec(w.target, may, map[int]bool{})
			}
			if err := n.set(op.V); err != nil {
				return vh.Failf("set-error", "step %d: setting a source failed: %v", step, err)
			}
			clock++
			for wi, w := range n.watchers {
				if len(w.got) != 1 {
					return vh.Failf("subscriber-alert-count", "step %d: watcher %d of the source was alerted %d times by one update\nhistory: %s", step, wi, len(w.got), history(step))
				}
				if want := eval(w.target); w.got[0] != want {
					return vh.Failf("stale-value", "step %d: a subscriber alerted by the update read node %d as %d; a from-scratch evaluation with the updated value gives %d\nhistory: %s", step, w.target, w.got[0], want, history(step))
				}
			}
			for k, m := range ns {
				if m.cnt != nil && m.cnt.n != before[k] {
					if m.cnt.n > before[k]+len(n.watchers) {
						return vh.Failf("executed-twice-in-one-read", "step %d: node %d executed %d times during one update with %d watchers\nhistory: %s", step, k, m.cnt.n-before[k], len(n.watchers), history(step))
					}
					if !may[k] {
						return vh.Failf("spurious-execution", "step %d: node %d re-executed during the update of a source it does not depend on (read by a watcher)\nhistory: %s", step, k, history(step))
					}
					m.lastExec = clock
				}
			}
		case "read":
			if len(ns) == 0 {
				continue
			}
			i := op.A % len(ns)
			if len(procs) > 0 && op.B%4 != 0 { // mostly read processors
				i = procs[op.A%len(procs)]
			}
			may := map[int]bool{}
			mayExec(i, may, map[int]bool{})
			before := make([]int, len(ns))
			for k, n := range ns {
				if n.cnt != nil {
					before[k] = n.cnt.n
				}
			}
			clock++
			got, want := ns[i].out(), eval(i)
			if got != want {
				return vh.Failf("stale-value", "step %d: read of node %d (kind %d) returned %d, a from-scratch evaluation of the current graph gives %d\nhistory: %s", step, i, ns[i].kind, got, want, history(step))
			}
			for k, n := range ns {
				if n.cnt != nil && n.cnt.n != before[k] {
					if n.cnt.n != before[k]+1 {
						return vh.Failf("executed-twice-in-one-read", "step %d: node %d executed %d times during one read of node %d\nhistory: %s", step, k, n.cnt.n-before[k], i, history(step))
					}
					if !may[k] {
						return vh.Failf("spurious-execution", "step %d: node %d (kind %d, deps %v) re-executed during the read of node %d although no source or wiring in its upstream closure changed since its last execution\nhistory: %s", step, k, n.kind, deps(k), i, history(step))
					}
					n.lastExec = clock
				}
			}
			if len(deps(i)) >= 2 && updates > 0 {
				nontrivial = true
				d := deps(i)
				for x := 0; x < len(d); x++ {
					for y := x + 1; y < len(d); y++ {
						if shareUpstream(ns, deps, d[x], d[y]) {
							sawDiamondRead = true
						}
					}
				}
			}
		case "state":
			if len(ns) == 0 {
				continue
			}
			i := op.A % len(ns)
			got := ns[i].node.State()
			want := nodes.Stale
			if clean(i) {
				want = nodes.Processed
			}
			if got != want {
				return vh.Failf("wrong-state", "step %d: State() of node %d (kind %d) is %v, the model says %v\nhistory: %s", step, i, ns[i].kind, got, want, history(step))
			}
		}
		// invariant after every step: version == executions (sources: sets)
		for k, n := range ns {
			want := n.sets
			if n.cnt != nil {
				want = n.cnt.n
			}
			if n.node.Version() != want {
				return vh.Failf("version-mismatch", "after step %d: node %d (kind %d) has version %d but executed/was set %d times\nhistory: %s", step, k, n.kind, n.node.Version(), want, history(step))
			}
		}
	}
	if nontrivial {
		o.NonTrivial()
	}
	if sawDiamondRead {
		o.Class("read-of-diamond")
	}
	o.Class(fmt.Sprintf("nodes/%d", len(ns)/4*4))
	return nil
}

func shareUpstream(ns []*mnode, deps func(int) []int, a, b int) bool {
	up := func(i int) map[int]bool {
		seen := map[int]bool{}
		var walk func(int)
		walk = func(j int) {
			if seen[j] {
				return
			}
			seen[j] = true
			for _, d := range deps(j) {
				walk(d)
			}
		}
		walk(i)
		return seen
	}
	ua := up(a)
	for k := range up(b) {
		if ua[k] {
			return true
		}
	}
	return false
}

func TestC11(t *testing.T) {
	vh.Drive(t, vh.Spec[MsgCase]{Name: "messages", Quick: 60000, Thorough: 1500000, Gen: genMsg, Run: runMsg})
	vh.Drive(t, vh.Spec[Case]{Name: "history", Quick: 400000, Thorough: 5000000, Gen: genCase, Run: runCase, Repeat: 20,
		Sample: func(c Case) any {
			s := []string{}
			for _, op := range c.Ops {
				s = append(s, fmt.Sprintf("%s(%d,%d,%d)", op.K, op.A, op.B, op.V))
			}
			return s
		}})
}
