// Package c06 decides property C06 (every .gltf/.glb written for any scene is consistent with its
// binary payload and carries exactly the scene): scenes are described as data, handed to
// gltf.WriteBinary / gltf.WriteText, and the output is read back by an independent reader
// (reader_test.go) that applies the glTF 2.0 structural rules and then decodes every accessor,
// node, instance list, light and material and compares it with the scene description.
package c06

import (
	"bytes"
	"encoding/json"
	"fmt"
	"math"
	"os"
	"path/filepath"
	"reflect"
	"sort"
	"strings"
	"testing"

	"github.com/EliCDavis/polyform/formats/gltf"
	"github.com/EliCDavis/polyform/math/quaternion"
	"github.com/EliCDavis/polyform/math/trs"
	"github.com/EliCDavis/polyform/modeling"
	"github.com/EliCDavis/vector/vector3"
	"pgregory.net/rapid"

	"verifharness/internal/gen"
	"verifharness/internal/oracle"
	"verifharness/internal/vh"
)

func TestMain(m *testing.M) {
	vh.Main(m, vh.Meta{
		ID:    "C06",
		Level: "exploration",
		Rule: "rapid-generated scenes as data: 0..5 models over a pool of 1..3 meshes (gen.Mesh: triangle/point topology, 0..12 vertices (thorough: up to 40), any subset of 14 attributes of arity 1..4 incl. Joint (unsigned byte) and Weight, " +
			"any index pattern, equal-by-value copies of a pool entry; rare class / pinned regression cases with 65 535 / 65 536 / 65 537 vertices), a pool of 0..7 textures (3 URIs x 4 samplers x 6 KHR_texture_transform variants; copies and one-aspect variants behind other pointers) " +
			"and 0..4 materials (fresh, equal-by-value copy, or copy differing in exactly one field among name, extras, alpha mode/cutoff, emissive, PBR presence/colour/factors, the four core textures incl. normal scale / occlusion strength, and 12 material extensions with their fields), " +
			"optional translation/rotation/scale per model, 0..4 GPU instances, 0..2 lights, text or binary container (the other container is written too and must carry the same payload and document). " +
			"Oracle: the harness's own GLB/JSON/base64 reader checks container and chunk lengths and padding, every index reference, bufferView/accessor ranges, component alignment, declared min/max against the stored elements, index values, per-primitive attribute counts, extension declarations; " +
			"then decodes: attributes and indices bit-equal to the float32/integer image of the descriptor, node TRS, instance accessors, lights, same mesh pointer => same accessors, same texture pointer => same texture, " +
			"materials: every model's primitive references a material whose resolved content (textures followed to image URI, sampler values and texture transform; glTF defaults applied) is its own, distinct contents never share an entry, deep-equal materials share one. " +
			"Non-trivial = at least 2 emitted models and (a mesh pointer shared by two models, or two models whose materials are the same pointer / equal by value, or a mesh with an odd index count). Distinct by case JSON. " +
			"Sub-check index-count-sweep (exhaustive along the size axis): EVERY triangle count 1..1500 (quick) / 1..9000 (thorough) once: one model, a welded grid mesh of exactly that many triangles (about half as many vertices, positions only), " +
			"written as .glb and for every 16th count also as .gltf, judged by the same oracle (a block-wise writer that mishandles element counts that are exact multiples of its block size cannot hide between sampled sizes); every case non-trivial, distinct by (count, container). " +
			"Sub-check concurrent-writers: every concurrent-* case (2-5 bundled cases run at the same time after each passed alone) is non-trivial.",
		Assumptions: []string{
			"attribute values are finite and within float32 range (glTF forbids NaN/Inf; the writer narrows to float32); Joint values are integers 0..255 (stored as unsigned bytes)",
			"scalar (Float1) attributes have no glTF counterpart in the writer: they may be absent from the output (if present they must decode to the model's values)",
			"models whose mesh has no primitives are skipped by the writer by design (no node); the oracle expects exactly the other models, in order, followed by the lights",
			"in-domain scenes only: non-nil meshes, alphaCutoff only with alphaMode MASK, normal/occlusion wrappers with a texture, at most one extension of each kind per material, PolyformClearcoat.ClearcoatNormalTexture unset (the writer does not implement it), no skeleton/animation",
			"equal-by-value materials must share one glTF material when they are deep-equal Go values whose extension values are == (pointers inside extension values are interned per scene, extension textures and transformed core textures are the same pool pointer); materials whose resolved content is equal but which are not deep-equal (e.g. alphaMode unset vs OPAQUE) may be stored once or twice",
			"colour factors are compared with tolerance 6e-4 (the writer rounds them to 3 decimals); all other numbers exactly",
			"custom attribute names are accepted as written or with the '_' prefix glTF asks for",
			"a data-URI buffer may be longer than buffer.byteLength but not shorter; a BIN chunk may exceed buffer.byteLength by at most 3 zero bytes",
			"bufferView misalignment is tolerated only under the known finding's predicate (see reader_test.go misalignmentExplained); it is counted in known_misaligned_accessors",
		},
	})
}

// ---------------------------------------------------------------- case description

// BigDesc is a procedurally described mesh for the index-width boundary (kept out of the JSON).
type BigDesc struct {
	N      int // vertices
	Topo   int
	NIdx   int // indices; the last one is N-1
	Stride int
	UV     bool
}

type MeshSlot struct {
	D   *gen.MeshDesc `json:",omitempty"`
	Big *BigDesc      `json:",omitempty"`
	// Tris > 0: recipe of the index-count sweep, a welded grid mesh with exactly Tris triangles
	// (gridDesc); the replay file carries the count, not the arrays.
	Tris int `json:",omitempty"`
}

type TRSDesc struct {
	T [3]float64
	R [4]float64 // x y z w
	S [3]float64
}

type ModelDesc struct {
	Name string
	Mesh int         // pool index: the same index is the same *modeling.Mesh
	Mat  int         // pool index or -1: the same index is the same *PolyformMaterial
	T    *[3]float64 `json:",omitempty"`
	R    *[4]float64 `json:",omitempty"`
	S    *[3]float64 `json:",omitempty"`
	Inst []TRSDesc   `json:",omitempty"`
}

type LightDesc struct {
	Type      int // 0 unset (point), 1 directional, 2 point, 3 spot
	Color     int
	Intensity int
	Range     int
	Pos       [3]float64
}

type Case struct {
	Text   bool // primary container: .gltf with base64 buffer, else .glb
	Meshes []MeshSlot
	Texs   []TexDesc   `json:",omitempty"`
	Mats   []MatDesc   `json:",omitempty"`
	Models []ModelDesc `json:",omitempty"`
	Lights []LightDesc `json:",omitempty"`
}

var c06Attrs = append(append([]gen.AttrSpec{}, gen.DefaultAttrs...),
	gen.AttrSpec{Name: modeling.JointAttribute, Arity: 4}, gen.AttrSpec{Name: modeling.WeightAttribute, Arity: 4}, gen.AttrSpec{Name: modeling.FDCAttribute, Arity: 3})

func (b BigDesc) expand() gen.MeshDesc {
	d := gen.MeshDesc{Topo: b.Topo, N: b.N, V3: map[string][][3]gen.F{}}
	pos := make([][3]gen.F, b.N)
	for i := range pos {
		pos[i] = [3]gen.F{gen.F(i & 255), gen.F((i >> 8) & 255), gen.F(float64(i>>16) + 0.5)}
	}
	d.V3[modeling.PositionAttribute] = pos
	if b.UV {
		uv := make([][2]gen.F, b.N)
		for i := range uv {
			uv[i] = [2]gen.F{gen.F(float64(i&1023) / 1024), gen.F(float64(i>>10) / 64)}
		}
		d.V2 = map[string][][2]gen.F{modeling.TexCoordAttribute: uv}
	}
	d.Idx = make([]int, b.NIdx)
	for j := range d.Idx {
		d.Idx[j] = (j * b.Stride) % b.N
	}
	if b.NIdx > 0 {
		d.Idx[b.NIdx-1] = b.N - 1
	}
	return d
}

// gridDesc is a (w+1) x (w+1) vertex grid, w = ceil(sqrt(tris/2)), whose cells are split into two
// triangles each, row by row, until exactly tris triangles exist: about tris/2 vertices shared by
// up to six triangles (trailing vertices may be unreferenced). Positions only, multiples of 1/8
// (exact in float32), no two vertices alike.
func gridDesc(tris int) gen.MeshDesc {
	w := int(math.Ceil(math.Sqrt(float64(tris) / 2)))
	d := gen.MeshDesc{Topo: int(modeling.TriangleTopology), N: (w + 1) * (w + 1), V3: map[string][][3]gen.F{}}
	d.Idx = make([]int, 0, 3*tris)
	for q := 0; len(d.Idx) < 3*tris; q++ {
		a := q/w*(w+1) + q%w
		d.Idx = append(d.Idx, a, a+1, a+w+2)
		if len(d.Idx) < 3*tris {
			d.Idx = append(d.Idx, a, a+w+2, a+w+1)
		}
	}
	pos := make([][3]gen.F, d.N)
	for i := range pos {
		pos[i] = [3]gen.F{gen.F(float64(i%(w+1)) / 8), gen.F(float64(i/(w+1)) / 8), gen.F(float64(i*7%13-6) / 8)}
	}
	d.V3[modeling.PositionAttribute] = pos
	return d
}

func (s MeshSlot) desc() gen.MeshDesc {
	if s.Tris > 0 && s.Tris <= 1<<20 {
		return gridDesc(s.Tris)
	}
	if s.Big != nil && s.Big.N > 0 && s.Big.NIdx >= 0 && s.Big.Stride >= 0 {
		return s.Big.expand()
	}
	if s.D != nil {
		return *s.D
	}
	return gen.MeshDesc{Idx: []int{}}
}

// ---------------------------------------------------------------- generator

func genVal(t *rapid.T, label string) float64 { return gen.DefaultVal().Draw(t, label) }

func genVec3(t *rapid.T, label string) [3]float64 {
	return [3]float64{genVal(t, label+".x"), genVal(t, label+".y"), genVal(t, label+".z")}
}

func genQuat(t *rapid.T, label string) [4]float64 {
	ax := gen.Dir(t, label+".axis")
	l := math.Sqrt(ax[0]*ax[0] + ax[1]*ax[1] + ax[2]*ax[2])
	th := float64(rapid.IntRange(-8, 8).Draw(t, label+".theta16")) * math.Pi / 8
	if rapid.IntRange(0, 2).Draw(t, label+".thetaKind") == 0 {
		th = rapid.Float64Range(-math.Pi, math.Pi).Draw(t, label+".theta")
	}
	s := math.Sin(th/2) / l
	return [4]float64{ax[0] * s, ax[1] * s, ax[2] * s, math.Cos(th / 2)}
}

func genTRS(t *rapid.T, label string) TRSDesc {
	d := TRSDesc{T: genVec3(t, label+".T"), R: genQuat(t, label+".R"), S: genVec3(t, label+".S")}
	return d
}

func genTex(t *rapid.T, pool []TexDesc, label string) TexDesc {
	kind := rapid.IntRange(0, 3).Draw(t, label+".kind")
	if len(pool) > 0 && kind >= 2 {
		base := pool[rapid.IntRange(0, len(pool)-1).Draw(t, label+".of")]
		if kind == 2 {
			return base // equal by value, another pointer
		}
		switch rapid.IntRange(0, 2).Draw(t, label+".aspect") {
		case 0:
			base.URI = mod(base.URI+rapid.IntRange(1, len(uris)-1).Draw(t, label+".duri"), len(uris))
		case 1:
			base.Sampler = mod(base.Sampler+rapid.IntRange(1, len(samplerVals)-1).Draw(t, label+".dsampler"), len(samplerVals))
		default:
			base.XF = mod(base.XF+rapid.IntRange(1, xfVariants-1).Draw(t, label+".dxf"), xfVariants)
		}
		return base
	}
	d := TexDesc{URI: rapid.IntRange(0, len(uris)-1).Draw(t, label+".uri"), Sampler: rapid.IntRange(0, len(samplerVals)-1).Draw(t, label+".sampler")}
	if xf := rapid.IntRange(0, 2*xfVariants).Draw(t, label+".xf"); xf < xfVariants {
		d.XF = xf
	}
	return d
}

func genTexRef(t *rapid.T, nTex int, label string) int {
	if nTex == 0 {
		return -1
	}
	return rapid.IntRange(-1, nTex-1).Draw(t, label)
}

// sparse: 0 (unset) two times out of three.
func sparse(t *rapid.T, n int, label string) int {
	if v := rapid.IntRange(0, 3*n).Draw(t, label); v <= n {
		return v
	}
	return 0
}

func genExt(t *rapid.T, nTex int, label string, avoid map[int]bool) ExtDesc {
	e := ExtDesc{Kind: rapid.IntRange(0, extKinds-1).Draw(t, label+".kind"), T1: -1, T2: -1}
	for avoid[e.Kind] {
		e.Kind = (e.Kind + 1) % extKinds
	}
	e.A, e.B = rapid.IntRange(0, 2).Draw(t, label+".A"), rapid.IntRange(0, 2).Draw(t, label+".B")
	e.C, e.D = rapid.IntRange(0, nColours-1).Draw(t, label+".C"), rapid.IntRange(0, nColours-1).Draw(t, label+".D")
	uses := extTexUse(e.Kind)
	if uses[0] && rapid.Bool().Draw(t, label+".hasT1") {
		e.T1 = genTexRef(t, nTex, label+".T1")
	}
	if uses[1] && rapid.Bool().Draw(t, label+".hasT2") {
		e.T2 = genTexRef(t, nTex, label+".T2")
	}
	return e
}

func genFreshMat(t *rapid.T, nTex int, label string) MatDesc {
	d := MatDesc{BaseTex: -1, MRTex: -1, NormalTex: -1, OccTex: -1}
	d.Name = rapid.IntRange(0, len(matNames)-1).Draw(t, label+".name")
	d.Extras = sparse(t, len(extrasVals)-1, label+".extras")
	d.Alpha = sparse(t, 5, label+".alpha")
	d.Emissive = sparse(t, nColours-1, label+".emissive")
	d.Pbr = rapid.Bool().Draw(t, label+".pbr")
	if d.Pbr {
		d.BaseColor = rapid.IntRange(0, nColours-1).Draw(t, label+".baseColor")
		d.Metallic = sparse(t, 2, label+".metallic")
		d.Roughness = sparse(t, 2, label+".roughness")
		if rapid.IntRange(0, 2).Draw(t, label+".hasBaseTex") == 0 {
			d.BaseTex = genTexRef(t, nTex, label+".baseTex")
		}
		if rapid.IntRange(0, 3).Draw(t, label+".hasMRTex") == 0 {
			d.MRTex = genTexRef(t, nTex, label+".mrTex")
		}
	}
	if rapid.IntRange(0, 2).Draw(t, label+".hasNormal") == 0 {
		d.NormalTex = genTexRef(t, nTex, label+".normalTex")
		d.NormalScale = sparse(t, 2, label+".normalScale")
	}
	if rapid.IntRange(0, 2).Draw(t, label+".hasOcc") == 0 {
		d.OccTex = genTexRef(t, nTex, label+".occTex")
		d.OccStrength = sparse(t, 2, label+".occStrength")
	}
	nExt := rapid.IntRange(0, 5).Draw(t, label+".nExt")
	if nExt > 2 {
		nExt = 0
	}
	used := map[int]bool{}
	for i := 0; i < nExt; i++ {
		e := genExt(t, nTex, fmt.Sprintf("%s.ext%d", label, i), used)
		used[e.Kind] = true
		d.Exts = append(d.Exts, e)
	}
	return d
}

var matFields = []string{"name", "extras", "alpha", "emissive", "pbr", "baseColor", "metallic", "roughness", "baseTex", "mrTex",
	"normalTex", "normalScale", "occTex", "occStrength", "extAdd", "extRemove", "extField", "extTex",
	"texVariant", "texVariant", "texVariant", "texVariant"}

const maxTex = 7

// other draws a value in [0,n) different from cur.
func other(t *rapid.T, cur, n int, label string) int {
	return mod(mod(cur, n)+rapid.IntRange(1, n-1).Draw(t, label), n)
}

func otherRef(t *rapid.T, cur, nTex int, label string) int {
	if nTex == 0 {
		return -1
	}
	// values -1..nTex-1, different from cur
	return other(t, cur+1, nTex+1, label) - 1
}

// texVariant appends to the texture pool a copy of entry ref that differs in exactly one aspect
// (or in none: an equal-by-value texture behind another pointer) and returns its index.
func texVariant(t *rapid.T, c *Case, ref int, label string) int {
	if !inRange(ref, len(c.Texs)) || len(c.Texs) >= maxTex {
		return ref
	}
	d := c.Texs[ref]
	switch rapid.IntRange(0, 4).Draw(t, label+".aspect") {
	case 0:
		d.URI = other(t, d.URI, len(uris), label+".duri")
	case 1:
		d.Sampler = other(t, d.Sampler, len(samplerVals), label+".dsampler")
	case 2, 3:
		d.XF = other(t, d.XF, xfVariants, label+".dxf")
	}
	c.Texs = append(c.Texs, d)
	return len(c.Texs) - 1
}

// mutateMat changes exactly one field of d (a copy). The result can still be equal by value
// (e.g. a reference to an equal-by-value texture); the classes are computed from the content.
func mutateMat(t *rapid.T, c *Case, d MatDesc, label string) MatDesc {
	nTex := len(c.Texs)
	d.Exts = append([]ExtDesc{}, d.Exts...)
	field := rapid.SampledFrom(matFields).Draw(t, label+".field")
	switch field {
	case "name":
		d.Name = other(t, d.Name, len(matNames), label+".v")
	case "extras":
		d.Extras = other(t, d.Extras, len(extrasVals), label+".v")
	case "alpha":
		d.Alpha = other(t, d.Alpha, 6, label+".v")
	case "emissive":
		d.Emissive = other(t, d.Emissive, nColours, label+".v")
	case "pbr":
		d.Pbr = !d.Pbr
	case "baseColor":
		d.Pbr, d.BaseColor = true, other(t, d.BaseColor, nColours, label+".v")
	case "metallic":
		d.Pbr, d.Metallic = true, other(t, d.Metallic, 3, label+".v")
	case "roughness":
		d.Pbr, d.Roughness = true, other(t, d.Roughness, 3, label+".v")
	case "baseTex":
		d.Pbr, d.BaseTex = true, otherRef(t, d.BaseTex, nTex, label+".v")
	case "mrTex":
		d.Pbr, d.MRTex = true, otherRef(t, d.MRTex, nTex, label+".v")
	case "normalTex":
		d.NormalTex = otherRef(t, d.NormalTex, nTex, label+".v")
	case "normalScale":
		d.NormalScale = other(t, d.NormalScale, 3, label+".v")
	case "occTex":
		d.OccTex = otherRef(t, d.OccTex, nTex, label+".v")
	case "occStrength":
		d.OccStrength = other(t, d.OccStrength, 3, label+".v")
	case "extAdd":
		used := map[int]bool{}
		for _, e := range d.Exts {
			used[mod(e.Kind, extKinds)] = true
		}
		if len(d.Exts) < 3 {
			d.Exts = append(d.Exts, genExt(t, nTex, label+".ext", used))
		}
	case "extRemove":
		if len(d.Exts) > 0 {
			i := rapid.IntRange(0, len(d.Exts)-1).Draw(t, label+".i")
			d.Exts = append(d.Exts[:i], d.Exts[i+1:]...)
		}
	case "extField":
		if len(d.Exts) > 0 {
			i := rapid.IntRange(0, len(d.Exts)-1).Draw(t, label+".i")
			switch rapid.IntRange(0, 3).Draw(t, label+".which") {
			case 0:
				d.Exts[i].A = other(t, d.Exts[i].A, 6, label+".v")
			case 1:
				d.Exts[i].B = other(t, d.Exts[i].B, 6, label+".v")
			case 2:
				d.Exts[i].C = other(t, d.Exts[i].C, 4, label+".v")
			default:
				d.Exts[i].D = other(t, d.Exts[i].D, 12, label+".v")
			}
		}
	case "extTex":
		if len(d.Exts) > 0 {
			i := rapid.IntRange(0, len(d.Exts)-1).Draw(t, label+".i")
			if rapid.Bool().Draw(t, label+".second") {
				d.Exts[i].T2 = otherRef(t, d.Exts[i].T2, nTex, label+".v")
			} else {
				d.Exts[i].T1 = otherRef(t, d.Exts[i].T1, nTex, label+".v")
			}
		}
	case "texVariant":
		// one texture slot in use now refers to a one-aspect variant of its texture (another pointer)
		var slots []*int
		if d.Pbr {
			slots = append(slots, &d.BaseTex, &d.MRTex)
		}
		slots = append(slots, &d.NormalTex, &d.OccTex)
		for i := range d.Exts {
			uses := extTexUse(d.Exts[i].Kind)
			if uses[0] {
				slots = append(slots, &d.Exts[i].T1)
			}
			if uses[1] {
				slots = append(slots, &d.Exts[i].T2)
			}
		}
		var set []*int
		for _, sl := range slots {
			if inRange(*sl, nTex) {
				set = append(set, sl)
			}
		}
		if len(set) > 0 {
			sl := set[rapid.IntRange(0, len(set)-1).Draw(t, label+".slot")]
			*sl = texVariant(t, c, *sl, label+".variant")
		} else if nTex > 0 {
			*slots[rapid.IntRange(0, len(slots)-1).Draw(t, label+".slot")] = rapid.IntRange(0, nTex-1).Draw(t, label+".v")
		}
	}
	return d
}

func genMat(t *rapid.T, c *Case, label string) MatDesc {
	kind := rapid.IntRange(0, 6).Draw(t, label+".kind")
	if len(c.Mats) == 0 || kind <= 1 {
		return genFreshMat(t, len(c.Texs), label)
	}
	base := c.Mats[rapid.IntRange(0, len(c.Mats)-1).Draw(t, label+".of")]
	base.Exts = append([]ExtDesc{}, base.Exts...)
	if kind == 2 {
		return base // equal by value, another pointer
	}
	return mutateMat(t, c, base, label)
}

func genMeshSlot(t *rapid.T, label string) MeshSlot {
	o := gen.MeshOpts{Attrs: c06Attrs, MaxN: 12, MaxPrims: 6, DupPos: true}
	if vh.Tier == "thorough" && rapid.IntRange(0, 9).Draw(t, label+".large") == 9 {
		o.MaxN, o.MaxPrims = 40, 30
	}
	o.NeedPos = rapid.IntRange(0, 7).Draw(t, label+".needPos") != 7
	if rapid.IntRange(0, 7).Draw(t, label+".mayBeEmpty") != 7 {
		o.MinPrims, o.MinN = 1, 1
	}
	d := gen.Mesh(t, o, label)
	// Joint is stored as unsigned bytes: keep it to integers 0..255
	if rows, ok := d.V4[modeling.JointAttribute]; ok {
		for i := range rows {
			for c := range rows[i] {
				rows[i][c] = gen.F(math.Mod(math.Floor(math.Abs(float64(rows[i][c]))*8), 256))
			}
		}
	}
	return MeshSlot{D: &d}
}

func genBig(t *rapid.T, label string) MeshSlot {
	b := BigDesc{N: rapid.SampledFrom([]int{65535, 65536, 65537}).Draw(t, label+".n"), Topo: int(modeling.TriangleTopology)}
	if rapid.Bool().Draw(t, label+".points") {
		b.Topo = int(modeling.PointTopology)
		b.NIdx = rapid.IntRange(1, 7).Draw(t, label+".nidx")
	} else {
		b.NIdx = 3 * rapid.IntRange(1, 3).Draw(t, label+".ntri")
	}
	b.Stride = rapid.SampledFrom([]int{1, 7919, 32771}).Draw(t, label+".stride")
	b.UV = rapid.Bool().Draw(t, label+".uv")
	return MeshSlot{Big: &b}
}

func genCase(t *rapid.T) Case {
	c := Case{Text: rapid.Bool().Draw(t, "text")}
	// index-width boundary: rare in quick (it is also pinned by regression files), more frequent in
	// thorough. The class sits in the upper part of the range so that shrinking moves away from it.
	bigFrom := 9970
	if vh.Tier == "thorough" {
		bigFrom = 9800
	}
	bigDraw := rapid.IntRange(0, 9999).Draw(t, "bigClass")
	big := bigDraw >= bigFrom && bigDraw < 9999
	nMesh := rapid.IntRange(1, 3).Draw(t, "nMesh")
	for i := 0; i < nMesh; i++ {
		label := fmt.Sprintf("mesh%d", i)
		switch {
		case i == 0 && big:
			c.Meshes = append(c.Meshes, genBig(t, label))
		case i > 0 && rapid.IntRange(0, 3).Draw(t, label+".copy") == 0:
			src := c.Meshes[rapid.IntRange(0, i-1).Draw(t, label+".of")]
			c.Meshes = append(c.Meshes, src) // equal by value, another pointer
		default:
			c.Meshes = append(c.Meshes, genMeshSlot(t, label))
		}
	}
	nTex := rapid.IntRange(0, 4).Draw(t, "nTex")
	for i := 0; i < nTex; i++ {
		c.Texs = append(c.Texs, genTex(t, c.Texs, fmt.Sprintf("tex%d", i)))
	}
	nMat := rapid.IntRange(0, 4).Draw(t, "nMat")
	for i := 0; i < nMat; i++ {
		c.Mats = append(c.Mats, genMat(t, &c, fmt.Sprintf("mat%d", i)))
	}
	nModels := rapid.IntRange(0, 5).Draw(t, "nModels")
	for i := 0; i < nModels; i++ {
		label := fmt.Sprintf("model%d", i)
		m := ModelDesc{Name: rapid.SampledFrom([]string{"", "a", "b", "model"}).Draw(t, label+".name"), Mat: -1}
		m.Mesh = rapid.IntRange(0, nMesh-1).Draw(t, label+".mesh")
		if nMat > 0 && rapid.IntRange(0, 4).Draw(t, label+".hasMat") > 0 {
			m.Mat = rapid.IntRange(0, nMat-1).Draw(t, label+".mat")
		}
		if rapid.IntRange(0, 2).Draw(t, label+".hasT") == 0 {
			v := genVec3(t, label+".T")
			m.T = &v
		}
		if rapid.IntRange(0, 2).Draw(t, label+".hasR") == 0 {
			v := genQuat(t, label+".R")
			m.R = &v
		}
		if rapid.IntRange(0, 2).Draw(t, label+".hasS") == 0 {
			v := genVec3(t, label+".S")
			m.S = &v
		}
		if k := rapid.IntRange(0, 8).Draw(t, label+".inst"); k <= 4 {
			for j := 0; j < k; j++ {
				m.Inst = append(m.Inst, genTRS(t, fmt.Sprintf("%s.inst%d", label, j)))
			}
		}
		c.Models = append(c.Models, m)
	}
	if k := rapid.IntRange(0, 5).Draw(t, "nLights"); k <= 2 {
		for i := 0; i < k; i++ {
			label := fmt.Sprintf("light%d", i)
			c.Lights = append(c.Lights, LightDesc{Type: rapid.IntRange(0, 3).Draw(t, label+".type"), Color: rapid.IntRange(0, nColours-1).Draw(t, label+".color"),
				Intensity: rapid.IntRange(0, 2).Draw(t, label+".intensity"), Range: rapid.IntRange(0, 2).Draw(t, label+".range"), Pos: genVec3(t, label+".pos")})
		}
	}
	return c
}

// ---------------------------------------------------------------- oracle

var lightTypes = []gltf.KHR_LightsPunctualType{"", gltf.KHR_LightsPunctualType_Directional, gltf.KHR_LightsPunctualType_Point, gltf.KHR_LightsPunctualType_Spot}
var lightTypeNames = []string{"point", "directional", "point", "spot"}

// semantic names of the glTF specification for polyform's well-known attributes
var semantic = map[string]string{
	modeling.PositionAttribute: "POSITION", modeling.NormalAttribute: "NORMAL", modeling.ColorAttribute: "COLOR_0",
	modeling.TexCoordAttribute: "TEXCOORD_0", modeling.JointAttribute: "JOINTS_0", modeling.WeightAttribute: "WEIGHTS_0",
}

func attrKeys(name string) []string {
	if s, ok := semantic[name]; ok {
		return []string{s}
	}
	return []string{name, "_" + name, "_" + strings.ToUpper(name)}
}

type expAttr struct {
	name  string
	arity int
	rows  func(v, c int) float64
	n     int
}

func expectedAttrs(d gen.MeshDesc, scalars bool) []expAttr {
	var out []expAttr
	if scalars {
		for k, r := range d.V1 {
			r := r
			out = append(out, expAttr{k, 1, func(v, c int) float64 { return float64(r[v]) }, len(r)})
		}
		sort.Slice(out, func(i, j int) bool { return out[i].name < out[j].name })
		return out
	}
	for k, r := range d.V2 {
		r := r
		out = append(out, expAttr{k, 2, func(v, c int) float64 { return float64(r[v][c]) }, len(r)})
	}
	for k, r := range d.V3 {
		r := r
		out = append(out, expAttr{k, 3, func(v, c int) float64 { return float64(r[v][c]) }, len(r)})
	}
	for k, r := range d.V4 {
		r := r
		out = append(out, expAttr{k, 4, func(v, c int) float64 { return float64(r[v][c]) }, len(r)})
	}
	sort.Slice(out, func(i, j int) bool { return out[i].name < out[j].name })
	return out
}

var vecType = []string{"", "SCALAR", "VEC2", "VEC3", "VEC4"}

// checkFloatAccessor: accessor ai holds exactly the float32 image of rows.
func (p *parsed) checkFloatAccessor(ai int, what string, arity, n int, at func(v, c int) float64, sigBase string) *vh.Failure {
	a := p.doc.Accessors[ai]
	if a.Type != vecType[arity] || a.ComponentType != 5126 {
		return vh.Failf(sigBase+"-type", "%s: accessor %d is %s of componentType %d, want %s of FLOAT", what, ai, a.Type, a.ComponentType, vecType[arity])
	}
	if a.Count != n {
		return vh.Failf(sigBase+"-count", "%s: accessor %d has %d elements, the model has %d", what, ai, a.Count, n)
	}
	rd := p.reader(a)
	for v := 0; v < n; v++ {
		for c := 0; c < arity; c++ {
			want := math.Float32bits(float32(at(v, c)))
			if got := rd.raw(v, c); got != want {
				return vh.Failf(sigBase+"-value", "%s: element %d component %d stores %v (bits %08x), the model has %v (float32 %v, bits %08x)",
					what, v, c, math.Float32frombits(got), got, at(v, c), float32(at(v, c)), want)
			}
		}
	}
	return nil
}

func arrEq(got []float64, want []float64, def []float64) bool {
	if got == nil {
		got = def
	}
	if len(got) != len(want) {
		return false
	}
	for i := range got {
		if got[i] != want[i] {
			return false
		}
	}
	return true
}

func optArr3(p *[3]float64, def []float64) []float64 {
	if p == nil {
		return def
	}
	return p[:]
}

func optArr4(p *[4]float64, def []float64) []float64 {
	if p == nil {
		return def
	}
	return p[:]
}

func (c *Case) buildScene() (gltf.PolyformScene, []gen.MeshDesc, *builder) {
	descs := make([]gen.MeshDesc, len(c.Meshes))
	meshes := make([]*modeling.Mesh, len(c.Meshes))
	for i, s := range c.Meshes {
		descs[i] = s.desc()
		m := descs[i].Build()
		meshes[i] = &m
	}
	b := &builder{c: c, floats: map[float64]*float64{}}
	b.buildTextures()
	for _, d := range c.Mats {
		b.mats = append(b.mats, b.material(d))
	}
	scene := gltf.PolyformScene{}
	for _, md := range c.Models {
		m := gltf.PolyformModel{Name: md.Name, Mesh: meshes[mod(md.Mesh, len(meshes))]}
		if inRange(md.Mat, len(b.mats)) {
			m.Material = b.mats[md.Mat]
		}
		if md.T != nil {
			v := vector3.New(md.T[0], md.T[1], md.T[2])
			m.Translation = &v
		}
		if md.R != nil {
			q := quaternion.New(vector3.New(md.R[0], md.R[1], md.R[2]), md.R[3])
			m.Rotation = &q
		}
		if md.S != nil {
			v := vector3.New(md.S[0], md.S[1], md.S[2])
			m.Scale = &v
		}
		for _, in := range md.Inst {
			m.GpuInstances = append(m.GpuInstances, trs.New(vector3.New(in.T[0], in.T[1], in.T[2]),
				quaternion.New(vector3.New(in.R[0], in.R[1], in.R[2]), in.R[3]), vector3.New(in.S[0], in.S[1], in.S[2])))
		}
		scene.Models = append(scene.Models, m)
	}
	for _, ld := range c.Lights {
		l := gltf.KHR_LightsPunctual{Type: lightTypes[mod(ld.Type, 4)], Color: col(ld.Color), Position: vector3.New(ld.Pos[0], ld.Pos[1], ld.Pos[2])}
		if v, ok := opt(ld.Intensity); ok {
			l.Intensity = &v
		}
		if v, ok := opt(ld.Range); ok {
			l.Range = &v
		}
		scene.Lights = append(scene.Lights, l)
	}
	return scene, descs, b
}

// savedBytesEqual: gltf.Save(<name>.<container>) is the stream writer applied to a file.
func savedBytesEqual(scene gltf.PolyformScene, container string, want []byte, o *vh.Obs) *vh.Failure {
	dir, cleanup, err := vh.TempDir("c06files")
	if err != nil {
		return vh.Failf("harness/tempdir", "%v", err)
	}
	defer cleanup()
	path := filepath.Join(dir, "sub", "scene.v2."+container)
	os.MkdirAll(filepath.Dir(path), 0o755) // the library creates missing directories without permission bits (os.ModeDir): only root could write into them
	var serr error
	if kind, val := oracle.Try(func() { serr = gltf.Save(path, scene) }); kind != "" {
		return vh.Failf("files/save-panic-"+kind, "gltf.Save(%q) panicked: %v", filepath.Base(path), val)
	}
	if serr != nil {
		return vh.Failf("files/save-error", "gltf.Save(%q): %v", filepath.Base(path), serr)
	}
	got, err := os.ReadFile(path)
	if err != nil {
		return vh.Failf("files/save-error", "gltf.Save left no readable file: %v", err)
	}
	if !bytes.Equal(got, want) {
		// two writes of one scene may order JSON object members differently (maps): the saved file must
		// then have the same length and pass the same structural validation as the stream output
		if len(got) != len(want) {
			return vh.Failf("files/saved-length-differs", "gltf.Save(%q) wrote %d bytes, the %s stream writer writes %d", filepath.Base(path), len(got), container, len(want))
		}
		p, f := parse(got, container == "gltf")
		if f == nil {
			f = p.validate(&vh.Obs{})
		}
		if f != nil {
			f.Sig = "files/saved-file/" + f.Sig
			return f
		}
		o.Class("files/save-differs-in-member-order-only/" + container)
		return nil
	}
	o.Class("files/save-equals-stream-writer/" + container)
	return nil
}

// incrementalWriter: gltf.Writer is an exported, incremental API (AddScene may be called again after
// a file was written). Writing a snapshot in between must not change what is written afterwards:
// the final file of (add A, write, add B, write) must be the file of (add A, add B, write), and the
// snapshot the file of (add A, write) - byte for byte, or equal in length and structurally valid
// when only the order of JSON object members differs.
func incrementalWriter(scene gltf.PolyformScene, o *vh.Obs) *vh.Failure {
	k := len(scene.Models) / 2
	a, b := scene, scene
	a.Models, b.Models = scene.Models[:k], scene.Models[k:]
	b.Lights = nil
	var snap, final, want, wantSnap bytes.Buffer
	var err error
	kind, val := oracle.Try(func() {
		w := gltf.NewWriter()
		if err = w.AddScene(a); err != nil {
			return
		}
		if err = w.WriteGLB(&snap); err != nil {
			return
		}
		if err = w.AddScene(b); err != nil {
			return
		}
		if err = w.WriteGLB(&final); err != nil {
			return
		}
		ref := gltf.NewWriter()
		if err = ref.AddScene(a); err != nil {
			return
		}
		if err = ref.WriteGLB(&wantSnap); err != nil { // a write of a writer that is then thrown away
			return
		}
		ref = gltf.NewWriter()
		if err = ref.AddScene(a); err != nil {
			return
		}
		if err = ref.AddScene(b); err != nil {
			return
		}
		err = ref.WriteGLB(&want)
	})
	if kind != "" {
		return vh.Failf("incremental/writer-panic/"+kind, "gltf.Writer used incrementally panicked: %v", val)
	}
	if err != nil {
		o.Count("incremental/writer-error-not-judged", 1)
		return nil
	}
	o.Class("incremental-writer/snapshot-between-two-scenes")
	for _, pair := range []struct {
		name      string
		got, want []byte
	}{{"snapshot", snap.Bytes(), wantSnap.Bytes()}, {"file-after-snapshot", final.Bytes(), want.Bytes()}} {
		if bytes.Equal(pair.got, pair.want) {
			continue
		}
		if len(pair.got) != len(pair.want) {
			return vh.Failf("incremental/"+pair.name+"/length-differs", "add %d models, write, add %d models, write: the %s has %d bytes, the same calls without the write in between give %d", k, len(scene.Models)-k, pair.name, len(pair.got), len(pair.want))
		}
		// same length: only accept a different order of object members, i.e. the same accessor table
		pg, f := parseGLB(pair.got)
		if f != nil {
			f.Sig = "incremental/" + pair.name + "/" + f.Sig
			return f
		}
		pw, f := parseGLB(pair.want)
		if f != nil {
			o.Count("incremental/reference-unparsable-not-judged", 1)
			return nil
		}
		sameBufs := len(pg.bufs) == len(pw.bufs)
		for i := 0; sameBufs && i < len(pg.bufs); i++ {
			sameBufs = bytes.Equal(pg.bufs[i], pw.bufs[i])
		}
		if !reflect.DeepEqual(pg.tree["accessors"], pw.tree["accessors"]) || !reflect.DeepEqual(pg.tree["bufferViews"], pw.tree["bufferViews"]) || !sameBufs {
			return vh.Failf("incremental/"+pair.name+"/differs", "add %d models, write, add %d models, write: accessors, buffer views or payload of the %s differ from what the same calls give without the write in between", k, len(scene.Models)-k, pair.name)
		}
	}
	return nil
}

func write(scene gltf.PolyformScene, text bool) ([]byte, *vh.Failure) {
	buf := &bytes.Buffer{}
	var err error
	kind, val := oracle.Try(func() {
		if text {
			err = gltf.WriteText(scene, buf)
		} else {
			err = gltf.WriteBinary(scene, buf)
		}
	})
	name := map[bool]string{true: "WriteText", false: "WriteBinary"}[text]
	if kind != "" {
		return nil, vh.Failf("writer-panic/"+kind, "%s panicked on an in-domain scene: %v", name, val)
	}
	if err != nil {
		return nil, vh.Failf("writer-error", "%s failed on an in-domain scene: %v", name, err)
	}
	return buf.Bytes(), nil
}

func parse(b []byte, text bool) (*parsed, *vh.Failure) {
	if text {
		return parseText(b)
	}
	return parseGLB(b)
}

// normalisedTree: the document without buffer URIs and with sorted extension lists, for the
// comparison of the two containers (changes the tree in place; it is not used afterwards).
func normalisedTree(p *parsed) map[string]any {
	t := p.tree
	if bufs, ok := t["buffers"].([]any); ok {
		for _, e := range bufs {
			if m, ok := e.(map[string]any); ok {
				delete(m, "uri")
			}
		}
	}
	for _, k := range []string{"extensionsUsed", "extensionsRequired"} {
		if arr, ok := t[k].([]any); ok {
			sort.Slice(arr, func(i, j int) bool { return fmt.Sprint(arr[i]) < fmt.Sprint(arr[j]) })
		}
	}
	return t
}

func runCase(c Case, o *vh.Obs) *vh.Failure {
	if len(c.Meshes) == 0 {
		return nil
	}
	scene, descs, b := c.buildScene()
	container := map[bool]string{true: "gltf", false: "glb"}[c.Text]
	o.Class("container/" + container)

	out, f := write(scene, c.Text)
	if f != nil {
		return f
	}
	if (len(out)/4)%16 == 3 { // one case in sixteen: gltf.Save picks the container from the extension and must write the same bytes
		if f := savedBytesEqual(scene, container, out, o); f != nil {
			return f
		}
	}
	if !c.Text && len(scene.Models) >= 2 && (len(out)/4)%4 == 1 {
		if f := incrementalWriter(scene, o); f != nil {
			return f
		}
	}
	p, f := parse(out, c.Text)
	if f != nil {
		return f
	}
	if f := p.validate(o); f != nil {
		return f
	}
	if p.misaligned > 0 {
		o.Class("known/bufferview-misaligned")
	}
	isBig := false
	for _, s := range c.Meshes {
		if s.Big != nil || s.Tris > 0 { // procedurally described meshes: one container per case
			isBig = true
		}
	}
	if f := c.checkScene(p, descs, b, o); f != nil {
		return f
	}
	// the other container carries the same document and the same payload
	if !isBig {
		out2, f := write(scene, !c.Text)
		if f != nil {
			return f
		}
		p2, f := parse(out2, !c.Text)
		if f != nil {
			return f
		}
		if len(p.bufs) != len(p2.bufs) {
			return vh.Failf("containers-differ/buffer-count", "%d buffers in the %s, %d in the other container", len(p.bufs), container, len(p2.bufs))
		}
		for i := range p.bufs {
			n := p.doc.Buffers[i].ByteLength
			if p2.doc.Buffers[i].ByteLength != n || len(p2.bufs[i]) < n || !bytes.Equal(p.bufs[i][:n], p2.bufs[i][:n]) {
				return vh.Failf("containers-differ/payload", "buffer %d: WriteText and WriteBinary carry different payloads (%d vs %d declared bytes)", i, n, p2.doc.Buffers[i].ByteLength)
			}
		}
		if !reflect.DeepEqual(normalisedTree(p), normalisedTree(p2)) {
			return vh.Failf("containers-differ/document", "WriteText and WriteBinary give different documents for the same scene")
		}
	}
	return nil
}

func (c *Case) checkScene(p *parsed, descs []gen.MeshDesc, b *builder, o *vh.Obs) *vh.Failure {
	d := &p.doc
	// which models are emitted
	var emitted []int
	for i, md := range c.Models {
		if descs[mod(md.Mesh, len(descs))].PrimCount() > 0 {
			emitted = append(emitted, i)
		} else {
			o.Count("models_without_primitives_skipped", 1)
		}
	}
	o.Class(fmt.Sprintf("models/%d", len(emitted)))
	if len(d.Scenes) != 1 || (d.Scene != nil && *d.Scene != 0) {
		return vh.Failf("scene/count", "%d scenes", len(d.Scenes))
	}
	var meshNodes, lightNodes []int
	for _, ni := range d.Scenes[0].Nodes {
		n := d.Nodes[ni]
		_, isLight := n.Extensions["KHR_lights_punctual"]
		switch {
		case n.Mesh != nil && !isLight:
			meshNodes = append(meshNodes, ni)
		case n.Mesh == nil && isLight:
			lightNodes = append(lightNodes, ni)
		default:
			return vh.Failf("scene/unexpected-node", "scene node %d is neither a model nor a light", ni)
		}
	}
	if len(d.Nodes) != len(d.Scenes[0].Nodes) {
		return vh.Failf("scene/orphan-nodes", "%d nodes, the scene lists %d", len(d.Nodes), len(d.Scenes[0].Nodes))
	}
	if len(meshNodes) != len(emitted) {
		return vh.Failf("scene/model-node-count", "%d mesh nodes for %d models with primitives", len(meshNodes), len(emitted))
	}
	if len(lightNodes) != len(c.Lights) || len(p.lights()) != len(c.Lights) {
		return vh.Failf("scene/light-count", "%d light nodes and %d light definitions for %d lights", len(lightNodes), len(p.lights()), len(c.Lights))
	}

	type modelOut struct {
		model, slot, pool int
		gmat              int // -1 none
		gmesh             int
		accSig            string
	}
	var outs []modelOut
	slotSig := map[int]string{}
	slotUse := map[int]int{}
	oddIdx := false
	for k, mi := range emitted {
		md := c.Models[mi]
		slot := mod(md.Mesh, len(descs))
		desc := descs[slot]
		node := d.Nodes[meshNodes[k]]
		what := fmt.Sprintf("model %d (node %d)", mi, meshNodes[k])
		if node.Name != md.Name {
			return vh.Failf("node/name", "%s: node name %q, model name %q", what, node.Name, md.Name)
		}
		if node.Matrix != nil {
			return vh.Failf("node/matrix-instead-of-trs", "%s carries a matrix", what)
		}
		if !arrEq(node.Translation, optArr3(md.T, []float64{0, 0, 0}), []float64{0, 0, 0}) {
			return vh.Failf("node/translation", "%s: translation %v, model %v", what, node.Translation, md.T)
		}
		if !arrEq(node.Rotation, optArr4(md.R, []float64{0, 0, 0, 1}), []float64{0, 0, 0, 1}) {
			return vh.Failf("node/rotation", "%s: rotation %v, model %v", what, node.Rotation, md.R)
		}
		if !arrEq(node.Scale, optArr3(md.S, []float64{1, 1, 1}), []float64{1, 1, 1}) {
			return vh.Failf("node/scale", "%s: scale %v, model %v", what, node.Scale, md.S)
		}
		if md.T != nil || md.R != nil || md.S != nil {
			o.Class("node/trs")
		}
		gm := d.Meshes[*node.Mesh]
		if len(gm.Primitives) != 1 {
			return vh.Failf("data/primitive-count", "%s: mesh %d has %d primitives", what, *node.Mesh, len(gm.Primitives))
		}
		pr := gm.Primitives[0]
		// topology
		topo := desc.Topology()
		o.Class("topology/" + topo.String())
		mode := 4
		if pr.Mode != nil {
			mode = *pr.Mode
		}
		if (topo == modeling.PointTopology && mode != 0) || (topo == modeling.TriangleTopology && mode != 4) {
			return vh.Failf("data/primitive-mode", "%s: primitive mode %d for %s topology", what, mode, topo.String())
		}
		// attributes
		claimed := map[string]bool{}
		for _, ea := range expectedAttrs(desc, false) {
			key := ""
			for _, cand := range attrKeys(ea.name) {
				if _, ok := pr.Attributes[cand]; ok {
					key = cand
					break
				}
			}
			if key == "" {
				return vh.Failf("data/attribute-missing", "%s: attribute %s (arity %d) is not in the primitive %v", what, ea.name, ea.arity, sortedKeys(pr.Attributes))
			}
			claimed[key] = true
			ai := pr.Attributes[key]
			if ea.name == modeling.JointAttribute {
				a := d.Accessors[ai]
				if a.Type != "VEC4" || (a.ComponentType != 5121 && a.ComponentType != 5123) || a.Count != ea.n {
					return vh.Failf("data/joints-accessor", "%s: JOINTS_0 accessor %d is %s of componentType %d with %d elements (model: %d)", what, ai, a.Type, a.ComponentType, a.Count, ea.n)
				}
				rd := p.reader(a)
				for v := 0; v < ea.n; v++ {
					for cc := 0; cc < 4; cc++ {
						if got := rd.num(v, cc); got != ea.rows(v, cc) {
							return vh.Failf("data/joints-value", "%s: joint %d component %d stores %v, model has %v", what, v, cc, got, ea.rows(v, cc))
						}
					}
				}
				continue
			}
			if f := p.checkFloatAccessor(ai, fmt.Sprintf("%s attribute %s", what, key), ea.arity, ea.n, ea.rows, fmt.Sprintf("data/attribute-vec%d", ea.arity)); f != nil {
				return f
			}
		}
		scalars := expectedAttrs(desc, true)
		for _, key := range sortedKeys(pr.Attributes) {
			if claimed[key] {
				continue
			}
			found := false
			for _, ea := range scalars {
				for _, cand := range attrKeys(ea.name) {
					if cand == key {
						found = true
						if f := p.checkFloatAccessor(pr.Attributes[key], fmt.Sprintf("%s scalar attribute %s", what, key), 1, ea.n, ea.rows, "data/attribute-scalar"); f != nil {
							return f
						}
					}
				}
			}
			if !found {
				return vh.Failf("data/attribute-invented", "%s: the primitive has attribute %s, the model has none of that name", what, key)
			}
		}
		if len(scalars) > 0 && len(claimed) == len(pr.Attributes) {
			o.Count("scalar_attributes_not_exported", len(scalars))
		}
		// indices
		if pr.Indices == nil {
			return vh.Failf("data/indices-missing", "%s: the primitive has no indices accessor", what)
		}
		ia := d.Accessors[*pr.Indices]
		if ia.Count != len(desc.Idx) {
			return vh.Failf("data/index-count", "%s: %d indices stored, the model has %d", what, ia.Count, len(desc.Idx))
		}
		ird := p.reader(ia)
		for e, want := range desc.Idx {
			if got := int(ird.raw(e, 0)); got != want {
				return vh.Failf("data/index-value", "%s: index %d stores %d (componentType %d), the model has %d (mesh of %d vertices)", what, e, got, ia.ComponentType, want, desc.N)
			}
		}
		o.Class(map[int]string{5121: "indices/u8", 5123: "indices/u16", 5125: "indices/u32"}[ia.ComponentType])
		if c.Meshes[slot].Big != nil {
			o.Class(fmt.Sprintf("boundary/%d-vertices", desc.N))
		}
		if len(desc.Idx)%2 == 1 {
			oddIdx = true
		}
		// the same mesh pointer is stored once
		sig := fmt.Sprint(pr.Attributes, *pr.Indices)
		if prev, ok := slotSig[slot]; ok && prev != sig {
			return vh.Failf("dedup/mesh-stored-twice", "%s: mesh pool entry %d (one pointer) is written with accessors %s here and %s for an earlier model", what, slot, sig, prev)
		}
		slotSig[slot] = sig
		slotUse[slot]++
		// material presence
		mo := modelOut{model: mi, slot: slot, pool: -1, gmat: -1, gmesh: *node.Mesh, accSig: sig}
		if inRange(md.Mat, len(c.Mats)) {
			mo.pool = md.Mat
		}
		if pr.Material != nil {
			mo.gmat = *pr.Material
		}
		if mo.pool == -1 && mo.gmat != -1 {
			return vh.Failf("material/unexpected", "%s has no material but its primitive references material %d", what, mo.gmat)
		}
		if mo.pool != -1 && mo.gmat == -1 {
			return vh.Failf("material/missing", "%s has material pool entry %d but its primitive references none", what, mo.pool)
		}
		outs = append(outs, mo)
		// GPU instances
		raw, hasInst := node.Extensions["EXT_mesh_gpu_instancing"]
		if hasInst != (len(md.Inst) > 0) {
			return vh.Failf("instancing/presence", "%s has %d instances, EXT_mesh_gpu_instancing present: %v", what, len(md.Inst), hasInst)
		}
		if hasInst {
			o.Class(fmt.Sprintf("instances/%d", len(md.Inst)))
			var inst struct {
				Attributes map[string]int `json:"attributes"`
			}
			json.Unmarshal(raw, &inst)
			for _, key := range sortedKeys(inst.Attributes) {
				var f *vh.Failure
				w := fmt.Sprintf("%s instance %s", what, key)
				switch key {
				case "TRANSLATION":
					f = p.checkFloatAccessor(inst.Attributes[key], w, 3, len(md.Inst), func(v, cc int) float64 { return md.Inst[v].T[cc] }, "instancing/translation")
				case "SCALE":
					f = p.checkFloatAccessor(inst.Attributes[key], w, 3, len(md.Inst), func(v, cc int) float64 { return md.Inst[v].S[cc] }, "instancing/scale")
				case "ROTATION":
					f = p.checkFloatAccessor(inst.Attributes[key], w, 4, len(md.Inst), func(v, cc int) float64 { return md.Inst[v].R[cc] }, "instancing/rotation")
				default:
					f = vh.Failf("instancing/unexpected-attribute", "%s: attribute %s", what, key)
				}
				if f != nil {
					return f
				}
			}
			// an omitted attribute stands for the identity
			for _, in := range md.Inst {
				_, hasT := inst.Attributes["TRANSLATION"]
				_, hasR := inst.Attributes["ROTATION"]
				_, hasS := inst.Attributes["SCALE"]
				if (!hasT && in.T != [3]float64{}) || (!hasR && in.R != [4]float64{0, 0, 0, 1}) || (!hasS && in.S != [3]float64{1, 1, 1}) {
					return vh.Failf("instancing/attribute-missing", "%s: instancing attributes %v do not carry a non-identity component of %+v", what, sortedKeys(inst.Attributes), in)
				}
			}
		}
	}
	for _, n := range slotUse {
		if n > 1 {
			o.Class("mesh/shared-pointer")
		}
	}
	for i := range c.Meshes {
		for j := i + 1; j < len(c.Meshes); j++ {
			if slotUse[i] > 0 && slotUse[j] > 0 && reflect.DeepEqual(c.Meshes[i], c.Meshes[j]) {
				o.Class("mesh/equal-by-value-copies")
			}
		}
	}

	// lights: k-th light node <-> k-th light
	lights := p.lights()
	for k, ld := range c.Lights {
		node := d.Nodes[lightNodes[k]]
		what := fmt.Sprintf("light %d (node %d)", k, lightNodes[k])
		if !arrEq(node.Translation, ld.Pos[:], []float64{0, 0, 0}) {
			return vh.Failf("light/position", "%s: node translation %v, light position %v", what, node.Translation, ld.Pos)
		}
		var ref struct {
			Light int `json:"light"`
		}
		json.Unmarshal(node.Extensions["KHR_lights_punctual"], &ref)
		l := lights[ref.Light]
		if l["type"] != lightTypeNames[mod(ld.Type, 4)] {
			return vh.Failf("light/type", "%s: type %v, want %s", what, l["type"], lightTypeNames[mod(ld.Type, 4)])
		}
		wantCol := []float64{1, 1, 1}
		if col(ld.Color) != nil {
			wantCol = colF(ld.Color, 3)
		}
		gotCol := []float64{1, 1, 1}
		if v, has := l["color"]; has {
			arr, err := floatArr(v, 3)
			if err != nil {
				return vh.Failf("light/color-malformed", "%s: %v", what, err)
			}
			gotCol = arr
		}
		if !floatsNear(gotCol, wantCol) {
			return vh.Failf("light/color", "%s: colour %v, want %v", what, gotCol, wantCol)
		}
		for _, fld := range []struct {
			key string
			sel int
			def float64
		}{{"intensity", ld.Intensity, 1}, {"range", ld.Range, math.Inf(1)}} {
			want := fld.def
			if v, ok := opt(fld.sel); ok {
				want = v
			}
			got := fld.def
			if v, has := l[fld.key]; has {
				f, ok := v.(float64)
				if !ok {
					return vh.Failf("light/"+fld.key+"-malformed", "%s: %s is %v", what, fld.key, v)
				}
				got = f
			}
			if got != want {
				return vh.Failf("light/"+fld.key, "%s: %s %v, want %v", what, fld.key, got, want)
			}
		}
	}
	if len(c.Lights) > 0 {
		o.Class(fmt.Sprintf("lights/%d", len(c.Lights)))
	}

	// materials
	exp := make([]cMat, len(c.Mats))
	for i, md := range c.Mats {
		exp[i] = c.expectMat(md)
	}
	mustMerge := func(a, b2 int) bool {
		if a == b2 {
			return true
		}
		return reflect.DeepEqual(b.mats[a], b.mats[b2]) && reflect.DeepEqual(c.identityRefs(c.Mats[a]), c.identityRefs(c.Mats[b2]))
	}
	sharedMat := false
	classes := map[string]bool{}
	for i := 0; i < len(outs); i++ {
		for j := i + 1; j < len(outs); j++ {
			a, bb := outs[i], outs[j]
			if a.pool == -1 || bb.pool == -1 {
				continue
			}
			diff := diffMat(exp[a.pool], exp[bb.pool])
			if len(diff) > 0 && a.gmat == bb.gmat && a.gmesh == bb.gmesh {
				// the glTF mesh (geometry + material) is shared although the document holds a material
				// with the second model's content: the mesh table, not the material table, merged them
				for gi := range d.Materials {
					if got, err := p.readMat(gi); err == nil && gi != a.gmat && len(diffMat(exp[bb.pool], got)) == 0 {
						return vh.Failf("mesh-dedup/mesh-shared-across-different-materials",
							"models %d and %d use one mesh pointer with different materials (pool entries %d and %d, differing in %v); glTF material %d holds the second one's content, but both nodes reference glTF mesh %d whose primitive has material %d: the second model is drawn with the first one's material",
							a.model, bb.model, a.pool, bb.pool, diff, gi, a.gmesh, a.gmat)
					}
				}
			}
			if len(diff) > 0 && a.gmat == bb.gmat {
				stored := "unreadable"
				if got, err := p.readMat(a.gmat); err == nil {
					stored = showMat(got)
				}
				return vh.Failf("material-dedup/distinct-materials-share-entry/"+diff[0],
					"models %d and %d have materials (pool entries %d and %d) that differ in %v, but both primitives reference glTF material %d of %d: the second model silently gets the first one's %s\n material of model %d: %s\n material of model %d: %s\n stored glTF material %d: %s",
					a.model, bb.model, a.pool, bb.pool, diff, a.gmat, len(d.Materials), diff[0], a.model, showMat(exp[a.pool]), bb.model, showMat(exp[bb.pool]), a.gmat, stored)
			}
			must := mustMerge(a.pool, bb.pool)
			if must && a.gmat != bb.gmat {
				kind := "equal-by-value"
				if a.pool == bb.pool {
					kind = "same-pointer"
				}
				return vh.Failf("material-dedup/"+kind+"-stored-twice", "models %d and %d use %s materials (pool entries %d and %d) but reference glTF materials %d and %d",
					a.model, bb.model, kind, a.pool, bb.pool, a.gmat, bb.gmat)
			}
			switch {
			case a.pool == bb.pool:
				classes["matpair/same-pointer"], sharedMat = true, true
			case must:
				classes["matpair/equal-by-value"], sharedMat = true, true
			case len(diff) == 0:
				classes["matpair/equal-content-not-deep-equal"] = true
				if a.gmat == bb.gmat {
					o.Count("equal_content_merged", 1)
				} else {
					o.Count("equal_content_stored_twice", 1)
				}
			case len(diff) == 1:
				classes["matpair/one-field/"+diff[0]] = true
			default:
				classes["matpair/multi-field"] = true
			}
		}
	}
	for _, k := range sortedKeys(classes) {
		o.Class(k)
	}
	// every model's primitive references ITS material (content), textures resolved
	read := map[int]cMat{}
	owner := map[int]int{} // glTF material -> first pool entry seen with it
	texOf := map[int]int{} // texture pool entry -> glTF texture
	reqd := map[string]bool{}
	for _, e := range d.ExtensionsRequired {
		reqd[e] = true
	}
	for _, mo := range outs {
		if mo.pool == -1 {
			continue
		}
		got, ok := read[mo.gmat]
		if !ok {
			var err error
			got, err = p.readMat(mo.gmat)
			if err != nil {
				return vh.Failf("material-content/unreadable", "glTF material %d (model %d): %v", mo.gmat, mo.model, err)
			}
			read[mo.gmat] = got
		}
		if diff := diffMat(exp[mo.pool], got); len(diff) > 0 {
			return vh.Failf("material-content/"+diff[0], "model %d: its material (pool entry %d) and the glTF material %d its primitive references differ in %v\n want %s\n got  %s",
				mo.model, mo.pool, mo.gmat, diff, showMat(exp[mo.pool]), showMat(got))
		}
		for _, e := range c.Mats[mo.pool].Exts {
			classes["ext/"+extIDs[mod(e.Kind, extKinds)]] = true
		}
		if _, ok := owner[mo.gmat]; !ok {
			owner[mo.gmat] = mo.pool
		}
		if owner[mo.gmat] != mo.pool {
			continue
		}
		// owner material: its texture pointers reached the writer
		want := c.expectRefs(c.Mats[mo.pool])
		gotRefs, err := p.readRefs(mo.gmat)
		if err != nil {
			return vh.Failf("material-content/unreadable", "glTF material %d: %v", mo.gmat, err)
		}
		for _, key := range sortedKeys(want) {
			ref := want[key]
			gi, ok := gotRefs[key]
			if !ok {
				continue // content comparison above already covers presence
			}
			if prev, seen := texOf[ref]; seen && prev != gi {
				return vh.Failf("dedup/texture-stored-twice", "texture pool entry %d (one pointer) is glTF texture %d in one place and %d at %s of material %d", ref, prev, gi, key, mo.gmat)
			}
			texOf[ref] = gi
			if c.Texs[ref].required() && !reqd["KHR_texture_transform"] {
				return vh.Failf("extension-required-not-listed", "texture pool entry %d marks KHR_texture_transform as required (used at %s of material %d) but extensionsRequired is %v", ref, key, mo.gmat, d.ExtensionsRequired)
			}
			if c.Texs[ref].XF != 0 {
				classes["texture/transform"] = true
			}
		}
	}
	for _, k := range sortedKeys(classes) {
		if strings.HasPrefix(k, "ext/") || strings.HasPrefix(k, "texture/") {
			o.Class(k)
		}
	}
	if len(texOf) > 0 {
		o.Class("material/textured")
		seenURI := map[string]bool{}
		for _, im := range d.Images {
			if im.URI != nil {
				if seenURI[*im.URI] {
					o.Count("images_with_duplicate_uri", 1)
				}
				seenURI[*im.URI] = true
			}
		}
	}
	shared := false
	for _, n := range slotUse {
		if n > 1 {
			shared = true
		}
	}
	if len(emitted) >= 2 && (shared || sharedMat || oddIdx) {
		o.NonTrivial()
	}
	return nil
}

func showMat(m cMat) string {
	def := newCMat()
	var parts []string
	add := func(show bool, format string, a ...any) {
		if show {
			parts = append(parts, fmt.Sprintf(format, a...))
		}
	}
	add(true, "name %q", m.Name)
	add(m.Extras != "", "extras %s", m.Extras)
	add(m.AlphaMode != def.AlphaMode || m.AlphaCutoff != def.AlphaCutoff, "alpha %s/%v", m.AlphaMode, m.AlphaCutoff)
	add(!floatsNear(m.Emissive, def.Emissive), "emissive %v", m.Emissive)
	add(!floatsNear(m.BaseColor, def.BaseColor), "baseColor %v", m.BaseColor)
	add(m.Metallic != 1, "metallic %v", m.Metallic)
	add(m.Roughness != 1, "roughness %v", m.Roughness)
	add(m.NormalScale != 1, "normalScale %v", m.NormalScale)
	add(m.OccStrength != 1, "occlusionStrength %v", m.OccStrength)
	for _, k := range sortedKeys(m.Tex) {
		add(true, "%s %s", k, showTex(*m.Tex[k]))
	}
	for _, id := range sortedKeys(m.Ext) {
		var f []string
		for _, k := range sortedKeys(m.Ext[id]) {
			if t, ok := m.Ext[id][k].(cTex); ok {
				f = append(f, k+" "+showTex(t))
			} else {
				f = append(f, fmt.Sprintf("%s %v", k, m.Ext[id][k]))
			}
		}
		add(true, "%s{%s}", id, strings.Join(f, ", "))
	}
	return "{" + strings.Join(parts, "; ") + "}"
}

func showTex(t cTex) string {
	s := fmt.Sprintf("<%s", t.URI)
	if t.Mag != 0 || t.Min != 0 || t.WrapS != 10497 || t.WrapT != 10497 {
		s += fmt.Sprintf(" sampler %d/%d/%d/%d", t.Mag, t.Min, t.WrapS, t.WrapT)
	}
	if d := defaultTex(t.URI); t.Off != d.Off || t.Scl != d.Scl || t.Rot != d.Rot || t.XTexCoord != d.XTexCoord {
		s += fmt.Sprintf(" transform offset %v rotation %v scale %v texCoord %d", t.Off, t.Rot, t.Scl, t.XTexCoord)
	}
	if t.TexCoord != 0 {
		s += fmt.Sprintf(" texCoord %d", t.TexCoord)
	}
	return s + ">"
}

// expectRefs: textureInfo location -> texture pool entry, for the textures a material hands over.
func (c *Case) expectRefs(d MatDesc) map[string]int {
	out := map[string]int{}
	add := func(key string, ref int) {
		if inRange(ref, len(c.Texs)) {
			out[key] = ref
		}
	}
	if d.Pbr {
		add("pbrMetallicRoughness.baseColorTexture", d.BaseTex)
		add("pbrMetallicRoughness.metallicRoughnessTexture", d.MRTex)
	}
	add("normalTexture", d.NormalTex)
	add("occlusionTexture", d.OccTex)
	names := map[int][2]string{2: {"transmissionTexture"}, 3: {"thicknessTexture"}, 4: {"specularTexture", "specularColorTexture"},
		5: {"clearcoatTexture", "clearcoatRoughnessTexture"}, 7: {"iridescenceTexture", "iridescenceThicknessTexture"},
		8: {"sheenColorTexture", "sheenRoughnessTexture"}, 9: {"anisotropyTexture"}, 11: {"diffuseTexture", "specularGlossinessTexture"}}
	for _, e := range d.Exts {
		k := mod(e.Kind, extKinds)
		for i, ref := range []int{e.T1, e.T2} {
			if names[k][i] != "" {
				add("extensions."+extIDs[k]+"."+names[k][i], ref)
			}
		}
	}
	return out
}

// readRefs: textureInfo location -> glTF texture index of material mi.
func (p *parsed) readRefs(mi int) (map[string]int, error) {
	var raw any
	if err := json.Unmarshal(p.doc.Materials[mi], &raw); err != nil {
		return nil, err
	}
	out := map[string]int{}
	var walk func(v any, path string)
	walk = func(v any, path string) {
		m, ok := v.(map[string]any)
		if !ok {
			return
		}
		for _, k := range sortedKeys(m) {
			if k == "extras" {
				continue
			}
			sub := k
			if path != "" {
				sub = path + "." + k
			}
			if ti, ok := isTextureInfo(k, m[k]); ok {
				if ix, ok := asIndex(ti["index"]); ok {
					out[sub] = ix
				}
				continue
			}
			walk(m[k], sub)
		}
	}
	walk(raw, "")
	return out, nil
}

// ---------------------------------------------------------------- index-count sweep

// A writer that emits the indices (or any accessor) in blocks of K elements can lose its last block
// exactly when the element count is a multiple of K; K is an implementation detail, so sampled
// mesh sizes do not meet it. The sweep writes, for EVERY triangle count 1..N (N = 1500 quick, 9000
// thorough: 27 000 indices), a scene with one model whose mesh is gridDesc(n), as .glb and, for
// every 16th count, also as .gltf with an embedded base64 buffer; runCase judges it (container
// and chunk lengths, bufferView/accessor ranges, index accessor count 3n and every index value,
// every position, min/max ...).
func sweepN() int {
	if vh.Tier == "thorough" {
		return 9000
	}
	return 1500
}

func sweepCase(n int, text bool) Case {
	return Case{Text: text, Meshes: []MeshSlot{{Tris: n}}, Models: []ModelDesc{{Name: "sweep", Mesh: 0, Mat: -1}}}
}

func sweepCases() []Case {
	var cs []Case
	for n := 1; n <= sweepN(); n++ {
		cs = append(cs, sweepCase(n, false))
		if n%16 == 0 {
			cs = append(cs, sweepCase(n, true))
		}
	}
	return cs
}

var sweepBounds = []int{1500, 4000, 9000}

func runSweep(c Case, o *vh.Obs) *vh.Failure {
	if len(c.Meshes) != 1 || c.Meshes[0].Tris < 1 || c.Meshes[0].Tris > 1<<20 || len(c.Models) != 1 {
		o.Class("out-of-domain")
		return nil
	}
	n := c.Meshes[0].Tris
	lo := 1
	for _, hi := range sweepBounds {
		if n <= hi {
			o.Class(fmt.Sprintf("sweep/triangles-%d..%d", lo, hi))
			break
		}
		lo = hi + 1
	}
	if n > sweepBounds[len(sweepBounds)-1] {
		o.Class(fmt.Sprintf("sweep/triangles-above-%d", sweepBounds[len(sweepBounds)-1]))
	}
	o.NonTrivial()
	f := runCase(c, o)
	if f != nil {
		f.Msg = fmt.Sprintf("one model, welded grid mesh of %d triangles (%d indices), container %s: %s", n, 3*n, map[bool]string{true: "gltf", false: "glb"}[c.Text], f.Msg)
	}
	return f
}

func TestC06(t *testing.T) {
	vh.Note("sensitivity (scratch copy with the material-equality repair, one mutant at a time, quick tier, all caught): vec2 byteLength too long / too short; vec3 min/max swapped / max not updated; indices always 16-bit; " +
		"mesh table keyed without the material index; GLB total length without the BIN chunk header; one pad byte after / inside an odd 16-bit index view and after every vec4 view (reported as bufferview-misaligned/unexplained); " +
		"node rotation w-first; instance scale/translation swapped; texture extension not declared; light position component dropped; JSON chunk padded with zeros; BIN chunk length unpadded; mesh data cache ignored; " +
		"material table never matching; base64 payload truncated; point mode omitted; joints written as float; each of the repair's comparisons reverted. A correct alignment repair (pad to 4 bytes after the indices) passes without the known finding.")
	vh.Drive(t, vh.Spec[Case]{Name: "scene", Quick: 60000, Thorough: 1200000, Gen: genCase, Run: runCase})
	vh.Drive(t, vh.Spec[vh.Conc[Case]]{Name: "concurrent-writers", Quick: 1600, Thorough: 40000, Gen: vh.GenConc(genCase), Run: vh.RunConc(runCase), Repeat: 20})
	vh.Enumerate(t, vh.Spec[Case]{Name: "index-count-sweep", Run: runSweep,
		Key: func(c Case) string {
			if len(c.Meshes) != 1 {
				return "out-of-domain"
			}
			return fmt.Sprint(c.Meshes[0].Tris, c.Text)
		}}, sweepCases())
}

func FuzzC06(f *testing.F) {
	vh.Fuzz(f, vh.Spec[Case]{Name: "scene", Gen: genCase, Run: runCase})
}
