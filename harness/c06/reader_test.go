package c06

// Independent glTF 2.0 / GLB reader of the harness: own structs over encoding/json, own GLB chunk
// parser, base64 data URIs, and the structural rules of the glTF 2.0 specification that DESIGN.md
// (C06) lists. Nothing here uses the types or helpers of formats/gltf.

import (
	"bytes"
	"encoding/base64"
	"encoding/binary"
	"encoding/json"
	"fmt"
	"math"
	"sort"
	"strings"

	"verifharness/internal/vh"
)

type gAccessor struct {
	BufferView    *int            `json:"bufferView"`
	ByteOffset    int             `json:"byteOffset"`
	ComponentType int             `json:"componentType"`
	Normalized    bool            `json:"normalized"`
	Type          string          `json:"type"`
	Count         int             `json:"count"`
	Min           []float64       `json:"min"`
	Max           []float64       `json:"max"`
	Sparse        json.RawMessage `json:"sparse"`
}

type gView struct {
	Buffer     int  `json:"buffer"`
	ByteOffset int  `json:"byteOffset"`
	ByteLength int  `json:"byteLength"`
	ByteStride *int `json:"byteStride"`
	Target     *int `json:"target"`
}

type gBuffer struct {
	ByteLength int     `json:"byteLength"`
	URI        *string `json:"uri"`
}

type gPrim struct {
	Attributes map[string]int `json:"attributes"`
	Indices    *int           `json:"indices"`
	Material   *int           `json:"material"`
	Mode       *int           `json:"mode"`
}

type gMesh struct {
	Name       string  `json:"name"`
	Primitives []gPrim `json:"primitives"`
}

type gNode struct {
	Name        string                     `json:"name"`
	Mesh        *int                       `json:"mesh"`
	Skin        *int                       `json:"skin"`
	Children    []int                      `json:"children"`
	Translation []float64                  `json:"translation"`
	Rotation    []float64                  `json:"rotation"`
	Scale       []float64                  `json:"scale"`
	Matrix      []float64                  `json:"matrix"`
	Extensions  map[string]json.RawMessage `json:"extensions"`
}

type gTexture struct {
	Sampler *int `json:"sampler"`
	Source  *int `json:"source"`
}

type gImage struct {
	URI        *string `json:"uri"`
	BufferView *int    `json:"bufferView"`
}

type gSampler struct {
	MagFilter *int `json:"magFilter"`
	MinFilter *int `json:"minFilter"`
	WrapS     *int `json:"wrapS"`
	WrapT     *int `json:"wrapT"`
}

type gDoc struct {
	Asset struct {
		Version string `json:"version"`
	} `json:"asset"`
	Scene  *int `json:"scene"`
	Scenes []struct {
		Nodes []int `json:"nodes"`
	} `json:"scenes"`
	Nodes              []gNode                    `json:"nodes"`
	Meshes             []gMesh                    `json:"meshes"`
	Accessors          []gAccessor                `json:"accessors"`
	BufferViews        []gView                    `json:"bufferViews"`
	Buffers            []gBuffer                  `json:"buffers"`
	Materials          []json.RawMessage          `json:"materials"`
	Textures           []gTexture                 `json:"textures"`
	Images             []gImage                   `json:"images"`
	Samplers           []gSampler                 `json:"samplers"`
	ExtensionsUsed     []string                   `json:"extensionsUsed"`
	ExtensionsRequired []string                   `json:"extensionsRequired"`
	Extensions         map[string]json.RawMessage `json:"extensions"`
}

// parsed is one decoded asset: typed document, generic tree and one payload per buffer.
type parsed struct {
	doc  gDoc
	tree map[string]any
	bufs [][]byte

	indexAcc    map[int]bool  // accessors referenced as primitive.indices
	viewAccs    map[int][]int // bufferView -> accessors using it
	misaligned  int           // accessors hit by the known alignment finding
	misalignedX string        // first example
}

var compSize = map[int]int{5120: 1, 5121: 1, 5122: 2, 5123: 2, 5125: 4, 5126: 4}
var typeN = map[string]int{"SCALAR": 1, "VEC2": 2, "VEC3": 3, "VEC4": 4, "MAT2": 4, "MAT3": 9, "MAT4": 16}

const (
	glbMagic  = 0x46546C67
	chunkJSON = 0x4E4F534A
	chunkBIN  = 0x004E4942
	sigKnown  = "bufferview-misaligned/after-odd-u16-indices"
)

func decodeDoc(js []byte, p *parsed) *vh.Failure {
	if err := json.Unmarshal(js, &p.doc); err != nil {
		return vh.Failf("json/typed-decode", "document does not decode into the glTF schema: %v", err)
	}
	if err := json.Unmarshal(js, &p.tree); err != nil {
		return vh.Failf("json/not-an-object", "document is not a JSON object: %v", err)
	}
	return nil
}

func dataURI(uri string) ([]byte, error) {
	for _, pre := range []string{"data:application/octet-stream;base64,", "data:application/gltf-buffer;base64,"} {
		if strings.HasPrefix(uri, pre) {
			return base64.StdEncoding.DecodeString(uri[len(pre):])
		}
	}
	n := len(uri)
	if n > 40 {
		n = 40
	}
	return nil, fmt.Errorf("not a base64 data URI of a buffer media type: %q...", uri[:n])
}

// parseGLB splits a GLB container (12-byte header, JSON chunk, optional BIN chunk).
func parseGLB(b []byte) (*parsed, *vh.Failure) {
	p := &parsed{}
	if len(b) < 12 {
		return nil, vh.Failf("glb/short-header", "%d bytes", len(b))
	}
	le := binary.LittleEndian
	if le.Uint32(b) != glbMagic {
		return nil, vh.Failf("glb/magic", "magic %#x", le.Uint32(b))
	}
	if le.Uint32(b[4:]) != 2 {
		return nil, vh.Failf("glb/version", "version %d", le.Uint32(b[4:]))
	}
	if total := int(le.Uint32(b[8:])); total != len(b) {
		return nil, vh.Failf("glb/total-length", "header declares %d bytes, the container has %d (difference %d)", total, len(b), len(b)-total)
	}
	type chunk struct {
		typ  uint32
		data []byte
	}
	var chunks []chunk
	for off := 12; off < len(b); {
		if off+8 > len(b) {
			return nil, vh.Failf("glb/chunk-header-truncated", "chunk %d header at %d exceeds the container (%d bytes)", len(chunks), off, len(b))
		}
		n := int(le.Uint32(b[off:]))
		if n%4 != 0 {
			return nil, vh.Failf("glb/chunk-length-unaligned", "chunk %d length %d is not a multiple of 4", len(chunks), n)
		}
		if off+8+n > len(b) {
			return nil, vh.Failf("glb/chunk-exceeds-container", "chunk %d: %d bytes at %d exceed the container (%d bytes)", len(chunks), n, off+8, len(b))
		}
		chunks = append(chunks, chunk{le.Uint32(b[off+4:]), b[off+8 : off+8+n]})
		off += 8 + n
	}
	if len(chunks) == 0 || chunks[0].typ != chunkJSON {
		return nil, vh.Failf("glb/first-chunk-not-json", "%d chunks", len(chunks))
	}
	js := bytes.TrimRight(chunks[0].data, " ")
	if !json.Valid(js) {
		return nil, vh.Failf("glb/json-chunk-invalid", "JSON chunk (after removing trailing spaces) is not valid JSON; last bytes % x", tail(chunks[0].data, 8))
	}
	if f := decodeDoc(js, p); f != nil {
		return nil, f
	}
	var bin []byte
	hasBin := false
	for i, c := range chunks[1:] {
		if c.typ == chunkBIN {
			if i != 0 {
				return nil, vh.Failf("glb/bin-chunk-not-second", "BIN chunk is chunk %d", i+1)
			}
			bin, hasBin = c.data, true
		}
	}
	for i, bf := range p.doc.Buffers {
		if bf.URI != nil {
			data, err := dataURI(*bf.URI)
			if err != nil {
				return nil, vh.Failf("glb/buffer-uri", "buffer %d: %v", i, err)
			}
			p.bufs = append(p.bufs, data)
			continue
		}
		if i != 0 {
			return nil, vh.Failf("glb/buffer-without-uri-not-first", "buffer %d has no uri; only buffer 0 may refer to the BIN chunk", i)
		}
		if !hasBin {
			return nil, vh.Failf("glb/buffer-without-bin-chunk", "buffer 0 has no uri and the container has no BIN chunk")
		}
		if bf.ByteLength > len(bin) {
			return nil, vh.Failf("glb/bin-chunk-shorter-than-buffer", "buffer.byteLength %d > BIN chunk %d", bf.ByteLength, len(bin))
		}
		if len(bin)-bf.ByteLength > 3 {
			return nil, vh.Failf("glb/bin-chunk-too-big", "BIN chunk %d bytes for buffer.byteLength %d (more than 3 padding bytes)", len(bin), bf.ByteLength)
		}
		if bf.ByteLength >= 0 {
			for k := bf.ByteLength; k < len(bin); k++ {
				if bin[k] != 0 {
					return nil, vh.Failf("glb/bin-padding-nonzero", "BIN padding byte %d is %#x", k, bin[k])
				}
			}
		}
		p.bufs = append(p.bufs, bin)
	}
	return p, nil
}

func tail(b []byte, n int) []byte {
	if len(b) > n {
		return b[len(b)-n:]
	}
	return b
}

// parseText reads a .gltf document with embedded base64 buffers.
func parseText(b []byte) (*parsed, *vh.Failure) {
	p := &parsed{}
	if !json.Valid(b) {
		return nil, vh.Failf("text/json-invalid", "output is not valid JSON")
	}
	if f := decodeDoc(b, p); f != nil {
		return nil, f
	}
	for i, bf := range p.doc.Buffers {
		if bf.URI == nil {
			return nil, vh.Failf("text/buffer-without-uri", "buffer %d of a .gltf document has no uri", i)
		}
		data, err := dataURI(*bf.URI)
		if err != nil {
			return nil, vh.Failf("text/buffer-uri", "buffer %d: %v", i, err)
		}
		if len(data) < bf.ByteLength {
			return nil, vh.Failf("text/buffer-shorter-than-bytelength", "buffer %d: byteLength %d, data URI carries %d bytes", i, bf.ByteLength, len(data))
		}
		p.bufs = append(p.bufs, data)
	}
	return p, nil
}

func inRange(i, n int) bool { return i >= 0 && i < n }

// elemSize: bytes of one tightly packed element (matrix column padding does not occur for
// 4-byte components, the only matrices the glTF writer could emit).
func elemSize(a gAccessor) int { return compSize[a.ComponentType] * typeN[a.Type] }

func (p *parsed) stride(a gAccessor) int {
	v := p.doc.BufferViews[*a.BufferView]
	if v.ByteStride != nil {
		return *v.ByteStride
	}
	return elemSize(a)
}

// accReader reads the elements of one validated accessor.
type accReader struct {
	buf              []byte
	base, stride, cs int
	ct               int
}

func (p *parsed) reader(a gAccessor) accReader {
	v := p.doc.BufferViews[*a.BufferView]
	return accReader{buf: p.bufs[v.Buffer], base: v.ByteOffset + a.ByteOffset, stride: p.stride(a), cs: compSize[a.ComponentType], ct: a.ComponentType}
}

// raw returns component c of element e as little-endian bits.
func (r accReader) raw(e, c int) uint32 {
	b := r.buf[r.base+e*r.stride+c*r.cs:]
	switch r.cs {
	case 1:
		return uint32(b[0])
	case 2:
		return uint32(binary.LittleEndian.Uint16(b))
	default:
		return binary.LittleEndian.Uint32(b)
	}
}

// num: numeric value of a stored component (for min/max and index checks).
func (r accReader) num(e, c int) float64 {
	x := r.raw(e, c)
	switch r.ct {
	case 5126:
		return float64(math.Float32frombits(x))
	case 5120:
		return float64(int8(x))
	case 5122:
		return float64(int16(x))
	default:
		return float64(x)
	}
}

// misalignmentExplained decides whether the misalignment of accessor ai is exactly the one the
// packed layout of the pinned writer after 16-bit index views explains (the known finding):
// a 4-byte component type, accessor.byteOffset 0, bufferView.byteOffset = 2 (mod 4), bufferViews
// 0..k laid out back to back from offset 0 in one buffer, every preceding view whose length is
// not a multiple of 4 being the view of a SCALAR UNSIGNED_SHORT index accessor with an odd count
// and byteLength 2*count, and an odd number of those. Anything else is reported.
func (p *parsed) misalignmentExplained(ai int) (bool, string) {
	d := &p.doc
	a := d.Accessors[ai]
	k := *a.BufferView
	v := d.BufferViews[k]
	if compSize[a.ComponentType] != 4 {
		return false, fmt.Sprintf("component size %d", compSize[a.ComponentType])
	}
	if a.ByteOffset != 0 {
		return false, fmt.Sprintf("accessor.byteOffset %d", a.ByteOffset)
	}
	if v.ByteStride != nil {
		return false, "strided view"
	}
	if v.ByteOffset%4 != 2 {
		return false, fmt.Sprintf("bufferView.byteOffset %d = %d (mod 4), the packed layout after 16-bit indices can only give 2", v.ByteOffset, v.ByteOffset%4)
	}
	end, odd := 0, 0
	for j := 0; j <= k; j++ {
		w := d.BufferViews[j]
		if w.Buffer != v.Buffer {
			return false, fmt.Sprintf("bufferView %d lives in another buffer", j)
		}
		if w.ByteOffset != end {
			return false, fmt.Sprintf("bufferView %d starts at %d but the preceding views end at %d: the layout is not packed", j, w.ByteOffset, end)
		}
		if j == k {
			break
		}
		end = w.ByteOffset + w.ByteLength
		if w.ByteLength%4 == 0 {
			continue
		}
		accs := p.viewAccs[j]
		if len(accs) != 1 {
			return false, fmt.Sprintf("bufferView %d (length %d) is used by %d accessors", j, w.ByteLength, len(accs))
		}
		b := d.Accessors[accs[0]]
		if !(p.indexAcc[accs[0]] && b.ComponentType == 5123 && b.Type == "SCALAR" && b.ByteOffset == 0 && b.Count%2 == 1 && w.ByteLength == 2*b.Count) {
			return false, fmt.Sprintf("bufferView %d has length %d (not a multiple of 4) and is not the view of a 16-bit index accessor of odd count (accessor %d: componentType %d type %s count %d index=%v)",
				j, w.ByteLength, accs[0], b.ComponentType, b.Type, b.Count, p.indexAcc[accs[0]])
		}
		odd++
	}
	if odd%2 != 1 {
		return false, fmt.Sprintf("%d odd 16-bit index views precede the view", odd)
	}
	return true, ""
}

// validate applies the structural rules. A misalignment explained by the known finding is
// counted (and the case continues) when the finding is listed; everything else is a failure.
func (p *parsed) validate(o *vh.Obs) *vh.Failure {
	d := &p.doc
	if d.Asset.Version != "2.0" {
		return vh.Failf("struct/asset-version", "asset.version %q", d.Asset.Version)
	}
	if len(p.bufs) != len(d.Buffers) {
		return vh.Failf("struct/buffer-payloads", "%d payloads for %d buffers", len(p.bufs), len(d.Buffers))
	}
	for i, b := range d.Buffers {
		if b.ByteLength < 1 {
			return vh.Failf("struct/buffer-bytelength", "buffer %d byteLength %d", i, b.ByteLength)
		}
		if len(p.bufs[i]) < b.ByteLength {
			return vh.Failf("struct/buffer-shorter-than-bytelength", "buffer %d byteLength %d, payload %d", i, b.ByteLength, len(p.bufs[i]))
		}
	}
	for i, v := range d.BufferViews {
		if !inRange(v.Buffer, len(d.Buffers)) {
			return vh.Failf("struct/bufferview-buffer-index", "bufferView %d refers to buffer %d of %d", i, v.Buffer, len(d.Buffers))
		}
		if v.ByteLength < 1 {
			return vh.Failf("struct/bufferview-empty", "bufferView %d byteLength %d", i, v.ByteLength)
		}
		if v.ByteOffset < 0 || v.ByteOffset+v.ByteLength > d.Buffers[v.Buffer].ByteLength {
			return vh.Failf("struct/bufferview-exceeds-buffer", "bufferView %d [%d,+%d) exceeds buffer.byteLength %d", i, v.ByteOffset, v.ByteLength, d.Buffers[v.Buffer].ByteLength)
		}
		if v.ByteStride != nil && (*v.ByteStride < 4 || *v.ByteStride > 252 || *v.ByteStride%4 != 0) {
			return vh.Failf("struct/bufferview-stride", "bufferView %d byteStride %d", i, *v.ByteStride)
		}
		if v.Target != nil && *v.Target != 34962 && *v.Target != 34963 {
			return vh.Failf("struct/bufferview-target", "bufferView %d target %d", i, *v.Target)
		}
	}
	// references of primitives first: they decide which accessors are index accessors
	p.indexAcc, p.viewAccs = map[int]bool{}, map[int][]int{}
	for mi, m := range d.Meshes {
		if len(m.Primitives) == 0 {
			return vh.Failf("struct/mesh-without-primitives", "mesh %d", mi)
		}
		for pi, pr := range m.Primitives {
			for _, k := range sortedKeys(pr.Attributes) {
				if !inRange(pr.Attributes[k], len(d.Accessors)) {
					return vh.Failf("struct/attribute-accessor-index", "mesh %d primitive %d attribute %s -> accessor %d of %d", mi, pi, k, pr.Attributes[k], len(d.Accessors))
				}
			}
			if pr.Indices != nil {
				if !inRange(*pr.Indices, len(d.Accessors)) {
					return vh.Failf("struct/indices-accessor-index", "mesh %d primitive %d indices -> accessor %d of %d", mi, pi, *pr.Indices, len(d.Accessors))
				}
				p.indexAcc[*pr.Indices] = true
			}
			if pr.Material != nil && !inRange(*pr.Material, len(d.Materials)) {
				return vh.Failf("struct/material-index", "mesh %d primitive %d material %d of %d", mi, pi, *pr.Material, len(d.Materials))
			}
			if pr.Mode != nil && !inRange(*pr.Mode, 7) {
				return vh.Failf("struct/primitive-mode", "mesh %d primitive %d mode %d", mi, pi, *pr.Mode)
			}
		}
	}
	for i, a := range d.Accessors {
		if a.BufferView == nil {
			return vh.Failf("struct/accessor-without-bufferview", "accessor %d has no bufferView (no data)", i)
		}
		if !inRange(*a.BufferView, len(d.BufferViews)) {
			return vh.Failf("struct/accessor-bufferview-index", "accessor %d -> bufferView %d of %d", i, *a.BufferView, len(d.BufferViews))
		}
		p.viewAccs[*a.BufferView] = append(p.viewAccs[*a.BufferView], i)
	}
	for i, a := range d.Accessors {
		cs, n := compSize[a.ComponentType], typeN[a.Type]
		if cs == 0 || n == 0 {
			return vh.Failf("struct/accessor-types", "accessor %d componentType %d type %q", i, a.ComponentType, a.Type)
		}
		if a.Count < 1 {
			return vh.Failf("struct/accessor-count", "accessor %d count %d", i, a.Count)
		}
		if len(a.Sparse) > 0 {
			return vh.Failf("struct/accessor-sparse", "accessor %d is sparse", i)
		}
		if a.ComponentType == 5125 && !p.indexAcc[i] {
			return vh.Failf("struct/accessor-uint-not-indices", "accessor %d is UNSIGNED_INT but no primitive uses it as indices", i)
		}
		if a.Normalized && (a.ComponentType == 5126 || a.ComponentType == 5125) {
			return vh.Failf("struct/accessor-normalized", "accessor %d normalized with componentType %d", i, a.ComponentType)
		}
		v := d.BufferViews[*a.BufferView]
		st := p.stride(a)
		if a.ByteOffset < 0 || a.ByteOffset+st*(a.Count-1)+cs*n > v.ByteLength {
			return vh.Failf("struct/accessor-exceeds-bufferview", "accessor %d (%s of componentType %d, count %d, byteOffset %d) needs %d bytes, bufferView %d has byteLength %d",
				i, a.Type, a.ComponentType, a.Count, a.ByteOffset, a.ByteOffset+st*(a.Count-1)+cs*n, *a.BufferView, v.ByteLength)
		}
		if (v.ByteOffset+a.ByteOffset)%cs != 0 || a.ByteOffset%cs != 0 {
			ok, why := p.misalignmentExplained(i)
			if !ok {
				return vh.Failf("bufferview-misaligned/unexplained", "accessor %d: bufferView.byteOffset %d + accessor.byteOffset %d is not a multiple of the component size %d, and the packed layout after 16-bit index views does not explain it: %s",
					i, v.ByteOffset, a.ByteOffset, cs, why)
			}
			if p.misaligned == 0 {
				p.misalignedX = fmt.Sprintf("accessor %d (componentType %d): bufferView %d byteOffset %d is not a multiple of %d", i, a.ComponentType, *a.BufferView, v.ByteOffset, cs)
			}
			p.misaligned++
		}
		if (a.Min == nil) != (a.Max == nil) {
			return vh.Failf("struct/accessor-minmax-one-sided", "accessor %d declares only one of min/max", i)
		}
		if a.Min != nil {
			if len(a.Min) != n || len(a.Max) != n {
				return vh.Failf("struct/accessor-minmax-length", "accessor %d (%s) min/max have %d/%d entries", i, a.Type, len(a.Min), len(a.Max))
			}
			rd := p.reader(a)
			for c := 0; c < n; c++ {
				mn, mx := math.Inf(1), math.Inf(-1)
				for e := 0; e < a.Count; e++ {
					f := rd.num(e, c)
					mn, mx = math.Min(mn, f), math.Max(mx, f)
				}
				// declared values are to be read in the accessor's component type
				dmn, dmx := a.Min[c], a.Max[c]
				if a.ComponentType == 5126 {
					dmn, dmx = float64(float32(dmn)), float64(float32(dmx))
				}
				if dmn != mn || dmx != mx {
					return vh.Failf("struct/accessor-minmax-wrong", "accessor %d (%s, count %d) component %d: declared min/max %v/%v, stored elements have %v/%v", i, a.Type, a.Count, c, a.Min[c], a.Max[c], mn, mx)
				}
			}
		}
	}
	if p.misaligned > 0 {
		if !o.Known(sigKnown) {
			return vh.Failf(sigKnown, "%s (%d accessors in this asset; explained by the packed layout after an odd number of 16-bit indices)", p.misalignedX, p.misaligned)
		}
		o.Count("known_misaligned_accessors", p.misaligned)
	}
	// primitives
	for mi, m := range d.Meshes {
		for pi, pr := range m.Primitives {
			cnt := -1
			for _, k := range sortedKeys(pr.Attributes) {
				a := d.Accessors[pr.Attributes[k]]
				if cnt == -1 {
					cnt = a.Count
				} else if cnt != a.Count {
					return vh.Failf("struct/attribute-counts-differ", "mesh %d primitive %d: attribute %s has count %d, others %d", mi, pi, k, a.Count, cnt)
				}
				if v := d.BufferViews[*a.BufferView]; v.Target != nil && *v.Target != 34962 {
					return vh.Failf("struct/attribute-bufferview-target", "mesh %d attribute %s: bufferView target %d", mi, k, *v.Target)
				}
			}
			if ai, ok := pr.Attributes["POSITION"]; ok {
				a := d.Accessors[ai]
				cnt = a.Count
				if a.Type != "VEC3" || a.ComponentType != 5126 {
					return vh.Failf("struct/position-accessor-type", "mesh %d POSITION is %s of componentType %d", mi, a.Type, a.ComponentType)
				}
				if a.Min == nil {
					return vh.Failf("struct/position-minmax-missing", "mesh %d POSITION accessor %d has no min/max", mi, ai)
				}
			}
			if pr.Indices != nil {
				a := d.Accessors[*pr.Indices]
				if a.Type != "SCALAR" || (a.ComponentType != 5121 && a.ComponentType != 5123 && a.ComponentType != 5125) || a.Normalized {
					return vh.Failf("struct/indices-accessor-type", "mesh %d primitive %d: indices accessor is %s of componentType %d", mi, pi, a.Type, a.ComponentType)
				}
				v := d.BufferViews[*a.BufferView]
				if v.ByteStride != nil {
					return vh.Failf("struct/indices-bufferview-stride", "mesh %d: index bufferView has a byteStride", mi)
				}
				if v.Target != nil && *v.Target != 34963 {
					return vh.Failf("struct/indices-bufferview-target", "mesh %d: index bufferView target %d", mi, *v.Target)
				}
				rd := p.reader(a)
				for e := 0; e < a.Count && cnt >= 0; e++ {
					if ix := int(rd.raw(e, 0)); ix >= cnt {
						return vh.Failf("struct/index-out-of-range", "mesh %d primitive %d: index %d at position %d, the primitive has %d vertices", mi, pi, ix, e, cnt)
					}
				}
			}
		}
	}
	// nodes and scenes
	for ni, n := range d.Nodes {
		if n.Mesh != nil && !inRange(*n.Mesh, len(d.Meshes)) {
			return vh.Failf("struct/node-mesh-index", "node %d -> mesh %d of %d", ni, *n.Mesh, len(d.Meshes))
		}
		for _, c := range n.Children {
			if !inRange(c, len(d.Nodes)) || c == ni {
				return vh.Failf("struct/node-child-index", "node %d child %d of %d", ni, c, len(d.Nodes))
			}
		}
		if n.Matrix != nil && (n.Translation != nil || n.Rotation != nil || n.Scale != nil || len(n.Matrix) != 16) {
			return vh.Failf("struct/node-matrix", "node %d: matrix of %d entries next to TRS", ni, len(n.Matrix))
		}
		if (n.Translation != nil && len(n.Translation) != 3) || (n.Scale != nil && len(n.Scale) != 3) || (n.Rotation != nil && len(n.Rotation) != 4) {
			return vh.Failf("struct/node-trs-length", "node %d: translation/rotation/scale have %d/%d/%d entries", ni, len(n.Translation), len(n.Rotation), len(n.Scale))
		}
	}
	if d.Scene != nil && !inRange(*d.Scene, len(d.Scenes)) {
		return vh.Failf("struct/scene-index", "scene %d of %d", *d.Scene, len(d.Scenes))
	}
	for si, s := range d.Scenes {
		seen := map[int]bool{}
		for _, n := range s.Nodes {
			if !inRange(n, len(d.Nodes)) {
				return vh.Failf("struct/scene-node-index", "scene %d -> node %d of %d", si, n, len(d.Nodes))
			}
			if seen[n] {
				return vh.Failf("struct/scene-node-repeated", "scene %d lists node %d twice", si, n)
			}
			seen[n] = true
		}
	}
	// textures, images, samplers
	for ti, t := range d.Textures {
		if t.Source != nil && !inRange(*t.Source, len(d.Images)) {
			return vh.Failf("struct/texture-source-index", "texture %d -> image %d of %d", ti, *t.Source, len(d.Images))
		}
		if t.Sampler != nil && !inRange(*t.Sampler, len(d.Samplers)) {
			return vh.Failf("struct/texture-sampler-index", "texture %d -> sampler %d of %d", ti, *t.Sampler, len(d.Samplers))
		}
	}
	for ii, im := range d.Images {
		if (im.URI == nil) == (im.BufferView == nil) {
			return vh.Failf("struct/image-source", "image %d must have exactly one of uri / bufferView", ii)
		}
		if im.BufferView != nil && !inRange(*im.BufferView, len(d.BufferViews)) {
			return vh.Failf("struct/image-bufferview-index", "image %d -> bufferView %d", ii, *im.BufferView)
		}
	}
	okEnum := func(v *int, allowed ...int) bool {
		if v == nil {
			return true
		}
		for _, a := range allowed {
			if *v == a {
				return true
			}
		}
		return false
	}
	for si, s := range d.Samplers {
		if !okEnum(s.MagFilter, 9728, 9729) || !okEnum(s.MinFilter, 9728, 9729, 9984, 9985, 9986, 9987) ||
			!okEnum(s.WrapS, 33071, 33648, 10497) || !okEnum(s.WrapT, 33071, 33648, 10497) {
			return vh.Failf("struct/sampler-enum", "sampler %d has a value outside the glTF enumerations", si)
		}
	}
	// every textureInfo inside a material (core or extension) refers to an existing texture
	if mats, ok := p.tree["materials"].([]any); ok {
		for mi, m := range mats {
			if f := p.walkTextureInfos(m, fmt.Sprintf("materials[%d]", mi)); f != nil {
				return f
			}
		}
	}
	// extension declarations
	used := map[string]bool{}
	for _, e := range d.ExtensionsUsed {
		if used[e] {
			return vh.Failf("struct/extensions-used-duplicate", "extensionsUsed lists %s twice", e)
		}
		used[e] = true
	}
	req := map[string]bool{}
	for _, e := range d.ExtensionsRequired {
		if req[e] {
			return vh.Failf("struct/extensions-required-duplicate", "extensionsRequired lists %s twice", e)
		}
		req[e] = true
		if !used[e] {
			return vh.Failf("struct/extension-required-not-used", "extensionsRequired has %s, extensionsUsed does not", e)
		}
	}
	occ := map[string]string{}
	collectExtensions(p.tree, "", occ)
	for _, name := range sortedKeys(occ) {
		if !used[name] {
			return vh.Failf("struct/extension-not-declared", "extension %s occurs at %s but is not in extensionsUsed %v", name, occ[name], d.ExtensionsUsed)
		}
	}
	// KHR_lights_punctual and EXT_mesh_gpu_instancing references
	nLights := len(p.lights())
	for ni, n := range d.Nodes {
		if raw, ok := n.Extensions["KHR_lights_punctual"]; ok {
			var ref struct {
				Light *int `json:"light"`
			}
			if err := json.Unmarshal(raw, &ref); err != nil || ref.Light == nil || !inRange(*ref.Light, nLights) {
				return vh.Failf("struct/light-index", "node %d: KHR_lights_punctual %s, the asset has %d lights", ni, string(raw), nLights)
			}
		}
		if raw, ok := n.Extensions["EXT_mesh_gpu_instancing"]; ok {
			var inst struct {
				Attributes map[string]int `json:"attributes"`
			}
			if err := json.Unmarshal(raw, &inst); err != nil || len(inst.Attributes) == 0 {
				return vh.Failf("struct/instancing-attributes", "node %d: EXT_mesh_gpu_instancing %s", ni, string(raw))
			}
			if n.Mesh == nil {
				return vh.Failf("struct/instancing-without-mesh", "node %d has EXT_mesh_gpu_instancing but no mesh", ni)
			}
			cnt := -1
			for _, k := range sortedKeys(inst.Attributes) {
				ai := inst.Attributes[k]
				if !inRange(ai, len(d.Accessors)) {
					return vh.Failf("struct/instancing-accessor-index", "node %d instancing attribute %s -> accessor %d of %d", ni, k, ai, len(d.Accessors))
				}
				a := d.Accessors[ai]
				if cnt == -1 {
					cnt = a.Count
				} else if cnt != a.Count {
					return vh.Failf("struct/instancing-counts-differ", "node %d: instancing attribute %s has count %d, others %d", ni, k, a.Count, cnt)
				}
				want := map[string]string{"TRANSLATION": "VEC3", "SCALE": "VEC3", "ROTATION": "VEC4"}[k]
				if want != "" && a.Type != want {
					return vh.Failf("struct/instancing-accessor-type", "node %d: instancing attribute %s is %s", ni, k, a.Type)
				}
			}
		}
	}
	return nil
}

// lights returns the root KHR_lights_punctual light objects.
func (p *parsed) lights() []map[string]any {
	raw, ok := p.doc.Extensions["KHR_lights_punctual"]
	if !ok {
		return nil
	}
	var x struct {
		Lights []map[string]any `json:"lights"`
	}
	if json.Unmarshal(raw, &x) != nil {
		return nil
	}
	return x.Lights
}

// collectExtensions records every extension name used anywhere in the document (keys of any
// "extensions" object), not descending into "extras".
func collectExtensions(v any, path string, occ map[string]string) {
	switch x := v.(type) {
	case map[string]any:
		for _, k := range sortedKeys(x) {
			if k == "extras" {
				continue
			}
			if k == "extensions" {
				if em, ok := x[k].(map[string]any); ok {
					for _, name := range sortedKeys(em) {
						if _, seen := occ[name]; !seen {
							occ[name] = path + ".extensions"
						}
					}
				}
			}
			collectExtensions(x[k], path+"."+k, occ)
		}
	case []any:
		for i, e := range x {
			collectExtensions(e, fmt.Sprintf("%s[%d]", path, i), occ)
		}
	}
}

func isTextureInfo(key string, v any) (map[string]any, bool) {
	m, ok := v.(map[string]any)
	if !ok || !strings.HasSuffix(key, "Texture") {
		return nil, false
	}
	return m, true
}

func asIndex(v any) (int, bool) {
	f, ok := v.(float64)
	if !ok || f != math.Trunc(f) || f < 0 || f > 1e9 {
		return 0, false
	}
	return int(f), true
}

func (p *parsed) walkTextureInfos(v any, path string) *vh.Failure {
	switch x := v.(type) {
	case map[string]any:
		for _, k := range sortedKeys(x) {
			if k == "extras" {
				continue
			}
			if ti, ok := isTextureInfo(k, x[k]); ok {
				ix, ok := asIndex(ti["index"])
				if !ok || !inRange(ix, len(p.doc.Textures)) {
					return vh.Failf("struct/textureinfo-index", "%s.%s: index %v, the asset has %d textures", path, k, ti["index"], len(p.doc.Textures))
				}
				if tc, has := ti["texCoord"]; has {
					if _, ok := asIndex(tc); !ok {
						return vh.Failf("struct/textureinfo-texcoord", "%s.%s: texCoord %v", path, k, tc)
					}
				}
			}
			if f := p.walkTextureInfos(x[k], path+"."+k); f != nil {
				return f
			}
		}
	case []any:
		for i, e := range x {
			if f := p.walkTextureInfos(e, fmt.Sprintf("%s[%d]", path, i)); f != nil {
				return f
			}
		}
	}
	return nil
}

func sortedKeys[T any](m map[string]T) []string {
	ks := make([]string, 0, len(m))
	for k := range m {
		ks = append(ks, k)
	}
	sort.Strings(ks)
	return ks
}
