package c06

// Material / texture descriptors of a case (plain data), the construction of the polyform
// materials from them, the expected canonical content written from the glTF specification (core
// material schema and the KHR_materials_* / KHR_texture_transform extension specifications), and
// the canonical content read back from a document with all texture references resolved.

import (
	"encoding/json"
	"fmt"
	"image/color"
	"math"
	"sort"
	"strings"

	"github.com/EliCDavis/polyform/formats/gltf"
	"github.com/EliCDavis/vector/vector2"
)

// TexDesc describes one texture object of the pool (pool index = pointer identity).
type TexDesc struct {
	URI     int // index into uris
	Sampler int // 0 none, 1..3 value variants
	XF      int // 0 none, 1..5 KHR_texture_transform variants
}

// ExtDesc describes one material extension; the meaning of A..D, T1, T2 depends on Kind.
type ExtDesc struct {
	Kind       int
	A, B, C, D int
	T1, T2     int // texture pool index or -1
}

// MatDesc describes one material object of the pool (pool index = pointer identity).
type MatDesc struct {
	Name        int // index into matNames
	Extras      int // 0 none, 1.. variants
	Alpha       int // 0 unset, 1 OPAQUE, 2 BLEND, 3 MASK, 4 MASK+cutoff 0.25, 5 MASK+cutoff 0.75
	Emissive    int // colour variant, 0 none
	Pbr         bool
	BaseColor   int // colour variant, 0 none
	Metallic    int // optional factor variant
	Roughness   int
	BaseTex     int // texture pool index or -1
	MRTex       int
	NormalTex   int
	NormalScale int
	OccTex      int
	OccStrength int
	Exts        []ExtDesc `json:",omitempty"`
}

var uris = []string{"a.png", "b.png", "c.png"}
var matNames = []string{"mat", "other", ""}
var extrasVals = []map[string]any{nil, {"k": 1.0}, {"k": 2.0}, {"tag": "x", "k": 1.0}}

type samplerVal struct{ Mag, Min, S, T int }

var samplerVals = []samplerVal{{}, {9729, 9987, 10497, 10497}, {9728, 9728, 33071, 33071}, {9729, 9987, 10497, 33648}}

const (
	extKinds   = 12
	xfVariants = 6
)

var extIDs = []string{
	"KHR_materials_unlit", "KHR_materials_ior", "KHR_materials_transmission", "KHR_materials_volume",
	"KHR_materials_specular", "KHR_materials_clearcoat", "KHR_materials_emissive_strength",
	"KHR_materials_iridescence", "KHR_materials_sheen", "KHR_materials_anisotropy",
	"KHR_materials_dispersion", "KHR_materials_pbrSpecularGlossiness",
}

func mod(i, n int) int {
	i %= n
	if i < 0 {
		i += n
	}
	return i
}

// nz: a plain (non-pointer) factor; never 0, the default every extension gives these fields.
func nz(i int) float64 { return []float64{0.25, 0.75}[mod(i, 2)] }

// opt: an optional (pointer) factor.
func opt(i int) (float64, bool) {
	switch mod(i, 3) {
	case 0:
		return 0, false
	case 1:
		return 0.5, true
	}
	return 1.5, true
}

// colourVals: 8-bit colours and two 16-bit colours that differ only in the LOW byte of one channel
// (same after truncation to 8 bits, different in the 3-decimal factor the writer emits: 0.197 vs 0.198).
var colourVals = []color.Color{color.RGBA{}, color.RGBA{255, 0, 0, 255}, color.RGBA{0, 255, 0, 255}, color.RGBA{128, 64, 0, 128},
	color.RGBA64{0x3280, 0x8000, 0x1000, 0xffff}, color.RGBA64{0x32c0, 0x8000, 0x1000, 0xffff}}

const nColours = 6

func col(i int) color.Color {
	if mod(i, nColours) == 0 {
		return nil
	}
	return colourVals[mod(i, nColours)]
}

func colF(i, n int) []float64 {
	r, g, b, a := colourVals[mod(i, nColours)].RGBA()
	return []float64{float64(r) / 65535, float64(g) / 65535, float64(b) / 65535, float64(a) / 65535}[:n]
}

// ---------------------------------------------------------------- canonical content

// cTex is a texture reference with everything resolved and defaults applied.
type cTex struct {
	URI                    string
	Mag, Min, WrapS, WrapT int
	TexCoord               int
	Off, Scl               [2]float64
	Rot                    float64
	XTexCoord              int // texCoord override of KHR_texture_transform, -1 none
}

func defaultTex(uri string) cTex {
	return cTex{URI: uri, WrapS: 10497, WrapT: 10497, Scl: [2]float64{1, 1}, XTexCoord: -1}
}

func (d TexDesc) canon() cTex {
	t := defaultTex(uris[mod(d.URI, len(uris))])
	if s := mod(d.Sampler, len(samplerVals)); s != 0 {
		v := samplerVals[s]
		t.Mag, t.Min, t.WrapS, t.WrapT = v.Mag, v.Min, v.S, v.T
	}
	switch mod(d.XF, xfVariants) {
	case 1, 5:
		t.Off = [2]float64{0.5, 0.25}
	case 2:
		t.Off = [2]float64{0.25, 0.5}
	case 3:
		t.Rot, t.Scl = 0.5, [2]float64{2, 2}
	case 4:
		t.XTexCoord = 1
	}
	return t
}

func (d TexDesc) required() bool { return mod(d.XF, xfVariants) == 5 }

// cMat is the content of a material with glTF defaults applied.
type cMat struct {
	Name        string
	Extras      string // canonical JSON, "" when absent
	AlphaMode   string
	AlphaCutoff float64
	Emissive    []float64
	BaseColor   []float64
	Metallic    float64
	Roughness   float64
	NormalScale float64
	OccStrength float64
	DoubleSided bool
	Tex         map[string]*cTex          // baseColorTexture, metallicRoughnessTexture, normalTexture, occlusionTexture
	Ext         map[string]map[string]any // id -> field -> float64 | []float64 | cTex
}

func newCMat() cMat {
	return cMat{AlphaMode: "OPAQUE", AlphaCutoff: 0.5, Emissive: []float64{0, 0, 0}, BaseColor: []float64{1, 1, 1, 1},
		Metallic: 1, Roughness: 1, NormalScale: 1, OccStrength: 1, Tex: map[string]*cTex{}, Ext: map[string]map[string]any{}}
}

func canonJSON(v any) string {
	if v == nil {
		return ""
	}
	b, _ := json.Marshal(v)
	var x any
	json.Unmarshal(b, &x)
	if x == nil {
		return ""
	}
	if m, ok := x.(map[string]any); ok && len(m) == 0 {
		return ""
	}
	b, _ = json.Marshal(x)
	return string(b)
}

// expect builds the canonical content the descriptor stands for.
func (c *Case) expectMat(d MatDesc) cMat {
	m := newCMat()
	m.Name = matNames[mod(d.Name, len(matNames))]
	m.Extras = canonJSON(extrasVals[mod(d.Extras, len(extrasVals))])
	switch mod(d.Alpha, 6) {
	case 2:
		m.AlphaMode = "BLEND"
	case 3:
		m.AlphaMode = "MASK"
	case 4:
		m.AlphaMode, m.AlphaCutoff = "MASK", 0.25
	case 5:
		m.AlphaMode, m.AlphaCutoff = "MASK", 0.75
	}
	if col(d.Emissive) != nil {
		m.Emissive = colF(d.Emissive, 3)
	}
	tex := func(ref int) *cTex {
		if !inRange(ref, len(c.Texs)) {
			return nil
		}
		t := c.Texs[ref].canon()
		return &t
	}
	set := func(key string, ref int) {
		if t := tex(ref); t != nil {
			m.Tex[key] = t
		}
	}
	if d.Pbr {
		if col(d.BaseColor) != nil {
			m.BaseColor = colF(d.BaseColor, 4)
		}
		if v, ok := opt(d.Metallic); ok {
			m.Metallic = v
		}
		if v, ok := opt(d.Roughness); ok {
			m.Roughness = v
		}
		set("baseColorTexture", d.BaseTex)
		set("metallicRoughnessTexture", d.MRTex)
	}
	if tex(d.NormalTex) != nil {
		set("normalTexture", d.NormalTex)
		if v, ok := opt(d.NormalScale); ok {
			m.NormalScale = v
		}
	}
	if tex(d.OccTex) != nil {
		set("occlusionTexture", d.OccTex)
		if v, ok := opt(d.OccStrength); ok {
			m.OccStrength = v
		}
	}
	for _, e := range d.Exts {
		f := map[string]any{}
		num := func(key string, v float64) { f[key] = v }
		onum := func(key string, i int) {
			if v, ok := opt(i); ok {
				f[key] = v
			}
		}
		ocol := func(key string, i, n int) {
			if col(i) != nil {
				f[key] = colF(i, n)
			}
		}
		otex := func(key string, ref int) {
			if t := tex(ref); t != nil {
				f[key] = *t
			}
		}
		switch mod(e.Kind, extKinds) {
		case 0:
		case 1:
			onum("ior", e.A)
		case 2:
			num("transmissionFactor", nz(e.A))
			otex("transmissionTexture", e.T1)
		case 3:
			num("thicknessFactor", nz(e.A))
			otex("thicknessTexture", e.T1)
			onum("attenuationDistance", e.B)
			ocol("attenuationColor", e.C, 3)
		case 4:
			onum("specularFactor", e.A)
			otex("specularTexture", e.T1)
			ocol("specularColorFactor", e.C, 3)
			otex("specularColorTexture", e.T2)
		case 5:
			num("clearcoatFactor", nz(e.A))
			otex("clearcoatTexture", e.T1)
			num("clearcoatRoughnessFactor", nz(e.B))
			otex("clearcoatRoughnessTexture", e.T2)
		case 6:
			onum("emissiveStrength", e.A)
		case 7:
			num("iridescenceFactor", nz(e.A))
			otex("iridescenceTexture", e.T1)
			onum("iridescenceIor", e.B)
			switch mod(e.D, 3) {
			case 1:
				f["iridescenceThicknessMinimum"], f["iridescenceThicknessMaximum"] = 100.0, 400.0
			case 2:
				f["iridescenceThicknessMinimum"], f["iridescenceThicknessMaximum"] = 200.0, 800.0
			}
			otex("iridescenceThicknessTexture", e.T2)
		case 8:
			ocol("sheenColorFactor", e.C, 3)
			otex("sheenColorTexture", e.T1)
			num("sheenRoughnessFactor", nz(e.A))
			otex("sheenRoughnessTexture", e.T2)
		case 9:
			num("anisotropyStrength", nz(e.A))
			num("anisotropyRotation", nz(e.B))
			otex("anisotropyTexture", e.T1)
		case 10:
			num("dispersion", nz(e.A))
		case 11:
			ocol("diffuseFactor", e.C, 4)
			otex("diffuseTexture", e.T1)
			ocol("specularFactor", e.D, 3)
			onum("glossinessFactor", e.A)
			otex("specularGlossinessTexture", e.T2)
		}
		m.Ext[extIDs[mod(e.Kind, extKinds)]] = f
	}
	return m
}

const colourTol = 6e-4 // the writer rounds colour components to 3 decimals

func floatsNear(a, b []float64) bool {
	if len(a) != len(b) {
		return false
	}
	for i := range a {
		if math.Abs(a[i]-b[i]) > colourTol {
			return false
		}
	}
	return true
}

func texDiff(key string, a, b *cTex) string {
	switch {
	case a == nil && b == nil:
		return ""
	case a == nil || b == nil:
		return key
	case a.URI != b.URI:
		return key + ".uri"
	case a.Mag != b.Mag || a.Min != b.Min || a.WrapS != b.WrapS || a.WrapT != b.WrapT:
		return key + ".sampler"
	case a.TexCoord != b.TexCoord:
		return key + ".texCoord"
	case *a != *b:
		return key + ".KHR_texture_transform"
	}
	return ""
}

// diffMat lists the fields in which two canonical materials differ (fixed order).
func diffMat(a, b cMat) []string {
	var out []string
	add := func(differs bool, name string) {
		if differs {
			out = append(out, name)
		}
	}
	add(a.Name != b.Name, "name")
	add(a.Extras != b.Extras, "extras")
	add(a.AlphaMode != b.AlphaMode, "alphaMode")
	add(a.AlphaCutoff != b.AlphaCutoff, "alphaCutoff")
	add(!floatsNear(a.Emissive, b.Emissive), "emissiveFactor")
	add(!floatsNear(a.BaseColor, b.BaseColor), "baseColorFactor")
	add(a.Metallic != b.Metallic, "metallicFactor")
	add(a.Roughness != b.Roughness, "roughnessFactor")
	for _, k := range []string{"baseColorTexture", "metallicRoughnessTexture", "normalTexture", "occlusionTexture"} {
		if d := texDiff(k, a.Tex[k], b.Tex[k]); d != "" {
			out = append(out, d)
		}
	}
	add(a.NormalScale != b.NormalScale, "normalTexture.scale")
	add(a.OccStrength != b.OccStrength, "occlusionTexture.strength")
	add(a.DoubleSided != b.DoubleSided, "doubleSided")
	ids := map[string]bool{}
	for k := range a.Ext {
		ids[k] = true
	}
	for k := range b.Ext {
		ids[k] = true
	}
	for _, id := range sortedKeys(ids) {
		fa, oka := a.Ext[id]
		fb, okb := b.Ext[id]
		if oka != okb {
			out = append(out, "extensions."+id)
			continue
		}
		keys := map[string]bool{}
		for k := range fa {
			keys[k] = true
		}
		for k := range fb {
			keys[k] = true
		}
		for _, k := range sortedKeys(keys) {
			va, ha := fa[k]
			vb, hb := fb[k]
			same := ha == hb
			if same && ha {
				switch x := va.(type) {
				case float64:
					y, ok := vb.(float64)
					same = ok && x == y
				case []float64:
					y, ok := vb.([]float64)
					same = ok && floatsNear(x, y)
				case cTex:
					y, ok := vb.(cTex)
					same = ok && texDiff(k, &x, &y) == ""
				default:
					same = false
				}
			}
			if !same {
				out = append(out, "extensions."+id+"."+k)
			}
		}
	}
	return out
}

// ---------------------------------------------------------------- reading a document back

func (p *parsed) resolveTex(ti map[string]any) (cTex, error) {
	ix, ok := asIndex(ti["index"])
	if !ok || !inRange(ix, len(p.doc.Textures)) {
		return cTex{}, fmt.Errorf("texture index %v", ti["index"])
	}
	tx := p.doc.Textures[ix]
	if tx.Source == nil {
		return cTex{}, fmt.Errorf("texture %d has no source image", ix)
	}
	im := p.doc.Images[*tx.Source]
	if im.URI == nil {
		return cTex{}, fmt.Errorf("image %d has no uri", *tx.Source)
	}
	t := defaultTex(*im.URI)
	if tx.Sampler != nil {
		s := p.doc.Samplers[*tx.Sampler]
		get := func(v *int, def int) int {
			if v == nil {
				return def
			}
			return *v
		}
		t.Mag, t.Min, t.WrapS, t.WrapT = get(s.MagFilter, 0), get(s.MinFilter, 0), get(s.WrapS, 10497), get(s.WrapT, 10497)
	}
	if tc, has := ti["texCoord"]; has {
		t.TexCoord, _ = asIndex(tc)
	}
	if ext, ok := ti["extensions"].(map[string]any); ok {
		for _, name := range sortedKeys(ext) {
			if name != "KHR_texture_transform" {
				return cTex{}, fmt.Errorf("unexpected textureInfo extension %s", name)
			}
			xf, _ := ext[name].(map[string]any)
			for _, k := range sortedKeys(xf) {
				switch k {
				case "offset", "scale":
					arr, err := floatArr(xf[k], 2)
					if err != nil {
						return cTex{}, fmt.Errorf("KHR_texture_transform.%s: %v", k, err)
					}
					if k == "offset" {
						t.Off = [2]float64{arr[0], arr[1]}
					} else {
						t.Scl = [2]float64{arr[0], arr[1]}
					}
				case "rotation":
					f, ok := xf[k].(float64)
					if !ok {
						return cTex{}, fmt.Errorf("KHR_texture_transform.rotation %v", xf[k])
					}
					t.Rot = f
				case "texCoord":
					n, ok := asIndex(xf[k])
					if !ok {
						return cTex{}, fmt.Errorf("KHR_texture_transform.texCoord %v", xf[k])
					}
					t.XTexCoord = n
				default:
					return cTex{}, fmt.Errorf("unexpected KHR_texture_transform field %s", k)
				}
			}
		}
	}
	return t, nil
}

func floatArr(v any, n int) ([]float64, error) {
	arr, ok := v.([]any)
	if !ok || (n > 0 && len(arr) != n) {
		return nil, fmt.Errorf("want an array of %d numbers, got %v", n, v)
	}
	out := make([]float64, len(arr))
	for i, e := range arr {
		f, ok := e.(float64)
		if !ok {
			return nil, fmt.Errorf("non-number %v", e)
		}
		out[i] = f
	}
	return out, nil
}

// readMat canonicalises material mi of the document. An error names content the reader cannot
// account for (unknown keys = invented data, malformed values).
func (p *parsed) readMat(mi int) (cMat, error) {
	m := newCMat()
	var raw map[string]any
	if err := json.Unmarshal(p.doc.Materials[mi], &raw); err != nil {
		return m, err
	}
	num := func(v any, what string) (float64, error) {
		f, ok := v.(float64)
		if !ok {
			return 0, fmt.Errorf("%s is %v", what, v)
		}
		return f, nil
	}
	texInfo := func(key string, v any, scalarKey string, scalar *float64) error {
		ti, ok := v.(map[string]any)
		if !ok {
			return fmt.Errorf("%s is %v", key, v)
		}
		for _, k := range sortedKeys(ti) {
			if k != "index" && k != "texCoord" && k != "extensions" && !(scalarKey != "" && k == scalarKey) {
				return fmt.Errorf("unexpected key %s.%s", key, k)
			}
		}
		t, err := p.resolveTex(ti)
		if err != nil {
			return fmt.Errorf("%s: %v", key, err)
		}
		m.Tex[key] = &t
		if sv, has := ti[scalarKey]; has && scalarKey != "" {
			f, err := num(sv, key+"."+scalarKey)
			if err != nil {
				return err
			}
			*scalar = f
		}
		return nil
	}
	var err error
	for _, k := range sortedKeys(raw) {
		v := raw[k]
		switch k {
		case "name":
			s, ok := v.(string)
			if !ok {
				return m, fmt.Errorf("name is %v", v)
			}
			m.Name = s
		case "extras":
			m.Extras = canonJSON(v)
		case "alphaMode":
			s, ok := v.(string)
			if !ok || (s != "OPAQUE" && s != "MASK" && s != "BLEND") {
				return m, fmt.Errorf("alphaMode is %v", v)
			}
			m.AlphaMode = s
		case "alphaCutoff":
			if m.AlphaCutoff, err = num(v, k); err != nil {
				return m, err
			}
		case "doubleSided":
			b, ok := v.(bool)
			if !ok {
				return m, fmt.Errorf("doubleSided is %v", v)
			}
			m.DoubleSided = b
		case "emissiveFactor":
			if m.Emissive, err = floatArr(v, 3); err != nil {
				return m, fmt.Errorf("emissiveFactor: %v", err)
			}
		case "normalTexture":
			if err = texInfo(k, v, "scale", &m.NormalScale); err != nil {
				return m, err
			}
		case "occlusionTexture":
			if err = texInfo(k, v, "strength", &m.OccStrength); err != nil {
				return m, err
			}
		case "pbrMetallicRoughness":
			pm, ok := v.(map[string]any)
			if !ok {
				return m, fmt.Errorf("pbrMetallicRoughness is %v", v)
			}
			for _, pk := range sortedKeys(pm) {
				switch pk {
				case "baseColorFactor":
					if m.BaseColor, err = floatArr(pm[pk], 4); err != nil {
						return m, fmt.Errorf("baseColorFactor: %v", err)
					}
				case "metallicFactor":
					if m.Metallic, err = num(pm[pk], pk); err != nil {
						return m, err
					}
				case "roughnessFactor":
					if m.Roughness, err = num(pm[pk], pk); err != nil {
						return m, err
					}
				case "baseColorTexture", "metallicRoughnessTexture":
					if err = texInfo(pk, pm[pk], "", nil); err != nil {
						return m, err
					}
				default:
					return m, fmt.Errorf("unexpected key pbrMetallicRoughness.%s", pk)
				}
			}
		case "extensions":
			em, ok := v.(map[string]any)
			if !ok {
				return m, fmt.Errorf("extensions is %v", v)
			}
			for _, id := range sortedKeys(em) {
				fm, ok := em[id].(map[string]any)
				if !ok {
					return m, fmt.Errorf("extension %s is %v", id, em[id])
				}
				f := map[string]any{}
				for _, fk := range sortedKeys(fm) {
					switch x := fm[fk].(type) {
					case float64:
						f[fk] = x
					case []any:
						arr, err := floatArr(x, 0)
						if err != nil {
							return m, fmt.Errorf("extension %s.%s: %v", id, fk, err)
						}
						f[fk] = arr
					case map[string]any:
						if !strings.HasSuffix(fk, "Texture") {
							return m, fmt.Errorf("extension %s.%s is an object", id, fk)
						}
						for _, tk := range sortedKeys(x) {
							if tk != "index" && tk != "texCoord" && tk != "extensions" {
								return m, fmt.Errorf("unexpected key %s.%s.%s", id, fk, tk)
							}
						}
						t, err := p.resolveTex(x)
						if err != nil {
							return m, fmt.Errorf("extension %s.%s: %v", id, fk, err)
						}
						f[fk] = t
					default:
						return m, fmt.Errorf("extension %s.%s is %v", id, fk, x)
					}
				}
				m.Ext[id] = f
			}
		default:
			return m, fmt.Errorf("unexpected key %s", k)
		}
	}
	return m, nil
}

// ---------------------------------------------------------------- building polyform objects

type builder struct {
	c      *Case
	texs   []*gltf.PolyformTexture
	mats   []*gltf.PolyformMaterial
	floats map[float64]*float64 // pointers inside extension values are interned per case so that
	// equal-by-value extension descriptors give == extension values
}

func (b *builder) intern(v float64) *float64 {
	if p, ok := b.floats[v]; ok {
		return p
	}
	p := new(float64)
	*p = v
	b.floats[v] = p
	return p
}

func ptr[T any](v T) *T { return &v }

func (b *builder) buildTextures() {
	for _, d := range b.c.Texs {
		t := &gltf.PolyformTexture{URI: uris[mod(d.URI, len(uris))]}
		if s := mod(d.Sampler, len(samplerVals)); s != 0 {
			v := samplerVals[s]
			t.Sampler = &gltf.Sampler{MagFilter: gltf.SamplerMagFilter(v.Mag), MinFilter: gltf.SamplerMinFilter(v.Min), WrapS: gltf.SamplerWrap(v.S), WrapT: gltf.SamplerWrap(v.T)}
		}
		var xf *gltf.PolyformTextureTransform
		switch mod(d.XF, xfVariants) {
		case 1:
			xf = &gltf.PolyformTextureTransform{Offset: ptr(vector2.New(0.5, 0.25))}
		case 2:
			xf = &gltf.PolyformTextureTransform{Offset: ptr(vector2.New(0.25, 0.5))}
		case 3:
			xf = &gltf.PolyformTextureTransform{Rotation: ptr(0.5), Scale: ptr(vector2.New(2., 2.))}
		case 4:
			xf = &gltf.PolyformTextureTransform{TexCoord: ptr(1)}
		case 5:
			xf = &gltf.PolyformTextureTransform{Offset: ptr(vector2.New(0.5, 0.25)), Required: true}
		}
		if xf != nil {
			t.Extensions = []gltf.TextureExtension{*xf}
		}
		b.texs = append(b.texs, t)
	}
}

func (b *builder) tex(ref int) *gltf.PolyformTexture {
	if !inRange(ref, len(b.texs)) {
		return nil
	}
	return b.texs[ref]
}

func optPtr(i int) *float64 {
	if v, ok := opt(i); ok {
		return &v // a fresh pointer per material: the core comparison is by value
	}
	return nil
}

func (b *builder) material(d MatDesc) *gltf.PolyformMaterial {
	m := &gltf.PolyformMaterial{Name: matNames[mod(d.Name, len(matNames))]}
	if ex := extrasVals[mod(d.Extras, len(extrasVals))]; ex != nil {
		m.Extras = map[string]any{}
		for k, v := range ex {
			m.Extras[k] = v
		}
	}
	mode := func(s gltf.MaterialAlphaMode) *gltf.MaterialAlphaMode { return &s }
	switch mod(d.Alpha, 6) {
	case 1:
		m.AlphaMode = mode(gltf.MaterialAlphaMode_OPAQUE)
	case 2:
		m.AlphaMode = mode(gltf.MaterialAlphaMode_BLEND)
	case 3:
		m.AlphaMode = mode(gltf.MaterialAlphaMode_MASK)
	case 4:
		m.AlphaMode, m.AlphaCutoff = mode(gltf.MaterialAlphaMode_MASK), ptr(0.25)
	case 5:
		m.AlphaMode, m.AlphaCutoff = mode(gltf.MaterialAlphaMode_MASK), ptr(0.75)
	}
	m.EmissiveFactor = col(d.Emissive)
	if d.Pbr {
		m.PbrMetallicRoughness = &gltf.PolyformPbrMetallicRoughness{
			BaseColorFactor:          col(d.BaseColor),
			MetallicFactor:           optPtr(d.Metallic),
			RoughnessFactor:          optPtr(d.Roughness),
			BaseColorTexture:         b.tex(d.BaseTex),
			MetallicRoughnessTexture: b.tex(d.MRTex),
		}
	}
	if t := b.tex(d.NormalTex); t != nil {
		m.NormalTexture = &gltf.PolyformNormal{PolyformTexture: t, Scale: optPtr(d.NormalScale)}
	}
	if t := b.tex(d.OccTex); t != nil {
		m.OcclusionTexture = &gltf.PolyformOcclusion{PolyformTexture: t, Strength: optPtr(d.OccStrength)}
	}
	iopt := func(i int) *float64 {
		if v, ok := opt(i); ok {
			return b.intern(v)
		}
		return nil
	}
	for _, e := range d.Exts {
		var x gltf.MaterialExtension
		switch mod(e.Kind, extKinds) {
		case 0:
			x = gltf.PolyformUnlit{}
		case 1:
			x = gltf.PolyformIndexOfRefraction{IOR: iopt(e.A)}
		case 2:
			x = gltf.PolyformTransmission{Factor: nz(e.A), Texture: b.tex(e.T1)}
		case 3:
			x = gltf.PolyformVolume{ThicknessFactor: nz(e.A), ThicknessTexture: b.tex(e.T1), AttenuationDistance: iopt(e.B), AttenuationColor: col(e.C)}
		case 4:
			x = gltf.PolyformSpecular{Factor: iopt(e.A), Texture: b.tex(e.T1), ColorFactor: col(e.C), ColorTexture: b.tex(e.T2)}
		case 5:
			x = gltf.PolyformClearcoat{ClearcoatFactor: nz(e.A), ClearcoatTexture: b.tex(e.T1), ClearcoatRoughnessFactor: nz(e.B), ClearcoatRoughnessTexture: b.tex(e.T2)}
		case 6:
			x = gltf.PolyformEmissiveStrength{EmissiveStrength: iopt(e.A)}
		case 7:
			ir := gltf.PolyformIridescence{IridescenceFactor: nz(e.A), IridescenceTexture: b.tex(e.T1), IridescenceIor: iopt(e.B), IridescenceThicknessTexture: b.tex(e.T2)}
			switch mod(e.D, 3) {
			case 1:
				ir.IridescenceThicknessMinimum, ir.IridescenceThicknessMaximum = b.intern(100), b.intern(400)
			case 2:
				ir.IridescenceThicknessMinimum, ir.IridescenceThicknessMaximum = b.intern(200), b.intern(800)
			}
			x = ir
		case 8:
			x = gltf.PolyformSheen{SheenColorFactor: col(e.C), SheenColorTexture: b.tex(e.T1), SheenRoughnessFactor: nz(e.A), SheenRoughnessTexture: b.tex(e.T2)}
		case 9:
			x = gltf.PolyformAnisotropy{AnisotropyStrength: nz(e.A), AnisotropyRotation: nz(e.B), AnisotropyTexture: b.tex(e.T1)}
		case 10:
			x = gltf.PolyformDispersion{Dispersion: nz(e.A)}
		case 11:
			x = gltf.PolyformPbrSpecularGlossiness{DiffuseFactor: col(e.C), DiffuseTexture: b.tex(e.T1), SpecularFactor: col(e.D), GlossinessFactor: iopt(e.A), SpecularGlossinessTexture: b.tex(e.T2)}
		}
		m.Extensions = append(m.Extensions, x)
	}
	return m
}

// texRefs lists, for the must-merge decision, the texture pool references whose identity (not
// only value) a by-value material comparison may legitimately depend on: textures inside
// extension values (compared as Go values) and core textures carrying a KHR_texture_transform.
func (c *Case) identityRefs(d MatDesc) []int {
	var out []int
	core := []int{-1, -1, d.NormalTex, d.OccTex}
	if d.Pbr {
		core[0], core[1] = d.BaseTex, d.MRTex
	}
	for _, r := range core {
		if inRange(r, len(c.Texs)) && mod(c.Texs[r].XF, xfVariants) != 0 {
			out = append(out, r)
		} else {
			out = append(out, -1)
		}
	}
	for _, e := range d.Exts {
		out = append(out, mod(e.Kind, extKinds)+1000)
		uses := extTexUse(e.Kind)
		for i, r := range []int{e.T1, e.T2} {
			if uses[i] && inRange(r, len(c.Texs)) {
				out = append(out, r)
			} else {
				out = append(out, -1)
			}
		}
	}
	return out
}

// extTexUse: which of T1, T2 an extension kind hands to the writer.
func extTexUse(kind int) [2]bool {
	return map[int][2]bool{2: {true, false}, 3: {true, false}, 4: {true, true}, 5: {true, true}, 7: {true, true}, 8: {true, true}, 9: {true, false}, 11: {true, true}}[mod(kind, extKinds)]
}

// usedTexRefs: texture pool entries a material actually hands to the writer.
func (c *Case) usedTexRefs(d MatDesc) []int {
	set := map[int]bool{}
	add := func(r int) {
		if inRange(r, len(c.Texs)) {
			set[r] = true
		}
	}
	if d.Pbr {
		add(d.BaseTex)
		add(d.MRTex)
	}
	add(d.NormalTex)
	add(d.OccTex)
	for _, e := range d.Exts {
		uses := extTexUse(e.Kind)
		if uses[0] {
			add(e.T1)
		}
		if uses[1] {
			add(e.T2)
		}
	}
	out := make([]int, 0, len(set))
	for r := range set {
		out = append(out, r)
	}
	sort.Ints(out)
	return out
}
