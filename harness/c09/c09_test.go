// Package c09 decides property C09 (marching cubes yields a closed, outward-oriented surface on
// the isosurface, at any resolution and any position relative to the canvas' 100^3 storage blocks).
package c09

import (
	"fmt"
	"math"
	"sort"
	"testing"

	"github.com/EliCDavis/polyform/math/geometry"
	"github.com/EliCDavis/polyform/math/sample"
	"github.com/EliCDavis/polyform/modeling"
	"github.com/EliCDavis/polyform/modeling/marching"
	"github.com/EliCDavis/vector/vector3"
	"pgregory.net/rapid"

	"verifharness/internal/oracle"
	"verifharness/internal/vh"
)

func TestMain(m *testing.M) {
	vh.Main(m, vh.Meta{
		ID:    "C09",
		Level: "exploration",
		Rule: "rapid-generated unions (CombineFields / Field.Combine) of 1..3 fields from marching.Sphere/Box/Line (strength 1, sizes 2..8 cells; thorough: capsules up to 120 cells), centre = 100*k/cpu (k in -2..2 per axis: the storage-block boundaries) plus an offset of +-10 cells, so shapes sit inside one block or straddle 1..2 boundaries per axis incl. negative coordinates; cubesPerUnit log-uniform in [0.4,100] (thorough up to 1000); cutoff in [-1 cell, 0]; AddField + March / MarchOnAttribute. " +
			"Oracle (validity predicate + reference): well-formed; every directed edge balanced (count(a->b)==count(b->a)); every edge used exactly once per direction unless an endpoint lies within tau=2*sqrt(3)*max(1e-4,1e-3*cpu) cells of a lattice corner (known finding: vertex merging by absolute rounding); no repeated id in a triangle; signed volume > 0 and within (surface area x cell) of a reference volume (half-cell voxel count of the exact union SDF below the cutoff); |f(v)-cutoff| <= cell+0.002 for every vertex with f the exact 1-Lipschitz distance field written in the harness. " +
			"Non-trivial = the shape's cell range crosses >= 1 block boundary or >= 2 shapes overlap. Distinct by case JSON. " +
			"Sub-checks on prescribed lattice samples (-2 inside, 0 outside, cutoff -1): cube-configurations (all 255 non-empty masks of one cell, canvas and Field.March), cell-pairs (all 4 095 assignments of two cells sharing a face, per axis), lattice-patterns (random 2..5^3 point boxes at several block positions); oracle: every vertex is the midpoint of a cut lattice edge, every cut edge carries a vertex, directed edges balanced after merging by position, positive bounded volume; non-trivial = a cell face with exactly its two diagonal corners inside.",
		Assumptions: []string{
			"the below-threshold region lies strictly inside the declared domain: strength 1, cutoff <= 0 (the canvas holds 0 outside sampled regions)",
			"edge multiplicity > 1 is tolerated only when an endpoint lies within tau of a lattice corner (merge-by-rounding pinch, KNOWN_FINDINGS) - still balanced; anything else (unbalanced edge, multiplicity away from lattice corners, flipped patch, displaced vertex) is a violation",
			"cases are bounded by count and size (8 MB and 1e6 cell visits per touched block), never by time",
		},
	})
}

type Shape struct {
	Kind string     // sphere | box | line
	Off  [3]float64 // centre offset from the anchor, in cells
	R    float64    // radius in cells (sphere, line)
	Size [3]float64 // box size in cells
	End  [3]float64 // line end offset from the centre, in cells
}

type Case struct {
	CPU      float64
	Anchor   [3]int  // block-boundary multiples
	Half     [3]bool // anchor moved to the middle of the block on that axis (shape inside one block)
	Shapes   []Shape
	CutCells float64 // cutoff = -CutCells * cell
	Combine  bool    // Field.Combine instead of CombineFields
	Attr     bool    // MarchOnAttribute(Position) instead of March
	// Channels > 0: the field carries that many further float1 functions next to the distance (a
	// temperature, a density - what AddField stores per attribute); the marched surface is the distance's
	Channels int `json:",omitempty"`
}

func genCase(t *rapid.T) Case {
	maxCPU := 100.0
	if vh.Tier == "thorough" {
		maxCPU = 1000
	}
	c := Case{CPU: math.Exp(rapid.Float64Range(math.Log(0.4), math.Log(maxCPU)).Draw(t, "logcpu"))}
	if rapid.IntRange(0, 3).Draw(t, "roundcpu") == 0 {
		c.CPU = float64(rapid.SampledFrom([]int{1, 2, 4, 5, 8, 10, 16, 25, 50, 100}).Draw(t, "cpuRound"))
	}
	span := 1
	if vh.Tier == "thorough" {
		span = 2
	}
	for i := 0; i < 3; i++ {
		c.Anchor[i] = rapid.IntRange(-span, span).Draw(t, "anchor")
		c.Half[i] = rapid.IntRange(0, 2).Draw(t, "mid") == 0
	}
	n := rapid.IntRange(1, 3).Draw(t, "shapes")
	off := func(l string) float64 { return rapid.Float64Range(-9, 9).Draw(t, l) }
	aligned := rapid.IntRange(0, 5).Draw(t, "gridAligned") == 0
	for s := 0; s < n; s++ {
		sh := Shape{Off: [3]float64{off("ox"), off("oy"), off("oz")}}
		if aligned {
			sh.Off = [3]float64{math.Round(sh.Off[0]), math.Round(sh.Off[1]), math.Round(sh.Off[2])}
		}
		kind := rapid.IntRange(0, 2).Draw(t, "kind")
		if kind == 1 && c.CPU > 120 {
			// marching.Box pads its domain by `strength` WORLD units (0.5 per side), i.e. cpu/2 cells per side:
			// beyond ~120 cubes per unit one box touches hundreds of 8 MB storage blocks. Bounded by size, not time.
			kind = 0
		}
		switch kind {
		case 0:
			sh.Kind, sh.R = "sphere", rapid.Float64Range(2.5, 7).Draw(t, "r")
		case 1:
			sh.Kind = "box"
			sh.Size = [3]float64{rapid.Float64Range(4, 12).Draw(t, "sx"), rapid.Float64Range(4, 12).Draw(t, "sy"), rapid.Float64Range(4, 12).Draw(t, "sz")}
			if aligned {
				sh.Size = [3]float64{2 * math.Round(sh.Size[0]/2), 2 * math.Round(sh.Size[1]/2), 2 * math.Round(sh.Size[2]/2)}
			}
		default:
			sh.Kind, sh.R = "line", rapid.Float64Range(2.5, 5).Draw(t, "r")
			lim := 9.0
			if vh.Tier == "thorough" && rapid.IntRange(0, 4).Draw(t, "long") == 0 {
				lim = 120
			}
			sh.End = [3]float64{rapid.Float64Range(-lim, lim).Draw(t, "ex"), rapid.Float64Range(-lim, lim).Draw(t, "ey"), rapid.Float64Range(-lim, lim).Draw(t, "ez")}
		}
		c.Shapes = append(c.Shapes, sh)
	}
	c.CutCells = rapid.SampledFrom([]float64{0, 0, 0.3, 1}).Draw(t, "cut")
	c.Combine = rapid.Bool().Draw(t, "combine")
	c.Attr = rapid.Bool().Draw(t, "attr")
	if rapid.IntRange(0, 2).Draw(t, "withChannels") == 0 {
		c.Channels = rapid.IntRange(1, 2).Draw(t, "channels")
	}
	return c
}

type V = vector3.Float64

func vec(a [3]float64) V { return vector3.New(a[0], a[1], a[2]) }

// exact distance fields written independently of math/sdf
func sdSphere(c V, r float64) func(V) float64 { return func(p V) float64 { return p.Distance(c) - r } }
func sdBox(c, size V) func(V) float64 {
	h := size.Scale(0.5)
	return func(p V) float64 {
		d := p.Sub(c)
		qx, qy, qz := math.Abs(d.X())-h.X(), math.Abs(d.Y())-h.Y(), math.Abs(d.Z())-h.Z()
		out := math.Sqrt(math.Max(qx, 0)*math.Max(qx, 0) + math.Max(qy, 0)*math.Max(qy, 0) + math.Max(qz, 0)*math.Max(qz, 0))
		return out + math.Min(math.Max(qx, math.Max(qy, qz)), 0)
	}
}
func sdCapsule(a, b V, r float64) func(V) float64 {
	ab := b.Sub(a)
	l2 := ab.Dot(ab)
	return func(p V) float64 {
		t := 0.0
		if l2 > 0 {
			t = math.Min(1, math.Max(0, p.Sub(a).Dot(ab)/l2))
		}
		return p.Distance(a.Add(ab.Scale(t))) - r
	}
}

type dedge struct{ a, b int }

const pinchSig = "merge-pinch/edge-multiplicity>1/endpoint-within-tau-of-lattice-corner"
const crackSig = "merge-crack/unbalanced-edge/closed-after-identifying-vertices-within-tau-of-a-lattice-corner"

func runCase(c Case, o *vh.Obs) *vh.Failure {
	if c.CPU <= 0 || len(c.Shapes) == 0 {
		return nil
	}
	cpu := c.CPU
	cell := 1 / cpu
	half := func(b bool) float64 {
		if b {
			return 0.5
		}
		return 0
	}
	anchor := vector3.New(float64(c.Anchor[0])+half(c.Half[0]), float64(c.Anchor[1])+half(c.Half[1]), float64(c.Anchor[2])+half(c.Half[2])).Scale(100 * cell)
	var fields []marching.Field
	var exact []func(V) float64
	lo := vector3.New(math.Inf(1), math.Inf(1), math.Inf(1))
	hi := vector3.New(math.Inf(-1), math.Inf(-1), math.Inf(-1))
	for _, s := range c.Shapes {
		ctr := anchor.Add(vec(s.Off).Scale(cell))
		switch s.Kind {
		case "sphere":
			fields = append(fields, marching.Sphere(ctr, s.R*cell, 1))
			exact = append(exact, sdSphere(ctr, s.R*cell))
		case "box":
			fields = append(fields, marching.Box(ctr, vec(s.Size).Scale(cell), 1))
			exact = append(exact, sdBox(ctr, vec(s.Size).Scale(cell)))
		default:
			e := ctr.Add(vec(s.End).Scale(cell))
			if e.Distance(ctr) < cell {
				e = ctr.Add(vector3.New(3*cell, 0, 0))
			}
			fields = append(fields, marching.Line(ctr, e, s.R*cell, 1))
			exact = append(exact, sdCapsule(ctr, e, s.R*cell))
		}
		d := fields[len(fields)-1].Domain
		lo, hi = vector3.Min(lo, d.Min()), vector3.Max(hi, d.Max())
	}
	field := fields[0]
	if len(fields) > 1 {
		if c.Combine {
			field = fields[0].Combine(fields[1:]...)
		} else {
			field = marching.CombineFields(fields...)
		}
	}
	cutoff := -c.CutCells * cell
	f := func(p V) float64 {
		m := math.Inf(1)
		for _, e := range exact {
			m = math.Min(m, e(p))
		}
		return m
	}
	// classes: block boundaries crossed per axis
	crossed := 0
	for i, pair := range [][2]float64{{lo.X(), hi.X()}, {lo.Y(), hi.Y()}, {lo.Z(), hi.Z()}} {
		_ = i
		if math.Floor((math.Floor(pair[0]*cpu)-1)/100) != math.Floor((math.Ceil(pair[1]*cpu)+1)/100) {
			crossed++
		}
	}
	o.Class(fmt.Sprintf("axes-crossing-block-boundary/%d", crossed))
	o.Class(fmt.Sprintf("shapes/%d", len(c.Shapes)))
	if crossed > 0 || len(c.Shapes) > 1 {
		o.NonTrivial()
	}
	if c.Channels > 0 && c.Channels <= 2 {
		fns := map[string]sample.Vec3ToFloat{}
		for k, f := range field.Float1Functions {
			fns[k] = f
		}
		fns["temperature"] = func(p vector3.Float64) float64 { return 3 + 0.01*p.X() } // positive everywhere: no surface of its own
		if c.Channels > 1 {
			fns["Density"] = func(p vector3.Float64) float64 { return 7 } // sorts before "Position"
		}
		field = marching.Field{Domain: field.Domain, Float1Functions: fns, Float2Functions: field.Float2Functions, Float3Functions: field.Float3Functions}
		o.Class(fmt.Sprintf("extra-float1-channels/%d", c.Channels))
	}
	canvas := marching.NewMarchingCanvas(cpu)
	var m modeling.Mesh
	if kind, val := oracle.Try(func() {
		canvas.AddField(field)
		if c.Attr {
			m = canvas.MarchOnAttribute(modeling.PositionAttribute, cutoff)
		} else {
			m = canvas.March(cutoff)
		}
	}); kind != "" {
		return vh.Failf("march-panic-"+kind, "marching panicked: %v", val)
	}
	if err := oracle.WFStatic(m); err != nil {
		return vh.Failf("malformed", "marched mesh malformed: %v", err)
	}
	idx := m.Indices()
	if idx.Len() == 0 {
		return vh.Failf("empty-mesh", "a shape of >= 2 cells radius marched to an empty mesh (cpu %v)", cpu)
	}
	pos := m.Float3Attribute(modeling.PositionAttribute)
	cnt := map[dedge]int{}
	vol, area := 0.0, 0.0
	ref0 := pos.At(idx.At(0)) // volume relative to a surface point for conditioning
	for i := 0; i < idx.Len(); i += 3 {
		a, b, cc := idx.At(i), idx.At(i+1), idx.At(i+2)
		if a == b || b == cc || a == cc {
			return vh.Failf("degenerate-triangle", "triangle %d has a repeated vertex id (%d,%d,%d)", i/3, a, b, cc)
		}
		cnt[dedge{a, b}]++
		cnt[dedge{b, cc}]++
		cnt[dedge{cc, a}]++
		pa, pb, pc := pos.At(a).Sub(ref0), pos.At(b).Sub(ref0), pos.At(cc).Sub(ref0)
		vol += pa.Dot(pb.Cross(pc)) / 6
		area += pb.Sub(pa).Cross(pc.Sub(pa)).Length() / 2
	}
	tau := 2 * math.Max(1e-4, 1e-3*cpu) * math.Sqrt(3) // cells
	nearCorner := func(v int) bool {
		p := pos.At(v).Scale(cpu)
		dx, dy, dz := p.X()-math.Round(p.X()), p.Y()-math.Round(p.Y()), p.Z()-math.Round(p.Z())
		return math.Sqrt(dx*dx+dy*dy+dz*dz) <= tau
	}
	// deterministic iteration order over edges: walk the triangles again
	pinches := 0
	var unbalanced *vh.Failure
	for i := 0; i < idx.Len() && unbalanced == nil; i += 3 {
		tri := [3]int{idx.At(i), idx.At(i + 1), idx.At(i + 2)}
		for k := 0; k < 3; k++ {
			e := dedge{tri[k], tri[(k+1)%3]}
			n := cnt[e]
			if back := cnt[dedge{e.b, e.a}]; back != n {
				unbalanced = vh.Failf("unbalanced-edge", "directed edge %v used %d times, its opposite %d times (cpu %v): the surface is open or inconsistently oriented at %v", e, n, back, cpu, pos.At(e.a))
				break
			}
			if n != 1 {
				if nearCorner(e.a) || nearCorner(e.b) {
					pinches++
					continue
				}
				return vh.Failf("edge-multiplicity-away-from-lattice-corner", "edge %v used %d times per direction and neither endpoint is within tau=%.4g cells of a lattice corner (cpu %v)", e, n, tau, cpu)
			}
		}
	}
	if unbalanced != nil {
		// Second face of the same known root cause (merge by rounding): two storage blocks each merge the
		// crossings near a lattice corner onto a different representative, and the final weld rounds the two
		// representatives into different cells, which leaves a crack exactly there. It is explained only if
		// the surface is closed once vertices within tau of a COMMON lattice corner are identified.
		rep := map[[3]int64]int{}
		id := make([]int, pos.Len())
		for v := 0; v < pos.Len(); v++ {
			id[v] = v
			if nearCorner(v) {
				p := pos.At(v).Scale(cpu)
				key := [3]int64{int64(math.Round(p.X())), int64(math.Round(p.Y())), int64(math.Round(p.Z()))}
				if r, ok := rep[key]; ok {
					id[v] = r
				} else {
					rep[key] = v
				}
			}
		}
		cnt2 := map[dedge]int{}
		for i := 0; i < idx.Len(); i += 3 {
			a, b, cc := id[idx.At(i)], id[idx.At(i+1)], id[idx.At(i+2)]
			if a == b || b == cc || a == cc {
				continue
			}
			cnt2[dedge{a, b}]++
			cnt2[dedge{b, cc}]++
			cnt2[dedge{cc, a}]++
		}
		closed := true
		for e, n := range cnt2 {
			if cnt2[dedge{e.b, e.a}] != n {
				closed = false
				break
			}
		}
		if !closed {
			return unbalanced
		}
		o.Class("crack-at-lattice-corner")
		if !o.Known(crackSig) {
			return vh.Failf(crackSig, "%s; the surface IS closed once vertices within tau=%.4g cells of a common lattice corner are identified", unbalanced.Msg, tau)
		}
		return nil // the remaining oracles presuppose a closed surface
	}
	if vol <= 0 {
		return vh.Failf("volume-not-positive", "signed volume %v: the surface is oriented inward (cpu %v)", vol, cpu)
	}
	worst := 0.0
	for v := 0; v < pos.Len(); v++ {
		worst = math.Max(worst, math.Abs(f(pos.At(v))-cutoff))
	}
	if worst > cell+0.002 {
		return vh.Failf("vertex-off-isosurface", "a vertex lies %.3f cells from the true isosurface (cpu %v)", worst/cell, cpu)
	}
	o.Class(fmt.Sprintf("worst-vertex-distance<=%.1fcell", math.Ceil(worst/cell*5)/5))
	// reference volume by half-cell sampling of the exact field over the union of the domains
	h := cell / 2
	inside := 0
	for x := lo.X() - cell + h/2; x < hi.X()+cell; x += h {
		for y := lo.Y() - cell + h/2; y < hi.Y()+cell; y += h {
			for z := lo.Z() - cell + h/2; z < hi.Z()+cell; z += h {
				if f(vector3.New(x, y, z)) < cutoff {
					inside++
				}
			}
		}
	}
	ref := float64(inside) * h * h * h
	if math.Abs(vol-ref) > area*cell {
		return vh.Failf("volume-mismatch", "enclosed volume %v, reference %v (surface area %v, cell %v, cpu %v)", vol, ref, area, cell, cpu)
	}
	return nil
}

// ---------------------------------------------------------------- lattice patterns (every cube configuration)

// PatternCase prescribes the inside/outside state of every lattice point directly: a box of
// NX x NY x NZ lattice points at Base, point (i,j,k) inside iff bit i+NX*(j+NY*k) of Bits is set,
// everything around it outside. Shapes from distance fields never produce most of the 256 cube
// configurations (a cell with four mutually non-adjacent corners inside needs two sub-cell
// features crossing at one cell); prescribing the samples reaches every configuration and every
// pair of configurations across a shared face.
type PatternCase struct {
	NX, NY, NZ int
	Base       [3]int
	Bits       []uint64
	Path       string // "canvas" (AddField + March) | "field" (Field.March)
}

func (c PatternCase) inside(i, j, k int) bool {
	if i < 0 || j < 0 || k < 0 || i >= c.NX || j >= c.NY || k >= c.NZ {
		return false
	}
	b := i + c.NX*(j+c.NY*k)
	return b/64 < len(c.Bits) && c.Bits[b/64]>>(uint(b)%64)&1 == 1
}

func singleCellPatterns() []PatternCase {
	var out []PatternCase
	for mask := 1; mask < 256; mask++ {
		out = append(out, PatternCase{NX: 2, NY: 2, NZ: 2, Base: [3]int{10, 10, 10}, Bits: []uint64{uint64(mask)}, Path: "canvas"})
		out = append(out, PatternCase{NX: 2, NY: 2, NZ: 2, Base: [3]int{-3, 4, 98}, Bits: []uint64{uint64(mask)}, Path: "field"})
	}
	return out
}

// cellPairPatterns: every assignment of the 12 lattice points of two cells sharing a face, per axis.
func cellPairPatterns() []PatternCase {
	var out []PatternCase
	for axis := 0; axis < 3; axis++ {
		n := [3]int{2, 2, 2}
		n[axis] = 3
		for mask := 1; mask < 4096; mask++ {
			out = append(out, PatternCase{NX: n[0], NY: n[1], NZ: n[2], Base: [3]int{5, 6, 7}, Bits: []uint64{uint64(mask)}, Path: "field"})
		}
	}
	return out
}

func genPattern(t *rapid.T) PatternCase {
	c := PatternCase{NX: rapid.IntRange(2, 5).Draw(t, "nx"), NY: rapid.IntRange(2, 5).Draw(t, "ny"), NZ: rapid.IntRange(2, 5).Draw(t, "nz"),
		Path: "field"}
	if rapid.IntRange(0, 63).Draw(t, "canvas") == 0 { // a canvas case costs seconds (every storage block touched is visited cell by cell)
		c.Path = "canvas"
	}
	for k := range c.Base {
		c.Base[k] = rapid.SampledFrom([]int{10, 0, -1, 98, 99, -101, 199, 47}).Draw(t, "base")
	}
	n := c.NX * c.NY * c.NZ
	density := rapid.SampledFrom([]int{1, 2, 3, 4, 5, 6, 7}).Draw(t, "density") // eighths of the points inside
	for w := 0; w*64 < n; w++ {
		var word uint64
		for b := 0; b < 64 && w*64+b < n; b++ {
			if rapid.IntRange(0, 7).Draw(t, "in") < density {
				word |= 1 << uint(b)
			}
		}
		c.Bits = append(c.Bits, word)
	}
	return c
}

func runPattern(c PatternCase, o *vh.Obs) *vh.Failure {
	if c.NX < 2 || c.NY < 2 || c.NZ < 2 || c.NX > 8 || c.NY > 8 || c.NZ > 8 || (c.Path != "canvas" && c.Path != "field") {
		o.Class("out-of-domain")
		return nil
	}
	for _, b := range c.Base {
		if b < -1000 || b > 1000 {
			o.Class("out-of-domain")
			return nil
		}
	}
	ins := func(x, y, z int) bool { return c.inside(x-c.Base[0], y-c.Base[1], z-c.Base[2]) }
	count := 0
	for i := 0; i < c.NX; i++ {
		for j := 0; j < c.NY; j++ {
			for k := 0; k < c.NZ; k++ {
				if c.inside(i, j, k) {
					count++
				}
			}
		}
	}
	if count == 0 {
		o.Class("pattern/empty-skipped") // March on a canvas with nothing below the cutoff panics with a reported error
		return nil
	}
	// cube configurations present (corner numbering of the harness, only used for classification)
	configs := map[int]bool{}
	for i := -1; i < c.NX; i++ {
		for j := -1; j < c.NY; j++ {
			for k := -1; k < c.NZ; k++ {
				m := 0
				for b := 0; b < 8; b++ {
					if c.inside(i+b&1, j+b>>1&1, k+b>>2&1) {
						m |= 1 << uint(b)
					}
				}
				if m != 0 && m != 255 {
					configs[m] = true
				}
			}
		}
	}
	ambiguous := false
	for m := range configs {
		// a face with exactly its two diagonal corners inside: faces x=0 (bits 0,2,4,6) etc.
		for _, f := range [][4]int{{0, 2, 6, 4}, {1, 3, 7, 5}, {0, 1, 5, 4}, {2, 3, 7, 6}, {0, 1, 3, 2}, {4, 5, 7, 6}} {
			a, b, cc, d := m>>uint(f[0])&1, m>>uint(f[1])&1, m>>uint(f[2])&1, m>>uint(f[3])&1
			if a == cc && b == d && a != b {
				ambiguous = true
			}
		}
	}
	o.Class("pattern/path-" + c.Path)
	o.Class(fmt.Sprintf("pattern/lattice-points-%d0s", c.NX*c.NY*c.NZ/10))
	if ambiguous {
		o.Class("pattern/has-face-with-diagonal-corners-inside")
		o.NonTrivial()
	}
	o.Count("cube-configurations-in-case", len(configs))

	// samples: -2 inside, 0 outside (the canvas holds 0 where nothing was added); cutoff -1 puts every
	// vertex on the midpoint of a cut lattice edge
	misaligned := false
	fn := func(p V) float64 {
		x, y, z := math.Round(p.X()), math.Round(p.Y()), math.Round(p.Z())
		if x != p.X() || y != p.Y() || z != p.Z() {
			misaligned = true
		}
		if ins(int(x), int(y), int(z)) {
			return -2
		}
		return 0
	}
	lo := vector3.New(float64(c.Base[0]-1), float64(c.Base[1]-1), float64(c.Base[2]-1))
	hi := vector3.New(float64(c.Base[0]+c.NX), float64(c.Base[1]+c.NY), float64(c.Base[2]+c.NZ))
	field := marching.Field{Domain: geometry.NewAABBFromPoints(lo, hi), Float1Functions: map[string]sample.Vec3ToFloat{modeling.PositionAttribute: fn}}
	var m modeling.Mesh
	if kind, val := oracle.Try(func() {
		if c.Path == "canvas" {
			canvas := marching.NewMarchingCanvas(1)
			canvas.AddField(field)
			m = canvas.March(-1)
		} else {
			m = field.March(modeling.PositionAttribute, 1, -1)
		}
	}); kind != "" {
		return vh.Failf("pattern/march-panic-"+kind, "marching the prescribed samples panicked: %v", val)
	}
	if misaligned {
		return vh.Failf("harness/lattice-misaligned", "the field was sampled off the integer lattice at 1 cube per unit")
	}
	if err := oracle.WFStatic(m); err != nil {
		return vh.Failf("pattern/malformed", "marched mesh malformed: %v", err)
	}
	idx := m.Indices()
	pos := m.Float3Attribute(modeling.PositionAttribute)
	// vertices are merged by position first (Field.March emits one vertex per triangle corner)
	type key [3]int64 // doubled coordinates
	ids := map[key]int{}
	id := make([]int, pos.Len())
	for v := 0; v < pos.Len(); v++ {
		p := pos.At(v)
		k := key{int64(math.Round(2 * p.X())), int64(math.Round(2 * p.Y())), int64(math.Round(2 * p.Z()))}
		if math.Abs(2*p.X()-float64(k[0]))+math.Abs(2*p.Y()-float64(k[1]))+math.Abs(2*p.Z()-float64(k[2])) > 1e-6 {
			return vh.Failf("pattern/vertex-off-edge-midpoint", "vertex %d = %v: with samples -2/0 and cutoff -1 every vertex is the midpoint of a lattice edge", v, p)
		}
		odd, axis := 0, 0
		for a := 0; a < 3; a++ {
			if k[a]%2 != 0 {
				odd++
				axis = a
			}
		}
		if odd != 1 {
			return vh.Failf("pattern/vertex-off-edge-midpoint", "vertex %d = %v is not the midpoint of a lattice edge", v, p)
		}
		e0, e1 := k, k
		e0[axis], e1[axis] = k[axis]-1, k[axis]+1
		if ins(int(e0[0]/2), int(e0[1]/2), int(e0[2]/2)) == ins(int(e1[0]/2), int(e1[1]/2), int(e1[2]/2)) {
			return vh.Failf("pattern/vertex-on-uncut-edge", "vertex %d = %v sits on a lattice edge whose two ends are on the same side", v, p)
		}
		if _, ok := ids[k]; !ok {
			ids[k] = len(ids)
		}
		id[v] = ids[k]
	}
	// every cut lattice edge carries a vertex
	cut := 0
	for x := c.Base[0] - 1; x <= c.Base[0]+c.NX; x++ {
		for y := c.Base[1] - 1; y <= c.Base[1]+c.NY; y++ {
			for z := c.Base[2] - 1; z <= c.Base[2]+c.NZ; z++ {
				for _, d := range [3][3]int{{1, 0, 0}, {0, 1, 0}, {0, 0, 1}} {
					if ins(x, y, z) != ins(x+d[0], y+d[1], z+d[2]) {
						cut++
						if _, ok := ids[key{int64(2*x + d[0]), int64(2*y + d[1]), int64(2*z + d[2])}]; !ok {
							return vh.Failf("pattern/cut-edge-without-vertex", "the lattice edge from (%d,%d,%d) towards %v is cut but no triangle has a vertex on it", x, y, z, d)
						}
					}
				}
			}
		}
	}
	cnt := map[dedge]int{}
	vol := 0.0
	for i := 0; i+2 < idx.Len(); i += 3 {
		a, b, cc := id[idx.At(i)], id[idx.At(i+1)], id[idx.At(i+2)]
		if a == b || b == cc || a == cc {
			return vh.Failf("pattern/degenerate-triangle", "triangle %d joins two corners at one position", i/3)
		}
		cnt[dedge{a, b}]++
		cnt[dedge{b, cc}]++
		cnt[dedge{cc, a}]++
		pa, pb, pc := pos.At(idx.At(i)), pos.At(idx.At(i+1)), pos.At(idx.At(i+2))
		ref := vector3.New(float64(c.Base[0]), float64(c.Base[1]), float64(c.Base[2]))
		vol += pa.Sub(ref).Dot(pb.Sub(ref).Cross(pc.Sub(ref))) / 6
	}
	for i := 0; i+2 < idx.Len(); i += 3 { // deterministic order
		tri := [3]int{id[idx.At(i)], id[idx.At(i+1)], id[idx.At(i+2)]}
		for k := 0; k < 3; k++ {
			e := dedge{tri[k], tri[(k+1)%3]}
			if n, back := cnt[e], cnt[dedge{e.b, e.a}]; n != back {
				return vh.Failf("pattern/unbalanced-edge", "edge %v -> %v is used %d times, its opposite %d times: the surface around the prescribed samples is open or inconsistently oriented (cube configurations present: %v)",
					pos.At(idx.At(i+k)), pos.At(idx.At(i+(k+1)%3)), n, back, sortedKeys(configs))
			}
		}
	}
	if !(vol > 0) {
		return vh.Failf("pattern/volume-not-positive", "signed volume %v with %d inside samples: the surface is oriented inward", vol, count)
	}
	// each inside sample owns between 1/6 (a lone corner: an octahedron of half-edges) and 1 cell of volume... bounds only
	if vol < float64(count)/6-1e-9 || vol > float64(count)+float64(cut)/2+1e-9 {
		return vh.Failf("pattern/volume-out-of-bounds", "signed volume %v for %d inside samples and %d cut edges", vol, count, cut)
	}
	return nil
}

func sortedKeys(m map[int]bool) []int {
	var out []int
	for k := range m {
		out = append(out, k)
	}
	sort.Ints(out)
	return out
}

func TestC09(t *testing.T) {
	vh.Drive(t, vh.Spec[Case]{Name: "march", Quick: 96, Thorough: 2400, Gen: genCase, Run: runCase})
	vh.Enumerate(t, vh.Spec[PatternCase]{Name: "cube-configurations", Run: runPattern}, singleCellPatterns())
	vh.Enumerate(t, vh.Spec[PatternCase]{Name: "cell-pairs", Run: runPattern}, cellPairPatterns())
	vh.Drive(t, vh.Spec[PatternCase]{Name: "lattice-patterns", Quick: 4000, Thorough: 60000, Gen: genPattern, Run: runPattern})
}
