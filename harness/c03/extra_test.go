package c03

// Operations added after the statement-coverage measurement (tools/coverage.py) showed that the
// anchored files had public entry points the check never entered: every meshops Transformer struct,
// the Modify* family, LaplacianSmoothAlongAxis and SmoothNormalsImplicitWeld.

import (
	"fmt"
	"math"

	"github.com/EliCDavis/polyform/math/geometry"
	"github.com/EliCDavis/polyform/math/quaternion"
	"github.com/EliCDavis/polyform/modeling"
	"github.com/EliCDavis/polyform/modeling/meshops"
	"github.com/EliCDavis/vector/vector2"
	"github.com/EliCDavis/vector/vector3"
	"github.com/EliCDavis/vector/vector4"

	"verifharness/internal/mops"
	"verifharness/internal/oracle"
	"verifharness/internal/vh"
)

// direct is the plain function a Transformer struct wraps, with the attribute its blank name falls
// back to and the parameters mops.Tf gives the struct.
func direct(k int, op mops.Op, m modeling.Mesh) modeling.Mesh {
	pp := func(i int) float64 {
		if i < len(op.P) {
			return op.P[i]
		}
		return 0
	}
	v := vector3.New(pp(0), pp(1), pp(2))
	q := quaternion.FromTheta(pp(3), vector3.New(pp(0), pp(1), 1.5))
	plane := geometry.NewPlaneFromPoints(v, v.Add(vector3.Right[float64]()), v.Add(vector3.Forward[float64]()))
	switch k {
	case 0:
		return meshops.CenterFloat3Attribute(m, modeling.PositionAttribute)
	case 1:
		return meshops.ColorGradingLut(m, mops.Lut, modeling.ColorAttribute)
	case 2:
		return meshops.CropFloat3Attribute(m, modeling.PositionAttribute, geometry.NewAABB(v, vector3.New(6., 6, 6)))
	case 3:
		return m.Translate(v)
	case 4:
		return meshops.FilterFloat1(m, "w", func(x float64) bool { return x >= pp(0) })
	case 5:
		return meshops.FilterFloat2(m, modeling.TexCoordAttribute, func(x vector2.Float64) bool { return x.X() >= pp(0) })
	case 6:
		return meshops.FilterFloat3(m, modeling.PositionAttribute, func(x vector3.Float64) bool { return x.X() < pp(0) })
	case 7:
		return meshops.FilterFloat4(m, modeling.RotationAttribute, func(x vector4.Float64) bool { return x.W() >= pp(0) })
	case 8:
		return meshops.FlatNormals(m)
	case 9:
		return meshops.FlipTriangleWinding(m)
	case 10:
		return meshops.LaplacianSmooth(m, modeling.PositionAttribute, 2, 0.5)
	case 11:
		return meshops.NormalizeAttribute3D(m, modeling.PositionAttribute)
	case 12:
		return meshops.NormalizeAttribute2D(m, modeling.TexCoordAttribute)
	case 13:
		return meshops.RemoveNullFaces3D(m, modeling.PositionAttribute, 0.1)
	case 14:
		return meshops.RemovedUnreferencedVertices(m)
	case 15:
		return meshops.RotateAttribute3D(m, modeling.PositionAttribute, q)
	case 16:
		return meshops.ScaleAttribute3D(m, modeling.PositionAttribute, vector3.New(1., 0, 0), v)
	case 17:
		return meshops.ScaleAttributeAlongNormal(m, modeling.PositionAttribute, modeling.NormalAttribute, pp(0))
	case 18:
		return meshops.ScaleAttribute2D(m, modeling.TexCoordAttribute, vector2.New(0.5, 0.5), vector2.New(pp(0), pp(1)))
	case 19:
		above, _ := meshops.SliceByPlaneWithAttribute(m, plane, modeling.PositionAttribute)
		return above
	case 20:
		_, below := meshops.SliceByPlaneWithAttribute(m, plane, modeling.PositionAttribute)
		return below
	case 21:
		return meshops.SmoothNormals(m)
	case 22:
		return meshops.SmoothNormalsImplicitWeld(m, 0.01)
	case 23:
		return meshops.TranslateAttribute3D(m, modeling.PositionAttribute, v)
	default:
		return meshops.Unweld(m)
	}
}

// runTransformers: each Transformer struct applied to m must behave as the function it wraps -
// the same mesh when the function returns one, a reported failure (an error, or the panic the
// function raises) when the function reports one; with the attribute name left blank, spelled out,
// or blank-padded.
func runTransformers(m modeling.Mesh, P []float64, o *vh.Obs, fail func(string, string, ...any) *vh.Failure) *vh.Failure {
	for k := 0; k < mops.TfCount; k++ {
		for name := 0; name < 3; name++ {
			op := mops.Op{K: "tf", X: []int{k, name}, P: P[:4]}
			var want modeling.Mesh
			wkind, _ := oracle.Try(func() { want = direct(k, op, m) })
			if wkind == "crash" {
				o.Count("transformer/function-crashes-on-this-mesh-not-judged/"+mops.TfBase[k], 1) // outside the function's domain (C02 judges crashes)
				continue
			}
			var got modeling.Mesh
			var err error
			gkind, gval := oracle.Try(func() { got, err = mops.Tf(op).Transform(m) })
			label := fmt.Sprintf("%s(attribute name variant %d)", mops.TfBase[k], name)
			switch {
			case gkind == "crash":
				return fail("transformer-crash", "transformer %d %s crashed: %v; the function it wraps does not", k, label, gval)
			case wkind == "reported":
				o.Count("transformer/function-reports-failure", 1)
				if gkind == "" && err == nil {
					return fail("transformer-accepts-what-function-rejects", "transformer %d %s returned a mesh without error where the function it wraps reports failure", k, label)
				}
			default:
				if gkind != "" || err != nil {
					// the struct checks its preconditions before calling the function, which may not check them all
					o.Count("transformer/stricter-than-function", 1)
					continue
				}
				if k == 10 { // Laplacian: neighbour sums are accumulated in map order, two runs differ in the last bits
					if e := sameExcept(want, got, modeling.PositionAttribute, false); e != nil {
						return fail("transformer-differs", "transformer %d %s: %v", k, label, e)
					}
					wp, gp := want.Float3Attribute(modeling.PositionAttribute), got.Float3Attribute(modeling.PositionAttribute)
					for i := 0; i < wp.Len() && i < gp.Len(); i++ {
						if !wp.At(i).ContainsNaN() && !near(wp.At(i), gp.At(i), 1e-9) {
							return fail("transformer-differs", "transformer %d %s: vertex %d at %v, the function puts it at %v", k, label, i, gp.At(i), wp.At(i))
						}
					}
					o.Count("transformer/compared", 1)
					continue
				}
				if oracle.Snapshot(got) != oracle.Snapshot(want) {
					return fail("transformer-differs", "transformer %d %s returns a different mesh than the function it wraps", k, label)
				}
				o.Count("transformer/compared", 1)
			}
		}
	}
	return nil
}

// runModify: Modify*Attribute and the parallel variants change exactly the named attribute by the
// callback (called with the vertex number and the old value) and nothing else.
func runModify(m modeling.Mesh, P []float64, X []int, fail func(string, string, ...any) *vh.Failure) *vh.Failure {
	pool := 1 + (X[0]%7+7)%7
	a := vector3.New(P[0], P[1], P[2])
	f3 := func(i int, x vector3.Float64) vector3.Float64 { return x.Add(a).Scale(float64(i%5) + 0.5) }
	f2 := func(i int, x vector2.Float64) vector2.Float64 { return x.Scale(2).Add(vector2.New(float64(i), P[3])) }
	f1 := func(i int, x float64) float64 { return x*P[4] + float64(i) }
	for _, name := range m.Float3Attributes() {
		old := m.Float3Attribute(name)
		for vi, r := range []modeling.Mesh{m.ModifyFloat3Attribute(name, f3), m.ModifyFloat3AttributeParallel(name, f3), m.ModifyFloat3AttributeParallelWithPoolSize(name, pool, f3)} {
			if err := sameExcept(m, r, name, false); err != nil {
				return fail("modify3/side-effect", "variant %d: %v", vi, err)
			}
			got := r.Float3Attribute(name)
			if got.Len() != old.Len() {
				return fail("modify3/length", "variant %d: %d values for %d vertices", vi, got.Len(), old.Len())
			}
			for i := 0; i < old.Len(); i++ {
				if w := f3(i, old.At(i)); !bits3(got.At(i), w) {
					return fail("modify3/wrong-map", "variant %d (pool %d), attribute %s vertex %d: got %v want %v", vi, pool, name, i, got.At(i), w)
				}
			}
		}
	}
	for _, name := range m.Float2Attributes() {
		old := m.Float2Attribute(name)
		for vi, r := range []modeling.Mesh{m.ModifyFloat2Attribute(name, f2), m.ModifyFloat2AttributeParallel(name, f2), m.ModifyFloat2AttributeParallelWithPoolSize(name, pool, f2)} {
			if err := sameExcept(m, r, name, false); err != nil {
				return fail("modify2/side-effect", "variant %d: %v", vi, err)
			}
			got := r.Float2Attribute(name)
			if got.Len() != old.Len() {
				return fail("modify2/length", "variant %d: %d values for %d vertices", vi, got.Len(), old.Len())
			}
			for i := 0; i < old.Len(); i++ {
				w, g := f2(i, old.At(i)), got.At(i)
				if math.Float64bits(w.X()) != math.Float64bits(g.X()) || math.Float64bits(w.Y()) != math.Float64bits(g.Y()) {
					return fail("modify2/wrong-map", "variant %d (pool %d), attribute %s vertex %d: got %v want %v", vi, pool, name, i, g, w)
				}
			}
		}
	}
	for _, name := range m.Float1Attributes() {
		old := m.Float1Attribute(name)
		for vi, r := range []modeling.Mesh{m.ModifyFloat1Attribute(name, f1), m.ModifyFloat1AttributeParallel(name, f1), m.ModifyFloat1AttributeParallelWithPoolSize(name, pool, f1)} {
			if err := sameExcept(m, r, name, false); err != nil {
				return fail("modify1/side-effect", "variant %d: %v", vi, err)
			}
			got := r.Float1Attribute(name)
			if got.Len() != old.Len() {
				return fail("modify1/length", "variant %d: %d values for %d vertices", vi, got.Len(), old.Len())
			}
			for i := 0; i < old.Len(); i++ {
				if w := f1(i, old.At(i)); math.Float64bits(w) != math.Float64bits(got.At(i)) {
					return fail("modify1/wrong-map", "variant %d (pool %d), attribute %s vertex %d: got %v want %v", vi, pool, name, i, got.At(i), w)
				}
			}
		}
	}
	return nil
}

// runSmoothWeld: SmoothNormalsImplicitWeld(m, d) gives every vertex the normalised sum of the
// (area-weighted) face normals of all triangles that have a corner within d of it, and changes
// nothing else. Vertices with a corner at a distance within 1e-9 (relative) of d, and vertices whose
// sum cancels, are not judged.
func runSmoothWeld(m modeling.Mesh, d float64, o *vh.Obs, fail func(string, string, ...any) *vh.Failure) *vh.Failure {
	r := meshops.SmoothNormalsImplicitWeld(m, d)
	if err := sameExcept(m, r, modeling.NormalAttribute, true); err != nil {
		return fail("side-effect", "%v", err)
	}
	pos, idx := m.Float3Attribute(modeling.PositionAttribute), m.Indices()
	n := pos.Len()
	rn := r.Float3Attribute(modeling.NormalAttribute)
	if rn.Len() != n {
		return fail("normal-count", "%d normals for %d vertices", rn.Len(), n)
	}
	ext := 0.0
	for v := 0; v < n; v++ {
		ext = math.Max(ext, math.Max(pos.At(v).MaxComponent(), -pos.At(v).MinComponent()))
	}
	for v := 0; v < n; v++ {
		var sum vector3.Float64
		total, unclear := 0.0, false
		for i := 0; i+2 < idx.Len(); i += 3 {
			p1, p2, p3 := pos.At(idx.At(i)), pos.At(idx.At(i+1)), pos.At(idx.At(i+2))
			fn := p2.Sub(p1).Cross(p3.Sub(p1))
			if fn.ContainsNaN() {
				unclear = true
				continue
			}
			for _, c := range []vector3.Float64{p1, p2, p3} {
				dist := pos.At(v).Distance(c)
				if math.Abs(dist-d) <= 1e-9*(d+ext) {
					unclear = true
				}
				if dist <= d {
					sum = sum.Add(fn)
					total += fn.Length()
				}
			}
		}
		if unclear || sum.ContainsNaN() || math.IsInf(total, 0) {
			o.Count("smoothweld/vertex-not-judged", 1)
			continue
		}
		if total == 0 || sum.Length() <= 1e-9*total {
			o.Count("smoothweld/sum-cancels-not-judged", 1)
			continue
		}
		if !near(sum.Normalized(), rn.At(v), 1e-9) {
			return fail("wrong-normal", "vertex %d (weld distance %v): got %v want %v", v, d, rn.At(v), sum.Normalized())
		}
	}
	return nil
}

func bits3(a, b vector3.Float64) bool {
	return math.Float64bits(a.X()) == math.Float64bits(b.X()) && math.Float64bits(a.Y()) == math.Float64bits(b.Y()) && math.Float64bits(a.Z()) == math.Float64bits(b.Z())
}
