// Package c03 decides property C03 (mesh operations do what they say and nothing else): every
// operation is compared with a reference written from its contract over per-corner attribute
// tuples (layout operations) or over the stated per-vertex map (attribute transforms).
package c03

import (
	"fmt"
	"math"
	"sort"
	"testing"

	"github.com/EliCDavis/polyform/math/geometry"
	"github.com/EliCDavis/polyform/math/quaternion"
	"github.com/EliCDavis/polyform/math/trs"
	"github.com/EliCDavis/polyform/modeling"
	"github.com/EliCDavis/polyform/modeling/meshops"
	"github.com/EliCDavis/polyform/modeling/repeat"
	"github.com/EliCDavis/vector/vector2"
	"github.com/EliCDavis/vector/vector3"
	"github.com/EliCDavis/vector/vector4"
	"pgregory.net/rapid"

	"verifharness/internal/gen"
	"verifharness/internal/oracle"
	"verifharness/internal/vh"
)

func TestMain(m *testing.M) {
	vh.Main(m, vh.Meta{
		ID:    "C03",
		Level: "exploration",
		Rule: "rapid-generated well-formed meshes (triangle/point topology, 0..8 vertices, any index pattern incl. shared, duplicated and unreferenced vertices, any subset of 11 attributes of arity 1..4 plus a hidden vertex-id attribute, optional material ranges) x one of 33 operations/compositions with generated parameters. " +
			"Oracle: reference implementations written from each contract over per-corner attribute tuples compared by bit pattern (layout operations) or the stated per-vertex map in float64 (attribute transforms), plus 'everything else bit-identical' (indices, topology, materials, all other attributes). " +
			"Non-trivial = the mesh has a shared vertex and an unreferenced or duplicated one, or >= 3 attributes, and at least one primitive; for drop-type operations at least one primitive survives and one is dropped. Distinct by case JSON. " +
			"Sub-checks large-meshes (recipe-built meshes above 65 536 vertices) and concurrent-callers: every concurrent-* case (2-5 bundled cases run at the same time after each passed alone) is non-trivial. " +
			"One case in four of the operations without an absolute length in their contract runs at an overall scale 1e-9..1e-3 or 1e3..1e9 (classes scale/small, scale/large).",
		Assumptions: []string{
			"operations transformerAll (each of the 25 Transformer structs, three spellings of the attribute name, against the function it wraps: equal mesh, or both report failure; a struct that rejects what the function accepts is counted, not judged), modify (Modify*Attribute and both parallel variants, bit-exact against the callback), laplacianAxis, smoothWeld (vertices with a corner within 1e-9 relative of the weld distance, and sums that cancel, are not judged)",
			"attribute filters and crop are exercised on point topology only (the only topology their callers use)",
			"crop is specified per vertex (it rebuilds an identity-indexed cloud from the vertices inside the box)",
			"remove-null-faces: triangles whose area is within 1e-9 relative of minArea are not judged (don't-care band)",
			"normals of degenerate triangles and Laplacian positions of isolated vertices are undefined and not compared",
			"split-by-material is exercised with non-nil material pointers whose ranges partition the triangles",
		},
	})
}

type Case struct {
	Op string
	M  gen.MeshDesc
	M2 *gen.MeshDesc `json:",omitempty"`
	P  []float64     `json:",omitempty"`
	X  []int         `json:",omitempty"`
	// Scale != 0: every position of M (and M2) is multiplied by it before the operation runs: models
	// in kilometres or in micrometres. Only drawn for operations whose contract is free of absolute
	// lengths (scaledOps), where an absolute epsilon inside the library is a defect.
	Scale float64 `json:",omitempty"`
}

var scaledOps = map[string]bool{"smooth": true, "flat": true, "laplacian": true, "scaleAlongNormal": true, "center": true, "rotate": true, "trs": true,
	"translate": true, "unweld": true, "unref": true, "flip": true, "append": true, "appendTwice": true}

func scaledDesc(d gen.MeshDesc, k float64) gen.MeshDesc {
	rows, ok := d.V3[modeling.PositionAttribute]
	if !ok {
		return d
	}
	out := d
	out.V3 = map[string][][3]gen.F{}
	for name, r := range d.V3 {
		out.V3[name] = r
	}
	scaled := make([][3]gen.F, len(rows))
	for i, r := range rows {
		scaled[i] = [3]gen.F{r[0] * gen.F(k), r[1] * gen.F(k), r[2] * gen.F(k)}
	}
	out.V3[modeling.PositionAttribute] = scaled
	return out
}

var ops = []string{"unweld", "unref", "flip", "flip2", "weld", "weldAfterUnweld", "nullfaces", "append", "repeat", "pointcloud",
	"filter1", "filter2", "filter3", "filter4", "crop", "translate", "scale", "rotate", "trs", "scaleAttr", "scaleAttr2D", "translateAttr", "rotateAttr",
	"center", "normalize", "normalize2D", "smooth", "flat", "laplacian", "split", "setidxUnref", "transformers", "scaleAlongNormal", "appendTwice",
	"transformerAll", "transformerAll", "modify", "laplacianAxis", "smoothWeld"}

var tri = []modeling.Topology{modeling.TriangleTopology}
var pt = []modeling.Topology{modeling.PointTopology}

func genCase(t *rapid.T) Case {
	op := rapid.SampledFrom(ops).Draw(t, "op")
	c := Case{Op: op}
	o := gen.MeshOpts{VID: true, DupPos: true, MaxN: 8, MaxPrims: 6}
	switch op {
	case "flip", "flip2":
		o.Topos = tri
	case "weld", "weldAfterUnweld", "nullfaces", "repeat", "smooth", "flat", "laplacian", "split", "scaleAlongNormal", "appendTwice", "laplacianAxis", "smoothWeld":
		o.Topos, o.NeedPos = tri, true
	case "transformerAll":
		o.Attrs = []gen.AttrSpec{{Name: modeling.PositionAttribute, Arity: 3}, {Name: modeling.NormalAttribute, Arity: 3}, {Name: modeling.ColorAttribute, Arity: 3},
			{Name: modeling.TexCoordAttribute, Arity: 2}, {Name: modeling.RotationAttribute, Arity: 4}, {Name: "w", Arity: 1}}
	case "filter1", "filter2", "filter3", "filter4", "crop":
		o.Topos, o.NeedPos = pt, true
	case "translate", "scale", "rotate", "trs", "scaleAttr", "translateAttr", "rotateAttr", "center", "normalize", "transformers":
		o.NeedPos = true
	case "append":
		o.Materials = true
	}
	if op == "split" {
		o.MinPrims = 2
	}
	c.M = gen.Mesh(t, o, "m")
	if op == "append" || op == "appendTwice" {
		o.Topos = []modeling.Topology{c.M.Topology()}
		if rapid.IntRange(0, 2).Draw(t, "otherWidths") == 0 {
			// the second mesh knows some names in another width (RGBA colour, 3-component texture coordinate)
			o.Attrs = []gen.AttrSpec{{Name: modeling.PositionAttribute, Arity: 3}, {Name: modeling.NormalAttribute, Arity: 3}, {Name: modeling.ColorAttribute, Arity: 4},
				{Name: modeling.TexCoordAttribute, Arity: 3}, {Name: modeling.OpacityAttribute, Arity: 1}, {Name: "Custom1", Arity: 2}}
		}
		m2 := gen.Mesh(t, o, "m2")
		c.M2 = &m2
	}
	for i := 0; i < 8; i++ {
		c.P = append(c.P, gen.DefaultVal().Draw(t, "p"))
	}
	if scaledOps[op] && rapid.IntRange(0, 3).Draw(t, "scaled") == 0 {
		c.Scale = math.Pow(10, float64(rapid.SampledFrom([]int{-9, -6, -5, -4, -3, 3, 6, 9}).Draw(t, "scale10")))
	}
	switch op {
	case "weld", "weldAfterUnweld":
		c.X = []int{rapid.IntRange(0, 4).Draw(t, "decimals")}
	case "laplacian", "laplacianAxis":
		c.X = []int{rapid.IntRange(0, 3).Draw(t, "iters")}
		c.P[0] = rapid.SampledFrom([]float64{0, 0.25, 0.5, 1}).Draw(t, "factor")
	case "modify":
		c.X = []int{rapid.IntRange(0, 13).Draw(t, "pool")}
	case "transformerAll":
		for i := 0; i < 4; i++ {
			c.P[i] = float64(rapid.IntRange(-16, 16).Draw(t, "tp")) / 4
		}
	case "smoothWeld":
		c.P[0] = rapid.SampledFrom([]float64{0.01, 0.125, 0.3, 0.5, 2}).Draw(t, "weldDistance")
	case "nullfaces":
		c.P[0] = rapid.SampledFrom([]float64{0, 0.01, 0.5, 3}).Draw(t, "minArea")
	case "repeat":
		c.X = []int{rapid.IntRange(0, 3).Draw(t, "copies")}
	case "split":
		left := c.M.PrimCount()
		for left > 0 {
			n := rapid.IntRange(1, left).Draw(t, "range")
			c.X = append(c.X, n, rapid.IntRange(0, 2).Draw(t, "mat"))
			left -= n
		}
	case "setidxUnref":
		k := rapid.IntRange(0, 4).Draw(t, "prims") * map[modeling.Topology]int{modeling.TriangleTopology: 3, modeling.PointTopology: 1}[c.M.Topology()]
		for i := 0; i < k && c.M.N > 0; i++ {
			c.X = append(c.X, rapid.IntRange(0, c.M.N-1).Draw(t, "ix"))
		}
	}
	return c
}

func near(a, b vector3.Float64, tol float64) bool {
	if a.ContainsNaN() || b.ContainsNaN() {
		return a.ContainsNaN() == b.ContainsNaN()
	}
	if math.IsInf(a.Length(), 0) || math.IsInf(b.Length(), 0) {
		return true
	}
	return a.Distance(b) <= tol*(1+a.Length()+b.Length())
}

func matsString(m modeling.Mesh) string {
	s := ""
	for _, mm := range m.Materials() {
		s += fmt.Sprintf("(%d,%p)", mm.PrimitiveCount, mm.Material)
	}
	return s
}

// sameExcept: topology, indices, materials, attribute name lists and every attribute except
// `changed` are bit-identical.
func sameExcept(before, after modeling.Mesh, changed string, mayAdd bool) error {
	if before.Topology() != after.Topology() {
		return fmt.Errorf("topology changed")
	}
	if before.Indices().Len() != after.Indices().Len() {
		return fmt.Errorf("index count changed %d -> %d", before.Indices().Len(), after.Indices().Len())
	}
	for i := 0; i < before.Indices().Len(); i++ {
		if before.Indices().At(i) != after.Indices().At(i) {
			return fmt.Errorf("index %d changed", i)
		}
	}
	if matsString(before) != matsString(after) {
		return fmt.Errorf("materials changed: %s -> %s", matsString(before), matsString(after))
	}
	names := func(m modeling.Mesh) []string {
		var out []string
		for i, l := range [][]string{m.Float1Attributes(), m.Float2Attributes(), m.Float3Attributes(), m.Float4Attributes()} {
			for _, a := range l {
				if !(mayAdd && a == changed) {
					out = append(out, fmt.Sprintf("%d:%s", i+1, a))
				}
			}
		}
		return out
	}
	if fmt.Sprint(names(before)) != fmt.Sprint(names(after)) {
		return fmt.Errorf("attribute set changed: %v -> %v", names(before), names(after))
	}
	n, err := oracle.AttrLen(after)
	if err != nil {
		return err
	}
	if nb, _ := oracle.AttrLen(before); nb != n {
		return fmt.Errorf("vertex count changed %d -> %d", nb, n)
	}
	skip := map[string]bool{changed: true}
	for v := 0; v < n; v++ {
		if oracle.Corner(before, v, skip) != oracle.Corner(after, v, skip) {
			return fmt.Errorf("vertex %d: untouched attributes changed:\n before %s\n after  %s", v, oracle.Corner(before, v, skip), oracle.Corner(after, v, skip))
		}
	}
	return nil
}

func runCase(c Case, o *vh.Obs) *vh.Failure {
	if c.Scale != 0 && c.Scale != 1 {
		if !scaledOps[c.Op] || math.IsNaN(c.Scale) || math.Abs(c.Scale) < 1e-12 || math.Abs(c.Scale) > 1e12 {
			o.Class("out-of-domain")
			return nil
		}
		c.M = scaledDesc(c.M, c.Scale)
		if c.M2 != nil {
			m2 := scaledDesc(*c.M2, c.Scale)
			c.M2 = &m2
		}
		if math.Abs(c.Scale) < 1 {
			o.Class("scale/small")
		} else {
			o.Class("scale/large")
		}
	}
	m := c.M.Build()
	P := append(append([]float64{}, c.P...), make([]float64, 8)...)
	X := append(append([]int{}, c.X...), 0, 0)
	o.Class("op/" + c.Op)
	if c.M.PrimCount() > 0 && ((c.M.HasShared() && (c.M.HasUnreferenced() || hasDupRows(c.M))) || c.M.AttrCount() >= 3) {
		o.NonTrivial()
	}
	fail := func(sig, format string, a ...any) *vh.Failure {
		return vh.Failf(c.Op+"/"+sig, format, a...)
	}
	wf := func(r modeling.Mesh) *vh.Failure {
		if err := oracle.WF(r); err != nil {
			return fail("malformed", "result is not well-formed: %v", err)
		}
		return nil
	}
	a := vector3.New(P[0], P[1], P[2])
	q := quaternion.FromTheta(P[3], vector3.New(P[4], P[5], 1.5))
	var r modeling.Mesh
	var f *vh.Failure
	// an operation that reports failure (deliberate panic) on an in-domain input is also wrong here
	kind, val := oracle.Try(func() { f = runOp(c, m, P, X, a, q, o, fail, wf, &r) })
	if kind != "" {
		return fail("panic-"+kind, "operation panicked on an in-domain input: %v", val)
	}
	return f
}

func hasDupRows(d gen.MeshDesc) bool {
	rows := d.V3[modeling.PositionAttribute]
	seen := map[[3]gen.F]bool{}
	for _, r := range rows {
		if seen[r] {
			return true
		}
		seen[r] = true
	}
	return false
}

func runOp(c Case, m modeling.Mesh, P []float64, X []int, a vector3.Float64, q quaternion.Quaternion, o *vh.Obs,
	fail func(string, string, ...any) *vh.Failure, wf func(modeling.Mesh) *vh.Failure, out *modeling.Mesh) *vh.Failure {
	idx := m.Indices()
	N := c.M.N
	switch c.Op {
	case "unweld":
		r := meshops.Unweld(m)
		if f := wf(r); f != nil {
			return f
		}
		if err := oracle.EqCorners(oracle.Corners(m, nil), oracle.Corners(r, nil)); err != nil {
			return fail("corners", "%v", err)
		}
		for i := 0; i < r.Indices().Len(); i++ {
			if r.Indices().At(i) != i {
				return fail("not-identity", "index %d = %d after unweld", i, r.Indices().At(i))
			}
		}
		if n, _ := oracle.AttrLen(r); idx.Len() > 0 && n != r.Indices().Len() {
			return fail("attr-length", "attribute length %d for %d corners", n, r.Indices().Len())
		}
		if r.Topology() != m.Topology() || matsString(r) != matsString(m) {
			return fail("meta", "topology or materials changed")
		}
	case "unref", "setidxUnref":
		src := m
		if c.Op == "setidxUnref" {
			src = m.SetIndices(append([]int{}, c.X...))
			if err := sameExcept(m.SetIndices(append([]int{}, c.X...)), src, "", false); err != nil {
				return fail("setindices", "%v", err)
			}
			if src.Indices().Len() != len(c.X) {
				return fail("setindices-count", "SetIndices stored %d of %d", src.Indices().Len(), len(c.X))
			}
			idx = src.Indices()
		}
		r := meshops.RemovedUnreferencedVertices(src)
		if f := wf(r); f != nil {
			return f
		}
		if err := oracle.EqCorners(oracle.Corners(src, nil), oracle.Corners(r, nil)); err != nil {
			return fail("corners", "%v", err)
		}
		n, _ := oracle.AttrLen(r)
		used := make([]bool, n)
		for i := 0; i < r.Indices().Len(); i++ {
			used[r.Indices().At(i)] = true
		}
		for v, u := range used {
			if !u {
				return fail("still-unreferenced", "vertex %d of the result is unreferenced", v)
			}
		}
		usedSrc := map[int]bool{}
		for i := 0; i < idx.Len(); i++ {
			usedSrc[idx.At(i)] = true
		}
		if n != len(usedSrc) {
			return fail("vertex-count", "result has %d vertices, %d were referenced", n, len(usedSrc))
		}
		if r.HasFloat1Attribute("vid") {
			last := -1.0
			for v := 0; v < n; v++ {
				x := r.Float1Attribute("vid").At(v)
				if x <= last {
					return fail("vertex-order", "vertex order not preserved")
				}
				last = x
			}
		}
		if r.Topology() != m.Topology() || matsString(r) != matsString(m) {
			return fail("meta", "topology or materials changed")
		}
	case "flip", "flip2":
		r := meshops.FlipTriangleWinding(m)
		if f := wf(r); f != nil {
			return f
		}
		if err := sameExcept(m.SetIndices(indicesOf(r)), r, "", false); err != nil {
			return fail("side-effect", "%v", err)
		}
		c0, c1 := oracle.Corners(m, nil), oracle.Corners(r, nil)
		if len(c0) != len(c1) {
			return fail("count", "corner count changed")
		}
		for i := 0; i+2 < len(c0); i += 3 {
			// reversed orientation: the cyclic order of the three corners is reversed
			rev := c1[i] == c0[i+1] && c1[i+1] == c0[i] && c1[i+2] == c0[i+2]
			if !rev {
				return fail("wrong-corners", "triangle %d: corners after flip are not (b,a,c)", i/3)
			}
		}
		if c.Op == "flip2" {
			if err := oracle.EqCorners(c0, oracle.Corners(meshops.FlipTriangleWinding(r), nil)); err != nil {
				return fail("not-involution", "%v", err)
			}
		}
	case "weld", "weldAfterUnweld":
		src := m
		if c.Op == "weldAfterUnweld" {
			src = meshops.Unweld(src)
			if src.Indices().Len() == 0 {
				return nil
			}
		}
		dec := X[0]
		r := src.WeldByFloat3Attribute(modeling.PositionAttribute, dec)
		if f := wf(r); f != nil {
			return f
		}
		key := func(v vector3.Float64) modeling.VectorInt { return modeling.Vector3ToInt(v, dec) }
		pos := src.Float3Attribute(modeling.PositionAttribute)
		first := map[modeling.VectorInt]int{}
		for v := 0; v < pos.Len(); v++ {
			if _, ok := first[key(pos.At(v))]; !ok {
				first[key(pos.At(v))] = v
			}
		}
		var want []string
		sidx := src.Indices()
		dropped := 0
		for i := 0; i+2 < sidx.Len(); i += 3 {
			ka, kb, kc := key(pos.At(sidx.At(i))), key(pos.At(sidx.At(i+1))), key(pos.At(sidx.At(i+2)))
			if ka == kb || kb == kc || ka == kc {
				dropped++
				continue
			}
			want = append(want, oracle.Corner(src, first[ka], nil), oracle.Corner(src, first[kb], nil), oracle.Corner(src, first[kc], nil))
		}
		if dropped > 0 && len(want) > 0 {
			o.Class("weld/dropped-and-survived")
		}
		if err := oracle.EqCorners(want, oracle.Corners(r, nil)); err != nil {
			return fail("corners", "decimals=%d: %v", dec, err)
		}
		// welded: no two result vertices share a rounding cell, none unreferenced
		rp := r.Float3Attribute(modeling.PositionAttribute)
		if len(want) > 0 {
			seen := map[modeling.VectorInt]bool{}
			for v := 0; v < rp.Len(); v++ {
				if seen[key(rp.At(v))] {
					return fail("not-welded", "two result vertices share rounding cell %v", key(rp.At(v)))
				}
				seen[key(rp.At(v))] = true
			}
		}
	case "nullfaces":
		minArea := P[0]
		r := meshops.RemoveNullFaces3D(m, modeling.PositionAttribute, minArea)
		if f := wf(r); f != nil {
			return f
		}
		pos := m.Float3Attribute(modeling.PositionAttribute)
		var want []string
		all := oracle.Corners(m, nil)
		dropped := 0
		for i := 0; i+2 < idx.Len(); i += 3 {
			pa, pb, pc := pos.At(idx.At(i)), pos.At(idx.At(i+1)), pos.At(idx.At(i+2))
			area := pb.Sub(pa).Cross(pc.Sub(pa)).Length() / 2
			if math.Abs(area-minArea) < 1e-9*(1+area) && area != 0 {
				o.Count("band-skipped", 1)
				return nil
			}
			if area > minArea {
				want = append(want, all[i], all[i+1], all[i+2])
			} else {
				dropped++
			}
		}
		if dropped > 0 && len(want) > 0 {
			o.Class("nullfaces/dropped-and-survived")
		}
		if err := oracle.EqCorners(want, oracle.Corners(r, nil)); err != nil {
			return fail("corners", "minArea=%v: %v", minArea, err)
		}
	case "append":
		b := c.M2.Build()
		r := m.Append(b)
		if f := wf(r); f != nil {
			return f
		}
		ca, cb := idx.Len(), b.Indices().Len()
		if r.Indices().Len() != ca+cb {
			return fail("index-count", "%d+%d indices gave %d", ca, cb, r.Indices().Len())
		}
		if r.Topology() != m.Topology() {
			return fail("topology", "topology changed")
		}
		if want := matsString(m) + matsString(b); matsString(r) != want {
			return fail("materials", "materials %s, want %s", matsString(r), want)
		}
		// per corner: every attribute of the source side exactly, zero for attributes the side lacks
		for i := 0; i < ca+cb; i++ {
			src, sv := m, 0
			if i < ca {
				sv = idx.At(i)
			} else {
				src, sv = b, b.Indices().At(i-ca)
			}
			rv := r.Indices().At(i)
			if err := cornerSubsetEq(src, sv, r, rv); err != nil {
				return fail("corner", "corner %d: %v", i, err)
			}
		}
		// no attribute with data may vanish
		for _, s := range []modeling.Mesh{m, b} {
			if n, _ := oracle.AttrLen(s); n == 0 {
				continue
			}
			for _, name := range allNames(s) {
				if !r.HasVertexAttribute(name) {
					return fail("attribute-dropped", "attribute %s vanished", name)
				}
			}
		}
	case "appendTwice":
		// two results appended to ONE base whose arrays were grown by the library itself (weld output keeps
		// spare capacity): the first result must still say "base then b" after the second one was built
		base := m.WeldByFloat3Attribute(modeling.PositionAttribute, 3)
		b := c.M2.Build()
		r1 := base.Append(b)
		want := append(oracle.Corners(base, nil), oracle.Corners(b, nil)...)
		_ = want
		// the right-hand side lacks / adds attributes: compare through the subset rule corner by corner
		check := func(when string) *vh.Failure {
			nb := base.Indices().Len()
			if r1.Indices().Len() != nb+b.Indices().Len() {
				return fail("index-count", "%s: %d indices", when, r1.Indices().Len())
			}
			for i := 0; i < r1.Indices().Len(); i++ {
				src, sv := base, 0
				if i < nb {
					sv = base.Indices().At(i)
				} else {
					src, sv = b, b.Indices().At(i-nb)
				}
				if err := cornerSubsetEq(src, sv, r1, r1.Indices().At(i)); err != nil {
					return fail("first-result-changed", "%s: corner %d of the FIRST append result: %v", when, i, err)
				}
			}
			return nil
		}
		if f := check("right after the first append"); f != nil {
			return f
		}
		b2 := meshops.FlipTriangleWinding(b).Translate(vector3.New(1., 2, 3))
		r2 := base.Append(b2).Append(b)
		if f := wf(r2); f != nil {
			return f
		}
		if f := check("after a second mesh was appended to the same base"); f != nil {
			return f
		}
	case "repeat":
		k := X[0]
		var ts []trs.TRS
		for i := 0; i < k; i++ {
			ts = append(ts, trs.New(vector3.New(P[i], P[i+1], P[i+2]), quaternion.FromTheta(P[i+3], vector3.New(1., 2, 3)), vector3.New(1+math.Abs(P[i+4]), 1, 2)))
		}
		r := repeat.Mesh(m, ts)
		if f := wf(r); f != nil {
			return f
		}
		ci := idx.Len()
		if r.Indices().Len() != ci*k {
			return fail("index-count", "%d copies of %d indices gave %d", k, ci, r.Indices().Len())
		}
		skip := map[string]bool{modeling.PositionAttribute: true}
		base := oracle.Corners(m, skip)
		if ci > 0 {
			got := oracle.Corners(r, skip)
			for cpy := 0; cpy < k; cpy++ {
				if err := oracle.EqCorners(base, got[cpy*ci:(cpy+1)*ci]); err != nil {
					return fail("corners", "copy %d: %v", cpy, err)
				}
				for i := 0; i < ci; i++ {
					p := m.Float3Attribute(modeling.PositionAttribute).At(idx.At(i))
					s := ts[cpy].Scale()
					want := ts[cpy].Rotation().Rotate(vector3.New(p.X()*s.X(), p.Y()*s.Y(), p.Z()*s.Z())).Add(ts[cpy].Position())
					gotP := r.Float3Attribute(modeling.PositionAttribute).At(r.Indices().At(cpy*ci + i))
					if !near(want, gotP, 1e-12) {
						return fail("position", "copy %d corner %d at %v, want %v", cpy, i, gotP, want)
					}
				}
			}
		}
	case "pointcloud":
		r := m.ToPointCloud()
		if f := wf(r); f != nil {
			return f
		}
		if m.Topology() == modeling.PointTopology {
			if oracle.Snapshot(r) != oracle.Snapshot(m) {
				return fail("changed-cloud", "ToPointCloud changed a point cloud")
			}
			return nil
		}
		if r.Topology() != modeling.PointTopology || r.Indices().Len() != N {
			return fail("count", "%d points for %d vertices", r.Indices().Len(), N)
		}
		for v := 0; v < N; v++ {
			if r.Indices().At(v) != v || oracle.Corner(r, v, nil) != oracle.Corner(m, v, nil) {
				return fail("point", "point %d is not vertex %d", v, v)
			}
		}
	case "filter1", "filter2", "filter3", "filter4", "crop":
		th := P[0]
		var r modeling.Mesh
		var keep func(v int) bool
		pos := m.Float3Attribute(modeling.PositionAttribute)
		switch c.Op {
		case "filter1":
			r = meshops.FilterFloat1(m, "vid", func(v float64) bool { return v >= th })
			keep = func(v int) bool { return float64(v) >= th }
		case "filter2":
			if !m.HasFloat2Attribute(modeling.TexCoordAttribute) {
				return nil
			}
			uv := m.Float2Attribute(modeling.TexCoordAttribute)
			r = meshops.FilterFloat2(m, modeling.TexCoordAttribute, func(v vector2.Float64) bool { return v.X() < th })
			keep = func(v int) bool { return uv.At(v).X() < th }
		case "filter3":
			r = meshops.FilterFloat3(m, modeling.PositionAttribute, func(v vector3.Float64) bool { return v.X() < th })
			keep = func(v int) bool { return pos.At(v).X() < th }
		case "filter4":
			if !m.HasFloat4Attribute(modeling.RotationAttribute) {
				return nil
			}
			rot := m.Float4Attribute(modeling.RotationAttribute)
			r = meshops.FilterFloat4(m, modeling.RotationAttribute, func(v vector4.Float64) bool { return v.W() < th })
			keep = func(v int) bool { return rot.At(v).W() < th }
		default:
			box := geometry.NewAABB(vector3.New(th, 0, 0), vector3.New(6., 6, 6))
			r = meshops.CropFloat3Attribute(m, modeling.PositionAttribute, box)
			mn, mx := box.Min(), box.Max()
			keep = func(v int) bool {
				p := pos.At(v)
				return p.X() >= mn.X() && p.X() <= mx.X() && p.Y() >= mn.Y() && p.Y() <= mx.Y() && p.Z() >= mn.Z() && p.Z() <= mx.Z()
			}
		}
		if f := wf(r); f != nil {
			return f
		}
		var want []string
		dropped := 0
		if c.Op == "crop" {
			for v := 0; v < N; v++ {
				if keep(v) {
					want = append(want, oracle.Corner(m, v, nil))
				} else {
					dropped++
				}
			}
		} else {
			for i := 0; i < idx.Len(); i++ {
				if keep(idx.At(i)) {
					want = append(want, oracle.Corner(m, idx.At(i), nil))
				} else {
					dropped++
				}
			}
		}
		if dropped > 0 && len(want) > 0 {
			o.Class("filter/dropped-and-survived")
		}
		if r.Topology() != modeling.PointTopology {
			return fail("topology", "result is not a point cloud")
		}
		if err := oracle.EqCorners(want, oracle.Corners(r, nil)); err != nil {
			return fail("corners", "threshold %v: %v", th, err)
		}
	case "translate", "scale", "rotate", "trs", "scaleAttr", "translateAttr", "rotateAttr", "center", "normalize", "scaleAlongNormal":
		attr := modeling.PositionAttribute
		if c.Op == "translateAttr" || c.Op == "rotateAttr" {
			// a non-position attribute: catches implementations that consult the wrong attribute
			for _, cand := range []string{"Custom3", modeling.NormalAttribute, modeling.ColorAttribute} {
				if m.HasFloat3Attribute(cand) {
					attr = cand
					break
				}
			}
		}
		pos := m.Float3Attribute(attr)
		var r modeling.Mesh
		var f func(i int, v vector3.Float64) vector3.Float64
		tol := 1e-12
		switch c.Op {
		case "translate":
			r = m.Translate(a)
			f = func(_ int, v vector3.Float64) vector3.Float64 { return v.Add(a) }
		case "translateAttr":
			r = meshops.TranslateAttribute3D(m, attr, a)
			f = func(_ int, v vector3.Float64) vector3.Float64 { return v.Add(a) }
		case "scale":
			r = m.Scale(a)
			f = func(_ int, v vector3.Float64) vector3.Float64 {
				return vector3.New(v.X()*a.X(), v.Y()*a.Y(), v.Z()*a.Z())
			}
		case "rotate":
			r = m.Rotate(q)
			f = func(_ int, v vector3.Float64) vector3.Float64 { return rotRef(q, v) }
			tol = 1e-9
		case "rotateAttr":
			r = meshops.RotateAttribute3D(m, attr, q)
			f = func(_ int, v vector3.Float64) vector3.Float64 { return rotRef(q, v) }
			tol = 1e-9
		case "trs":
			tr := trs.New(a, q, vector3.New(2., 3, 0.5))
			r = m.ApplyTRS(tr)
			f = func(_ int, v vector3.Float64) vector3.Float64 {
				return rotRef(q, vector3.New(v.X()*2, v.Y()*3, v.Z()*0.5)).Add(a)
			}
			tol = 1e-9
		case "scaleAttr":
			og := vector3.New(P[6], P[7], 0.5)
			r = meshops.ScaleAttribute3D(m, attr, og, a)
			f = func(_ int, v vector3.Float64) vector3.Float64 {
				d := v.Sub(og)
				return og.Add(vector3.New(d.X()*a.X(), d.Y()*a.Y(), d.Z()*a.Z()))
			}
		case "scaleAlongNormal":
			if !m.HasFloat3Attribute(modeling.NormalAttribute) {
				return nil
			}
			nrm := m.Float3Attribute(modeling.NormalAttribute)
			r = meshops.ScaleAttributeAlongNormal(m, attr, modeling.NormalAttribute, P[0])
			f = func(i int, v vector3.Float64) vector3.Float64 { return v.Add(nrm.At(i).Scale(P[0])) }
		case "center":
			r = meshops.CenterFloat3Attribute(m, attr)
			mn := vector3.New(math.Inf(1), math.Inf(1), math.Inf(1))
			mx := vector3.New(math.Inf(-1), math.Inf(-1), math.Inf(-1))
			for v := 0; v < pos.Len(); v++ {
				mn, mx = vector3.Min(mn, pos.At(v)), vector3.Max(mx, pos.At(v))
			}
			ctr := mn.Add(mx).Scale(0.5)
			f = func(_ int, v vector3.Float64) vector3.Float64 { return v.Sub(ctr) }
		default:
			r = meshops.NormalizeAttribute3D(m, attr)
			l := 0.0
			for v := 0; v < pos.Len(); v++ {
				l = math.Max(l, pos.At(v).Length())
			}
			f = func(_ int, v vector3.Float64) vector3.Float64 { return v.Scale(1 / l) }
		}
		if fl := wf(r); fl != nil {
			return fl
		}
		if err := sameExcept(m, r, attr, false); err != nil {
			return fail("side-effect", "%v", err)
		}
		rp := r.Float3Attribute(attr)
		for v := 0; v < pos.Len(); v++ {
			if !near(f(v, pos.At(v)), rp.At(v), tol) {
				return fail("wrong-map", "attribute %s vertex %d: got %v want %v", attr, v, rp.At(v), f(v, pos.At(v)))
			}
		}
	case "scaleAttr2D", "normalize2D":
		if !m.HasFloat2Attribute(modeling.TexCoordAttribute) {
			return nil
		}
		uv := m.Float2Attribute(modeling.TexCoordAttribute)
		var r modeling.Mesh
		var f func(v vector2.Float64) vector2.Float64
		if c.Op == "scaleAttr2D" {
			og, am := vector2.New(P[0], P[1]), vector2.New(P[2], P[3])
			r = meshops.ScaleAttribute2D(m, modeling.TexCoordAttribute, og, am)
			f = func(v vector2.Float64) vector2.Float64 {
				d := v.Sub(og)
				return og.Add(vector2.New(d.X()*am.X(), d.Y()*am.Y()))
			}
		} else {
			r = meshops.NormalizeAttribute2D(m, modeling.TexCoordAttribute)
			l := 0.0
			for v := 0; v < uv.Len(); v++ {
				l = math.Max(l, uv.At(v).Length())
			}
			f = func(v vector2.Float64) vector2.Float64 { return v.Scale(1 / l) }
		}
		if err := sameExcept(m, r, modeling.TexCoordAttribute, false); err != nil {
			return fail("side-effect", "%v", err)
		}
		ru := r.Float2Attribute(modeling.TexCoordAttribute)
		for v := 0; v < uv.Len(); v++ {
			w, g := f(uv.At(v)), ru.At(v)
			if math.IsNaN(w.X()) || math.IsNaN(w.Y()) {
				continue
			}
			if w.Distance(g) > 1e-12*(1+w.Length()+g.Length()) {
				return fail("wrong-map", "uv %d: got %v want %v", v, g, w)
			}
		}
	case "transformers":
		// the Transformer wrappers apply the same maps and report failure through error
		r, err := meshops.TranslateAttribute3DTransformer{Attribute: modeling.PositionAttribute, Amount: a}.Transform(m)
		if err != nil {
			return fail("transformer-error", "%v", err)
		}
		if oracle.Snapshot(r) != oracle.Snapshot(meshops.TranslateAttribute3D(m, modeling.PositionAttribute, a)) {
			return fail("transformer-differs", "TranslateAttribute3DTransformer differs from TranslateAttribute3D")
		}
		if _, err := (meshops.TranslateAttribute3DTransformer{Attribute: "missing-attribute", Amount: a}).Transform(m); err == nil {
			return fail("transformer-missing-attr", "transformer on a missing attribute reported no error")
		}
		r2 := m.Transform(meshops.ScaleAttribute3DTransformer{Attribute: modeling.PositionAttribute, Amount: a}, meshops.UnweldTransformer{})
		if oracle.Snapshot(r2) != oracle.Snapshot(meshops.Unweld(meshops.ScaleAttribute3D(m, modeling.PositionAttribute, vector3.Zero[float64](), a))) {
			return fail("transform-chain", "Mesh.Transform chain differs from direct composition")
		}
	case "transformerAll":
		return runTransformers(m, P, o, fail)
	case "modify":
		return runModify(m, P, X, fail)
	case "smoothWeld":
		return runSmoothWeld(m, math.Abs(P[0]), o, fail)
	case "smooth", "flat", "laplacian", "laplacianAxis":
		pos := m.Float3Attribute(modeling.PositionAttribute)
		n := pos.Len()
		ext := 0.0 // largest coordinate: "no area" is judged relative to the model's size
		for v := 0; v < n; v++ {
			ext = math.Max(ext, pos.At(v).MaxComponent())
			ext = math.Max(ext, -pos.At(v).MinComponent())
		}
		tiny := 1e-9 * ext * ext
		switch c.Op {
		case "smooth":
			r := meshops.SmoothNormals(m)
			if err := sameExcept(m, r, modeling.NormalAttribute, true); err != nil {
				return fail("side-effect", "%v", err)
			}
			sum := make([]vector3.Float64, n)
			for i := 0; i+2 < idx.Len(); i += 3 {
				ia, ib, ic := idx.At(i), idx.At(i+1), idx.At(i+2)
				fn := pos.At(ib).Sub(pos.At(ia)).Cross(pos.At(ic).Sub(pos.At(ia))) // area-weighted face normal
				sum[ia], sum[ib], sum[ic] = sum[ia].Add(fn), sum[ib].Add(fn), sum[ic].Add(fn)
			}
			rn := r.Float3Attribute(modeling.NormalAttribute)
			if rn.Len() != n {
				return fail("normal-count", "%d normals for %d vertices", rn.Len(), n)
			}
			for v := 0; v < n; v++ {
				if sum[v].ContainsNaN() || sum[v].Length() == 0 || sum[v].Length() < tiny {
					continue
				}
				if !near(sum[v].Normalized(), rn.At(v), 1e-9) {
					return fail("wrong-normal", "vertex %d: got %v want %v", v, rn.At(v), sum[v].Normalized())
				}
			}
		case "flat":
			r := meshops.FlatNormals(m)
			if err := sameExcept(m, r, modeling.NormalAttribute, true); err != nil {
				return fail("side-effect", "%v", err)
			}
			rn := r.Float3Attribute(modeling.NormalAttribute)
			if rn.Len() != n {
				return fail("normal-count", "%d normals for %d vertices", rn.Len(), n)
			}
			// each referenced vertex carries the normal of one of its faces ("arbitrarily chosen")
			faces := make([][]vector3.Float64, n)
			undefined := make([]bool, n)
			for i := 0; i+2 < idx.Len(); i += 3 {
				fn := pos.At(idx.At(i + 1)).Sub(pos.At(idx.At(i))).Cross(pos.At(idx.At(i + 2)).Sub(pos.At(idx.At(i))))
				for _, v := range []int{idx.At(i), idx.At(i + 1), idx.At(i + 2)} {
					if fn.Length() == 0 || fn.Length() < tiny {
						undefined[v] = true
					} else {
						faces[v] = append(faces[v], fn.Normalized())
					}
				}
			}
			for v := 0; v < n; v++ {
				if undefined[v] || len(faces[v]) == 0 {
					continue
				}
				ok := false
				for _, fn := range faces[v] {
					if near(fn, rn.At(v), 1e-9) {
						ok = true
					}
				}
				if !ok {
					return fail("wrong-normal", "vertex %d normal %v is none of its faces' normals %v", v, rn.At(v), faces[v])
				}
			}
		default:
			iters, fac := X[0], P[0]
			axisW := vector3.One[float64]()
			r := modeling.Mesh{}
			if c.Op == "laplacianAxis" {
				axis := vector3.New(P[1], P[2], P[3])
				if !(axis.Length() > 1e-9) || axis.ContainsNaN() || math.IsInf(axis.Length(), 0) {
					axis = vector3.New(0., 1, 0)
				}
				axisW = axis.Normalized().Abs()
				r = meshops.LaplacianSmoothAlongAxis(m, modeling.PositionAttribute, iters, fac, axis)
			} else {
				r = meshops.LaplacianSmooth(m, modeling.PositionAttribute, iters, fac)
			}
			if err := sameExcept(m, r, modeling.PositionAttribute, false); err != nil {
				return fail("side-effect", "%v", err)
			}
			nb := make([]map[int]bool, n)
			for i := range nb {
				nb[i] = map[int]bool{}
			}
			for i := 0; i+2 < idx.Len(); i += 3 {
				ia, ib, ic := idx.At(i), idx.At(i+1), idx.At(i+2)
				nb[ia][ib], nb[ib][ia], nb[ib][ic], nb[ic][ib], nb[ia][ic], nb[ic][ia] = true, true, true, true, true, true
			}
			cur := make([]vector3.Float64, n)
			for v := range cur {
				cur[v] = pos.At(v)
			}
			isolated := make([]bool, n)
			for it := 0; it < iters; it++ {
				for v := 0; v < n; v++ {
					if len(nb[v]) == 0 {
						isolated[v] = true
						continue
					}
					ks := []int{}
					for k := range nb[v] {
						ks = append(ks, k)
					}
					sort.Ints(ks)
					var s vector3.Float64
					for _, k := range ks {
						s = s.Add(cur[k])
					}
					cur[v] = cur[v].Add(s.Scale(1 / float64(len(ks))).Sub(cur[v]).Scale(fac).MultByVector(axisW))
				}
			}
			rp := r.Float3Attribute(modeling.PositionAttribute)
			for v := 0; v < n; v++ {
				if isolated[v] || cur[v].ContainsNaN() || (len(nb[v]) == 1 && nb[v][v]) {
					continue
				}
				if !near(cur[v], rp.At(v), 1e-9) {
					return fail("wrong-position", "vertex %d: got %v want %v (iterations %d factor %v)", v, rp.At(v), cur[v], iters, fac)
				}
			}
		}
	case "split":
		k := c.M.PrimCount()
		if k < 2 {
			return nil
		}
		var ranges []modeling.MeshMaterial
		for i := 0; i+1 < len(c.X); i += 2 {
			ranges = append(ranges, modeling.MeshMaterial{PrimitiveCount: c.X[i], Material: gen.MaterialPool[c.X[i+1]%3]})
		}
		mm := m.SetMaterials(ranges)
		if err := sameExcept(m.SetMaterials(ranges), mm, "", false); err != nil {
			return fail("setmaterials", "%v", err)
		}
		parts := meshops.SplitOnUniqueMaterials(mm)
		all := oracle.Corners(mm, nil)
		want := map[string][]string{}
		var order []string
		ti := 0
		for _, rg := range ranges {
			if _, ok := want[rg.Material.Name]; !ok {
				order = append(order, rg.Material.Name)
			}
			for n := 0; n < rg.PrimitiveCount; n++ {
				want[rg.Material.Name] = append(want[rg.Material.Name], all[ti*3], all[ti*3+1], all[ti*3+2])
				ti++
			}
		}
		if len(ranges) < 2 {
			if len(parts) != 1 || oracle.Snapshot(parts[0]) != oracle.Snapshot(mm) {
				return fail("single-range", "split of a single range gave %d parts or changed the mesh", len(parts))
			}
			return nil
		}
		if len(order) >= 2 {
			o.Class("split/multi-material")
		}
		if len(parts) != len(order) {
			return fail("part-count", "%d parts for %d distinct materials", len(parts), len(order))
		}
		for i, p := range parts {
			if f := wf(p); f != nil {
				return f
			}
			if len(p.Materials()) != 1 || p.Materials()[0].Material == nil || p.Materials()[0].Material.Name != order[i] || p.Materials()[0].PrimitiveCount != len(want[order[i]])/3 {
				return fail("part-material", "part %d material %+v, want %s x %d", i, p.Materials(), order[i], len(want[order[i]])/3)
			}
			if err := oracle.EqCorners(want[order[i]], oracle.Corners(p, nil)); err != nil {
				return fail("corners", "part %d (%s): %v", i, order[i], err)
			}
		}
	}
	return nil
}

func rotRef(q quaternion.Quaternion, v vector3.Float64) vector3.Float64 {
	// rotation matrix of a unit quaternion, written out independently of Quaternion.Rotate
	x, y, z, w := q.Dir().X(), q.Dir().Y(), q.Dir().Z(), q.W()
	return vector3.New(
		(1-2*(y*y+z*z))*v.X()+2*(x*y-z*w)*v.Y()+2*(x*z+y*w)*v.Z(),
		2*(x*y+z*w)*v.X()+(1-2*(x*x+z*z))*v.Y()+2*(y*z-x*w)*v.Z(),
		2*(x*z-y*w)*v.X()+2*(y*z+x*w)*v.Y()+(1-2*(x*x+y*y))*v.Z(),
	)
}

func indicesOf(m modeling.Mesh) []int {
	out := make([]int, m.Indices().Len())
	for i := range out {
		out[i] = m.Indices().At(i)
	}
	return out
}

func allNames(m modeling.Mesh) []string {
	var out []string
	out = append(out, m.Float1Attributes()...)
	out = append(out, m.Float2Attributes()...)
	out = append(out, m.Float3Attributes()...)
	out = append(out, m.Float4Attributes()...)
	return out
}

// cornerSubsetEq: vertex rv of r carries every attribute of vertex sv of src exactly, and zero
// for every attribute src does not have.
func cornerSubsetEq(src modeling.Mesh, sv int, r modeling.Mesh, rv int) error {
	zero := oracle.Bits(0)
	for _, a := range r.Float1Attributes() {
		want := zero
		if src.HasFloat1Attribute(a) {
			want = oracle.Bits(src.Float1Attribute(a).At(sv))
		}
		if got := oracle.Bits(r.Float1Attribute(a).At(rv)); got != want {
			return fmt.Errorf("attribute %s: got %s want %s", a, got, want)
		}
	}
	for _, a := range r.Float2Attributes() {
		want := zero + zero
		if src.HasFloat2Attribute(a) {
			x := src.Float2Attribute(a).At(sv)
			want = oracle.Bits(x.X()) + oracle.Bits(x.Y())
		}
		x := r.Float2Attribute(a).At(rv)
		if got := oracle.Bits(x.X()) + oracle.Bits(x.Y()); got != want {
			return fmt.Errorf("attribute %s: got %s want %s", a, got, want)
		}
	}
	for _, a := range r.Float3Attributes() {
		want := zero + zero + zero
		if src.HasFloat3Attribute(a) {
			x := src.Float3Attribute(a).At(sv)
			want = oracle.Bits(x.X()) + oracle.Bits(x.Y()) + oracle.Bits(x.Z())
		}
		x := r.Float3Attribute(a).At(rv)
		if got := oracle.Bits(x.X()) + oracle.Bits(x.Y()) + oracle.Bits(x.Z()); got != want {
			return fmt.Errorf("attribute %s: got %s want %s", a, got, want)
		}
	}
	for _, a := range r.Float4Attributes() {
		want := zero + zero + zero + zero
		if src.HasFloat4Attribute(a) {
			x := src.Float4Attribute(a).At(sv)
			want = oracle.Bits(x.X()) + oracle.Bits(x.Y()) + oracle.Bits(x.Z()) + oracle.Bits(x.W())
		}
		x := r.Float4Attribute(a).At(rv)
		if got := oracle.Bits(x.X()) + oracle.Bits(x.Y()) + oracle.Bits(x.Z()) + oracle.Bits(x.W()); got != want {
			return fmt.Errorf("attribute %s: got %s want %s", a, got, want)
		}
	}
	return nil
}

// ---------------------------------------------------------------- large meshes (beyond 16-bit counts)

// LargeCase is a recipe (not the arrays themselves) for a mesh with more than 65 536 vertices, most of
// them unreferenced or referenced only at the far end, so that counters, shift tables and fast paths
// that behave differently beyond 16 bits are exercised by the same references.
type LargeCase struct {
	Op   string
	N    int // vertex count
	Topo int
	P    []float64
	X    []int
}

var largeOps = []string{"unref", "unweld", "flip", "weld", "nullfaces", "append", "repeat", "pointcloud", "filter1", "filter3", "crop",
	"translate", "scale", "rotate", "trs", "scaleAttr", "translateAttr", "rotateAttr", "center", "normalize", "smooth", "flat", "laplacian", "split", "scaleAlongNormal"}

func genLargeCase(t *rapid.T) LargeCase {
	c := LargeCase{Op: rapid.SampledFrom(largeOps).Draw(t, "op"), N: 65536 + rapid.IntRange(1, 3000).Draw(t, "over")}
	switch c.Op {
	case "filter1", "filter3", "crop":
		c.Topo = int(modeling.PointTopology)
	case "unref", "unweld", "pointcloud", "translate", "scale", "rotate", "trs", "scaleAttr", "translateAttr", "rotateAttr", "center", "normalize", "append":
		c.Topo = int(rapid.SampledFrom([]modeling.Topology{modeling.TriangleTopology, modeling.PointTopology}).Draw(t, "topo"))
	}
	for i := 0; i < 8; i++ {
		c.P = append(c.P, float64(rapid.IntRange(-16, 16).Draw(t, "p"))/8)
	}
	switch c.Op {
	case "weld":
		c.X = []int{rapid.IntRange(2, 4).Draw(t, "decimals")}
	case "laplacian":
		c.X = []int{1}
		c.P[0] = 0.5
	case "nullfaces":
		c.P[0] = 0.01
	case "repeat":
		c.X = []int{2}
	case "filter1":
		c.P[0] = float64(c.N - rapid.IntRange(1, 6).Draw(t, "keepLast")) // keep only the last few vertices: > 65 535 dropped before them
	case "filter3", "crop":
		c.P[0] = float64(rapid.IntRange(-2, 2).Draw(t, "th"))
	}
	return c
}

func (c LargeCase) desc() gen.MeshDesc {
	n := c.N
	d := gen.MeshDesc{Topo: c.Topo, N: n, V1: map[string][]gen.F{"vid": make([]gen.F, n)}, V3: map[string][][3]gen.F{modeling.PositionAttribute: make([][3]gen.F, n), modeling.NormalAttribute: make([][3]gen.F, n)}}
	for i := 0; i < n; i++ {
		d.V1["vid"][i] = gen.F(i)
		d.V3[modeling.PositionAttribute][i] = [3]gen.F{gen.F(i%251) / 8, gen.F((i/251)%251) / 8, gen.F(i/63001)/8 + gen.F(i%7)/64}
		d.V3[modeling.NormalAttribute][i] = [3]gen.F{gen.F(i%5) - 2, gen.F(i%3) - 1, 1}
	}
	// referenced: a few vertices at the start, a few in the middle, a few at the very end; everything else unreferenced
	ref := []int{0, 1, 2, 2, 1, 3, n/2 + 1, n / 2, n/2 + 5, n - 3, n - 2, n - 1, 0, n - 1, n / 2, n - 1, n - 4, 5}
	if modeling.Topology(c.Topo) == modeling.PointTopology {
		ref = []int{n - 1, 0, n / 2, 3, n - 2, n - 1}
	}
	d.Idx = ref
	return d
}

func runLargeCase(c LargeCase, o *vh.Obs) *vh.Failure {
	if c.N <= 65536 || c.N > 80000 {
		return nil
	}
	cc := Case{Op: c.Op, M: c.desc(), P: c.P, X: c.X}
	switch c.Op {
	case "append":
		small := gen.MeshDesc{Topo: c.Topo, N: 3, Idx: []int{0, 1, 2}, V3: map[string][][3]gen.F{modeling.PositionAttribute: {{0, 0, 0}, {1, 0, 0}, {0, 1, 0}}}}
		cc.M2 = &small
	case "split":
		k := cc.M.PrimCount()
		cc.X = []int{2, 0, k - 3, 1, 1, 0}
	}
	f := runCase(cc, o)
	o.Class("large/" + c.Op)
	o.NonTrivial()
	return f
}

func TestC03(t *testing.T) {
	vh.Drive(t, vh.Spec[Case]{Name: "ops", Quick: 320000, Thorough: 3000000, Gen: genCase, Run: runCase})
	vh.Drive(t, vh.Spec[vh.Conc[Case]]{Name: "concurrent-callers", Quick: 4000, Thorough: 120000, Gen: vh.GenConc(genCase), Run: vh.RunConc(runCase), Repeat: 20})
	vh.Drive(t, vh.Spec[LargeCase]{Name: "large-meshes", Quick: 400, Thorough: 12000, Gen: genLargeCase, Run: runLargeCase})
}
