//go:build verif

// Package c13 decides property C13 (concurrent parameter updates, parameter reads and artifact
// generation are linearizable, race-free and crash-free). Each case is one recorded concurrent
// history of real goroutines against generator.App's graph instance, judged by porcupine against
// a sequential model; the binary is race-instrumented.
package c13

import (
	"archive/zip"
	"bytes"
	"encoding/json"
	"flag"
	"fmt"
	"io"
	"log"
	"math"
	"net/http"
	"net/http/httptest"
	"os"
	"path/filepath"
	"runtime"
	"sort"
	"strconv"
	"strings"
	"sync"
	"sync/atomic"
	"testing"
	"time"

	"github.com/EliCDavis/polyform/generator"
	"github.com/EliCDavis/polyform/generator/graph"
	"github.com/EliCDavis/polyform/generator/parameter"
	"github.com/EliCDavis/polyform/nodes"
	"github.com/EliCDavis/polyform/refutil"
	"github.com/EliCDavis/vector/vector3"
	"github.com/anishathalye/porcupine"
	"pgregory.net/rapid"

	"github.com/EliCDavis/polyform/generator/artifact/basics"

	"verifharness/internal/vh"
)

// CatData concatenates two inputs and yields between the two reads to widen race windows.
type CatData struct {
	A nodes.NodeOutput[string]
	B nodes.NodeOutput[string]
}

func (c CatData) Process() (string, error) {
	a := ""
	if c.A != nil {
		a = c.A.Value()
	}
	runtime.Gosched()
	b := ""
	if c.B != nil {
		b = c.B.Value()
	}
	return a + "|" + b, nil
}

type CatNode = nodes.Struct[string, CatData]

func TestMain(m *testing.M) {
	log.SetOutput(io.Discard)
	f := &refutil.TypeFactory{}
	refutil.RegisterType[CatNode](f)
	refutil.RegisterType[IntsNode](f)
	generator.RegisterTypes(f)
	vh.Main(m, vh.Meta{
		ID:    "C13",
		Level: "exploration",
		Rule: "rapid-generated concurrent scripts: 2..6 client goroutines, each 3..10 operations drawn from UpdateParameter(p, unique value) / ParameterData(p) / Artifact(name) on a graph whose two producers depend on 4 string parameters through shared and two-level nodes (processors yield between input reads), started behind a barrier with drawn yields and GOMAXPROCS 2..16; every operation is stamped at invocation and response by one atomic logical clock. " +
			"Oracle: porcupine.CheckOperations against the sequential model (state = vector of parameter values; ParameterData returns the current value; an artifact equals the rendering of the WHOLE vector at its linearization point) - this rules out mixtures of two states and values older than a completed update; the binary is built with -race and any race report or crash is a violation. " +
			"Non-trivial = the history contains an artifact read overlapping >= 2 updates of different parameters issued in sequence by one other client. Distinct by script JSON (the schedule itself is not owned). " +
			"Sub-check typed-histories: the same over a string, a float64 (0 / -0), a point-list and a file parameter (optionally given on the command line and untouched), values repeated or unique; every typed history is counted non-trivial. " +
			"Sub-check int-histories: thirteen parameter.Int nodes (ids Node-0..Node-12, values 0..39 as bare numbers) feeding one artifact through an array input; 2..4 clients of 4..12 operations (two thirds updates) and a final artifact read after all clients have finished; every history non-trivial.",
		Assumptions: []string{
			"real threads: schedules are sampled, not enumerated; the race detector gives the schedule-independent part (unsynchronised accesses that overlap at all)",
			"failing histories are printed in full; they cannot be shrunk or replayed deterministically (the replay path re-runs the script 50x)",
		},
	})
}

type LOp struct {
	Kind  int // 0 update, 1 read, 2 artifact
	Param int // parameter index (0..3) or artifact index (0..1)
	Yield int // Gosched calls before the operation
}

type Case struct {
	Clients [][]LOp
	Procs   int
}

func genCase(t *rapid.T) Case {
	nc := rapid.IntRange(2, 6).Draw(t, "clients")
	c := Case{Procs: rapid.SampledFrom([]int{2, 3, 4, 8, 16}).Draw(t, "procs")}
	for i := 0; i < nc; i++ {
		// updater-heavy, reader-heavy or mixed scripts
		profile := rapid.IntRange(0, 2).Draw(t, "profile")
		script := rapid.SliceOfN(rapid.Custom(func(t *rapid.T) LOp {
			var kinds []int
			switch profile {
			case 0:
				kinds = []int{0, 0, 0, 1}
			case 1:
				kinds = []int{2, 2, 1, 0}
			default:
				kinds = []int{0, 1, 2}
			}
			return LOp{Kind: rapid.SampledFrom(kinds).Draw(t, "kind"), Param: rapid.IntRange(0, 3).Draw(t, "param"), Yield: rapid.IntRange(0, 3).Draw(t, "yield")}
		}), 3, 10).Draw(t, "script")
		c.Clients = append(c.Clients, script)
	}
	return c
}

type linIn struct {
	kind  int
	param int
	val   string
}

func render(s [4]string, artifact int) string {
	if artifact == 0 {
		return s[0] + "|" + s[1] + "|" + s[1] + "|" + s[2]
	}
	return s[2] + "|" + s[3] + "|" + s[0] + "|" + s[1]
}

var model = porcupine.Model{
	Init: func() interface{} { return [4]string{"i", "i", "i", "i"} },
	Step: func(state, input, output interface{}) (bool, interface{}) {
		s := state.([4]string)
		o := input.(linIn)
		switch o.kind {
		case 0:
			s[o.param] = o.val
			return true, s
		case 1:
			return output.(string) == s[o.param], s
		default:
			return output.(string) == render(s, o.param%2), s
		}
	},
	Equal: func(a, b interface{}) bool { return a.([4]string) == b.([4]string) },
	DescribeOperation: func(input, output interface{}) string {
		o := input.(linIn)
		switch o.kind {
		case 0:
			return fmt.Sprintf("Update(p%d=%s)", o.param, o.val)
		case 1:
			return fmt.Sprintf("Read(p%d)->%v", o.param, output)
		default:
			return fmt.Sprintf("Artifact(%d)->%v", o.param%2, output)
		}
	},
}

var caseCounter int64

func build() (*graph.Instance, []string, *vh.Failure) {
	app := &generator.App{}
	inst := app.VerifGraph()
	mk := func(v any) string {
		_, id, err := inst.CreateNode(refutil.GetTypeWithPackage(v))
		if err != nil {
			panic(err)
		}
		return id
	}
	pids := make([]string, 4)
	for k := range pids {
		pids[k] = mk(new(parameter.String))
		inst.UpdateParameter(pids[k], []byte(`"i"`))
	}
	c1, c2, c3, c4, c5 := mk(new(CatNode)), mk(new(CatNode)), mk(new(CatNode)), mk(new(CatNode)), mk(new(CatNode))
	var textType string
	for _, ty := range inst.Schema().Types {
		if strings.Contains(ty.Type, "TextNodeData") {
			textType = ty.Type
		}
	}
	if textType == "" {
		return nil, nil, vh.Failf("harness/no-text-node", "text artifact node type not registered")
	}
	_, t1, _ := inst.CreateNode(textType)
	_, t2, _ := inst.CreateNode(textType)
	inst.ConnectNodes(pids[0], "Out", c1, "A")
	inst.ConnectNodes(pids[1], "Out", c1, "B")
	inst.ConnectNodes(pids[1], "Out", c2, "A")
	inst.ConnectNodes(pids[2], "Out", c2, "B")
	inst.ConnectNodes(c1, "Out", c3, "A")
	inst.ConnectNodes(c2, "Out", c3, "B")
	inst.ConnectNodes(pids[2], "Out", c4, "A")
	inst.ConnectNodes(pids[3], "Out", c4, "B")
	inst.ConnectNodes(c4, "Out", c5, "A")
	inst.ConnectNodes(c1, "Out", c5, "B")
	inst.ConnectNodes(c3, "Out", t1, "In")
	inst.ConnectNodes(c5, "Out", t2, "In")
	inst.SetNodeAsProducer(t1, "a.txt")
	inst.SetNodeAsProducer(t2, "b.txt")
	return inst, pids, nil
}

func runCase(c Case, o *vh.Obs) *vh.Failure {
	if len(c.Clients) < 2 {
		return nil
	}
	procs := c.Procs
	if procs < 2 {
		procs = 2
	}
	old := runtime.GOMAXPROCS(procs)
	defer runtime.GOMAXPROCS(old)
	inst, pids, f := build()
	if f != nil {
		return f
	}
	run := atomic.AddInt64(&caseCounter, 1)
	var clock int64
	var mu sync.Mutex
	var hist []porcupine.Operation
	var crashes []string
	var wg sync.WaitGroup
	start := make(chan struct{})
	names := []string{"a.txt", "b.txt"}
	for ci, script := range c.Clients {
		wg.Add(1)
		go func(ci int, script []LOp) {
			defer wg.Done()
			<-start
			for k, op := range script {
				for y := 0; y < op.Yield; y++ {
					runtime.Gosched()
				}
				in := linIn{kind: op.Kind, param: op.Param % 4}
				if op.Kind == 0 {
					in.val = fmt.Sprintf("r%dc%dk%d", run, ci, k)
				}
				var out string
				var crashed any
				call := atomic.AddInt64(&clock, 1)
				func() {
					defer func() { crashed = recover() }()
					switch in.kind {
					case 0:
						inst.UpdateParameter(pids[in.param], []byte(`"`+in.val+`"`))
					case 1:
						out = strings.Trim(string(inst.ParameterData(pids[in.param])), `"`)
					default:
						b := &bytes.Buffer{}
						inst.Artifact(names[in.param%2]).Write(b)
						out = b.String()
					}
				}()
				ret := atomic.AddInt64(&clock, 1)
				mu.Lock()
				if crashed != nil {
					crashes = append(crashes, fmt.Sprintf("client %d op %d (%s): %v", ci, k, model.DescribeOperation(in, out), crashed))
				}
				hist = append(hist, porcupine.Operation{ClientId: ci, Input: in, Call: call, Output: out, Return: ret})
				mu.Unlock()
			}
		}(ci, script)
	}
	close(start)
	wg.Wait()
	describe := func() string {
		sort.Slice(hist, func(i, j int) bool { return hist[i].Call < hist[j].Call })
		var sb strings.Builder
		for _, h := range hist {
			fmt.Fprintf(&sb, "  [%3d,%3d] client %d: %s\n", h.Call, h.Return, h.ClientId, model.DescribeOperation(h.Input, h.Output))
		}
		return sb.String()
	}
	if len(crashes) > 0 {
		sort.Strings(crashes)
		return vh.Failf("crash", "an operation panicked during a concurrent history: %s\nhistory (logical call/return stamps):\n%s", crashes[0], describe())
	}
	if r := vh.RaceReport(); r != "" {
		return vh.RaceFailure(r)
	}
	// non-triviality: an artifact read overlapping >= 2 updates of different parameters by one other client
	overlapped := 0
	for _, a := range hist {
		if a.Input.(linIn).kind != 2 {
			continue
		}
		per := map[int]map[int]bool{}
		for _, u := range hist {
			in := u.Input.(linIn)
			if in.kind == 0 && u.ClientId != a.ClientId && u.Call < a.Return && u.Return > a.Call {
				if per[u.ClientId] == nil {
					per[u.ClientId] = map[int]bool{}
				}
				per[u.ClientId][in.param] = true
			}
		}
		for _, ps := range per {
			if len(ps) >= 2 {
				overlapped++
				break
			}
		}
	}
	if overlapped > 0 {
		o.NonTrivial()
		o.Class("artifact-overlaps-2-updates-of-one-client")
	}
	o.Class(fmt.Sprintf("clients/%d", len(c.Clients)))
	o.Class(fmt.Sprintf("gomaxprocs/%d", procs))
	o.Count("operations", len(hist))
	if !porcupine.CheckOperations(model, hist) {
		return vh.Failf("not-linearizable", "no sequential order consistent with real time explains this history (an artifact mixes two states, or a value older than a completed update was returned):\n%s", describe())
	}
	return nil
}

// ---------------------------------------------------------------- the same through the edit server's HTTP handlers

var (
	httpOnce    sync.Once
	httpHandler http.Handler
	httpPids    []string
	httpErr     *vh.Failure
)

func httpSetup() {
	app := &generator.App{Name: "c13"}
	inst := app.VerifGraph()
	_ = inst
	// same graph as build(), but on the app whose handler we serve
	mk := func(v any) string {
		_, id, err := inst.CreateNode(refutil.GetTypeWithPackage(v))
		if err != nil {
			panic(err)
		}
		return id
	}
	pids := make([]string, 4)
	for k := range pids {
		pids[k] = mk(new(parameter.String))
		inst.UpdateParameter(pids[k], []byte(`"i"`))
	}
	c1, c2, c3, c4, c5 := mk(new(CatNode)), mk(new(CatNode)), mk(new(CatNode)), mk(new(CatNode)), mk(new(CatNode))
	var textType string
	for _, ty := range inst.Schema().Types {
		if strings.Contains(ty.Type, "TextNodeData") {
			textType = ty.Type
		}
	}
	_, t1, _ := inst.CreateNode(textType)
	_, t2, _ := inst.CreateNode(textType)
	for _, c := range [][4]string{{pids[0], c1, "A"}, {pids[1], c1, "B"}, {pids[1], c2, "A"}, {pids[2], c2, "B"}, {c1, c3, "A"}, {c2, c3, "B"},
		{pids[2], c4, "A"}, {pids[3], c4, "B"}, {c4, c5, "A"}, {c1, c5, "B"}, {c3, t1, "In"}, {c5, t2, "In"}} {
		inst.ConnectNodes(c[0], "Out", c[1], c[2])
	}
	inst.SetNodeAsProducer(t1, "a.txt")
	inst.SetNodeAsProducer(t2, "b.txt")
	h, err := app.VerifServerHandler(fmt.Sprintf("autosave_%d.json", vh.Shard))
	if err != nil {
		httpErr = vh.Failf("harness/http-handler", "cannot build the server handler: %v", err)
		return
	}
	httpHandler, httpPids, httpApp = h, pids, app
}

var httpApp *generator.App

func runHTTP(c Case, o *vh.Obs) *vh.Failure {
	if len(c.Clients) < 2 {
		return nil
	}
	httpOnce.Do(httpSetup)
	if httpErr != nil {
		return httpErr
	}
	procs := c.Procs
	if procs < 2 {
		procs = 2
	}
	old := runtime.GOMAXPROCS(procs)
	defer runtime.GOMAXPROCS(old)
	do := func(method, url string, body []byte) (int, string) {
		rec := httptest.NewRecorder()
		req := httptest.NewRequest(method, url, bytes.NewReader(body))
		httpHandler.ServeHTTP(rec, req)
		return rec.Code, rec.Body.String()
	}
	// the server is shared by the cases of this process: the model starts from the current values
	var init [4]string
	for k, id := range httpPids {
		_, body := do("GET", "/parameter/value/"+id, nil)
		init[k] = strings.Trim(body, `"`)
	}
	run := atomic.AddInt64(&caseCounter, 1)
	var clock int64
	var mu sync.Mutex
	var hist []porcupine.Operation
	var problems []string
	var wg sync.WaitGroup
	zips := 0
	start := make(chan struct{})
	names := []string{"a.txt", "b.txt"}
	for ci, script := range c.Clients {
		wg.Add(1)
		go func(ci int, script []LOp) {
			defer wg.Done()
			<-start
			for k, op := range script {
				for y := 0; y < op.Yield; y++ {
					runtime.Gosched()
				}
				in := linIn{kind: op.Kind, param: op.Param % 4}
				if op.Kind == 0 {
					in.val = fmt.Sprintf("h%dc%dk%d", run, ci, k)
				}
				var out string
				var code int
				var crashed any
				var zipped map[string]string
				call := atomic.AddInt64(&clock, 1)
				func() {
					defer func() { crashed = recover() }()
					switch in.kind {
					case 0:
						code, _ = do("POST", "/parameter/value/"+httpPids[in.param], []byte(`"`+in.val+`"`))
					case 1:
						var body string
						code, body = do("GET", "/parameter/value/"+httpPids[in.param], nil)
						out = strings.Trim(body, `"`)
					default:
						if op.Param >= 2 { // GET /zip: every producer's artifact in one archive
							var body string
							code, body = do("GET", "/zip", nil)
							zipped = map[string]string{}
							if zr, err := zip.NewReader(strings.NewReader(body), int64(len(body))); err == nil {
								for _, zf := range zr.File {
									if rc, err := zf.Open(); err == nil {
										b, _ := io.ReadAll(rc)
										rc.Close()
										zipped[zf.Name] = string(b)
									}
								}
							}
							return
						}
						code, out = do("GET", "/producer/value/"+names[in.param%2], nil)
					}
				}()
				ret := atomic.AddInt64(&clock, 1)
				mu.Lock()
				if crashed != nil || code != 200 {
					problems = append(problems, fmt.Sprintf("client %d op %d (%s): status %d panic %v", ci, k, model.DescribeOperation(in, out), code, crashed))
				}
				if zipped != nil {
					// the archive is written artifact by artifact: each file is one artifact read somewhere inside the request
					if len(zipped) != len(names) {
						problems = append(problems, fmt.Sprintf("client %d op %d: GET /zip returned %d files, the graph has %d producers", ci, k, len(zipped), len(names)))
					}
					for ai, nm := range names {
						hist = append(hist, porcupine.Operation{ClientId: ci, Input: linIn{kind: 2, param: ai}, Call: call, Output: zipped[nm], Return: ret})
					}
					zips++
				} else {
					hist = append(hist, porcupine.Operation{ClientId: ci, Input: in, Call: call, Output: out, Return: ret})
				}
				mu.Unlock()
			}
		}(ci, script)
	}
	close(start)
	wg.Wait()
	describe := func() string {
		sort.Slice(hist, func(i, j int) bool { return hist[i].Call < hist[j].Call })
		var sb strings.Builder
		fmt.Fprintf(&sb, "  initial values %v\n", init)
		for _, h := range hist {
			fmt.Fprintf(&sb, "  [%3d,%3d] client %d: %s\n", h.Call, h.Return, h.ClientId, model.DescribeOperation(h.Input, h.Output))
		}
		return sb.String()
	}
	if len(problems) > 0 {
		sort.Strings(problems)
		return vh.Failf("http/crash-or-error", "a request failed during a concurrent history: %s\nhistory:\n%s", problems[0], describe())
	}
	if r := vh.RaceReport(); r != "" {
		return vh.RaceFailure(r)
	}
	o.NonTrivial()
	o.Class(fmt.Sprintf("http/clients/%d", len(c.Clients)))
	o.Count("http-operations", len(hist))
	if zips > 0 {
		o.Class("http/zip-requests")
		o.Count("http-zip-requests", zips)
	}
	m := model
	m.Init = func() interface{} { return init }
	if !porcupine.CheckOperations(m, hist) {
		return vh.Failf("http/not-linearizable", "no sequential order consistent with real time explains this history of HTTP requests:\n%s", describe())
	}
	// every edit request saves the graph before it answers (autosave). Once all requests have returned
	// the file on disk must therefore be the save of the present graph: a stale snapshot written last
	// would silently lose an acknowledged edit the next time the file is opened.
	updates := 0
	for _, h := range hist {
		if h.Input.(linIn).kind == 0 {
			updates++
		}
	}
	if updates > 0 {
		onDisk, err := os.ReadFile(fmt.Sprintf("autosave_%d.json", vh.Shard))
		if err != nil {
			return vh.Failf("http/autosave-missing", "autosave is on and %d edits were acknowledged, but the file cannot be read: %v", updates, err)
		}
		if want := httpApp.Schema(); !bytes.Equal(onDisk, want) {
			o.Class("http/autosave-compared")
			return vh.Failf("http/autosave-stale", "all %d requests have returned, yet the autosaved file (%d bytes) is not the save of the present graph (%d bytes): an acknowledged edit is missing from it\nhistory:\n%s", len(hist), len(onDisk), len(want), describe())
		}
		o.Class("http/autosave-compared")
		if updates >= 3 {
			o.Class("http/autosave-compared/3-or-more-edits")
		}
	}
	return nil
}

// ---------------------------------------------------------------- typed parameters (float, point list, file given on the command line)

// FmtSF / FmtVB render two typed inputs each, yielding between the reads.
type FmtSFData struct {
	S nodes.NodeOutput[string]
	F nodes.NodeOutput[float64]
}

func (d FmtSFData) Process() (string, error) {
	s := d.S.Value()
	runtime.Gosched()
	return s + "|" + canonF(d.F.Value()), nil
}

type FmtVBData struct {
	V nodes.NodeOutput[[]vector3.Float64]
	B nodes.NodeOutput[[]byte]
}

func (d FmtVBData) Process() (string, error) {
	v := canonV(d.V.Value())
	runtime.Gosched()
	return v + "|" + string(d.B.Value()), nil
}

func canonF(f float64) string { return strconv.FormatFloat(f, 'g', -1, 64) } // "-0" for negative zero

func canonV(v []vector3.Float64) string {
	var sb strings.Builder
	sb.WriteString("[")
	for _, p := range v {
		fmt.Fprintf(&sb, "(%s,%s,%s)", canonF(p.X()), canonF(p.Y()), canonF(p.Z()))
	}
	return sb.String() + "]"
}

// TOp: Val 0..2 picks a value from the parameter's small pool (repeats, 0 and -0, the empty list),
// 3 a value unique to this operation.
type TOp struct {
	Kind  int // 0 update, 1 read, 2 artifact
	Param int // 0 string, 1 float64, 2 []vector3, 3 file
	Val   int
	Yield int
}

type TCase struct {
	Clients [][]TOp
	Procs   int
	Cli     bool // the file parameter is given on the command line and not touched before the history starts
}

func genTyped(t *rapid.T) TCase {
	nc := rapid.IntRange(2, 6).Draw(t, "clients")
	c := TCase{Procs: rapid.SampledFrom([]int{2, 3, 4, 8, 16}).Draw(t, "procs"), Cli: rapid.Bool().Draw(t, "cli")}
	for i := 0; i < nc; i++ {
		profile := rapid.IntRange(0, 3).Draw(t, "profile")
		script := rapid.SliceOfN(rapid.Custom(func(t *rapid.T) TOp {
			var kinds []int
			switch profile {
			case 0:
				kinds = []int{0, 0, 0, 1}
			case 1:
				kinds = []int{2, 2, 1, 0}
			case 2:
				kinds = []int{1, 1, 1, 2}
			default:
				kinds = []int{0, 1, 2}
			}
			return TOp{Kind: rapid.SampledFrom(kinds).Draw(t, "kind"), Param: rapid.IntRange(0, 3).Draw(t, "param"),
				Val: rapid.IntRange(0, 3).Draw(t, "val"), Yield: rapid.IntRange(0, 3).Draw(t, "yield")}
		}), 3, 10).Draw(t, "script")
		c.Clients = append(c.Clients, script)
	}
	return c
}

// typedValue gives the message sent for an update and the canonical text of the value.
func typedValue(param, val int, run int64, ci, k int) (msg []byte, canon string) {
	switch param {
	case 0:
		v := []string{"i", "x", ""}[val%3]
		if val == 3 {
			v = fmt.Sprintf("t%dc%dk%d", run, ci, k)
		}
		msg, _ = json.Marshal(v)
		return msg, v
	case 1:
		v := []float64{0, math.Copysign(0, -1), 1}[val%3]
		if val == 3 {
			v = float64(run%100000)*1000 + float64(ci*100+k) + 0.5
		}
		return []byte(canonF(v)), canonF(v)
	case 2:
		v := [][]vector3.Float64{{}, {vector3.New(1., 2, 3)}, {vector3.New(1., 2, 3), vector3.New(4., 5, 6)}}[val%3]
		if val == 3 {
			v = []vector3.Float64{vector3.New(float64(run%100000), float64(ci), float64(k))}
		}
		msg, _ = json.Marshal(v)
		return msg, canonV(v)
	default:
		v := []string{"abc", "z", "abc"}[val%3]
		if val == 3 {
			v = fmt.Sprintf("f%dc%dk%d", run, ci, k)
		}
		return []byte(v), v
	}
}

// typedRead turns ParameterData's answer into the canonical text ("?..." when it cannot be decoded).
func typedRead(param int, data []byte) string {
	switch param {
	case 0:
		var v string
		if json.Unmarshal(data, &v) != nil {
			return "?" + string(data)
		}
		return v
	case 1:
		var v float64
		if json.Unmarshal(data, &v) != nil {
			return "?" + string(data)
		}
		if strings.HasPrefix(strings.TrimSpace(string(data)), "-") && v == 0 {
			v = math.Copysign(0, -1)
		}
		return canonF(v)
	case 2:
		var v []vector3.Float64
		if json.Unmarshal(data, &v) != nil {
			return "?" + string(data)
		}
		return canonV(v)
	}
	return string(data)
}

func renderTyped(s [4]string, artifact int) string {
	sf, vb := s[0]+"|"+s[1], s[2]+"|"+s[3]
	if artifact == 0 {
		return sf + "|" + vb
	}
	return vb + "|" + sf
}

var typedModel = porcupine.Model{
	Step: func(state, input, output interface{}) (bool, interface{}) {
		s := state.([4]string)
		o := input.(linIn)
		switch o.kind {
		case 0:
			s[o.param] = o.val
			return true, s
		case 1:
			return output.(string) == s[o.param], s
		default:
			return output.(string) == renderTyped(s, o.param%2), s
		}
	},
	Equal:             func(a, b interface{}) bool { return a.([4]string) == b.([4]string) },
	DescribeOperation: model.DescribeOperation,
}

const cliFileContent = "given-on-the-command-line"

var cliFile = sync.OnceValue(func() string {
	p := filepath.Join(filepath.Dir(os.Getenv("VERIF_OUT")), fmt.Sprintf("c13_cli_file_%d.bin", vh.Shard))
	if os.Getenv("VERIF_OUT") == "" {
		p = filepath.Join(os.TempDir(), "c13_cli_file.bin")
	}
	if err := os.WriteFile(p, []byte(cliFileContent), 0o644); err != nil {
		panic(err)
	}
	return p
})

func runTyped(c TCase, o *vh.Obs) *vh.Failure {
	if len(c.Clients) < 2 {
		return nil
	}
	procs := c.Procs
	if procs < 2 {
		procs = 2
	}
	old := runtime.GOMAXPROCS(procs)
	defer runtime.GOMAXPROCS(old)

	ps := &parameter.String{Name: "S", DefaultValue: "i"}
	pf := &parameter.Float64{Name: "F", DefaultValue: 7}
	pv := &parameter.Vector3Array{Name: "V"}
	pb := &parameter.File{Name: "B", DefaultValue: []byte("dflt"), CLI: &parameter.CliConfig[string]{FlagName: "b", Usage: "file"}}
	sf := &nodes.Struct[string, FmtSFData]{Data: FmtSFData{S: ps.Out(), F: pf.Out()}}
	vb := &nodes.Struct[string, FmtVBData]{Data: FmtVBData{V: pv.Out(), B: pb.Out()}}
	a := &CatNode{Data: CatData{A: sf.Out(), B: vb.Out()}}
	b := &CatNode{Data: CatData{A: vb.Out(), B: sf.Out()}}
	inst := graph.New(&refutil.TypeFactory{})
	inst.AddProducer("a.txt", basics.NewTextNode(a.Out()))
	inst.AddProducer("b.txt", basics.NewTextNode(b.Out()))
	flags := flag.NewFlagSet("c13", flag.ContinueOnError)
	inst.InitializeParameters(flags)
	init := [4]string{"i", "7", "[]", "dflt"}
	var args []string
	if c.Cli {
		args = []string{"-b", cliFile()}
		init[3] = cliFileContent
		o.Class("typed/file-given-on-command-line")
	}
	if err := flags.Parse(args); err != nil {
		return vh.Failf("harness/flags", "%v", err)
	}
	pids := []string{inst.NodeId(ps), inst.NodeId(pf), inst.NodeId(pv), inst.NodeId(pb)}

	run := atomic.AddInt64(&caseCounter, 1)
	var clock int64
	var mu sync.Mutex
	var hist []porcupine.Operation
	var crashes []string
	var wg sync.WaitGroup
	refusals := 0
	start := make(chan struct{})
	names := []string{"a.txt", "b.txt"}
	for ci, script := range c.Clients {
		wg.Add(1)
		go func(ci int, script []TOp) {
			defer wg.Done()
			<-start
			for k, op := range script {
				for y := 0; y < op.Yield; y++ {
					runtime.Gosched()
				}
				in := linIn{kind: op.Kind, param: ((op.Param % 4) + 4) % 4}
				var msg []byte
				if op.Kind == 0 {
					msg, in.val = typedValue(in.param, ((op.Val%4)+4)%4, run, ci, k)
				}
				var out string
				var crashed any
				refused := false
				call := atomic.AddInt64(&clock, 1)
				func() {
					defer func() {
						if r := recover(); r != nil {
							crashed = r
						}
					}()
					switch in.kind {
					case 0:
						if op.Yield == 2 && in.param < 3 {
							// a message the parameter has to refuse - for the point list one that is well-formed
							// JSON and wrong only in its second element. A refused update is not part of the
							// history: it must change nothing, which the reads around it decide.
							pt, _ := json.Marshal(vector3.New(float64(run%1000)+0.25, float64(ci), float64(k)))
							bad := [][]byte{[]byte(`5`), []byte(`"x"`), []byte(`[` + string(pt) + `,"oops",` + string(pt) + `]`)}[in.param]
							if _, err := inst.UpdateParameter(pids[in.param], bad); err == nil {
								crashed = fmt.Sprintf("UpdateParameter(%s) on parameter %d was accepted", bad, in.param)
							}
							refused = true
							return
						}
						if _, err := inst.UpdateParameter(pids[in.param], msg); err != nil {
							crashed = fmt.Sprintf("UpdateParameter(%s) returned %v", msg, err)
						}
					case 1:
						out = typedRead(in.param, inst.ParameterData(pids[in.param]))
					default:
						b := &bytes.Buffer{}
						inst.Artifact(names[in.param%2]).Write(b)
						out = b.String()
					}
				}()
				ret := atomic.AddInt64(&clock, 1)
				mu.Lock()
				if crashed != nil {
					crashes = append(crashes, fmt.Sprintf("client %d op %d (%s): %v", ci, k, model.DescribeOperation(in, out), crashed))
				}
				if refused {
					refusals++
				} else {
					hist = append(hist, porcupine.Operation{ClientId: ci, Input: in, Call: call, Output: out, Return: ret})
				}
				mu.Unlock()
			}
		}(ci, script)
	}
	close(start)
	wg.Wait()
	if refusals > 0 {
		o.Class("typed/refused-updates")
		o.Count("typed-refused-updates", refusals)
	}
	describe := func() string {
		sort.Slice(hist, func(i, j int) bool { return hist[i].Call < hist[j].Call })
		var sb strings.Builder
		fmt.Fprintf(&sb, "  parameters p0 string, p1 float64, p2 point list, p3 file; initial values %q\n", init)
		for _, h := range hist {
			fmt.Fprintf(&sb, "  [%3d,%3d] client %d: %s\n", h.Call, h.Return, h.ClientId, model.DescribeOperation(h.Input, h.Output))
		}
		return sb.String()
	}
	if len(crashes) > 0 {
		sort.Strings(crashes)
		return vh.Failf("typed/crash", "an operation panicked or failed during a concurrent history: %s\nhistory (logical call/return stamps):\n%s", crashes[0], describe())
	}
	if r := vh.RaceReport(); r != "" {
		return vh.RaceFailure(r)
	}
	repeats, zeros := false, false
	last := map[int]string{}
	for _, h := range hist {
		if in := h.Input.(linIn); in.kind == 0 {
			if last[in.param] == in.val {
				repeats = true
			}
			if in.param == 1 && (in.val == "0" || in.val == "-0") && (last[1] == "0" || last[1] == "-0") && last[1] != in.val {
				zeros = true
			}
			last[in.param] = in.val
		}
	}
	o.NonTrivial()
	if repeats {
		o.Class("typed/update-repeats-the-previous-value")
	}
	if zeros {
		o.Class("typed/zero-to-negative-zero-or-back")
	}
	o.Class(fmt.Sprintf("typed/clients/%d", len(c.Clients)))
	o.Count("typed-operations", len(hist))
	m := typedModel
	m.Init = func() interface{} { return init }
	if !porcupine.CheckOperations(m, hist) {
		return vh.Failf("typed/not-linearizable", "no sequential order consistent with real time explains this history:\n%s", describe())
	}
	return nil
}

// ---------------------------------------------------------------- many numeric parameters

// IntsData renders all its inputs; thirteen int parameters feed it, so node ids run from Node-0 to
// Node-12 (ids that are prefixes of one another) and message bodies are bare numbers.
type IntsData struct {
	Values []nodes.NodeOutput[int]
}

func (d IntsData) Process() (string, error) {
	var sb strings.Builder
	for i, v := range d.Values {
		if i == len(d.Values)/2 {
			runtime.Gosched()
		}
		if v != nil {
			fmt.Fprintf(&sb, "%d,", v.Value())
		} else {
			sb.WriteString("-,")
		}
	}
	return sb.String(), nil
}

type IntsNode = nodes.Struct[string, IntsData]

const nInts = 13

type ICase struct {
	Clients [][]LOp // Param: parameter 0..12; Yield doubles as the value source (see runInts)
	Vals    [][]int // per client, per operation: the value of an update (0..39)
	Procs   int
}

func genInts(t *rapid.T) ICase {
	nc := rapid.IntRange(2, 4).Draw(t, "clients")
	c := ICase{Procs: rapid.SampledFrom([]int{2, 4, 16}).Draw(t, "procs")}
	for i := 0; i < nc; i++ {
		n := rapid.IntRange(4, 12).Draw(t, "ops")
		var script []LOp
		var vals []int
		for k := 0; k < n; k++ {
			script = append(script, LOp{Kind: rapid.SampledFrom([]int{0, 0, 0, 0, 1, 2}).Draw(t, "kind"), Param: rapid.IntRange(0, nInts-1).Draw(t, "param"), Yield: rapid.IntRange(0, 2).Draw(t, "yield")})
			vals = append(vals, rapid.IntRange(0, 39).Draw(t, "value"))
		}
		c.Clients, c.Vals = append(c.Clients, script), append(c.Vals, vals)
	}
	return c
}

func renderInts(s [nInts]int) string {
	var sb strings.Builder
	for _, v := range s {
		fmt.Fprintf(&sb, "%d,", v)
	}
	return sb.String()
}

var intsModel = porcupine.Model{
	Init: func() interface{} { return [nInts]int{} },
	Step: func(state, input, output interface{}) (bool, interface{}) {
		s := state.([nInts]int)
		o := input.(linIn)
		switch o.kind {
		case 0:
			v, _ := strconv.Atoi(o.val)
			s[o.param] = v
			return true, s
		case 1:
			return output.(string) == strconv.Itoa(s[o.param]), s
		default:
			return output.(string) == renderInts(s), s
		}
	},
	Equal:             func(a, b interface{}) bool { return a.([nInts]int) == b.([nInts]int) },
	DescribeOperation: model.DescribeOperation,
}

func runInts(c ICase, o *vh.Obs) *vh.Failure {
	if len(c.Clients) < 2 || len(c.Vals) != len(c.Clients) {
		return nil
	}
	procs := c.Procs
	if procs < 2 {
		procs = 2
	}
	old := runtime.GOMAXPROCS(procs)
	defer runtime.GOMAXPROCS(old)
	app := &generator.App{}
	inst := app.VerifGraph()
	pids := make([]string, nInts)
	for k := range pids {
		_, id, err := inst.CreateNode(refutil.GetTypeWithPackage(new(parameter.Int)))
		if err != nil {
			return vh.Failf("harness/create", "%v", err)
		}
		pids[k] = id
		inst.UpdateParameter(id, []byte("0"))
	}
	_, ints, err := inst.CreateNode(refutil.GetTypeWithPackage(new(IntsNode)))
	if err != nil {
		return vh.Failf("harness/create", "%v", err)
	}
	var textType string
	for _, ty := range inst.Schema().Types {
		if strings.Contains(ty.Type, "TextNodeData") {
			textType = ty.Type
		}
	}
	_, txt, _ := inst.CreateNode(textType)
	for k, id := range pids {
		inst.ConnectNodes(id, "Out", ints, fmt.Sprintf("Values.%d", k))
	}
	inst.ConnectNodes(ints, "Out", txt, "In")
	inst.SetNodeAsProducer(txt, "ints.txt")

	var clock int64
	var mu sync.Mutex
	var hist []porcupine.Operation
	var crashes []string
	var wg sync.WaitGroup
	start := make(chan struct{})
	do := func(ci, k int, in linIn) {
		var out string
		var crashed any
		call := atomic.AddInt64(&clock, 1)
		func() {
			defer func() { crashed = recover() }()
			switch in.kind {
			case 0:
				if _, err := inst.UpdateParameter(pids[in.param], []byte(in.val)); err != nil {
					crashed = err
				}
			case 1:
				out = string(inst.ParameterData(pids[in.param]))
			default:
				b := &bytes.Buffer{}
				inst.Artifact("ints.txt").Write(b)
				out = b.String()
			}
		}()
		ret := atomic.AddInt64(&clock, 1)
		mu.Lock()
		if crashed != nil {
			crashes = append(crashes, fmt.Sprintf("client %d op %d (%s): %v", ci, k, model.DescribeOperation(in, out), crashed))
		}
		hist = append(hist, porcupine.Operation{ClientId: ci, Input: in, Call: call, Output: out, Return: ret})
		mu.Unlock()
	}
	for ci, script := range c.Clients {
		if len(c.Vals[ci]) != len(script) {
			return nil
		}
		wg.Add(1)
		go func(ci int, script []LOp) {
			defer wg.Done()
			<-start
			for k, op := range script {
				for y := 0; y < op.Yield; y++ {
					runtime.Gosched()
				}
				in := linIn{kind: op.Kind, param: ((op.Param % nInts) + nInts) % nInts}
				if op.Kind == 0 {
					in.val = strconv.Itoa(((c.Vals[ci][k] % 40) + 40) % 40)
				}
				do(ci, k, in)
			}
		}(ci, script)
	}
	close(start)
	wg.Wait()
	do(0, len(c.Clients[0]), linIn{kind: 2}) // after everybody is done: the final state, whole
	describe := func() string {
		sort.Slice(hist, func(i, j int) bool { return hist[i].Call < hist[j].Call })
		var sb strings.Builder
		fmt.Fprintf(&sb, "  %d int parameters p0..p%d with node ids %v, all 0 at the start\n", nInts, nInts-1, pids)
		for _, h := range hist {
			fmt.Fprintf(&sb, "  [%3d,%3d] client %d: %s\n", h.Call, h.Return, h.ClientId, model.DescribeOperation(h.Input, h.Output))
		}
		return sb.String()
	}
	if len(crashes) > 0 {
		sort.Strings(crashes)
		return vh.Failf("ints/crash", "an operation panicked or failed during a concurrent history: %s\nhistory:\n%s", crashes[0], describe())
	}
	if r := vh.RaceReport(); r != "" {
		return vh.RaceFailure(r)
	}
	o.NonTrivial()
	o.Class(fmt.Sprintf("ints/clients/%d", len(c.Clients)))
	o.Count("ints-operations", len(hist))
	if !porcupine.CheckOperations(intsModel, hist) {
		return vh.Failf("ints/not-linearizable", "no sequential order consistent with real time explains this history (an update was lost, or a value older than a completed update was returned):\n%s", describe())
	}
	return nil
}

func TestC13(t *testing.T) {
	vh.Drive(t, vh.Spec[Case]{Name: "histories", Quick: 24000, Thorough: 800000, Gen: genCase, Run: runCase, Repeat: 50, Deadline: 20 * time.Second})
	vh.Drive(t, vh.Spec[Case]{Name: "http-histories", Quick: 6000, Thorough: 200000, Gen: genCase, Run: runHTTP, Repeat: 50, Deadline: 20 * time.Second})
	vh.Drive(t, vh.Spec[ICase]{Name: "int-histories", Quick: 12000, Thorough: 400000, Gen: genInts, Run: runInts, Repeat: 50, Deadline: 20 * time.Second})
	vh.Drive(t, vh.Spec[TCase]{Name: "typed-histories", Quick: 12000, Thorough: 400000, Gen: genTyped, Run: runTyped, Repeat: 50, Deadline: 20 * time.Second})
}
