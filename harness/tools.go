//go:build tools

package verifharness

import (
	_ "github.com/anishathalye/porcupine"
	_ "pgregory.net/rapid"
)
