// Package c14 decides property C14 (truncated model files are rejected; no hang, no fabricated
// geometry) by fault enumeration: for every generated valid file, EVERY cut position is decoded
// (every token boundary for ascii bodies) and the outcome classified.
package c14

import (
	"bytes"
	"compress/gzip"
	"encoding/binary"
	"fmt"
	"io"
	"log"
	"math"
	"sort"
	"strings"
	"sync"
	"sync/atomic"
	"testing"
	"time"

	"github.com/EliCDavis/polyform/formats/ply"
	"github.com/EliCDavis/polyform/formats/pts"
	"github.com/EliCDavis/polyform/formats/splat"
	"github.com/EliCDavis/polyform/formats/spz"
	"github.com/EliCDavis/polyform/formats/stl"
	"github.com/EliCDavis/polyform/modeling"
	"github.com/EliCDavis/vector/vector3"
	"pgregory.net/rapid"

	"verifharness/internal/gen"
	"verifharness/internal/oracle"
	"verifharness/internal/plyref"
	"verifharness/internal/rdr"
	"verifharness/internal/vh"
)

func TestMain(m *testing.M) {
	log.SetOutput(io.Discard)
	vh.Main(m, vh.Meta{
		ID:    "C14",
		Level: "fault_enumeration",
		Rule: "rapid-generated valid files: PLY (ascii/LE/BE; point cloud, mesh, mesh with texcoords, quads) from the independent reference encoder and from ply.Write; binary STL; SPZ (v1/v2, SH 0..3, arbitrary packed bytes, gzip'd by the harness); .splat; PTS (xyz, xyz+i, xyz+i+rgb); 1..6 elements, trailing records carry non-zero values so fabricated zeros cannot coincide with data. " +
			"For each file EVERY cut position 0..len-1 is decoded (ascii bodies: every position that does not split a number, i.e. every token and line boundary) - exhaustive per file. " +
			"Outcome must be: an error; or a result bit-equal to the decode of the complete file; or (.splat) exactly the first floor(k/32) records; or - PTS only, a text format without an element count - a value-equal subset of the full decode (counted as its own class); for PLY, STL and SPZ, which declare their counts, fewer elements without an error is the violation partial/..., and a strict prefix of a binary STL that decodes to the complete mesh is a fabrication. Sub-check huge-files-cut: four strict prefixes of an STL of 2^20+3 triangles and of two binary PLY clouds of 2^21+8 vertices must all be errors. A runtime-error panic, a value differing from the full decode, more elements than the full decode, or a call that does not return within 130 s is a violation. " +
			"evaluations = cut points decoded; non-trivial = cut strictly inside the body (after the header); distinct = (file hash, cut). " +
			"Sub-check stl-count-sweep (exhaustive along the size axis): for EVERY triangle count 1..2000 (quick) / 1..45 000 (thorough) one harness-encoded binary STL with non-zero vertex values, decoded at three strict prefixes " +
			"(1 byte short, 25 bytes short, one position in the last tenth derived from the count); same judge, with the recipe itself as the content of the complete file; the complete file must decode to the recipe (checked for every count up to 2000 and every 53rd above).",
		Assumptions: []string{
			"a cut inside a number of an ascii body leaves a syntactically complete, different file and is outside the quantifier",
			"termination is decided as 'returns within 60 s' for inputs < 8 KB (normal decode: microseconds; a first 10 s limit only raises a suspicion, because a loaded machine can starve a goroutine that long)",
			"files are small (1..6 elements): cut positions are enumerated exhaustively per file, files are sampled",
		},
	})
}

type Case struct {
	Kind   string        // plyref | plywrite | stl | spz | splat | pts
	Ply    *plyref.File  `json:",omitempty"`
	Mesh   *gen.MeshDesc `json:",omitempty"`
	Format int           `json:",omitempty"`
	// spz
	Version, NumPoints, ShDegree, FracBits int `json:",omitempty"`
	Raw                                    []byte
	// pts
	// Reader: how the bytes reach the decoder (see internal/rdr): plain, one byte per Read, half reads, ...
	Reader int `json:",omitempty"`
	// large-files sub-check: element count and sampled cut positions (fractions of the file length, or
	// negative = bytes before the end)
	Count int         `json:",omitempty"`
	Cuts  []float64   `json:",omitempty"`
	Cols  int         `json:",omitempty"`
	Rows  [][]float64 `json:",omitempty"`
	CRLF  bool        `json:",omitempty"`
	NoEOL bool        `json:",omitempty"`
}

var kinds = []string{"plyref", "plyref", "plywrite", "plywrite", "stl", "spz", "splat", "pts"}

func nonZero(d *gen.MeshDesc) {
	fix := func(x gen.F) gen.F {
		if x == 0 || math.IsNaN(float64(x)) {
			return 0.5
		}
		return x
	}
	for _, rows := range d.V1 {
		for i := range rows {
			rows[i] = fix(rows[i])
		}
	}
	for _, rows := range d.V2 {
		for i := range rows {
			rows[i][0], rows[i][1] = fix(rows[i][0]), fix(rows[i][1])
		}
	}
	for _, rows := range d.V3 {
		for i := range rows {
			for k := 0; k < 3; k++ {
				rows[i][k] = fix(rows[i][k])
			}
		}
	}
	for _, rows := range d.V4 {
		for i := range rows {
			for k := 0; k < 4; k++ {
				rows[i][k] = fix(rows[i][k])
			}
		}
	}
}

func genCase(t *rapid.T) Case {
	c := Case{Kind: rapid.SampledFrom(kinds).Draw(t, "kind")}
	if rapid.IntRange(0, 2).Draw(t, "shortReads") == 0 {
		c.Reader = rapid.IntRange(1, rdr.Modes-1).Draw(t, "reader")
	}
	switch c.Kind {
	case "plyref":
		f := plyref.Gen(t, plyref.Opts{ExcludeAsciiUcharScalar: false, MinVerts: 1, MaxVerts: 5, NonZero: true, UVCount: true, BlankLines: true, ForceFaces: rapid.Bool().Draw(t, "forceFaces")})
		c.Ply = &f
	case "plywrite", "stl":
		o := gen.MeshOpts{MaxN: 6, MinN: 1, MaxPrims: 4, NeedPos: true, Val: gen.Eighths(4),
			Attrs: []gen.AttrSpec{{Name: modeling.PositionAttribute, Arity: 3}, {Name: modeling.NormalAttribute, Arity: 3}, {Name: modeling.TexCoordAttribute, Arity: 2}, {Name: modeling.OpacityAttribute, Arity: 1}, {Name: "Custom1", Arity: 1}}}
		if c.Kind == "stl" {
			o.Topos = []modeling.Topology{modeling.TriangleTopology}
			o.MinPrims = 1
		}
		d := gen.Mesh(t, o, "m")
		if d.Topology() == modeling.PointTopology {
			d.Idx = make([]int, d.N)
			for i := range d.Idx {
				d.Idx[i] = i
			}
			delete(d.V2, modeling.TexCoordAttribute)
		}
		nonZero(&d)
		c.Mesh = &d
		c.Format = rapid.IntRange(0, 2).Draw(t, "format")
	case "spz":
		c.Version = rapid.IntRange(1, 2).Draw(t, "version")
		c.NumPoints = rapid.IntRange(1, 4).Draw(t, "points")
		c.ShDegree = rapid.IntRange(0, 3).Draw(t, "sh")
		c.FracBits = rapid.IntRange(0, 24).Draw(t, "frac")
		c.Raw = rapid.SliceOfN(rapid.Byte(), spzBodyLen(c), spzBodyLen(c)).Draw(t, "body")
	case "splat":
		n := rapid.IntRange(1, 5).Draw(t, "n")
		c.Raw = rapid.SliceOfN(rapid.Byte(), 32*n, 32*n).Draw(t, "records")
	case "pts":
		c.Cols = rapid.SampledFrom([]int{3, 4, 7}).Draw(t, "cols")
		n := rapid.IntRange(1, 5).Draw(t, "n")
		for i := 0; i < n; i++ {
			row := []float64{}
			for k := 0; k < c.Cols; k++ {
				if k < 3 {
					row = append(row, float64(rapid.IntRange(1, 400).Draw(t, "p"))/8)
				} else {
					row = append(row, float64(rapid.IntRange(1, 255).Draw(t, "b")))
				}
			}
			c.Rows = append(c.Rows, row)
		}
		c.CRLF = rapid.Bool().Draw(t, "crlf")
		c.NoEOL = rapid.Bool().Draw(t, "noeol")
	}
	return c
}

func spzBodyLen(c Case) int {
	n := c.NumPoints
	pos := 9
	if c.Version == 1 {
		pos = 6
	}
	shDim := []int{0, 3, 8, 15}[c.ShDegree%4]
	return n*pos + n + n*3 + n*3 + n*3 + n*shDim*3
}

type file struct {
	data      []byte
	bodyStart int  // first byte after the header
	// lastData > 0: the offset just after the last byte of payload the decoder needs (ascii: the end
	// of the last number; binary reference files: the end of the file). A prefix shorter than that lacks
	// data, so a decode equal to the complete file's cannot be honest.
	lastData int
	ascii     bool // ascii body: cuts inside a number are skipped
	dec       func([]byte) (*modeling.Mesh, error)
	splat     bool
}

var plyFormats = []ply.Format{ply.ASCII, ply.BinaryLittleEndian, ply.BinaryBigEndian}

func build(c Case) (file, bool) {
	plyDec := func(b []byte) (*modeling.Mesh, error) { return ply.ReadMesh(rdr.For(c.Reader, b)) }
	switch c.Kind {
	case "plyref":
		if c.Ply == nil || len(c.Ply.Props) == 0 {
			return file{}, false
		}
		enc := c.Ply.Encode()
		last := len(enc.Bytes)
		if c.Ply.Format == "ascii" {
			last = 0
			for _, tk := range enc.Tokens {
				if !tk.Line && tk.Off > last {
					last = tk.Off
				}
			}
		}
		return file{data: enc.Bytes, bodyStart: enc.HeaderLen, ascii: c.Ply.Format == "ascii", dec: plyDec, lastData: last}, true
	case "plywrite":
		if c.Mesh == nil {
			return file{}, false
		}
		buf := &bytes.Buffer{}
		if err := ply.Write(buf, c.Mesh.Build(), plyFormats[c.Format%3]); err != nil {
			return file{}, false
		}
		b := buf.Bytes()
		return file{data: b, bodyStart: bytes.Index(b, []byte("end_header\n")) + len("end_header\n"), ascii: c.Format%3 == 0, dec: plyDec}, true
	case "stl":
		if c.Mesh == nil {
			return file{}, false
		}
		buf := &bytes.Buffer{}
		if err := stl.WriteMesh(buf, c.Mesh.Build()); err != nil {
			return file{}, false
		}
		return file{data: buf.Bytes(), bodyStart: 84, dec: func(b []byte) (*modeling.Mesh, error) { return stl.ReadMesh(rdr.For(c.Reader, b)) }}, true
	case "spz":
		if len(c.Raw) != spzBodyLen(c) || c.NumPoints < 1 {
			return file{}, false
		}
		raw := &bytes.Buffer{}
		binary.Write(raw, binary.LittleEndian, uint32(0x5053474e))
		binary.Write(raw, binary.LittleEndian, uint32(c.Version))
		binary.Write(raw, binary.LittleEndian, uint32(c.NumPoints))
		raw.Write([]byte{byte(c.ShDegree), byte(c.FracBits), 0, 0})
		raw.Write(c.Raw)
		gz := &bytes.Buffer{}
		w := gzip.NewWriter(gz)
		w.Write(raw.Bytes())
		w.Close()
		return file{data: gz.Bytes(), bodyStart: 10, dec: func(b []byte) (*modeling.Mesh, error) {
			cl, err := spz.Read(rdr.For(c.Reader, b))
			if err != nil {
				return nil, err
			}
			return &cl.Mesh, nil
		}}, true
	case "splat":
		if len(c.Raw) == 0 || len(c.Raw)%32 != 0 {
			return file{}, false
		}
		return file{data: c.Raw, bodyStart: 0, splat: true, dec: func(b []byte) (*modeling.Mesh, error) {
			m, err := splat.Read(rdr.For(c.Reader, b))
			return &m, err
		}}, true
	case "pts":
		if len(c.Rows) == 0 {
			return file{}, false
		}
		eol := "\n"
		if c.CRLF {
			eol = "\r\n"
		}
		var sb strings.Builder
		sb.WriteString(fmt.Sprintf("%d%s", len(c.Rows), eol))
		for i, r := range c.Rows {
			for k, v := range r {
				if k > 0 {
					sb.WriteString(" ")
				}
				sb.WriteString(fmt.Sprint(v))
			}
			if !(c.NoEOL && i == len(c.Rows)-1) {
				sb.WriteString(eol)
			}
		}
		b := []byte(sb.String())
		return file{data: b, bodyStart: bytes.IndexByte(b, '\n') + 1, ascii: true, dec: func(b []byte) (*modeling.Mesh, error) { return pts.ReadPointCloud(rdr.For(c.Reader, b)) }}, true
	}
	return file{}, false
}

type outcome struct {
	m   *modeling.Mesh
	err error
	p   any
}

func decodeWatched(dec func([]byte) (*modeling.Mesh, error), b []byte) (outcome, bool) {
	done := make(chan outcome, 1)
	go func() {
		defer func() {
			if r := recover(); r != nil {
				done <- outcome{p: r}
			}
		}()
		m, err := dec(b)
		done <- outcome{m: m, err: err}
	}()
	select {
	case o := <-done:
		return o, true
	case <-time.After(10 * time.Second):
	}
	// Not back after 10 s (normal cost: microseconds). On a heavily loaded machine a goroutine can be
	// starved that long, so this is only a suspicion: give the SAME call fifty more seconds before
	// calling it a hang (a decoder that really loops never returns, whatever the load).
	select {
	case o := <-done:
		slowDecodes.Add(1)
		return o, true
	case <-time.After(50 * time.Second):
		return outcome{}, false
	}
}

var slowDecodes atomic.Int64

// relation of a prefix decode to the full decode: "equal", "subset" or a description of the difference.
func relate(got, full *modeling.Mesh) string {
	if got.Topology() != full.Topology() {
		return fmt.Sprintf("topology %v, full decode has %v", got.Topology(), full.Topology())
	}
	ng, err := oracle.AttrLen(*got)
	if err != nil {
		return "malformed result: " + err.Error()
	}
	nf, _ := oracle.AttrLen(*full)
	if ng > nf {
		return fmt.Sprintf("%d vertices, the complete file has only %d", ng, nf)
	}
	if got.Indices().Len() > full.Indices().Len() {
		return fmt.Sprintf("%d indices, the complete file has only %d", got.Indices().Len(), full.Indices().Len())
	}
	for i := 0; i < got.Indices().Len(); i++ {
		if got.Indices().At(i) != full.Indices().At(i) {
			return fmt.Sprintf("index %d is %d, complete file has %d", i, got.Indices().At(i), full.Indices().At(i))
		}
		if got.Indices().At(i) >= ng {
			return fmt.Sprintf("index %d refers to vertex %d of %d", i, got.Indices().At(i), ng)
		}
	}
	equal := ng == nf && got.Indices().Len() == full.Indices().Len()
	type fam struct {
		names, fnames []string
		has           func(string) bool
		val           func(m *modeling.Mesh, a string, v int) string
	}
	fams := []fam{
		{got.Float1Attributes(), full.Float1Attributes(), full.HasFloat1Attribute, func(m *modeling.Mesh, a string, v int) string { return oracle.Bits(m.Float1Attribute(a).At(v)) }},
		{got.Float2Attributes(), full.Float2Attributes(), full.HasFloat2Attribute, func(m *modeling.Mesh, a string, v int) string {
			x := m.Float2Attribute(a).At(v)
			return oracle.Bits(x.X()) + oracle.Bits(x.Y())
		}},
		{got.Float3Attributes(), full.Float3Attributes(), full.HasFloat3Attribute, func(m *modeling.Mesh, a string, v int) string {
			x := m.Float3Attribute(a).At(v)
			return oracle.Bits(x.X()) + oracle.Bits(x.Y()) + oracle.Bits(x.Z())
		}},
		{got.Float4Attributes(), full.Float4Attributes(), full.HasFloat4Attribute, func(m *modeling.Mesh, a string, v int) string {
			x := m.Float4Attribute(a).At(v)
			return oracle.Bits(x.X()) + oracle.Bits(x.Y()) + oracle.Bits(x.Z()) + oracle.Bits(x.W())
		}},
	}
	for _, f := range fams {
		if len(f.names) != len(f.fnames) {
			equal = false
		}
		for _, a := range f.names {
			if !f.has(a) {
				return fmt.Sprintf("attribute %q does not exist in the complete file's decode", a)
			}
			for v := 0; v < ng; v++ {
				if f.val(got, a, v) != f.val(full, a, v) {
					return fmt.Sprintf("attribute %s of vertex %d differs from the complete file's decode (fabricated or shifted data)", a, v)
				}
			}
		}
	}
	if equal {
		return "equal"
	}
	return "subset"
}

func isNum(b byte) bool { return b != ' ' && b != '\n' && b != '\r' && b != '\t' }

func runCase(c Case, o *vh.Obs) *vh.Failure {
	f, ok := build(c)
	if !ok {
		return nil
	}
	label := c.Kind
	if c.Kind == "plyref" {
		label += "/" + c.Ply.Format
	} else if c.Kind == "plywrite" {
		label += "/" + []string{"ascii", "le", "be"}[c.Format%3]
	}
	full, okFull := decodeWatched(f.dec, f.data)
	if !okFull {
		return vh.Failf("hang/"+label+"/complete-file", "decoding the complete %d-byte file does not terminate", len(f.data))
	}
	if full.p != nil || full.err != nil || full.m == nil {
		// the complete file must decode: otherwise the generator is outside the decoder's domain (not C14's business)
		o.Count("complete-file-rejected/"+label, 1)
		return nil
	}
	cuts, inBody := 0, 0
	for k := 0; k < len(f.data); k++ {
		if f.ascii && k > f.bodyStart && isNum(f.data[k-1]) && isNum(f.data[k]) {
			continue
		}
		cuts++
		if k >= f.bodyStart {
			inBody++
		}
		if fl := judgeCut(f, full.m, k, label, 0, o); fl != nil {
			return fl
		}
	}
	o.Evals(cuts)
	o.NonTrivialSubs(inBody)
	o.Class("file/" + label)
	return nil
}

// judgeCut decodes the k-byte prefix and classifies the outcome against the decode of the complete file.
func judgeCut(f file, full *modeling.Mesh, k int, label string, _ int, o *vh.Obs) *vh.Failure {
	return judgeCutLazy(f, func() *modeling.Mesh { return full }, k, label, o)
}

// judgeCutLazy is judgeCut with the content of the complete file given as a function, which is only
// called when the prefix decodes without an error (the count sweep builds it from its recipe).
func judgeCutLazy(f file, full func() *modeling.Mesh, k int, label string, o *vh.Obs) *vh.Failure {
	region := "header"
	if k >= f.bodyStart {
		region = "body"
	}
	r, returned := decodeWatched(f.dec, f.data[:k])
	if !returned {
		return vh.Failf("hang/"+label, "decoding the %d-byte prefix of a %d-byte %s file does not return (cut in %s)\n%q", k, len(f.data), label, region, clip(f.data[:k]))
	}
	switch {
	case r.p != nil:
		if oracle.PanicKind(r.p) == "crash" {
			return vh.Failf("panic/"+label, "prefix of %d/%d bytes (cut in %s): %v\n%q", k, len(f.data), region, r.p, clip(f.data[:k]))
		}
		o.Class(label + "/reported-by-panic")
	case f.splat:
		n := k / 32
		if r.m == nil {
			if r.err == nil {
				return vh.Failf("nil-without-error/"+label, "prefix %d/%d: nil mesh and nil error", k, len(f.data))
			}
			return nil
		}
		rel := relate(r.m, full())
		if rel != "equal" && rel != "subset" {
			return vh.Failf("fabricated/"+label, "prefix %d/%d bytes: %s", k, len(f.data), rel)
		}
		if r.m.Indices().Len() != n {
			return vh.Failf("splat-record-count", "prefix of %d bytes returned %d splats, exactly %d are fully contained", k, r.m.Indices().Len(), n)
		}
		o.Class(label + "/complete-records-only")
	case r.err != nil:
		o.Class(label + "/error")
	case r.m == nil:
		return vh.Failf("nil-without-error/"+label, "prefix %d/%d: nil mesh and nil error", k, len(f.data))
	default:
		rel := relate(r.m, full())
		if strings.HasSuffix(label, "stl") && k < len(f.data) && rel == "equal" && r.m.Indices().Len() > 0 {
			// a binary STL is exactly 84 + 50n bytes: there is no trailing framing, so a strict prefix that
			// decodes to the complete mesh had its missing records made up (equal only because the
			// reference decode made them up the same way)
			return vh.Failf("fabricated/"+label, "prefix of %d/%d bytes decodes without error to all %d triangles although the file has no trailing framing", k, len(f.data), r.m.Indices().Len()/3)
		}
		if f.lastData > 0 && k < f.lastData && rel == "equal" && r.m.Indices().Len() > 0 {
			return vh.Failf("fabricated/"+label, "prefix of %d/%d bytes (payload ends at %d) decodes without error to the same mesh as the complete file although payload is missing: both decodes made data up\n%q", k, len(f.data), f.lastData, clip(f.data[:k]))
		}
		switch rel {
		case "equal":
			o.Class(label + "/ok-equal-full")
		case "subset":
			if !strings.HasPrefix(label, "pts") {
				// PLY, STL and SPZ declare their element counts: fewer elements than declared, without an
				// error, is a truncated file that was accepted (only the count-less PTS text format and
				// the record-streamed .splat format may return what is wholly present)
				return vh.Failf("partial/"+label, "prefix of %d/%d bytes (cut in %s) decodes without error to fewer elements than the header declares", k, len(f.data), region)
			}
			o.Class(label + "/ok-value-equal-subset")
		default:
			return vh.Failf("fabricated/"+label, "prefix of %d/%d bytes (cut in %s) decodes without error but %s\n%q", k, len(f.data), region, rel, clip(f.data[:k]))
		}
	}
	return nil
}

func clip(b []byte) []byte {
	if len(b) > 600 {
		return append(append([]byte{}, b[:300]...), b[len(b)-300:]...)
	}
	return b
}

// ---------------------------------------------------------------- large files, sampled cuts

// Element counts around the sizes at which readers typically switch to block-wise reading.
var boundaryCounts = []int{255, 256, 1023, 1024, 2730, 2731, 4095, 4096, 4097, 5460, 5461, 5462, 8192, 10922, 12288, 16384}

func genLarge(t *rapid.T) Case {
	c := Case{Kind: rapid.SampledFrom([]string{"large-stl", "large-ply", "large-ply"}).Draw(t, "kind"), Format: rapid.IntRange(1, 2).Draw(t, "format"),
		Cols: rapid.SampledFrom([]int{3, 4, 6, 7}).Draw(t, "floatsPerVertex")}
	if rapid.IntRange(0, 3).Draw(t, "boundary") != 0 {
		c.Count = rapid.SampledFrom(boundaryCounts).Draw(t, "count")
		if rapid.IntRange(0, 3).Draw(t, "blocks") == 0 { // a vertex count that fills 64 KiB blocks exactly for this record size
			c.Count = (65536 / (4 * c.Cols)) * rapid.IntRange(1, 3).Draw(t, "nblocks")
		}
	} else {
		c.Count = rapid.IntRange(200, 20000).Draw(t, "countAny")
	}
	if rapid.IntRange(0, 3).Draw(t, "shortReads") == 0 {
		c.Reader = rapid.IntRange(2, rdr.Modes-1).Draw(t, "reader") // not the one-byte reader: files are large
	}
	for i := 0; i < 24; i++ {
		switch rapid.IntRange(0, 3).Draw(t, "cutKind") {
		case 0:
			c.Cuts = append(c.Cuts, -float64(rapid.IntRange(1, 400).Draw(t, "fromEnd")))
		default:
			c.Cuts = append(c.Cuts, rapid.Float64Range(0, 1).Draw(t, "cutAt"))
		}
	}
	return c
}

func buildLarge(c Case) (file, bool) {
	n := c.Count
	if n <= 0 || n > 200000 {
		return file{}, false
	}
	val := func(i, k int) float64 { return float64((i*7+k*3)%1000+1) / 8 } // never zero
	switch c.Kind {
	case "large-stl":
		pos := make([]vector3.Float64, 3*n)
		idx := make([]int, 3*n)
		for i := range pos {
			pos[i] = vector3.New(val(i, 0), val(i, 1), val(i, 2))
			idx[i] = i
		}
		buf := &bytes.Buffer{}
		if err := stl.WriteMesh(buf, modeling.NewTriangleMesh(idx).SetFloat3Attribute(modeling.PositionAttribute, pos)); err != nil {
			return file{}, false
		}
		return file{data: buf.Bytes(), bodyStart: 84, dec: func(b []byte) (*modeling.Mesh, error) { return stl.ReadMesh(rdr.For(c.Reader, b)) }}, true
	case "large-ply":
		pos := make([]vector3.Float64, n)
		for i := range pos {
			pos[i] = vector3.New(val(i, 0), val(i, 1), val(i, 2))
		}
		v3 := map[string][]vector3.Float64{modeling.PositionAttribute: pos}
		v1 := map[string][]float64{}
		if c.Cols >= 6 {
			nrm := make([]vector3.Float64, n)
			for i := range nrm {
				nrm[i] = vector3.New(val(i, 3), val(i, 4), val(i, 5))
			}
			v3[modeling.NormalAttribute] = nrm
		}
		if c.Cols == 4 || c.Cols == 7 {
			op := make([]float64, n)
			for i := range op {
				op[i] = val(i, 6)
			}
			v1[modeling.OpacityAttribute] = op
		}
		buf := &bytes.Buffer{}
		if err := ply.Write(buf, modeling.NewPointCloud(nil, v3, nil, v1, nil), plyFormats[c.Format%3]); err != nil {
			return file{}, false
		}
		b := buf.Bytes()
		return file{data: b, bodyStart: bytes.Index(b, []byte("end_header\n")) + len("end_header\n"), ascii: c.Format%3 == 0,
			dec: func(b []byte) (*modeling.Mesh, error) { return ply.ReadMesh(rdr.For(c.Reader, b)) }}, true
	}
	return file{}, false
}

func runLarge(c Case, o *vh.Obs) *vh.Failure {
	f, ok := buildLarge(c)
	if !ok {
		return nil
	}
	label := c.Kind
	full, okFull := decodeWatched(f.dec, f.data)
	if !okFull {
		return vh.Failf("hang/"+label+"/complete-file", "decoding the complete %d-byte file does not terminate", len(f.data))
	}
	if full.p != nil || full.err != nil || full.m == nil {
		return vh.Failf("large-complete-file-rejected/"+label, "the complete %d-element file written by polyform does not decode: %v %v", c.Count, full.err, full.p)
	}
	done := 0
	for _, cf := range c.Cuts {
		k := int(cf * float64(len(f.data)))
		if cf < 0 {
			k = len(f.data) + int(cf)
		}
		if k < 0 || k >= len(f.data) {
			continue
		}
		if f.ascii && k > f.bodyStart && isNum(f.data[k-1]) && isNum(f.data[k]) {
			continue
		}
		done++
		if fl := judgeCut(f, full.m, k, label, 0, o); fl != nil {
			return fl
		}
	}
	// structural cuts: exactly after 2^j records and after every multiple of 4096 records - a reader
	// that takes the records in blocks meets a clean end of input between two blocks only there
	if !f.ascii {
		rec := 4 * c.Cols
		if c.Kind == "large-stl" {
			rec = 50
		}
		marks := map[int]bool{}
		for b := 1; b < c.Count; b *= 2 {
			marks[b] = true
		}
		for b := 4096; b < c.Count; b += 4096 {
			marks[b] = true
		}
		var ks []int
		for b := range marks {
			ks = append(ks, f.bodyStart+b*rec)
		}
		sort.Ints(ks)
		for _, k := range ks {
			if k <= f.bodyStart || k >= len(f.data) {
				continue
			}
			done++
			if fl := judgeCut(f, full.m, k, label, 0, o); fl != nil {
				return fl
			}
		}
		o.Class("large/cuts-between-record-blocks")
	}
	o.Evals(done)
	o.NonTrivialSubs(done)
	o.Class(fmt.Sprintf("large/%s/%d-floats", c.Kind, c.Cols))
	for _, bc := range boundaryCounts {
		if c.Count == bc {
			o.Class("large/boundary-count")
		}
	}
	if c.Count%(65536/(4*c.Cols)) == 0 {
		o.Class("large/fills-64KiB-blocks-exactly")
	}
	return nil
}

// ---------------------------------------------------------------- binary STL, every triangle count

// A reader that takes the records in blocks of K can skip its last block exactly when the count is
// a multiple of K and then hands out zero-filled placeholders for whatever the file lacks; K is an
// implementation detail, so sampled counts (large-files) do not meet it. The sweep builds, for
// EVERY triangle count 1..N (N = 2000 quick, 45 000 thorough), a binary STL with the harness's own
// encoder (Case{Kind: "stl-sweep", Count: n}: the replay file is the recipe) and decodes three
// strict prefixes: one byte short, 25 bytes short (half of the last record) and a position inside
// the last tenth of the file derived from n. The judge is judgeCut's; "the complete file" is the
// recipe itself, not the library's decode of it, so a reader that returns the same placeholders for
// the complete file and for the prefix is not excused.
func sweepN() int {
	if vh.Tier == "thorough" {
		return 45000
	}
	return 2000
}

func sweepCases() []Case {
	cs := make([]Case, 0, sweepN())
	for n := 1; n <= sweepN(); n++ {
		cs = append(cs, Case{Kind: "stl-sweep", Count: n})
	}
	return cs
}

// sweepVal: component k (0..8) of record i, a non-zero multiple of 1/8 (exact in float32).
func sweepVal(i, k int) float64 { return float64((i*7+k*3)%1000+1) / 8 }

var (
	sweepMu   sync.Mutex
	sweepBody []byte // records 0.. of the recipe (they do not depend on the count): grown on demand
)

func sweepFile(n int) []byte {
	sweepMu.Lock()
	defer sweepMu.Unlock()
	for i := len(sweepBody) / 50; i < n; i++ {
		sweepBody = append(sweepBody, make([]byte, 12)...) // no stored normal
		for k := 0; k < 9; k++ {
			sweepBody = binary.LittleEndian.AppendUint32(sweepBody, math.Float32bits(float32(sweepVal(i, k))))
		}
		sweepBody = binary.LittleEndian.AppendUint16(sweepBody, uint16(i%65535+1))
	}
	b := make([]byte, 80, 84+50*n)
	copy(b, "c14 count sweep")
	b = binary.LittleEndian.AppendUint32(b, uint32(n))
	return append(b, sweepBody[:50*n]...)
}

// sweepMesh: what the complete file of n records holds (3n vertices, positions only).
func sweepMesh(n int) *modeling.Mesh {
	pos := make([]vector3.Float64, 3*n)
	idx := make([]int, 3*n)
	for i := 0; i < n; i++ {
		for c := 0; c < 3; c++ {
			pos[3*i+c] = vector3.New(sweepVal(i, 3*c), sweepVal(i, 3*c+1), sweepVal(i, 3*c+2))
			idx[3*i+c] = 3*i + c
		}
	}
	m := modeling.NewTriangleMesh(idx).SetFloat3Attribute(modeling.PositionAttribute, pos)
	return &m
}

var sweepBounds = []int{2000, 10000, 20000, 30000, 45000}

func runSweep(c Case, o *vh.Obs) *vh.Failure {
	n := c.Count
	if c.Kind != "stl-sweep" || n < 1 || n > 200000 || c.Reader < 0 || c.Reader >= rdr.Modes {
		return nil
	}
	data := sweepFile(n)
	f := file{data: data, bodyStart: 84, dec: func(b []byte) (*modeling.Mesh, error) { return stl.ReadMesh(rdr.For(c.Reader, b)) }}
	var fullMesh *modeling.Mesh
	full := func() *modeling.Mesh {
		if fullMesh == nil {
			fullMesh = sweepMesh(n)
		}
		return fullMesh
	}
	l := len(data)
	h := uint32(n) * 2654435761
	h ^= h >> 15
	cuts := []int{l - 1, l - 25, l - 1 - int(h%uint32(l/10))}
	done := 0
	for i, k := range cuts {
		if (i > 0 && k == cuts[0]) || (i > 1 && k == cuts[1]) {
			continue
		}
		done++
		if fl := judgeCutLazy(f, full, k, "stl", o); fl != nil {
			fl.Msg = fmt.Sprintf("binary STL of %d triangles (%d bytes, harness-encoded recipe): %s", n, l, fl.Msg)
			return fl
		}
	}
	o.Evals(done)
	o.NonTrivialSubs(done)
	lo := 1
	for _, hi := range sweepBounds {
		if n <= hi {
			o.Class(fmt.Sprintf("sweep/stl/triangles-%d..%d", lo, hi))
			break
		}
		lo = hi + 1
	}
	if n > sweepBounds[len(sweepBounds)-1] {
		o.Class(fmt.Sprintf("sweep/stl/triangles-above-%d", sweepBounds[len(sweepBounds)-1]))
	}
	// guard against a vacuous sweep (a recipe the decoder rejects as a whole): the complete file must
	// decode to exactly the recipe. Decoding and comparing a complete file costs about a hundred
	// times as much as three rejected prefixes, so above 2000 triangles every 53rd count is checked
	// (a prime: those counts spread evenly over the shards).
	if n <= 2000 || n%53 == 0 {
		r, returned := decodeWatched(f.dec, data)
		if !returned {
			return vh.Failf("hang/stl/complete-file", "decoding the complete %d-byte file does not terminate", l)
		}
		if r.p != nil || r.err != nil || r.m == nil {
			return vh.Failf("sweep-complete-file-rejected/stl", "the complete binary STL of %d triangles (harness-encoded recipe) does not decode: %v %v", n, r.err, r.p)
		}
		if rel := relate(r.m, full()); rel != "equal" {
			return vh.Failf("sweep-complete-file-differs/stl", "the complete binary STL of %d triangles (harness-encoded recipe) decodes without error but not to its content: %s", n, rel)
		}
		o.Count("complete-file-decoded-equal-to-recipe", 1)
	}
	return nil
}

func TestC14(t *testing.T) {
	vh.Drive(t, vh.Spec[Case]{Name: "large-files", Quick: 640, Thorough: 24000, Gen: genLarge, Run: runLarge,
		Sample: func(c Case) any {
			return map[string]any{"kind": c.Kind, "count": c.Count, "floats": c.Cols, "cuts": c.Cuts, "reader": c.Reader}
		},
		Key: func(c Case) string { return fmt.Sprint(c.Kind, c.Count, c.Cols, c.Format, c.Reader, c.Cuts) }})
	vh.Drive(t, vh.Spec[Case]{Name: "cuts", Quick: 12000, Thorough: 150000, Gen: genCase, Run: runCase,
		Sample: func(c Case) any {
			f, ok := build(c)
			if !ok {
				return c.Kind
			}
			return map[string]any{"kind": c.Kind, "file_bytes": len(f.data), "body_start": f.bodyStart, "file_prefix": string(clip(f.data))[:min(200, len(clip(f.data)))]}
		}})
	vh.Enumerate(t, vh.Spec[Case]{Name: "stl-count-sweep", Run: runSweep,
		Key:    func(c Case) string { return fmt.Sprint(c.Kind, c.Count, c.Reader) },
		Sample: func(c Case) any { return map[string]any{"kind": c.Kind, "count": c.Count, "reader": c.Reader} }}, sweepCases())
	vh.Enumerate(t, vh.Spec[Case]{Name: "huge-files-cut", Run: runHugeCut, Deadline: 5 * time.Minute,
		Key: func(c Case) string { return fmt.Sprint(c.Kind, c.Format) }},
		[]Case{{Kind: "huge-stl"}, {Kind: "huge-ply", Format: 1}, {Kind: "huge-ply", Format: 2}})
}

// ---------------------------------------------------------------- files beyond 2^20 / 2^21 elements, a few cuts

// runHugeCut: a binary STL of 2^20+3 triangles (52 MB) and binary PLY point clouds of 2^21+8 vertices
// (25 MB; neither format has trailing framing) decoded at four strict prefixes: each must be an
// error. Interrupted copies happen to large files first.
func runHugeCut(c Case, o *vh.Obs) *vh.Failure {
	var data []byte
	var dec func([]byte) (*modeling.Mesh, error)
	var rec, bodyStart int
	switch c.Kind {
	case "huge-stl":
		data, rec, bodyStart = sweepFile(1<<20+3), 50, 84
		dec = func(b []byte) (*modeling.Mesh, error) { return stl.ReadMesh(bytes.NewReader(b)) }
	case "huge-ply":
		n := 1<<21 + 8
		enc, bo := "binary_little_endian", binary.AppendByteOrder(binary.LittleEndian)
		if c.Format == 2 {
			enc, bo = "binary_big_endian", binary.BigEndian
		}
		hdr := fmt.Sprintf("ply\nformat %s 1.0\nelement vertex %d\nproperty float x\nproperty float y\nproperty float z\nend_header\n", enc, n)
		data = make([]byte, 0, len(hdr)+12*n)
		data = append(data, hdr...)
		for i := 0; i < n; i++ {
			for k := 0; k < 3; k++ {
				data = bo.AppendUint32(data, math.Float32bits(float32(sweepVal(i, k))))
			}
		}
		rec, bodyStart = 12, len(hdr)
		dec = func(b []byte) (*modeling.Mesh, error) { return ply.ReadMesh(bytes.NewReader(b)) }
	default:
		return nil
	}
	o.Class("huge-cut/" + c.Kind)
	o.NonTrivial()
	l := len(data)
	cuts := []int{l - 1, l - rec - 3, l / 2, bodyStart + 1000*rec + 5}
	for _, k := range cuts {
		r, returned := decodeWatched(dec, data[:k])
		if !returned {
			return vh.Failf("hang/"+c.Kind, "decoding the %d-byte prefix of a %d-byte file does not return", k, l)
		}
		switch {
		case r.p != nil:
			if oracle.PanicKind(r.p) == "crash" {
				return vh.Failf("panic/"+c.Kind, "prefix of %d/%d bytes: %v", k, l, r.p)
			}
		case r.err != nil:
		default:
			got := -1
			if r.m != nil {
				got = r.m.Indices().Len()
			}
			return vh.Failf("partial/"+c.Kind, "prefix of %d/%d bytes decodes without error (a mesh with %d indices); the file declares its element count and has no trailing framing", k, l, got)
		}
	}
	o.Evals(len(cuts))
	return nil
}

func FuzzC14(f *testing.F) {
	vh.Fuzz(f, vh.Spec[Case]{Name: "cuts", Gen: genCase, Run: runCase})
}
