// Package c02 decides property C02 (well-formedness is closed under generation and mesh
// operations): every geometry generator over its accepted parameter range, and random chains of
// mesh operations over generated well-formed inputs, must return well-formed meshes or report
// failure; a Go runtime error anywhere is a violation.
package c02

import (
	"fmt"
	"io"
	"log"
	"math"
	"testing"

	"github.com/EliCDavis/polyform/math/trs"
	"github.com/EliCDavis/polyform/modeling"
	"github.com/EliCDavis/polyform/modeling/extrude"
	"github.com/EliCDavis/polyform/modeling/marching"
	"github.com/EliCDavis/polyform/modeling/primitives"
	"github.com/EliCDavis/polyform/modeling/repeat"
	"github.com/EliCDavis/polyform/modeling/triangulation"
	"github.com/EliCDavis/vector/vector2"
	"github.com/EliCDavis/vector/vector3"
	"pgregory.net/rapid"

	"verifharness/internal/gen"
	"verifharness/internal/mops"
	"verifharness/internal/oracle"
	"verifharness/internal/vh"
)

func TestMain(m *testing.M) {
	log.SetOutput(io.Discard)
	vh.Main(m, vh.Meta{
		ID:    "C02",
		Level: "exploration",
		Rule: "(generators) rapid-generated parameterisations of 19 generator families (UV sphere welded/unwelded, hemisphere, cube welded/quads +-UVs, cylinder with cap/UV options, circle, quad, cone, extrude polygon/circle/line/shape/closed shape over random paths, repeat with circle/line/fibonacci transforms incl. zero transforms, small marching-cubes fields, Bowyer-Watson), small row/column/side counts enumerated exhaustively; " +
			"(chains) 1..8 operations drawn from the 50-operation catalogue applied to generated well-formed meshes and to earlier results (branching), each applied when its documented precondition holds and, for a drawn fraction, when it does not but the library itself checks it. " +
			"Oracle: oracle.WF on every returned mesh (common attribute length, indices in range, index count fits the topology, walking every primitive through ScanPrimitives/Tri accessors/BoundingBox raises no runtime error); a runtime.Error anywhere is a violation, a reported failure is not. " +
			"Non-trivial = generator case with a non-default option or count; chain whose input has non-identity indices or unreferenced vertices or >= 2 attribute arities, or with >= 2 applied operations. Distinct by case JSON. " +
			"Extrusion paths may be explicitly closed (last point == first) and one attribute name may exist in two dimensions. Sub-check node-generators: the 21 mesh-producing NodeData.Process() wrappers with every port unwired or wired to a generated constant (boundary counts 0,1,2,3,-1 and sizes 0,-1,1e-9,1e9 included; inputs a node reads without a default are always wired); non-trivial = mixed wiring or a boundary value.",
		Assumptions: []string{
			"attribute filters only on point topology; Circle/Cylinder/Cone with >= 3 sides; sphere rows >= 2, columns >= 3; SplitOnUniqueMaterials only with non-nil materials whose ranges partition the triangles; Copy*/Set* only with arrays of the common length (implicit preconditions the library does not check are never violated by the generator)",
			"extrusion paths have distinct consecutive points",
		},
	})
}

// ---------------------------------------------------------------- generators

type GenCase struct {
	Kind string
	I    []int     `json:",omitempty"`
	F    []float64 `json:",omitempty"`
	B    []bool    `json:",omitempty"`
}

var genKinds = []string{"sphere", "sphereU", "hemi", "cubeW", "cubeQ", "cyl", "circle", "quad", "cone", "polygon", "circleEx", "line", "shape", "closedShape", "repeatCircle", "repeatLine", "repeatFib", "marching", "tri", "triConstrained"}

func genGen(t *rapid.T) GenCase {
	c := GenCase{Kind: rapid.SampledFrom(genKinds).Draw(t, "kind")}
	for i := 0; i < 3; i++ {
		c.I = append(c.I, rapid.IntRange(0, 40).Draw(t, "i"))
	}
	for i := 0; i < 4; i++ {
		c.F = append(c.F, math.Exp(rapid.Float64Range(math.Log(1e-3), math.Log(1e3)).Draw(t, "f")))
	}
	for i := 0; i < 5; i++ {
		c.B = append(c.B, rapid.Bool().Draw(t, "b"))
	}
	// path / point material for extrusions and triangulation
	n := rapid.IntRange(2, 8).Draw(t, "np")
	if c.Kind == "tri" || c.Kind == "triConstrained" {
		n = rapid.IntRange(3, 24).Draw(t, "npts")
	}
	for i := 0; i < n*3; i++ {
		c.F = append(c.F, float64(rapid.IntRange(-40, 40).Draw(t, "pc"))/8)
	}
	return c
}

func clampI(v, lo, hi int) int {
	if v < lo {
		return lo
	}
	if v > hi {
		return hi
	}
	return v
}

func (c GenCase) path() []vector3.Float64 {
	var p []vector3.Float64
	for i := 4; i+2 < len(c.F); i += 3 {
		v := vector3.New(c.F[i], c.F[i+1], c.F[i+2])
		if len(p) > 0 && p[len(p)-1].Distance(v) < 1e-9 {
			continue // distinct consecutive points
		}
		p = append(p, v)
	}
	return p
}

func buildGen(c GenCase) (m modeling.Mesh, ok bool) {
	I := append(append([]int{}, c.I...), 0, 0, 0)
	F := append(append([]float64{}, c.F...), 1, 1, 1, 1)
	B := append(append([]bool{}, c.B...), false, false, false, false, false)
	rows, cols, sides := clampI(I[0], 2, 40), clampI(I[1], 3, 40), clampI(I[2], 3, 40)
	switch c.Kind {
	case "sphere":
		return primitives.UVSphere(F[0], rows, cols), true
	case "sphereU":
		return primitives.UVSphereUnwelded(F[0], rows, cols), true
	case "hemi":
		return primitives.Hemisphere{Radius: F[0], Capped: B[0]}.UV(rows, cols), true
	case "cubeW", "cubeQ":
		cb := primitives.Cube{Width: F[0], Height: F[1], Depth: F[2]}
		if B[0] {
			cb.UVs = primitives.DefaultCubeUVs()
			if B[1] { // a partial table: any subset of the six faces (every field of CubeUVs is optional)
				mask := I[0] % 64
				for i, f := range []**primitives.StripUVs{&cb.UVs.Top, &cb.UVs.Bottom, &cb.UVs.Left, &cb.UVs.Right, &cb.UVs.Front, &cb.UVs.Back} {
					if mask&(1<<i) == 0 {
						*f = nil
					}
				}
			}
		}
		if c.Kind == "cubeW" {
			return cb.Welded(), true
		}
		return cb.UnweldedQuads(), true
	case "cyl":
		cy := primitives.Cylinder{Sides: sides, Height: F[0], Radius: F[1], NoTop: B[0], NoBottom: B[1]}
		if B[2] {
			cy.UVs = &primitives.CylinderUVs{}
			if B[3] {
				cy.UVs.Top = &primitives.CircleUVs{Radius: 0.5}
			}
			if B[4] {
				cy.UVs.Bottom = &primitives.CircleUVs{Radius: 0.5}
			}
			if B[0] != B[3] {
				cy.UVs.Side = &primitives.StripUVs{Start: vector2.New(0., 0.5), End: vector2.New(1., 0.5), Width: 1}
			}
		}
		return cy.ToMesh(), true
	case "circle":
		ci := primitives.Circle{Sides: sides, Radius: F[0]}
		if B[0] {
			ci.UVs = &primitives.CircleUVs{Radius: 0.5}
		}
		return ci.ToMesh(), true
	case "quad":
		q := primitives.Quad{Width: F[0], Depth: F[1]}
		if B[0] {
			q.UVs = &primitives.StripUVs{Start: vector2.New(0., 0.5), End: vector2.New(1., 0.5), Width: 1}
		}
		return q.ToMesh(), true
	case "cone":
		return primitives.Cone{Sides: sides, Radius: F[0], Height: F[1]}.ToMesh(), true
	}
	p := c.path()
	switch c.Kind {
	case "polygon":
		if len(p) < 2 {
			return m, false
		}
		pts := make([]extrude.ExtrusionPoint, len(p))
		for i := range p {
			pts[i] = extrude.ExtrusionPoint{Point: p[i], Thickness: F[i%4]}
			if B[0] {
				pts[i].UV = &extrude.ExtrusionPointUV{Point: vector2.New(0.5, float64(i)), Thickness: 1}
			}
		}
		return extrude.Polygon(clampI(I[2], 3, 14), pts), true
	case "circleEx":
		if len(p) < 2 {
			return m, false
		}
		return extrude.Circle{Resolution: clampI(I[2], 3, 14), Radius: F[0], Path: p, ClosePath: B[0]}.Extrude(), true
	case "line":
		if len(p) < 2 {
			return m, false
		}
		lp := make([]extrude.LinePoint, len(p))
		for i := range p {
			lp[i] = extrude.LinePoint{Point: p[i], Up: vector3.Up[float64](), Width: F[0], Height: F[1]}
		}
		return extrude.Line(lp), true
	case "shape", "closedShape":
		sh := []vector2.Float64{vector2.New(0., 0), vector2.New(1., 0), vector2.New(1., 1), vector2.New(0., 1), vector2.New(-0.5, 0.5)}[:clampI(I[0], 3, 5)]
		if B[4] && len(p) >= 3 { // an explicitly closed polyline (GIS/CAD data, append(loop, loop[0])): last point == first point
			p = append(p, p[0])
		}
		if c.Kind == "shape" {
			if len(p) < 2 {
				return m, false
			}
			return extrude.Shape(sh, p), true
		}
		if len(p) < 3 {
			return m, false
		}
		return extrude.ClosedShape(sh, p), true
	case "repeatCircle", "repeatLine", "repeatFib":
		base := primitives.Cube{Width: 1, Height: 1, Depth: 1}.Welded()
		if B[0] {
			base = primitives.Quad{Width: 1, Depth: 1}.ToMesh().ToPointCloud()
		}
		var ts []trs.TRS
		switch c.Kind {
		case "repeatCircle":
			ts = repeat.Circle(clampI(I[0], 0, 12), F[0])
		case "repeatLine":
			if len(p) < 2 {
				return m, false
			}
			if B[1] {
				ts = repeat.LineExlusive(p[0], p[1], clampI(I[0], 0, 8))
			} else {
				ts = repeat.Line(p[0], p[1], clampI(I[0], 0, 8))
			}
		default:
			ts = repeat.FibonacciSphere(clampI(I[0], 0, 14), F[0])
		}
		return repeat.Mesh(base, ts), true
	case "marching":
		cpu := 0.5 + float64(I[0]%8)
		cell := 1 / cpu
		ctr := vector3.New(float64(I[1]%5-2)*100*cell, 0, float64(I[2]%3-1)*100*cell).Add(vector3.New(F[4], F[5], F[6]).Scale(cell))
		f := marching.Sphere(ctr, (2.5+float64(I[1]%4))*cell, 1)
		if B[0] {
			f = marching.Box(ctr, vector3.New(5., 6, 7).Scale(cell), 1)
		}
		if B[1] {
			f = f.Combine(marching.Line(ctr, ctr.Add(vector3.New(4., 3, 2).Scale(cell)), 2.5*cell, 1))
		}
		cv := marching.NewMarchingCanvas(cpu)
		cv.AddField(f)
		if B[2] {
			return cv.MarchParallel(0), true
		}
		return cv.March(0), true
	case "tri":
		var pts []vector2.Float64
		for i := 4; i+1 < len(c.F); i += 2 {
			pts = append(pts, vector2.New(c.F[i], c.F[i+1]))
		}
		if len(pts) < 3 {
			return m, false
		}
		return triangulation.BowyerWatson(pts), true
	case "triConstrained":
		// the triangulation clipped by a convex outline (a regular polygon that cuts through it)
		var pts []vector2.Float64
		for i := 4; i+1 < len(c.F); i += 2 {
			pts = append(pts, vector2.New(c.F[i], c.F[i+1]))
		}
		if len(pts) < 3 {
			return m, false
		}
		sides := 3 + I[0]%6
		radius := 0.5 + float64(I[1]%9)*0.55
		centre := vector2.New(float64(I[2]%5-2)*0.6, 0.3)
		var outline []vector2.Float64
		for k := 0; k < sides; k++ {
			a := 2*math.Pi*float64(k)/float64(sides) + 0.1
			outline = append(outline, centre.Add(vector2.New(math.Cos(a), math.Sin(a)).Scale(radius)))
		}
		return triangulation.ConstrainedBowyerWatson(pts, []triangulation.Constraint{triangulation.NewConstraint(outline)}), true
	}
	return m, false
}

func runGen(c GenCase, o *vh.Obs) *vh.Failure {
	var m modeling.Mesh
	var ok bool
	kind, val := oracle.Try(func() { m, ok = buildGen(c) })
	o.Class("gen/" + c.Kind)
	if kind == "crash" {
		return vh.Failf("generator-crash/"+c.Kind, "%s crashed on accepted parameters: %v", c.Kind, val)
	}
	if kind == "reported" {
		o.Count("reported-failure", 1)
		return nil
	}
	if !ok {
		return nil
	}
	o.NonTrivial()
	if err := oracle.WF(m); err != nil {
		return vh.Failf("generator-malformed/"+c.Kind, "%s returned a malformed mesh: %v", c.Kind, err)
	}
	if m.Indices().Len() == 0 {
		o.Class("gen-empty/" + c.Kind)
	}
	return nil
}

// ---------------------------------------------------------------- chains

type ChainOp struct {
	Op  mops.Op
	Try bool // attempt even when the (library-checked) precondition is unmet
}

type ChainCase struct {
	// LargeN > 0 adds a source with more than 65 536 vertices, almost all unreferenced (built from a
	// recipe, not stored): counts, shift tables and fast paths beyond 16 bits
	LargeN    int `json:",omitempty"`
	LargeTopo int `json:",omitempty"`
	Seeds     []gen.MeshDesc
	Prim      []int // extra sources: primitive generator results (kind per entry)
	Ops       []ChainOp
}

var chainKinds = func() []string {
	var ks []string
	for _, k := range mops.Kinds {
		switch {
		case k == "fresh" || k == "prim" || k == "scan" || k == "scan2" || k == "fresh-line" || k == "prim2":
		case len(k) > 6 && k[:6] == "export":
		default:
			ks = append(ks, k)
		}
	}
	return ks
}()

func genChain(t *rapid.T) ChainCase {
	c := ChainCase{}
	ns := rapid.IntRange(1, 2).Draw(t, "seeds")
	for i := 0; i < ns; i++ {
		c.Seeds = append(c.Seeds, gen.Mesh(t, gen.MeshOpts{MaxN: 7, MaxPrims: 5, NeedPos: rapid.IntRange(0, 3).Draw(t, "needpos") > 0, Materials: true, DupPos: true,
			Attrs: []gen.AttrSpec{{Name: modeling.PositionAttribute, Arity: 3}, {Name: modeling.NormalAttribute, Arity: 3}, {Name: modeling.TexCoordAttribute, Arity: 2},
				{Name: modeling.ColorAttribute, Arity: 3}, {Name: "w", Arity: 1}, {Name: modeling.RotationAttribute, Arity: 4},
				{Name: modeling.ColorAttribute, Arity: 4}, {Name: "w", Arity: 3}}}, fmt.Sprintf("s%d", i))) // the last two: a name in a second dimension
	}
	if rapid.IntRange(0, 3).Draw(t, "withPrim") == 0 {
		c.Prim = []int{rapid.IntRange(0, 6).Draw(t, "prim")}
	}
	if rapid.IntRange(0, 59).Draw(t, "withLarge") == 0 {
		c.LargeN = 65536 + rapid.IntRange(1, 2000).Draw(t, "over")
		c.LargeTopo = int(rapid.SampledFrom([]modeling.Topology{modeling.TriangleTopology, modeling.PointTopology}).Draw(t, "largeTopo"))
	}
	c.Ops = rapid.SliceOfN(rapid.Custom(func(t *rapid.T) ChainOp {
		op := mops.Gen(t)
		for op.K == "fresh" || op.K == "prim" || op.K == "scan" || op.K == "scan2" || op.K == "fresh-line" || op.K == "prim2" || (len(op.K) > 6 && op.K[:6] == "export") {
			op.K = rapid.SampledFrom(chainKinds).Draw(t, "kind2")
			mops.Fill(t, &op)
		}
		return ChainOp{Op: op, Try: rapid.IntRange(0, 6).Draw(t, "try") == 0}
	}), 1, 8).Draw(t, "ops")
	// sibling derivations from one base (and appends, which grow every array) are where aliasing between
	// results shows; make them more frequent than independent draws would
	for i := 1; i < len(c.Ops); i++ {
		switch rapid.IntRange(0, 5).Draw(t, "bias") {
		case 0:
			c.Ops[i].Op.A = c.Ops[i-1].Op.A
		case 1:
			c.Ops[i].Op.K, c.Ops[i].Op.A = "append", c.Ops[i-1].Op.A
		case 2:
			c.Ops[i].Op.K = "append"
		}
	}
	return c
}

func runChain(c ChainCase, o *vh.Obs) *vh.Failure {
	var pool []modeling.Mesh
	nontrivial := false
	for _, d := range c.Seeds {
		pool = append(pool, d.Build())
		if !d.IdentityIdx() || d.HasUnreferenced() || arities(d) >= 2 {
			nontrivial = true
		}
	}
	if c.LargeN > 65536 && c.LargeN <= 70000 {
		pool = append([]modeling.Mesh{largeMesh(c.LargeN, modeling.Topology(c.LargeTopo))}, pool...) // slot 0: most picks land on it
		nontrivial = true
		o.Class("chain/large-source")
	}
	for _, k := range c.Prim {
		pool = append(pool, mops.Apply(mops.Op{K: "prim", X: []int{k, 3, 4}}, modeling.Mesh{}, modeling.Mesh{})...)
	}
	for i, m := range pool {
		if err := oracle.WFStatic(m); err != nil {
			return vh.Failf("harness-input-malformed", "generated input %d is not well-formed (harness bug): %v", i, err)
		}
		if err := oracle.WF(m); err != nil {
			return vh.Failf("accessor-crash-on-wellformed-mesh", "input %d has consistent arrays and in-range indices, yet %v", i, err)
		}
	}
	applied := 0
	for step, co := range c.Ops {
		a, b := pool[co.Op.A%len(pool)], pool[co.Op.B%len(pool)]
		ok, checked := mops.Pre(co.Op, a, b)
		if !ok && !(checked && co.Try) {
			o.Count("skipped-precondition", 1)
			continue
		}
		var res []modeling.Mesh
		kind, val := oracle.Try(func() { res = mops.Apply(co.Op, a, b) })
		switch kind {
		case "crash":
			return vh.Failf("op-crash/"+co.Op.K, "step %d: %s crashed (precondition met: %v): %v", step, co.Op.K, ok, val)
		case "reported":
			if ok {
				// an in-domain input must not be refused... unless the op has further documented limits
				o.Count("reported-failure-in-domain/"+co.Op.K, 1)
			} else {
				o.Count("reported-failure", 1)
				o.Class("chain/reported-failure")
			}
			continue
		}
		applied++
		o.Class("chain-op/" + co.Op.K)
		for ri, r := range res {
			if err := oracle.WF(r); err != nil {
				return vh.Failf("op-malformed/"+co.Op.K, "step %d: result %d of %s (precondition met: %v) is malformed: %v", step, ri, co.Op.K, ok, err)
			}
			if r.AttributeLength() <= 4000 || (c.LargeN > 0 && len(pool) < 6) {
				pool = append(pool, r)
			}
		}
	}
	// every mesh obtained during the chain must still be well-formed at the end (a later operation
	// must not turn an earlier result into one whose accessors read out of range)
	for i, m := range pool {
		if err := oracle.WF(m); err != nil {
			return vh.Failf("earlier-result-became-malformed", "mesh %d of the chain was well-formed when returned but is not at the end of the chain: %v", i, err)
		}
	}
	if applied >= 2 {
		nontrivial = true
		o.Class("chain/2+ops")
	}
	if nontrivial && applied > 0 {
		o.NonTrivial()
	}
	return nil
}

func largeMesh(n int, topo modeling.Topology) modeling.Mesh {
	pos := make([]vector3.Float64, n)
	w := make([]float64, n)
	for i := range pos {
		pos[i] = vector3.New(float64(i%251)/8, float64((i/251)%251)/8, float64(i/63001)/8+float64(i%7)/64)
		w[i] = float64(i)
	}
	idx := []int{0, 1, 2, 2, 1, 3, n/2 + 1, n / 2, n/2 + 5, n - 3, n - 2, n - 1, 0, n - 1, n / 2}
	if topo == modeling.PointTopology {
		idx = []int{n - 1, 0, n / 2, 3, n - 2}
	}
	return modeling.NewMesh(topo, idx).SetFloat3Attribute(modeling.PositionAttribute, pos).SetFloat1Attribute("w", w)
}

func arities(d gen.MeshDesc) int {
	n := 0
	for _, l := range []int{len(d.V1), len(d.V2), len(d.V3), len(d.V4)} {
		if l > 0 {
			n++
		}
	}
	return n
}

// small counts exhaustively
func smallGrid() []GenCase {
	var out []GenCase
	F := []float64{1.5, 2, 0.75, 1}
	for _, kind := range []string{"sphere", "sphereU", "hemi"} {
		for r := 2; r <= 12; r++ {
			for c := 3; c <= 12; c++ {
				for _, b := range []bool{false, true} {
					if b && kind != "hemi" {
						continue
					}
					out = append(out, GenCase{Kind: kind, I: []int{r, c, 3}, F: F, B: []bool{b}})
				}
			}
		}
	}
	for _, kind := range []string{"cyl", "circle", "cone"} {
		for s := 3; s <= 40; s++ {
			for mask := 0; mask < 32; mask++ {
				if kind != "cyl" && mask > 1 {
					break
				}
				out = append(out, GenCase{Kind: kind, I: []int{2, 3, s}, F: F, B: []bool{mask&1 != 0, mask&2 != 0, mask&4 != 0, mask&8 != 0, mask&16 != 0}})
			}
		}
	}
	for _, kind := range []string{"cubeW", "cubeQ"} {
		for mask := 0; mask < 64; mask++ {
			out = append(out, GenCase{Kind: kind, I: []int{mask, 3, 3}, F: F, B: []bool{true, true}})
		}
	}
	return out
}

func TestC02(t *testing.T) {
	vh.Enumerate(t, vh.Spec[GenCase]{Name: "generators-small-grid", Run: runGen}, smallGrid())
	vh.Drive(t, vh.Spec[GenCase]{Name: "generators", Quick: 4000, Thorough: 150000, Gen: genGen, Run: runGen})
	vh.Drive(t, vh.Spec[ChainCase]{Name: "chains", Quick: 60000, Thorough: 2000000, Gen: genChain, Run: runChain})
	vh.Drive(t, vh.Spec[NodeCase]{Name: "node-generators", Quick: 24000, Thorough: 800000, Gen: genNodeCase, Run: runNodeCase})
}
