package c02

// Sub-check "node-generators": the node-graph wrappers (`...NodeData.Process()`) of the geometry
// generators and mesh operations, which is what the node editor runs. Every port is either left
// unwired (the struct field stays nil) or wired to a constant (nodes.Value(x).Out()); counts and
// sizes include boundary values (0, 1, 2, 3, -1 / 0, -1, 1e-9, 1e9); mesh inputs are generated
// well-formed meshes. Process must return a well-formed mesh or report failure (error return, or a
// panic carrying a deliberate error/string); a Go runtime error or a malformed mesh is a violation.

import (
	"fmt"
	"math"
	"runtime/debug"
	"sort"
	"strings"

	"github.com/EliCDavis/polyform/math/curves"
	"github.com/EliCDavis/polyform/math/geometry"
	"github.com/EliCDavis/polyform/math/quaternion"
	"github.com/EliCDavis/polyform/math/trs"
	"github.com/EliCDavis/polyform/modeling"
	"github.com/EliCDavis/polyform/modeling/extrude"
	"github.com/EliCDavis/polyform/modeling/meshops"
	"github.com/EliCDavis/polyform/modeling/primitives"
	"github.com/EliCDavis/polyform/modeling/repeat"
	"github.com/EliCDavis/polyform/nodes"
	"github.com/EliCDavis/vector/vector2"
	"github.com/EliCDavis/vector/vector3"
	"pgregory.net/rapid"

	"verifharness/internal/gen"
	"verifharness/internal/oracle"
	"verifharness/internal/vh"
)

// ---------------------------------------------------------------- case

type TRSDesc struct {
	P     [3]float64
	Axis  [3]float64 // rotation axis (non-zero)
	Angle float64
	S     [3]float64
}

type QuatDesc struct {
	Axis  [3]float64 // non-zero
	Angle float64
}

type BoxDesc struct {
	Center [3]float64
	Size   [3]float64 // non-negative
}

type StripDesc struct {
	Start [2]float64
	End   [2]float64
	Width float64
}

type CircleUVDesc struct {
	Center [2]float64
	Radius float64
}

// SplineDesc is turned into a curves.Spline the way the node editor does it: through
// curves.CatmullRomSplineNodeData.Process (which yields a nil Spline for fewer than 4 points).
type SplineDesc struct {
	Points [][3]float64
	Alpha  float64
}

// NodeCase is one node with every port either unwired or wired to a constant. Values are only
// present for wired ports. All maps are keyed by port name.
type NodeCase struct {
	Type  string
	Wired map[string]bool
	// Bnd marks the ports whose value (or, for a radii list, one of whose values) was drawn from the
	// boundary set of its kind rather than from the sensible range
	Bnd    map[string]bool         `json:",omitempty"`
	I      map[string]int          `json:",omitempty"`
	F      map[string]float64      `json:",omitempty"`
	B      map[string]bool         `json:",omitempty"`
	S      map[string]string       `json:",omitempty"`
	V3     map[string][3]float64   `json:",omitempty"`
	Pts    map[string][][3]float64 `json:",omitempty"`
	Fs     map[string][]float64    `json:",omitempty"`
	Mesh   map[string]gen.MeshDesc `json:",omitempty"`
	TRS    map[string][]TRSDesc    `json:",omitempty"`
	Q      map[string]QuatDesc     `json:",omitempty"`
	Box    map[string]BoxDesc      `json:",omitempty"`
	Strip  map[string]StripDesc    `json:",omitempty"`
	CUV    map[string]CircleUVDesc `json:",omitempty"`
	Spline map[string]SplineDesc   `json:",omitempty"`
}

// ---------------------------------------------------------------- catalogue of node types

const (
	pkCount    = "count"    // int; Lo..Hi is the generator's sensible range
	pkSize     = "size"     // positive length
	pkFloat    = "float"    // any finite float
	pkBool     = "bool"     //
	pkAttr     = "attr"     // attribute name; Ref = mesh port it names an attribute of
	pkMesh     = "mesh"     //
	pkPts      = "pts"      // []vector3
	pkRadii    = "radii"    // []float64; Ref = port that decides the expected length
	pkTRS      = "trs"      // []trs.TRS
	pkQuat     = "quat"     //
	pkBox      = "aabb"     //
	pkStrip    = "stripuvs" //
	pkCircleUV = "circleuvs"
	pkV3       = "v3"
	pkSpline   = "spline"
)

type nodePort struct {
	Name   string
	Kind   string
	Lo, Hi int
	Ref    string
	Points bool // mesh port of a node that only accepts point clouds: point topology most often
}

type nodeSpec struct {
	Type  string
	Ports []nodePort // in generation order: a port comes after the port its Ref names
}

var nodeSpecs = []nodeSpec{
	{"primitives.Circle", []nodePort{{Name: "Radius", Kind: pkSize}, {Name: "Sides", Kind: pkCount, Lo: 3, Hi: 40}, {Name: "UVs", Kind: pkCircleUV}}},
	{"primitives.Cone", []nodePort{{Name: "Height", Kind: pkSize}, {Name: "Radius", Kind: pkSize}, {Name: "Sides", Kind: pkCount, Lo: 3, Hi: 40}}},
	{"primitives.Cube", []nodePort{{Name: "Width", Kind: pkSize}, {Name: "Height", Kind: pkSize}, {Name: "Depth", Kind: pkSize}}},
	{"primitives.Cylinder", []nodePort{{Name: "Sides", Kind: pkCount, Lo: 3, Hi: 40}, {Name: "Height", Kind: pkSize}, {Name: "Radius", Kind: pkSize}, {Name: "Top", Kind: pkBool}, {Name: "Bottom", Kind: pkBool}}},
	{"primitives.Hemisphere", []nodePort{{Name: "Rows", Kind: pkCount, Lo: 2, Hi: 24}, {Name: "Columns", Kind: pkCount, Lo: 3, Hi: 24}, {Name: "Radius", Kind: pkSize}, {Name: "Capped", Kind: pkBool}}},
	{"primitives.Quad", []nodePort{{Name: "Width", Kind: pkSize}, {Name: "Depth", Kind: pkSize}, {Name: "UVs", Kind: pkStrip}}},
	{"primitives.UvSphere", []nodePort{{Name: "Radius", Kind: pkSize}, {Name: "Rows", Kind: pkCount, Lo: 2, Hi: 24}, {Name: "Columns", Kind: pkCount, Lo: 3, Hi: 24}, {Name: "Weld", Kind: pkBool}}},
	{"extrude.Circle", []nodePort{{Name: "Path", Kind: pkPts}, {Name: "Radii", Kind: pkRadii, Ref: "Path"}, {Name: "Radius", Kind: pkSize}, {Name: "Resolution", Kind: pkCount, Lo: 3, Hi: 14}, {Name: "Closed", Kind: pkBool}}},
	{"extrude.CircleAlongSpline", []nodePort{{Name: "Spline", Kind: pkSpline}, {Name: "SplineResolution", Kind: pkCount, Lo: 3, Hi: 24}, {Name: "Radii", Kind: pkRadii, Ref: "SplineResolution"}, {Name: "Radius", Kind: pkSize}, {Name: "CircleResolution", Kind: pkCount, Lo: 3, Hi: 14}, {Name: "Closed", Kind: pkBool}}},
	{"extrude.Screw", []nodePort{{Name: "Line", Kind: pkPts}, {Name: "Segments", Kind: pkCount, Lo: 2, Hi: 24}, {Name: "Revolutions", Kind: pkFloat}, {Name: "Distance", Kind: pkSize}, {Name: "UVs", Kind: pkStrip}}},
	{"repeat.Mesh", []nodePort{{Name: "Mesh", Kind: pkMesh}, {Name: "Transforms", Kind: pkTRS}}},
	{"meshops.FlatNormals", []nodePort{{Name: "Mesh", Kind: pkMesh}}},
	{"meshops.LaplacianSmooth", []nodePort{{Name: "Mesh", Kind: pkMesh}, {Name: "Attribute", Kind: pkAttr, Ref: "Mesh"}, {Name: "Iterations", Kind: pkCount, Lo: 0, Hi: 4}, {Name: "SmoothingFactor", Kind: pkFloat}}},
	{"meshops.CropAttribute3D", []nodePort{{Name: "Mesh", Kind: pkMesh, Points: true}, {Name: "Attribute", Kind: pkAttr, Ref: "Mesh"}, {Name: "AABB", Kind: pkBox}}},
	{"meshops.TranslateAttribute3D", []nodePort{{Name: "Mesh", Kind: pkMesh}, {Name: "Attribute", Kind: pkAttr, Ref: "Mesh"}, {Name: "Amount", Kind: pkV3}}},
	{"meshops.RotateAttribute3D", []nodePort{{Name: "Mesh", Kind: pkMesh}, {Name: "Attribute", Kind: pkAttr, Ref: "Mesh"}, {Name: "Amount", Kind: pkQuat}}},
	{"meshops.Combine", []nodePort{{Name: "A", Kind: pkMesh}, {Name: "B", Kind: pkMesh}}},
	{"meshops.ScaleAttributeAlongNormal", []nodePort{{Name: "Mesh", Kind: pkMesh}, {Name: "Amount", Kind: pkFloat}, {Name: "AttributeToScale", Kind: pkAttr, Ref: "Mesh"}, {Name: "NormalAttribute", Kind: pkAttr, Ref: "Mesh"}}},
	{"meshops.ScaleAttribute3D", []nodePort{{Name: "Mesh", Kind: pkMesh}, {Name: "Attribute", Kind: pkAttr, Ref: "Mesh"}, {Name: "Amount", Kind: pkV3}, {Name: "Origin", Kind: pkV3}}},
	{"meshops.SmoothNormals", []nodePort{{Name: "Mesh", Kind: pkMesh}}},
	{"meshops.SmoothNormalsImplicitWeld", []nodePort{{Name: "Mesh", Kind: pkMesh}, {Name: "Distance", Kind: pkSize}}},
}

func nodeSpecOf(typ string) (nodeSpec, bool) {
	for _, s := range nodeSpecs {
		if s.Type == typ {
			return s, true
		}
	}
	return nodeSpec{}, false
}

var (
	boundaryCounts = []int{0, 1, 2, 3, -1}
	boundarySizes  = []float64{0, -1, 1e-9, 1e9}
	nodeMeshTopos  = []modeling.Topology{ // any topology, triangles and points most often
		modeling.TriangleTopology, modeling.TriangleTopology, modeling.TriangleTopology, modeling.TriangleTopology,
		modeling.PointTopology, modeling.PointTopology,
		modeling.QuadTopology, modeling.LineTopology, modeling.LineStripTopology, modeling.LineLoopTopology,
	}
	nodeMeshToposPoints = []modeling.Topology{
		modeling.PointTopology, modeling.PointTopology, modeling.PointTopology, modeling.PointTopology, modeling.PointTopology, modeling.PointTopology,
		modeling.TriangleTopology, modeling.QuadTopology, modeling.LineTopology, modeling.LineStripTopology, modeling.LineLoopTopology,
	}
	nodeMeshAttrs = []gen.AttrSpec{{Name: modeling.PositionAttribute, Arity: 3}, {Name: modeling.NormalAttribute, Arity: 3}, {Name: modeling.TexCoordAttribute, Arity: 2},
		{Name: modeling.ColorAttribute, Arity: 3}, {Name: "w", Arity: 1}, {Name: modeling.RotationAttribute, Arity: 4}}
	// names that are never a float3 attribute of a generated mesh (absent, or of another arity)
	absentAttrs = []string{"Absent", modeling.TexCoordAttribute, "w"}
)

// ---------------------------------------------------------------- generator

func eighth(t *rapid.T, label string) float64 {
	return float64(rapid.IntRange(-32, 32).Draw(t, label)) / 8
}

func eighth2(t *rapid.T, label string) [2]float64 {
	return [2]float64{eighth(t, label+".x"), eighth(t, label+".y")}
}

func eighth3(t *rapid.T, label string) [3]float64 {
	return [3]float64{eighth(t, label+".x"), eighth(t, label+".y"), eighth(t, label+".z")}
}

func axis3(t *rapid.T, label string) [3]float64 {
	a := eighth3(t, label)
	if a == [3]float64{} {
		a = [3]float64{0, 1, 0}
	}
	return a
}

func anyFloat(t *rapid.T, label string) float64 {
	if rapid.IntRange(0, 5).Draw(t, label+".k") == 5 {
		return rapid.Float64Range(-1e3, 1e3).Draw(t, label+".f")
	}
	return eighth(t, label)
}

// sizeVal: mostly 10^U(-3,3), in about 1 case of 8 a boundary value.
func sizeVal(t *rapid.T, label string) (v float64, boundary bool) {
	if rapid.IntRange(0, 7).Draw(t, label+".bnd") == 0 {
		return rapid.SampledFrom(boundarySizes).Draw(t, label+".bv"), true
	}
	return math.Pow(10, rapid.Float64Range(-3, 3).Draw(t, label+".exp")), false
}

func points(t *rapid.T, label string) [][3]float64 {
	n := rapid.IntRange(0, 8).Draw(t, label+".n")
	ps := make([][3]float64, 0, n)
	for i := 0; i < n; i++ {
		if i > 0 && rapid.IntRange(0, 5).Draw(t, label+".rep") == 0 {
			// a repeated point: the previous one (a zero-length segment) or any earlier one
			ps = append(ps, ps[rapid.IntRange(0, i-1).Draw(t, label+".repOf")])
			continue
		}
		ps = append(ps, eighth3(t, fmt.Sprintf("%s[%d]", label, i)))
	}
	return ps
}

func attrName(t *rapid.T, label string, mesh *gen.MeshDesc) string {
	var has []string
	if mesh != nil {
		for k := range mesh.V3 {
			has = append(has, k)
		}
		sort.Strings(has)
	}
	switch k := rapid.IntRange(0, 9).Draw(t, label+".k"); {
	case k == 0:
		return rapid.SampledFrom(absentAttrs).Draw(t, label+".absent")
	case k <= 2:
		return modeling.PositionAttribute
	case k == 3:
		return modeling.NormalAttribute
	case k == 4:
		return ""
	default:
		if len(has) == 0 {
			return modeling.PositionAttribute
		}
		return rapid.SampledFrom(has).Draw(t, label+".has")
	}
}

// requiredPorts: inputs a node reads without offering a default. Leaving one of them unwired is not
// a parameterisation the node accepts (the editor shows the node as failing until it is wired: the
// read is a nil dereference that the graph runtime recovers); every other port may be unwired.
// The table is fixed here, from the pinned tree: a port that loses its default later is reported.
var requiredPorts = map[string][]string{
	"meshops.LaplacianSmooth":      {"Mesh", "Iterations", "SmoothingFactor"},
	"meshops.CropAttribute3D":      {"Mesh"},
	"meshops.TranslateAttribute3D": {"Mesh", "Amount"},
	"meshops.RotateAttribute3D":    {"Amount"},
	"meshops.ScaleAttribute3D":     {"Mesh", "Amount"},
}

func isRequired(typ, port string) bool {
	for _, p := range requiredPorts[typ] {
		if p == port {
			return true
		}
	}
	return false
}

func genNodeCase(t *rapid.T) NodeCase {
	spec := nodeSpecs[rapid.IntRange(0, len(nodeSpecs)-1).Draw(t, "type")]
	c := NodeCase{Type: spec.Type, Wired: map[string]bool{}}
	for _, p := range spec.Ports {
		wired := rapid.IntRange(0, 3).Draw(t, p.Name+".wired") > 0 || isRequired(spec.Type, p.Name)
		c.Wired[p.Name] = wired
		if !wired {
			continue
		}
		switch p.Kind {
		case pkCount:
			var v int
			if rapid.IntRange(0, 5).Draw(t, p.Name+".bnd") == 0 {
				v = rapid.SampledFrom(boundaryCounts).Draw(t, p.Name+".bv")
				c.setBnd(p.Name)
			} else {
				v = rapid.IntRange(p.Lo, p.Hi).Draw(t, p.Name)
			}
			if c.I == nil {
				c.I = map[string]int{}
			}
			c.I[p.Name] = v
		case pkSize:
			v, b := sizeVal(t, p.Name)
			if b {
				c.setBnd(p.Name)
			}
			c.setF(p.Name, v)
		case pkFloat:
			c.setF(p.Name, anyFloat(t, p.Name))
		case pkBool:
			if c.B == nil {
				c.B = map[string]bool{}
			}
			c.B[p.Name] = rapid.Bool().Draw(t, p.Name)
		case pkMesh:
			topos := nodeMeshTopos
			if p.Points {
				topos = nodeMeshToposPoints
			}
			d := gen.Mesh(t, gen.MeshOpts{Topos: topos, MaxN: 7, MaxPrims: 5, NeedPos: rapid.IntRange(0, 3).Draw(t, p.Name+".needpos") > 0,
				Materials: true, DupPos: true, Attrs: nodeMeshAttrs}, p.Name)
			if c.Mesh == nil {
				c.Mesh = map[string]gen.MeshDesc{}
			}
			c.Mesh[p.Name] = d
		case pkAttr:
			var mesh *gen.MeshDesc
			if d, ok := c.Mesh[p.Ref]; ok {
				mesh = &d
			}
			if c.S == nil {
				c.S = map[string]string{}
			}
			c.S[p.Name] = attrName(t, p.Name, mesh)
		case pkPts:
			if c.Pts == nil {
				c.Pts = map[string][][3]float64{}
			}
			c.Pts[p.Name] = points(t, p.Name)
		case pkRadii:
			// the length the node compares the list against
			want := 0
			if ps, ok := c.Pts[p.Ref]; ok {
				want = len(ps)
			} else if n, ok := c.I[p.Ref]; ok {
				want = n
				if want < 3 {
					want = 3 // the node raises a wired resolution to 3
				}
			} else {
				want = rapid.IntRange(0, 8).Draw(t, p.Name+".len")
			}
			switch rapid.IntRange(0, 7).Draw(t, p.Name+".lenKind") {
			case 0:
				want = 0
			case 1:
				want--
			case 2:
				want++
			}
			if want < 0 {
				want = 0
			}
			rs := make([]float64, want)
			for i := range rs {
				var b bool
				rs[i], b = sizeVal(t, fmt.Sprintf("%s[%d]", p.Name, i))
				if b {
					c.setBnd(p.Name)
				}
			}
			if c.Fs == nil {
				c.Fs = map[string][]float64{}
			}
			c.Fs[p.Name] = rs
		case pkTRS:
			n := rapid.IntRange(0, 4).Draw(t, p.Name+".n")
			ts := make([]TRSDesc, n)
			for i := range ts {
				l := fmt.Sprintf("%s[%d]", p.Name, i)
				ts[i] = TRSDesc{P: eighth3(t, l+".p"), Axis: axis3(t, l+".axis"), Angle: float64(rapid.IntRange(-16, 16).Draw(t, l+".angle")) * math.Pi / 8, S: eighth3(t, l+".s")}
			}
			if c.TRS == nil {
				c.TRS = map[string][]TRSDesc{}
			}
			c.TRS[p.Name] = ts
		case pkQuat:
			if c.Q == nil {
				c.Q = map[string]QuatDesc{}
			}
			c.Q[p.Name] = QuatDesc{Axis: axis3(t, p.Name+".axis"), Angle: float64(rapid.IntRange(-16, 16).Draw(t, p.Name+".angle")) * math.Pi / 8}
		case pkBox:
			b := BoxDesc{Center: eighth3(t, p.Name+".center")}
			for i := range b.Size {
				b.Size[i] = float64(rapid.IntRange(0, 64).Draw(t, p.Name+".size")) / 8
			}
			if c.Box == nil {
				c.Box = map[string]BoxDesc{}
			}
			c.Box[p.Name] = b
		case pkStrip:
			if c.Strip == nil {
				c.Strip = map[string]StripDesc{}
			}
			c.Strip[p.Name] = StripDesc{Start: eighth2(t, p.Name+".start"), End: eighth2(t, p.Name+".end"), Width: eighth(t, p.Name+".width")}
		case pkCircleUV:
			if c.CUV == nil {
				c.CUV = map[string]CircleUVDesc{}
			}
			c.CUV[p.Name] = CircleUVDesc{Center: eighth2(t, p.Name+".center"), Radius: eighth(t, p.Name+".radius")}
		case pkV3:
			if c.V3 == nil {
				c.V3 = map[string][3]float64{}
			}
			c.V3[p.Name] = eighth3(t, p.Name)
		case pkSpline:
			if c.Spline == nil {
				c.Spline = map[string]SplineDesc{}
			}
			c.Spline[p.Name] = SplineDesc{Points: points(t, p.Name), Alpha: float64(rapid.SampledFrom([]int{0, 4, 8, 2, 6}).Draw(t, p.Name+".alpha")) / 8}
		}
	}
	return c
}

func (c *NodeCase) setBnd(name string) {
	if c.Bnd == nil {
		c.Bnd = map[string]bool{}
	}
	c.Bnd[name] = true
}

func (c *NodeCase) setF(name string, v float64) {
	if c.F == nil {
		c.F = map[string]float64{}
	}
	c.F[name] = v
}

// ---------------------------------------------------------------- building the node

func wire[T any](wired bool, v T) nodes.NodeOutput[T] {
	if !wired {
		return nil // a nil interface: the port is unwired
	}
	return nodes.Value(v).Out()
}

func v2of(a [2]float64) vector2.Float64 { return vector2.New(a[0], a[1]) }
func v3of(a [3]float64) vector3.Float64 { return vector3.New(a[0], a[1], a[2]) }

func v3list(ps [][3]float64) []vector3.Float64 {
	out := make([]vector3.Float64, len(ps))
	for i, p := range ps {
		out[i] = v3of(p)
	}
	return out
}

// nodeInputs holds the wired values of a case, built once, outside the judged call.
type nodeInputs struct {
	c      NodeCase
	meshes map[string]modeling.Mesh
	spline map[string]curves.Spline
}

func (in nodeInputs) i(n string) nodes.NodeOutput[int]     { return wire(in.c.Wired[n], in.c.I[n]) }
func (in nodeInputs) f(n string) nodes.NodeOutput[float64] { return wire(in.c.Wired[n], in.c.F[n]) }
func (in nodeInputs) b(n string) nodes.NodeOutput[bool]    { return wire(in.c.Wired[n], in.c.B[n]) }
func (in nodeInputs) s(n string) nodes.NodeOutput[string]  { return wire(in.c.Wired[n], in.c.S[n]) }
func (in nodeInputs) fs(n string) nodes.NodeOutput[[]float64] {
	return wire(in.c.Wired[n], append([]float64{}, in.c.Fs[n]...))
}
func (in nodeInputs) v3(n string) nodes.NodeOutput[vector3.Float64] {
	return wire(in.c.Wired[n], v3of(in.c.V3[n]))
}
func (in nodeInputs) pts(n string) nodes.NodeOutput[[]vector3.Float64] {
	return wire(in.c.Wired[n], v3list(in.c.Pts[n]))
}
func (in nodeInputs) mesh(n string) nodes.NodeOutput[modeling.Mesh] {
	return wire(in.c.Wired[n], in.meshes[n])
}
func (in nodeInputs) spl(n string) nodes.NodeOutput[curves.Spline] {
	return wire(in.c.Wired[n], in.spline[n])
}
func (in nodeInputs) trs(n string) nodes.NodeOutput[[]trs.TRS] {
	ts := make([]trs.TRS, len(in.c.TRS[n]))
	for i, d := range in.c.TRS[n] {
		ts[i] = trs.New(v3of(d.P), quaternion.FromTheta(d.Angle, v3of(d.Axis)), v3of(d.S))
	}
	return wire(in.c.Wired[n], ts)
}
func (in nodeInputs) quat(n string) nodes.NodeOutput[quaternion.Quaternion] {
	if !in.c.Wired[n] {
		return nil
	}
	d := in.c.Q[n]
	return wire(true, quaternion.FromTheta(d.Angle, v3of(d.Axis)))
}
func (in nodeInputs) box(n string) nodes.NodeOutput[geometry.AABB] {
	d := in.c.Box[n]
	return wire(in.c.Wired[n], geometry.NewAABB(v3of(d.Center), v3of(d.Size)))
}
func (in nodeInputs) strip(n string) nodes.NodeOutput[primitives.StripUVs] {
	d := in.c.Strip[n]
	return wire(in.c.Wired[n], primitives.StripUVs{Start: v2of(d.Start), End: v2of(d.End), Width: d.Width})
}
func (in nodeInputs) cuv(n string) nodes.NodeOutput[primitives.CircleUVs] {
	d := in.c.CUV[n]
	return wire(in.c.Wired[n], primitives.CircleUVs{Center: v2of(d.Center), Radius: d.Radius})
}

// processor returns the Process method of the node the case describes.
func (in nodeInputs) processor() func() (modeling.Mesh, error) {
	switch in.c.Type {
	case "primitives.Circle":
		return primitives.CircleNodeData{Radius: in.f("Radius"), Sides: in.i("Sides"), UVs: in.cuv("UVs")}.Process
	case "primitives.Cone":
		return primitives.ConeNodeData{Height: in.f("Height"), Radius: in.f("Radius"), Sides: in.i("Sides")}.Process
	case "primitives.Cube":
		return primitives.CubeNodeData{Width: in.f("Width"), Height: in.f("Height"), Depth: in.f("Depth")}.Process
	case "primitives.Cylinder":
		return primitives.CylinderNodeData{Sides: in.i("Sides"), Height: in.f("Height"), Radius: in.f("Radius"), Top: in.b("Top"), Bottom: in.b("Bottom")}.Process
	case "primitives.Hemisphere":
		return primitives.HemisphereNodeData{Rows: in.i("Rows"), Columns: in.i("Columns"), Radius: in.f("Radius"), Capped: in.b("Capped")}.Process
	case "primitives.Quad":
		return primitives.QuadNodeData{Width: in.f("Width"), Depth: in.f("Depth"), UVs: in.strip("UVs")}.Process
	case "primitives.UvSphere":
		return primitives.UvSphereNodeData{Radius: in.f("Radius"), Rows: in.i("Rows"), Columns: in.i("Columns"), Weld: in.b("Weld")}.Process
	case "extrude.Circle":
		return extrude.CircleNodeData{Closed: in.b("Closed"), Resolution: in.i("Resolution"), Radius: in.f("Radius"), Radii: in.fs("Radii"), Path: in.pts("Path")}.Process
	case "extrude.CircleAlongSpline":
		return extrude.CircleAlongSplineNodeData{Closed: in.b("Closed"), CircleResolution: in.i("CircleResolution"), Radius: in.f("Radius"), Radii: in.fs("Radii"),
			Spline: in.spl("Spline"), SplineResolution: in.i("SplineResolution")}.Process
	case "extrude.Screw":
		return extrude.ScrewNodeData{Line: in.pts("Line"), Segments: in.i("Segments"), Revolutions: in.f("Revolutions"), Distance: in.f("Distance"), UVs: in.strip("UVs")}.Process
	case "repeat.Mesh":
		return repeat.MeshNodeData{Mesh: in.mesh("Mesh"), Transforms: in.trs("Transforms")}.Process
	case "meshops.FlatNormals":
		return meshops.FlatNormalsNodeData{Mesh: in.mesh("Mesh")}.Process
	case "meshops.LaplacianSmooth":
		return meshops.LaplacianSmoothNodeData{Mesh: in.mesh("Mesh"), Attribute: in.s("Attribute"), Iterations: in.i("Iterations"), SmoothingFactor: in.f("SmoothingFactor")}.Process
	case "meshops.CropAttribute3D":
		return meshops.CropAttribute3DNodeData{Attribute: in.s("Attribute"), Mesh: in.mesh("Mesh"), AABB: in.box("AABB")}.Process
	case "meshops.TranslateAttribute3D":
		return meshops.TranslateAttribute3DNodeData{Attribute: in.s("Attribute"), Mesh: in.mesh("Mesh"), Amount: in.v3("Amount")}.Process
	case "meshops.RotateAttribute3D":
		return meshops.RotateAttribute3DNodeData{Attribute: in.s("Attribute"), Mesh: in.mesh("Mesh"), Amount: in.quat("Amount")}.Process
	case "meshops.Combine":
		return meshops.CombineNodeData{A: in.mesh("A"), B: in.mesh("B")}.Process
	case "meshops.ScaleAttributeAlongNormal":
		return meshops.ScaleAttributeAlongNormalNodeData{Mesh: in.mesh("Mesh"), Amount: in.f("Amount"), AttributeToScale: in.s("AttributeToScale"), NormalAttribute: in.s("NormalAttribute")}.Process
	case "meshops.ScaleAttribute3D":
		return meshops.ScaleAttribute3DNodeData{Attribute: in.s("Attribute"), Mesh: in.mesh("Mesh"), Amount: in.v3("Amount"), Origin: in.v3("Origin")}.Process
	case "meshops.SmoothNormals":
		return meshops.SmoothNormalsNodeData{Mesh: in.mesh("Mesh")}.Process
	case "meshops.SmoothNormalsImplicitWeld":
		return meshops.SmoothNormalsImplicitWeldNodeData{Mesh: in.mesh("Mesh"), Distance: in.f("Distance")}.Process
	}
	return nil
}

// ---------------------------------------------------------------- domain, description

func finite(xs ...float64) bool {
	for _, x := range xs {
		if math.IsNaN(x) || math.IsInf(x, 0) {
			return false
		}
	}
	return true
}

// wiredValuesInDomain: the stated input domain, re-checked on the case itself (replay files bypass
// the generator): finite floats, small counts and lists, non-zero rotation axes, non-negative box.
func wiredValuesInDomain(c NodeCase, spec nodeSpec) bool {
	for _, p := range spec.Ports {
		if !c.Wired[p.Name] {
			continue
		}
		n := p.Name
		switch p.Kind {
		case pkCount:
			if v, ok := c.I[n]; !ok || v < -64 || v > 64 {
				return false
			}
		case pkSize, pkFloat:
			if v, ok := c.F[n]; !ok || !finite(v) {
				return false
			}
		case pkPts:
			if len(c.Pts[n]) > 64 {
				return false
			}
			for _, q := range c.Pts[n] {
				if !finite(q[:]...) {
					return false
				}
			}
		case pkRadii:
			if len(c.Fs[n]) > 64 || !finite(c.Fs[n]...) {
				return false
			}
		case pkTRS:
			if len(c.TRS[n]) > 16 {
				return false
			}
			for _, d := range c.TRS[n] {
				if !finite(d.P[:]...) || !finite(d.S[:]...) || !finite(d.Axis[:]...) || !finite(d.Angle) || d.Axis == [3]float64{} {
					return false
				}
			}
		case pkQuat:
			d, ok := c.Q[n]
			if !ok || !finite(d.Axis[:]...) || !finite(d.Angle) || d.Axis == [3]float64{} {
				return false
			}
		case pkBox:
			d := c.Box[n]
			if !finite(d.Center[:]...) || !finite(d.Size[:]...) || d.Size[0] < 0 || d.Size[1] < 0 || d.Size[2] < 0 {
				return false
			}
		case pkStrip:
			d := c.Strip[n]
			if !finite(d.Start[0], d.Start[1], d.End[0], d.End[1], d.Width) {
				return false
			}
		case pkCircleUV:
			d := c.CUV[n]
			if !finite(d.Center[0], d.Center[1], d.Radius) {
				return false
			}
		case pkV3:
			d := c.V3[n]
			if !finite(d[:]...) {
				return false
			}
		case pkSpline:
			d := c.Spline[n]
			if len(d.Points) > 64 || !finite(d.Alpha) || d.Alpha < 0 || d.Alpha > 1 {
				return false
			}
			for _, q := range d.Points {
				if !finite(q[:]...) {
					return false
				}
			}
		case pkMesh:
			if _, ok := c.Mesh[n]; !ok {
				return false
			}
		}
	}
	return true
}

func describeMesh(d gen.MeshDesc) string {
	var attrs []string
	for k := range d.V1 {
		attrs = append(attrs, k+":1")
	}
	for k := range d.V2 {
		attrs = append(attrs, k+":2")
	}
	for k := range d.V3 {
		attrs = append(attrs, k+":3")
	}
	for k := range d.V4 {
		attrs = append(attrs, k+":4")
	}
	sort.Strings(attrs)
	return fmt.Sprintf("mesh{%s, %d vertices, indices %v, attributes %v, %d material ranges}", d.Topology().String(), d.N, d.Idx, attrs, len(d.Mats))
}

// describeNode lists every port with what it was wired to.
func describeNode(c NodeCase, spec nodeSpec) string {
	var parts []string
	for _, p := range spec.Ports {
		n := p.Name
		if !c.Wired[n] {
			parts = append(parts, n+"=<unwired>")
			continue
		}
		var v string
		switch p.Kind {
		case pkCount:
			v = fmt.Sprint(c.I[n])
		case pkSize, pkFloat:
			v = fmt.Sprint(c.F[n])
		case pkBool:
			v = fmt.Sprint(c.B[n])
		case pkAttr:
			v = fmt.Sprintf("%q", c.S[n])
		case pkMesh:
			v = describeMesh(c.Mesh[n])
		case pkPts:
			v = fmt.Sprintf("%d points %v", len(c.Pts[n]), c.Pts[n])
		case pkRadii:
			v = fmt.Sprintf("%d radii %v", len(c.Fs[n]), c.Fs[n])
		case pkTRS:
			v = fmt.Sprintf("%d transforms %+v", len(c.TRS[n]), c.TRS[n])
		case pkQuat:
			v = fmt.Sprintf("FromTheta%+v", c.Q[n])
		case pkBox:
			v = fmt.Sprintf("AABB%+v", c.Box[n])
		case pkStrip:
			v = fmt.Sprintf("StripUVs%+v", c.Strip[n])
		case pkCircleUV:
			v = fmt.Sprintf("CircleUVs%+v", c.CUV[n])
		case pkV3:
			v = fmt.Sprint(c.V3[n])
		case pkSpline:
			v = fmt.Sprintf("CatmullRomSpline{%d points %v, alpha %v}", len(c.Spline[n].Points), c.Spline[n].Points, c.Spline[n].Alpha)
		}
		parts = append(parts, n+"="+v)
	}
	return strings.Join(parts, ", ")
}

// panicSite names the innermost library frame of a stack captured while panicking.
func panicSite(stack string) string {
	lines := strings.Split(stack, "\n")
	for i := 0; i+1 < len(lines); i++ {
		if strings.HasPrefix(lines[i], "github.com/EliCDavis/") {
			fn := lines[i]
			if k := strings.LastIndex(fn, "("); k > 0 {
				fn = fn[:k]
			}
			loc := strings.TrimSpace(lines[i+1])
			if k := strings.Index(loc, " +0x"); k > 0 {
				loc = loc[:k]
			}
			return fn + " (" + loc + ")"
		}
	}
	return "unknown site"
}

// ---------------------------------------------------------------- oracle

func runNodeCase(c NodeCase, o *vh.Obs) *vh.Failure {
	spec, ok := nodeSpecOf(c.Type)
	if !ok || !wiredValuesInDomain(c, spec) {
		o.Class("out-of-domain")
		return nil
	}
	for _, p := range requiredPorts[c.Type] {
		if !c.Wired[p] {
			o.Class("out-of-domain/required-port-unwired")
			return nil
		}
	}
	// inputs: built outside the judged call; mesh inputs must be well-formed
	in := nodeInputs{c: c, meshes: map[string]modeling.Mesh{}, spline: map[string]curves.Spline{}}
	for _, p := range spec.Ports {
		if !c.Wired[p.Name] {
			continue
		}
		switch p.Kind {
		case pkMesh:
			var m modeling.Mesh
			var wfErr error
			if kind, _ := oracle.Try(func() { m = c.Mesh[p.Name].Build(); wfErr = oracle.WF(m) }); kind != "" || wfErr != nil {
				o.Class("out-of-domain")
				o.Count("input-mesh-not-well-formed", 1)
				return nil
			}
			in.meshes[p.Name] = m
		case pkSpline:
			d := c.Spline[p.Name]
			var s curves.Spline
			var err error
			kind, _ := oracle.Try(func() {
				s, err = curves.CatmullRomSplineNodeData{Points: wire(true, v3list(d.Points)), Alpha: wire(true, d.Alpha)}.Process()
			})
			if kind != "" || err != nil { // the spline node itself failed: nothing reaches the node under test
				o.Class("out-of-domain")
				o.Count("input-spline-not-built", 1)
				return nil
			}
			in.spline[p.Name] = s // nil for fewer than 4 points, as in the editor
		}
	}
	proc := in.processor()
	if proc == nil {
		o.Class("out-of-domain")
		return nil
	}

	o.Class("node/" + c.Type)
	wired, bndCount, bndSize := 0, false, false
	for _, p := range spec.Ports {
		if !c.Wired[p.Name] {
			continue
		}
		wired++
		if c.Bnd[p.Name] {
			switch p.Kind {
			case pkCount:
				bndCount = true
			case pkSize, pkRadii:
				bndSize = true
			}
		}
	}
	switch wired {
	case 0:
		o.Class("ports/all-unwired")
	case len(spec.Ports):
		o.Class("ports/all-wired")
	default:
		o.Class("ports/some-unwired")
	}
	if bndCount {
		o.Class("values/has-boundary-count")
	}
	if bndSize {
		o.Class("values/has-boundary-size")
	}
	if (wired > 0 && wired < len(spec.Ports)) || bndCount || bndSize {
		o.NonTrivial()
	}

	var (
		m     modeling.Mesh
		err   error
		stack string
	)
	kind, val := oracle.Try(func() {
		defer func() {
			if r := recover(); r != nil {
				stack = string(debug.Stack()) // still on the panicking stack: names the library line
				panic(r)
			}
		}()
		m, err = proc()
	})
	switch kind {
	case "crash":
		o.Class("outcome/crash")
		return vh.Failf("node-crash/"+c.Type, "%sNodeData.Process() raised a Go runtime error instead of returning a mesh or reporting failure: %v\n at %s\n node: %s",
			c.Type, val, panicSite(stack), describeNode(c, spec))
	case "reported":
		o.Class("outcome/panic-reported")
		return nil
	}
	if err != nil {
		o.Class("outcome/error")
		return nil
	}
	if wfErr := oracle.WF(m); wfErr != nil {
		o.Class("outcome/malformed")
		return vh.Failf("node-malformed/"+c.Type, "%sNodeData.Process() returned a malformed mesh (%s, %d indices): %v\n node: %s",
			c.Type, m.Topology().String(), m.Indices().Len(), wfErr, describeNode(c, spec))
	}
	if m.Indices().Len() == 0 {
		o.Class("outcome/mesh-empty")
	} else {
		o.Class("outcome/mesh")
	}
	return nil
}
