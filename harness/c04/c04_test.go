// Package c04 decides property C04 (PLY write/read round trip in all three encodings, header
// describes the body).
package c04

import (
	"bytes"
	"encoding/binary"
	"fmt"
	"math"
	"os"
	"path/filepath"
	"regexp"
	"strconv"
	"strings"
	"sync"
	"testing"
	"time"

	"github.com/EliCDavis/polyform/formats/ply"
	"github.com/EliCDavis/polyform/modeling"
	"github.com/EliCDavis/vector/vector2"
	"github.com/EliCDavis/vector/vector3"
	"github.com/EliCDavis/vector/vector4"
	"pgregory.net/rapid"

	"verifharness/internal/gen"
	"verifharness/internal/oracle"
	"verifharness/internal/vh"
)

func TestMain(m *testing.M) {
	vh.Main(m, vh.Meta{
		ID:    "C04",
		Level: "exploration",
		Rule: "(default-writer) rapid-generated point clouds and triangle meshes (any index pattern: shared, unreferenced, duplicated vertices, zero triangles) with any subset of Position, Normal, Color(8-bit), TexCoord (triangle meshes), FDC, Scale, Opacity, Rotation and user-named v1..v4 attributes, finite values inside float32 range incl. 1e-30..1e30 magnitudes, written by ply.Write in ascii / little-endian / big-endian, optional material texture URI; " +
			"(custom-writers) point clouds written by a MeshWriter with Vector1..4PropertyWriter of drawn types uchar/int/float/double, custom property names, WriteUnspecifiedProperties on/off, read back through a matching MeshReader. " +
			"Oracles: (1) the harness's own header parser + size law (binary: bytes after end_header == sum of count x record size incl. face records, parsed in the endianness the header TEXT declares; ascii: line and token counts); (2) ReadMesh(Write(m)): same topology and primitive count, per-corner equality of every attribute at the stored type's precision (float32 image exactly, 1/255 for 8-bit), user-named vN attributes under name_k scalars, nothing invented; (3) the three encodings decode to the same mesh. " +
			"Non-trivial = non-identity indices or TexCoord present or >= 1 non-float property type. Distinct by case JSON. " +
			"Sub-checks concurrent-writers (non-trivial: >= 2 writers) and huge-meshes (2^24+8 vertices, triangles naming vertex numbers beyond 2^24; every case non-trivial). " +
			"One case in 25 carries 70..300 further scalar attributes feat_NNN (class wide/more-than-64-scalar-attributes). Sub-check count-sweep: a point cloud or triangle strip with every primitive count 1..4 000 (thorough 1..40 000) once, encodings cycling (every case non-trivial).",
		Assumptions: []string{
			"point clouds carry identity indices (the format has no index list for points and the writer stores the vertex list as it is; a cloud whose index list repeats, omits or reorders vertices would come back as the plain vertex list - noted in DESIGN, not judged)",
			"8-bit colour values lie in [0,1]",
			"uchar-typed SCALAR properties are not generated in the ascii encoding: known finding ascii-uchar-scalar-raw (counted as excluded_known)",
			"ascii decodes at float32 precision whatever the declared type; double-typed custom properties therefore carry float32-exact values",
		},
	})
}

var formats = []ply.Format{ply.ASCII, ply.BinaryLittleEndian, ply.BinaryBigEndian}
var encName = []string{"ascii", "little-endian", "big-endian"}

// ---------------------------------------------------------------- own header parser

type hProp struct {
	List      bool
	Type      string // scalar type, or list element type
	CountType string
	Name      string
}
type hElem struct {
	Name  string
	Count int
	Props []hProp
}
type hdr struct {
	Format   string
	Elems    []hElem
	Comments []string
	BodyOff  int
}

func typeSize(t string) int {
	switch t {
	case "char", "uchar", "int8", "uint8":
		return 1
	case "short", "ushort", "int16", "uint16":
		return 2
	case "int", "uint", "float", "int32", "uint32", "float32":
		return 4
	case "double", "float64":
		return 8
	}
	return -1
}

func parseHeader(b []byte) (hdr, error) {
	h := hdr{}
	end := bytes.Index(b, []byte("end_header\n"))
	if end < 0 {
		return h, fmt.Errorf("no end_header line")
	}
	h.BodyOff = end + len("end_header\n")
	lines := strings.Split(string(b[:end]), "\n")
	if len(lines) < 2 || lines[0] != "ply" {
		return h, fmt.Errorf("magic line %q", lines[0])
	}
	for _, l := range lines[1:] {
		f := strings.Fields(l)
		if len(f) == 0 {
			continue
		}
		switch f[0] {
		case "format":
			if len(f) != 3 || f[2] != "1.0" {
				return h, fmt.Errorf("format line %q", l)
			}
			h.Format = f[1]
		case "comment":
			h.Comments = append(h.Comments, strings.TrimSpace(strings.TrimPrefix(l, "comment")))
		case "obj_info":
		case "element":
			if len(f) != 3 {
				return h, fmt.Errorf("element line %q", l)
			}
			n, err := strconv.Atoi(f[2])
			if err != nil {
				return h, err
			}
			h.Elems = append(h.Elems, hElem{Name: f[1], Count: n})
		case "property":
			if len(h.Elems) == 0 {
				return h, fmt.Errorf("property before element")
			}
			e := &h.Elems[len(h.Elems)-1]
			if len(f) == 5 && f[1] == "list" {
				e.Props = append(e.Props, hProp{List: true, CountType: f[2], Type: f[3], Name: f[4]})
			} else if len(f) == 3 {
				e.Props = append(e.Props, hProp{Type: f[1], Name: f[2]})
			} else {
				return h, fmt.Errorf("property line %q", l)
			}
			if typeSize(e.Props[len(e.Props)-1].Type) < 0 {
				return h, fmt.Errorf("unknown type in %q", l)
			}
		default:
			return h, fmt.Errorf("unknown header line %q", l)
		}
	}
	return h, nil
}

// sizeLaw checks that the body is exactly what the header declares. It returns the raw scalar
// tokens of every vertex record (as float64) for the caller's value checks.
func sizeLaw(h hdr, b []byte) error {
	body := b[h.BodyOff:]
	switch h.Format {
	case "ascii":
		lines := strings.Split(string(body), "\n")
		if len(lines) > 0 && lines[len(lines)-1] == "" {
			lines = lines[:len(lines)-1]
		}
		li := 0
		for _, e := range h.Elems {
			if len(e.Props) == 0 {
				continue // an element without properties has empty records: no line to demand
			}
			for r := 0; r < e.Count; r++ {
				if li >= len(lines) {
					return fmt.Errorf("ascii body has %d lines, header declares more (element %s)", len(lines), e.Name)
				}
				toks := strings.Fields(lines[li])
				li++
				ti := 0
				for _, p := range e.Props {
					if !p.List {
						ti++
						continue
					}
					if ti >= len(toks) {
						return fmt.Errorf("line %d: list count missing", li)
					}
					n, err := strconv.Atoi(toks[ti])
					if err != nil {
						return fmt.Errorf("line %d: list count %q", li, toks[ti])
					}
					ti += 1 + n
				}
				if ti != len(toks) {
					return fmt.Errorf("element %s record %d: %d tokens on the line, header describes %d", e.Name, r, len(toks), ti)
				}
				for _, tk := range toks {
					if _, err := strconv.ParseFloat(tk, 64); err != nil {
						return fmt.Errorf("line %d: token %q is not a number", li, tk)
					}
				}
			}
		}
		if li != len(lines) {
			return fmt.Errorf("ascii body has %d lines, header declares %d", len(lines), li)
		}
	case "binary_little_endian", "binary_big_endian":
		var order binary.ByteOrder = binary.LittleEndian
		if h.Format == "binary_big_endian" {
			order = binary.BigEndian
		}
		off := 0
		for _, e := range h.Elems {
			for r := 0; r < e.Count; r++ {
				for _, p := range e.Props {
					if !p.List {
						off += typeSize(p.Type)
						continue
					}
					cs := typeSize(p.CountType)
					if off+cs > len(body) {
						return fmt.Errorf("body ends inside element %s record %d", e.Name, r)
					}
					n := 0
					switch cs {
					case 1:
						n = int(body[off])
					case 2:
						n = int(order.Uint16(body[off:]))
					case 4:
						n = int(order.Uint32(body[off:]))
					}
					off += cs + n*typeSize(p.Type)
				}
				if off > len(body) {
					return fmt.Errorf("body ends inside element %s record %d", e.Name, r)
				}
			}
		}
		if off != len(body) {
			return fmt.Errorf("body is %d bytes, header describes %d", len(body), off)
		}
	default:
		return fmt.Errorf("unknown format %q", h.Format)
	}
	return nil
}

// ---------------------------------------------------------------- default writer

type Case struct {
	M      gen.MeshDesc
	TexURI string `json:",omitempty"`
	// Wide > 0: that many further user scalar attributes feat_000.. (values from a recipe) are added
	// before writing: vertex records of hundreds of bytes, ascii lines beyond 1 KiB (feature clouds)
	Wide int `json:",omitempty"`
	// Custom > 0: the mesh is written through a MeshWriter configured by the caller instead of
	// ply.Write: the default property list plus a per-vertex s/t writer for TexCoord (1: by value,
	// 2: by pointer) - the layout other tools read - with WriteUnspecifiedProperties on.
	Custom int `json:",omitempty"`
}

// customWriter is ply.Write's property list (formats/ply/write.go) plus per-vertex texture coordinates.
func customWriter(format ply.Format, kind int) ply.MeshWriter {
	props := []ply.PropertyWriter{
		ply.Vector3PropertyWriter{ModelAttribute: modeling.PositionAttribute, Type: ply.Float, PlyPropertyX: "x", PlyPropertyY: "y", PlyPropertyZ: "z"},
		ply.Vector3PropertyWriter{ModelAttribute: modeling.NormalAttribute, Type: ply.Float, PlyPropertyX: "nx", PlyPropertyY: "ny", PlyPropertyZ: "nz"},
		ply.Vector3PropertyWriter{ModelAttribute: modeling.ColorAttribute, Type: ply.UChar, PlyPropertyX: "red", PlyPropertyY: "green", PlyPropertyZ: "blue"},
		&ply.Vector3PropertyWriter{ModelAttribute: modeling.FDCAttribute, Type: ply.Float, PlyPropertyX: "f_dc_0", PlyPropertyY: "f_dc_1", PlyPropertyZ: "f_dc_2"},
		&ply.Vector1PropertyWriter{ModelAttribute: modeling.OpacityAttribute, Type: ply.Float, PlyProperty: "opacity"},
		&ply.Vector3PropertyWriter{ModelAttribute: modeling.ScaleAttribute, Type: ply.Float, PlyPropertyX: "scale_0", PlyPropertyY: "scale_1", PlyPropertyZ: "scale_2"},
		&ply.Vector4PropertyWriter{ModelAttribute: modeling.RotationAttribute, Type: ply.Float, PlyPropertyX: "rot_0", PlyPropertyY: "rot_1", PlyPropertyZ: "rot_2", PlyPropertyW: "rot_3"},
	}
	if kind == 2 {
		props = append(props, &ply.Vector2PropertyWriter{ModelAttribute: modeling.TexCoordAttribute, Type: ply.Float, PlyPropertyX: "s", PlyPropertyY: "t"})
	} else {
		props = append(props, ply.Vector2PropertyWriter{ModelAttribute: modeling.TexCoordAttribute, Type: ply.Float, PlyPropertyX: "s", PlyPropertyY: "t"})
	}
	return ply.MeshWriter{Format: format, WriteUnspecifiedProperties: true, Properties: props}
}

func widen(d gen.MeshDesc, k int) gen.MeshDesc {
	out := d
	out.V1 = map[string][]gen.F{}
	for name, rows := range d.V1 {
		out.V1[name] = rows
	}
	for a := 0; a < k; a++ {
		rows := make([]gen.F, d.N)
		for v := range rows {
			rows[v] = gen.F(float64((a*7+v*3)%257-128) / 8)
		}
		out.V1[fmt.Sprintf("feat_%03d", a)] = rows
	}
	return out
}

var plyAttrs = []gen.AttrSpec{
	{Name: modeling.PositionAttribute, Arity: 3}, {Name: modeling.NormalAttribute, Arity: 3}, {Name: modeling.ColorAttribute, Arity: 3},
	{Name: modeling.TexCoordAttribute, Arity: 2}, {Name: modeling.FDCAttribute, Arity: 3}, {Name: modeling.ScaleAttribute, Arity: 3},
	{Name: modeling.OpacityAttribute, Arity: 1}, {Name: modeling.RotationAttribute, Arity: 4},
	{Name: "Custom1", Arity: 1}, {Name: "Custom2", Arity: 2}, {Name: "Custom3", Arity: 3}, {Name: "Custom4", Arity: 4},
	// reserved names in another width: a per-point sprite size "Scale", RGBA "Color" (what ReadMesh
	// itself produces from files with an alpha channel) - stored as plain scalars name / name_k
	{Name: modeling.ScaleAttribute, Arity: 1}, {Name: modeling.ColorAttribute, Arity: 4},
}

func plyVal() *rapid.Generator[float64] {
	return rapid.Custom(func(t *rapid.T) float64 {
		switch rapid.IntRange(0, 9).Draw(t, "vk") {
		case 0:
			return rapid.Float64Range(-1e3, 1e3).Draw(t, "vf")
		case 1:
			e := rapid.IntRange(-30, 30).Draw(t, "ve")
			return rapid.Float64Range(1, 10).Draw(t, "vm") * math.Pow(10, float64(e)) * float64(1-2*rapid.IntRange(0, 1).Draw(t, "vs"))
		}
		return float64(rapid.IntRange(-32, 32).Draw(t, "v8")) / 8
	})
}

func genCase(t *rapid.T) Case {
	d := gen.Mesh(t, gen.MeshOpts{MaxN: 7, MaxPrims: 5, Attrs: plyAttrs, Val: plyVal(), DupPos: true}, "m")
	if d.Topology() == modeling.PointTopology {
		// the format has no index list for points and the writer stores the vertex list as it is:
		// a point cloud is generated with identity indices (what NewPointCloud and the readers produce)
		d.Idx = make([]int, d.N)
		for i := range d.Idx {
			d.Idx[i] = i
		}
	}
	if _, ok := d.V2[modeling.TexCoordAttribute]; ok && d.AttrCount() == 1 && d.Topology() == modeling.TriangleTopology {
		// a vertex element needs at least one property: TexCoord is stored per face
		d.V3 = map[string][][3]gen.F{modeling.PositionAttribute: make([][3]gen.F, d.N)}
	}
	// 8-bit colour in [0,1]
	if rows, ok := d.V3[modeling.ColorAttribute]; ok {
		for i := range rows {
			for c := 0; c < 3; c++ {
				if rapid.Bool().Draw(t, "colByte") {
					rows[i][c] = gen.F(float64(rapid.IntRange(0, 255).Draw(t, "cb")) / 255)
				} else {
					rows[i][c] = gen.F(rapid.Float64Range(0, 1).Draw(t, "cf"))
				}
			}
		}
	}
	c := Case{M: d}
	if rapid.Uint64().Draw(t, "wide")%25 == 0 {
		c.Wide = rapid.SampledFrom([]int{70, 130, 300}).Draw(t, "wideAttrs")
	}
	if d.PrimCount() > 0 && rapid.IntRange(0, 3).Draw(t, "tex") == 0 {
		c.TexURI = rapid.SampledFrom([]string{"tex.png", "a b.jpg", "dir/t.png"}).Draw(t, "uri")
	}
	if _, ok := d.V2[modeling.TexCoordAttribute]; ok && rapid.Uint64().Draw(t, "custom")%3 == 0 {
		c.Custom = 1 + int(rapid.Uint64().Draw(t, "customKind")%2)
	}
	return c
}

type expAttr struct {
	name  string // decoded attribute name
	arity int    // decoded arity
	get   func(v int) []float64
	byte8 bool
}

// expected decoded attributes for a source mesh
func expected(d gen.MeshDesc) []expAttr {
	var out []expAttr
	f := func(x gen.F) float64 { return float64(x) }
	for name, rows := range d.V1 {
		rows := rows
		out = append(out, expAttr{name: name, arity: 1, get: func(v int) []float64 { return []float64{f(rows[v])} }})
	}
	for name, rows := range d.V2 {
		rows := rows
		if name == modeling.TexCoordAttribute { // per face on triangle meshes, per vertex (s, t) on point clouds
			out = append(out, expAttr{name: name, arity: 2, get: func(v int) []float64 { return []float64{f(rows[v][0]), f(rows[v][1])} }})
			continue
		}
		for k := 0; k < 2; k++ {
			k := k
			out = append(out, expAttr{name: fmt.Sprintf("%s_%d", name, k), arity: 1, get: func(v int) []float64 { return []float64{f(rows[v][k])} }})
		}
	}
	for name, rows := range d.V3 {
		rows := rows
		switch name {
		case modeling.PositionAttribute, modeling.NormalAttribute, modeling.FDCAttribute, modeling.ScaleAttribute, modeling.ColorAttribute:
			out = append(out, expAttr{name: name, arity: 3, byte8: name == modeling.ColorAttribute, get: func(v int) []float64 { return []float64{f(rows[v][0]), f(rows[v][1]), f(rows[v][2])} }})
		default:
			for k := 0; k < 3; k++ {
				k := k
				out = append(out, expAttr{name: fmt.Sprintf("%s_%d", name, k), arity: 1, get: func(v int) []float64 { return []float64{f(rows[v][k])} }})
			}
		}
	}
	for name, rows := range d.V4 {
		rows := rows
		if name == modeling.RotationAttribute {
			out = append(out, expAttr{name: name, arity: 4, get: func(v int) []float64 { return []float64{f(rows[v][0]), f(rows[v][1]), f(rows[v][2]), f(rows[v][3])} }})
			continue
		}
		for k := 0; k < 4; k++ {
			k := k
			out = append(out, expAttr{name: fmt.Sprintf("%s_%d", name, k), arity: 1, get: func(v int) []float64 { return []float64{f(rows[v][k])} }})
		}
	}
	return out
}

func readAttr(m *modeling.Mesh, name string, arity, v int) ([]float64, bool) {
	switch arity {
	case 1:
		if !m.HasFloat1Attribute(name) {
			return nil, false
		}
		return []float64{m.Float1Attribute(name).At(v)}, true
	case 2:
		if !m.HasFloat2Attribute(name) {
			return nil, false
		}
		x := m.Float2Attribute(name).At(v)
		return []float64{x.X(), x.Y()}, true
	case 3:
		if !m.HasFloat3Attribute(name) {
			return nil, false
		}
		x := m.Float3Attribute(name).At(v)
		return []float64{x.X(), x.Y(), x.Z()}, true
	default:
		if !m.HasFloat4Attribute(name) {
			return nil, false
		}
		x := m.Float4Attribute(name).At(v)
		return []float64{x.X(), x.Y(), x.Z(), x.W()}, true
	}
}

func runCase(c Case, o *vh.Obs) *vh.Failure {
	if c.Wide > 0 && c.Wide <= 1000 {
		c.M = widen(c.M, c.Wide)
		o.Class("wide/more-than-64-scalar-attributes")
		o.NonTrivial()
	}
	d := c.M
	src := d.Build()
	if c.TexURI != "" {
		uri := c.TexURI
		src = src.SetMaterial(modeling.Material{Name: "m", ColorTextureURI: &uri})
	}
	_, hasTex := d.V2[modeling.TexCoordAttribute]
	if !d.IdentityIdx() || hasTex || len(d.V3[modeling.ColorAttribute]) > 0 {
		o.NonTrivial()
	}
	o.Class("topology/" + d.Topology().String())
	if hasTex && d.Topology() == modeling.TriangleTopology {
		o.Class("texcoord-on-triangles")
		if !d.IdentityIdx() {
			o.Class("texcoord-on-welded-triangles")
		}
	}
	exp := expected(d)
	if c.Custom > 0 {
		o.Class(fmt.Sprintf("custom-meshwriter/per-vertex-uv/%s", d.Topology().String()))
		o.NonTrivial()
	}
	var decoded []*modeling.Mesh
	for fi, format := range formats {
		fname := []string{"ascii", "little-endian", "big-endian"}[fi]
		buf := &bytes.Buffer{}
		var err error
		if kind, val := oracle.Try(func() {
			if c.Custom > 0 {
				err = customWriter(format, c.Custom).Write(src, buf)
			} else {
				err = ply.Write(buf, src, format)
			}
		}); kind != "" {
			return vh.Failf("write-panic/"+fname, "ply.Write panicked (%s): %v", kind, val)
		}
		if err != nil {
			return vh.Failf("write-error/"+fname, "ply.Write: %v", err)
		}
		file := buf.Bytes()
		// (1) header describes the body
		h, err := parseHeader(file)
		if err != nil {
			return vh.Failf("header-unparsable/"+fname, "%v\n%q", err, file)
		}
		wantFormat := []string{"ascii", "binary_little_endian", "binary_big_endian"}[fi]
		if h.Format != wantFormat {
			return vh.Failf("header-format/"+fname, "header declares %q, requested %q", h.Format, wantFormat)
		}
		if err := sizeLaw(h, file); err != nil {
			return vh.Failf("header-vs-body/"+fname, "%v\n%q", err, file)
		}
		wantVerts := d.N
		if len(h.Elems) == 0 || h.Elems[0].Name != "vertex" || h.Elems[0].Count != wantVerts {
			return vh.Failf("header-vertex-count/"+fname, "vertex element %+v, mesh has %d vertices / %d points", h.Elems, d.N, len(d.Idx))
		}
		if d.Topology() == modeling.TriangleTopology && (len(h.Elems) != 2 || h.Elems[1].Name != "face" || h.Elems[1].Count != d.PrimCount()) {
			return vh.Failf("header-face-count/"+fname, "elements %+v, mesh has %d triangles", h.Elems, d.PrimCount())
		}
		if c.TexURI != "" {
			found := false
			for _, cm := range h.Comments {
				if cm == "TextureFile "+c.TexURI {
					found = true
				}
			}
			if !found {
				return vh.Failf("header-texture-comment/"+fname, "no 'TextureFile %s' comment in %v", c.TexURI, h.Comments)
			}
		}
		// (2) read back
		var back *modeling.Mesh
		if kind, val := oracle.Try(func() { back, err = ply.ReadMesh(bytes.NewReader(file)) }); kind != "" {
			return vh.Failf("read-panic/"+fname, "ReadMesh panicked (%s) on the writer's own output: %v\n%q", kind, val, file)
		}
		if err != nil {
			return vh.Failf("read-error/"+fname, "ReadMesh rejected the writer's own output: %v\n%q", err, file)
		}
		if back.Topology() != d.Topology() {
			return vh.Failf("topology/"+fname, "topology %v -> %v", d.Topology(), back.Topology())
		}
		if back.PrimitiveCount() != d.PrimCount() || back.Indices().Len() != len(d.Idx) {
			return vh.Failf("primitive-count/"+fname, "%d primitives (%d indices) -> %d (%d)", d.PrimCount(), len(d.Idx), back.PrimitiveCount(), back.Indices().Len())
		}
		if err := oracle.WFStatic(*back); err != nil {
			return vh.Failf("malformed/"+fname, "decoded mesh malformed: %v", err)
		}
		names := map[string]bool{}
		for _, ea := range exp {
			names[ea.name] = true
			for ci, sv := range d.Idx {
				got, ok := readAttr(back, ea.name, ea.arity, back.Indices().At(ci))
				if !ok {
					return vh.Failf("attribute-lost/"+fname, "attribute %s (arity %d) missing after round trip; have %v %v %v %v", ea.name, ea.arity, back.Float1Attributes(), back.Float2Attributes(), back.Float3Attributes(), back.Float4Attributes())
				}
				want := ea.get(sv)
				for k := range want {
					if ea.byte8 {
						if math.Abs(got[k]-want[k]) > 1.0/255+1e-12 {
							return vh.Failf("value-8bit/"+fname, "%s corner %d comp %d: %v -> %v (more than 1/255)", ea.name, ci, k, want[k], got[k])
						}
						continue
					}
					w32 := float64(float32(want[k]))
					// ascii: the decimal text of a double lying (almost) exactly between two float32 values may
					// round to the other neighbour than the direct conversion does: 1 float32 ulp is "the
					// precision of the stored type". Binary encodings must give the float32 image exactly.
					if fi == 0 && math.Abs(got[k]-want[k]) <= ulp32(want[k]) {
						continue
					}
					if got[k] != w32 {
						return vh.Failf("value/"+fname, "%s corner %d (vertex %d) comp %d: wrote %v, read %v, float32 image %v", ea.name, ci, sv, k, want[k], got[k], w32)
					}
				}
			}
		}
		for _, l := range [][]string{back.Float1Attributes(), back.Float2Attributes(), back.Float3Attributes(), back.Float4Attributes()} {
			for _, a := range l {
				if !names[a] {
					return vh.Failf("attribute-invented/"+fname, "decoded mesh has attribute %q the source does not explain", a)
				}
			}
		}
		decoded = append(decoded, back)
	}
	// (3) the three encodings decode to the same mesh
	for fi := 1; fi < 3; fi++ {
		a, b := decoded[0], decoded[fi]
		if fi == 2 {
			a = decoded[1]
		}
		if diff := meshDiff(a, b, fi == 2); diff != "" {
			return vh.Failf("encodings-disagree/"+[]string{"", "ascii-vs-le", "le-vs-be"}[fi], "%s", diff)
		}
	}
	return nil
}

// ulp32 is the spacing of float32 values at x (one unit in the last place, subnormals included).
func ulp32(x float64) float64 {
	a := float32(math.Abs(x))
	return float64(math.Nextafter32(a, float32(math.Inf(1)))) - float64(a)
}

// meshDiff compares two decoded meshes (exact when exact is set, else 1e-12 absolute for 8-bit paths).
func meshDiff(a, b *modeling.Mesh, exact bool) string {
	if exact {
		if sa, sb := oracle.Snapshot(*a), oracle.Snapshot(*b); sa != sb {
			return oracle.DiffSnap(sa, sb)
		}
		return ""
	}
	if a.Topology() != b.Topology() || a.Indices().Len() != b.Indices().Len() {
		return "topology or index count differ"
	}
	for i := 0; i < a.Indices().Len(); i++ {
		if a.Indices().At(i) != b.Indices().At(i) {
			return fmt.Sprintf("index %d differs", i)
		}
	}
	na := fmt.Sprint(a.Float1Attributes(), a.Float2Attributes(), a.Float3Attributes(), a.Float4Attributes())
	nb := fmt.Sprint(b.Float1Attributes(), b.Float2Attributes(), b.Float3Attributes(), b.Float4Attributes())
	if na != nb {
		return "attribute sets differ: " + na + " vs " + nb
	}
	n, _ := oracle.AttrLen(*a)
	for arity, names := range [][]string{a.Float1Attributes(), a.Float2Attributes(), a.Float3Attributes(), a.Float4Attributes()} {
		for _, name := range names {
			for v := 0; v < n; v++ {
				x, _ := readAttr(a, name, arity+1, v)
				y, _ := readAttr(b, name, arity+1, v)
				for k := range x {
					if x[k] != y[k] && math.Abs(x[k]-y[k]) > 1e-12+ulp32(y[k]) { // 1 float32 ulp (ascii text rounding)
						return fmt.Sprintf("attribute %s vertex %d comp %d: %v vs %v", name, v, k, x[k], y[k])
					}
				}
			}
		}
	}
	return ""
}

// ---------------------------------------------------------------- custom writers

type CustomCase struct {
	N       int
	Format  int
	T       [4]string // types of the v1..v4 writers
	Vals    [][]float64
	Pos     [][3]float64
	Unspec  bool // WriteUnspecifiedProperties
	Extra   bool // an attribute no writer claims
	SkipV   int  // 0: all four writers; k: writer k omitted (its attribute becomes unspecified)
	Renamed bool
	// NoExclude keeps a uchar scalar writer in the ascii encoding (only set by the pinned reproducer
	// of known finding ascii-uchar-scalar-raw; generated cases exclude that region by construction).
	NoExclude bool `json:",omitempty"`
}

var ctypes = []string{"uchar", "int", "float", "double"}

func toPly(t string) ply.ScalarPropertyType {
	return map[string]ply.ScalarPropertyType{"uchar": ply.UChar, "int": ply.Int, "float": ply.Float, "double": ply.Double}[t]
}

func genCustom(t *rapid.T) CustomCase {
	c := CustomCase{N: rapid.IntRange(1, 5).Draw(t, "n"), Format: rapid.IntRange(0, 2).Draw(t, "format"), Unspec: rapid.Bool().Draw(t, "unspec"),
		Extra: rapid.Bool().Draw(t, "extra"), SkipV: rapid.IntRange(0, 4).Draw(t, "skip"), Renamed: rapid.Bool().Draw(t, "renamed")}
	for k := range c.T {
		c.T[k] = rapid.SampledFrom(ctypes).Draw(t, "type")
	}
	val := func(ty string) float64 {
		switch ty {
		case "uchar":
			return float64(rapid.IntRange(0, 255).Draw(t, "u")) / 255
		case "int":
			return float64(rapid.IntRange(-100000, 100000).Draw(t, "i"))
		default:
			return float64(rapid.IntRange(-4096, 4096).Draw(t, "q")) / 16
		}
	}
	for i := 0; i < c.N; i++ {
		row := []float64{val(c.T[0]), val(c.T[1]), val(c.T[1]), val(c.T[2]), val(c.T[2]), val(c.T[2]), val(c.T[3]), val(c.T[3]), val(c.T[3]), val(c.T[3]), val("float")}
		c.Vals = append(c.Vals, row)
		c.Pos = append(c.Pos, [3]float64{val("float"), val("float"), val("float")})
	}
	return c
}

func runCustom(c CustomCase, o *vh.Obs) *vh.Failure {
	if c.N == 0 || len(c.Vals) != c.N || len(c.Pos) != c.N {
		return nil
	}
	if c.Format == 0 && c.T[0] == "uchar" && !c.NoExclude {
		// known finding region: uchar scalar in ascii; excluded by construction and counted
		c.T[0] = "float"
		o.Count("excluded_known", 1)
	}
	format := formats[c.Format]
	n := c.N
	a1, a2, a3, a4 := make([]float64, n), make([]vector2.Float64, n), make([]vector3.Float64, n), make([]vector4.Float64, n)
	pos, ex := make([]vector3.Float64, n), make([]float64, n)
	for i, r := range c.Vals {
		a1[i], a2[i], a3[i], a4[i], ex[i] = r[0], vector2.New(r[1], r[2]), vector3.New(r[3], r[4], r[5]), vector4.New(r[6], r[7], r[8], r[9]), r[10]
		pos[i] = vector3.New(c.Pos[i][0], c.Pos[i][1], c.Pos[i][2])
	}
	m := modeling.NewPointCloud(map[string][]vector4.Float64{"a4": a4}, map[string][]vector3.Float64{modeling.PositionAttribute: pos, "a3": a3}, map[string][]vector2.Float64{"a2": a2}, map[string][]float64{"a1": a1}, nil)
	if c.Extra {
		m = m.SetFloat1Attribute("extra", ex)
	}
	pn := func(s string) string {
		if c.Renamed {
			return "q_" + s
		}
		return s
	}
	all := []ply.PropertyWriter{
		ply.Vector1PropertyWriter{ModelAttribute: "a1", PlyProperty: pn("p1"), Type: toPly(c.T[0])},
		ply.Vector2PropertyWriter{ModelAttribute: "a2", PlyPropertyX: pn("p2x"), PlyPropertyY: pn("p2y"), Type: toPly(c.T[1])},
		&ply.Vector3PropertyWriter{ModelAttribute: "a3", PlyPropertyX: pn("p3x"), PlyPropertyY: pn("p3y"), PlyPropertyZ: pn("p3z"), Type: toPly(c.T[2])},
		ply.Vector4PropertyWriter{ModelAttribute: "a4", PlyPropertyX: pn("p4x"), PlyPropertyY: pn("p4y"), PlyPropertyZ: pn("p4z"), PlyPropertyW: pn("p4w"), Type: toPly(c.T[3])},
	}
	props := []ply.PropertyWriter{ply.Vector3PropertyWriter{ModelAttribute: modeling.PositionAttribute, Type: ply.Float, PlyPropertyX: "x", PlyPropertyY: "y", PlyPropertyZ: "z"}}
	for k, w := range all {
		if c.SkipV != k+1 {
			props = append(props, w)
		}
	}
	w := ply.MeshWriter{Format: format, Properties: props, WriteUnspecifiedProperties: c.Unspec}
	fname := []string{"ascii", "little-endian", "big-endian"}[c.Format]
	o.Class("custom/" + fname)
	nonFloat := false
	for k, ty := range c.T {
		if ty != "float" && c.SkipV != k+1 {
			nonFloat = true
			o.Class("custom-type/" + ty)
		}
	}
	if nonFloat {
		o.NonTrivial()
	}
	buf := &bytes.Buffer{}
	var err error
	if kind, val := oracle.Try(func() { err = w.Write(m, buf) }); kind != "" {
		return vh.Failf("custom-write-panic/"+fname, "MeshWriter.Write panicked (%s): %v", kind, val)
	}
	if err != nil {
		return vh.Failf("custom-write-error/"+fname, "%v", err)
	}
	file := buf.Bytes()
	h, err := parseHeader(file)
	if err != nil {
		return vh.Failf("custom-header-unparsable/"+fname, "%v\n%q", err, file)
	}
	if err := sizeLaw(h, file); err != nil {
		return vh.Failf("custom-header-vs-body/"+fname, "%v\n%q", err, file)
	}
	// declared property list: exactly the claimed writers' names and types, then (if enabled) the unspecified ones
	want := []string{"float x", "float y", "float z"}
	type pr struct {
		names []string
		ty    string
	}
	claimed := []pr{{[]string{pn("p1")}, c.T[0]}, {[]string{pn("p2x"), pn("p2y")}, c.T[1]}, {[]string{pn("p3x"), pn("p3y"), pn("p3z")}, c.T[2]}, {[]string{pn("p4x"), pn("p4y"), pn("p4z"), pn("p4w")}, c.T[3]}}
	for k, p := range claimed {
		if c.SkipV == k+1 {
			continue
		}
		for _, nme := range p.names {
			want = append(want, p.ty+" "+nme)
		}
	}
	var got []string
	for _, p := range h.Elems[0].Props {
		got = append(got, p.Type+" "+p.Name)
	}
	unspecNames := map[string]bool{}
	if c.Unspec {
		if c.SkipV == 4 {
			for k := 0; k < 4; k++ {
				unspecNames[fmt.Sprintf("float a4_%d", k)] = true
			}
		}
		if c.SkipV == 3 {
			for k := 0; k < 3; k++ {
				unspecNames[fmt.Sprintf("float a3_%d", k)] = true
			}
		}
		if c.SkipV == 2 {
			unspecNames["float a2_0"], unspecNames["float a2_1"] = true, true
		}
		if c.SkipV == 1 {
			unspecNames["float a1"] = true
		}
		if c.Extra {
			unspecNames["float extra"] = true
		}
	}
	if len(got) < len(want) || fmt.Sprint(got[:len(want)]) != fmt.Sprint(want) {
		return vh.Failf("custom-header-properties/"+fname, "header properties %v, want prefix %v", got, want)
	}
	rest := got[len(want):]
	if len(rest) != len(unspecNames) {
		return vh.Failf("custom-unspecified-properties/"+fname, "unspecified properties written %v, want %v (WriteUnspecifiedProperties=%v)", rest, unspecNames, c.Unspec)
	}
	for _, r := range rest {
		if !unspecNames[r] {
			return vh.Failf("custom-unspecified-properties/"+fname, "unexpected property %q (want %v)", r, unspecNames)
		}
	}
	// read back through a matching reader
	r := ply.MeshReader{AttributeElement: ply.VertexElementName, LoadUnspecifiedProperties: true, Properties: []ply.PropertyReader{
		&ply.Vector3PropertyReader{ModelAttribute: modeling.PositionAttribute, PlyPropertyX: "x", PlyPropertyY: "y", PlyPropertyZ: "z"},
		&ply.Vector1PropertyReader{ModelAttribute: "a1", PlyProperty: pn("p1")},
		&ply.Vector2PropertyReader{ModelAttribute: "a2", PlyPropertyX: pn("p2x"), PlyPropertyY: pn("p2y")},
		&ply.Vector3PropertyReader{ModelAttribute: "a3", PlyPropertyX: pn("p3x"), PlyPropertyY: pn("p3y"), PlyPropertyZ: pn("p3z")},
		&ply.Vector4PropertyReader{ModelAttribute: "a4", PlyPropertyX: pn("p4x"), PlyPropertyY: pn("p4y"), PlyPropertyZ: pn("p4z"), PlyPropertyW: pn("p4w")},
	}}
	var back *modeling.Mesh
	if kind, val := oracle.Try(func() { back, err = r.Read(bytes.NewReader(file)) }); kind != "" {
		return vh.Failf("custom-read-panic/"+fname, "MeshReader.Read panicked (%s): %v\n%q", kind, val, file)
	}
	if err != nil {
		return vh.Failf("custom-read-error/"+fname, "%v\n%q", err, file)
	}
	if back.Topology() != modeling.PointTopology || back.Indices().Len() != n {
		return vh.Failf("custom-count/"+fname, "%d points -> %d", n, back.Indices().Len())
	}
	near := func(a, b float64) bool { return math.Abs(a-b) <= 1e-9+6e-8*math.Abs(b) } // float32 precision
	chk := func(name string, arity, k int, get func(i int) []float64) *vh.Failure {
		if c.SkipV == k {
			return nil
		}
		for i := 0; i < n; i++ {
			got, ok := readAttr(back, name, arity, i)
			if !ok {
				return vh.Failf("custom-attribute-lost/"+fname, "attribute %s missing after round trip", name)
			}
			want := get(i)
			for j := range want {
				if !near(got[j], want[j]) {
					if c.Format == 0 && k == 1 && c.T[0] == "uchar" && got[j] == math.Round(want[j]*255) {
						return vh.Failf("ascii-uchar-scalar-raw", "ascii uchar scalar %s decodes as the raw byte %v; the writer stored value*255 for value %v", name, got[j], want[j])
					}
					return vh.Failf("custom-value/"+fname+"/"+c.T[k-1], "%s[%d] comp %d (%s): wrote %v read %v\n%q", name, i, j, c.T[k-1], want[j], got[j], file)
				}
			}
		}
		return nil
	}
	if f := chk("a1", 1, 1, func(i int) []float64 { return []float64{a1[i]} }); f != nil {
		return f
	}
	if f := chk("a2", 2, 2, func(i int) []float64 { return []float64{a2[i].X(), a2[i].Y()} }); f != nil {
		return f
	}
	if f := chk("a3", 3, 3, func(i int) []float64 { return []float64{a3[i].X(), a3[i].Y(), a3[i].Z()} }); f != nil {
		return f
	}
	if f := chk("a4", 4, 4, func(i int) []float64 { return []float64{a4[i].X(), a4[i].Y(), a4[i].Z(), a4[i].W()} }); f != nil {
		return f
	}
	for i := 0; i < n; i++ {
		if got := back.Float3Attribute(modeling.PositionAttribute).At(i); got.Distance(pos[i]) > 1e-9 {
			return vh.Failf("custom-position/"+fname, "position %d: %v -> %v", i, pos[i], got)
		}
		if c.Extra && c.Unspec {
			if !back.HasFloat1Attribute("extra") || !near(back.Float1Attribute("extra").At(i), ex[i]) {
				return vh.Failf("custom-unspecified-value/"+fname, "unspecified attribute 'extra' lost or changed")
			}
		}
	}
	if c.Extra && !c.Unspec && back.HasFloat1Attribute("extra") {
		return vh.Failf("custom-unspecified-written/"+fname, "attribute 'extra' written although WriteUnspecifiedProperties is off")
	}
	return nil
}

// ---------------------------------------------------------------- concurrent writers

// ConcCase: several goroutines each write (and read back) their own mesh with their own writer at the
// same time. Nothing is shared between them, so every output must be byte-identical to the sequential
// one: an exporter may not keep hidden state between calls.
type ConcCase struct {
	Tris    []int // triangles per mesh (one mesh per goroutine)
	UV      []bool
	Formats []int
	Reps    int
}

func genConc(t *rapid.T) ConcCase {
	n := rapid.IntRange(2, 8).Draw(t, "writers")
	c := ConcCase{Reps: rapid.IntRange(2, 12).Draw(t, "reps")}
	for i := 0; i < n; i++ {
		c.Tris = append(c.Tris, rapid.IntRange(200, 3000).Draw(t, "tris"))
		c.UV = append(c.UV, rapid.Bool().Draw(t, "uv"))
		c.Formats = append(c.Formats, rapid.IntRange(0, 2).Draw(t, "format"))
	}
	return c
}

func concMesh(k, tris int, uv bool) modeling.Mesh {
	n := tris + 2
	pos := make([]vector3.Float64, n)
	tex := make([]vector2.Float64, n)
	for i := range pos {
		pos[i] = vector3.New(float64(i*(k+1)%977)/8, float64(i%31)/4, float64(k))
		tex[i] = vector2.New(float64(i%64)/64, float64((i*(k+3))%128)/128)
	}
	idx := make([]int, 0, 3*tris)
	for i := 0; i < tris; i++ {
		idx = append(idx, i, (i+1+k)%n, i+2)
	}
	m := modeling.NewTriangleMesh(idx).SetFloat3Attribute(modeling.PositionAttribute, pos)
	if uv {
		m = m.SetFloat2Attribute(modeling.TexCoordAttribute, tex)
	}
	return m
}

func runConc(c ConcCase, o *vh.Obs) *vh.Failure {
	n := len(c.Tris)
	if n < 2 || len(c.UV) != n || len(c.Formats) != n || n > 16 {
		return nil
	}
	meshes := make([]modeling.Mesh, n)
	want := make([][]byte, n)
	for i := range meshes {
		meshes[i] = concMesh(i, c.Tris[i], c.UV[i])
		buf := &bytes.Buffer{}
		if err := ply.Write(buf, meshes[i], formats[c.Formats[i]%3]); err != nil {
			return vh.Failf("conc/sequential-write-error", "%v", err)
		}
		want[i] = buf.Bytes()
	}
	var wg sync.WaitGroup
	bad := make([]string, n)
	start := make(chan struct{})
	for i := 0; i < n; i++ {
		wg.Add(1)
		go func(i int) {
			defer wg.Done()
			<-start
			for r := 0; r < c.Reps && bad[i] == ""; r++ {
				buf := &bytes.Buffer{}
				if err := ply.Write(buf, meshes[i], formats[c.Formats[i]%3]); err != nil {
					bad[i] = fmt.Sprintf("writer %d: %v", i, err)
					return
				}
				if !bytes.Equal(buf.Bytes(), want[i]) {
					k := 0
					for k < len(want[i]) && k < buf.Len() && want[i][k] == buf.Bytes()[k] {
						k++
					}
					bad[i] = fmt.Sprintf("writer %d (format %d, %d triangles, uv %v), repetition %d: output differs from the sequential output of the same mesh at byte %d of %d", i, c.Formats[i]%3, c.Tris[i], c.UV[i], r, k, len(want[i]))
					return
				}
				if _, err := ply.ReadMesh(bytes.NewReader(buf.Bytes())); err != nil {
					bad[i] = fmt.Sprintf("writer %d: read back: %v", i, err)
					return
				}
			}
		}(i)
	}
	close(start)
	wg.Wait()
	o.NonTrivial()
	o.Class(fmt.Sprintf("concurrent-writers/%d", n))
	for _, b := range bad {
		if b != "" {
			return vh.Failf("conc/output-differs-from-sequential", "%s", b)
		}
	}
	return nil
}

// ---------------------------------------------------------------- huge meshes (index values beyond 2^24)

// HugeCase is a triangle mesh with more than 2^24 vertices whose triangles reference vertex
// numbers that a float32 cannot represent; every vertex has its own float32-exact position, so a
// corner that comes back from a neighbouring vertex is visible.
type HugeCase struct {
	Format int
	N      int
	Idx    []int
}

func hugeCases() []HugeCase {
	const b = 1 << 24
	n := b + 8
	idx := []int{0, 1, n - 1, b + 1, b - 1, b + 3, b + 5, b + 2, 5, n - 2, b + 7, b}
	var out []HugeCase
	for f := range formats {
		out = append(out, HugeCase{Format: f, N: n, Idx: idx})
	}
	return out
}

func hugePos(i int) vector3.Float64 {
	return vector3.New(float64(i%4096), float64(i/4096), 0.5)
}

func runHuge(c HugeCase, o *vh.Obs) *vh.Failure {
	enc := encName[c.Format%3]
	o.Class("huge/" + enc)
	o.NonTrivial()
	pos := make([]vector3.Float64, c.N)
	for i := range pos {
		pos[i] = hugePos(i)
	}
	src := modeling.NewTriangleMesh(c.Idx).SetFloat3Attribute(modeling.PositionAttribute, pos)
	buf := &bytes.Buffer{}
	if err := ply.Write(buf, src, formats[c.Format%3]); err != nil {
		return vh.Failf("huge/write-error/"+enc, "writing %d vertices: %v", c.N, err)
	}
	pos, src = nil, modeling.Mesh{}
	back, err := ply.ReadMesh(bytes.NewReader(buf.Bytes()))
	if err != nil {
		return vh.Failf("huge/read-error/"+enc, "reading back %d vertices (%d bytes): %v", c.N, buf.Len(), err)
	}
	if back.Topology() != modeling.TriangleTopology || back.PrimitiveCount() != len(c.Idx)/3 {
		return vh.Failf("huge/primitives/"+enc, "wrote %d triangles over %d vertices, read topology %v with %d primitives", len(c.Idx)/3, c.N, back.Topology(), back.PrimitiveCount())
	}
	if !back.HasFloat3Attribute(modeling.PositionAttribute) {
		return vh.Failf("huge/attribute-lost/"+enc, "position attribute missing after the round trip")
	}
	got := back.Float3Attribute(modeling.PositionAttribute)
	ind := back.Indices()
	for k, want := range c.Idx {
		gi := ind.At(k)
		if gi < 0 || gi >= got.Len() {
			return vh.Failf("huge/index-out-of-range/"+enc, "corner %d references vertex %d of %d", k, gi, got.Len())
		}
		if got.At(gi) != hugePos(want) {
			return vh.Failf("huge/corner-value/"+enc, "corner %d was written with vertex %d at %v and comes back with vertex %d at %v", k, want, hugePos(want), gi, got.At(gi))
		}
	}
	return nil
}

// ---------------------------------------------------------------- count sweep

// SweepCase: a recipe mesh with exactly N primitives (a point cloud of N vertices, or a strip of N
// triangles over N+2 shared vertices), positions float32-exact, normals for even N; every N up to a
// bound is tried once (a defect that needs an exact multiple of an internal block size cannot be
// found by sampling counts).
type SweepCase struct {
	N      int
	Format int
	Tri    bool
}

func sweepCases() []SweepCase {
	n := 4000
	if vh.Tier == "thorough" {
		n = 40000
	}
	var out []SweepCase
	for k := 1; k <= n; k++ {
		out = append(out, SweepCase{N: k, Format: k % 3, Tri: (k/3)%2 == 0})
	}
	return out
}

func sweepPos(i int) vector3.Float64 {
	return vector3.New(float64(i%61)/8, float64((i/61)%61)/8-3, float64(i/3721)/8+float64(i%7)/64)
}

func runSweep(c SweepCase, o *vh.Obs) *vh.Failure {
	if c.N < 1 || c.N > 200000 {
		o.Class("out-of-domain")
		return nil
	}
	enc := encName[((c.Format%3)+3)%3]
	o.NonTrivial()
	if c.Tri {
		o.Class("sweep/triangles/" + enc)
	} else {
		o.Class("sweep/points/" + enc)
	}
	nv := c.N
	var idx []int
	if c.Tri {
		nv = c.N + 2
		for t := 0; t < c.N; t++ {
			if t%2 == 0 {
				idx = append(idx, t, t+1, t+2)
			} else {
				idx = append(idx, t+1, t, t+2)
			}
		}
	}
	pos := make([]vector3.Float64, nv)
	for i := range pos {
		pos[i] = sweepPos(i)
	}
	var src modeling.Mesh
	if c.Tri {
		src = modeling.NewTriangleMesh(idx)
	} else {
		id := make([]int, nv)
		for i := range id {
			id[i] = i
		}
		src = modeling.NewMesh(modeling.PointTopology, id)
		idx = id
	}
	src = src.SetFloat3Attribute(modeling.PositionAttribute, pos)
	withNormals := c.N%2 == 0
	if withNormals {
		nr := make([]vector3.Float64, nv)
		for i := range nr {
			nr[i] = vector3.New(float64(i%3)-1, float64(i%5)/4, 0.5)
		}
		src = src.SetFloat3Attribute(modeling.NormalAttribute, nr)
	}
	buf := &bytes.Buffer{}
	if err := ply.Write(buf, src, formats[((c.Format%3)+3)%3]); err != nil {
		return vh.Failf("sweep/write-error/"+enc, "writing %d primitives: %v", c.N, err)
	}
	back, err := ply.ReadMesh(bytes.NewReader(buf.Bytes()))
	if err != nil {
		return vh.Failf("sweep/read-error/"+enc, "reading back %d primitives (%d bytes): %v", c.N, buf.Len(), err)
	}
	if back.Topology() != src.Topology() || back.PrimitiveCount() != c.N {
		return vh.Failf("sweep/primitives/"+enc, "wrote %d primitives (%v), read %d (%v)", c.N, src.Topology(), back.PrimitiveCount(), back.Topology())
	}
	if !back.HasFloat3Attribute(modeling.PositionAttribute) || back.HasFloat3Attribute(modeling.NormalAttribute) != withNormals {
		return vh.Failf("sweep/attributes/"+enc, "attributes after the round trip: %v (normals written: %v)", back.Float3Attributes(), withNormals)
	}
	gp, gi := back.Float3Attribute(modeling.PositionAttribute), back.Indices()
	if gi.Len() != len(idx) {
		return vh.Failf("sweep/primitives/"+enc, "wrote %d indices, read %d", len(idx), gi.Len())
	}
	for k, want := range idx {
		v := gi.At(k)
		if v < 0 || v >= gp.Len() {
			return vh.Failf("sweep/index-out-of-range/"+enc, "corner %d references vertex %d of %d", k, v, gp.Len())
		}
		if gp.At(v) != sweepPos(want) {
			return vh.Failf("sweep/corner-value/"+enc, "%d primitives: corner %d was written at %v and comes back at %v", c.N, k, sweepPos(want), gp.At(v))
		}
		if withNormals {
			if n := back.Float3Attribute(modeling.NormalAttribute).At(v); n != vector3.New(float64(want%3)-1, float64(want%5)/4, 0.5) {
				return vh.Failf("sweep/corner-normal/"+enc, "%d primitives: corner %d carries normal %v", c.N, k, n)
			}
		}
	}
	return nil
}

// ---------------------------------------------------------------- through the file system

// FileCase: ply.Save / ply.Load must be the stream functions applied to a file.
type FileCase struct {
	Sweep SweepCase
	Name  string
	// Existing > 0: the path already holds a file of that many bytes when Save is called
	Existing int `json:",omitempty"`
}

func genFile(t *rapid.T) FileCase {
	return FileCase{Sweep: SweepCase{N: rapid.SampledFrom([]int{1, 2, 7, 100, 341, 342, 1000, 6000}).Draw(t, "n"), Format: rapid.IntRange(0, 2).Draw(t, "format"), Tri: rapid.Bool().Draw(t, "tri")},
		Name:     rapid.SampledFrom([]string{"a.ply", "B.PLY", "noext", "dots.in.name.ply", "sub/dir/a.ply"}).Draw(t, "name"),
		Existing: rapid.SampledFrom([]int{0, 0, 1, 200, 5000, 70000, 1000000}).Draw(t, "existing")}
}

func sweepMesh(c SweepCase) modeling.Mesh {
	nv := c.N
	var idx []int
	if c.Tri {
		nv = c.N + 2
		for t := 0; t < c.N; t++ {
			idx = append(idx, t, t+1, t+2)
		}
	} else {
		for i := 0; i < nv; i++ {
			idx = append(idx, i)
		}
	}
	pos := make([]vector3.Float64, nv)
	for i := range pos {
		pos[i] = sweepPos(i)
	}
	topo := modeling.PointTopology
	if c.Tri {
		topo = modeling.TriangleTopology
	}
	return modeling.NewMesh(topo, idx).SetFloat3Attribute(modeling.PositionAttribute, pos)
}

func runFile(c FileCase, o *vh.Obs) *vh.Failure {
	if c.Sweep.N < 1 || c.Sweep.N > 100000 || !regexp.MustCompile(`^[A-Za-z0-9_./]{1,30}$`).MatchString(c.Name) || strings.Contains(c.Name, "..") || strings.HasPrefix(c.Name, "/") {
		o.Class("out-of-domain")
		return nil
	}
	f := ((c.Sweep.Format % 3) + 3) % 3
	o.NonTrivial()
	o.Class("files/" + encName[f])
	m := sweepMesh(c.Sweep)
	want := &bytes.Buffer{}
	if err := ply.Write(want, m, formats[f]); err != nil {
		return vh.Failf("files/write-error", "Write: %v", err)
	}
	dir, cleanup, err := vh.TempDir("c04files")
	if err != nil {
		return vh.Failf("harness/tempdir", "%v", err)
	}
	defer cleanup()
	path := filepath.Join(dir, c.Name)
	os.MkdirAll(filepath.Dir(path), 0o755) // the library creates missing directories without permission bits (os.ModeDir): only root could write into them
	if c.Existing > 0 && c.Existing <= 1<<21 {
		if err := os.WriteFile(path, bytes.Repeat([]byte{'#'}, c.Existing), 0o644); err != nil {
			return vh.Failf("harness/existing-file", "%v", err)
		}
		o.Class("files/over-an-existing-file")
	}
	if err := ply.Save(path, m, formats[f]); err != nil {
		return vh.Failf("files/save-error", "Save(%q): %v", c.Name, err)
	}
	got, err := os.ReadFile(path)
	if err != nil {
		return vh.Failf("files/save-error", "Save(%q) left no readable file: %v", c.Name, err)
	}
	if !bytes.Equal(got, want.Bytes()) {
		return vh.Failf("files/saved-bytes-differ", "Save(%q) of %d primitives wrote %d bytes, Write writes %d", c.Name, c.Sweep.N, len(got), want.Len())
	}
	loaded, err := ply.Load(path)
	if err != nil || loaded == nil {
		return vh.Failf("files/load-error", "Load of what Save just wrote: %v", err)
	}
	ref, err := ply.ReadMesh(bytes.NewReader(want.Bytes()))
	if err != nil {
		return vh.Failf("files/read-error", "ReadMesh of Write's bytes: %v", err)
	}
	if a, b := oracle.Snapshot(*loaded), oracle.Snapshot(*ref); a != b {
		return vh.Failf("files/loaded-mesh-differs", "the mesh Load returns differs from what ReadMesh returns for the same bytes: %s", oracle.DiffSnap(b, a))
	}
	return nil
}

func TestC04(t *testing.T) {
	vh.Drive(t, vh.Spec[Case]{Name: "default-writer", Quick: 40000, Thorough: 1500000, Gen: genCase, Run: runCase, Deadline: 20 * time.Second})
	vh.Drive(t, vh.Spec[ConcCase]{Name: "concurrent-writers", Quick: 240, Thorough: 8000, Gen: genConc, Run: runConc, Repeat: 20})
	vh.Drive(t, vh.Spec[CustomCase]{Name: "custom-writers", Quick: 40000, Thorough: 1500000, Gen: genCustom, Run: runCustom, Deadline: 20 * time.Second})
	// ~1.2 GB and ~5 s per case; one case per encoding, on different shards
	vh.Enumerate(t, vh.Spec[HugeCase]{Name: "huge-meshes", Run: runHuge, Deadline: 5 * time.Minute}, hugeCases())
	vh.Enumerate(t, vh.Spec[SweepCase]{Name: "count-sweep", Run: runSweep}, sweepCases())
	vh.Drive(t, vh.Spec[FileCase]{Name: "files", Quick: 400, Thorough: 12000, Gen: genFile, Run: runFile})
}

func FuzzC04(f *testing.F) {
	vh.Fuzz(f, vh.Spec[Case]{Name: "default-writer", Gen: genCase, Run: runCase, Deadline: 20 * time.Second})
}
