// Package c08 decides property C08 (PLY files written by other tools load to what the
// specification says): an independent reference encoder (internal/plyref) emits files from the
// specification's grammar and the expected mesh is computed from the description alone.
package c08

import (
	"bufio"
	"bytes"
	"fmt"
	"io"
	"math"
	"strings"
	"testing"
	"testing/iotest"
	"time"

	"github.com/EliCDavis/polyform/formats/ply"
	"github.com/EliCDavis/polyform/modeling"
	"pgregory.net/rapid"

	"verifharness/internal/oracle"
	"verifharness/internal/plyref"
	"verifharness/internal/vh"
)

func TestMain(m *testing.M) {
	vh.Main(m, vh.Meta{
		ID:    "C08",
		Level: "exploration",
		Rule: "rapid-generated PLY files from an independent reference encoder: vertex properties in any order from the recognised groups (x y z, nx ny nz, red green blue [alpha], s t, scale_*, rot_*, f_dc_*, opacity) plus 0..2 unrecognised scalars, one scalar type per group from uchar/int/float/double with alias spellings, comment/obj_info lines, LF or CRLF header endings, optional face element with count type uchar/int/uint, index type int/uint, triangles and quads mixed, optional texcoord float list before or after the index list; ascii / little-endian / big-endian body; float32-exact values. " +
			"Oracle: the mesh computed from the description by the specification (vertex i carries record i, 8-bit values /255, quads give fan triangles (0,1,2),(0,2,3), per-face texcoords compared per corner). " +
			"Non-trivial = position group not first, or >= 1 non-float type, or an unrecognised property, or a quad. Distinct by case JSON.",
		Assumptions: []string{
			"one scalar type per property group (the reader documents mixed types inside a group as unsupported); only uchar/int/float/double on vertices, uchar/int/uint counts, int/uint indices, float texcoord list",
			"uchar-typed scalar properties (opacity, unrecognised) are generated for the binary encodings only: known finding ascii-uchar-scalar-raw (counted as excluded_known); uchar colour groups are generated for all encodings",
			"8-bit values compare with 1e-12 absolute slack (byte/255 is computed with a 1-ulp different rounding in one reader path); ascii floats with 1e-6 relative slack",
		},
	})
}

type Case struct {
	F plyref.File
	// Reader selects how the bytes are handed to ReadMesh: 0 bytes.Reader, 1 one byte per Read, 2 half of
	// the request per Read, 3 chunks of 7 bytes, 4 data together with io.EOF, 5 bufio.Reader of size 16
	// (io.Reader allows all of them; files, pipes, sockets and decompressors behave like this)
	Reader int `json:",omitempty"`
}

func genCase(t *rapid.T) Case {
	ex := 0
	o := plyref.Opts{ExcludeAsciiUcharScalar: true, Excluded: &ex}
	if rapid.IntRange(0, 11).Draw(t, "manyVerts") == 0 {
		o.MinVerts, o.MaxVerts = 100, 400 // indices beyond 127 / 255
	}
	f := plyref.Gen(t, o)
	_ = ex
	c := Case{F: f}
	if rapid.IntRange(0, 2).Draw(t, "shortReads") == 0 {
		c.Reader = rapid.IntRange(1, 5).Draw(t, "reader")
	}
	return c
}

type chunkReader struct {
	r io.Reader
	n int
}

func (c chunkReader) Read(p []byte) (int, error) {
	if len(p) > c.n {
		p = p[:c.n]
	}
	return c.r.Read(p)
}

func readerFor(mode int, b []byte) io.Reader {
	var r io.Reader = bytes.NewReader(b)
	switch mode {
	case 1:
		return iotest.OneByteReader(r)
	case 2:
		return iotest.HalfReader(r)
	case 3:
		return chunkReader{r, 7}
	case 4:
		return iotest.DataErrReader(r)
	case 5:
		return bufio.NewReaderSize(chunkReader{r, 5}, 16)
	}
	return r
}

func runCase(c Case, o *vh.Obs) *vh.Failure {
	f := c.F
	if len(f.Props) == 0 {
		return nil
	}
	enc := f.Encode()
	nontrivial := f.Props[0].Name != "x"
	hasQuad := false
	for _, p := range f.Props {
		if p.Type != "float" || p.Group == "" {
			nontrivial = true
		}
	}
	for _, fc := range f.Faces {
		if len(fc.Idx) == 4 {
			nontrivial, hasQuad = true, true
		}
	}
	if nontrivial {
		o.NonTrivial()
	}
	o.Class("format/" + f.Format)
	if f.Props[0].Name != "x" {
		o.Class("position-not-first")
	}
	if f.CRLF {
		o.Class("crlf")
	}
	if hasQuad {
		o.Class("quad")
	}
	if f.HasFaces {
		o.Class("faces")
		if f.HasUV {
			o.Class(map[bool]string{true: "texcoord-before-indices", false: "texcoord-after-indices"}[f.UVFirst])
		}
	}
	var m *modeling.Mesh
	var err error
	if c.Reader != 0 {
		o.Class(fmt.Sprintf("short-reads/%d", c.Reader))
	}
	if len(f.Vals) > 127 {
		o.Class("more-than-127-vertices")
	}
	if kind, val := oracle.Try(func() { m, err = ply.ReadMesh(readerFor(c.Reader, enc.Bytes)) }); kind != "" {
		return vh.Failf("read-panic-"+kind, "ReadMesh panicked on a valid file: %v\n%q", val, enc.Bytes)
	}
	if err != nil {
		return vh.Failf("read-error", "ReadMesh rejected a valid file: %v\n%q", err, enc.Bytes)
	}
	return Compare(f, m, enc.Bytes)
}

// Compare checks the decoded mesh against the description.
func Compare(f plyref.File, m *modeling.Mesh, file []byte) *vh.Failure {
	cornersV, cornerUV := f.Corners()
	wantTopo := modeling.PointTopology
	if f.HasFaces {
		wantTopo = modeling.TriangleTopology
	}
	if m.Topology() != wantTopo {
		return vh.Failf("topology", "topology %v, want %v", m.Topology(), wantTopo)
	}
	if m.Indices().Len() != len(cornersV) {
		return vh.Failf("corner-count", "%d corners, the file describes %d\n%q", m.Indices().Len(), len(cornersV), file)
	}
	if err := oracle.WFStatic(*m); err != nil {
		return vh.Failf("malformed", "decoded mesh is malformed: %v", err)
	}
	ascii := f.Format == "ascii"
	tol := func(a, b float64) bool {
		if a == b {
			return true
		}
		return ascii && math.Abs(a-b) <= 1e-6*math.Max(math.Abs(a), math.Abs(b))
	}
	for c, v := range cornersV {
		mv := m.Indices().At(c)
		for j, p := range f.Props {
			want := f.ExpVal(v, j)
			var got float64
			switch {
			case p.Group == "":
				if !m.HasFloat1Attribute(p.Name) {
					return vh.Failf("missing-scalar", "unrecognised scalar %s missing; have %v", p.Name, m.Float1Attributes())
				}
				got = m.Float1Attribute(p.Name).At(mv)
			case p.Group == modeling.OpacityAttribute:
				if !m.HasFloat1Attribute(p.Group) {
					return vh.Failf("missing-attribute", "missing %s", p.Group)
				}
				got = m.Float1Attribute(p.Group).At(mv)
			case p.Group == modeling.TexCoordAttribute:
				if f.HasFaces && f.HasUV {
					continue // overridden by per-face uvs
				}
				if !m.HasFloat2Attribute(p.Group) {
					return vh.Failf("missing-attribute", "missing %s", p.Group)
				}
				got = m.Float2Attribute(p.Group).At(mv).ToArr()[p.Comp]
			case p.Group == modeling.RotationAttribute || p.Group == modeling.ColorAttribute+"4":
				name := strings.TrimSuffix(p.Group, "4")
				if !m.HasFloat4Attribute(name) {
					return vh.Failf("missing-attribute", "missing v4 %s; have %v / %v", name, m.Float4Attributes(), m.Float3Attributes())
				}
				a := m.Float4Attribute(name).At(mv)
				got = []float64{a.X(), a.Y(), a.Z(), a.W()}[p.Comp]
			default:
				if !m.HasFloat3Attribute(p.Group) {
					return vh.Failf("missing-attribute", "missing v3 %s; have %v", p.Group, m.Float3Attributes())
				}
				got = m.Float3Attribute(p.Group).At(mv).Component(p.Comp)
			}
			if p.Type == "uchar" && math.Abs(got-want) <= 1e-12 {
				continue
			}
			if !tol(got, want) {
				scalar := p.Group == "" || p.Group == modeling.OpacityAttribute
				if ascii && p.Type == "uchar" && scalar && got == f.Vals[v][j] {
					// exactly the known finding: raw byte instead of byte/255 for an ascii uchar scalar
					return vh.Failf("ascii-uchar-scalar-raw", "ascii uchar scalar %s decodes as the raw byte %v; binary encodings and both writers use byte/255 = %v", p.Name, got, want)
				}
				return vh.Failf("value/"+f.Format+"/"+p.Type, "%s corner %d (vertex %d) property %s(%s): got %v want %v\n%q", f.Format, c, v, p.Name, p.Type, got, want, file)
			}
		}
		if f.HasFaces && f.HasUV {
			if !m.HasFloat2Attribute(modeling.TexCoordAttribute) {
				return vh.Failf("missing-face-texcoord", "per-face texcoords missing")
			}
			uv := m.Float2Attribute(modeling.TexCoordAttribute).At(mv)
			if !tol(uv.X(), cornerUV[c][0]) || !tol(uv.Y(), cornerUV[c][1]) {
				return vh.Failf("face-texcoord", "corner %d uv %v, want %v", c, uv, cornerUV[c])
			}
		}
	}
	// nothing invented: attribute families present must all come from the header
	known := map[string]bool{}
	for _, p := range f.Props {
		if p.Group == "" {
			known[p.Name] = true
		} else {
			known[strings.TrimSuffix(p.Group, "4")] = true
		}
	}
	if f.HasFaces && f.HasUV {
		known[modeling.TexCoordAttribute] = true
	}
	for _, l := range [][]string{m.Float1Attributes(), m.Float2Attributes(), m.Float3Attributes(), m.Float4Attributes()} {
		for _, a := range l {
			if !known[a] {
				return vh.Failf("invented-attribute", "decoded mesh has attribute %q the file does not describe (props %v)", a, fmt.Sprint(f.Props))
			}
		}
	}
	return nil
}

func TestC08(t *testing.T) {
	vh.Drive(t, vh.Spec[Case]{Name: "reference-files", Quick: 300000, Thorough: 2500000, Gen: genCase, Run: runCase, Deadline: 20 * time.Second})
}

func FuzzC08(f *testing.F) {
	vh.Fuzz(f, vh.Spec[Case]{Name: "reference-files", Gen: genCase, Run: runCase, Deadline: 20 * time.Second})
}
