// Package c08 decides property C08 (PLY files written by other tools load to what the
// specification says): an independent reference encoder (internal/plyref) emits files from the
// specification's grammar and the expected mesh is computed from the description alone.
package c08

import (
	"bufio"
	"bytes"
	"encoding/binary"
	"fmt"
	"io"
	"math"
	"strconv"
	"strings"
	"testing"
	"testing/iotest"
	"time"

	"github.com/EliCDavis/polyform/formats/ply"
	"github.com/EliCDavis/polyform/modeling"
	"github.com/EliCDavis/polyform/nodes"
	"pgregory.net/rapid"

	"verifharness/internal/oracle"
	"verifharness/internal/plyref"
	"verifharness/internal/vh"
)

func TestMain(m *testing.M) {
	vh.Main(m, vh.Meta{
		ID:    "C08",
		Level: "exploration",
		Rule: "rapid-generated PLY files from an independent reference encoder: vertex properties in any order from the recognised groups (x y z, nx ny nz, red green blue [alpha], s t, scale_*, rot_*, f_dc_*, opacity) plus 0..2 unrecognised scalars (about 1 file in 30: 40/100/250/600 more of one type on 1..6 vertices, i.e. ascii vertex lines up to ~15 KiB - always below 60 KiB - and binary records up to ~4.8 KB; independently about 1 file in 30: one header comment line of 300/1100/5000 bytes), one scalar type per group from uchar/int/float/double with alias spellings, comment/obj_info lines, LF or CRLF header endings, optional face element with count type uchar/int/uint, index type int/uint, triangles and quads mixed, optional texcoord float list before or after the index list; ascii / little-endian / big-endian body; float32-exact values. " +
			"Oracle: the mesh computed from the description by the specification (vertex i carries record i, 8-bit values /255, quads give fan triangles (0,1,2),(0,2,3), per-face texcoords compared per corner). " +
			"Non-trivial = position group not first, or >= 1 non-float type, or an unrecognised property, or a quad, or a long comment line. Distinct by case JSON. " +
			"Sub-check huge-files (hand-built files of 2^24+8 vertices with faces naming vertex numbers beyond 2^24; every case non-trivial).",
		Assumptions: []string{
			"one scalar type per property group (the reader documents mixed types inside a group as unsupported); only uchar/int/float/double on vertices, uchar/int/uint counts, int/uint indices, float texcoord list",
			"uchar-typed scalar properties (opacity, unrecognised) are generated for the binary encodings only: known finding ascii-uchar-scalar-raw (counted as excluded_known); uchar colour groups are generated for all encodings",
			"8-bit values compare with 1e-12 absolute slack (byte/255 is computed with a 1-ulp different rounding in one reader path); ascii floats with 1e-6 relative slack",
		},
	})
}

type Case struct {
	F plyref.File
	// Reader selects how the bytes are handed to ReadMesh: 0 bytes.Reader, 1 one byte per Read, 2 half of
	// the request per Read, 3 chunks of 7 bytes, 4 data together with io.EOF, 5 bufio.Reader of size 16
	// (io.Reader allows all of them; files, pipes, sockets and decompressors behave like this)
	Reader int `json:",omitempty"`
}

func genCase(t *rapid.T) Case {
	ex := 0
	o := plyref.Opts{ExcludeAsciiUcharScalar: true, Excluded: &ex, Wide: true, UVCount: true, Trailing: true}
	if rapid.IntRange(0, 11).Draw(t, "manyVerts") == 0 {
		o.MinVerts, o.MaxVerts = 100, 400 // indices beyond 127 / 255
	}
	f := plyref.Gen(t, o)
	_ = ex
	c := Case{F: f}
	if rapid.IntRange(0, 2).Draw(t, "shortReads") == 0 {
		c.Reader = rapid.IntRange(1, 5).Draw(t, "reader")
	}
	return c
}

type chunkReader struct {
	r io.Reader
	n int
}

func (c chunkReader) Read(p []byte) (int, error) {
	if len(p) > c.n {
		p = p[:c.n]
	}
	return c.r.Read(p)
}

func readerFor(mode int, b []byte) io.Reader {
	var r io.Reader = bytes.NewReader(b)
	switch mode {
	case 1:
		return iotest.OneByteReader(r)
	case 2:
		return iotest.HalfReader(r)
	case 3:
		return chunkReader{r, 7}
	case 4:
		return iotest.DataErrReader(r)
	case 5:
		return bufio.NewReaderSize(chunkReader{r, 5}, 16)
	}
	return r
}

func runCase(c Case, o *vh.Obs) *vh.Failure {
	f := c.F
	if len(f.Props) == 0 {
		return nil
	}
	enc := f.Encode()
	nontrivial := f.Props[0].Name != "x"
	hasQuad := false
	for _, p := range f.Props {
		if p.Type != "float" || p.Group == "" {
			nontrivial = true
		}
	}
	for _, fc := range f.Faces {
		if len(fc.Idx) == 4 {
			nontrivial, hasQuad = true, true
		}
	}
	unrecognised := 0
	for _, p := range f.Props {
		if p.Group == "" {
			unrecognised++
		}
	}
	if unrecognised >= plyref.WideExtras {
		nontrivial = true
		o.Class("wide/extra-scalars")
		o.Class(fmt.Sprintf("wide/extra-scalars/%s/%d+", map[bool]string{true: "ascii", false: "binary"}[f.Format == "ascii"], unrecognised/10*10))
		if f.Format == "ascii" { // longest vertex line (without its line ending)
			longest, start := 0, enc.HeaderLen
			for _, tk := range enc.Tokens {
				if tk.Line && tk.Off <= enc.VertexEnd {
					if tk.Off-1-start > longest {
						longest = tk.Off - 1 - start
					}
					start = tk.Off
				}
			}
			for _, lim := range []int{1 << 10, 4 << 10, 16 << 10} {
				if longest >= lim {
					o.Class(fmt.Sprintf("wide/ascii-vertex-line>=%dKiB", lim>>10))
				}
			}
		} else if len(f.Vals) > 0 {
			for _, lim := range []int{256, 1 << 10, 4 << 10} {
				if (enc.VertexEnd-enc.HeaderLen)/len(f.Vals) >= lim {
					o.Class(fmt.Sprintf("wide/binary-record>=%dB", lim))
				}
			}
		}
	}
	if f.LongComment > 0 {
		nontrivial = true
		o.Class("wide/long-comment")
		o.Class(fmt.Sprintf("wide/long-comment/%d", f.LongComment))
	}
	if nontrivial {
		o.NonTrivial()
	}
	o.Class("format/" + f.Format)
	if f.Trailing > 0 {
		o.Class(fmt.Sprintf("element-after-the-last-one-read/%d/faces=%v", f.Trailing, f.HasFaces))
		o.NonTrivial()
	}
	if f.UVCountT != "" {
		o.Class("texcoord-count-type/" + f.UVCountT)
	}
	if f.Props[0].Name != "x" {
		o.Class("position-not-first")
	}
	if f.CRLF {
		o.Class("crlf")
	}
	if hasQuad {
		o.Class("quad")
	}
	if f.HasFaces {
		o.Class("faces")
		if f.HasUV {
			o.Class(map[bool]string{true: "texcoord-before-indices", false: "texcoord-after-indices"}[f.UVFirst])
		}
	}
	var m *modeling.Mesh
	var err error
	if c.Reader != 0 {
		o.Class(fmt.Sprintf("short-reads/%d", c.Reader))
	}
	if len(f.Vals) > 127 {
		o.Class("more-than-127-vertices")
	}
	if kind, val := oracle.Try(func() { m, err = ply.ReadMesh(readerFor(c.Reader, enc.Bytes)) }); kind != "" {
		return vh.Failf("read-panic-"+kind, "ReadMesh panicked on a valid file: %v\n%q", val, enc.Bytes)
	}
	if err != nil {
		return vh.Failf("read-error", "ReadMesh rejected a valid file: %v\n%q", err, enc.Bytes)
	}
	if fl := Compare(f, m, enc.Bytes); fl != nil {
		return fl
	}
	// the graph's PLY read node is the same decoder applied to a byte parameter
	var nm modeling.Mesh
	var nerr error
	if kind, val := oracle.Try(func() { nm, nerr = (ply.ReadNodeData{In: nodes.Value(enc.Bytes).Out()}).Process() }); kind != "" {
		return vh.Failf("readnode-panic-"+kind, "ply.ReadNode panicked on a valid file: %v\n%q", val, enc.Bytes)
	}
	if nerr != nil || oracle.Snapshot(nm) != oracle.Snapshot(*m) {
		return vh.Failf("readnode-differs", "ply.ReadNode on the bytes of a valid file (err %v) gives a different mesh than ReadMesh\n%q", nerr, enc.Bytes)
	}
	return nil
}

// Compare checks the decoded mesh against the description.
func Compare(f plyref.File, m *modeling.Mesh, file []byte) *vh.Failure {
	cornersV, cornerUV := f.Corners()
	wantTopo := modeling.PointTopology
	if f.HasFaces {
		wantTopo = modeling.TriangleTopology
	}
	if m.Topology() != wantTopo {
		return vh.Failf("topology", "topology %v, want %v", m.Topology(), wantTopo)
	}
	if m.Indices().Len() != len(cornersV) {
		return vh.Failf("corner-count", "%d corners, the file describes %d\n%q", m.Indices().Len(), len(cornersV), file)
	}
	if err := oracle.WFStatic(*m); err != nil {
		return vh.Failf("malformed", "decoded mesh is malformed: %v", err)
	}
	ascii := f.Format == "ascii"
	tol := func(a, b float64) bool {
		if a == b {
			return true
		}
		return ascii && math.Abs(a-b) <= 1e-6*math.Max(math.Abs(a), math.Abs(b))
	}
	for c, v := range cornersV {
		mv := m.Indices().At(c)
		for j, p := range f.Props {
			want := f.ExpVal(v, j)
			var got float64
			switch {
			case p.Group == "":
				if !m.HasFloat1Attribute(p.Name) {
					return vh.Failf("missing-scalar", "unrecognised scalar %s missing; have %v", p.Name, m.Float1Attributes())
				}
				got = m.Float1Attribute(p.Name).At(mv)
			case p.Group == modeling.OpacityAttribute:
				if !m.HasFloat1Attribute(p.Group) {
					return vh.Failf("missing-attribute", "missing %s", p.Group)
				}
				got = m.Float1Attribute(p.Group).At(mv)
			case p.Group == modeling.TexCoordAttribute:
				if f.HasFaces && f.HasUV {
					continue // overridden by per-face uvs
				}
				if !m.HasFloat2Attribute(p.Group) {
					return vh.Failf("missing-attribute", "missing %s", p.Group)
				}
				got = m.Float2Attribute(p.Group).At(mv).ToArr()[p.Comp]
			case p.Group == modeling.RotationAttribute || p.Group == modeling.ColorAttribute+"4":
				name := strings.TrimSuffix(p.Group, "4")
				if !m.HasFloat4Attribute(name) {
					return vh.Failf("missing-attribute", "missing v4 %s; have %v / %v", name, m.Float4Attributes(), m.Float3Attributes())
				}
				a := m.Float4Attribute(name).At(mv)
				got = []float64{a.X(), a.Y(), a.Z(), a.W()}[p.Comp]
			default:
				if !m.HasFloat3Attribute(p.Group) {
					return vh.Failf("missing-attribute", "missing v3 %s; have %v", p.Group, m.Float3Attributes())
				}
				got = m.Float3Attribute(p.Group).At(mv).Component(p.Comp)
			}
			if p.Type == "uchar" && math.Abs(got-want) <= 1e-12 {
				continue
			}
			if !tol(got, want) {
				scalar := p.Group == "" || p.Group == modeling.OpacityAttribute
				if ascii && p.Type == "uchar" && scalar && got == f.Vals[v][j] {
					// exactly the known finding: raw byte instead of byte/255 for an ascii uchar scalar
					return vh.Failf("ascii-uchar-scalar-raw", "ascii uchar scalar %s decodes as the raw byte %v; binary encodings and both writers use byte/255 = %v", p.Name, got, want)
				}
				return vh.Failf("value/"+f.Format+"/"+p.Type, "%s corner %d (vertex %d) property %s(%s): got %v want %v\n%q", f.Format, c, v, p.Name, p.Type, got, want, file)
			}
		}
		if f.HasFaces && f.HasUV {
			if !m.HasFloat2Attribute(modeling.TexCoordAttribute) {
				return vh.Failf("missing-face-texcoord", "per-face texcoords missing")
			}
			uv := m.Float2Attribute(modeling.TexCoordAttribute).At(mv)
			if !tol(uv.X(), cornerUV[c][0]) || !tol(uv.Y(), cornerUV[c][1]) {
				return vh.Failf("face-texcoord", "corner %d uv %v, want %v", c, uv, cornerUV[c])
			}
		}
	}
	// nothing invented: attribute families present must all come from the header
	known := map[string]bool{}
	for _, p := range f.Props {
		if p.Group == "" {
			known[p.Name] = true
		} else {
			known[strings.TrimSuffix(p.Group, "4")] = true
		}
	}
	if f.HasFaces && f.HasUV {
		known[modeling.TexCoordAttribute] = true
	}
	for _, l := range [][]string{m.Float1Attributes(), m.Float2Attributes(), m.Float3Attributes(), m.Float4Attributes()} {
		for _, a := range l {
			if !known[a] {
				return vh.Failf("invented-attribute", "decoded mesh has attribute %q the file does not describe (props %v)", a, fmt.Sprint(f.Props))
			}
		}
	}
	return nil
}

// ---------------------------------------------------------------- huge files (vertex numbers beyond 2^24)

// HugeCase describes a file with more than 2^24 vertices, written directly (no writer of the
// library involved): vertex i sits at (i%4096, i/4096, 0.5), all float32-exact, and the faces name
// vertex numbers that a float32 cannot hold.
type HugeCase struct {
	Enc       string // ascii | binary_little_endian | binary_big_endian
	CountType string // uchar | int | uint
	IndexType string // int | uint
	N         int
	Faces     [][]int
}

func hugeCases() []HugeCase {
	const b = 1 << 24
	n := b + 8
	faces := [][]int{{0, 1, n - 1}, {b + 1, b - 1, b + 3}, {b + 5, b + 2, 5, n - 2}, {b + 7, b, 2}}
	return []HugeCase{
		{"ascii", "uchar", "int", n, faces},
		{"binary_little_endian", "uchar", "uint", n, faces},
		{"binary_big_endian", "int", "int", n, faces},
	}
}

func hugeXYZ(i int) [3]float32 { return [3]float32{float32(i % 4096), float32(i / 4096), 0.5} }

func (c HugeCase) encode() []byte {
	var bo binary.AppendByteOrder = binary.LittleEndian
	if c.Enc == "binary_big_endian" {
		bo = binary.BigEndian
	}
	hdr := fmt.Sprintf("ply\nformat %s 1.0\ncomment huge reference file\nelement vertex %d\nproperty float x\nproperty float y\nproperty float z\nelement face %d\nproperty list %s %s vertex_indices\nend_header\n",
		c.Enc, c.N, len(c.Faces), c.CountType, c.IndexType)
	out := make([]byte, 0, len(hdr)+c.N*14+256)
	out = append(out, hdr...)
	if c.Enc == "ascii" {
		for i := 0; i < c.N; i++ {
			out = strconv.AppendInt(out, int64(i%4096), 10)
			out = append(out, ' ')
			out = strconv.AppendInt(out, int64(i/4096), 10)
			out = append(out, " 0.5\n"...)
		}
		for _, f := range c.Faces {
			out = strconv.AppendInt(out, int64(len(f)), 10)
			for _, v := range f {
				out = append(out, ' ')
				out = strconv.AppendInt(out, int64(v), 10)
			}
			out = append(out, '\n')
		}
		return out
	}
	for i := 0; i < c.N; i++ {
		for _, v := range hugeXYZ(i) {
			out = bo.AppendUint32(out, math.Float32bits(v))
		}
	}
	for _, f := range c.Faces {
		if c.CountType == "uchar" {
			out = append(out, byte(len(f)))
		} else {
			out = bo.AppendUint32(out, uint32(len(f)))
		}
		for _, v := range f {
			out = bo.AppendUint32(out, uint32(v))
		}
	}
	return out
}

// sweepCases: the same hand-built files for every vertex count 3..N once (encoding and list types
// cycle with the count): a defect that needs an exact multiple of an internal block size cannot be
// found by sampling counts.
func sweepCases() []HugeCase {
	n := 3000
	if vh.Tier == "thorough" {
		n = 30000
	}
	encs := []string{"ascii", "binary_little_endian", "binary_big_endian"}
	var out []HugeCase
	for k := 3; k <= n; k++ {
		faces := [][]int{{0, 1, k - 1}, {k - 1, k / 2, 0}}
		if k >= 4 {
			faces = append(faces, []int{k - 1, k - 2, 1, k / 2})
		}
		out = append(out, HugeCase{Enc: encs[k%3], CountType: []string{"uchar", "int", "uint"}[(k/3)%3], IndexType: []string{"int", "uint"}[(k/9)%2], N: k, Faces: faces})
	}
	return out
}

func runHuge(c HugeCase, o *vh.Obs) *vh.Failure {
	if c.N < 3 || c.N > 1<<25 {
		o.Class("out-of-domain")
		return nil
	}
	if c.N < 1<<24 {
		o.Class("sweep/" + c.Enc)
	}
	o.Class("huge/" + c.Enc + "/" + c.CountType + "-" + c.IndexType)
	o.NonTrivial()
	file := c.encode()
	back, err := ply.ReadMesh(bytes.NewReader(file))
	if err != nil {
		return vh.Failf("huge/read-error/"+c.Enc, "a valid file with %d vertices and %d faces (%d bytes) is rejected: %v", c.N, len(c.Faces), len(file), err)
	}
	var want []int // quads give the fan (0,1,2),(0,2,3)
	for _, f := range c.Faces {
		for k := 2; k < len(f); k++ {
			want = append(want, f[0], f[k-1], f[k])
		}
	}
	if back.Topology() != modeling.TriangleTopology || back.PrimitiveCount() != len(want)/3 {
		return vh.Failf("huge/primitives/"+c.Enc, "the file describes %d triangles, read topology %v with %d primitives", len(want)/3, back.Topology(), back.PrimitiveCount())
	}
	if !back.HasFloat3Attribute(modeling.PositionAttribute) || back.AttributeLength() != c.N {
		return vh.Failf("huge/vertices/"+c.Enc, "the file holds %d vertices, the mesh has %d", c.N, back.AttributeLength())
	}
	got := back.Float3Attribute(modeling.PositionAttribute)
	ind := back.Indices()
	for k, w := range want {
		gi := ind.At(k)
		if gi < 0 || gi >= got.Len() {
			return vh.Failf("huge/index-out-of-range/"+c.Enc, "corner %d references vertex %d of %d", k, gi, got.Len())
		}
		e := hugeXYZ(w)
		if p := got.At(gi); p.X() != float64(e[0]) || p.Y() != float64(e[1]) || p.Z() != float64(e[2]) {
			return vh.Failf("huge/corner-value/"+c.Enc, "corner %d names vertex %d at %v and is read as vertex %d at %v", k, w, e, gi, p)
		}
	}
	for _, i := range []int{0, 1, 4095, 4096, 1 << 16, 1<<24 - 1, 1 << 24, c.N - 1, c.N / 2, c.N / 3} { // vertex i carries record i
		if i >= c.N {
			continue
		}
		e := hugeXYZ(i)
		if p := got.At(i); p.X() != float64(e[0]) || p.Y() != float64(e[1]) || p.Z() != float64(e[2]) {
			return vh.Failf("huge/vertex-value/"+c.Enc, "vertex %d is %v in the file and %v in the mesh", i, e, p)
		}
	}
	return nil
}

func TestC08(t *testing.T) {
	vh.Drive(t, vh.Spec[Case]{Name: "reference-files", Quick: 300000, Thorough: 2500000, Gen: genCase, Run: runCase, Deadline: 20 * time.Second})
	// ~1 GB and a few seconds per case, one per encoding, on different shards
	vh.Enumerate(t, vh.Spec[HugeCase]{Name: "huge-files", Run: runHuge, Deadline: 5 * time.Minute}, hugeCases())
	vh.Enumerate(t, vh.Spec[HugeCase]{Name: "count-sweep", Run: runHuge,
		Key: func(c HugeCase) string { return fmt.Sprintf("sweep-%d", c.N) }}, sweepCases())
}

func FuzzC08(f *testing.F) {
	vh.Fuzz(f, vh.Spec[Case]{Name: "reference-files", Gen: genCase, Run: runCase, Deadline: 20 * time.Second})
}
