// Package c20 decides property C20 (2D Bowyer–Watson output is a consistently wound Delaunay
// triangulation of the input).
//
// Every decision of the oracle and of the general-position precondition is exact: a floating
// point evaluation with a forward error bound (Shewchuk's static filters, taken 3–9x wider) is
// accepted only when the bound proves the sign / the comparison, everything else is recomputed
// with math/big rationals on the float64 inputs.
package c20

import (
	"fmt"
	"io"
	"log"
	"math"
	"math/big"
	"math/rand"
	"sort"
	"testing"

	"github.com/EliCDavis/polyform/modeling"
	"github.com/EliCDavis/polyform/modeling/triangulation"
	"github.com/EliCDavis/vector/vector2"
	"pgregory.net/rapid"

	"verifharness/internal/vh"
)

// General position with a margin (scale invariant, local to the triple / quadruple):
//
//	a triple is admitted when      |cross(b-a, c-a)|      >= muCol  * l^2
//	a quadruple is admitted when   |in-circle determinant| >= muCirc * L^4
//
// where l / L is the L-infinity diameter of the three / four points. The library evaluates the
// same two polynomials in float64 with an error below 1e-15*l^2 resp. 1.4e-14*L^4, so on admitted
// sets every predicate among input points has 4–6 orders of magnitude of head room.
const (
	muCol  = 1e-9
	muCirc = 1e-10
	maxAbs = 1e9 // coordinates beyond this are outside the generated domain (replay files only)
)

func TestMain(m *testing.M) {
	log.SetOutput(io.Discard) // the package under test logs every re-wound triangle
	vh.Main(m, vh.Meta{
		ID:    "C20",
		Level: "exploration",
		Rule: "rapid-generated sets of 3..60 points (a third of the cases at most 10): uniform, clustered (1-4 clusters, radius 1e-3..0.2 of the frame, plus background), " +
			"near-collinear hulls (two thirds of the points within 1e-4..1e-2 of the frame's edges), jittered grids (jitter 1e-5..0.3 cell), near-cocircular rings (radial jitter 1e-5..0.1); " +
			"frame size log-uniform 1e-3..1e4 (a quarter of the cases 1e-3..0.2), x:y aspect up to 1000:1 either way (less for the distributions that carry a second small scale), offsets none / <=10 / up to +-1e6, " +
			"insertion order as drawn / sorted by x / sorted by y / shuffled grid; coordinates are drawn uniformly with 52 bits (rapid's own float ranges repeat round values). " +
			"General position is enforced constructively point by point with exact arithmetic: a candidate forming a near-collinear triple or near-cocircular quadruple with the accepted points is redrawn up to 3 times, then given up " +
			"(counters gen_points_tried / _refused_by_margin / _dropped; measured < 1 % refused). " +
			"Oracle in exact arithmetic: vertex i == input point i bit for bit and every index in range; every triangle non-degenerate and all of one orientation; no two triangle interiors intersect (pairwise separating-edge test); no input point strictly inside a circumcircle. " +
			"Completeness of the hull is not demanded (classes empty-or-partial-output/*). Because the four conditions are met by returning nothing (a flipped in-circle sign does exactly that), one non-vacuity condition is added, signature missing-interior-triangle: " +
			"a triangle of the input's Delaunay triangulation (reference: all index triples with an empty circumcircle) whose closed circumdisk lies inside the convex hull of the input must be returned - its circumcircle is empty whatever enclosing vertices an implementation adds, since those are outside the hull. " +
			"Non-trivial = at least one triangle returned and n >= 5; distinct by case JSON. " +
			"Sub-check concurrent-callers: 2-6 inputs triangulated at the same time, each judged by the full oracle; non-trivial when >= 2 of them have >= 3 points in general position. " +
			"The input slice carries 0, 1, 3, 8 or 64 elements of spare capacity (class input-slice-with-spare-capacity) and must be bit-identical after the call.",
		Assumptions: []string{
			fmt.Sprintf("general position is read with a margin: every triple has |cross| >= %g*l^2 and every quadruple |in-circle det| >= %g*L^4 (l, L = L-infinity diameter of the triple / quadruple); sets violating it are never generated and are skipped when met in a replay file", muCol, muCirc),
			"the margin cannot be extended to the implementation's auxiliary enclosing vertices (their position is not part of the contract); a float64 in-circle evaluation involving them is unreliable only within ~1e-14 relative of degeneracy, estimated < 1e-2 such events per thorough run, none observed",
			"offsets are limited to 1e9 times the smaller of the x/y scales, so that coordinates keep >= 7 significant digits of resolution inside the set",
			"missing hull triangles and empty results are not violations as such: the statement does not claim completeness and a finite enclosing triangle cannot give it; only Delaunay triangles whose circumdisk lies inside the input's convex hull are required to be present (added non-vacuity condition, not one of the four stated ones)",
		},
	})
}

// ---------------------------------------------------------------- exact predicates

type P = [2]float64

func rat(f float64) *big.Rat { return new(big.Rat).SetFloat64(f) }

func rsub(a, b float64) *big.Rat { return new(big.Rat).Sub(rat(a), rat(b)) }

// crossExact = (b-a) x (c-a), exact.
func crossExact(a, b, c P) *big.Rat {
	bx, by := rsub(b[0], a[0]), rsub(b[1], a[1])
	cx, cy := rsub(c[0], a[0]), rsub(c[1], a[1])
	return new(big.Rat).Sub(new(big.Rat).Mul(bx, cy), new(big.Rat).Mul(cx, by))
}

// incircleExact is the in-circle determinant of a,b,c relative to d, exact: positive when d is
// strictly inside the circumcircle of the counter-clockwise triangle abc (negative of that for a
// clockwise abc), zero when the four points are cocircular or abc is collinear with d on the line.
func incircleExact(a, b, c, d P) *big.Rat {
	ax, ay := rsub(a[0], d[0]), rsub(a[1], d[1])
	bx, by := rsub(b[0], d[0]), rsub(b[1], d[1])
	cx, cy := rsub(c[0], d[0]), rsub(c[1], d[1])
	sq := func(x, y *big.Rat) *big.Rat {
		return new(big.Rat).Add(new(big.Rat).Mul(x, x), new(big.Rat).Mul(y, y))
	}
	cr := func(x1, y1, x2, y2 *big.Rat) *big.Rat {
		return new(big.Rat).Sub(new(big.Rat).Mul(x1, y2), new(big.Rat).Mul(x2, y1))
	}
	r := new(big.Rat).Mul(sq(ax, ay), cr(bx, by, cx, cy))
	r.Sub(r, new(big.Rat).Mul(sq(bx, by), cr(ax, ay, cx, cy)))
	r.Add(r, new(big.Rat).Mul(sq(cx, cy), cr(ax, ay, bx, by)))
	return r
}

// linfDiamExact is the exact L-infinity diameter of the points.
func linfDiamExact(ps ...P) *big.Rat {
	lo, hi := ps[0], ps[0]
	for _, p := range ps[1:] {
		for k := 0; k < 2; k++ {
			if p[k] < lo[k] {
				lo[k] = p[k]
			}
			if p[k] > hi[k] {
				hi[k] = p[k]
			}
		}
	}
	dx, dy := rsub(hi[0], lo[0]), rsub(hi[1], lo[1])
	if dx.Cmp(dy) >= 0 {
		return dx
	}
	return dy
}

func tripleOKExact(a, b, c P) bool {
	cr := crossExact(a, b, c)
	if cr.Sign() == 0 {
		return false
	}
	cr.Abs(cr)
	l := linfDiamExact(a, b, c)
	thr := new(big.Rat).Mul(l, l)
	thr.Mul(thr, rat(muCol))
	return cr.Cmp(thr) >= 0
}

func quadOKExact(a, b, c, d P) bool {
	det := incircleExact(a, b, c, d)
	if det.Sign() == 0 {
		return false
	}
	det.Abs(det)
	l := linfDiamExact(a, b, c, d)
	l2 := new(big.Rat).Mul(l, l)
	thr := new(big.Rat).Mul(l2, l2)
	thr.Mul(thr, rat(muCirc))
	return det.Cmp(thr) >= 0
}

// Filter constants. Shewchuk proves |error| <= (3+16e)e*sum for the orientation evaluation and
// <= (10+96e)e*permanent for the in-circle evaluation below (e = 2^-53, no under/overflow); the
// bounds used here are 3x / 9x wider, and evaluations whose magnitude sum is below tinySum
// (where underflow could matter) always go to the exact path.
const (
	orientErr   = 1e-15
	incircleErr = 1e-14
	tinySum     = 1e-200
	band        = 1e-9 // relative half-width of the band around a margin threshold that goes to the exact path
)

func sgn(x float64) int {
	if x > 0 {
		return 1
	}
	if x < 0 {
		return -1
	}
	return 0
}

var exactCalls int // diagnostics only (how often the filters fall through); not part of any decision

// orient is the exact sign of (b-a) x (c-a): +1 counter-clockwise, -1 clockwise, 0 collinear.
func orient(a, b, c P) int {
	if a == b || a == c || b == c {
		return 0
	}
	dl := (a[0] - c[0]) * (b[1] - c[1])
	dr := (a[1] - c[1]) * (b[0] - c[0])
	det, sum := dl-dr, math.Abs(dl)+math.Abs(dr)
	if sum > tinySum && math.Abs(det) > orientErr*sum {
		return sgn(det)
	}
	exactCalls++
	return crossExact(a, b, c).Sign()
}

// inCircle is exact and independent of the orientation of abc: +1 when d is strictly inside the
// circumcircle of abc, -1 strictly outside, 0 on it (or abc degenerate).
func inCircle(a, b, c, d P) int {
	adx, ady := a[0]-d[0], a[1]-d[1]
	bdx, bdy := b[0]-d[0], b[1]-d[1]
	cdx, cdy := c[0]-d[0], c[1]-d[1]
	bdxcdy, cdxbdy := bdx*cdy, cdx*bdy
	cdxady, adxcdy := cdx*ady, adx*cdy
	adxbdy, bdxady := adx*bdy, bdx*ady
	alift, blift, clift := adx*adx+ady*ady, bdx*bdx+bdy*bdy, cdx*cdx+cdy*cdy
	det := alift*(bdxcdy-cdxbdy) + blift*(cdxady-adxcdy) + clift*(adxbdy-bdxady)
	perm := (math.Abs(bdxcdy)+math.Abs(cdxbdy))*alift + (math.Abs(cdxady)+math.Abs(adxcdy))*blift + (math.Abs(adxbdy)+math.Abs(bdxady))*clift
	var s int
	if perm > tinySum && math.Abs(det) > incircleErr*perm {
		s = sgn(det)
	} else {
		exactCalls++
		s = incircleExact(a, b, c, d).Sign()
	}
	if s == 0 {
		return 0
	}
	return s * orient(a, b, c)
}

// admits reports whether p can join pts without breaking general position (with the margin):
// p is distinct from every point, forms no near-collinear triple with any pair and no
// near-cocircular quadruple with any triple. pts itself is assumed admitted already. The
// predicate of a triple / quadruple is symmetric in its points and decided exactly, so the
// result for a whole set does not depend on the order in which it was built.
func admits(pts []P, p P) bool {
	m := len(pts)
	dx, dy, lift := make([]float64, m), make([]float64, m), make([]float64, m)
	for i, q := range pts {
		if q == p {
			return false
		}
		dx[i], dy[i] = q[0]-p[0], q[1]-p[1]
		lift[i] = dx[i]*dx[i] + dy[i]*dy[i]
	}
	cr, ab := make([]float64, m*m), make([]float64, m*m)
	for i := 0; i < m; i++ {
		for j := i + 1; j < m; j++ {
			l, r := dx[i]*dy[j], dx[j]*dy[i]
			c, s := l-r, math.Abs(l)+math.Abs(r)
			cr[i*m+j], ab[i*m+j] = c, s
			// triple (p, i, j)
			w := math.Max(math.Max(0, math.Max(dx[i], dx[j]))-math.Min(0, math.Min(dx[i], dx[j])),
				math.Max(0, math.Max(dy[i], dy[j]))-math.Min(0, math.Min(dy[i], dy[j])))
			thr := muCol * w * w
			mag, e := math.Abs(c), orientErr*s
			switch {
			case s > tinySum && mag-e > thr*(1+band):
			case s > tinySum && mag+e < thr*(1-band):
				return false
			default:
				exactCalls++
				if !tripleOKExact(p, pts[i], pts[j]) {
					return false
				}
			}
		}
	}
	for i := 0; i < m; i++ {
		for j := i + 1; j < m; j++ {
			crij, abij := cr[i*m+j], ab[i*m+j]
			xlo, xhi := math.Min(0, math.Min(dx[i], dx[j])), math.Max(0, math.Max(dx[i], dx[j]))
			ylo, yhi := math.Min(0, math.Min(dy[i], dy[j])), math.Max(0, math.Max(dy[i], dy[j]))
			for k := j + 1; k < m; k++ {
				det := lift[i]*cr[j*m+k] - lift[j]*cr[i*m+k] + lift[k]*crij
				perm := lift[i]*ab[j*m+k] + lift[j]*ab[i*m+k] + lift[k]*abij
				w := math.Max(math.Max(xhi, dx[k])-math.Min(xlo, dx[k]), math.Max(yhi, dy[k])-math.Min(ylo, dy[k]))
				w2 := w * w
				thr := muCirc * w2 * w2
				mag, e := math.Abs(det), incircleErr*perm
				switch {
				case perm > tinySum && mag-e > thr*(1+band):
				case perm > tinySum && mag+e < thr*(1-band):
					return false
				default:
					exactCalls++
					if !quadOKExact(pts[i], pts[j], pts[k], p) {
						return false
					}
				}
			}
		}
	}
	return true
}

// generalPosition decides the precondition for a whole set.
func generalPosition(pts []P) bool {
	for k := 1; k < len(pts); k++ {
		if !admits(pts[:k], pts[k]) {
			return false
		}
	}
	return true
}

// hull returns the indices of the convex hull's vertices in counter-clockwise order (monotone
// chain with the exact orientation predicate; points in general position).
func hull(pts []P) []int {
	idx := make([]int, len(pts))
	for i := range idx {
		idx[i] = i
	}
	sort.Slice(idx, func(a, b int) bool {
		p, q := pts[idx[a]], pts[idx[b]]
		if p[0] != q[0] {
			return p[0] < q[0]
		}
		return p[1] < q[1]
	})
	chain := func(order []int) []int {
		var st []int
		for _, i := range order {
			for len(st) >= 2 && orient(pts[st[len(st)-2]], pts[st[len(st)-1]], pts[i]) <= 0 {
				st = st[:len(st)-1]
			}
			st = append(st, i)
		}
		return st[:len(st)-1]
	}
	rev := make([]int, len(idx))
	for i := range idx {
		rev[i] = idx[len(idx)-1-i]
	}
	return append(chain(idx), chain(rev)...) // lower chain left to right, then upper chain right to left
}

// delaunayTriples is the reference Delaunay triangulation by definition: every index triple
// i<j<k whose circumcircle has no other input point strictly inside (exact predicate, early exit).
// In general position this is the unique Delaunay triangulation and has 2n-2-h triangles.
func delaunayTriples(pts []P) []tri {
	n := len(pts)
	var out []tri
	for i := 0; i < n; i++ {
		for j := i + 1; j < n; j++ {
			for k := j + 1; k < n; k++ {
				empty := true
				for q := 0; q < n; q++ {
					if q != i && q != j && q != k && inCircle(pts[i], pts[j], pts[k], pts[q]) > 0 {
						empty = false
						break
					}
				}
				if empty {
					out = append(out, tri{i, j, k})
				}
			}
		}
	}
	return out
}

// diskInsideHull decides exactly (rationals) whether the closed circumdisk of the non-degenerate
// triangle abc lies inside the closed convex polygon hullPts (counter-clockwise): for every edge
// p->q the centre is on the inner side and its distance to the edge's line is at least the radius.
func diskInsideHull(a, b, c P, hullPts []P) bool {
	mul := func(x, y *big.Rat) *big.Rat { return new(big.Rat).Mul(x, y) }
	sub := func(x, y *big.Rat) *big.Rat { return new(big.Rat).Sub(x, y) }
	add := func(x, y *big.Rat) *big.Rat { return new(big.Rat).Add(x, y) }
	bx, by := rsub(b[0], a[0]), rsub(b[1], a[1])
	cx, cy := rsub(c[0], a[0]), rsub(c[1], a[1])
	d := sub(mul(bx, cy), mul(by, cx))
	if d.Sign() == 0 {
		return false
	}
	d.Add(d, d)
	b2, c2 := add(mul(bx, bx), mul(by, by)), add(mul(cx, cx), mul(cy, cy))
	ux := new(big.Rat).Quo(sub(mul(cy, b2), mul(by, c2)), d) // circumcentre relative to a
	uy := new(big.Rat).Quo(sub(mul(bx, c2), mul(cx, b2)), d)
	r2 := add(mul(ux, ux), mul(uy, uy))
	mx, my := add(rat(a[0]), ux), add(rat(a[1]), uy)
	for i, p := range hullPts {
		q := hullPts[(i+1)%len(hullPts)]
		ex, ey := rsub(q[0], p[0]), rsub(q[1], p[1])
		s := sub(mul(ex, sub(my, rat(p[1]))), mul(ey, sub(mx, rat(p[0]))))
		if s.Sign() < 0 || mul(s, s).Cmp(mul(r2, add(mul(ex, ex), mul(ey, ey)))) < 0 {
			return false
		}
	}
	return true
}

// interiorsIntersect: exact separating-edge test for two non-degenerate triangles. Two convex
// polygons have disjoint interiors iff the line through an edge of one of them has the other
// polygon entirely on its outer (or on the line itself) side.
func interiorsIntersect(t1, t2 [3]P) bool {
	if orient(t1[0], t1[1], t1[2]) < 0 {
		t1[1], t1[2] = t1[2], t1[1]
	}
	if orient(t2[0], t2[1], t2[2]) < 0 {
		t2[1], t2[2] = t2[2], t2[1]
	}
	sep := func(a, b [3]P) bool {
		for i := 0; i < 3; i++ {
			p, q := a[i], a[(i+1)%3]
			all := true
			for _, v := range b {
				if orient(p, q, v) > 0 {
					all = false
					break
				}
			}
			if all {
				return true
			}
		}
		return false
	}
	return !sep(t1, t2) && !sep(t2, t1)
}

// ---------------------------------------------------------------- cases

type Case struct {
	Dist    string       // distribution the generator used (classification only)
	Order   string       // insertion order the generator applied (classification only)
	Pts     [][2]float64 // the input, in insertion order
	Tried   int          // candidate points drawn by the generator
	Rej     int          // candidates refused by the general-position margin (redrawn)
	Dropped int          // points given up after 3 refused candidates
	Skipped int          // candidates left out by their "keep" draw (shrinking aid)
	// Spare: capacity the input slice has beyond its length (a slice collected with append or cut out
	// of a larger one): the callee can write behind the points without allocating
	Spare int `json:",omitempty"`
}

var dists = []string{"uniform", "clustered", "hull-line", "grid", "ring"}

// uni draws a float uniformly from (0,1) with 52 bits of resolution. rapid's own float ranges are
// deliberately non-uniform (biased exponent, randomly truncated fraction: many tiny, round and
// repeated values), which for point sets means exact degeneracies all the time. Inside a single
// binade with no fraction bits the significand is drawn unbiased, except that rapid returns the
// lower bound itself once in nine draws; that value is redrawn. Shrinks towards 0.
func uni(t *rapid.T, label string) float64 {
	const two52 = 1 << 52
	for i := 0; i < 8; i++ {
		if v := rapid.Float64Range(two52, 2*two52-1).Draw(t, label); v != two52 {
			return (v - two52) / two52
		}
	}
	return 0
}

func uniRange(t *rapid.T, lo, hi float64, label string) float64 { return lo + (hi-lo)*uni(t, label) }

func pow10(t *rapid.T, lo, hi float64, label string) float64 {
	return math.Pow(10, uniRange(t, lo, hi, label))
}

func genCase(t *rapid.T) Case {
	c := Case{Dist: rapid.SampledFrom(dists).Draw(t, "dist"), Order: "drawn"}
	n := 0
	if rapid.IntRange(0, 2).Draw(t, "nk") == 0 {
		n = 5 + int(8*uni(t, "n.small")) // 5..12 candidates, about one in eight is left out below
	} else {
		n = 5 + int(64*uni(t, "n")) // 5..68 candidates, at most 60 kept
	}
	// frame: the unit square is mapped to [ox, ox+sx] x [oy, oy+sy]
	var s float64
	if rapid.IntRange(0, 3).Draw(t, "scalek") == 0 {
		s = pow10(t, -3, math.Log10(0.2), "scale.small")
	} else {
		s = pow10(t, -3, 4, "scale")
	}
	sx, sy := s, s
	// log10 of the largest x:y aspect; distributions that already carry a second, much smaller
	// scale (hull jitter, grid jitter, cluster radius) get less, otherwise most candidates would be
	// refused by the margin
	maxAspect := map[string]float64{"uniform": 3, "ring": 3, "clustered": 2, "grid": 1.5, "hull-line": 1}[c.Dist]
	switch rapid.IntRange(0, 3).Draw(t, "aspectk") {
	case 2:
		sy = s / pow10(t, 0, maxAspect, "aspect")
	case 3:
		sx = s / pow10(t, 0, maxAspect, "aspect")
	}
	var ox, oy float64
	switch rapid.IntRange(0, 3).Draw(t, "offsetk") {
	case 2:
		ox, oy = uniRange(t, -10, 10, "ox"), uniRange(t, -10, 10, "oy")
	case 3:
		ox, oy = pow10(t, 0, 6, "ox.mag"), pow10(t, 0, 6, "oy.mag")
		if rapid.Bool().Draw(t, "ox.neg") {
			ox = -ox
		}
		if rapid.Bool().Draw(t, "oy.neg") {
			oy = -oy
		}
	}
	lim := 1e9 * math.Min(sx, sy)
	ox, oy = math.Max(-lim, math.Min(lim, ox)), math.Max(-lim, math.Min(lim, oy))

	var unit func(i int) (float64, float64) // candidate i in unit-square coordinates
	switch c.Dist {
	case "uniform":
		unit = func(int) (float64, float64) { return uni(t, "u"), uni(t, "v") }
	case "clustered":
		k := rapid.IntRange(1, 4).Draw(t, "clusters")
		ctr, rad := make([]P, k), make([]float64, k)
		for j := range ctr {
			ctr[j] = P{uniRange(t, 0.1, 0.9, "cu"), uniRange(t, 0.1, 0.9, "cv")}
			rad[j] = pow10(t, -3, math.Log10(0.2), "radius")
		}
		unit = func(int) (float64, float64) {
			j := rapid.IntRange(0, k+k).Draw(t, "cluster") // one share in 2k+1 is background
			if j >= k+k {
				return uni(t, "u"), uni(t, "v")
			}
			j %= k
			return ctr[j][0] + rad[j]*(2*uni(t, "u")-1), ctr[j][1] + rad[j]*(2*uni(t, "v")-1)
		}
	case "hull-line":
		delta := pow10(t, -4, -2, "hulljitter")
		mask := rapid.IntRange(1, 15).Draw(t, "edges")
		var edges []int
		for e := 0; e < 4; e++ {
			if mask>>e&1 == 1 {
				edges = append(edges, e)
			}
		}
		unit = func(int) (float64, float64) {
			if rapid.IntRange(0, 2).Draw(t, "interior") == 0 {
				return uniRange(t, 0.15, 0.85, "u"), uniRange(t, 0.15, 0.85, "v")
			}
			e := edges[rapid.IntRange(0, len(edges)-1).Draw(t, "edge")]
			along, d := uni(t, "along"), delta*uni(t, "depth")
			switch e {
			case 0:
				return along, d
			case 1:
				return along, 1 - d
			case 2:
				return d, along
			}
			return 1 - d, along
		}
	case "grid":
		g := int(math.Ceil(math.Sqrt(float64(n))))
		jit := pow10(t, -5, -0.5, "gridjitter")
		cells := make([]int, g*g)
		for i := range cells {
			cells[i] = i
		}
		if rapid.Bool().Draw(t, "shuffle") {
			cells = rapid.Permutation(cells).Draw(t, "cells")
			c.Order = "shuffled"
		}
		unit = func(i int) (float64, float64) {
			cell := cells[i%len(cells)]
			return (float64(cell%g) + 0.5 + jit*(uni(t, "u")-0.5)) / float64(g),
				(float64(cell/g) + 0.5 + jit*(uni(t, "v")-0.5)) / float64(g)
		}
	case "ring":
		rho := pow10(t, -5, -1, "ringjitter")
		unit = func(int) (float64, float64) {
			if rapid.IntRange(0, 7).Draw(t, "inside") == 0 {
				return uniRange(t, 0.25, 0.75, "u"), uniRange(t, 0.25, 0.75, "v")
			}
			th := uniRange(t, 0, 2*math.Pi, "theta")
			r := 0.45 * (1 + rho*(2*uni(t, "dr")-1))
			return 0.5 + r*math.Cos(th), 0.5 + r*math.Sin(th)
		}
	}

	// Constructive general position: a candidate that would form a near-collinear triple or a
	// near-cocircular quadruple with the accepted points is redrawn (3 attempts), then given up.
	// Every candidate also carries a "keep" draw that is 0 (= leave the point out) about one time
	// in eight: rapid minimises draws, so this is what lets it delete an arbitrary point of a
	// failing set without disturbing the draws of the others.
	pts := make([]P, 0, n)
	for i := 0; i < n && len(pts) < 60; i++ {
		placed := false
		for a := 0; a < 3 && !placed; a++ {
			u, v := unit(i)
			if rapid.IntRange(0, 15).Draw(t, "keep") == 0 {
				c.Skipped++
				placed = true
				break
			}
			p := P{ox + sx*u, oy + sy*v}
			c.Tried++
			if admits(pts, p) {
				pts = append(pts, p)
				placed = true
			} else {
				c.Rej++
			}
		}
		if !placed {
			c.Dropped++
		}
	}
	if c.Order == "drawn" {
		switch rapid.IntRange(0, 5).Draw(t, "order") {
		case 4:
			c.Order = "sorted-x"
			sort.SliceStable(pts, func(a, b int) bool { return pts[a][0] < pts[b][0] })
		case 5:
			c.Order = "sorted-y"
			sort.SliceStable(pts, func(a, b int) bool { return pts[a][1] < pts[b][1] })
		}
	}
	c.Pts = pts
	c.Spare = rapid.SampledFrom([]int{0, 0, 1, 3, 8, 64}).Draw(t, "spareCapacity")
	return c
}

// ---------------------------------------------------------------- oracle

func bucket(x float64, edges []float64, names []string) string {
	for i, e := range edges {
		if x < e {
			return names[i]
		}
	}
	return names[len(names)-1]
}

type tri [3]int

func runCase(c Case, o *vh.Obs) *vh.Failure {
	n := len(c.Pts)
	dist := c.Dist
	if dist == "" {
		dist = "unspecified"
	}
	o.Class("dist/" + dist)
	o.Count("gen_points_tried", c.Tried)
	o.Count("gen_points_refused_by_margin", c.Rej)
	o.Count("gen_points_dropped", c.Dropped)
	o.Count("gen_points_kept", n)
	o.Count("gen_points_left_out_by_keep_draw", c.Skipped)
	o.Count("gen_points_tried/"+dist, c.Tried)
	o.Count("gen_points_refused_by_margin/"+dist, c.Rej)
	if n < 3 {
		o.Class("skipped/fewer-than-3-points")
		return nil
	}
	lo, hi := c.Pts[0], c.Pts[0]
	for _, p := range c.Pts {
		for k := 0; k < 2; k++ {
			if math.IsNaN(p[k]) || math.Abs(p[k]) > maxAbs {
				o.Class("skipped/outside-domain")
				return nil
			}
			lo[k], hi[k] = math.Min(lo[k], p[k]), math.Max(hi[k], p[k])
		}
	}
	if !generalPosition(c.Pts) {
		o.Class("skipped/not-general-position")
		return nil
	}
	w, h := hi[0]-lo[0], hi[1]-lo[1]
	ext := math.Max(w, h)
	o.Class(fmt.Sprintf("scale/1e%+d", int(math.Floor(math.Log10(ext)))))
	o.Class("y-extent/" + bucket(h, []float64{0.1, 0.11, 0.2, 10, 1e3}, []string{"<0.1", "0.1-0.11", "0.11-0.2", "0.2-10", "10-1e3", ">=1e3"}))
	o.Class("aspect/" + bucket(math.Max(w, h)/math.Min(w, h), []float64{3, 30, 300}, []string{"<3", "3-30", "30-300", ">=300"}))
	o.Class("offset-over-extent/" + bucket(math.Max(math.Abs(lo[0]+w/2), math.Abs(lo[1]+h/2))/ext, []float64{1, 1e3, 1e6}, []string{"<1", "1-1e3", "1e3-1e6", ">=1e6"}))
	o.Class("n/" + bucket(float64(n), []float64{5, 16, 41}, []string{"3-4", "5-15", "16-40", "41-60"}))
	if c.Order != "" {
		o.Class("order/" + c.Order)
	}
	frame := fmt.Sprintf("n=%d x-extent=%g y-extent=%g bbox=[%g,%g]x[%g,%g]", n, w, h, lo[0], hi[0], lo[1], hi[1])

	spare := c.Spare
	if spare < 0 || spare > 1024 {
		spare = 0
	}
	in := make([]vector2.Float64, n, n+spare) // Spare == 0: capacity == length, the callee cannot write behind it
	for i, p := range c.Pts {
		in[i] = vector2.New(p[0], p[1])
	}
	if spare > 0 {
		o.Class("input-slice-with-spare-capacity")
	}
	m := triangulation.BowyerWatson(in)
	for i, p := range c.Pts { // the caller's points are the caller's
		if math.Float64bits(in[i].X()) != math.Float64bits(p[0]) || math.Float64bits(in[i].Y()) != math.Float64bits(p[1]) {
			return vh.Failf("input-modified", "BowyerWatson changed the caller's slice: point %d was (%v, %v) and is (%v, %v) after the call (slice capacity %d for %d points)", i, p[0], p[1], in[i].X(), in[i].Y(), n+spare, n)
		}
	}

	// (1) vertices are the input points, indices are in range
	pos := m.Float3Attribute(modeling.PositionAttribute)
	if pos.Len() != n {
		return vh.Failf("vertex-mismatch", "mesh has %d vertices for %d input points (%s)", pos.Len(), n, frame)
	}
	for i, p := range c.Pts {
		v := pos.At(i)
		if math.Float64bits(v.X()) != math.Float64bits(p[0]) || math.Float64bits(v.Z()) != math.Float64bits(p[1]) || v.Y() != 0 {
			return vh.Failf("vertex-mismatch", "vertex %d = (%v, %v, %v), input point %d = (%v, %v) expected as (x, 0, y) (%s)", i, v.X(), v.Y(), v.Z(), i, p[0], p[1], frame)
		}
	}
	idx := m.Indices()
	if idx.Len()%3 != 0 {
		return vh.Failf("vertex-mismatch", "index count %d is not a multiple of 3 (%s)", idx.Len(), frame)
	}
	tris := make([]tri, 0, idx.Len()/3)
	for i := 0; i+2 < idx.Len(); i += 3 {
		tr := tri{idx.At(i), idx.At(i + 1), idx.At(i + 2)}
		for _, v := range tr {
			if v < 0 || v >= n {
				return vh.Failf("vertex-mismatch", "triangle %v uses vertex %d, only %d input points exist (%s)", tr, v, n, frame)
			}
		}
		// canonical form: smallest index first, cyclic order kept (the library emits map order)
		for tr[0] > tr[1] || tr[0] > tr[2] {
			tr = tri{tr[1], tr[2], tr[0]}
		}
		tris = append(tris, tr)
	}
	sort.Slice(tris, func(a, b int) bool {
		for k := 0; k < 3; k++ {
			if tris[a][k] != tris[b][k] {
				return tris[a][k] < tris[b][k]
			}
		}
		return false
	})
	hullIdx := hull(c.Pts)
	full := 2*n - 2 - len(hullIdx)
	switch {
	case len(tris) == 0:
		o.Class("empty-or-partial-output/empty")
	case len(tris) < full:
		o.Class("empty-or-partial-output/partial")
	case len(tris) == full:
		o.Class("complete-output")
	default:
		o.Class("more-triangles-than-a-triangulation-has") // necessarily a violation below
	}
	if len(tris) > 0 && n >= 5 {
		o.NonTrivial()
	}
	o.Count("triangles_returned", len(tris))
	{
		// statistic only (float64): how many returned triangles are demanded by condition (5) below
		safe := 0
		for _, t := range tris {
			mx, my, r := circumApprox([3]P{c.Pts[t[0]], c.Pts[t[1]], c.Pts[t[2]]})
			in := r == r
			for i := 0; i < len(hullIdx) && in; i++ {
				p, q := c.Pts[hullIdx[i]], c.Pts[hullIdx[(i+1)%len(hullIdx)]]
				ex, ey := q[0]-p[0], q[1]-p[1]
				in = ex*(my-p[1])-ey*(mx-p[0]) >= r*math.Hypot(ex, ey)
			}
			if in {
				safe++
			}
		}
		o.Count("triangles_returned_with_circumdisk_inside_hull", safe)
		if safe > 0 {
			o.Class("returned-triangles-demanded-by-non-vacuity/some")
		} else {
			o.Class("returned-triangles-demanded-by-non-vacuity/none")
		}
	}
	o.Count("triangles_of_full_triangulation", full)
	corners := func(t tri) [3]P { return [3]P{c.Pts[t[0]], c.Pts[t[1]], c.Pts[t[2]]} }

	// (2) non-zero area, one common winding
	first := 0
	for _, t := range tris {
		q := corners(t)
		s := orient(q[0], q[1], q[2])
		if s == 0 {
			return vh.Failf("zero-area", "triangle %v = %v has zero area (%s)", t, q, frame)
		}
		if first == 0 {
			first = s
		}
		if s != first {
			return vh.Failf("mixed-winding", "triangle %v = %v has orientation sign %d, triangle %v has %d (%s)", t, q, s, tris[0], first, frame)
		}
	}

	// (3) no two triangle interiors intersect
	type box struct{ lo, hi P }
	boxes := make([]box, len(tris))
	for i, t := range tris {
		q := corners(t)
		b := box{q[0], q[0]}
		for _, p := range q[1:] {
			for k := 0; k < 2; k++ {
				b.lo[k], b.hi[k] = math.Min(b.lo[k], p[k]), math.Max(b.hi[k], p[k])
			}
		}
		boxes[i] = b
	}
	for i := range tris {
		for j := i + 1; j < len(tris); j++ {
			a, b := boxes[i], boxes[j]
			if a.hi[0] <= b.lo[0] || b.hi[0] <= a.lo[0] || a.hi[1] <= b.lo[1] || b.hi[1] <= a.lo[1] {
				continue
			}
			if interiorsIntersect(corners(tris[i]), corners(tris[j])) {
				return vh.Failf("overlapping-triangles", "triangles %v = %v and %v = %v have intersecting interiors; %d triangles returned, a full triangulation has %d (%s)",
					tris[i], corners(tris[i]), tris[j], corners(tris[j]), len(tris), full, frame)
			}
		}
	}

	// (4) empty circumcircles (the set is in general position with the margin, so "strictly
	// inside" and "inside beyond the margin" coincide)
	for _, t := range tris {
		q := corners(t)
		for pi, p := range c.Pts {
			if pi == t[0] || pi == t[1] || pi == t[2] {
				continue
			}
			if inCircle(q[0], q[1], q[2], p) > 0 {
				det, _ := incircleExact(q[0], q[1], q[2], p).Float64()
				l, _ := linfDiamExact(q[0], q[1], q[2], p).Float64()
				return vh.Failf("point-in-circumcircle", "input point %d = %v is strictly inside the circumcircle of triangle %v = %v (|in-circle det| = %.3g * L^4, margin %g); %d triangles returned, a full triangulation has %d (%s)",
					pi, p, t, q, math.Abs(det)/(l*l*l*l), muCirc, len(tris), full, frame)
			}
		}
	}

	// (5) non-vacuity. The four conditions hold for "return nothing"; hull completeness cannot be
	// demanded of an enclosing-triangle implementation, but this much can: a triangle of the
	// input's Delaunay triangulation whose closed circumdisk lies inside the convex hull of the
	// input has an empty circumcircle whatever auxiliary vertices are used (they are outside the
	// hull), so it must be returned. After (1)-(4) the returned triangles are a subset of the
	// reference triangulation, hence a result with the full count misses nothing.
	if len(tris) < full {
		ref := delaunayTriples(c.Pts)
		if len(ref) != full {
			o.Count("selfcheck_reference_size_differs_from_2n-2-h", 1) // never expected: oracle inconsistency
		}
		have := make(map[tri]bool, len(tris))
		for _, t := range tris {
			s := []int{t[0], t[1], t[2]}
			sort.Ints(s)
			have[tri{s[0], s[1], s[2]}] = true
		}
		hullPts := make([]P, len(hullIdx))
		for i, v := range hullIdx {
			hullPts[i] = c.Pts[v]
		}
		for _, t := range ref {
			if have[t] {
				continue
			}
			o.Count("missing_triangles", 1)
			q := corners(t)
			// float screen (can only drop a demand, never add one): disk not inside the bounding box
			mx, my, r := circumApprox(q)
			if !(mx-r >= lo[0] && mx+r <= hi[0] && my-r >= lo[1] && my+r <= hi[1]) {
				o.Count("missing_triangles_disk_leaves_bounding_box", 1)
				continue
			}
			if !diskInsideHull(q[0], q[1], q[2], hullPts) {
				o.Count("missing_triangles_disk_leaves_hull", 1)
				continue
			}
			return vh.Failf("missing-interior-triangle", "Delaunay triangle %v = %v is not returned although its circumdisk (centre (%g, %g), radius %g) lies inside the convex hull of the input, out of reach of any enclosing vertex; %d triangles returned, a full triangulation has %d (%s)",
				t, q, mx, my, r, len(tris), full, frame)
		}
	}
	return nil
}

// circumApprox is the float64 circumcentre and radius (statistics and screening only).
func circumApprox(q [3]P) (mx, my, r float64) {
	bx, by, cx, cy := q[1][0]-q[0][0], q[1][1]-q[0][1], q[2][0]-q[0][0], q[2][1]-q[0][1]
	d := 2 * (bx*cy - by*cx)
	ux, uy := (cy*(bx*bx+by*by)-by*(cx*cx+cy*cy))/d, (bx*(cx*cx+cy*cy)-cx*(bx*bx+by*by))/d
	return q[0][0] + ux, q[0][1] + uy, math.Hypot(ux, uy)
}

// ---------------------------------------------------------------- concurrent callers

// ConcCase: several independent inputs triangulated at the same time on their own goroutines.
// BowyerWatson is a function of its argument; every call must satisfy the property whatever else
// the process is doing (node graphs evaluate producers concurrently).
type ConcCase struct {
	Cases  []Case
	Rounds int
}

func genConc(t *rapid.T) ConcCase {
	k := rapid.IntRange(2, 6).Draw(t, "callers")
	c := ConcCase{Rounds: rapid.IntRange(2, 6).Draw(t, "rounds")}
	for i := 0; i < k; i++ {
		c.Cases = append(c.Cases, genCase(t))
	}
	return c
}

func runConc(c ConcCase, o *vh.Obs) *vh.Failure {
	if len(c.Cases) < 2 || len(c.Cases) > 16 || c.Rounds < 1 || c.Rounds > 64 {
		o.Class("skipped/outside-domain")
		return nil
	}
	real := 0
	for i, k := range c.Cases { // each input on its own first: a failure here is not about concurrency
		sub := &vh.Obs{}
		if f := runCase(k, sub); f != nil {
			f.Msg = fmt.Sprintf("input %d, called alone: %s", i, f.Msg)
			return f
		}
		if len(k.Pts) >= 3 && generalPosition(k.Pts) {
			real++
		}
	}
	o.Class(fmt.Sprintf("concurrent/callers=%d", len(c.Cases)))
	if real >= 2 {
		o.NonTrivial()
	}
	fails := make([]*vh.Failure, len(c.Cases))
	start := make(chan struct{})
	done := make(chan int, len(c.Cases))
	for i := range c.Cases {
		go func(i int) {
			defer func() {
				if r := recover(); r != nil {
					fails[i] = vh.Failf("concurrent/panic", "input %d of %d concurrent callers: BowyerWatson panicked: %v (every input passes when called alone)", i, len(c.Cases), r)
				}
				done <- i
			}()
			<-start
			for r := 0; r < c.Rounds && fails[i] == nil; r++ {
				if f := runCase(c.Cases[i], &vh.Obs{}); f != nil {
					fails[i] = vh.Failf("concurrent/"+f.Sig, "input %d of %d concurrent callers, round %d (every input passes when called alone): %s", i, len(c.Cases), r, f.Msg)
				}
			}
		}(i)
	}
	close(start)
	for range c.Cases {
		<-done
	}
	for _, f := range fails {
		if f != nil {
			return f
		}
	}
	return nil
}

func TestC20(t *testing.T) {
	vh.Drive(t, vh.Spec[Case]{Name: "delaunay", Quick: 32000, Thorough: 1000000, Gen: genCase, Run: runCase})
	vh.Drive(t, vh.Spec[ConcCase]{Name: "concurrent-callers", Quick: 1600, Thorough: 50000, Gen: genConc, Run: runConc, Repeat: 20})
}

// TestPredicateFilters cross-checks the filtered predicates against the pure rational ones on
// configurations that are exactly degenerate, nearly degenerate and generic (harness self-test:
// a failure here is infrastructure trouble, not a violation of the property).
func TestPredicateFilters(t *testing.T) {
	r := rand.New(rand.NewSource(20))
	pt := func(scale, off float64) P { return P{off + scale*r.Float64(), -off + scale*r.Float64()} }
	for it := 0; it < 4000; it++ {
		scale, off := math.Pow(10, -3+7*r.Float64()), 0.0
		if it%3 == 0 {
			off = math.Pow(10, 6*r.Float64())
		}
		a, b, c, d := pt(scale, off), pt(scale, off), pt(scale, off), pt(scale, off)
		switch it % 5 {
		case 1: // c nearly / exactly on line ab
			s := r.Float64()
			c = P{a[0] + s*(b[0]-a[0]), a[1] + s*(b[1]-a[1])}
			if it%2 == 0 {
				c[1] += scale * math.Pow(10, -4-12*r.Float64())
			}
		case 2: // small integers: exact degeneracies
			f := func() P { return P{float64(r.Intn(7)), float64(r.Intn(7))} }
			a, b, c, d = f(), f(), f(), f()
		case 3: // d nearly / exactly on the circle through a, b, c (rectangle corners)
			b, c, d = P{b[0], a[1]}, P{b[0], b[1]}, P{a[0], b[1]}
			if it%2 == 0 {
				d[0] += scale * math.Pow(10, -4-12*r.Float64())
			}
		}
		if got, want := orient(a, b, c), crossExact(a, b, c).Sign(); got != want {
			t.Fatalf("orient(%v,%v,%v) = %d, exact %d", a, b, c, got, want)
		}
		want := incircleExact(a, b, c, d).Sign() * crossExact(a, b, c).Sign()
		if got := inCircle(a, b, c, d); got != want {
			t.Fatalf("inCircle(%v,%v,%v,%v) = %d, exact %d", a, b, c, d, got, want)
		}
		slow := a != b && a != c && a != d && b != c && b != d && c != d &&
			tripleOKExact(a, b, c) && tripleOKExact(a, b, d) && tripleOKExact(a, c, d) && tripleOKExact(b, c, d) && quadOKExact(a, b, c, d)
		for _, perm := range [][]P{{a, b, c, d}, {d, c, b, a}, {b, d, a, c}} {
			if got := generalPosition(perm); got != slow {
				t.Fatalf("generalPosition(%v) = %v, exact evaluation %v", perm, got, slow)
			}
		}
	}
	// a square with its centre: overlapping and non-overlapping pairs, touching allowed
	sq := [5]P{{0, 0}, {1, 0}, {1, 1}, {0, 1}, {0.5, 0.5}}
	if interiorsIntersect([3]P{sq[0], sq[1], sq[4]}, [3]P{sq[1], sq[2], sq[4]}) || interiorsIntersect([3]P{sq[0], sq[1], sq[2]}, [3]P{sq[0], sq[3], sq[2]}) {
		t.Fatal("triangles sharing an edge reported as overlapping")
	}
	if !interiorsIntersect([3]P{sq[0], sq[1], sq[2]}, [3]P{sq[1], sq[2], sq[3]}) || !interiorsIntersect([3]P{sq[0], sq[2], sq[1]}, [3]P{sq[0], sq[1], sq[2]}) {
		t.Fatal("overlapping triangles not reported")
	}
	big4 := []P{{0, 0}, {4, 0}, {4, 4}, {0, 4}}
	for _, tc := range []struct {
		t    [3]P
		want bool
	}{
		{[3]P{{1, 2}, {3, 2}, {2, 3}}, true},                        // centre (2,2) radius 1
		{[3]P{{1, 2}, {2, 4}, {3, 2}}, true},                        // centre (2,2.75) radius 1.25: tangent to the top edge
		{[3]P{{1, 3.5}, {3, 3.5}, {2, 2.5}}, false},                 // centre (2,3.5) radius 1: all corners inside, disk pokes through the top edge
		{[3]P{{0, 0}, {4, 0}, {4, 4}}, false},                       // centre (2,2) radius 2.83
		{[3]P{{0.5, 0.5}, {1, 0.5}, {0.75, 0.25}}, true},            // centre (0.75,0.5) radius 0.25
		{[3]P{{3.5, 0.5}, {3.75, 0.25}, {3.5, 0.0009765625}}, true}, // radius just under 0.25 around (3.5,0.2505)
		{[3]P{{3.5, 0.5}, {3.75, 0.25}, {3.5, -0.0009765625}}, false},
	} {
		if got := diskInsideHull(tc.t[0], tc.t[1], tc.t[2], big4); got != tc.want {
			mx, my, r := circumApprox(tc.t)
			t.Fatalf("diskInsideHull(%v) = %v, want %v (centre %v,%v radius %v)", tc.t, got, tc.want, mx, my, r)
		}
	}
	for it := 0; it < 300; it++ {
		n := 4 + r.Intn(10)
		pts := make([]P, n)
		for i := range pts {
			pts[i] = pt(1, 0)
		}
		if !generalPosition(pts) {
			continue
		}
		h := hull(pts)
		for i := range h { // convex, counter-clockwise, everything inside
			a, b := pts[h[i]], pts[h[(i+1)%len(h)]]
			for k, p := range pts {
				if k != h[i] && k != h[(i+1)%len(h)] && orient(a, b, p) <= 0 {
					t.Fatalf("hull(%v) = %v: point %d is not left of edge %d", pts, h, k, i)
				}
			}
		}
		if ref := delaunayTriples(pts); len(ref) != 2*n-2-len(h) {
			t.Fatalf("delaunayTriples(%v) has %d triangles, 2n-2-h = %d", pts, len(ref), 2*n-2-len(h))
		}
	}
	if len(hull(sq[:])) != 4 {
		t.Fatalf("hull(square+centre) = %v", hull(sq[:]))
	}
}
