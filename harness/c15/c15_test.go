// Package c15 decides property C15 (gaussian-splat codecs keep every splat's fields within one
// quantisation step): the .splat writer/reader pair, the SPZ decoder against a reference encoder
// of the published layout written here, and the splat PLY export.
package c15

import (
	"bytes"
	"compress/gzip"
	"encoding/binary"
	"fmt"
	"math"
	"sort"
	"strings"
	"testing"

	"github.com/EliCDavis/polyform/formats/ply"
	"github.com/EliCDavis/polyform/formats/splat"
	"github.com/EliCDavis/polyform/formats/spz"
	"github.com/EliCDavis/polyform/modeling"
	"github.com/EliCDavis/polyform/nodes"
	"github.com/EliCDavis/vector/vector3"
	"github.com/EliCDavis/vector/vector4"
	"pgregory.net/rapid"

	"verifharness/internal/gen"
	"verifharness/internal/oracle"
	"verifharness/internal/vh"
)

func TestMain(m *testing.M) {
	vh.Main(m, vh.Meta{
		ID:    "C15",
		Level: "exploration",
		Rule: "splat-roundtrip / splat-ply: rapid-generated splat clouds of 0..5 splats (positions k/8, 60 orders of magnitude, +-MaxFloat32, float32-denormal and sub-denormal values, -0; log-scales in [-80,80]; " +
			"FDC incl. the exact clamp boundaries and 1e30; opacity incl. 0, +-50, +-745, +-1e308; rotation components in [-1,1] with exact -1, 0, 1; the PLY check adds optional normals and f_rest_k harmonics); " +
			"oracles: the .splat bytes are parsed by the harness's own 32-byte record parser (layout of antimatter15/splat) and compared with the ideal quantisation, then Read is compared field by field; " +
			"the PLY bytes are parsed by the harness's own header/row parser and by ply.ReadMesh. " +
			"spz-decode: streams from the harness's reference encoder (16-byte header written byte by byte, planar arrays positions/alphas/colours/scales/rotations/SH, gzip at a drawn level): version 1 and 2, " +
			"fractional bits 0..30, SH degree 0..3, 0..6 points of arbitrary bytes (boundary bytes boosted) or up to 48 points expanded from a drawn seed, any flags byte; decoded values compared with the published dequantisation formulas. " +
			"spz-half-grid: all 65 536 half-float patterns enumerated (16 streams of 4096). " +
			"Non-trivial = at least one splat (.splat, PLY) / at least two points, so that strides matter (SPZ); distinct by case JSON. " +
			"Sub-checks large (100..100 000 splats through the three oracles; every case non-trivial) and concurrent-*: every concurrent-* case (2-5 bundled cases run at the same time after each passed alone) is non-trivial.",
		Assumptions: []string{
			"sub-check million also holds one case 'spz-sequence': six SPZ streams of 94 000..180 000 splats with 4-6 MiB of harmonics decoded one after another in one process, each judged like any stream; the spz read node is compared with spz.Read for streams up to 4096 splats",
			"splat clouds are identity-indexed point clouds (modeling.NewPointCloud): a splat is a vertex",
			"positions are finite doubles within the float32 range; log-scales lie in [-80,80] so that exp(scale) is a normal float32; rotation components lie in [-1,1]; FDC and opacity are any finite doubles",
			".splat tolerances: position bit-exact float32 image; scale within 2.4e-7*max(1,|s|) (twice float32 epsilon); colour within 1/255 of the clamped display colour; opacity within 1/255 in sigmoid space; rotation within 1/128 (+1e-9 slack each)",
			"written .splat bytes are accepted with truncation or rounding (|byte - ideal| <= 1) and scale floats within 2.4e-7 relative of exp(s)",
			"SPZ alpha is the linear value a/255 the loader deliberately returns (source comment), not Niantic's invSigmoid",
			"SPZ fractional bits are drawn from 0..30 (the reference implementation computes 1 << fractionalBits on a 32-bit int); SPZ values are compared within 1e-12 relative (w: 1e-12 absolute), i.e. exact up to the order of two float64 operations",
			"SPZ harmonics are observed as the Float3 attributes SH_0..SH_{dim-1} (the loader's naming)",
			"splat PLY: the order of the four rot_k properties is judged through ply.ReadMesh only (the harness parser compares them as a multiset); f_rest_k come back as Float1 attributes of the same name",
		},
	})
}

// ---------------------------------------------------------------- splat clouds

type Splat struct {
	Pos, Scale, FDC [3]gen.F
	Op              gen.F
	Rot             [4]gen.F
}

type SplatCase struct {
	Splats []Splat
}

const shC0 = 0.28209479177387814 // published SH band-0 constant (own copy, not splat.SH_C0)

func posVal() *rapid.Generator[float64] {
	wide := gen.Mag(-30, 30)
	return rapid.Custom(func(t *rapid.T) float64 {
		switch rapid.IntRange(0, 7).Draw(t, "pk") { // low kinds are the simple ones: shrinking ends at 0
		case 4, 5:
			return wide.Draw(t, "wide")
		case 6:
			return rapid.SampledFrom([]float64{math.MaxFloat32, -math.MaxFloat32, 1e-45, -1e-45, 1e-40, 7e-46, 1e-60, math.Copysign(0, -1),
				16777217, 0.1, 1.17549435e-38, 3e38}).Draw(t, "special")
		case 7:
			return rapid.Float64Range(-1e3, 1e3).Draw(t, "pf")
		}
		return float64(rapid.IntRange(-32, 32).Draw(t, "p8")) / 8
	})
}

func scaleVal() *rapid.Generator[float64] {
	return rapid.Custom(func(t *rapid.T) float64 {
		switch rapid.IntRange(0, 5).Draw(t, "sk") {
		case 3:
			return rapid.SampledFrom([]float64{0, -80, 80, -10, 5.75, math.Copysign(0, -1)}).Draw(t, "special")
		case 4, 5:
			return rapid.Float64Range(-80, 80).Draw(t, "sf")
		}
		return float64(rapid.IntRange(-80, 80).Draw(t, "s8")) / 8
	})
}

func fdcVal() *rapid.Generator[float64] {
	wide := gen.Mag(-3, 3)
	return rapid.Custom(func(t *rapid.T) float64 {
		switch rapid.IntRange(0, 5).Draw(t, "ck") {
		case 3:
			return rapid.SampledFrom([]float64{0, -0.5 / shC0, 0.5 / shC0, 1e30, -1e30, 1e300, -1e300, 0.25 / shC0}).Draw(t, "special")
		case 4, 5:
			return wide.Draw(t, "wide")
		}
		return rapid.Float64Range(-2, 2).Draw(t, "cf")
	})
}

func opVal() *rapid.Generator[float64] {
	wide := gen.Mag(-2, 2)
	return rapid.Custom(func(t *rapid.T) float64 {
		switch rapid.IntRange(0, 5).Draw(t, "ok") {
		case 3:
			return rapid.SampledFrom([]float64{0, 50, -50, 745, -745, 1e308, -1e308, 710, -710}).Draw(t, "special")
		case 4, 5:
			return wide.Draw(t, "wide")
		}
		return rapid.Float64Range(-8, 8).Draw(t, "of")
	})
}

// rotVal: a rotation component in [-1,1]; the exact values 0, 1 and -1 each have a 1/8 share
// (1.0 is the w of the identity quaternion). Ordered so that shrinking ends at 0.
func rotVal() *rapid.Generator[float64] {
	return rapid.Custom(func(t *rapid.T) float64 {
		switch rapid.IntRange(0, 7).Draw(t, "rk") {
		case 0:
			return 0
		case 1:
			return 1
		case 2:
			return -1
		case 3:
			return float64(rapid.IntRange(-8, 8).Draw(t, "r8")) / 8
		}
		return rapid.Float64Range(-1, 1).Draw(t, "rf")
	})
}

func genSplat(t *rapid.T, label string) Splat {
	var s Splat
	pv, sv, cv, rv := posVal(), scaleVal(), fdcVal(), rotVal()
	for k := 0; k < 3; k++ {
		s.Pos[k] = gen.F(pv.Draw(t, label+".pos"))
		s.Scale[k] = gen.F(sv.Draw(t, label+".scale"))
		s.FDC[k] = gen.F(cv.Draw(t, label+".fdc"))
	}
	s.Op = gen.F(opVal().Draw(t, label+".op"))
	for k := 0; k < 4; k++ {
		s.Rot[k] = gen.F(rv.Draw(t, label+".rot"))
	}
	return s
}

func genSplats(t *rapid.T) []Splat {
	n := rapid.IntRange(0, 5).Draw(t, "n")
	out := make([]Splat, n)
	for i := range out {
		out[i] = genSplat(t, fmt.Sprintf("s%d", i))
	}
	return out
}

func genSplatCase(t *rapid.T) SplatCase { return SplatCase{Splats: genSplats(t)} }

func fin(x float64) bool { return !math.IsNaN(x) && !math.IsInf(x, 0) }

func inDomainSplats(ss []Splat) bool {
	for _, s := range ss {
		for k := 0; k < 3; k++ {
			if !fin(float64(s.Pos[k])) || math.Abs(float64(s.Pos[k])) > math.MaxFloat32 {
				return false
			}
			if !(math.Abs(float64(s.Scale[k])) <= 80) || !fin(float64(s.FDC[k])) {
				return false
			}
		}
		if !fin(float64(s.Op)) {
			return false
		}
		for k := 0; k < 4; k++ {
			if !(math.Abs(float64(s.Rot[k])) <= 1) {
				return false
			}
		}
	}
	return true
}

func buildCloud(ss []Splat, normals [][3]gen.F, rest []RestAttr) modeling.Mesh {
	n := len(ss)
	pos, sc, fdc := make([]vector3.Float64, n), make([]vector3.Float64, n), make([]vector3.Float64, n)
	op, rot := make([]float64, n), make([]vector4.Float64, n)
	for i, s := range ss {
		pos[i] = vector3.New(float64(s.Pos[0]), float64(s.Pos[1]), float64(s.Pos[2]))
		sc[i] = vector3.New(float64(s.Scale[0]), float64(s.Scale[1]), float64(s.Scale[2]))
		fdc[i] = vector3.New(float64(s.FDC[0]), float64(s.FDC[1]), float64(s.FDC[2]))
		op[i] = float64(s.Op)
		rot[i] = vector4.New(float64(s.Rot[0]), float64(s.Rot[1]), float64(s.Rot[2]), float64(s.Rot[3]))
	}
	v3 := map[string][]vector3.Float64{modeling.PositionAttribute: pos, modeling.ScaleAttribute: sc, modeling.FDCAttribute: fdc}
	if normals != nil {
		nn := make([]vector3.Float64, n)
		for i, r := range normals {
			nn[i] = vector3.New(float64(r[0]), float64(r[1]), float64(r[2]))
		}
		v3[modeling.NormalAttribute] = nn
	}
	v1 := map[string][]float64{modeling.OpacityAttribute: op}
	for _, r := range rest {
		a := make([]float64, n)
		for i, x := range r.V {
			a[i] = float64(x)
		}
		v1[fmt.Sprintf("f_rest_%d", r.K)] = a
	}
	return modeling.NewPointCloud(map[string][]vector4.Float64{modeling.RotationAttribute: rot}, v3, nil, v1, nil)
}

func sigmoid(x float64) float64 { return 1 / (1 + math.Exp(-x)) }

func clamp(x, lo, hi float64) float64 { return math.Min(hi, math.Max(lo, x)) }

func classesOfSplats(ss []Splat, o *vh.Obs) {
	switch n := len(ss); {
	case n == 0:
		o.Class("splats/0")
	case n == 1:
		o.Class("splats/1")
	default:
		o.Class("splats/2+")
	}
	rotOne, rotMinus, clampC, satOp, f32edge := false, false, false, false, false
	for _, s := range ss {
		for k := 0; k < 4; k++ {
			rotOne = rotOne || s.Rot[k] == 1
			rotMinus = rotMinus || s.Rot[k] == -1
		}
		for k := 0; k < 3; k++ {
			c := float64(s.FDC[k])*shC0 + 0.5
			clampC = clampC || c <= 0 || c >= 1
			a := math.Abs(float64(s.Pos[k]))
			f32edge = f32edge || (a != 0 && a < 1.17549435e-38) || a > 1e38
		}
		satOp = satOp || math.Abs(float64(s.Op)) > 40
	}
	if rotOne {
		o.Class("rotation/component-exactly-1")
	}
	if rotMinus {
		o.Class("rotation/component-exactly--1")
	}
	if clampC {
		o.Class("colour/clamped")
	}
	if satOp {
		o.Class("opacity/saturated")
	}
	if f32edge {
		o.Class("position/float32-denormal-or-max")
	}
}

// ---------------------------------------------------------------- sub-check: .splat round trip

const (
	stepColour = 1./255 + 1e-9
	stepRot    = 1./128 + 1e-9
)

func runSplat(c SplatCase, o *vh.Obs) *vh.Failure {
	if !inDomainSplats(c.Splats) {
		o.Class("out-of-domain")
		return nil
	}
	n := len(c.Splats)
	classesOfSplats(c.Splats, o)
	if n >= 1 {
		o.NonTrivial()
	}
	m := buildCloud(c.Splats, nil, nil)
	var buf bytes.Buffer
	var werr error
	if kind, val := oracle.Try(func() { werr = splat.Write(&buf, m) }); kind != "" {
		return vh.Failf("splat-write-panic-"+kind, "splat.Write panicked on a well-formed splat cloud: %v", val)
	}
	if werr != nil {
		return vh.Failf("splat-write-error", "splat.Write failed on a well-formed splat cloud: %v", werr)
	}
	b := buf.Bytes()
	if len(b) != 32*n {
		return vh.Failf("splat-size", "%d splats written as %d bytes, want 32 per splat", n, len(b))
	}
	var back modeling.Mesh
	var rerr error
	if kind, val := oracle.Try(func() { back, rerr = splat.Read(bytes.NewReader(b)) }); kind != "" {
		return vh.Failf("splat-read-panic-"+kind, "splat.Read panicked on splat.Write output: %v", val)
	}
	if rerr != nil {
		return vh.Failf("splat-read-error", "splat.Read failed on splat.Write output: %v", rerr)
	}
	if back.AttributeLength() != n || back.PrimitiveCount() != n {
		return vh.Failf("splat-count", "%d splats written, %d vertices / %d points read", n, back.AttributeLength(), back.PrimitiveCount())
	}
	if n == 0 {
		return nil
	}
	if err := oracle.WFStatic(back); err != nil {
		return vh.Failf("splat-read-malformed", "splat.Read result is not well-formed: %v", err)
	}
	for _, a := range []string{modeling.PositionAttribute, modeling.ScaleAttribute, modeling.FDCAttribute} {
		if !back.HasFloat3Attribute(a) {
			return vh.Failf("splat-attribute-missing", "splat.Read result lacks %s", a)
		}
	}
	if !back.HasFloat1Attribute(modeling.OpacityAttribute) || !back.HasFloat4Attribute(modeling.RotationAttribute) {
		return vh.Failf("splat-attribute-missing", "splat.Read result lacks Opacity or Rotation")
	}
	bp, bs, bc := back.Float3Attribute(modeling.PositionAttribute), back.Float3Attribute(modeling.ScaleAttribute), back.Float3Attribute(modeling.FDCAttribute)
	bo, br := back.Float1Attribute(modeling.OpacityAttribute), back.Float4Attribute(modeling.RotationAttribute)
	for i, s := range c.Splats {
		if back.Indices().At(i) != i {
			return vh.Failf("splat-order", "point %d of the result refers to vertex %d", i, back.Indices().At(i))
		}
		gp, gs, gc := bp.At(i), bs.At(i), bc.At(i)
		for k := 0; k < 3; k++ {
			want := float64(float32(float64(s.Pos[k])))
			if got := gp.Component(k); math.Float64bits(got) != math.Float64bits(want) {
				return vh.Failf("splat-position", "splat %d position[%d] = %v read back as %v, want float32 image %v", i, k, float64(s.Pos[k]), got, want)
			}
			sc := float64(s.Scale[k])
			if got := gs.Component(k); !(math.Abs(got-sc) <= 2.4e-7*math.Max(1, math.Abs(sc))) {
				return vh.Failf("splat-scale", "splat %d log-scale[%d] = %v read back as %v", i, k, sc, got)
			}
			wantC := clamp(float64(s.FDC[k])*shC0+0.5, 0, 1)
			gotC := gc.Component(k)*shC0 + 0.5
			if !(math.Abs(gotC-wantC) <= stepColour) {
				return vh.Failf("splat-colour", "splat %d FDC[%d] = %v (display colour %v) read back as %v (display colour %v): more than 1/255 apart",
					i, k, float64(s.FDC[k]), wantC, gc.Component(k), gotC)
			}
		}
		if d := math.Abs(sigmoid(bo.At(i)) - sigmoid(float64(s.Op))); !(d <= stepColour) {
			return vh.Failf("splat-opacity", "splat %d opacity %v (alpha %v) read back as %v (alpha %v)", i, float64(s.Op), sigmoid(float64(s.Op)), bo.At(i), sigmoid(bo.At(i)))
		}
		gr := br.At(i)
		for k, got := range []float64{gr.X(), gr.Y(), gr.Z(), gr.W()} {
			want := float64(s.Rot[k])
			if !(math.Abs(got-want) <= stepRot) {
				if want*128+128 >= 256 && got < 0 {
					return vh.Failf("splat-rotation-one-wraps", "splat %d rotation component %d = %v read back as %v: rot*128+128 = 256 does not fit a byte and wraps (rotation written %v, read %v)",
						i, k, want, got, s.Rot, []float64{gr.X(), gr.Y(), gr.Z(), gr.W()})
				}
				return vh.Failf("splat-rotation", "splat %d rotation component %d = %v read back as %v: more than 1/128 apart", i, k, want, got)
			}
		}
	}
	// the written bytes themselves, through the harness's own record parser (layout of the
	// reference converter: 3 f32 position, 3 f32 linear scale, rgba bytes, 4 rotation bytes)
	for i, s := range c.Splats {
		r := b[32*i : 32*i+32]
		f := func(off int) float32 { return math.Float32frombits(binary.LittleEndian.Uint32(r[off:])) }
		for k := 0; k < 3; k++ {
			if got, want := f(4*k), float32(float64(s.Pos[k])); math.Float32bits(got) != math.Float32bits(want) {
				return vh.Failf("splat-record-position", "record %d: position[%d] stored as %v, want %v", i, k, got, want)
			}
			want := math.Exp(float64(s.Scale[k]))
			if got := float64(f(12 + 4*k)); !(math.Abs(got-want) <= 2.4e-7*want) {
				return vh.Failf("splat-record-scale", "record %d: scale[%d] stored as %v, want exp(%v) = %v", i, k, got, float64(s.Scale[k]), want)
			}
			ideal := clamp(float64(s.FDC[k])*shC0+0.5, 0, 1) * 255
			if got := float64(r[24+k]); !(math.Abs(got-ideal) <= 1+1e-9) {
				return vh.Failf("splat-record-colour", "record %d: colour byte %d = %v, ideal %v", i, k, got, ideal)
			}
		}
		if got, ideal := float64(r[27]), sigmoid(float64(s.Op))*255; !(math.Abs(got-ideal) <= 1+1e-9) {
			return vh.Failf("splat-record-alpha", "record %d: alpha byte %v, ideal %v", i, got, ideal)
		}
		for k := 0; k < 4; k++ {
			ideal := clamp(float64(s.Rot[k])*128+128, 0, 255)
			if got := float64(r[28+k]); !(math.Abs(got-ideal) <= 1+1e-9) {
				return vh.Failf("splat-record-rotation", "record %d: rotation byte %d = %v, ideal %v", i, k, got, ideal)
			}
		}
	}
	return nil
}

// ---------------------------------------------------------------- sub-check: splat PLY export

type RestAttr struct {
	K int // f_rest_K
	V []gen.F
}

type PlyCase struct {
	Splats  []Splat
	Normals [][3]gen.F `json:",omitempty"`
	Rest    []RestAttr `json:",omitempty"`
}

func genPlyCase(t *rapid.T) PlyCase {
	c := PlyCase{Splats: genSplats(t)}
	n := len(c.Splats)
	val := gen.Mag(-6, 6)
	if rapid.IntRange(0, 3).Draw(t, "hasNormals") == 0 {
		c.Normals = make([][3]gen.F, n)
		for i := range c.Normals {
			for k := 0; k < 3; k++ {
				c.Normals[i][k] = gen.F(val.Draw(t, "normal"))
			}
		}
	}
	switch rapid.IntRange(0, 3).Draw(t, "restKind") {
	case 0: // a few harmonics
		ks := rapid.SliceOfNDistinct(rapid.IntRange(0, 44), 1, 4, rapid.ID[int]).Draw(t, "restKs")
		sort.Ints(ks)
		for _, k := range ks {
			r := RestAttr{K: k, V: make([]gen.F, n)}
			for i := range r.V {
				r.V[i] = gen.F(val.Draw(t, "rest"))
			}
			c.Rest = append(c.Rest, r)
		}
	case 1: // all 45, values derived from one drawn number per splat
		base := make([]float64, n)
		for i := range base {
			base[i] = val.Draw(t, "restBase")
		}
		for k := 0; k < 45; k++ {
			r := RestAttr{K: k, V: make([]gen.F, n)}
			for i := range r.V {
				r.V[i] = gen.F(base[i] + float64(k)/8)
			}
			c.Rest = append(c.Rest, r)
		}
	}
	return c
}

// plyFile is what the harness's own parser extracts from a binary little-endian PLY whose only
// element is `vertex` with scalar float/double properties.
type plyFile struct {
	Count int
	Names []string
	Rows  [][]float64 // float32 values widened, doubles as they are
	Size  []int
}

func parsePLY(b []byte) (plyFile, error) {
	var f plyFile
	end := bytes.Index(b, []byte("end_header\n"))
	if end < 0 {
		return f, fmt.Errorf("no end_header line")
	}
	lines := strings.Split(string(b[:end]), "\n")
	data := b[end+len("end_header\n"):]
	if len(lines) < 2 || strings.TrimSpace(lines[0]) != "ply" {
		return f, fmt.Errorf("first line is not 'ply'")
	}
	elements, sawFormat := 0, false
	for _, raw := range lines[1:] {
		w := strings.Fields(raw)
		if len(w) == 0 {
			continue
		}
		switch w[0] {
		case "format":
			if len(w) != 3 || w[1] != "binary_little_endian" || w[2] != "1.0" {
				return f, fmt.Errorf("format line %q, want binary_little_endian 1.0", raw)
			}
			sawFormat = true
		case "comment", "obj_info":
		case "element":
			if len(w) != 3 || w[1] != "vertex" {
				return f, fmt.Errorf("unexpected element line %q in a splat PLY", raw)
			}
			elements++
			if _, err := fmt.Sscanf(w[2], "%d", &f.Count); err != nil {
				return f, fmt.Errorf("element count %q", w[2])
			}
		case "property":
			if elements != 1 || len(w) != 3 {
				return f, fmt.Errorf("unexpected property line %q", raw)
			}
			switch w[1] {
			case "float", "float32":
				f.Size = append(f.Size, 4)
			case "double", "float64":
				f.Size = append(f.Size, 8)
			default:
				return f, fmt.Errorf("property %q has type %q: splat attributes need a floating-point type", w[2], w[1])
			}
			f.Names = append(f.Names, w[2])
		default:
			return f, fmt.Errorf("unknown header line %q", raw)
		}
	}
	if !sawFormat || elements != 1 {
		return f, fmt.Errorf("header lacks a format line or a vertex element")
	}
	row := 0
	for _, s := range f.Size {
		row += s
	}
	if len(data) != row*f.Count {
		return f, fmt.Errorf("%d data bytes for %d rows of %d bytes", len(data), f.Count, row)
	}
	for i := 0; i < f.Count; i++ {
		vals := make([]float64, len(f.Names))
		off := i * row
		for p, s := range f.Size {
			if s == 4 {
				vals[p] = float64(math.Float32frombits(binary.LittleEndian.Uint32(data[off:])))
			} else {
				vals[p] = math.Float64frombits(binary.LittleEndian.Uint64(data[off:]))
			}
			off += s
		}
		f.Rows = append(f.Rows, vals)
	}
	return f, nil
}

// f32ok: got carries want at float32 precision (bit-exact float32 image, or the double itself).
func f32ok(got, want float64) bool {
	img := float64(float32(want))
	return math.Float64bits(got) == math.Float64bits(img) || math.Float64bits(got) == math.Float64bits(want)
}

func runPly(c PlyCase, o *vh.Obs) *vh.Failure {
	n := len(c.Splats)
	if !inDomainSplats(c.Splats) || (c.Normals != nil && len(c.Normals) != n) {
		o.Class("out-of-domain")
		return nil
	}
	seen := map[int]bool{}
	for _, r := range c.Rest {
		if r.K < 0 || r.K > 44 || len(r.V) != n || seen[r.K] {
			o.Class("out-of-domain")
			return nil
		}
		seen[r.K] = true
		for _, x := range r.V {
			if !fin(float64(x)) {
				o.Class("out-of-domain")
				return nil
			}
		}
	}
	for _, r := range c.Normals {
		for _, x := range r {
			if !fin(float64(x)) {
				o.Class("out-of-domain")
				return nil
			}
		}
	}
	classesOfSplats(c.Splats, o)
	if c.Normals != nil {
		o.Class("ply/with-normals")
	}
	switch {
	case len(c.Rest) == 45:
		o.Class("ply/all-45-harmonics")
	case len(c.Rest) > 0:
		o.Class("ply/some-harmonics")
	default:
		o.Class("ply/no-harmonics")
	}
	if n >= 1 {
		o.NonTrivial()
	}
	m := buildCloud(c.Splats, c.Normals, c.Rest)
	var buf bytes.Buffer
	var werr error
	if kind, val := oracle.Try(func() { werr = (ply.SplatPly{Mesh: m}).Write(&buf) }); kind != "" {
		return vh.Failf("splat-ply-write-panic-"+kind, "SplatPly.Write panicked on a well-formed splat cloud: %v", val)
	}
	if werr != nil {
		return vh.Failf("splat-ply-write-error", "SplatPly.Write failed on a well-formed splat cloud: %v", werr)
	}

	// expected scalar per PLY property name
	want := map[string]func(i int) float64{}
	v3 := func(names [3]string, get func(s Splat) [3]gen.F) {
		for k := 0; k < 3; k++ {
			k := k
			want[names[k]] = func(i int) float64 { return float64(get(c.Splats[i])[k]) }
		}
	}
	v3([3]string{"x", "y", "z"}, func(s Splat) [3]gen.F { return s.Pos })
	v3([3]string{"f_dc_0", "f_dc_1", "f_dc_2"}, func(s Splat) [3]gen.F { return s.FDC })
	v3([3]string{"scale_0", "scale_1", "scale_2"}, func(s Splat) [3]gen.F { return s.Scale })
	want["opacity"] = func(i int) float64 { return float64(c.Splats[i].Op) }
	if c.Normals != nil {
		for k, name := range []string{"nx", "ny", "nz"} {
			k := k
			want[name] = func(i int) float64 { return float64(c.Normals[i][k]) }
		}
	}
	for _, r := range c.Rest {
		r := r
		want[fmt.Sprintf("f_rest_%d", r.K)] = func(i int) float64 { return float64(r.V[i]) }
	}
	rotNames := map[string]bool{"rot_0": true, "rot_1": true, "rot_2": true, "rot_3": true}

	// 1. own parse of the bytes
	pf, err := parsePLY(buf.Bytes())
	if err != nil {
		return vh.Failf("splat-ply-bytes-unparsable", "SplatPly.Write output is not a binary little-endian vertex-only float PLY: %v", err)
	}
	if pf.Count != n {
		return vh.Failf("splat-ply-bytes-count", "%d splats exported as %d vertex rows", n, pf.Count)
	}
	col := map[string]int{}
	for p, name := range pf.Names {
		if _, dup := col[name]; dup {
			return vh.Failf("splat-ply-bytes-duplicate-property", "property %s declared twice", name)
		}
		col[name] = p
		if want[name] == nil && !rotNames[name] {
			return vh.Failf("splat-ply-bytes-invented-property", "property %s is not an attribute of the cloud", name)
		}
	}
	names := make([]string, 0, len(want))
	for name := range want {
		names = append(names, name)
	}
	sort.Strings(names)
	if n == 0 { // an empty cloud has no attribute arrays (NewPointCloud drops them): nothing to export
		names = nil
	}
	for _, name := range names {
		p, ok := col[name]
		if !ok {
			return vh.Failf("splat-ply-bytes-missing-property", "attribute behind property %s was not exported (properties %v)", name, pf.Names)
		}
		for i := 0; i < n; i++ {
			if w := want[name](i); !f32ok(pf.Rows[i][p], w) {
				return vh.Failf("splat-ply-bytes-value", "row %d property %s = %v, want %v at float32 precision", i, name, pf.Rows[i][p], w)
			}
		}
	}
	for _, name := range []string{"rot_0", "rot_1", "rot_2", "rot_3"} {
		if _, ok := col[name]; !ok && n > 0 {
			return vh.Failf("splat-ply-bytes-missing-property", "rotation property %s was not exported (properties %v)", name, pf.Names)
		}
	}
	for i := 0; i < n; i++ {
		var got, wantR []float64
		for k := 0; k < 4; k++ {
			got = append(got, pf.Rows[i][col[fmt.Sprintf("rot_%d", k)]])
			wantR = append(wantR, float64(float32(float64(c.Splats[i].Rot[k]))))
		}
		g2, w2 := append([]float64{}, got...), append([]float64{}, wantR...)
		sort.Float64s(g2)
		sort.Float64s(w2)
		for k := range g2 {
			if g2[k] != w2[k] {
				return vh.Failf("splat-ply-bytes-rotation", "row %d rot_0..3 = %v, rotation is %v", i, got, wantR)
			}
		}
	}

	// 2. through polyform's own PLY reader
	var back *modeling.Mesh
	var rerr error
	if kind, val := oracle.Try(func() { back, rerr = ply.ReadMesh(bytes.NewReader(buf.Bytes())) }); kind != "" {
		return vh.Failf("splat-ply-read-panic-"+kind, "ply.ReadMesh panicked on SplatPly.Write output: %v", val)
	}
	if rerr != nil || back == nil {
		return vh.Failf("splat-ply-read-error", "ply.ReadMesh failed on SplatPly.Write output: %v", rerr)
	}
	if back.AttributeLength() != n || back.PrimitiveCount() != n {
		return vh.Failf("splat-ply-count", "%d splats exported, %d vertices / %d points read back", n, back.AttributeLength(), back.PrimitiveCount())
	}
	if n == 0 {
		return nil
	}
	if err := oracle.WFStatic(*back); err != nil {
		return vh.Failf("splat-ply-read-malformed", "ply.ReadMesh result is not well-formed: %v", err)
	}
	if back.Topology() != modeling.PointTopology {
		return vh.Failf("splat-ply-topology", "splat PLY read back with topology %v", back.Topology())
	}
	img := func(x gen.F) float64 { return float64(float32(float64(x))) }
	same := func(a, b float64) bool { return math.Float64bits(a) == math.Float64bits(b) }
	type a3 struct {
		name string
		get  func(i int) [3]gen.F
	}
	threes := []a3{
		{modeling.PositionAttribute, func(i int) [3]gen.F { return c.Splats[i].Pos }},
		{modeling.ScaleAttribute, func(i int) [3]gen.F { return c.Splats[i].Scale }},
		{modeling.FDCAttribute, func(i int) [3]gen.F { return c.Splats[i].FDC }},
	}
	if c.Normals != nil {
		threes = append(threes, a3{modeling.NormalAttribute, func(i int) [3]gen.F { return c.Normals[i] }})
	}
	for _, a := range threes {
		if !back.HasFloat3Attribute(a.name) {
			return vh.Failf("splat-ply-attribute-missing", "attribute %s did not survive the splat PLY export (have %v)", a.name, back.Float3Attributes())
		}
		it := back.Float3Attribute(a.name)
		for i := 0; i < n; i++ {
			if back.Indices().At(i) != i {
				return vh.Failf("splat-ply-order", "point %d of the result refers to vertex %d", i, back.Indices().At(i))
			}
			g, w := it.At(i), a.get(i)
			for k := 0; k < 3; k++ {
				if !same(g.Component(k), img(w[k])) {
					return vh.Failf("splat-ply-value", "splat %d %s[%d] = %v read back as %v, want float32 image %v", i, a.name, k, float64(w[k]), g.Component(k), img(w[k]))
				}
			}
		}
	}
	if !back.HasFloat4Attribute(modeling.RotationAttribute) || !back.HasFloat1Attribute(modeling.OpacityAttribute) {
		return vh.Failf("splat-ply-attribute-missing", "Rotation or Opacity did not survive the splat PLY export")
	}
	for i := 0; i < n; i++ {
		g, w := back.Float4Attribute(modeling.RotationAttribute).At(i), c.Splats[i].Rot
		for k, got := range []float64{g.X(), g.Y(), g.Z(), g.W()} {
			if !same(got, img(w[k])) {
				return vh.Failf("splat-ply-rotation", "splat %d rotation %v read back as %v", i, w, []float64{g.X(), g.Y(), g.Z(), g.W()})
			}
		}
		if got := back.Float1Attribute(modeling.OpacityAttribute).At(i); !same(got, img(c.Splats[i].Op)) {
			return vh.Failf("splat-ply-opacity", "splat %d opacity %v read back as %v", i, float64(c.Splats[i].Op), got)
		}
	}
	for _, r := range c.Rest {
		name := fmt.Sprintf("f_rest_%d", r.K)
		if !back.HasFloat1Attribute(name) {
			return vh.Failf("splat-ply-attribute-missing", "harmonic %s did not survive the splat PLY export", name)
		}
		for i := 0; i < n; i++ {
			if got := back.Float1Attribute(name).At(i); !same(got, img(r.V[i])) {
				return vh.Failf("splat-ply-harmonic", "splat %d %s = %v read back as %v", i, name, float64(r.V[i]), got)
			}
		}
	}
	return nil
}

// ---------------------------------------------------------------- sub-check: SPZ decoding

// SpzCase is an SPZ stream in the published layout (github.com/nianticlabs/spz, load-spz.cc):
// 16-byte little-endian header, then the planar arrays in the order positions, alphas, colours,
// scales, rotations, spherical harmonics; the whole gzip-compressed.
type SpzCase struct {
	Version int // 1: positions are 3 half floats, 2: 3 x 24-bit signed fixed point
	N       int
	Deg     int // SH degree 0..3 -> 0, 3, 8, 15 coefficients x 3 channels per point
	FB      int // fractional bits of the fixed-point positions
	Flags   int
	Level   int // gzip level
	Pos     []byte
	Alpha   []byte
	Col     []byte
	Scale   []byte
	Rot     []byte
	SH      []byte
}

var shDims = []int{0, 3, 8, 15}

func (c SpzCase) posBytes() int {
	if c.Version == 1 {
		return 6
	}
	return 9
}

func (c SpzCase) inDomain() bool {
	if c.Version < 1 || c.Version > 2 || c.N < 0 || c.N > 2000000 || c.Deg < 0 || c.Deg > 3 || c.FB < 0 || c.FB > 30 || c.Flags < 0 || c.Flags > 255 {
		return false
	}
	if c.Level < -2 || c.Level > 9 {
		return false
	}
	return len(c.Pos) == c.N*c.posBytes() && len(c.Alpha) == c.N && len(c.Col) == 3*c.N && len(c.Scale) == 3*c.N &&
		len(c.Rot) == 3*c.N && len(c.SH) == 3*shDims[c.Deg]*c.N
}

// encodeSPZ is the reference encoder.
func encodeSPZ(c SpzCase) []byte {
	raw := make([]byte, 0, 16+len(c.Pos)+len(c.Alpha)+len(c.Col)+len(c.Scale)+len(c.Rot)+len(c.SH))
	raw = append(raw, 0x4e, 0x47, 0x53, 0x50) // "NGSP" = 0x5053474e little endian
	raw = binary.LittleEndian.AppendUint32(raw, uint32(c.Version))
	raw = binary.LittleEndian.AppendUint32(raw, uint32(c.N))
	raw = append(raw, byte(c.Deg), byte(c.FB), byte(c.Flags), 0)
	for _, a := range [][]byte{c.Pos, c.Alpha, c.Col, c.Scale, c.Rot, c.SH} {
		raw = append(raw, a...)
	}
	var gz bytes.Buffer
	w, err := gzip.NewWriterLevel(&gz, c.Level)
	if err != nil {
		panic(err)
	}
	w.Write(raw)
	w.Close()
	return gz.Bytes()
}

// halfRef: IEEE 754 binary16 -> float64, written from the standard.
func halfRef(h uint16) float64 {
	s := 1.0
	if h>>15 == 1 {
		s = -1
	}
	e := int(h>>10) & 31
	m := float64(h & 1023)
	switch e {
	case 0:
		return s * math.Ldexp(m, -24)
	case 31:
		if m != 0 {
			return math.NaN()
		}
		return math.Inf(int(s))
	}
	return s * math.Ldexp(1+m/1024, e-15)
}

func fixed24(b []byte) int32 {
	v := int32(uint32(b[0]) | uint32(b[1])<<8 | uint32(b[2])<<16)
	if v&0x800000 != 0 {
		v -= 1 << 24
	}
	return v
}

func spzByte() *rapid.Generator[byte] {
	return rapid.OneOf(rapid.Byte(), rapid.Byte(), rapid.SampledFrom([]byte{0, 1, 127, 128, 254, 255}))
}

func genSpz(t *rapid.T) SpzCase {
	c := SpzCase{
		Version: rapid.IntRange(1, 2).Draw(t, "version"),
		Deg:     rapid.IntRange(0, 3).Draw(t, "deg"),
		Flags:   rapid.SampledFrom([]int{0, 0, 1, 255, 128}).Draw(t, "flags"),
		Level:   rapid.SampledFrom([]int{gzip.DefaultCompression, gzip.NoCompression, gzip.BestSpeed, gzip.HuffmanOnly}).Draw(t, "level"),
	}
	if rapid.IntRange(0, 2).Draw(t, "fbKind") == 0 {
		c.FB = rapid.SampledFrom([]int{0, 12, 24, 30, 8, 23, 25}).Draw(t, "fbSpecial")
	} else {
		c.FB = rapid.IntRange(0, 30).Draw(t, "fb")
	}
	dim := shDims[c.Deg]
	if rapid.IntRange(0, 7).Draw(t, "big") == 0 {
		// many points: arrays expanded deterministically from one drawn seed
		c.N = rapid.IntRange(7, 48).Draw(t, "nBig")
		x := rapid.Uint64().Draw(t, "seed")
		fill := func(k int) []byte {
			out := make([]byte, k)
			for i := range out {
				x = x*6364136223846793005 + 1442695040888963407
				out[i] = byte(x >> 56)
			}
			return out
		}
		c.Pos, c.Alpha, c.Col, c.Scale, c.Rot, c.SH = fill(c.N*c.posBytes()), fill(c.N), fill(3*c.N), fill(3*c.N), fill(3*c.N), fill(3*dim*c.N)
		return c
	}
	c.N = rapid.IntRange(0, 6).Draw(t, "n")
	bg := spzByte()
	arr := func(k int, label string) []byte { return rapid.SliceOfN(bg, k, k).Draw(t, label) }
	c.Pos, c.Alpha, c.Col, c.Scale, c.Rot, c.SH = arr(c.N*c.posBytes(), "pos"), arr(c.N, "alpha"), arr(3*c.N, "col"), arr(3*c.N, "scale"), arr(3*c.N, "rot"), arr(3*dim*c.N, "sh")
	return c
}

// eqRel: equal, both NaN, or within 1e-12 relative.
func eqRel(got, want float64) bool {
	return got == want || (math.IsNaN(got) && math.IsNaN(want)) || math.Abs(got-want) <= 1e-12*math.Abs(want)
}

func runSpz(c SpzCase, o *vh.Obs) *vh.Failure {
	if !c.inDomain() {
		o.Class("out-of-domain")
		return nil
	}
	n, dim := c.N, shDims[c.Deg]
	o.Class(fmt.Sprintf("spz/version-%d", c.Version))
	o.Class(fmt.Sprintf("spz/sh-degree-%d", c.Deg))
	switch {
	case n == 0:
		o.Class("spz/points-0")
	case n == 1:
		o.Class("spz/points-1")
	case n <= 6:
		o.Class("spz/points-2..6")
	default:
		o.Class("spz/points-7+")
	}
	if c.Version == 2 {
		switch {
		case c.FB == 0:
			o.Class("spz/fractional-bits-0")
		case c.FB <= 12:
			o.Class("spz/fractional-bits-1..12")
		case c.FB <= 24:
			o.Class("spz/fractional-bits-13..24")
		default:
			o.Class("spz/fractional-bits-25..30")
		}
	}
	if n >= 2 {
		o.NonTrivial()
	}
	stream := encodeSPZ(c)

	var cloud *spz.Cloud
	var err error
	if kind, val := oracle.Try(func() { cloud, err = spz.Read(bytes.NewReader(stream)) }); kind != "" {
		return vh.Failf("spz-read-panic-"+kind, "spz.Read panicked on a well-formed stream: %v", val)
	}
	if err != nil || cloud == nil {
		return vh.Failf("spz-read-error", "spz.Read failed on a well-formed stream (version %d, %d points, degree %d): %v", c.Version, n, c.Deg, err)
	}
	// the graph's SPZ read node is the same decoder applied to a byte parameter
	if n <= 4096 {
		var nm modeling.Mesh
		var nerr error
		if kind, val := oracle.Try(func() { nm, nerr = (spz.ReadNodeData{Data: nodes.Value(stream).Out()}).Process() }); kind != "" {
			return vh.Failf("spz-readnode-panic-"+kind, "spz.ReadNode panicked on a well-formed stream: %v", val)
		}
		if nerr != nil || oracle.Snapshot(nm) != oracle.Snapshot(cloud.Mesh) {
			return vh.Failf("spz-readnode-differs", "spz.ReadNode on a well-formed stream (err %v) gives a different cloud than spz.Read", nerr)
		}
	}
	h := cloud.Header
	if h.Magic != 0x5053474e || int(h.Version) != c.Version || int(h.NumPoints) != n || int(h.ShDegree) != c.Deg || int(h.FractionalBits) != c.FB || int(h.Flags) != c.Flags || h.Reserved != 0 {
		return vh.Failf("spz-header", "header decoded as %+v, encoded version=%d points=%d degree=%d fractionalBits=%d flags=%d", h, c.Version, n, c.Deg, c.FB, c.Flags)
	}
	if h2, err := spz.ReadHeader(bytes.NewReader(stream)); err != nil || h2 == nil || *h2 != h {
		return vh.Failf("spz-readheader", "ReadHeader returned %+v (%v), Read returned %+v", h2, err, h)
	}
	m := cloud.Mesh
	if m.AttributeLength() != n || m.PrimitiveCount() != n {
		return vh.Failf("spz-count", "%d points encoded, %d vertices / %d points decoded", n, m.AttributeLength(), m.PrimitiveCount())
	}
	if n == 0 {
		return nil
	}
	if err := oracle.WFStatic(m); err != nil {
		return vh.Failf("spz-malformed", "decoded cloud is not well-formed: %v", err)
	}
	if m.Topology() != modeling.PointTopology {
		return vh.Failf("spz-topology", "decoded cloud has topology %v", m.Topology())
	}
	// declared arrays, all of NumPoints, nothing else
	wantV3 := []string{modeling.FDCAttribute, modeling.PositionAttribute, modeling.ScaleAttribute}
	for d := 0; d < dim; d++ {
		wantV3 = append(wantV3, fmt.Sprintf("SH_%d", d))
	}
	sort.Strings(wantV3)
	if got := m.Float3Attributes(); fmt.Sprint(got) != fmt.Sprint(wantV3) {
		return vh.Failf("spz-attribute-set", "Float3 attributes %v, want %v for SH degree %d", got, wantV3, c.Deg)
	}
	if got := m.Float4Attributes(); fmt.Sprint(got) != fmt.Sprint([]string{modeling.RotationAttribute}) {
		return vh.Failf("spz-attribute-set", "Float4 attributes %v, want [Rotation]", got)
	}
	if got := m.Float1Attributes(); fmt.Sprint(got) != fmt.Sprint([]string{modeling.OpacityAttribute}) {
		return vh.Failf("spz-attribute-set", "Float1 attributes %v, want [Opacity]", got)
	}
	if got := m.Float2Attributes(); len(got) != 0 {
		return vh.Failf("spz-attribute-set", "Float2 attributes %v, want none", got)
	}
	pos, sc, col := m.Float3Attribute(modeling.PositionAttribute), m.Float3Attribute(modeling.ScaleAttribute), m.Float3Attribute(modeling.FDCAttribute)
	al, rot := m.Float1Attribute(modeling.OpacityAttribute), m.Float4Attribute(modeling.RotationAttribute)
	negFixed, halfSpecial := false, false
	for i := 0; i < n; i++ {
		if m.Indices().At(i) != i {
			return vh.Failf("spz-order", "point %d of the decoded cloud refers to vertex %d", i, m.Indices().At(i))
		}
		gp, gs, gc, gr := pos.At(i), sc.At(i), col.At(i), rot.At(i)
		var rr [3]float64
		for k := 0; k < 3; k++ {
			var want float64
			if c.Version == 1 {
				hb := binary.LittleEndian.Uint16(c.Pos[(i*3+k)*2:])
				want = halfRef(hb)
				if e := (hb >> 10) & 31; e == 0 || e == 31 {
					halfSpecial = true
				}
			} else {
				v := fixed24(c.Pos[(i*3+k)*3:])
				negFixed = negFixed || v < 0
				want = float64(v) / float64(int64(1)<<uint(c.FB))
			}
			if got := gp.Component(k); !eqRel(got, want) {
				return vh.Failf("spz-position", "point %d position[%d] decoded as %v, record says %v (version %d, fractional bits %d)", i, k, got, want, c.Version, c.FB)
			}
			if got, want := gc.Component(k), (float64(c.Col[i*3+k])/255-0.5)/0.15; !eqRel(got, want) {
				return vh.Failf("spz-colour", "point %d colour[%d] decoded as %v, byte %d dequantises to %v", i, k, got, c.Col[i*3+k], want)
			}
			if got, want := gs.Component(k), float64(c.Scale[i*3+k])/16-10; !eqRel(got, want) {
				return vh.Failf("spz-scale", "point %d scale[%d] decoded as %v, byte %d dequantises to %v", i, k, got, c.Scale[i*3+k], want)
			}
			rr[k] = float64(c.Rot[i*3+k])/127.5 - 1
		}
		if got, want := al.At(i), float64(c.Alpha[i])/255; !eqRel(got, want) {
			return vh.Failf("spz-alpha", "point %d alpha decoded as %v, byte %d dequantises to %v (linear)", i, got, c.Alpha[i], want)
		}
		w := math.Sqrt(math.Max(0, 1-(rr[0]*rr[0]+rr[1]*rr[1]+rr[2]*rr[2])))
		if !eqRel(gr.X(), rr[0]) || !eqRel(gr.Y(), rr[1]) || !eqRel(gr.Z(), rr[2]) || !(math.Abs(gr.W()-w) <= 1e-12) {
			return vh.Failf("spz-rotation", "point %d rotation decoded as %v, bytes %v dequantise to xyz=%v w=%v", i, []float64{gr.X(), gr.Y(), gr.Z(), gr.W()}, c.Rot[i*3:i*3+3], rr, w)
		}
		for d := 0; d < dim; d++ {
			g := m.Float3Attribute(fmt.Sprintf("SH_%d", d)).At(i)
			for k := 0; k < 3; k++ {
				by := c.SH[(i*dim+d)*3+k]
				if want := (float64(by) - 128) / 128; !eqRel(g.Component(k), want) {
					return vh.Failf("spz-sh", "point %d coefficient %d channel %d decoded as %v, byte %d dequantises to %v (degree %d)", i, d, k, g.Component(k), by, want, c.Deg)
				}
			}
		}
	}
	if negFixed {
		o.Class("spz/negative-fixed-point")
	}
	if halfSpecial {
		o.Class("spz/half-subnormal-inf-nan")
	}
	return nil
}

// halfGrid: 16 version-1 streams that together carry every half-float pattern once.
func halfGrid() []SpzCase {
	var out []SpzCase
	for blk := 0; blk < 16; blk++ {
		n := (4096 + 2) / 3
		c := SpzCase{Version: 1, N: n, Deg: blk % 4, FB: 12, Level: gzip.BestSpeed,
			Pos: make([]byte, 6*n), Alpha: make([]byte, n), Col: make([]byte, 3*n), Scale: make([]byte, 3*n), Rot: make([]byte, 3*n), SH: make([]byte, 3*shDims[blk%4]*n)}
		for j := 0; j < 4096; j++ {
			binary.LittleEndian.PutUint16(c.Pos[2*j:], uint16(blk*4096+j))
		}
		for i := range c.SH {
			c.SH[i] = byte(i*7 + blk)
		}
		for i := range c.Rot {
			c.Rot[i] = byte(i*5 + blk)
			c.Col[i] = byte(i*11 + 3*blk)
			c.Scale[i] = byte(i*13 + 5*blk)
		}
		for i := range c.Alpha {
			c.Alpha[i] = byte(i*3 + 7*blk)
		}
		out = append(out, c)
	}
	return out
}

// ---------------------------------------------------------------- sub-check: large clouds

// LargeCase is a recipe (the replay file stays small): N splats with values from a linear
// congruential sequence, handed to one of the three oracles above. The random cases have at most
// 48 splats; files of real scenes have 10^4..10^6, and buffers (4 KiB, 32 KiB gzip windows,
// 1 MiB batches), count widths (8/16 bit) and block layouts only matter at such sizes.
type LargeCase struct {
	Kind    string // splat | ply | spz
	N       int
	Seed    uint64
	Version int  `json:",omitempty"` // spz
	Deg     int  `json:",omitempty"`
	FB      int  `json:",omitempty"`
	Level   int  `json:",omitempty"`
	Normals bool `json:",omitempty"` // ply
	Rest    int  `json:",omitempty"` // ply: 0 none, 1 three harmonics, 2 all 45
}

var largeBoundaries = []int{127, 128, 129, 255, 256, 257, 2047, 2048, 2049, 4095, 4096, 4097, 32767, 32768, 32769, 65535, 65536, 65537, 100000}

func genLarge(t *rapid.T) LargeCase {
	c := LargeCase{Kind: rapid.SampledFrom([]string{"splat", "ply", "spz"}).Draw(t, "kind"), Seed: rapid.Uint64().Draw(t, "seed")}
	switch rapid.IntRange(0, 2).Draw(t, "nKind") {
	case 0:
		c.N = rapid.SampledFrom(largeBoundaries).Draw(t, "nBoundary")
	case 1: // log-uniform 100 .. 100000
		c.N = int(math.Round(100 * math.Pow(1000, rapid.Float64Range(0, 1).Draw(t, "nLog"))))
	default:
		c.N = rapid.IntRange(100, 100000).Draw(t, "n")
	}
	switch c.Kind {
	case "spz":
		c.Version = rapid.IntRange(1, 2).Draw(t, "version")
		c.Deg = rapid.IntRange(0, 3).Draw(t, "deg")
		c.FB = rapid.IntRange(0, 30).Draw(t, "fb")
		c.Level = rapid.SampledFrom([]int{gzip.DefaultCompression, gzip.NoCompression, gzip.BestSpeed, gzip.HuffmanOnly}).Draw(t, "level")
		if c.Deg == 3 && c.N > 40000 {
			c.Deg = 1 // keeps the stream below ~4 MB
		}
	case "ply":
		c.Normals = rapid.Bool().Draw(t, "normals")
		c.Rest = rapid.IntRange(0, 2).Draw(t, "rest")
		if c.Rest == 2 && c.N > 30000 {
			c.N = 30000 // 45 harmonics x N values
		}
	}
	return c
}

// sweepCases: .splat and splat-PLY for every count up to N, SPZ (gzip: dearer) up to N/4; the codec
// options cycle with the count.
func sweepCases() []LargeCase {
	n := 1200
	if vh.Tier == "thorough" {
		n = 12000
	}
	var out []LargeCase
	for k := 1; k <= n; k++ {
		seed := uint64(k)*0x9E3779B97F4A7C15 + 1
		out = append(out, LargeCase{Kind: "splat", N: k, Seed: seed})
		out = append(out, LargeCase{Kind: "ply", N: k, Seed: seed, Normals: k%2 == 0, Rest: k % 2})
		if k <= n/4 {
			out = append(out, LargeCase{Kind: "spz", N: k, Seed: seed, Version: 1 + k%2, Deg: k % 4, FB: 4 + k%20,
				Level: []int{gzip.DefaultCompression, gzip.NoCompression, gzip.BestSpeed, gzip.HuffmanOnly}[k%4]})
		}
	}
	return out
}

// sceneSequence: a viewer or converter loads several captured scenes one after another in one
// process - here four SPZ streams of 94 000..130 000 splats with full harmonics (4-6 MiB of harmonics
// each), the sizes neither ascending nor equal. Every stream is judged like any other stream.
var sceneSequence = []LargeCase{
	{Kind: "spz", N: 100000, Seed: 21, Version: 2, Deg: 3, FB: 12, Level: gzip.BestSpeed},
	{Kind: "spz", N: 94000, Seed: 22, Version: 2, Deg: 3, FB: 10, Level: gzip.BestSpeed},
	{Kind: "spz", N: 130000, Seed: 23, Version: 1, Deg: 3, FB: 12, Level: gzip.BestSpeed},
	{Kind: "spz", N: 97001, Seed: 24, Version: 2, Deg: 3, FB: 12, Level: gzip.BestSpeed},
	{Kind: "spz", N: 180000, Seed: 25, Version: 2, Deg: 2, FB: 12, Level: gzip.BestSpeed},
	{Kind: "spz", N: 175000, Seed: 26, Version: 2, Deg: 2, FB: 12, Level: gzip.BestSpeed},
}

func runLarge(c LargeCase, o *vh.Obs) *vh.Failure {
	if c.Kind == "spz-sequence" {
		o.Class("large/scenes-in-sequence")
		o.NonTrivial()
		for i, sc := range sceneSequence {
			if f := runLarge(sc, &vh.Obs{}); f != nil {
				f.Sig = "sequence/" + f.Sig
				f.Msg = fmt.Sprintf("stream %d of %d loaded in one process (%d splats, degree %d): %s", i+1, len(sceneSequence), sc.N, sc.Deg, f.Msg)
				return f
			}
		}
		return nil
	}
	if c.N < 1 || c.N > 2000000 {
		o.Class("out-of-domain")
		return nil
	}
	x := c.Seed
	next := func() uint64 {
		x = x*6364136223846793005 + 1442695040888963407
		return x >> 33
	}
	o.NonTrivial()
	o.Class("large/" + c.Kind)
	switch {
	case c.N > 1000000:
		o.Class("large/count-beyond-a-million")
	case c.N > 65535:
		o.Class("large/count-beyond-16-bit")
	case c.N >= 32768:
		o.Class("large/count-32768..65535")
	case c.N >= 4096:
		o.Class("large/count-4096..32767")
	case c.N > 255:
		o.Class("large/count-256..4095")
	default:
		o.Class("large/count-100..255")
	}
	sub := &vh.Obs{}
	if c.Kind == "spz" {
		sc := SpzCase{Version: c.Version, N: c.N, Deg: c.Deg, FB: c.FB, Flags: 0, Level: c.Level}
		if sc.Version < 1 || sc.Version > 2 || sc.Deg < 0 || sc.Deg > 3 {
			o.Class("out-of-domain")
			return nil
		}
		fill := func(k int) []byte {
			out := make([]byte, k)
			for i := range out {
				out[i] = byte(next())
			}
			if sc.Version == 1 && k == c.N*6 { // half floats: keep the exponent away from Inf/NaN
				for i := 1; i < k; i += 2 {
					if out[i]&0x7c == 0x7c {
						out[i] &^= 0x04
					}
				}
			}
			return out
		}
		dim := shDims[sc.Deg]
		sc.Pos, sc.Alpha, sc.Col, sc.Scale, sc.Rot, sc.SH = fill(c.N*sc.posBytes()), fill(c.N), fill(3*c.N), fill(3*c.N), fill(3*c.N), fill(3*dim*c.N)
		return runSpz(sc, sub)
	}
	eighth := func(span int) gen.F { return gen.F(float64(int(next()%uint64(2*span*8+1))-span*8) / 8) }
	ss := make([]Splat, c.N)
	for i := range ss {
		for k := 0; k < 3; k++ {
			ss[i].Pos[k] = eighth(64)
			ss[i].Scale[k] = eighth(6)
			ss[i].FDC[k] = eighth(2)
		}
		ss[i].Op = eighth(6)
		for k := 0; k < 4; k++ {
			ss[i].Rot[k] = eighth(1)
		}
		if ss[i].Rot == [4]gen.F{} {
			ss[i].Rot[0] = 1
		}
	}
	if c.Kind == "splat" {
		return runSplat(SplatCase{Splats: ss}, sub)
	}
	pc := PlyCase{Splats: ss}
	if c.Normals {
		pc.Normals = make([][3]gen.F, c.N)
		for i := range pc.Normals {
			pc.Normals[i] = [3]gen.F{eighth(4), eighth(4), eighth(4)}
		}
	}
	ks := []int{}
	switch c.Rest {
	case 1:
		ks = []int{0, 7, 44}
	case 2:
		for k := 0; k < 45; k++ {
			ks = append(ks, k)
		}
	}
	for _, k := range ks {
		r := RestAttr{K: k, V: make([]gen.F, c.N)}
		for i := range r.V {
			r.V[i] = eighth(4)
		}
		pc.Rest = append(pc.Rest, r)
	}
	return runPly(pc, sub)
}

func TestC15(t *testing.T) {
	vh.Drive(t, vh.Spec[SplatCase]{Name: "splat-roundtrip", Quick: 160000, Thorough: 4800000, Gen: genSplatCase, Run: runSplat})
	vh.Drive(t, vh.Spec[SpzCase]{Name: "spz-decode", Quick: 80000, Thorough: 2400000, Gen: genSpz, Run: runSpz})
	vh.Drive(t, vh.Spec[PlyCase]{Name: "splat-ply", Quick: 100000, Thorough: 3000000, Gen: genPlyCase, Run: runPly})
	vh.Drive(t, vh.Spec[LargeCase]{Name: "large", Quick: 200, Thorough: 6000, Gen: genLarge, Run: runLarge})
	// count sweep: every splat count 1..N once per codec (a defect that needs an exact multiple of an
	// internal block size cannot be found by sampling counts)
	// captured scenes hold 1-6 million splats: one stream and one .splat file beyond a million (~1 s each)
	vh.Enumerate(t, vh.Spec[LargeCase]{Name: "million", Run: runLarge,
		Key: func(c LargeCase) string { return fmt.Sprintf("million-%s-%d", c.Kind, c.N) }},
		[]LargeCase{{Kind: "spz", N: 1200000, Seed: 7, Version: 2, Deg: 0, FB: 12, Level: gzip.BestSpeed}, {Kind: "splat", N: 1048577, Seed: 9}, {Kind: "spz-sequence"}})
	vh.Enumerate(t, vh.Spec[LargeCase]{Name: "count-sweep", Run: runLarge,
		Key:    func(c LargeCase) string { return fmt.Sprintf("sweep-%s-%d", c.Kind, c.N) },
		Sample: func(c LargeCase) any { return fmt.Sprintf("%s with %d splats", c.Kind, c.N) }}, sweepCases())
	vh.Drive(t, vh.Spec[vh.Conc[SplatCase]]{Name: "concurrent-splat", Quick: 2000, Thorough: 60000, Gen: vh.GenConc(genSplatCase), Run: vh.RunConc(runSplat), Repeat: 20})
	vh.Drive(t, vh.Spec[vh.Conc[SpzCase]]{Name: "concurrent-spz", Quick: 2000, Thorough: 60000, Gen: vh.GenConc(genSpz), Run: vh.RunConc(runSpz), Repeat: 20})
	vh.Drive(t, vh.Spec[vh.Conc[PlyCase]]{Name: "concurrent-splat-ply", Quick: 2000, Thorough: 60000, Gen: vh.GenConc(genPlyCase), Run: vh.RunConc(runPly), Repeat: 20})
	vh.Enumerate(t, vh.Spec[SpzCase]{Name: "spz-half-grid", Run: runSpz,
		Key: func(c SpzCase) string { return fmt.Sprintf("half-block-%d", binary.LittleEndian.Uint16(c.Pos)) },
		Sample: func(c SpzCase) any {
			return fmt.Sprintf("version 1, %d points, halves from %#04x", c.N, binary.LittleEndian.Uint16(c.Pos))
		}}, halfGrid())
}

func FuzzC15Spz(f *testing.F) {
	vh.Fuzz(f, vh.Spec[SpzCase]{Name: "spz-decode", Gen: genSpz, Run: runSpz})
}
