// Package oracle holds oracles shared by the property packages.
package oracle

import (
	"fmt"
	"math"
	"reflect"
	"runtime"
	"strings"

	"github.com/EliCDavis/polyform/modeling"
)

// Bits renders a float by bit pattern (NaN-safe exact comparison).
func Bits(f float64) string { return fmt.Sprintf("%016x", math.Float64bits(f)) }

// AttrLen returns the common attribute length, or an error when arrays disagree.
func AttrLen(m modeling.Mesh) (int, error) {
	n := -1
	var first string
	chk := func(l int, name string) error {
		if n == -1 {
			n, first = l, name
		} else if n != l {
			return fmt.Errorf("attribute %q has length %d but %q has %d", name, l, first, n)
		}
		return nil
	}
	for _, a := range m.Float1Attributes() {
		if e := chk(m.Float1Attribute(a).Len(), a); e != nil {
			return 0, e
		}
	}
	for _, a := range m.Float2Attributes() {
		if e := chk(m.Float2Attribute(a).Len(), a); e != nil {
			return 0, e
		}
	}
	for _, a := range m.Float3Attributes() {
		if e := chk(m.Float3Attribute(a).Len(), a); e != nil {
			return 0, e
		}
	}
	for _, a := range m.Float4Attributes() {
		if e := chk(m.Float4Attribute(a).Len(), a); e != nil {
			return 0, e
		}
	}
	if n == -1 {
		n = 0
	}
	return n, nil
}

// PanicKind classifies a recovered panic value: "crash" for Go runtime errors (index out of
// range, nil dereference, ...), "reported" for errors/strings raised deliberately by the library.
func PanicKind(r any) string {
	if _, ok := r.(runtime.Error); ok {
		return "crash"
	}
	if e, ok := r.(error); ok {
		s := e.Error()
		if strings.Contains(s, "index out of range") || strings.Contains(s, "nil pointer") || strings.Contains(s, "slice bounds") {
			return "crash"
		}
	}
	return "reported"
}

// Try runs f; it returns ("", nil) when f returns, or the panic kind and value.
func Try(f func()) (kind string, val any) {
	defer func() {
		if r := recover(); r != nil {
			kind, val = PanicKind(r), r
		}
	}()
	f()
	return "", nil
}

// WF checks well-formedness: common attribute length, indices in range, index count fits the
// topology, and that walking every primitive through the accessors raises no runtime error.
func WF(m modeling.Mesh) error {
	if err := WFStatic(m); err != nil {
		return err
	}
	// walk the accessors
	if kind, val := Try(func() { Walk(m) }); kind == "crash" {
		return fmt.Errorf("walking the primitives crashed: %v", val)
	}
	return nil
}

// WFStatic is the structural half of WF (no accessor walk).
func WFStatic(m modeling.Mesh) error {
	n, err := AttrLen(m)
	if err != nil {
		return err
	}
	idx := m.Indices()
	for i := 0; i < idx.Len(); i++ {
		if idx.At(i) < 0 || idx.At(i) >= n {
			return fmt.Errorf("index[%d]=%d outside [0,%d)", i, idx.At(i), n)
		}
	}
	switch m.Topology() {
	case modeling.TriangleTopology:
		if idx.Len()%3 != 0 {
			return fmt.Errorf("triangle mesh with %d indices", idx.Len())
		}
	case modeling.QuadTopology:
		if idx.Len()%4 != 0 {
			return fmt.Errorf("quad mesh with %d indices", idx.Len())
		}
	case modeling.LineTopology:
		if idx.Len()%2 != 0 {
			return fmt.Errorf("line mesh with %d indices", idx.Len())
		}
	}
	return nil
}

// Walk reads every primitive through the public accessors.
func Walk(m modeling.Mesh) {
	f3 := m.Float3Attributes()
	f2 := m.Float2Attributes()
	f1 := m.Float1Attributes()
	switch m.Topology() {
	case modeling.TriangleTopology, modeling.PointTopology, modeling.LineStripTopology:
		if m.Indices().Len() == 0 {
			break
		}
		m.ScanPrimitives(func(i int, p modeling.Primitive) {
			for _, a := range f3 {
				bb := p.BoundingBox(a)
				if a == modeling.PositionAttribute { // Tri.ClosestPoint is documented over Position only
					p.ClosestPoint(a, bb.Center())
					p.Scope(a).BoundingBox()
				}
			}
		})
	}
	if m.Topology() == modeling.TriangleTopology {
		for i := 0; i < m.PrimitiveCount(); i++ {
			tri := m.Tri(i)
			tri.P1()
			tri.P2()
			tri.P3()
			for _, a := range f3 {
				tri.P1Vec3Attr(a)
				tri.P2Vec3Attr(a)
				tri.P3Vec3Attr(a)
			}
			for _, a := range f2 {
				tri.P1Vec2Attr(a)
				tri.P2Vec2Attr(a)
				tri.P3Vec2Attr(a)
			}
			for _, a := range f1 {
				tri.P1Vec1Attr(a)
				tri.P2Vec1Attr(a)
				tri.P3Vec1Attr(a)
			}
		}
	}
	for _, a := range f3 {
		if m.Float3Attribute(a).Len() > 0 {
			m.BoundingBox(a)
		}
	}
}

// Corner renders the tuple of all attribute values of vertex v (attribute names sorted; names in
// skip are left out).
func Corner(m modeling.Mesh, v int, skip map[string]bool) string {
	var sb strings.Builder
	for _, a := range m.Float1Attributes() {
		if !skip[a] {
			sb.WriteString(a + "=" + Bits(m.Float1Attribute(a).At(v)) + ";")
		}
	}
	for _, a := range m.Float2Attributes() {
		if !skip[a] {
			x := m.Float2Attribute(a).At(v)
			sb.WriteString(a + "=" + Bits(x.X()) + Bits(x.Y()) + ";")
		}
	}
	for _, a := range m.Float3Attributes() {
		if !skip[a] {
			x := m.Float3Attribute(a).At(v)
			sb.WriteString(a + "=" + Bits(x.X()) + Bits(x.Y()) + Bits(x.Z()) + ";")
		}
	}
	for _, a := range m.Float4Attributes() {
		if !skip[a] {
			x := m.Float4Attribute(a).At(v)
			sb.WriteString(a + "=" + Bits(x.X()) + Bits(x.Y()) + Bits(x.Z()) + Bits(x.W()) + ";")
		}
	}
	return sb.String()
}

// Corners is the sequence of corner tuples reached through the index array.
func Corners(m modeling.Mesh, skip map[string]bool) []string {
	idx := m.Indices()
	out := make([]string, idx.Len())
	for i := range out {
		out[i] = Corner(m, idx.At(i), skip)
	}
	return out
}

// EqCorners compares two corner sequences.
func EqCorners(want, got []string) error {
	if len(want) != len(got) {
		return fmt.Errorf("corner count: want %d, got %d", len(want), len(got))
	}
	for i := range want {
		if want[i] != got[i] {
			return fmt.Errorf("corner %d differs:\n want %s\n got  %s", i, want[i], got[i])
		}
	}
	return nil
}

// Snapshot is a deep, bit-exact rendering of everything a mesh reports.
func Snapshot(m modeling.Mesh) string {
	var sb strings.Builder
	fmt.Fprintf(&sb, "topo=%d;idx=", int(m.Topology()))
	idx := m.Indices()
	for i := 0; i < idx.Len(); i++ {
		fmt.Fprintf(&sb, "%d,", idx.At(i))
	}
	sb.WriteString(";mats=")
	for _, mm := range m.Materials() {
		if mm.Material == nil {
			fmt.Fprintf(&sb, "(%d,nil)", mm.PrimitiveCount)
		} else {
			fmt.Fprintf(&sb, "(%d,%p,%s)", mm.PrimitiveCount, mm.Material, deepMaterial(mm.Material)) // the pointed-to material too, two levels deep
		}
	}
	fmt.Fprintf(&sb, ";names=%v|%v|%v|%v;", m.Float1Attributes(), m.Float2Attributes(), m.Float3Attributes(), m.Float4Attributes())
	for _, a := range m.Float1Attributes() {
		it := m.Float1Attribute(a)
		sb.WriteString(a + ":")
		for i := 0; i < it.Len(); i++ {
			sb.WriteString(Bits(it.At(i)) + ",")
		}
	}
	for _, a := range m.Float2Attributes() {
		it := m.Float2Attribute(a)
		sb.WriteString(a + ":")
		for i := 0; i < it.Len(); i++ {
			x := it.At(i)
			sb.WriteString(Bits(x.X()) + Bits(x.Y()) + ",")
		}
	}
	for _, a := range m.Float3Attributes() {
		it := m.Float3Attribute(a)
		sb.WriteString(a + ":")
		for i := 0; i < it.Len(); i++ {
			x := it.At(i)
			sb.WriteString(Bits(x.X()) + Bits(x.Y()) + Bits(x.Z()) + ",")
		}
	}
	for _, a := range m.Float4Attributes() {
		it := m.Float4Attribute(a)
		sb.WriteString(a + ":")
		for i := 0; i < it.Len(); i++ {
			x := it.At(i)
			sb.WriteString(Bits(x.X()) + Bits(x.Y()) + Bits(x.Z()) + Bits(x.W()) + ",")
		}
	}
	return sb.String()
}

// deepMaterial prints every field of a material; pointer fields (texture URIs) by what they point to.
func deepMaterial(m *modeling.Material) string {
	v := reflect.ValueOf(*m)
	var sb strings.Builder
	for i := 0; i < v.NumField(); i++ {
		f := v.Field(i)
		fmt.Fprintf(&sb, "%s=", v.Type().Field(i).Name)
		if f.Kind() == reflect.Pointer {
			if f.IsNil() {
				sb.WriteString("nil;")
			} else {
				fmt.Fprintf(&sb, "&%#v;", f.Elem().Interface())
			}
			continue
		}
		fmt.Fprintf(&sb, "%#v;", f.Interface())
	}
	return sb.String()
}

// DiffSnap says where two snapshots first differ (for messages).
func DiffSnap(a, b string) string {
	n := len(a)
	if len(b) < n {
		n = len(b)
	}
	i := 0
	for i < n && a[i] == b[i] {
		i++
	}
	lo := i - 60
	if lo < 0 {
		lo = 0
	}
	ha, hb := i+60, i+60
	if ha > len(a) {
		ha = len(a)
	}
	if hb > len(b) {
		hb = len(b)
	}
	return fmt.Sprintf("first difference at byte %d:\n before ...%s\n after  ...%s", i, a[lo:ha], b[lo:hb])
}
