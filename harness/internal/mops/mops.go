// Package mops is the catalogue of public mesh operations shared by the C01 (immutability) and
// C02 (well-formedness closure) machines: a serialisable Op, its generator, its application and
// the documented precondition of each operation.
package mops

import (
	"image"
	"image/color"
	"io"

	"github.com/EliCDavis/polyform/formats/gltf"
	"github.com/EliCDavis/polyform/formats/obj"
	"github.com/EliCDavis/polyform/formats/ply"
	"github.com/EliCDavis/polyform/formats/stl"
	"github.com/EliCDavis/polyform/math/geometry"
	"github.com/EliCDavis/polyform/math/quaternion"
	"github.com/EliCDavis/polyform/math/trs"
	"github.com/EliCDavis/polyform/modeling"
	"github.com/EliCDavis/polyform/modeling/meshops"
	"github.com/EliCDavis/polyform/modeling/primitives"
	"github.com/EliCDavis/polyform/modeling/repeat"
	"github.com/EliCDavis/vector/vector2"
	"github.com/EliCDavis/vector/vector3"
	"github.com/EliCDavis/vector/vector4"
	"pgregory.net/rapid"

	"verifharness/internal/gen"
)

type Op struct {
	K string        // operation kind
	A int           // first pool pick (mod pool size)
	B int           // second pool pick / eviction slot
	P []float64     `json:",omitempty"` // numeric parameters
	M *gen.MeshDesc `json:",omitempty"` // fresh mesh
	X []int         `json:",omitempty"` // integer parameters (indices)
}

// Kinds lists the operation kinds (sources repeated to weight them).
var Kinds = []string{
	"fresh", "fresh", "prim",
	"append", "append", "append", "translate", "scale", "rotate", "applytrs",
	"set1", "set2", "set3", "set4", "setdata3", "modify1", "modify2", "modify3", "modify3par", "modify1par", "modify2par",
	"copy3", "copy1", "setidx", "setmat", "setmats", "topc", "weld",
	"unweld", "unref", "nullfaces", "flip", "smooth", "smoothweld", "flat", "laplacian", "laplacianaxis",
	"scaleattr", "scalealongnormal", "translateattr", "rotateattr", "center", "normalize",
	"filter1", "filter3", "crop", "split", "repeat", "slice", "vertexcolor",
	"export-ply", "export-obj", "export-mtl", "export-gltf", "export-stl", "scan",
	// second catalogue (added after a statement-coverage measurement of the anchored files showed
	// these public entry points were never entered): the Transformer structs, the 2- and 4-component
	// variants, line topologies, the remaining primitives, the remaining scans, glTF with materials
	"fresh-line", "prim2", "copy2", "copy4", "clearattr", "filter2", "filter4", "normalize2", "scale2", "colorgrade",
	"tf", "tf", "tf", "tf", "scan2", "export-gltf-mat", "modifydefault", "weldnormal",
}

// TfCount is the number of Transformer structs "tf" chooses from (Op.X[0]).
const TfCount = 25

// Gen draws one operation.
func Gen(t *rapid.T) Op {
	k := rapid.SampledFrom(Kinds).Draw(t, "op")
	op := Op{K: k, A: rapid.IntRange(0, 7).Draw(t, "a"), B: rapid.IntRange(0, 7).Draw(t, "b")}
	Fill(t, &op)
	return op
}

// Fill draws the kind-specific fields of op (used by Gen, and by callers that re-draw the kind).
func Fill(t *rapid.T, opp *Op) {
	op := *opp
	defer func() { *opp = op }()
	k := op.K
	op.P, op.X, op.M = nil, nil, nil
	switch k {
	case "fresh":
		var val *rapid.Generator[float64]
		if rapid.IntRange(0, 7).Draw(t, "specialValues") == 0 {
			val = gen.SpecialVal() // NaN, infinities, -0, extreme magnitudes: raw scan data contains them
		}
		d := gen.Mesh(t, gen.MeshOpts{MaxN: 6, MaxPrims: 4, NeedPos: rapid.IntRange(0, 3).Draw(t, "needpos") > 0, Materials: true, DupPos: true, Val: val,
			Attrs: []gen.AttrSpec{{Name: modeling.PositionAttribute, Arity: 3}, {Name: modeling.NormalAttribute, Arity: 3}, {Name: modeling.TexCoordAttribute, Arity: 2},
				{Name: modeling.ColorAttribute, Arity: 3}, {Name: "w", Arity: 1}, {Name: modeling.RotationAttribute, Arity: 4},
				// the same names again in another dimension (Color as RGB in one mesh and RGBA in another)
				{Name: modeling.ColorAttribute, Arity: 4}, {Name: "w", Arity: 3}}}, "m")
		op.M = &d
	case "prim":
		op.X = []int{rapid.IntRange(0, 6).Draw(t, "prim"), rapid.IntRange(2, 5).Draw(t, "r"), rapid.IntRange(3, 6).Draw(t, "c")}
	case "prim2":
		op.X = []int{rapid.IntRange(0, 7).Draw(t, "prim2"), rapid.IntRange(2, 5).Draw(t, "r"), rapid.IntRange(3, 6).Draw(t, "c"), rapid.IntRange(0, 7).Draw(t, "opts")}
	case "fresh-line":
		d := gen.Mesh(t, gen.MeshOpts{MaxN: 6, MaxPrims: 4, NeedPos: rapid.IntRange(0, 3).Draw(t, "needpos") > 0, DupPos: true,
			Topos: []modeling.Topology{modeling.LineTopology, modeling.LineStripTopology, modeling.LineLoopTopology, modeling.QuadTopology},
			Attrs: []gen.AttrSpec{{Name: modeling.PositionAttribute, Arity: 3}, {Name: modeling.NormalAttribute, Arity: 3}, {Name: modeling.TexCoordAttribute, Arity: 2},
				{Name: "w", Arity: 1}, {Name: modeling.RotationAttribute, Arity: 4}}}, "m")
		op.M = &d
	case "tf":
		op.X = []int{rapid.IntRange(0, TfCount-1).Draw(t, "tf"), rapid.IntRange(0, 2).Draw(t, "attrname")}
		for j := 0; j < 4; j++ {
			op.P = append(op.P, float64(rapid.IntRange(-16, 16).Draw(t, "p"))/4)
		}
	case "setidx":
		op.X = rapid.SliceOfN(rapid.IntRange(0, 5), 0, 9).Draw(t, "ix")
	case "setmats":
		m := rapid.IntRange(0, 3).Draw(t, "nmats")
		for j := 0; j < m; j++ {
			op.X = append(op.X, rapid.IntRange(0, 4).Draw(t, "cnt"), rapid.IntRange(-1, 3).Draw(t, "mat"))
		}
	default:
		for j := 0; j < 4; j++ {
			op.P = append(op.P, float64(rapid.IntRange(-16, 16).Draw(t, "p"))/4)
		}
	}
}

func p(op Op, i int) float64 {
	if i < len(op.P) {
		return op.P[i]
	}
	return 0
}

func prim(op Op) modeling.Mesh {
	x := append(append([]int{}, op.X...), 0, 2, 3)
	r, c := x[1], x[2]
	if r < 2 {
		r = 2
	}
	if c < 3 {
		c = 3
	}
	switch x[0] {
	case 0:
		return primitives.Cube{Width: 1, Height: 2, Depth: 3}.Welded() // shares a package-level index slice
	case 1:
		return primitives.Cube{Width: 1, Height: 2, Depth: 3, UVs: primitives.DefaultCubeUVs()}.UnweldedQuads()
	case 2:
		return primitives.Quad{Width: 1, Depth: 2}.ToMesh()
	case 3:
		return primitives.UVSphere(1, r, c)
	case 4:
		return primitives.Cylinder{Sides: c, Height: 1, Radius: 1}.ToMesh()
	case 5:
		return primitives.Circle{Sides: c, Radius: 1}.ToMesh()
	default:
		return primitives.UnitCube()
	}
}

func prim2(op Op) modeling.Mesh {
	x := append(append([]int{}, op.X...), 0, 2, 3, 0)
	r, c, o := x[1], x[2], x[3]
	if r < 2 {
		r = 2
	}
	if c < 3 {
		c = 3
	}
	circ := &primitives.CircleUVs{Center: vector2.New(0.5, 0.5), Radius: 0.5}
	strip := &primitives.StripUVs{Start: vector2.New(0., 0.5), End: vector2.New(1., 0.5), Width: 0.5}
	switch x[0] {
	case 0:
		return primitives.Hemisphere{Radius: 1, Capped: o&1 == 1}.UV(r, c)
	case 1:
		return primitives.UVSphereUnwelded(1.5, r, c)
	case 2:
		return primitives.Cone{Height: 2, Radius: 1, Sides: c}.ToMesh()
	case 3:
		return primitives.Circle{Sides: c, Radius: 2, UVs: circ}.ToMesh()
	case 4:
		uv := &primitives.CylinderUVs{}
		if o&1 == 1 {
			uv.Top = circ
		}
		if o&2 == 2 {
			uv.Bottom = circ
		}
		if o&4 == 4 {
			uv.Side = strip
		}
		return primitives.Cylinder{Sides: c, Height: 1, Radius: 1, NoTop: r%2 == 0, NoBottom: r%3 == 0, UVs: uv}.ToMesh()
	case 5:
		return primitives.Quad{Width: 1, Depth: 2, UVs: strip}.ToMesh()
	case 6:
		return primitives.Cube{Width: 1, Height: 2, Depth: 3, UVs: primitives.DefaultCubeUVs()}.Welded()
	default:
		return primitives.Cube{Width: 1, Height: 2, Depth: 3}.UnweldedQuads()
	}
}

// Lut is a 256 x 16 colour-grading table (16 cells of 16 x 16) with a non-trivial mapping.
var Lut = func() image.Image {
	img := image.NewRGBA(image.Rect(0, 0, 256, 16))
	for x := 0; x < 256; x++ {
		for y := 0; y < 16; y++ {
			img.Set(x, y, color.RGBA{R: uint8(255 - x), G: uint8(y * 17), B: uint8(x / 16 * 17), A: 255})
		}
	}
	return img
}()

// TfBase names, for transformer k, the catalogue operation with the same precondition.
var TfBase = []string{"center", "colorgrade", "crop", "custom", "filter1", "filter2", "filter3", "filter4", "flat", "flip", "laplacian",
	"normalize", "normalize2", "nullfaces", "unref", "rotateattr-pos", "scaleattr", "scalealongnormal", "scale2", "slice", "slice", "smooth", "smoothweld",
	"translateattr-pos", "unweld"}

// Tf builds transformer k. name 0: the attribute is left blank (documented fall-back), 1: the
// usual attribute spelled out, 2: blank padded with spaces (also the fall-back).
func Tf(op Op) modeling.Transformer {
	x := append(append([]int{}, op.X...), 0, 0)
	v := vector3.New(p(op, 0), p(op, 1), p(op, 2))
	q := quaternion.FromTheta(p(op, 3), vector3.New(p(op, 0), p(op, 1), 1.5))
	nm := func(usual string) string {
		switch x[1] {
		case 1:
			return usual
		case 2:
			return "  "
		}
		return ""
	}
	switch x[0] % TfCount {
	case 0:
		return meshops.CenterAttribute3DTransformer{Attribute: nm(modeling.PositionAttribute)}
	case 1:
		return meshops.ColorGradingLutTransformer{Attribute: nm(modeling.ColorAttribute), LUT: Lut}
	case 2:
		return meshops.CropAttribute3DTransformer{Attribute: nm(modeling.PositionAttribute), BoundingBox: geometry.NewAABB(v, vector3.New(6., 6, 6))}
	case 3:
		return meshops.CustomTransformer{Func: func(m modeling.Mesh) (modeling.Mesh, error) { return m.Translate(v), nil }}
	case 4: // the filters have no fall-back attribute
		return meshops.FilterFloat1Transformer{Attribute: "w", Filter: func(x float64) bool { return x >= p(op, 0) }}
	case 5:
		return meshops.FilterFloat2Transformer{Attribute: modeling.TexCoordAttribute, Filter: func(x vector2.Float64) bool { return x.X() >= p(op, 0) }}
	case 6:
		return meshops.FilterFloat3Transformer{Attribute: modeling.PositionAttribute, Filter: func(x vector3.Float64) bool { return x.X() < p(op, 0) }}
	case 7:
		return meshops.FilterFloat4Transformer{Attribute: modeling.RotationAttribute, Filter: func(x vector4.Float64) bool { return x.W() >= p(op, 0) }}
	case 8:
		return meshops.FlatNormalsTransformer{}
	case 9:
		return meshops.FlipTriangleWindingTransformer{}
	case 10:
		return meshops.LaplacianSmoothTransformer{Attribute: nm(modeling.PositionAttribute), Iterations: 2, SmoothingFactor: 0.5}
	case 11:
		return meshops.NormalizeAttribute3DTransformer{Attribute: nm(modeling.PositionAttribute)}
	case 12:
		return meshops.NormalizeAttribute2DTransformer{Attribute: nm(modeling.TexCoordAttribute)}
	case 13:
		return meshops.RemoveNullFaces3DTransformer{Attribute: nm(modeling.PositionAttribute), MinArea: 0.1}
	case 14:
		return meshops.RemovedUnreferencedVerticesTransformer{}
	case 15:
		return meshops.RotateAttribute3DTransformer{Attribute: nm(modeling.PositionAttribute), Amount: q}
	case 16:
		return meshops.ScaleAttribute3DTransformer{Attribute: nm(modeling.PositionAttribute), Origin: vector3.New(1., 0, 0), Amount: v}
	case 17:
		return meshops.ScaleAttributeAlongNormalTransformer{AttributeToScale: nm(modeling.PositionAttribute), NormalAttribute: nm(modeling.NormalAttribute), Amount: p(op, 0)}
	case 18:
		return meshops.ScaleAttribute2DTransformer{Attribute: nm(modeling.TexCoordAttribute), Origin: vector2.New(0.5, 0.5), Amount: vector2.New(p(op, 0), p(op, 1))}
	case 19, 20:
		side := meshops.AbovePlane
		if x[0]%TfCount == 20 {
			side = meshops.BelowPlane
		}
		return meshops.SliceByPlaneTransformer{Attribute: nm(modeling.PositionAttribute), SliceToKeep: side,
			Plane: geometry.NewPlaneFromPoints(v, v.Add(vector3.Right[float64]()), v.Add(vector3.Forward[float64]()))}
	case 21:
		return meshops.SmoothNormalsTransformer{}
	case 22:
		return meshops.SmoothNormalsImplicitWeldTransformer{Distance: 0.01}
	case 23:
		return meshops.TranslateAttribute3DTransformer{Attribute: nm(modeling.PositionAttribute), Amount: v}
	default:
		return meshops.UnweldTransformer{}
	}
}

// apply executes one operation; results are returned (possibly several for split).
// Apply executes one operation; results are returned (several for split / slice, none for exports).
func Apply(op Op, a, b modeling.Mesh) []modeling.Mesh {
	n := a.AttributeLength()
	v := vector3.New(p(op, 0), p(op, 1), p(op, 2))
	q := quaternion.FromTheta(p(op, 3), vector3.New(p(op, 0), p(op, 1), 1.5))
	one := func(m modeling.Mesh) []modeling.Mesh { return []modeling.Mesh{m} }
	switch op.K {
	case "fresh":
		return one(op.M.Build())
	case "prim":
		return one(prim(op))
	case "append":
		return one(a.Append(b))
	case "translate":
		return one(a.Translate(v))
	case "scale":
		return one(a.Scale(v))
	case "rotate":
		return one(a.Rotate(q))
	case "applytrs":
		return one(a.ApplyTRS(trs.New(v, q, vector3.New(2., 1, 0.5))))
	case "set1":
		d := make([]float64, n)
		for i := range d {
			d[i] = p(op, 0) + float64(i)
		}
		return one(a.SetFloat1Attribute("w", d))
	case "set2":
		d := make([]vector2.Float64, n)
		for i := range d {
			d[i] = vector2.New(p(op, 0), float64(i))
		}
		return one(a.SetFloat2Attribute(modeling.TexCoordAttribute, d))
	case "set3":
		d := make([]vector3.Float64, n)
		for i := range d {
			d[i] = v.Scale(float64(i))
		}
		name := []string{modeling.PositionAttribute, modeling.NormalAttribute, "extra"}[(int(p(op, 3)*4)%3+3)%3]
		return one(a.SetFloat3Attribute(name, d))
	case "set4":
		d := make([]vector4.Float64, n)
		for i := range d {
			d[i] = vector4.New(p(op, 0), p(op, 1), p(op, 2), float64(i))
		}
		return one(a.SetFloat4Attribute(modeling.RotationAttribute, d))
	case "setdata3":
		d := make([]vector3.Float64, n)
		for i := range d {
			d[i] = v.Scale(float64(i + 1))
		}
		return one(a.SetFloat3Data(map[string][]vector3.Float64{modeling.PositionAttribute: d}))
	case "modify1":
		return one(a.ModifyFloat1Attribute("w", func(i int, x float64) float64 { return x + p(op, 0) }))
	case "modify1par":
		return one(a.ModifyFloat1AttributeParallelWithPoolSize("w", 3, func(i int, x float64) float64 { return x + p(op, 0) }))
	case "modify2":
		return one(a.ModifyFloat2Attribute(modeling.TexCoordAttribute, func(i int, x vector2.Float64) vector2.Float64 { return x.Scale(2) }))
	case "modify2par":
		return one(a.ModifyFloat2AttributeParallelWithPoolSize(modeling.TexCoordAttribute, 2, func(i int, x vector2.Float64) vector2.Float64 { return x.Scale(2) }))
	case "modify3":
		return one(a.ModifyFloat3Attribute(modeling.PositionAttribute, func(i int, x vector3.Float64) vector3.Float64 { return x.Add(v) }))
	case "modify3par":
		return one(a.ModifyFloat3AttributeParallelWithPoolSize(modeling.PositionAttribute, 3, func(i int, x vector3.Float64) vector3.Float64 { return x.Add(v) }))
	case "copy3":
		return one(a.CopyFloat3Attribute(b, modeling.PositionAttribute))
	case "copy1":
		return one(a.CopyFloat1Attribute(b, "w"))
	case "setidx":
		idx := []int{}
		for _, x := range op.X {
			if n > 0 {
				idx = append(idx, x%n)
			}
		}
		if a.Topology() == modeling.TriangleTopology {
			idx = idx[:len(idx)/3*3]
		}
		return one(a.SetIndices(idx))
	case "setmat":
		if op.A%3 == 0 {
			return one(a.SetMaterial(*gen.SpacedMaterials[op.B%2]))
		}
		if op.A%3 == 1 {
			return one(a.SetMaterial(*gen.TexturedMaterial(op.B)))
		}
		return one(a.SetMaterial(*gen.MaterialPool[op.B%4]))
	case "setmats":
		var ms []modeling.MeshMaterial
		for i := 0; i+1 < len(op.X); i += 2 {
			mm := modeling.MeshMaterial{PrimitiveCount: op.X[i]}
			if op.X[i+1] >= 0 {
				mm.Material = gen.MaterialPool[op.X[i+1]%4]
				if (op.A+i)%3 == 0 { // a shared pointer to a material whose name contains spaces
					mm.Material = gen.SpacedMaterials[op.X[i+1]%2]
				}
				if (op.A+i)%3 == 1 { // colours and texture URIs (Windows separators, spaces)
					mm.Material = gen.TexturedMaterial(op.X[i+1])
				}
			}
			ms = append(ms, mm)
		}
		return one(a.SetMaterials(ms))
	case "topc":
		return one(a.ToPointCloud())
	case "weld":
		return one(a.WeldByFloat3Attribute(modeling.PositionAttribute, (int(p(op, 0))%4+4)%4))
	case "weldnormal": // welding on an attribute other than the position (normals of a faceted model, colours)
		return one(a.WeldByFloat3Attribute(modeling.NormalAttribute, (int(p(op, 0))%4+4)%4))
	case "unweld":
		return one(meshops.Unweld(a))
	case "unref":
		return one(meshops.RemovedUnreferencedVertices(a))
	case "nullfaces":
		return one(meshops.RemoveNullFaces3D(a, modeling.PositionAttribute, 0.1))
	case "flip":
		return one(meshops.FlipTriangleWinding(a))
	case "smooth":
		return one(meshops.SmoothNormals(a))
	case "smoothweld":
		return one(meshops.SmoothNormalsImplicitWeld(a, 0.01))
	case "flat":
		return one(meshops.FlatNormals(a))
	case "laplacian":
		return one(meshops.LaplacianSmooth(a, modeling.PositionAttribute, 2, 0.5))
	case "laplacianaxis":
		return one(meshops.LaplacianSmoothAlongAxis(a, modeling.PositionAttribute, 1, 0.5, vector3.Up[float64]()))
	case "scaleattr":
		return one(meshops.ScaleAttribute3D(a, modeling.PositionAttribute, vector3.New(1., 0, 0), v))
	case "scalealongnormal":
		return one(meshops.ScaleAttributeAlongNormal(a, modeling.PositionAttribute, modeling.NormalAttribute, p(op, 0)))
	case "translateattr":
		return one(meshops.TranslateAttribute3D(a, modeling.NormalAttribute, v))
	case "rotateattr":
		return one(meshops.RotateAttribute3D(a, modeling.NormalAttribute, q))
	case "center":
		return one(meshops.CenterFloat3Attribute(a, modeling.PositionAttribute))
	case "normalize":
		return one(meshops.NormalizeAttribute3D(a, modeling.PositionAttribute))
	case "filter1":
		return one(meshops.FilterFloat1(a, "w", func(x float64) bool { return x >= p(op, 0) }))
	case "filter3":
		return one(meshops.FilterFloat3(a, modeling.PositionAttribute, func(x vector3.Float64) bool { return x.X() < p(op, 0) }))
	case "crop":
		return one(meshops.CropFloat3Attribute(a, modeling.PositionAttribute, geometry.NewAABB(v, vector3.New(6., 6, 6))))
	case "split":
		return meshops.SplitOnUniqueMaterials(a)
	case "repeat":
		return one(repeat.Mesh(a, []trs.TRS{trs.Position(v), trs.New(v.Scale(2), q, vector3.One[float64]())}))
	case "slice":
		x, y := meshops.SliceByPlaneWithAttribute(a, geometry.NewPlaneFromPoints(v, v.Add(vector3.Right[float64]()), v.Add(vector3.Forward[float64]())), modeling.PositionAttribute)
		return []modeling.Mesh{x, y}
	case "vertexcolor":
		return one(meshops.VertexColorSpace(a, modeling.ColorAttribute, meshops.VertexColorSpaceSRGBToLinear))
	case "fresh-line":
		return one(op.M.Build())
	case "prim2":
		return one(prim2(op))
	case "copy2":
		return one(a.CopyFloat2Attribute(b, modeling.TexCoordAttribute))
	case "copy4":
		return one(a.CopyFloat4Attribute(b, modeling.RotationAttribute))
	case "clearattr":
		return one(a.ClearAttributeData())
	case "filter2":
		return one(meshops.FilterFloat2(a, modeling.TexCoordAttribute, func(x vector2.Float64) bool { return x.X() >= p(op, 0) }))
	case "filter4":
		return one(meshops.FilterFloat4(a, modeling.RotationAttribute, func(x vector4.Float64) bool { return x.W() >= p(op, 0) }))
	case "normalize2":
		return one(meshops.NormalizeAttribute2D(a, modeling.TexCoordAttribute))
	case "scale2":
		return one(meshops.ScaleAttribute2D(a, modeling.TexCoordAttribute, vector2.New(0.5, 0.5), vector2.New(p(op, 0), p(op, 1))))
	case "colorgrade":
		return one(meshops.ColorGradingLut(a, Lut, modeling.ColorAttribute))
	case "tf":
		r, err := Tf(op).Transform(a)
		if err != nil {
			return nil
		}
		return one(r)
	case "modifydefault": // the variants that size their worker pool themselves
		r := a
		if r.HasFloat3Attribute(modeling.PositionAttribute) {
			r = r.ModifyFloat3AttributeParallel(modeling.PositionAttribute, func(i int, x vector3.Float64) vector3.Float64 { return x.Add(v) })
		}
		if r.HasFloat2Attribute(modeling.TexCoordAttribute) {
			r = r.ModifyFloat2AttributeParallel(modeling.TexCoordAttribute, func(i int, x vector2.Float64) vector2.Float64 { return x.Scale(2) })
		}
		if r.HasFloat1Attribute("w") {
			r = r.ModifyFloat1AttributeParallel("w", func(i int, x float64) float64 { return x + p(op, 0) })
		}
		return one(r)
	case "scan2":
		for _, name := range a.Float1Attributes() {
			a.ScanFloat1Attribute(name, func(i int, v float64) {})
			a.ScanFloat1AttributeParallel(name, func(i int, v float64) {})
			a.ScanFloat1AttributeParallelWithPoolSize(name, 3, func(i int, v float64) {})
		}
		for _, name := range a.Float2Attributes() {
			a.ScanFloat2Attribute(name, func(i int, v vector2.Float64) {})
			a.ScanFloat2AttributeParallel(name, func(i int, v vector2.Float64) {})
			a.ScanFloat2AttributeParallelWithPoolSize(name, 2, func(i int, v vector2.Float64) {})
		}
		for _, name := range a.Float3Attributes() {
			a.ScanFloat3AttributeParallel(name, func(i int, v vector3.Float64) {})
			a.ScanFloat3AttributeParallelWithPoolSize(name, 5, func(i int, v vector3.Float64) {})
		}
		for _, name := range a.Float4Attributes() {
			a.ScanFloat4Attribute(name, func(i int, v vector4.Float64) {})
		}
		a.ScanPrimitivesParallel(func(i int, p modeling.Primitive) {})
		a.ScanPrimitivesParallelWithPoolSize(3, func(i int, p modeling.Primitive) {})
		if a.HasFloat3Attribute(modeling.PositionAttribute) {
			a.OctTreeDepth(2)
			a.OctTreeWithAttributeAndDepth(modeling.PositionAttribute, 1)
		}
		a.HasVertexAttribute("w")
		if a.Topology() == modeling.LineStripTopology {
			for i := 0; i < a.PrimitiveCount(); i++ {
				a.LineStrip(i)
			}
		}
	case "export-gltf-mat":
		mat := GltfMaterial(op.B)
		sc := gltf.PolyformScene{Models: []gltf.PolyformModel{{Name: "x", Mesh: &a, Material: mat}, {Name: "y", Mesh: &b, Material: mat}, {Name: "z", Mesh: &a, Material: GltfMaterial(op.B + 1)}}}
		gltf.WriteBinary(sc, io.Discard)
		gltf.WriteText(sc, io.Discard)
	case "export-ply":
		ply.Write(io.Discard, a, ply.ASCII)
		ply.Write(io.Discard, a, ply.BinaryLittleEndian)
		ply.Write(io.Discard, a, ply.BinaryBigEndian)
	case "export-obj":
		obj.WriteMesh(a, "", io.Discard)
	case "export-mtl":
		obj.WriteMaterialsFromMesh(a, io.Discard)
		obj.WriteMaterials(b.Materials(), io.Discard)
	case "export-gltf":
		sc := gltf.PolyformScene{Models: []gltf.PolyformModel{{Name: "x", Mesh: &a}, {Name: "y", Mesh: &b}}}
		gltf.WriteBinary(sc, io.Discard)
		gltf.WriteText(sc, io.Discard)
	case "export-stl":
		stl.WriteMesh(io.Discard, a)
	case "scan":
		a.ScanFloat3Attribute(modeling.PositionAttribute, func(i int, v vector3.Float64) {})
		a.ScanPrimitives(func(i int, p modeling.Primitive) {})
		a.VertexNeighborTable()
		a.OctTree()
		// read-only accessors must not write either
		for _, name := range a.Float3Attributes() {
			a.BoundingBox(name)
		}
		for i := 0; i < a.PrimitiveCount() && a.Topology() == modeling.TriangleTopology; i++ {
			tri := a.Tri(i)
			tri.Bounds()
			tri.Plane(modeling.PositionAttribute)
			tri.Area3D(modeling.PositionAttribute)
			tri.UniqueVertices()
		}
		a.Materials()
		a.AttributeLength()
	}
	return nil
}

// Pre describes the documented/observed precondition of an operation on (a, b).
// ok: the precondition holds. checked: the library itself checks it and reports failure
// (so the operation may be attempted with the precondition unmet).
func Pre(op Op, a, b modeling.Mesh) (ok, checked bool) {
	hasPos := a.HasFloat3Attribute(modeling.PositionAttribute)
	hasNrm := a.HasFloat3Attribute(modeling.NormalAttribute)
	tri := a.Topology() == modeling.TriangleTopology
	pt := a.Topology() == modeling.PointTopology
	switch op.K {
	case "fresh", "prim", "set1", "set2", "set3", "set4", "setidx", "setmat", "setmats", "topc", "unweld", "unref":
		return true, true
	case "append":
		return a.Topology() == b.Topology(), true
	case "translate", "scale", "rotate", "applytrs", "modify3", "modify3par", "scaleattr", "center", "normalize", "repeat":
		return hasPos, true
	case "setdata3":
		return true, true
	case "modify1", "modify1par":
		return a.HasFloat1Attribute("w"), true
	case "modify2", "modify2par":
		return a.HasFloat2Attribute(modeling.TexCoordAttribute), true
	case "copy3":
		return b.HasFloat3Attribute(modeling.PositionAttribute) && copyFits(a, b), false
	case "copy1":
		return b.HasFloat1Attribute("w") && copyFits(a, b), false
	case "weld", "nullfaces", "smooth", "smoothweld", "flat":
		return tri && hasPos, true
	case "weldnormal":
		return tri && hasNrm, true
	case "flip":
		return tri, true
	case "laplacian", "laplacianaxis": // the neighbour table exists for triangles and the three line topologies
		t := a.Topology()
		return (tri || t == modeling.LineTopology || t == modeling.LineStripTopology || t == modeling.LineLoopTopology) && hasPos, true
	case "scalealongnormal":
		return hasPos && hasNrm, true
	case "translateattr", "rotateattr":
		return hasNrm, true
	case "filter1":
		return pt && a.HasFloat1Attribute("w"), false
	case "filter3":
		return pt && hasPos, false
	case "crop":
		return pt && hasPos, true
	case "split":
		if !tri {
			return len(a.Materials()) < 2, true
		}
		total := 0
		for _, m := range a.Materials() {
			if m.Material == nil || m.PrimitiveCount < 0 {
				return false, false
			}
			total += m.PrimitiveCount
		}
		return len(a.Materials()) < 2 || total == a.PrimitiveCount(), false
	case "slice": // the function checks the topology (RequireTopology) but reads the attribute through unchecked accessors
		return tri && hasPos, hasPos
	case "vertexcolor", "colorgrade":
		return a.HasFloat3Attribute(modeling.ColorAttribute), true
	case "fresh-line", "prim2":
		return true, true
	case "copy2":
		return b.HasFloat2Attribute(modeling.TexCoordAttribute) && copyFits(a, b), false
	case "copy4":
		return b.HasFloat4Attribute(modeling.RotationAttribute) && copyFits(a, b), false
	case "clearattr": // a builder step: the indices stay while the vertices go - not an operation that returns a finished mesh
		return false, false
	case "filter2":
		return pt && a.HasFloat2Attribute(modeling.TexCoordAttribute), false
	case "filter4":
		return pt && a.HasFloat4Attribute(modeling.RotationAttribute), false
	case "normalize2", "scale2":
		return a.HasFloat2Attribute(modeling.TexCoordAttribute), true
	case "modifydefault":
		return true, true
	case "rotateattr-pos", "translateattr-pos":
		return hasPos, true
	case "custom":
		return hasPos, true
	case "tf":
		x := append(append([]int{}, op.X...), 0)
		return Pre(Op{K: TfBase[x[0]%TfCount]}, a, b)
	}
	return false, false
}

// GltfMaterial builds a glTF material (colours, a texture with a sampler, an extension) - fresh
// pointers on every call, so that a writer that edits what it is handed shows in the mesh snapshots
// only through the meshes, never through a shared pool.
func GltfMaterial(k int) *gltf.PolyformMaterial {
	if k%4 == 0 {
		return nil
	}
	rough, metal := 0.25*float64(k%5), 0.5
	m := &gltf.PolyformMaterial{Name: []string{"plain", "with space", "tex"}[k%3],
		PbrMetallicRoughness: &gltf.PolyformPbrMetallicRoughness{BaseColorFactor: color.RGBA{R: uint8(40 * k), G: 128, B: 255, A: 255}, RoughnessFactor: &rough, MetallicFactor: &metal}}
	if k%2 == 1 {
		m.PbrMetallicRoughness.BaseColorTexture = &gltf.PolyformTexture{URI: "tex\\a b.png", Sampler: &gltf.Sampler{WrapS: gltf.SamplerWrap_REPEAT}}
		m.NormalTexture = &gltf.PolyformNormal{PolyformTexture: &gltf.PolyformTexture{URI: "n.png"}}
	}
	return m
}

// copyFits: copying an attribute array of b into a keeps a well-formed only when the lengths
// agree (or a has no attribute at all and no indices) - the implicit precondition of Copy*/Set*.
func copyFits(a, b modeling.Mesh) bool {
	na := len(a.Float1Attributes()) + len(a.Float2Attributes()) + len(a.Float3Attributes()) + len(a.Float4Attributes())
	if na == 0 {
		return a.Indices().Len() == 0
	}
	return a.AttributeLength() == b.AttributeLength()
}
