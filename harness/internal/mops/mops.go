// Package mops is the catalogue of public mesh operations shared by the C01 (immutability) and
// C02 (well-formedness closure) machines: a serialisable Op, its generator, its application and
// the documented precondition of each operation.
package mops

import (
	"io"

	"github.com/EliCDavis/polyform/formats/gltf"
	"github.com/EliCDavis/polyform/formats/obj"
	"github.com/EliCDavis/polyform/formats/ply"
	"github.com/EliCDavis/polyform/formats/stl"
	"github.com/EliCDavis/polyform/math/geometry"
	"github.com/EliCDavis/polyform/math/quaternion"
	"github.com/EliCDavis/polyform/math/trs"
	"github.com/EliCDavis/polyform/modeling"
	"github.com/EliCDavis/polyform/modeling/meshops"
	"github.com/EliCDavis/polyform/modeling/primitives"
	"github.com/EliCDavis/polyform/modeling/repeat"
	"github.com/EliCDavis/vector/vector2"
	"github.com/EliCDavis/vector/vector3"
	"github.com/EliCDavis/vector/vector4"
	"pgregory.net/rapid"

	"verifharness/internal/gen"
)

type Op struct {
	K string        // operation kind
	A int           // first pool pick (mod pool size)
	B int           // second pool pick / eviction slot
	P []float64     `json:",omitempty"` // numeric parameters
	M *gen.MeshDesc `json:",omitempty"` // fresh mesh
	X []int         `json:",omitempty"` // integer parameters (indices)
}

// Kinds lists the operation kinds (sources repeated to weight them).
var Kinds = []string{
	"fresh", "fresh", "prim",
	"append", "append", "append", "translate", "scale", "rotate", "applytrs",
	"set1", "set2", "set3", "set4", "setdata3", "modify1", "modify2", "modify3", "modify3par", "modify1par", "modify2par",
	"copy3", "copy1", "setidx", "setmat", "setmats", "topc", "weld",
	"unweld", "unref", "nullfaces", "flip", "smooth", "smoothweld", "flat", "laplacian", "laplacianaxis",
	"scaleattr", "scalealongnormal", "translateattr", "rotateattr", "center", "normalize",
	"filter1", "filter3", "crop", "split", "repeat", "slice", "vertexcolor",
	"export-ply", "export-obj", "export-mtl", "export-gltf", "export-stl", "scan",
}

// Gen draws one operation.
func Gen(t *rapid.T) Op {
	k := rapid.SampledFrom(Kinds).Draw(t, "op")
	op := Op{K: k, A: rapid.IntRange(0, 7).Draw(t, "a"), B: rapid.IntRange(0, 7).Draw(t, "b")}
	switch k {
	case "fresh":
		var val *rapid.Generator[float64]
		if rapid.IntRange(0, 7).Draw(t, "specialValues") == 0 {
			val = gen.SpecialVal() // NaN, infinities, -0, extreme magnitudes: raw scan data contains them
		}
		d := gen.Mesh(t, gen.MeshOpts{MaxN: 6, MaxPrims: 4, NeedPos: rapid.IntRange(0, 3).Draw(t, "needpos") > 0, Materials: true, DupPos: true, Val: val,
			Attrs: []gen.AttrSpec{{Name: modeling.PositionAttribute, Arity: 3}, {Name: modeling.NormalAttribute, Arity: 3}, {Name: modeling.TexCoordAttribute, Arity: 2},
				{Name: modeling.ColorAttribute, Arity: 3}, {Name: "w", Arity: 1}, {Name: modeling.RotationAttribute, Arity: 4},
				// the same names again in another dimension (Color as RGB in one mesh and RGBA in another)
				{Name: modeling.ColorAttribute, Arity: 4}, {Name: "w", Arity: 3}}}, "m")
		op.M = &d
	case "prim":
		op.X = []int{rapid.IntRange(0, 6).Draw(t, "prim"), rapid.IntRange(2, 5).Draw(t, "r"), rapid.IntRange(3, 6).Draw(t, "c")}
	case "setidx":
		op.X = rapid.SliceOfN(rapid.IntRange(0, 5), 0, 9).Draw(t, "ix")
	case "setmats":
		m := rapid.IntRange(0, 3).Draw(t, "nmats")
		for j := 0; j < m; j++ {
			op.X = append(op.X, rapid.IntRange(0, 4).Draw(t, "cnt"), rapid.IntRange(-1, 3).Draw(t, "mat"))
		}
	default:
		for j := 0; j < 4; j++ {
			op.P = append(op.P, float64(rapid.IntRange(-16, 16).Draw(t, "p"))/4)
		}
	}
	return op
}

func p(op Op, i int) float64 {
	if i < len(op.P) {
		return op.P[i]
	}
	return 0
}

func prim(op Op) modeling.Mesh {
	x := append(append([]int{}, op.X...), 0, 2, 3)
	r, c := x[1], x[2]
	if r < 2 {
		r = 2
	}
	if c < 3 {
		c = 3
	}
	switch x[0] {
	case 0:
		return primitives.Cube{Width: 1, Height: 2, Depth: 3}.Welded() // shares a package-level index slice
	case 1:
		return primitives.Cube{Width: 1, Height: 2, Depth: 3, UVs: primitives.DefaultCubeUVs()}.UnweldedQuads()
	case 2:
		return primitives.Quad{Width: 1, Depth: 2}.ToMesh()
	case 3:
		return primitives.UVSphere(1, r, c)
	case 4:
		return primitives.Cylinder{Sides: c, Height: 1, Radius: 1}.ToMesh()
	case 5:
		return primitives.Circle{Sides: c, Radius: 1}.ToMesh()
	default:
		return primitives.UnitCube()
	}
}

// apply executes one operation; results are returned (possibly several for split).
// Apply executes one operation; results are returned (several for split / slice, none for exports).
func Apply(op Op, a, b modeling.Mesh) []modeling.Mesh {
	n := a.AttributeLength()
	v := vector3.New(p(op, 0), p(op, 1), p(op, 2))
	q := quaternion.FromTheta(p(op, 3), vector3.New(p(op, 0), p(op, 1), 1.5))
	one := func(m modeling.Mesh) []modeling.Mesh { return []modeling.Mesh{m} }
	switch op.K {
	case "fresh":
		return one(op.M.Build())
	case "prim":
		return one(prim(op))
	case "append":
		return one(a.Append(b))
	case "translate":
		return one(a.Translate(v))
	case "scale":
		return one(a.Scale(v))
	case "rotate":
		return one(a.Rotate(q))
	case "applytrs":
		return one(a.ApplyTRS(trs.New(v, q, vector3.New(2., 1, 0.5))))
	case "set1":
		d := make([]float64, n)
		for i := range d {
			d[i] = p(op, 0) + float64(i)
		}
		return one(a.SetFloat1Attribute("w", d))
	case "set2":
		d := make([]vector2.Float64, n)
		for i := range d {
			d[i] = vector2.New(p(op, 0), float64(i))
		}
		return one(a.SetFloat2Attribute(modeling.TexCoordAttribute, d))
	case "set3":
		d := make([]vector3.Float64, n)
		for i := range d {
			d[i] = v.Scale(float64(i))
		}
		name := []string{modeling.PositionAttribute, modeling.NormalAttribute, "extra"}[(int(p(op, 3)*4)%3+3)%3]
		return one(a.SetFloat3Attribute(name, d))
	case "set4":
		d := make([]vector4.Float64, n)
		for i := range d {
			d[i] = vector4.New(p(op, 0), p(op, 1), p(op, 2), float64(i))
		}
		return one(a.SetFloat4Attribute(modeling.RotationAttribute, d))
	case "setdata3":
		d := make([]vector3.Float64, n)
		for i := range d {
			d[i] = v.Scale(float64(i + 1))
		}
		return one(a.SetFloat3Data(map[string][]vector3.Float64{modeling.PositionAttribute: d}))
	case "modify1":
		return one(a.ModifyFloat1Attribute("w", func(i int, x float64) float64 { return x + p(op, 0) }))
	case "modify1par":
		return one(a.ModifyFloat1AttributeParallelWithPoolSize("w", 3, func(i int, x float64) float64 { return x + p(op, 0) }))
	case "modify2":
		return one(a.ModifyFloat2Attribute(modeling.TexCoordAttribute, func(i int, x vector2.Float64) vector2.Float64 { return x.Scale(2) }))
	case "modify2par":
		return one(a.ModifyFloat2AttributeParallelWithPoolSize(modeling.TexCoordAttribute, 2, func(i int, x vector2.Float64) vector2.Float64 { return x.Scale(2) }))
	case "modify3":
		return one(a.ModifyFloat3Attribute(modeling.PositionAttribute, func(i int, x vector3.Float64) vector3.Float64 { return x.Add(v) }))
	case "modify3par":
		return one(a.ModifyFloat3AttributeParallelWithPoolSize(modeling.PositionAttribute, 3, func(i int, x vector3.Float64) vector3.Float64 { return x.Add(v) }))
	case "copy3":
		return one(a.CopyFloat3Attribute(b, modeling.PositionAttribute))
	case "copy1":
		return one(a.CopyFloat1Attribute(b, "w"))
	case "setidx":
		idx := []int{}
		for _, x := range op.X {
			if n > 0 {
				idx = append(idx, x%n)
			}
		}
		if a.Topology() == modeling.TriangleTopology {
			idx = idx[:len(idx)/3*3]
		}
		return one(a.SetIndices(idx))
	case "setmat":
		if op.A%3 == 0 {
			return one(a.SetMaterial(*gen.SpacedMaterials[op.B%2]))
		}
		if op.A%3 == 1 {
			return one(a.SetMaterial(*gen.TexturedMaterial(op.B)))
		}
		return one(a.SetMaterial(*gen.MaterialPool[op.B%4]))
	case "setmats":
		var ms []modeling.MeshMaterial
		for i := 0; i+1 < len(op.X); i += 2 {
			mm := modeling.MeshMaterial{PrimitiveCount: op.X[i]}
			if op.X[i+1] >= 0 {
				mm.Material = gen.MaterialPool[op.X[i+1]%4]
				if (op.A+i)%3 == 0 { // a shared pointer to a material whose name contains spaces
					mm.Material = gen.SpacedMaterials[op.X[i+1]%2]
				}
				if (op.A+i)%3 == 1 { // colours and texture URIs (Windows separators, spaces)
					mm.Material = gen.TexturedMaterial(op.X[i+1])
				}
			}
			ms = append(ms, mm)
		}
		return one(a.SetMaterials(ms))
	case "topc":
		return one(a.ToPointCloud())
	case "weld":
		return one(a.WeldByFloat3Attribute(modeling.PositionAttribute, (int(p(op, 0))%4+4)%4))
	case "unweld":
		return one(meshops.Unweld(a))
	case "unref":
		return one(meshops.RemovedUnreferencedVertices(a))
	case "nullfaces":
		return one(meshops.RemoveNullFaces3D(a, modeling.PositionAttribute, 0.1))
	case "flip":
		return one(meshops.FlipTriangleWinding(a))
	case "smooth":
		return one(meshops.SmoothNormals(a))
	case "smoothweld":
		return one(meshops.SmoothNormalsImplicitWeld(a, 0.01))
	case "flat":
		return one(meshops.FlatNormals(a))
	case "laplacian":
		return one(meshops.LaplacianSmooth(a, modeling.PositionAttribute, 2, 0.5))
	case "laplacianaxis":
		return one(meshops.LaplacianSmoothAlongAxis(a, modeling.PositionAttribute, 1, 0.5, vector3.Up[float64]()))
	case "scaleattr":
		return one(meshops.ScaleAttribute3D(a, modeling.PositionAttribute, vector3.New(1., 0, 0), v))
	case "scalealongnormal":
		return one(meshops.ScaleAttributeAlongNormal(a, modeling.PositionAttribute, modeling.NormalAttribute, p(op, 0)))
	case "translateattr":
		return one(meshops.TranslateAttribute3D(a, modeling.NormalAttribute, v))
	case "rotateattr":
		return one(meshops.RotateAttribute3D(a, modeling.NormalAttribute, q))
	case "center":
		return one(meshops.CenterFloat3Attribute(a, modeling.PositionAttribute))
	case "normalize":
		return one(meshops.NormalizeAttribute3D(a, modeling.PositionAttribute))
	case "filter1":
		return one(meshops.FilterFloat1(a, "w", func(x float64) bool { return x >= p(op, 0) }))
	case "filter3":
		return one(meshops.FilterFloat3(a, modeling.PositionAttribute, func(x vector3.Float64) bool { return x.X() < p(op, 0) }))
	case "crop":
		return one(meshops.CropFloat3Attribute(a, modeling.PositionAttribute, geometry.NewAABB(v, vector3.New(6., 6, 6))))
	case "split":
		return meshops.SplitOnUniqueMaterials(a)
	case "repeat":
		return one(repeat.Mesh(a, []trs.TRS{trs.Position(v), trs.New(v.Scale(2), q, vector3.One[float64]())}))
	case "slice":
		x, y := meshops.SliceByPlaneWithAttribute(a, geometry.NewPlaneFromPoints(v, v.Add(vector3.Right[float64]()), v.Add(vector3.Forward[float64]())), modeling.PositionAttribute)
		return []modeling.Mesh{x, y}
	case "vertexcolor":
		return one(meshops.VertexColorSpace(a, modeling.ColorAttribute, meshops.VertexColorSpaceSRGBToLinear))
	case "export-ply":
		ply.Write(io.Discard, a, ply.ASCII)
		ply.Write(io.Discard, a, ply.BinaryLittleEndian)
		ply.Write(io.Discard, a, ply.BinaryBigEndian)
	case "export-obj":
		obj.WriteMesh(a, "", io.Discard)
	case "export-mtl":
		obj.WriteMaterialsFromMesh(a, io.Discard)
		obj.WriteMaterials(b.Materials(), io.Discard)
	case "export-gltf":
		sc := gltf.PolyformScene{Models: []gltf.PolyformModel{{Name: "x", Mesh: &a}, {Name: "y", Mesh: &b}}}
		gltf.WriteBinary(sc, io.Discard)
		gltf.WriteText(sc, io.Discard)
	case "export-stl":
		stl.WriteMesh(io.Discard, a)
	case "scan":
		a.ScanFloat3Attribute(modeling.PositionAttribute, func(i int, v vector3.Float64) {})
		a.ScanPrimitives(func(i int, p modeling.Primitive) {})
		a.VertexNeighborTable()
		a.OctTree()
		// read-only accessors must not write either
		for _, name := range a.Float3Attributes() {
			a.BoundingBox(name)
		}
		for i := 0; i < a.PrimitiveCount() && a.Topology() == modeling.TriangleTopology; i++ {
			tri := a.Tri(i)
			tri.Bounds()
			tri.Plane(modeling.PositionAttribute)
			tri.Area3D(modeling.PositionAttribute)
			tri.UniqueVertices()
		}
		a.Materials()
		a.AttributeLength()
	}
	return nil
}

// Pre describes the documented/observed precondition of an operation on (a, b).
// ok: the precondition holds. checked: the library itself checks it and reports failure
// (so the operation may be attempted with the precondition unmet).
func Pre(op Op, a, b modeling.Mesh) (ok, checked bool) {
	hasPos := a.HasFloat3Attribute(modeling.PositionAttribute)
	hasNrm := a.HasFloat3Attribute(modeling.NormalAttribute)
	tri := a.Topology() == modeling.TriangleTopology
	pt := a.Topology() == modeling.PointTopology
	switch op.K {
	case "fresh", "prim", "set1", "set2", "set3", "set4", "setidx", "setmat", "setmats", "topc", "unweld", "unref":
		return true, true
	case "append":
		return a.Topology() == b.Topology(), true
	case "translate", "scale", "rotate", "applytrs", "modify3", "modify3par", "scaleattr", "center", "normalize", "repeat":
		return hasPos, true
	case "setdata3":
		return true, true
	case "modify1", "modify1par":
		return a.HasFloat1Attribute("w"), true
	case "modify2", "modify2par":
		return a.HasFloat2Attribute(modeling.TexCoordAttribute), true
	case "copy3":
		return b.HasFloat3Attribute(modeling.PositionAttribute) && copyFits(a, b), false
	case "copy1":
		return b.HasFloat1Attribute("w") && copyFits(a, b), false
	case "weld", "nullfaces", "smooth", "smoothweld", "flat":
		return tri && hasPos, true
	case "flip":
		return tri, true
	case "laplacian", "laplacianaxis": // the neighbour table exists for triangles and the three line topologies
		t := a.Topology()
		return (tri || t == modeling.LineTopology || t == modeling.LineStripTopology || t == modeling.LineLoopTopology) && hasPos, true
	case "scalealongnormal":
		return hasPos && hasNrm, true
	case "translateattr", "rotateattr":
		return hasNrm, true
	case "filter1":
		return pt && a.HasFloat1Attribute("w"), false
	case "filter3":
		return pt && hasPos, false
	case "crop":
		return pt && hasPos, true
	case "split":
		if !tri {
			return len(a.Materials()) < 2, true
		}
		total := 0
		for _, m := range a.Materials() {
			if m.Material == nil || m.PrimitiveCount < 0 {
				return false, false
			}
			total += m.PrimitiveCount
		}
		return len(a.Materials()) < 2 || total == a.PrimitiveCount(), false
	case "slice":
		return tri && hasPos, false
	case "vertexcolor":
		return a.HasFloat3Attribute(modeling.ColorAttribute), true
	}
	return false, false
}

// copyFits: copying an attribute array of b into a keeps a well-formed only when the lengths
// agree (or a has no attribute at all and no indices) - the implicit precondition of Copy*/Set*.
func copyFits(a, b modeling.Mesh) bool {
	na := len(a.Float1Attributes()) + len(a.Float2Attributes()) + len(a.Float3Attributes()) + len(a.Float4Attributes())
	if na == 0 {
		return a.Indices().Len() == 0
	}
	return a.AttributeLength() == b.AttributeLength()
}
