// Package vh is the small runtime shared by every property package of the harness: it drives
// rapid over a (generator, executable oracle) pair, replays regression and replay files through a
// plain non-rapid path, matches failures against KNOWN_FINDINGS.txt, and writes the per-shard
// statistics the ./check driver merges into /verif/evidence/<id>.json.
package vh

import (
	"bufio"
	"bytes"
	"encoding/json"
	"flag"
	"fmt"
	"hash/fnv"
	"os"
	"path/filepath"
	"runtime"
	"runtime/debug"
	"sort"
	"strconv"
	"strings"
	"sync"
	"sync/atomic"
	"testing"
	"time"

	"pgregory.net/rapid"
)

// Failure is a violation of the property found by an oracle. Sig is a narrow, deterministic
// signature (category + call site + discriminating predicate); it is what KNOWN_FINDINGS.txt
// entries are matched against and what rapid sees as the error while shrinking.
type Failure struct {
	Sig string `json:"sig"`
	Msg string `json:"msg"`
}

func Failf(sig, format string, args ...any) *Failure {
	return &Failure{Sig: sig, Msg: fmt.Sprintf(format, args...)}
}

// Concurrent runs every case alone first (a failure there is returned as it is: it is not about
// concurrency), then all of them at the same time, each on its own goroutine, rounds times. A
// failure or panic that only appears then is reported with the signature prefix "concurrent/".
// run must be a pure function of its case (fresh Obs per call; their statistics are dropped).
func Concurrent[C any](cases []C, rounds int, run func(C, *Obs) *Failure) *Failure {
	for i, c := range cases {
		if f := run(c, &Obs{}); f != nil {
			f.Msg = fmt.Sprintf("input %d, called alone: %s", i, f.Msg)
			return f
		}
	}
	fails := make([]*Failure, len(cases))
	start := make(chan struct{})
	done := make(chan struct{}, len(cases))
	for i := range cases {
		go func(i int) {
			defer func() {
				if r := recover(); r != nil {
					fails[i] = Failf("concurrent/panic", "input %d of %d concurrent callers panicked: %v (every input passes when called alone)", i, len(cases), r)
				}
				done <- struct{}{}
			}()
			<-start
			for r := 0; r < rounds && fails[i] == nil; r++ {
				if f := run(cases[i], &Obs{}); f != nil {
					fails[i] = Failf("concurrent/"+f.Sig, "input %d of %d concurrent callers, round %d (every input passes when called alone): %s", i, len(cases), r, f.Msg)
				}
			}
		}(i)
	}
	close(start)
	for range cases {
		<-done
	}
	for _, f := range fails {
		if f != nil {
			return f
		}
	}
	return nil
}

// Conc is a generated bundle of independent cases of one sub-check that are run at the same time
// (sub-check "concurrent-callers": writers, readers and pure functions must not share scratch
// state between calls; node graphs evaluate producers concurrently).
type Conc[C any] struct {
	Cases  []C
	Rounds int
}

func GenConc[C any](gen func(*rapid.T) C) func(*rapid.T) Conc[C] {
	return func(t *rapid.T) Conc[C] {
		k := rapid.IntRange(2, 5).Draw(t, "callers")
		c := Conc[C]{Rounds: rapid.IntRange(2, 5).Draw(t, "rounds")}
		for i := 0; i < k; i++ {
			c.Cases = append(c.Cases, gen(t))
		}
		return c
	}
}

func RunConc[C any](run func(C, *Obs) *Failure) func(Conc[C], *Obs) *Failure {
	return func(c Conc[C], o *Obs) *Failure {
		if len(c.Cases) < 2 || len(c.Cases) > 16 || c.Rounds < 1 || c.Rounds > 64 {
			o.Class("skipped/outside-domain")
			return nil
		}
		o.Class(fmt.Sprintf("concurrent/callers=%d", len(c.Cases)))
		o.NonTrivial()
		return Concurrent(c.Cases, c.Rounds, run)
	}
}

// TempDir creates a scratch directory next to the shard's output file (under /verif/.work, never
// under /tmp when run by the driver) and returns it with its cleanup function.
func TempDir(prefix string) (string, func(), error) {
	base := filepath.Dir(os.Getenv("VERIF_OUT"))
	if os.Getenv("VERIF_OUT") == "" {
		base = ""
	}
	dir, err := os.MkdirTemp(base, prefix)
	if err != nil {
		return "", func() {}, err
	}
	return dir, func() { os.RemoveAll(dir) }, nil
}

// Obs collects what one executed case looked like.
type Obs struct {
	classes    []string
	nontrivial bool
	counts     map[string]int
	known      map[string]int // known-finding signatures met inside the case (case continues)
	note       string
	evals      int // sub-evaluations (e.g. cut points) this case stands for; 0 = one
	subNT      int // number of distinct non-trivial sub-evaluations inside the case
}

// Evals declares that the case consisted of n evaluations (fault enumeration: n cut points).
func (o *Obs) Evals(n int) { o.evals += n }

// NonTrivialSubs declares n distinct non-trivial sub-evaluations inside this case (each counts
// towards distinct_nontrivial, keyed by case and ordinal).
func (o *Obs) NonTrivialSubs(n int) { o.subNT += n; o.nontrivial = o.nontrivial || n > 0 }

func (o *Obs) Class(name string) { o.classes = append(o.classes, name) }
func (o *Obs) NonTrivial()       { o.nontrivial = true }
func (o *Obs) Count(name string, n int) {
	if o.counts == nil {
		o.counts = map[string]int{}
	}
	o.counts[name] += n
}

// Meta describes the property a test binary decides; it is copied into the evidence file.
type Meta struct {
	ID          string
	Level       string // exploration | fault_enumeration
	Rule        string
	Assumptions []string
}

type subStats struct {
	Evaluations  int            `json:"evaluations"`
	NonTrivial   int            `json:"nontrivial_evaluations"`
	Classes      map[string]int `json:"classes"`
	Counters     map[string]int `json:"counters,omitempty"`
	Requested    int            `json:"requested"`
	RegressFiles int            `json:"regress_files"`
	Exhaustive   bool           `json:"exhaustive,omitempty"`
	WallS        float64        `json:"wall_s"`
}

type violation struct {
	Sub    string `json:"sub"`
	Sig    string `json:"sig"`
	Msg    string `json:"msg"`
	Replay string `json:"replay"`
	Flaky  bool   `json:"flaky,omitempty"`
}

type shardOut struct {
	Meta       Meta                 `json:"meta"`
	Tier       string               `json:"tier"`
	Seed       int64                `json:"seed"`
	Shard      int                  `json:"shard"`
	Shards     int                  `json:"shards"`
	Subs       map[string]*subStats `json:"subs"`
	Hashes     []string             `json:"hashes"` // distinct non-trivial case hashes
	Samples    []json.RawMessage    `json:"samples"`
	Known      map[string]int       `json:"known"` // known-finding signature -> times met
	Violations []violation          `json:"violations"`
	Notes      []string             `json:"notes,omitempty"`
	GoMaxProcs int                  `json:"gomaxprocs"`
	NumCPU     int                  `json:"numcpu"`
}

var (
	mu      sync.Mutex
	out     shardOut
	hashes  = map[uint64]int{} // distinct non-trivial case hash -> weight (sub-evaluations it stands for)
	perCls  = map[string]int{} // samples kept per class
	known   = map[string]string{}
	started bool
)

// Env of a run.
var (
	Tier   = "quick"
	Seed   int64
	Shard  int
	Shards = 1
	Dir    = "/verif"
	Replay string // replay file: only the matching sub-check executes it
	Mode   string // "" (generate) | "regress" (regression files only)
)

func envInt(k string, d int64) int64 {
	if v := os.Getenv(k); v != "" {
		if n, err := strconv.ParseInt(v, 10, 64); err == nil {
			return n
		}
	}
	return d
}

// Main is called from TestMain of every property package.
func Main(m *testing.M, meta Meta) {
	if v := os.Getenv("VERIF_TIER"); v == "thorough" {
		Tier = "thorough"
	}
	Seed = envInt("VERIF_SEED", 1)
	Shard = int(envInt("VERIF_SHARD", 0))
	Shards = int(envInt("VERIF_SHARDS", 1))
	if v := os.Getenv("VERIF_DIR"); v != "" {
		Dir = v
	}
	Replay = os.Getenv("VERIF_REPLAY")
	Mode = os.Getenv("VERIF_MODE")
	out = shardOut{Meta: meta, Tier: Tier, Seed: Seed, Shard: Shard, Shards: Shards, Subs: map[string]*subStats{},
		Known: map[string]int{}, GoMaxProcs: runtime.GOMAXPROCS(0), NumCPU: runtime.NumCPU()}
	loadKnown(meta.ID)
	started = true
	// rapid replays testdata/rapid/**.fail before generating: never wanted here.
	os.RemoveAll("testdata/rapid")
	code := m.Run()
	os.RemoveAll("testdata/rapid")
	flush()
	os.Exit(code)
}

func loadKnown(id string) {
	f, err := os.Open(filepath.Join(Dir, "KNOWN_FINDINGS.txt"))
	if err != nil {
		return
	}
	defer f.Close()
	sc := bufio.NewScanner(f)
	for sc.Scan() {
		line := strings.TrimSpace(sc.Text())
		if !strings.HasPrefix(line, "finding:") {
			continue
		}
		rest := strings.TrimSpace(strings.TrimPrefix(line, "finding:"))
		head, text, _ := strings.Cut(rest, "::")
		var prop, sig string
		for _, f := range strings.Fields(head) {
			if strings.HasPrefix(f, "property=") {
				prop = strings.TrimPrefix(f, "property=")
			}
			if strings.HasPrefix(f, "sig=") {
				sig = strings.TrimPrefix(f, "sig=")
			}
		}
		if prop == id && sig != "" {
			known[sig] = strings.TrimSpace(text)
		}
	}
}

// IsKnown reports whether sig is a listed known finding of this property.
func IsKnown(sig string) bool { _, ok := known[sig]; return ok }

// Known is called by an oracle that meets a listed known finding in the middle of a case and
// wants to continue checking the rest of the case. Returns false when sig is not listed (the
// caller must then return it as a Failure).
func (o *Obs) Known(sig string) bool {
	if !IsKnown(sig) {
		return false
	}
	if o.known == nil {
		o.known = map[string]int{}
	}
	o.known[sig]++
	return true
}

func flush() {
	mu.Lock()
	defer mu.Unlock()
	out.Hashes = out.Hashes[:0]
	for h, w := range hashes {
		if w == 1 {
			out.Hashes = append(out.Hashes, strconv.FormatUint(h, 16))
		} else {
			out.Hashes = append(out.Hashes, strconv.FormatUint(h, 16)+"*"+strconv.Itoa(w))
		}
	}
	sort.Strings(out.Hashes)
	p := os.Getenv("VERIF_OUT")
	if p == "" {
		return
	}
	b, _ := json.Marshal(out)
	os.WriteFile(p, b, 0o644)
}

// Note adds a free-text note to the evidence.
func Note(format string, args ...any) {
	mu.Lock()
	defer mu.Unlock()
	out.Notes = append(out.Notes, fmt.Sprintf(format, args...))
}

// Spec is one sub-check of a property: a generator and an executable oracle over its cases.
// C must be JSON round-trippable: a replay file is the JSON of one case.
type Spec[C any] struct {
	Name     string
	Quick    int // total cases over all shards, quick tier
	Thorough int
	Gen      func(*rapid.T) C
	Run      func(C, *Obs) *Failure
	// Key optionally gives a cheaper/more canonical distinctness key than the case's JSON.
	Key func(C) string
	// Sample optionally gives a compact rendering for evidence samples.
	Sample func(C) any
	// Repeat > 1 re-executes every replay/regression case that many times (nondeterministic oracles).
	Repeat int
	// Deadline > 0 runs every case under a watchdog: a case that does not return within the
	// deadline (several orders of magnitude above its normal cost) is reported with signature
	// "hang". The stuck goroutine is abandoned.
	Deadline time.Duration
}

func hash64(b []byte) uint64 { h := fnv.New64a(); h.Write(b); return h.Sum64() }

func sub(name string) *subStats {
	s := out.Subs[name]
	if s == nil {
		s = &subStats{Classes: map[string]int{}, Counters: map[string]int{}}
		out.Subs[name] = s
	}
	return s
}

// wedged is set once a case was abandoned as a hang: its goroutines are still alive and may hold
// locks of shared state, so no further case of this process is started.
var wedged atomic.Bool

// exec runs one case, turning an uncaught panic into a Failure (an oracle that accepts panics
// must recover them itself).
func exec[C any](s Spec[C], c C, o *Obs) (f *Failure) {
	if s.Deadline <= 0 {
		return execDirect(s, c, o)
	}
	type res struct {
		f *Failure
		o *Obs
	}
	done := make(chan res, 1)
	go func() {
		po := &Obs{}
		done <- res{execDirect(s, c, po), po}
	}()
	select {
	case r := <-done:
		*o = *r.o
		return r.f
	case <-time.After(s.Deadline):
	}
	// only a suspicion so far: a loaded machine can starve a goroutine for seconds; a call that really
	// loops never returns, so give the same call five more deadlines (at most ten more minutes)
	// before calling it a hang
	extra := 5 * s.Deadline
	if extra > 10*time.Minute {
		extra = 10 * time.Minute
	}
	select {
	case r := <-done:
		*o = *r.o
		return r.f
	case <-time.After(extra):
		wedged.Store(true)
		return Failf("hang", "case did not return within %v (far beyond its normal cost); the call does not terminate", s.Deadline+extra)
	}
}

func execDirect[C any](s Spec[C], c C, o *Obs) (f *Failure) {
	defer func() {
		if r := recover(); r != nil {
			st := string(debug.Stack())
			f = Failf("uncaught-panic", "%v\n%s", r, firstFrames(st))
		}
	}()
	return s.Run(c, o)
}

func firstFrames(st string) string {
	lines := strings.Split(st, "\n")
	var keep []string
	for _, l := range lines {
		if strings.Contains(l, "/repo/") || strings.Contains(l, "verifharness") {
			keep = append(keep, strings.TrimSpace(l))
		}
		if len(keep) >= 8 {
			break
		}
	}
	return strings.Join(keep, "\n")
}

func record[C any](s Spec[C], c C, o *Obs, countIt bool) {
	mu.Lock()
	defer mu.Unlock()
	for k, n := range o.known {
		out.Known[k] += n
	}
	if !countIt {
		return
	}
	st := sub(s.Name)
	if o.evals > 0 {
		st.Evaluations += o.evals
	} else {
		st.Evaluations++
	}
	for _, cl := range o.classes {
		st.Classes[cl]++
	}
	for k, n := range o.counts {
		st.Counters[k] += n
	}
	if !o.nontrivial {
		return
	}
	st.NonTrivial++
	var key []byte
	if s.Key != nil {
		key = []byte(s.Name + "|" + s.Key(c))
	} else {
		b, _ := json.Marshal(c)
		key = append([]byte(s.Name+"|"), b...)
	}
	w := 1
	if o.subNT > 0 {
		w = o.subNT
		st.NonTrivial += o.subNT - 1
	}
	if hashes[hash64(key)] < w {
		hashes[hash64(key)] = w
	}
	// keep up to two samples per first class, at most 12 per shard
	cl := "-"
	if len(o.classes) > 0 {
		cl = o.classes[0]
	}
	ck := s.Name + "/" + cl
	if perCls[ck] < 1 && len(out.Samples) < 12 {
		var v any = c
		if s.Sample != nil {
			v = s.Sample(c)
		}
		b, err := json.Marshal(map[string]any{"sub": s.Name, "classes": o.classes, "case": v})
		if err == nil && len(b) <= 6000 {
			perCls[ck]++
			out.Samples = append(out.Samples, b)
		} else if err == nil {
			perCls[ck]++
			b2, _ := json.Marshal(map[string]any{"sub": s.Name, "classes": o.classes, "case_json_prefix": string(b[:1500]), "case_json_bytes": len(b)})
			out.Samples = append(out.Samples, b2)
		}
	}
}

type replayFile struct {
	Property string          `json:"property"`
	Sub      string          `json:"sub"`
	Sig      string          `json:"sig"`
	Msg      string          `json:"msg"`
	Expect   string          `json:"expect,omitempty"` // regress files: "pass" (default) or "known"
	Case     json.RawMessage `json:"case"`
}

func writeReplay[C any](s Spec[C], c C, f *Failure) string {
	b, err := json.Marshal(c)
	if err != nil {
		b = []byte(`null`)
	}
	rf := replayFile{Property: out.Meta.ID, Sub: s.Name, Sig: f.Sig, Msg: f.Msg, Case: b}
	data, _ := json.MarshalIndent(rf, "", " ")
	dir := filepath.Join(Dir, "replays", out.Meta.ID)
	os.MkdirAll(dir, 0o755)
	p := filepath.Join(dir, fmt.Sprintf("%s-%016x.json", s.Name, hash64(b)))
	os.WriteFile(p, data, 0o644)
	return p
}

func addViolation(v violation) {
	mu.Lock()
	out.Violations = append(out.Violations, v)
	mu.Unlock()
	flush()
}

// runFile executes one replay/regression file through the plain path.
func runFile[C any](t *testing.T, s Spec[C], path string, isRegress bool) {
	data, err := os.ReadFile(path)
	if err != nil {
		t.Fatalf("replay file: %v", err)
	}
	var rf replayFile
	if err := json.Unmarshal(data, &rf); err != nil {
		t.Fatalf("replay file %s: %v", path, err)
	}
	if rf.Sub != s.Name {
		return
	}
	var c C
	if err := json.Unmarshal(rf.Case, &c); err != nil {
		t.Fatalf("replay file %s: case: %v", path, err)
	}
	n := s.Repeat
	if n < 1 {
		n = 1
	}
	for i := 0; i < n; i++ {
		o := &Obs{}
		f := exec(s, c, o)
		record(s, c, o, i == 0 && isRegress)
		if f == nil {
			continue
		}
		if IsKnown(f.Sig) {
			mu.Lock()
			out.Known[f.Sig]++
			mu.Unlock()
			return
		}
		p := path
		if isRegress { // give the violation its own replay file so the regress dir stays read-only
			p = writeReplay(s, c, f)
		}
		addViolation(violation{Sub: s.Name, Sig: f.Sig, Msg: f.Msg, Replay: p})
		t.Errorf("VIOLATION %s/%s sig=%s: %s (file %s)", out.Meta.ID, s.Name, f.Sig, f.Msg, path)
		return
	}
	if !isRegress {
		fmt.Printf("replay %s: case passes\n", path)
	}
}

// Drive runs one sub-check.
func Drive[C any](t *testing.T, s Spec[C]) {
	if !started {
		t.Fatal("vh.Main not called from TestMain")
	}
	t0 := time.Now()
	defer func() {
		mu.Lock()
		sub(s.Name).WallS += time.Since(t0).Seconds()
		mu.Unlock()
		flush()
	}()
	if wedged.Load() {
		return
	}
	if Replay != "" {
		runFile(t, s, Replay, false)
		return
	}
	// 1. regression files (shard 0 only), plain path
	if Shard == 0 {
		files, _ := filepath.Glob(filepath.Join(Dir, "regress", out.Meta.ID, s.Name, "*.json"))
		sort.Strings(files)
		for _, f := range files {
			if wedged.Load() {
				return
			}
			runFile(t, s, f, true)
		}
		mu.Lock()
		sub(s.Name).RegressFiles = len(files)
		mu.Unlock()
	}
	if Mode == "regress" || s.Gen == nil {
		return
	}
	// 2. generated cases
	total := s.Quick
	if Tier == "thorough" {
		total = s.Thorough
	}
	if v := envInt("VERIF_CASES_"+strings.ToUpper(s.Name), -1); v >= 0 {
		total = int(v)
	}
	if sc := os.Getenv("VERIF_SCALE"); sc != "" {
		if f, err := strconv.ParseFloat(sc, 64); err == nil && f > 0 && f < 1 {
			total = int(float64(total)*f + 0.999)
		}
	}
	if total <= 0 {
		return
	}
	checks := (total + Shards - 1) / Shards
	seed := hash64([]byte(fmt.Sprintf("%d/%d/%s/%s", Seed, Shard, out.Meta.ID, s.Name)))%(1<<62) + 1
	flag.Set("rapid.checks", strconv.Itoa(checks))
	flag.Set("rapid.seed", strconv.FormatUint(seed, 10))
	flag.Set("rapid.nofailfile", "true")
	mu.Lock()
	sub(s.Name).Requested += checks
	mu.Unlock()

	var (
		lastCase  C
		lastFail  *Failure
		failCount int
	)
	t.Run(s.Name, func(t *testing.T) {
		defer func() {
			if lastFail == nil {
				return
			}
			// rapid's last failing execution is the shrunk case (it re-runs the minimal buffer).
			p := writeReplay(s, lastCase, lastFail)
			// confirm through the plain path; a case that no longer fails is schedule/map-order dependent
			flaky := false
			o := &Obs{}
			if !wedged.Load() { // after a hang nothing more is started in this process
				if f := exec(s, lastCase, o); f == nil {
					flaky = true
				}
			}
			addViolation(violation{Sub: s.Name, Sig: lastFail.Sig, Msg: lastFail.Msg, Replay: p, Flaky: flaky})
			fmt.Printf("VIOLATION-DETAIL %s/%s sig=%s replay=%s\n%s\n", out.Meta.ID, s.Name, lastFail.Sig, p, lastFail.Msg)
		}()
		rapid.Check(t, func(rt *rapid.T) {
			c := s.Gen(rt)
			if wedged.Load() {
				return // a hang was reported: no shrinking, no further cases
			}
			o := &Obs{}
			f := exec(s, c, o)
			record(s, c, o, failCount == 0)
			if f == nil {
				return
			}
			if IsKnown(f.Sig) {
				mu.Lock()
				out.Known[f.Sig]++
				mu.Unlock()
				return
			}
			failCount++
			lastCase, lastFail = c, f
			rt.Fatalf("%s", f.Sig)
		})
	})
}

// Enumerate runs a deterministic, exhaustive list of cases through the same bookkeeping
// (used for fault enumeration and small exhaustive parameter grids). Cases are split over shards.
func Enumerate[C any](t *testing.T, s Spec[C], cases []C) {
	t0 := time.Now()
	defer func() {
		mu.Lock()
		st := sub(s.Name)
		st.WallS += time.Since(t0).Seconds()
		st.Exhaustive = true
		mu.Unlock()
		flush()
	}()
	if wedged.Load() {
		return
	}
	if Replay != "" {
		runFile(t, s, Replay, false)
		return
	}
	for i, c := range cases {
		if i%Shards != Shard || wedged.Load() {
			continue
		}
		o := &Obs{}
		f := exec(s, c, o)
		record(s, c, o, true)
		if f == nil {
			continue
		}
		if IsKnown(f.Sig) {
			mu.Lock()
			out.Known[f.Sig]++
			mu.Unlock()
			continue
		}
		p := writeReplay(s, c, f)
		addViolation(violation{Sub: s.Name, Sig: f.Sig, Msg: f.Msg, Replay: p})
		t.Errorf("VIOLATION %s/%s sig=%s: %s", out.Meta.ID, s.Name, f.Sig, f.Msg)
		return
	}
}

// ---------------------------------------------------------------- race detector integration

var raceSeen int64

// RaceReport returns the text the Go race detector has written since the last call (the driver
// points GORACE=log_path at $VERIF_RACELOG for race-instrumented binaries). Empty when nothing
// new was reported or the binary is not race-instrumented.
func RaceReport() string {
	prefix := os.Getenv("VERIF_RACELOG")
	if prefix == "" {
		return ""
	}
	files, _ := filepath.Glob(prefix + ".*")
	var total int64
	for _, f := range files {
		if st, err := os.Stat(f); err == nil {
			total += st.Size()
		}
	}
	if total <= raceSeen {
		return ""
	}
	var sb strings.Builder
	for _, f := range files {
		b, _ := os.ReadFile(f)
		sb.Write(b)
	}
	txt := sb.String()
	if int64(len(txt)) > raceSeen {
		txt = txt[raceSeen:]
	}
	raceSeen = total
	return txt
}

// RaceFailure turns a race report into a Failure whose signature names the first polyform
// function on the reported stacks.
func RaceFailure(report string) *Failure {
	site := "unknown"
	for _, l := range strings.Split(report, "\n") {
		l = strings.TrimSpace(l)
		if strings.HasPrefix(l, "github.com/EliCDavis/polyform/") {
			site = strings.TrimPrefix(l, "github.com/EliCDavis/polyform/")
			site = strings.TrimSuffix(site, "()")
			if i := strings.Index(site, "["); i > 0 { // generic instantiation: keep receiver and method only
				method := site[strings.LastIndex(site, ".")+1:]
				site = site[:i] + "[...])." + method
			}
			break
		}
	}
	if len(report) > 3000 {
		report = report[:3000] + "\n..."
	}
	return Failf("data-race/"+site, "the Go race detector reported a data race while this case ran:\n%s", report)
}

// ---------------------------------------------------------------- native fuzzing (thorough tier)

// Fuzz wraps a sub-check as a native Go fuzz target through rapid.MakeFuzz: the fuzzer's byte
// string drives the generator's draw stream (coverage-guided), the same oracle judges the case.
// A failure writes a replay file named fuzz-<sub>-<hash>.json (the reproducible unit) and fails
// the target; the driver turns it into a VIOLATION line.
func Fuzz[C any](f *testing.F, s Spec[C]) {
	f.Add([]byte{})
	f.Add([]byte{1, 2, 3, 4, 5, 6, 7, 8, 9, 10, 11, 12, 13, 14, 15, 16, 17, 18, 19, 20, 21, 22, 23, 24, 25, 26, 27, 28, 29, 30, 31, 32})
	f.Add(bytes.Repeat([]byte{0xff, 0x00, 0x7f, 0x80}, 64))
	fs := s
	fs.Name = "fuzz-" + s.Name
	f.Fuzz(rapid.MakeFuzz(func(rt *rapid.T) {
		c := s.Gen(rt)
		o := &Obs{}
		fl := exec(s, c, o)
		if fl == nil || IsKnown(fl.Sig) {
			return
		}
		p := writeReplay(fs, c, fl)
		rt.Fatalf("VIOLATION-DETAIL %s/%s sig=%s replay=%s\n%s", out.Meta.ID, s.Name, fl.Sig, p, fl.Msg)
	}))
}
