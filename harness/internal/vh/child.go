package vh

import (
	"bytes"
	"context"
	"encoding/json"
	"os"
	osexec "os/exec"
	"time"
)

// Child runs one case in a fresh copy of this test binary (only the test named TestChild runs
// there) and returns its exit code and combined output. It exists for failures that cannot be
// observed from inside the process: a panic raised on a goroutine the library started itself ends
// the whole program, whatever the caller recovers. The child writes no shard statistics.
// exit -1: the child could not be started or did not finish within the timeout.
func Child(name string, payload any, timeout time.Duration) (int, string) {
	b, err := json.Marshal(payload)
	if err != nil {
		return -1, err.Error()
	}
	ctx, cancel := context.WithTimeout(context.Background(), timeout)
	defer cancel()
	cmd := osexec.CommandContext(ctx, os.Args[0], "-test.run=^TestChild$", "-test.timeout="+(timeout+10*time.Second).String())
	env := []string{}
	for _, kv := range os.Environ() {
		if len(kv) >= 9 && (kv[:9] == "VERIF_OUT" || kv[:9] == "VERIF_REP") { // VERIF_OUT, VERIF_REPLAY
			continue
		}
		if len(kv) >= 6 && kv[:6] == "GORACE" { // the parent's race log is the parent's
			continue
		}
		env = append(env, kv)
	}
	cmd.Env = append(env, "VERIF_CHILD="+name, "VERIF_CHILD_PAYLOAD="+string(b), "VERIF_MODE=child")
	var buf bytes.Buffer
	cmd.Stdout, cmd.Stderr = &buf, &buf
	err = cmd.Run()
	if ctx.Err() != nil {
		return -1, "child timed out\n" + buf.String()
	}
	if err == nil {
		return 0, buf.String()
	}
	if ee, ok := err.(*osexec.ExitError); ok {
		return ee.ExitCode(), buf.String()
	}
	return -1, err.Error() + "\n" + buf.String()
}

// IsChild reports whether this process was started by Child for the given name and, if so,
// decodes the payload into v.
func IsChild(name string, v any) bool {
	if os.Getenv("VERIF_CHILD") != name {
		return false
	}
	return json.Unmarshal([]byte(os.Getenv("VERIF_CHILD_PAYLOAD")), v) == nil
}
