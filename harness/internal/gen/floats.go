// Package gen holds generators shared by the property packages. Every random choice goes
// through rapid so that shrinking and replay work.
package gen

import (
	"math"

	"pgregory.net/rapid"
)

// Eighths draws k/8 with |k| <= 8*lim: exactly representable in float32.
func Eighths(lim int) *rapid.Generator[float64] {
	return rapid.Custom(func(t *rapid.T) float64 {
		return float64(rapid.IntRange(-8*lim, 8*lim).Draw(t, "k8")) / 8
	})
}

// Mag draws a finite float64 whose magnitude is spread log-uniformly over [10^lo, 10^hi],
// either sign, with a share of exact zeros and small integers (which shrink well).
func Mag(lo, hi float64) *rapid.Generator[float64] {
	return rapid.Custom(func(t *rapid.T) float64 {
		switch rapid.IntRange(0, 9).Draw(t, "fk") {
		case 0:
			return 0
		case 1, 2:
			return float64(rapid.IntRange(-4, 4).Draw(t, "small"))
		case 3:
			return float64(rapid.IntRange(-32, 32).Draw(t, "q")) / 8
		}
		e := rapid.Float64Range(lo, hi).Draw(t, "exp")
		m := rapid.Float64Range(1, 10).Draw(t, "mant")
		v := m * math.Pow(10, e) / 10
		if rapid.Bool().Draw(t, "neg") {
			v = -v
		}
		return v
	})
}

// Unit draws a float in [-1,1] with a share of the exact values -1, 0, 1.
func Unit() *rapid.Generator[float64] {
	return rapid.Custom(func(t *rapid.T) float64 {
		switch rapid.IntRange(0, 7).Draw(t, "uk") {
		case 0:
			return 1
		case 1:
			return -1
		case 2:
			return 0
		}
		return rapid.Float64Range(-1, 1).Draw(t, "u")
	})
}

// Vec3 draws 3 floats from g.
func Vec3(t *rapid.T, g *rapid.Generator[float64], label string) [3]float64 {
	return [3]float64{g.Draw(t, label+".x"), g.Draw(t, label+".y"), g.Draw(t, label+".z")}
}

// Dir draws a non-degenerate direction (not normalised): components in [-1,1], length >= 0.1,
// with a share of exact axis directions.
func Dir(t *rapid.T, label string) [3]float64 {
	if k := rapid.IntRange(0, 11).Draw(t, label+".axis"); k < 6 {
		var v [3]float64
		v[k/2] = 1 - 2*float64(k%2)
		return v
	}
	for i := 0; ; i++ {
		v := Vec3(t, rapid.Float64Range(-1, 1), label)
		if math.Sqrt(v[0]*v[0]+v[1]*v[1]+v[2]*v[2]) >= 0.1 {
			return v
		}
		if i > 20 {
			return [3]float64{0, 0, 1}
		}
	}
}
