package gen

import (
	"encoding/json"
	"fmt"
	"image/color"
	"math"
	"sort"
	"strconv"

	"github.com/EliCDavis/polyform/modeling"
	"github.com/EliCDavis/vector/vector2"
	"github.com/EliCDavis/vector/vector3"
	"github.com/EliCDavis/vector/vector4"
	"pgregory.net/rapid"
)

// F is a float64 whose JSON form survives NaN, infinities and negative zero.
type F float64

func (f F) MarshalJSON() ([]byte, error) {
	x := float64(f)
	if math.IsNaN(x) || math.IsInf(x, 0) || (x == 0 && math.Signbit(x)) {
		return json.Marshal(strconv.FormatFloat(x, 'g', -1, 64))
	}
	return json.Marshal(x)
}

func (f *F) UnmarshalJSON(b []byte) error {
	if len(b) > 0 && b[0] == '"' {
		var s string
		if err := json.Unmarshal(b, &s); err != nil {
			return err
		}
		x, err := strconv.ParseFloat(s, 64)
		*f = F(x)
		return err
	}
	var x float64
	err := json.Unmarshal(b, &x)
	*f = F(x)
	return err
}

// MatRange is one material range of a mesh. Mat indexes a pool of material pointers shared by a
// whole case (so "same pointer" is representable); -1 is a nil material.
type MatRange struct {
	Count int
	Mat   int
}

// MeshDesc is the serialisable description of a mesh handed to polyform. All arrays have N rows.
type MeshDesc struct {
	Topo int
	N    int
	Idx  []int
	V1   map[string][]F    `json:",omitempty"`
	V2   map[string][][2]F `json:",omitempty"`
	V3   map[string][][3]F `json:",omitempty"`
	V4   map[string][][4]F `json:",omitempty"`
	Mats []MatRange        `json:",omitempty"`
}

// MaterialPool gives stable material pointers for MatRange.Mat.
var MaterialPool = func() []*modeling.Material {
	var p []*modeling.Material
	for _, n := range []string{"matA", "matB", "matC", "matD"} {
		p = append(p, &modeling.Material{Name: n})
	}
	return p
}()

// SpacedMaterials are materials whose names contain spaces (like the library's own "Default Diffuse"),
// kept apart from MaterialPool because the OBJ/MTL text formats strip spaces from names.
var SpacedMaterials = []*modeling.Material{{Name: "Default Diffuse"}, {Name: "mat with  spaces"}}

// TexturedMaterial returns a NEW material (fresh pointers on every call, so that a writer that
// edits what a material points to cannot leak from one case into the next) with colours and
// texture URIs the way asset pipelines write them: Windows separators, spaces, a drive letter.
func TexturedMaterial(k int) *modeling.Material {
	str := func(s string) *string { return &s }
	switch ((k % 3) + 3) % 3 {
	case 0:
		return &modeling.Material{Name: "Default Diffuse", DiffuseColor: color.RGBA{R: 200, G: 100, B: 50, A: 255}, SpecularHighlight: 100, OpticalDensity: 1,
			ColorTextureURI: str("textures\\wood grain.png"), NormalTextureURI: str("C:\\maps\\wood_n.png")}
	case 1:
		return &modeling.Material{Name: "mat with  spaces", AmbientColor: color.Black, SpecularColor: color.White, Transparency: 0.25,
			SpecularTextureURI: str("spec map.png"), ColorTextureURI: str("..\\shared/albedo%20v2.PNG")}
	}
	return &modeling.Material{Name: "plain", ColorTextureURI: str("a/b/c.png")}
}

// SpecialVal: like DefaultVal but with a share of NaN, infinities, negative zero and extreme magnitudes.
func SpecialVal() *rapid.Generator[float64] {
	return rapid.Custom(func(t *rapid.T) float64 {
		switch rapid.IntRange(0, 11).Draw(t, "sk") {
		case 0:
			return math.NaN()
		case 1:
			return math.Inf(1 - 2*rapid.IntRange(0, 1).Draw(t, "isg"))
		case 2:
			return math.Copysign(0, -1)
		case 3:
			return []float64{1e300, -1e300, 5e-324, 1e-310}[rapid.IntRange(0, 3).Draw(t, "ext")]
		}
		return float64(rapid.IntRange(-32, 32).Draw(t, "v8")) / 8
	})
}

func (d MeshDesc) Topology() modeling.Topology { return modeling.Topology(d.Topo) }

// Build constructs the mesh through the public API from fresh arrays (never shared between
// two Build calls).
func (d MeshDesc) Build() modeling.Mesh {
	idx := make([]int, len(d.Idx))
	copy(idx, d.Idx)
	m := modeling.NewMesh(d.Topology(), idx)
	for _, k := range sortedKeys(d.V1) {
		a := make([]float64, len(d.V1[k]))
		for i, x := range d.V1[k] {
			a[i] = float64(x)
		}
		m = m.SetFloat1Attribute(k, a)
	}
	for _, k := range sortedKeys(d.V2) {
		a := make([]vector2.Float64, len(d.V2[k]))
		for i, x := range d.V2[k] {
			a[i] = vector2.New(float64(x[0]), float64(x[1]))
		}
		m = m.SetFloat2Attribute(k, a)
	}
	for _, k := range sortedKeys(d.V3) {
		a := make([]vector3.Float64, len(d.V3[k]))
		for i, x := range d.V3[k] {
			a[i] = vector3.New(float64(x[0]), float64(x[1]), float64(x[2]))
		}
		m = m.SetFloat3Attribute(k, a)
	}
	for _, k := range sortedKeys(d.V4) {
		a := make([]vector4.Float64, len(d.V4[k]))
		for i, x := range d.V4[k] {
			a[i] = vector4.New(float64(x[0]), float64(x[1]), float64(x[2]), float64(x[3]))
		}
		m = m.SetFloat4Attribute(k, a)
	}
	if len(d.Mats) > 0 {
		ms := make([]modeling.MeshMaterial, len(d.Mats))
		for i, r := range d.Mats {
			ms[i] = modeling.MeshMaterial{PrimitiveCount: r.Count}
			if r.Mat >= 0 {
				ms[i].Material = MaterialPool[r.Mat%len(MaterialPool)]
			}
		}
		m = m.SetMaterials(ms)
	}
	return m
}

func sortedKeys[T any](m map[string]T) []string {
	ks := make([]string, 0, len(m))
	for k := range m {
		ks = append(ks, k)
	}
	sort.Strings(ks)
	return ks
}

// PrimCount is the number of primitives the index list describes.
func (d MeshDesc) PrimCount() int {
	switch d.Topology() {
	case modeling.TriangleTopology:
		return len(d.Idx) / 3
	case modeling.QuadTopology:
		return len(d.Idx) / 4
	case modeling.PointTopology, modeling.LineLoopTopology:
		return len(d.Idx)
	default:
		if len(d.Idx) == 0 {
			return 0
		}
		return len(d.Idx) - 1
	}
}

// IdentityIdx reports whether the index list is 0..N-1 in order.
func (d MeshDesc) IdentityIdx() bool {
	if len(d.Idx) != d.N {
		return false
	}
	for i, x := range d.Idx {
		if x != i {
			return false
		}
	}
	return true
}

// HasUnreferenced reports whether some vertex is not used by any index.
func (d MeshDesc) HasUnreferenced() bool {
	used := make([]bool, d.N)
	for _, x := range d.Idx {
		used[x] = true
	}
	for _, u := range used {
		if !u {
			return true
		}
	}
	return false
}

// HasShared reports whether a vertex is used by more than one index slot.
func (d MeshDesc) HasShared() bool {
	used := make([]int, d.N)
	for _, x := range d.Idx {
		used[x]++
		if used[x] > 1 {
			return true
		}
	}
	return false
}

// AttrCount is the number of attribute arrays.
func (d MeshDesc) AttrCount() int { return len(d.V1) + len(d.V2) + len(d.V3) + len(d.V4) }

// MeshOpts steers MeshGen.
type MeshOpts struct {
	Topos     []modeling.Topology // allowed topologies (default triangle, point)
	MaxN      int                 // max vertex count (default 8)
	MaxPrims  int                 // max primitives (default 6)
	MinN      int
	NeedPos   bool
	Val       *rapid.Generator[float64] // value generator (default: mostly k/8, some arbitrary)
	Attrs     []AttrSpec                // candidate attributes (default DefaultAttrs)
	VID       bool                      // add hidden v1 attribute "vid" carrying the vertex id
	Materials bool                      // maybe attach material ranges (partition of the primitives)
	DupPos    bool                      // allow duplicated attribute rows under different ids
	MinPrims  int
	FullAttrs bool // every candidate attribute present
}

type AttrSpec struct {
	Name  string
	Arity int
}

var DefaultAttrs = []AttrSpec{
	{modeling.PositionAttribute, 3}, {modeling.NormalAttribute, 3}, {modeling.ColorAttribute, 3},
	{modeling.TexCoordAttribute, 2}, {modeling.RotationAttribute, 4}, {modeling.ScaleAttribute, 3},
	{modeling.OpacityAttribute, 1}, {"Custom1", 1}, {"Custom2", 2}, {"Custom3", 3}, {"Custom4", 4},
}

// DefaultVal: mostly k/8 (float32-exact, shrink-friendly), sometimes arbitrary finite doubles.
func DefaultVal() *rapid.Generator[float64] {
	return rapid.Custom(func(t *rapid.T) float64 {
		if rapid.IntRange(0, 5).Draw(t, "vk") == 0 {
			return rapid.Float64Range(-1e3, 1e3).Draw(t, "vf")
		}
		return float64(rapid.IntRange(-32, 32).Draw(t, "v8")) / 8
	})
}

// Mesh draws a well-formed mesh description.
func Mesh(t *rapid.T, o MeshOpts, label string) MeshDesc {
	if len(o.Topos) == 0 {
		o.Topos = []modeling.Topology{modeling.TriangleTopology, modeling.PointTopology}
	}
	if o.MaxN == 0 {
		o.MaxN = 8
	}
	if o.MaxPrims == 0 {
		o.MaxPrims = 6
	}
	if o.Val == nil {
		o.Val = DefaultVal()
	}
	if o.Attrs == nil {
		o.Attrs = DefaultAttrs
	}
	topo := o.Topos[rapid.IntRange(0, len(o.Topos)-1).Draw(t, label+".topo")]
	d := MeshDesc{Topo: int(topo), Idx: []int{}}
	minN := o.MinN
	if o.NeedPos && minN == 0 {
		minN = 1
	}
	d.N = rapid.IntRange(minN, o.MaxN).Draw(t, label+".n")
	if d.N > 0 {
		dup := o.DupPos && rapid.Bool().Draw(t, label+".dup")
		// one duplication map for all attributes: vertex i copies row dupOf[i] (or -1)
		dupOf := make([]int, d.N)
		for i := range dupOf {
			dupOf[i] = -1
			if dup && i > 0 && rapid.IntRange(0, 2).Draw(t, label+".dupq") == 0 {
				dupOf[i] = rapid.IntRange(0, i-1).Draw(t, label+".dupOf")
			}
		}
		for _, a := range o.Attrs {
			need := o.FullAttrs || (o.NeedPos && a.Name == modeling.PositionAttribute)
			if !need && !rapid.Bool().Draw(t, label+".has."+a.Name) {
				continue
			}
			rows := make([][4]F, d.N)
			for i := range rows {
				if dupOf[i] >= 0 && a.Name == modeling.PositionAttribute {
					rows[i] = rows[dupOf[i]]
					continue
				}
				for c := 0; c < a.Arity; c++ {
					rows[i][c] = F(o.Val.Draw(t, fmt.Sprintf("%s.%s[%d][%d]", label, a.Name, i, c)))
				}
			}
			d.setRows(a, rows)
		}
		if o.VID {
			vid := make([]F, d.N)
			for i := range vid {
				vid[i] = F(i)
			}
			if d.V1 == nil {
				d.V1 = map[string][]F{}
			}
			d.V1["vid"] = vid
		}
	}
	if d.AttrCount() == 0 {
		d.N = 0
	}
	// indices
	size := 1
	switch topo {
	case modeling.TriangleTopology:
		size = 3
	case modeling.QuadTopology:
		size = 4
	case modeling.LineTopology:
		size = 2
	}
	if d.N > 0 {
		switch rapid.IntRange(0, 3).Draw(t, label+".idxKind") {
		case 0: // identity over as many whole primitives as fit
			for i := 0; i+size <= d.N && i/size < o.MaxPrims; i += size {
				for j := 0; j < size; j++ {
					d.Idx = append(d.Idx, i+j)
				}
			}
		default:
			k := rapid.IntRange(o.MinPrims, o.MaxPrims).Draw(t, label+".prims")
			cnt := k * size
			if topo == modeling.LineStripTopology && k > 0 {
				cnt = k + 1
			}
			for i := 0; i < cnt; i++ {
				d.Idx = append(d.Idx, rapid.IntRange(0, d.N-1).Draw(t, label+".ix"))
			}
		}
	}
	if o.Materials && d.PrimCount() > 0 && rapid.Bool().Draw(t, label+".hasMats") {
		left := d.PrimCount()
		for left > 0 {
			c := rapid.IntRange(1, left).Draw(t, label+".matCount")
			d.Mats = append(d.Mats, MatRange{Count: c, Mat: rapid.IntRange(-1, 3).Draw(t, label+".mat")})
			left -= c
		}
	}
	return d
}

func (d *MeshDesc) setRows(a AttrSpec, rows [][4]F) {
	switch a.Arity {
	case 1:
		if d.V1 == nil {
			d.V1 = map[string][]F{}
		}
		r := make([]F, len(rows))
		for i := range rows {
			r[i] = rows[i][0]
		}
		d.V1[a.Name] = r
	case 2:
		if d.V2 == nil {
			d.V2 = map[string][][2]F{}
		}
		r := make([][2]F, len(rows))
		for i := range rows {
			r[i] = [2]F{rows[i][0], rows[i][1]}
		}
		d.V2[a.Name] = r
	case 3:
		if d.V3 == nil {
			d.V3 = map[string][][3]F{}
		}
		r := make([][3]F, len(rows))
		for i := range rows {
			r[i] = [3]F{rows[i][0], rows[i][1], rows[i][2]}
		}
		d.V3[a.Name] = r
	case 4:
		if d.V4 == nil {
			d.V4 = map[string][][4]F{}
		}
		r := make([][4]F, len(rows))
		copy(r, rows)
		d.V4[a.Name] = r
	}
}
