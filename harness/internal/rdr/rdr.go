// Package rdr hands a byte string to a decoder through io.Readers that behave as files, pipes,
// sockets and decompressors do: short reads, data together with io.EOF, small buffers.
package rdr

import (
	"bufio"
	"bytes"
	"io"
	"testing/iotest"
)

type chunkReader struct {
	r io.Reader
	n int
}

func (c chunkReader) Read(p []byte) (int, error) {
	if len(p) > c.n {
		p = p[:c.n]
	}
	return c.r.Read(p)
}

// Modes is the number of reader modes (0 = plain bytes.Reader).
const Modes = 6

// For returns a reader over b: 0 bytes.Reader, 1 one byte per Read, 2 half of the request per Read,
// 3 chunks of 7 bytes, 4 data together with io.EOF, 5 bufio.Reader of size 16 over 5-byte chunks.
func For(mode int, b []byte) io.Reader {
	var r io.Reader = bytes.NewReader(b)
	switch mode % Modes {
	case 1:
		return iotest.OneByteReader(r)
	case 2:
		return iotest.HalfReader(r)
	case 3:
		return chunkReader{r, 7}
	case 4:
		return iotest.DataErrReader(r)
	case 5:
		return bufio.NewReaderSize(chunkReader{r, 5}, 16)
	}
	return r
}
