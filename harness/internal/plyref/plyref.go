// Package plyref is an independent reference ENCODER for the PLY format, written from the
// format specification (not from polyform's writer): a serialisable description of a file, its
// byte encoding in the three encodings, and the mesh the specification says it describes.
// Used by C08 (files written by other tools) and C14 (truncation).
package plyref

import (
	"bytes"
	"encoding/binary"
	"fmt"
	"strconv"
	"strings"

	"github.com/EliCDavis/polyform/modeling"
	"pgregory.net/rapid"
)

type Prop struct {
	Name  string
	Type  string // canonical: uchar int float double
	Alias string // spelling used in the header
	Group string // attribute group; "" = unrecognised scalar
	Comp  int
}

type Face struct {
	Idx []int
	UV  []float64 // 2 per listed vertex
}

type File struct {
	Format     string // ascii | binary_little_endian | binary_big_endian
	Props      []Prop
	Vals       [][]float64 // one row per vertex, one value per property (uchar/int values are integers)
	HasFaces   bool
	Faces      []Face
	CountT     string // uchar | int | uint
	IdxT       string // int | uint
	CountAlias string
	IdxAlias   string
	IdxName    string // vertex_indices | vertex_index
	HasUV      bool
	UVFirst    bool
	CRLF       bool
	Comment    bool
	MidComment bool
	// LongComment > 0: the header carries one more comment line of exactly that many bytes (without
	// the line ending) of printable ascii (LongCommentText); LongCommentEnd puts it just before
	// end_header instead of just after the format line.
	LongComment    int  `json:",omitempty"`
	LongCommentEnd bool `json:",omitempty"`
	// UVCountT: count type of the texcoord list ("" = uchar; int | uint)
	UVCountT string `json:",omitempty"`
	// Trailing > 0: one more element follows the last element polyform reads (what Blender, MeshLab
	// and scanners append: edges, strips, cameras): 1 = "element edge K" with two int scalars and a
	// uchar, 2 = "element tristrips K" with an int list named vertex_indices. TrailingN records.
	Trailing  int `json:",omitempty"`
	TrailingN int `json:",omitempty"`
	// BlankAfter (ascii only): an empty line follows vertex row k for every k in the list (hand-edited
	// and concatenated files; polyform's reader skips lines that hold only white space)
	BlankAfter []int `json:",omitempty"`
}

// LongCommentText is the long comment line (no line ending): "comment " followed by printable ascii
// (0x21..0x7e words separated by single blanks), a pure function of the length.
func LongCommentText(n int) string {
	b := []byte("comment ")
	x := uint32(n)*2654435761 + 12345
	for word := 0; len(b) < n; {
		x = x*1664525 + 1013904223
		if word >= 3 && (x>>24)%9 == 0 && len(b) < n-1 {
			b = append(b, ' ')
			word = 0
			continue
		}
		b = append(b, byte(0x21+(x>>16)%94))
		word++
	}
	return string(b[:n])
}

type GroupDef struct {
	Attr  string
	Names []string
}

// Groups are the recognised property groups (DESIGN C08).
var Groups = []GroupDef{
	{modeling.PositionAttribute, []string{"x", "y", "z"}},
	{modeling.NormalAttribute, []string{"nx", "ny", "nz"}},
	{modeling.ColorAttribute, []string{"red", "green", "blue"}},
	{modeling.ColorAttribute + "4", []string{"red", "green", "blue", "alpha"}},
	{modeling.TexCoordAttribute, []string{"s", "t"}},
	{modeling.ScaleAttribute, []string{"scale_0", "scale_1", "scale_2"}},
	{modeling.RotationAttribute, []string{"rot_0", "rot_1", "rot_2", "rot_3"}},
	{modeling.FDCAttribute, []string{"f_dc_0", "f_dc_1", "f_dc_2"}},
	{modeling.OpacityAttribute, []string{"opacity"}},
}

var Aliases = map[string][]string{"uchar": {"uchar", "uint8"}, "int": {"int", "int32"}, "float": {"float", "float32"}, "double": {"double", "float64"}, "uint": {"uint", "uint32"}}

func genValue(t *rapid.T, typ string, distinct bool) float64 {
	switch typ {
	case "uchar":
		if distinct {
			return float64(rapid.IntRange(1, 255).Draw(t, "u8"))
		}
		return float64(rapid.IntRange(0, 255).Draw(t, "u8"))
	case "int":
		if distinct {
			return float64(rapid.IntRange(1, 1<<20).Draw(t, "i32"))
		}
		return float64(rapid.IntRange(-1<<20, 1<<20).Draw(t, "i32"))
	default:
		if distinct {
			return float64(rapid.IntRange(1, 4096).Draw(t, "q")) / 16
		}
		if rapid.Bool().Draw(t, "frac") {
			return float64(rapid.IntRange(-4096, 4096).Draw(t, "q")) / 16
		}
		return float64(float32(rapid.Float64Range(-1e6, 1e6).Draw(t, "f")))
	}
}

// Opts steers Gen.
type Opts struct {
	// ExcludeAsciiUcharScalar: never generate a uchar-typed *scalar* property (opacity or
	// unrecognised) in the ascii encoding (known finding ascii-uchar-scalar-raw); counted by the caller.
	ExcludeAsciiUcharScalar bool
	Excluded                *int
	MinVerts, MaxVerts      int
	ForceFaces              bool
	NonZero                 bool // every value non-zero (so fabricated zeros are visible)
	// Wide (opt-in, draws nothing when false): in about 1 file of 30 the vertex element carries
	// 40/100/250/600 more unrecognised scalars extra_3.. of ONE drawn type (ascii lines of 0.2..15 KiB,
	// always below 60 KiB; binary records of 40..4800 bytes more) and the file has 1..6 vertices;
	// independently, in about 1 file of 30, one header comment line of 300/1100/5000 bytes.
	Wide bool
	// UVCount (opt-in): the texcoord list may use a 4-byte count type. Trailing (opt-in): in about one
	// file in five another element follows the last one polyform reads.
	UVCount  bool
	Trailing bool
	// BlankLines (opt-in): ascii files may carry empty lines between vertex rows (about one file in four)
	BlankLines bool
}

// WideExtras is the least number of unrecognised scalars of a file of the wide class.
const WideExtras = 40

// Gen draws a file description from the specification's grammar.
func Gen(t *rapid.T, o Opts) File {
	if o.MaxVerts == 0 {
		o.MaxVerts = 5
	}
	f := File{Format: rapid.SampledFrom([]string{"ascii", "binary_little_endian", "binary_big_endian"}).Draw(t, "format")}
	hasColor := false
	for _, g := range Groups {
		if g.Attr == modeling.PositionAttribute || rapid.IntRange(0, 2).Draw(t, "use "+g.Attr) == 0 {
			if strings.HasPrefix(g.Attr, modeling.ColorAttribute) {
				if hasColor {
					continue
				}
				hasColor = true
			}
			typ := rapid.SampledFrom([]string{"uchar", "int", "float", "double"}).Draw(t, "type "+g.Attr)
			if o.ExcludeAsciiUcharScalar && g.Attr == modeling.OpacityAttribute && typ == "uchar" && f.Format == "ascii" {
				typ = "float"
				if o.Excluded != nil {
					*o.Excluded++
				}
			}
			alias := rapid.SampledFrom(Aliases[typ]).Draw(t, "alias")
			for c, n := range g.Names {
				f.Props = append(f.Props, Prop{Name: n, Type: typ, Alias: alias, Group: g.Attr, Comp: c})
			}
		}
	}
	for k := rapid.IntRange(0, 2).Draw(t, "extras"); k > 0; k-- {
		typ := rapid.SampledFrom([]string{"uchar", "int", "float", "double"}).Draw(t, "xtype")
		if o.ExcludeAsciiUcharScalar && typ == "uchar" && f.Format == "ascii" {
			typ = "int"
			if o.Excluded != nil {
				*o.Excluded++
			}
		}
		f.Props = append(f.Props, Prop{Name: fmt.Sprintf("extra_%d", k), Type: typ, Alias: rapid.SampledFrom(Aliases[typ]).Draw(t, "alias")})
	}
	// (rapid's IntRange favours the ends of its range - IntRange(0,29)==0 is met in 1 case of 9 -,
	// a full-width draw modulo 30 compared with a non-minimal residue is met in 1 of 28; measured)
	if o.Wide && rapid.Uint64().Draw(t, "wide")%30 == 7 {
		// weighted towards the small numbers: loading a file with n unrecognised scalars costs the
		// reader n^2/2 map insertions (one copy of the attribute map per attribute): ~6 ms at n = 250,
		// ~35 ms at n = 600 (measured shares, the draw favours small residues: 40: 51 %, 100: 29 %, 250: 14 %, 600: 6 %)
		n := 40
		switch r := rapid.Uint64().Draw(t, "wideExtras") % 100; {
		case r >= 91:
			n = 600
		case r >= 70:
			n = 250
		case r >= 30:
			n = 100
		}
		typ := rapid.SampledFrom([]string{"uchar", "int", "float", "double"}).Draw(t, "wideType")
		if o.ExcludeAsciiUcharScalar && typ == "uchar" && f.Format == "ascii" {
			typ = "int"
			if o.Excluded != nil {
				*o.Excluded++
			}
		}
		alias := rapid.SampledFrom(Aliases[typ]).Draw(t, "alias")
		for k := 0; k < n; k++ {
			f.Props = append(f.Props, Prop{Name: fmt.Sprintf("extra_%d", 3+k), Type: typ, Alias: alias})
		}
		o.MinVerts, o.MaxVerts = 1, 6 // keeps such a case cheap
	}
	f.Props = rapid.Permutation(f.Props).Draw(t, "order")
	nv := rapid.IntRange(o.MinVerts, o.MaxVerts).Draw(t, "nv")
	f.Vals = make([][]float64, nv)
	for i := range f.Vals {
		f.Vals[i] = make([]float64, len(f.Props))
		for j, p := range f.Props {
			f.Vals[i][j] = genValue(t, p.Type, o.NonZero)
		}
	}
	f.HasFaces = nv >= 3 && (o.ForceFaces || rapid.Bool().Draw(t, "faces"))
	f.CountT, f.IdxT, f.CountAlias, f.IdxAlias, f.IdxName = "uchar", "int", "uchar", "int", "vertex_indices"
	if f.HasFaces {
		f.CountT = rapid.SampledFrom([]string{"uchar", "int", "uint"}).Draw(t, "countT")
		f.IdxT = rapid.SampledFrom([]string{"int", "uint"}).Draw(t, "idxT")
		f.CountAlias = rapid.SampledFrom(Aliases[f.CountT]).Draw(t, "ca")
		f.IdxAlias = rapid.SampledFrom(Aliases[f.IdxT]).Draw(t, "ia")
		f.IdxName = rapid.SampledFrom([]string{"vertex_indices", "vertex_index"}).Draw(t, "iname")
		f.HasUV = rapid.Bool().Draw(t, "faceuv")
		f.UVFirst = f.HasUV && rapid.Bool().Draw(t, "uvFirst")
		minF := 0
		if o.ForceFaces {
			minF = 1
		}
		for k := rapid.IntRange(minF, 4).Draw(t, "nf"); k > 0; k-- {
			sz := 3
			if nv >= 4 && rapid.Bool().Draw(t, "quad") {
				sz = 4
			}
			fc := Face{}
			for c := 0; c < sz; c++ {
				fc.Idx = append(fc.Idx, rapid.IntRange(0, nv-1).Draw(t, "fi"))
				lo := 0
				if o.NonZero {
					lo = 1
				}
				fc.UV = append(fc.UV, float64(rapid.IntRange(lo, 64).Draw(t, "fu"))/64, float64(rapid.IntRange(lo, 64).Draw(t, "fv"))/64)
			}
			f.Faces = append(f.Faces, fc)
		}
	}
	if o.UVCount && f.HasUV {
		f.UVCountT = rapid.SampledFrom([]string{"", "int", "uint"}).Draw(t, "uvCountT")
	}
	if o.BlankLines && f.Format == "ascii" && rapid.Uint64().Draw(t, "blankLines")%4 == 0 {
		for k := range f.Vals {
			if rapid.IntRange(0, 2).Draw(t, "blankAfter") == 0 {
				f.BlankAfter = append(f.BlankAfter, k)
			}
		}
	}
	if o.Trailing && rapid.Uint64().Draw(t, "trailing")%5 == 0 {
		f.Trailing = rapid.IntRange(1, 2).Draw(t, "trailingKind")
		f.TrailingN = rapid.IntRange(1, 3).Draw(t, "trailingN")
	}
	f.CRLF = rapid.Bool().Draw(t, "crlf")
	f.Comment = rapid.Bool().Draw(t, "comment")
	f.MidComment = rapid.Bool().Draw(t, "midcomment")
	if o.Wide && rapid.Uint64().Draw(t, "longComment")%30 == 7 {
		f.LongComment = rapid.SampledFrom([]int{300, 1100, 5000}).Draw(t, "longCommentLen")
		f.LongCommentEnd = rapid.Bool().Draw(t, "longCommentEnd")
	}
	return f
}

// Token marks a token boundary inside an ascii body: Off is the offset (relative to the whole
// file) just after a complete token; Line is true at the end of a line.
type Token struct {
	Off  int
	Line bool
}

// Encoded is the byte form of a File.
type Encoded struct {
	Bytes     []byte
	HeaderLen int
	// VertexEnd is the offset after the vertex list; FaceRecEnds the offsets after each face record.
	VertexEnd   int
	FaceRecEnds []int
	Tokens      []Token // ascii bodies only
}

// Encode renders the file.
func (f File) Encode() Encoded {
	var order binary.ByteOrder = binary.LittleEndian
	if f.Format == "binary_big_endian" {
		order = binary.BigEndian
	}
	ascii := f.Format == "ascii"
	eol := "\n"
	if f.CRLF {
		eol = "\r\n"
	}
	var hdr strings.Builder
	hdr.WriteString("ply" + eol + "format " + f.Format + " 1.0" + eol)
	if f.LongComment > 0 && !f.LongCommentEnd {
		hdr.WriteString(LongCommentText(f.LongComment) + eol)
	}
	if f.Comment {
		hdr.WriteString("comment made by reference encoder" + eol + "obj_info some info 123" + eol)
	}
	hdr.WriteString(fmt.Sprintf("element vertex %d%s", len(f.Vals), eol))
	for i, p := range f.Props {
		hdr.WriteString("property " + p.Alias + " " + p.Name + eol)
		if i == 0 && f.MidComment {
			hdr.WriteString("comment between properties" + eol)
		}
	}
	if f.HasFaces {
		hdr.WriteString(fmt.Sprintf("element face %d%s", len(f.Faces), eol))
		pi := "property list " + f.CountAlias + " " + f.IdxAlias + " " + f.IdxName + eol
		uvct := f.UVCountT
		if uvct == "" {
			uvct = "uchar"
		}
		pu := "property list " + uvct + " float texcoord" + eol
		switch {
		case f.UVFirst:
			hdr.WriteString(pu + pi)
		case f.HasUV:
			hdr.WriteString(pi + pu)
		default:
			hdr.WriteString(pi)
		}
	}
	switch f.Trailing {
	case 1:
		hdr.WriteString(fmt.Sprintf("element edge %d%sproperty int vertex1%sproperty int vertex2%sproperty uchar crease%s", f.TrailingN, eol, eol, eol, eol))
	case 2:
		hdr.WriteString(fmt.Sprintf("element tristrips %d%sproperty list uchar int vertex_indices%s", f.TrailingN, eol, eol))
	}
	if f.LongComment > 0 && f.LongCommentEnd {
		hdr.WriteString(LongCommentText(f.LongComment) + eol)
	}
	hdr.WriteString("end_header" + eol)
	enc := Encoded{HeaderLen: hdr.Len()}
	body := &bytes.Buffer{}
	tok := func(line bool) {
		if ascii {
			enc.Tokens = append(enc.Tokens, Token{Off: enc.HeaderLen + body.Len(), Line: line})
		}
	}
	writeScalar := func(typ string, v float64) {
		if ascii {
			switch typ {
			case "uchar", "int", "uint":
				body.WriteString(strconv.Itoa(int(v)))
			default:
				body.WriteString(strconv.FormatFloat(v, 'g', -1, 64))
			}
			tok(false)
			return
		}
		switch typ {
		case "uchar":
			body.WriteByte(byte(v))
		case "int":
			binary.Write(body, order, int32(v))
		case "uint":
			binary.Write(body, order, uint32(v))
		case "float":
			binary.Write(body, order, float32(v))
		case "double":
			binary.Write(body, order, v)
		}
	}
	for i := range f.Vals {
		for j, p := range f.Props {
			if ascii && j > 0 {
				body.WriteString(" ")
			}
			writeScalar(p.Type, f.Vals[i][j])
		}
		if ascii {
			body.WriteString("\n")
			tok(true)
			for _, k := range f.BlankAfter {
				if k == i {
					body.WriteString("\n")
					tok(true)
				}
			}
		}
	}
	enc.VertexEnd = enc.HeaderLen + body.Len()
	for _, fc := range f.Faces {
		wi := func() {
			writeScalar(f.CountT, float64(len(fc.Idx)))
			for _, ix := range fc.Idx {
				if ascii {
					body.WriteString(" ")
				}
				writeScalar(f.IdxT, float64(ix))
			}
		}
		wu := func() {
			uvct := f.UVCountT
			if uvct == "" {
				uvct = "uchar"
			}
			writeScalar(uvct, float64(len(fc.UV)))
			for _, u := range fc.UV {
				if ascii {
					body.WriteString(" ")
				}
				writeScalar("float", u)
			}
		}
		if f.UVFirst {
			wu()
			if ascii {
				body.WriteString(" ")
			}
			wi()
		} else {
			wi()
			if f.HasUV {
				if ascii {
					body.WriteString(" ")
				}
				wu()
			}
		}
		if ascii {
			body.WriteString("\n")
			tok(true)
		}
		enc.FaceRecEnds = append(enc.FaceRecEnds, enc.HeaderLen+body.Len())
	}
	for r := 0; r < f.TrailingN && f.Trailing > 0; r++ {
		switch f.Trailing {
		case 1:
			writeScalar("int", float64(256*(r+1)))
			if ascii {
				body.WriteString(" ")
			}
			writeScalar("int", float64(512*(r+1)+1))
			if ascii {
				body.WriteString(" ")
			}
			writeScalar("uchar", float64(7+r))
		case 2:
			writeScalar("uchar", 4)
			for k := 0; k < 4; k++ {
				if ascii {
					body.WriteString(" ")
				}
				writeScalar("int", float64(256*(k+1)+r))
			}
		}
		if ascii {
			body.WriteString("\n")
			tok(true)
		}
	}
	enc.Bytes = append([]byte(hdr.String()), body.Bytes()...)
	return enc
}

// ExpVal is the value the specification assigns to vertex i, property j (8-bit values are
// byte/255, the convention of every reader path and of both writers).
func (f File) ExpVal(i, j int) float64 {
	v := f.Vals[i][j]
	if f.Props[j].Type == "uchar" {
		return v / 255
	}
	return v
}

// Corners lists, per output corner, the source vertex and (when per-face texcoords exist) its uv:
// a point per vertex for point clouds; the fan triangles (0,1,2),(0,2,3) of every face otherwise.
func (f File) Corners() (verts []int, uvs [][2]float64) {
	if !f.HasFaces {
		for i := range f.Vals {
			verts = append(verts, i)
		}
		return
	}
	for _, fc := range f.Faces {
		fan := [][3]int{{0, 1, 2}}
		if len(fc.Idx) == 4 {
			fan = append(fan, [3]int{0, 2, 3})
		}
		for _, tr := range fan {
			for _, c := range tr {
				verts = append(verts, fc.Idx[c])
				uvs = append(uvs, [2]float64{fc.UV[2*c], fc.UV[2*c+1]})
			}
		}
	}
	return
}
