#!/bin/bash
# Builds the harness from files on disk only (offline): verifies the module graph resolves from the
# module cache and warms the Go build cache.  Every ./check run rebuilds its binary from /repo's
# current working tree anyway.
set -u
cd "$(dirname "$0")/harness" || exit 2
export GOFLAGS=-mod=mod GOPROXY=off GOSUMDB=off GOTOOLCHAIN=local
mkdir -p ../.work ../evidence ../replays
rc=0
for d in c[0-9][0-9]; do
  [ -d "$d" ] || continue
  mkdir -p ../.work/${d^^}
  go test -c -tags verif -o ../.work/${d^^}/$d.test ./$d || rc=2
done
exit $rc
